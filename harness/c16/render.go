package c16

import (
	"fmt"
	"os"
	"path/filepath"
	"strings"

	"github.com/tsawler/tabula"
	"github.com/tsawler/tabula/docx"
	"github.com/tsawler/tabula/model"
	"github.com/tsawler/tabula/odt"
	"github.com/tsawler/tabula/rag"

	"verifharness/hx"
	"verifharness/writers"
)

// ---- the public views against the Lean model of the writers -----------------------------
//
// For every generated document ONE more reader is opened and its views are asked for in
// a drawn order with repetitions, with drawn options:
//
//	T TextWithOptions(opts)   M MarkdownWithOptions(opts)   R MarkdownWithRAGOptions(opts, {offset, max})
//	D Document()   L ModelTables()   P the parsed element list
//
// Every answer is written out in full and compared with the answer of the Lean model
// (Model/DocxRender.lean, Model/OdtRender.lean: the writers as functions of the
// authored trees), call by call: op c16.docx.views / c16.odt.views.

type viewOpts struct {
	ExH, ExF bool
	Off, Max int
}

func drawViewOpts(r *hx.Rng) viewOpts {
	o := viewOpts{}
	if r.Chance(1, 2) {
		o.ExH, o.ExF = r.Bool(), r.Bool()
	}
	if r.Chance(1, 2) {
		o.Off = r.Range(-3, 4)
		o.Max = hx.Pick(r, []int{0, 0, 1, 3, 6, 6, 9, -1})
	}
	return o
}

// drawCallSeq: every one of T, M, D once, shuffled, and up to four more calls put in at
// random places.
func drawCallSeq(r *hx.Rng) string {
	seq := []byte("TMD")
	hx.Shuffle(r, seq)
	for n := r.Intn(5); n > 0; n-- {
		v := hx.Pick(r, []byte("TMRDLPRL"))
		k := r.Intn(len(seq) + 1)
		seq = append(seq[:k], append([]byte{v}, seq[k:]...)...)
	}
	return string(seq)
}

func b01(b bool) string {
	if b {
		return "1"
	}
	return "0"
}

func treesField(ns []*Node) string {
	if len(ns) == 0 {
		return "-"
	}
	parts := make([]string, len(ns))
	for i, n := range ns {
		parts[i] = n.Sexp()
	}
	return strings.Join(parts, ";")
}

func orDash(s string) string {
	if s == "" {
		return "-"
	}
	return s
}

func dumpModelTable(t *model.Table) string {
	var rows []string
	for _, row := range t.Rows {
		var cells []string
		for _, c := range row {
			cells = append(cells, fmt.Sprintf("%s.%d.%d", hx.HexS(c.Text), c.RowSpan, c.ColSpan))
		}
		rows = append(rows, strings.Join(cells, ","))
	}
	return strings.Join(rows, "/")
}

func dumpModelDoc(doc *model.Document) string {
	var parts []string
	if doc == nil {
		return "nil"
	}
	for _, pg := range doc.Pages {
		for _, el := range pg.Elements {
			switch e := el.(type) {
			case *model.Paragraph:
				parts = append(parts, "p:"+hx.HexS(e.Text))
			case *model.Heading:
				parts = append(parts, fmt.Sprintf("h%d:%s", e.Level, hx.HexS(e.Text)))
			case *model.List:
				var items []string
				for _, it := range e.Items {
					items = append(items, fmt.Sprintf("%d.%s.%s", it.Level, hx.HexS(it.Bullet), hx.HexS(it.Text)))
				}
				parts = append(parts, "l"+b01(e.Ordered)+":"+strings.Join(items, ","))
			case *model.Table:
				parts = append(parts, "t:"+dumpModelTable(e))
			default:
				parts = append(parts, fmt.Sprintf("?%T", el))
			}
		}
	}
	return strings.Join(parts, ";")
}

func dumpModelTables(ts []*model.Table) string {
	var parts []string
	for _, t := range ts {
		parts = append(parts, dumpModelTable(t))
	}
	return strings.Join(parts, ";")
}

// callViews runs the call sequence on one reader (given as closures) and returns the
// answers in call order.
func callViews(seq string, text, md, ragmd func() (string, error), doc func() (*model.Document, error),
	mtables func() []*model.Table, parsed func() string) string {
	var out []string
	for _, v := range seq {
		switch v {
		case 'T':
			s, err := text()
			out = append(out, ans("T:"+hx.HexS(s), err))
		case 'M':
			s, err := md()
			out = append(out, ans("M:"+hx.HexS(s), err))
		case 'R':
			s, err := ragmd()
			out = append(out, ans("R:"+hx.HexS(s), err))
		case 'D':
			d, err := doc()
			out = append(out, ans("D:"+orDash(dumpModelDoc(d)), err))
		case 'L':
			out = append(out, "L:"+orDash(dumpModelTables(mtables())))
		case 'P':
			out = append(out, "P:"+strings.Replace(parsed(), " ", "|", 1))
		}
	}
	return strings.Join(out, " ")
}

func ans(s string, err error) string {
	if err != nil {
		return "err"
	}
	return s
}

func (o viewOpts) field() string {
	return fmt.Sprintf("%s %s %d %d", b01(o.ExH), b01(o.ExF), o.Off, o.Max)
}

// docxViewsOp: the views of one more DOCX reader against the model.
func docxViewsOp(c *hx.Ctx, pkg docxPkg, path string, o viewOpts, seq string, kase interface{}) {
	var impl string
	var openErr error
	pan := hx.Safe(func() {
		rd, err := docx.Open(path)
		if err != nil {
			openErr = err
			return
		}
		defer rd.Close()
		eo := docx.ExtractOptions{ExcludeHeaders: o.ExH, ExcludeFooters: o.ExF}
		impl = callViews(seq,
			func() (string, error) { return rd.TextWithOptions(eo) },
			func() (string, error) { return rd.MarkdownWithOptions(eo) },
			func() (string, error) {
				return rd.MarkdownWithRAGOptions(eo, rag.MarkdownOptions{HeadingLevelOffset: o.Off, MaxHeadingLevel: o.Max})
			},
			rd.Document, rd.ModelTables, func() string { return dumpDocx(rd.VerifElements()) })
	})
	if !c.Check("C16/panic", pan == "", kase, func() string { return "panic in a view: " + pan }) || openErr != nil {
		return
	}
	c.Op(fmt.Sprintf("c16.docx.views %s %s %s %s %s %s %s", pkg.Doc.Sexp(), sexpOrDash(pkg.Styles), sexpOrDash(pkg.Numbering),
		treesField(pkg.Headers), treesField(pkg.Footers), o.field(), seq), impl)
	countViews(c, "docx", o, seq)
}

func countViews(c *hx.Ctx, F string, o viewOpts, seq string) {
	c.Count(F + "-views-op")
	if o.ExH || o.ExF {
		c.Count(F + "-views-with-exclusion-options")
	}
	switch {
	case o.Off < 0:
		c.Count(F + "-views-heading-offset-negative")
	case o.Off > 0:
		c.Count(F + "-views-heading-offset-positive")
	}
	if o.Max != 0 {
		c.Count(fmt.Sprintf("%s-views-max-heading-level=%d", F, o.Max))
	}
	c.Count(fmt.Sprintf("%s-views-call-sequence-length=%d", F, len(seq)))
	for _, v := range "TMRDLP" {
		if strings.Count(seq, string(v)) > 1 {
			c.Count(F + "-views-repeated-call-" + string(v))
		}
	}
}

// odtViewsOp: the views of one more ODT reader against the model.
func odtViewsOp(c *hx.Ctx, pkg odtPkg, path string, o viewOpts, seq string, kase interface{}) {
	var impl string
	var openErr error
	pan := hx.Safe(func() {
		rd, err := odt.Open(path)
		if err != nil {
			openErr = err
			return
		}
		defer rd.Close()
		eo := odt.ExtractOptions{ExcludeHeaders: o.ExH, ExcludeFooters: o.ExF}
		impl = callViews(seq,
			func() (string, error) { return rd.TextWithOptions(eo) },
			func() (string, error) { return rd.MarkdownWithOptions(eo) },
			func() (string, error) {
				return rd.MarkdownWithRAGOptions(eo, rag.MarkdownOptions{HeadingLevelOffset: o.Off, MaxHeadingLevel: o.Max})
			},
			rd.Document, rd.ModelTables, func() string { return dumpOdt(rd.VerifElements()) })
	})
	if !c.Check("C16/panic", pan == "", kase, func() string { return "panic in a view: " + pan }) || openErr != nil {
		return
	}
	c.Op(fmt.Sprintf("c16.odt.views %s %s %s %s", pkg.Content.Sexp(), sexpOrDash(pkg.Styles), o.field(), seq), impl)
	countViews(c, "odt", o, seq)
}

// ---- the render stream: documents about what the writers do with the elements -------------
//
// genRenderDoc starts from a document of the regular generator and plants what the plain
// text / Markdown / document-model writers branch on and the regular documents lack:
//   - body paragraphs (plain, headings, list items, cell paragraphs) whose text IS a line of
//     the header or footer part - bare, padded with spaces / tabs / no-break spaces / line
//     breaks - and near misses (the line with a letter more, two lines in one paragraph);
//   - cell text with pipes, leading / trailing spaces, Unicode spaces, only spaces;
//   - a first paragraph that begins and a last one that ends with line breaks;
//   - paragraphs and list items without any text, between the items of a list and elsewhere;
//   - DOCX: headings that also carry numbering properties; numbering parts drawn at random
//     (every number format incl. unknown ones, level texts that are a plain character, a
//     pattern, a Private-Use character, a control character, empty; start values 0, negative,
//     huge, not a number; levels missing; abstract numberings defined twice; numbering ids
//     that point nowhere; list items with numbering ids the part does not define, with 0);
//   - ODT: lists without a style name (after a list that has one, and first in the document),
//     lists naming an undefined style, list styles drawn at random (bullet characters empty or
//     not, number levels, levels missing, a style defined twice).
// Their text pieces are no unique tokens, so the statement-level oracles of the regular
// documents do not apply; what is checked is the correspondence of every view with the Lean
// model (c16.docx.views / c16.odt.views, options drawn with exclusion on in most cases), that
// nothing panics, and the leak count: with default options a header / footer line occurs in
// Text() and Markdown() exactly as often as it was planted in the body, with exclusion
// options at most as often (oracle keys <format>-render-header-leak, -exclusion-adds-text).

const renderBase = 4_000_000

var padChoices = []string{"", "", " ", "  ", "\t", " ", "  ", " 　"}

func lit(s string) inl { return inl{Kind: "lit", Tok: s} }

func (d *ldoc) plant(line string) {
	if d.Planted == nil {
		d.Planted = map[string]int{}
	}
	d.Planted[line]++
}

// plantedPara: a paragraph whose text is the header / footer line (or nearly so).
func (d *ldoc) plantedPara(r *hx.Rng, lines []string) *lpara {
	line := hx.Pick(r, lines)
	p := &lpara{Kind: "p"}
	items := []inl{}
	if pad := hx.Pick(r, padChoices); pad != "" {
		items = append(items, lit(pad))
	}
	switch r.Intn(8) {
	case 0: // near miss: one letter more
		items = append(items, lit(line+"x"))
		d.plant(line)
	case 1: // near miss: two lines in one paragraph, separated by a line break
		other := hx.Pick(r, lines)
		items = append(items, lit(line), inl{Kind: "br"}, lit(other))
		d.plant(line)
		d.plant(other)
	case 2: // near miss: a prefix (the whole line is not there)
		items = append(items, lit(line[:len(line)-1]))
	default:
		items = append(items, lit(line))
		d.plant(line)
	}
	if pad := hx.Pick(r, padChoices); pad != "" {
		items = append(items, lit(pad))
	}
	if r.Chance(1, 6) {
		items = append(items, inl{Kind: "br"})
	}
	// the pieces in one run or spread over several
	if r.Bool() {
		p.Runs = []lrun{{Items: items}}
	} else {
		for _, it := range items {
			p.Runs = append(p.Runs, lrun{Items: []inl{it}})
		}
	}
	switch r.Intn(6) {
	case 0:
		p.Kind, p.Level, p.Via = "h", r.Range(1, 6), "builtin"
	case 1:
		p.Kind, p.NumID, p.Level = "li", r.Range(1, 3), 0
	}
	return p
}

var cellLits = []string{"a|b", "|", " lead", "trail ", "  ", " nb ", "x | y | z", " em", "||", " | "}

func insertBlock(r *hx.Rng, d *ldoc, bl lblock) {
	k := r.Intn(len(d.Blocks) + 1)
	d.Blocks = append(d.Blocks[:k], append([]lblock{bl}, d.Blocks[k:]...)...)
}

func genRenderDoc(r *hx.Rng, F string) *ldoc {
	d := genDoc(r, F)
	d.Render = true
	if F == "odt" || r.Chance(2, 3) {
		d.Styles = true // the ODT header and footer live in styles.xml
	}
	if len(d.Header) == 0 {
		d.Header = []string{"HDR901x"}
	}
	if len(d.Footer) == 0 && r.Chance(2, 3) {
		d.Footer = []string{"FTR902x", "FTR903x"}[:r.Range(1, 2)]
	}
	lines := append(append([]string{}, d.Header...), d.Footer...)
	// a table to plant in, now and then
	if r.Chance(1, 3) {
		insertBlock(r, d, lblock{T: d.genTable(r, 1)})
	}
	for n := r.Range(1, 3); n > 0; n-- {
		insertBlock(r, d, lblock{P: d.plantedPara(r, lines)})
	}
	for bi := range d.Blocks {
		t := d.Blocks[bi].T
		if t == nil {
			continue
		}
		for _, cell := range t.Cells {
			if len(cell.Paras) == 0 {
				continue
			}
			cp := &cell.Paras[r.Intn(len(cell.Paras))]
			switch r.Intn(6) {
			case 0: // a header line in a cell: tables are never filtered
				line := hx.Pick(r, lines)
				cp.Runs = []lrun{{Items: []inl{lit(line)}}}
				d.plant(line)
			case 1, 2:
				cp.Runs = append(cp.Runs, lrun{Items: []inl{lit(hx.Pick(r, cellLits))}})
			case 3:
				cp.Runs = append([]lrun{{Items: []inl{lit(hx.Pick(r, cellLits))}}}, cp.Runs...)
			}
		}
	}
	if r.Chance(1, 3) {
		first := &lpara{Kind: "p", Runs: []lrun{{Items: []inl{{Kind: "br"}, {Kind: "t", Tok: d.tok(r)}}}}}
		d.Blocks = append([]lblock{{P: first}}, d.Blocks...)
	}
	if r.Chance(1, 3) {
		last := &lpara{Kind: "p", Runs: []lrun{{Items: []inl{{Kind: "t", Tok: d.tok(r)}, {Kind: "br"}, {Kind: "br"}}}}}
		d.Blocks = append(d.Blocks, lblock{P: last})
	}
	// paragraphs and list items without text
	for n := r.Intn(3); n > 0; n-- {
		p := &lpara{Kind: "p"}
		if r.Bool() {
			p.Kind, p.NumID, p.Level = "li", r.Range(1, 3), r.Intn(2)
			if F == "odt" {
				p.Level = 0
			}
		}
		insertBlock(r, d, lblock{P: p})
	}
	// lists: other numberings / list styles, ids that point nowhere
	if r.Chance(2, 3) {
		d.Numbering = true
		d.NumSeed = r.U64() | 1
	}
	remap := map[int]int{}
	for bi := range d.Blocks {
		p := d.Blocks[bi].P
		if p == nil {
			continue
		}
		if p.Kind == "li" && r.Chance(1, 3) {
			if _, ok := remap[p.NumID]; !ok {
				remap[p.NumID] = hx.Pick(r, []int{0, 4, 5, p.NumID})
			}
		}
		if F == "docx" && p.Kind == "h" && r.Chance(1, 5) {
			p.AlsoList, p.NumID = true, r.Range(1, 3)
		}
	}
	for bi := range d.Blocks {
		if p := d.Blocks[bi].P; p != nil && p.Kind == "li" {
			if to, ok := remap[p.NumID]; ok && (F == "odt" || r.Bool()) {
				p.NumID = to
			}
		}
	}
	return d
}

var numFmts = []string{"decimal", "lowerLetter", "upperLetter", "lowerRoman", "upperRoman", "bullet", "bullet", "chicago", "none", ""}
var lvlTexts = []string{"•", "o", "", "%1.", "%1.%2", "", "x", "x", "\t", "-", "→", "§", "*"}
var startVals = []string{"1", "1", "", "0", "3", "-2", "27", "3999", "4000", "9223372036854775807", "abc", "+5", "007"}

// docxNumberingVariant: a numbering part drawn at random (see genRenderDoc).
func docxNumberingVariant(r *hx.Rng) *Node {
	n := E("w:numbering")
	nAbs := r.Range(1, 4)
	for an := 0; an < nAbs; an++ {
		id := an
		if an > 0 && r.Chance(1, 5) {
			id = an - 1 // an abstract numbering defined twice: the later definition counts
		}
		abs := E("w:abstractNum").A("w:abstractNumId", fmt.Sprint(id))
		for l := 0; l < 9; l++ {
			if r.Chance(1, 8) {
				continue // a level the numbering does not define
			}
			il := fmt.Sprint(l)
			if r.Chance(1, 12) {
				il = "0" + il // another spelling: the reader compares the text
			}
			lvl := E("w:lvl").A("w:ilvl", il)
			if sv := hx.Pick(r, startVals); sv != "" || r.Bool() {
				lvl.Add(wval("w:start", sv))
			}
			lvl.Add(wval("w:numFmt", hx.Pick(r, numFmts)), wval("w:lvlText", hx.Pick(r, lvlTexts)))
			abs.Add(lvl)
			if r.Chance(1, 12) {
				abs.Add(E("w:lvl", wval("w:numFmt", "decimal")).A("w:ilvl", fmt.Sprint(l))) // the level once more: the first counts
			}
		}
		n.Add(abs)
	}
	for id := 1; id <= 3; id++ {
		if r.Chance(1, 8) {
			continue // a numbering id the part does not define
		}
		target := fmt.Sprint(r.Intn(nAbs + 1)) // now and then an abstract numbering that does not exist
		n.Add(E("w:num", wval("w:abstractNumId", target)).A("w:numId", fmt.Sprint(id)))
		if r.Chance(1, 8) {
			n.Add(E("w:num", wval("w:abstractNumId", fmt.Sprint(r.Intn(nAbs)))).A("w:numId", fmt.Sprint(id))) // mapped twice
		}
	}
	return n
}

// odtListStylesVariant: list styles drawn at random (see genRenderDoc).
func odtListStylesVariant(r *hx.Rng) []*Node {
	var out []*Node
	for id := 1; id <= 3; id++ {
		if r.Chance(1, 8) {
			continue
		}
		reps := 1
		if r.Chance(1, 6) {
			reps = 2 // the style defined twice: the later definition counts
		}
		for ; reps > 0; reps-- {
			ls := E("text:list-style").A("style:name", fmt.Sprintf("L%d", id))
			for l := 1; l <= 5; l++ {
				if r.Chance(1, 6) {
					continue
				}
				if r.Bool() {
					b := E("text:list-level-style-bullet").A("text:level", fmt.Sprint(l))
					if bc := hx.Pick(r, []string{"•", "◦", "", "-", ""}); bc != "" || r.Bool() {
						b.A("text:bullet-char", bc)
					}
					ls.Add(b)
				} else {
					ls.Add(E("text:list-level-style-number").A("text:level", fmt.Sprint(l)).A("style:num-format", hx.Pick(r, []string{"1", "a", "I", ""})).
						A("text:start-value", hx.Pick(r, []string{"1", "3", "0"})))
				}
				if r.Chance(1, 10) { // the level in both kinds: the bullet definition is looked at first
					ls.Add(E("text:list-level-style-bullet").A("text:level", fmt.Sprint(l)).A("text:bullet-char", "#"))
				}
			}
			out = append(out, ls)
		}
	}
	return out
}

// RunRenderDoc: document #idx of the render stream.
func RunRenderDoc(c *hx.Ctx, idx int, keep bool) {
	r := c.Rng.Fork(uint64(idx))
	F := formatOf(idx)
	d := genRenderDoc(r, F)
	kase := docCase{Seed: c.Seed, Index: idx, Format: F}
	path := filepath.Join(c.OutDir, fmt.Sprintf("doc-%d.%s", idx, F))
	var dpkg docxPkg
	var opkg odtPkg
	var opLine string
	fr := flavourStream(c, idx)
	d.Flavour = pickFlavour(fr, F)
	if F == "docx" {
		dpkg = writeDocx(r, d)
		os.WriteFile(path, writers.Zip(applyFlavour(fr, F, d.Flavour, dpkg.Members)), 0o644)
		opLine = "c16.docx " + dpkg.Doc.Sexp() + " " + sexpOrDash(dpkg.Styles)
	} else {
		opkg = writeOdt(r, d)
		os.WriteFile(path, writers.Zip(applyFlavour(fr, F, d.Flavour, opkg.Members)), 0o644)
		opLine = "c16.odt " + opkg.Content.Sexp() + " " + sexpOrDash(opkg.Styles)
	}
	if keep {
		kase.File = path
	} else {
		defer os.Remove(path)
	}
	var implLine, text, md, textX, mdX string
	var openErr error
	pan := hx.Safe(func() {
		if F == "docx" {
			rd, err := docx.Open(path)
			if err != nil {
				openErr = err
				return
			}
			defer rd.Close()
			implLine = dumpDocx(rd.VerifElements())
			text, _ = rd.Text()
			md, _ = rd.Markdown()
			textX, _ = rd.TextWithOptions(docx.ExtractOptions{ExcludeHeaders: true, ExcludeFooters: true})
			mdX, _ = rd.MarkdownWithOptions(docx.ExtractOptions{ExcludeHeaders: true, ExcludeFooters: true})
		} else {
			rd, err := odt.Open(path)
			if err != nil {
				openErr = err
				return
			}
			defer rd.Close()
			implLine = dumpOdt(rd.VerifElements())
			text, _ = rd.Text()
			md, _ = rd.Markdown()
			textX, _ = rd.TextWithOptions(odt.ExtractOptions{ExcludeHeaders: true, ExcludeFooters: true})
			mdX, _ = rd.MarkdownWithOptions(odt.ExtractOptions{ExcludeHeaders: true, ExcludeFooters: true})
		}
	})
	if !c.Check("C16/panic", pan == "", kase, func() string { return "panic: " + pan }) {
		c.Case(d.canon(), false)
		return
	}
	if !c.Check("C16/"+F+"-open", openErr == nil, kase, func() string { return fmt.Sprint(openErr) }) {
		c.Case(d.canon(), false)
		return
	}
	c.Op(opLine, implLine)
	vr := c.Rng.Fork(uint64(idx) + 1<<41)
	o := drawViewOpts(vr)
	if vr.Chance(3, 4) {
		o.ExH, o.ExF = vr.Chance(3, 4), vr.Chance(3, 4)
	}
	seq := drawCallSeq(vr)
	if F == "docx" {
		docxViewsOp(c, dpkg, path, o, seq, kase)
		apiOp(c, F, path, docxModelArgs(dpkg), vr.Bool(), vr.Bool(), kase)
	} else {
		odtViewsOp(c, opkg, path, o, seq, kase)
		apiOp(c, F, path, odtModelArgs(opkg), vr.Bool(), vr.Bool(), kase)
	}
	// the leak count
	lines := append(append([]string{}, d.Header...), d.Footer...)
	for _, line := range lines {
		want := d.Planted[line]
		for _, v := range []struct{ name, s, sx string }{{"Text()", text, textX}, {"Markdown()", md, mdX}} {
			got, gotX := strings.Count(v.s, line), strings.Count(v.sx, line)
			c.Check("C16/"+F+"-render-header-leak", got == want, kase, func() string {
				return fmt.Sprintf("%s holds the header/footer line %q %d times, the body says it %d times", v.name, line, got, want)
			})
			c.Check("C16/"+F+"-exclusion-adds-text", gotX <= got, kase, func() string {
				return fmt.Sprintf("%s with ExcludeHeaders/ExcludeFooters holds %q %d times, without %d times", v.name, line, gotX, got)
			})
			if gotX < got {
				c.Count(F + "-render-exclusion-removed-a-paragraph")
			}
		}
	}
	c.Count(F + "-render-document")
	if d.Flavour != "" {
		c.Count(F + "-render-markup-flavour:" + d.Flavour)
	}
	if d.NumSeed != 0 {
		c.Count(F + "-render-drawn-numbering/list-styles")
	}
	for _, bl := range d.Blocks {
		if p := bl.P; p != nil {
			if p.AlsoList {
				c.Count("docx-render-heading-with-numbering-properties")
			}
			if p.Kind == "li" && (p.NumID == 0 || p.NumID > 3) {
				c.Count(fmt.Sprintf("%s-render-list-item-numbering-id=%d", F, p.NumID))
			}
			if len(p.Runs) == 0 {
				c.Count(F + "-render-paragraph-without-text:" + p.Kind)
			}
		}
	}
	c.Case(d.canon(), text != "")
}

// ---- histories of Resolve calls on one style resolver ------------------------------------
//
// The readers resolve styles through a cache that fills in document order. resolveOp builds
// ONE resolver for the document's styles and asks it for a drawn history of style ids: the
// ids the document uses (derived styles before and after their ancestors), ids it does not
// define, the empty id - in random order, with repetitions. Every answer is compared with
// the Lean model of the cached resolver (ops c16.docx.resolve / c16.odt.resolve).

func styleIDsOf(n *Node, attr string, into map[string]bool) {
	if n == nil || n.Tag == "" {
		return
	}
	for _, a := range n.Attrs {
		if a[0] == attr {
			into[a[1]] = true
		}
	}
	for _, k := range n.Kids {
		styleIDsOf(k, attr, into)
	}
}

func drawResolveHistory(r *hx.Rng, used map[string]bool, extra []string) []string {
	pool := append(hx.SortedKeys(used), extra...)
	n := r.Range(3, 12)
	out := make([]string, 0, n)
	for i := 0; i < n; i++ {
		if len(out) > 0 && r.Chance(1, 4) {
			out = append(out, out[r.Intn(len(out))]) // asked for again
			continue
		}
		out = append(out, hx.Pick(r, pool))
	}
	return out
}

func dumpHeadings(n int, at func(i int) (bool, int)) string {
	parts := make([]string, n)
	for i := range parts {
		if is, l := at(i); is {
			parts[i] = fmt.Sprintf("h%d", l)
		} else {
			parts[i] = "-"
		}
	}
	return strings.Join(parts, ",")
}

func docxResolveOp(c *hx.Ctx, r *hx.Rng, pkg docxPkg, kase interface{}) {
	used := map[string]bool{}
	styleIDsOf(pkg.Doc, "w:val", used) // pStyle values among them; the others are ids no style has
	styleIDsOf(pkg.Styles, "w:styleId", used)
	ids := drawResolveHistory(r, used, []string{"", "Heading2", "heading 3", "TITLE", "Subtitle", "NoSuchStyle", ""})
	var data []byte
	if pkg.Styles != nil {
		data = pkg.Styles.XML(docxNS)
	}
	var impl string
	pan := hx.Safe(func() {
		hs := docx.VerifResolveHeadings(data, ids)
		impl = dumpHeadings(len(hs), func(i int) (bool, int) { return hs[i].IsHeading, hs[i].Level })
	})
	if !c.Check("C16/panic", pan == "", kase, func() string { return "panic in Resolve: " + pan }) {
		return
	}
	c.Op("c16.docx.resolve "+sexpOrDash(pkg.Styles)+" "+hx.HexList(ids), impl)
	countHistory(c, "docx", ids)
}

func odtResolveOp(c *hx.Ctx, r *hx.Rng, pkg odtPkg, kase interface{}) {
	used := map[string]bool{}
	styleIDsOf(pkg.Content, "text:style-name", used)
	styleIDsOf(pkg.Content, "style:name", used)
	styleIDsOf(pkg.Styles, "style:name", used)
	names := drawResolveHistory(r, used, []string{"", "Heading_20_2", "Heading 3", "Heading_20_10", "Title", "heading7", "NoSuchStyle", ""})
	var data []byte
	if pkg.Styles != nil {
		data = pkg.Styles.XML(odtNS)
	}
	var impl string
	pan := hx.Safe(func() {
		hs := odt.VerifResolveHeadings(pkg.Content.XML(odtNS), data, names)
		impl = dumpHeadings(len(hs), func(i int) (bool, int) { return hs[i].IsHeading, hs[i].Level })
	})
	if !c.Check("C16/panic", pan == "", kase, func() string { return "panic in Resolve: " + pan }) {
		return
	}
	c.Op("c16.odt.resolve "+pkg.Content.Sexp()+" "+sexpOrDash(pkg.Styles)+" "+hx.HexList(names), impl)
	countHistory(c, "odt", names)
}

func countHistory(c *hx.Ctx, F string, ids []string) {
	c.Count(F + "-resolve-history")
	seen := map[string]bool{}
	rep := false
	for _, id := range ids {
		rep = rep || (seen[id] && id != "")
		seen[id] = true
	}
	if rep {
		c.Count(F + "-resolve-history-with-repeated-id")
	}
	if seen[""] {
		c.Count(F + "-resolve-history-with-empty-id")
	}
}

// docxVMergeOps: for every table of the body the row spans the reader holds against the
// state-free specification of the vertical-merge pass (op c16.docx.vmerge).
func docxVMergeOps(c *hx.Ctx, pkg docxPkg, els []docx.VerifElem) {
	k := 0
	for _, e := range els {
		if e.Kind != "tbl" {
			continue
		}
		if k >= len(pkg.Tables) {
			break
		}
		var rows []string
		merged := false
		for _, r := range e.Rows {
			var cells []string
			for _, cell := range r {
				cells = append(cells, fmt.Sprint(cell.RowSpan))
				merged = merged || cell.Cont
			}
			rows = append(rows, strings.Join(cells, ","))
		}
		c.Op("c16.docx.vmerge "+pkg.Tables[k].Sexp(), strings.Join(rows, "/"))
		if merged {
			c.Count("docx-vmerge-spec-op-on-a-table-with-continuation-cells")
		} else {
			c.Count("docx-vmerge-spec-op-on-a-table-without-merges")
		}
		k++
	}
}

// apiOp: the three views through the public entry point tabula.Open(f), with the
// extractor's exclusion switches drawn, against the model of the API layer (ops
// c16.docx.api / c16.odt.api).
func apiOp(c *hx.Ctx, F, path, modelArgs string, exH, exF bool, kase interface{}) {
	open := func() *tabula.Extractor {
		e := tabula.Open(path)
		switch {
		case exH && exF:
			e = e.ExcludeHeadersAndFooters()
		case exH:
			e = e.ExcludeHeaders()
		case exF:
			e = e.ExcludeFooters()
		}
		return e
	}
	var impl string
	var apiErr error
	pan := hx.Safe(func() {
		t, _, e1 := open().Text()
		m, _, e2 := open().ToMarkdown()
		d, _, e3 := open().Document()
		for _, e := range []error{e1, e2, e3} {
			if e != nil {
				apiErr = e
			}
		}
		impl = fmt.Sprintf("T:%s M:%s D:%s", hx.HexS(t), hx.HexS(m), orDash(dumpModelDoc(d)))
	})
	if !c.Check("C16/panic", pan == "", kase, func() string { return "panic in tabula.Open(f) view: " + pan }) || apiErr != nil {
		return
	}
	c.Op(fmt.Sprintf("c16.%s.api %s %s %s", F, modelArgs, b01(exH), b01(exF)), impl)
	c.Count(fmt.Sprintf("%s-api-op-exclude-headers=%v-footers=%v", F, exH, exF))
}

func docxModelArgs(pkg docxPkg) string {
	return fmt.Sprintf("%s %s %s %s %s", pkg.Doc.Sexp(), sexpOrDash(pkg.Styles), sexpOrDash(pkg.Numbering), treesField(pkg.Headers), treesField(pkg.Footers))
}

func odtModelArgs(pkg odtPkg) string { return pkg.Content.Sexp() + " " + sexpOrDash(pkg.Styles) }
