// Package c16: word-processor documents (DOCX, ODT) keep their order and structure.
package c16

import (
	"fmt"
	"os"
	"path/filepath"
	"strings"

	"github.com/tsawler/tabula"
	"github.com/tsawler/tabula/docx"
	"github.com/tsawler/tabula/odt"

	"verifharness/hx"
	"verifharness/writers"
)

type docCase struct {
	Seed   uint64 `json:"seed"`
	Index  int    `json:"index"`
	Format string `json:"format"`
	File   string `json:"file,omitempty"`
}

func sexpOrDash(n *Node) string {
	if n == nil {
		return "-"
	}
	return n.Sexp()
}

// ---- canonical element lists (what the correspondence compares) ---------------------

func dumpDocx(els []docx.VerifElem) string {
	var parts []string
	for _, e := range els {
		if e.Kind == "p" {
			h, l := "-", "-"
			if e.IsHeading {
				h = fmt.Sprintf("h%d", e.Level)
			}
			if e.IsListItem {
				l = fmt.Sprintf("%s.%d", hx.HexS(e.NumID), e.ListLevel)
			}
			parts = append(parts, "p:"+h+":"+l+":"+hx.HexS(e.Text))
			continue
		}
		var rows []string
		for _, r := range e.Rows {
			var cells []string
			for _, c := range r {
				cont := 0
				if c.Cont {
					cont = 1
				}
				cells = append(cells, fmt.Sprintf("%s.%d.%d.%d", hx.HexS(c.Text), c.ColSpan, c.RowSpan, cont))
			}
			rows = append(rows, strings.Join(cells, ","))
		}
		parts = append(parts, "t:"+strings.Join(rows, "/"))
	}
	return fmt.Sprintf("%d %s", len(els), strings.Join(parts, ";"))
}

func dumpOdt(els []odt.VerifElem) string {
	var parts []string
	for _, e := range els {
		if e.Kind == "p" {
			h, l := "-", "-"
			if e.IsHeading {
				h = fmt.Sprintf("h%d", e.Level)
			}
			if e.IsListItem {
				l = fmt.Sprintf("L%d", e.ListLevel)
			}
			parts = append(parts, "p:"+h+":"+l+":"+hx.HexS(e.Text))
			continue
		}
		var rows []string
		for _, r := range e.Rows {
			var cells []string
			for _, c := range r {
				cov := 0
				if c.Covered {
					cov = 1
				}
				cells = append(cells, fmt.Sprintf("%s.%d.%d.%d", hx.HexS(c.Text), c.ColSpan, c.RowSpan, cov))
			}
			rows = append(rows, strings.Join(cells, ","))
		}
		parts = append(parts, "t:"+strings.Join(rows, "/"))
	}
	return fmt.Sprintf("%d %s", len(els), strings.Join(parts, ";"))
}

// ---- one generated document -------------------------------------------------------------

// gridBase: documents with an index from here on are drawn by genGridDoc (tables that
// combine horizontal and vertical merges); below it by genDoc.
const gridBase = 2_000_000

func docFor(r *hx.Rng, idx int) *ldoc {
	if idx >= renderBase {
		return genRenderDoc(r, formatOf(idx))
	}
	if idx >= edgeBase {
		return genEdgeDoc(r, formatOf(idx))
	}
	if idx >= gridBase {
		return genGridDoc(r, formatOf(idx))
	}
	return genDoc(r, formatOf(idx))
}

func parsedDocx(els []docx.VerifElem) []ptable {
	var out []ptable
	for _, e := range els {
		if e.Kind != "tbl" {
			continue
		}
		pt := ptable{}
		for _, row := range e.Rows {
			var cells []pcell
			for _, c := range row {
				cells = append(cells, pcell{Text: c.Text, CS: c.ColSpan, RS: c.RowSpan, Flag: c.Cont})
			}
			pt = append(pt, cells)
		}
		out = append(out, pt)
	}
	return out
}

func parsedOdt(els []odt.VerifElem) []ptable {
	var out []ptable
	for _, e := range els {
		if e.Kind != "tbl" {
			continue
		}
		pt := ptable{}
		for _, row := range e.Rows {
			var cells []pcell
			for _, c := range row {
				cells = append(cells, pcell{Text: c.Text, CS: c.ColSpan, RS: c.RowSpan, Flag: c.Covered})
			}
			pt = append(pt, cells)
		}
		out = append(out, pt)
	}
	return out
}

func formatOf(idx int) string {
	if idx%2 == 0 {
		return "docx"
	}
	return "odt"
}

// RunDoc generates document #idx of the seed's stream, writes the package, runs the
// implementation through both API layers and evaluates correspondence + oracles.
func RunDoc(c *hx.Ctx, idx int, keep bool) {
	r := c.Rng.Fork(uint64(idx))
	F := formatOf(idx)
	d := docFor(r, idx)
	drawStructure(structStream(c, idx), d)
	kase := docCase{Seed: c.Seed, Index: idx, Format: F}
	path := filepath.Join(c.OutDir, fmt.Sprintf("doc-%d.%s", idx, F))
	var opLine string
	var odtTables []*Node
	var dpkg docxPkg
	var opkg odtPkg
	// the markup flavour: the same logical document, the same authored trees, the
	// namespaces of the package spelled another way (a stream of its own)
	fr := flavourStream(c, idx)
	d.Flavour = pickFlavour(fr, F)
	if F == "docx" {
		pkg := writeDocx(r, d)
		dpkg = pkg
		os.WriteFile(path, writers.Zip(applyFlavour(fr, F, d.Flavour, pkg.Members)), 0o644)
		opLine = "c16.docx " + pkg.Doc.Sexp() + " " + sexpOrDash(pkg.Styles)
	} else {
		pkg := writeOdt(r, d)
		opkg = pkg
		os.WriteFile(path, writers.Zip(applyFlavour(fr, F, d.Flavour, pkg.Members)), 0o644)
		opLine = "c16.odt " + pkg.Content.Sexp() + " " + sexpOrDash(pkg.Styles)
		odtTables = pkg.Tables
	}
	if keep {
		kase.File = path
	} else {
		defer os.Remove(path)
	}

	var out outputs
	var implLine string
	var openErr, apiErr error
	var rdText, rdMD string
	var colCounts []int
	var docxEls []docx.VerifElem
	seq := viewSeq(c.Rng.Fork(uint64(idx) + 1<<40))
	var reused viewRun
	pan := hx.Safe(func() {
		if F == "docx" {
			rd, err := docx.Open(path)
			if err != nil {
				openErr = err
				return
			}
			defer rd.Close()
			els := rd.VerifElements()
			docxEls = els
			implLine = dumpDocx(els)
			out.Parsed, out.HaveParsed = parsedDocx(els), true
			out.Hdr, out.Ftr, out.HaveHF = rd.HeaderTexts(), rd.FooterTexts(), true
			rdText, _ = rd.Text()
			rdMD, _ = rd.Markdown()
		} else {
			rd, err := odt.Open(path)
			if err != nil {
				openErr = err
				return
			}
			defer rd.Close()
			els := rd.VerifElements()
			implLine = dumpOdt(els)
			out.Parsed, out.HaveParsed = parsedOdt(els), true
			for _, t := range rd.Tables() {
				colCounts = append(colCounts, len(t.ColWidths))
			}
			out.Hdr, out.Ftr, out.HaveHF = rd.HeaderTexts(), rd.FooterTexts(), true
			rdText, _ = rd.Text()
			rdMD, _ = rd.Markdown()
		}
		// the views of ONE more reader, asked for in the drawn order
		if v, err := openViews(F, path); err == nil {
			reused = v.run(seq)
			v.close()
		} else {
			openErr = err
			return
		}
		var e1, e2, e3 error
		out.Text, _, e1 = tabula.Open(path).Text()
		out.MD, _, e2 = tabula.Open(path).ToMarkdown()
		out.Doc, _, e3 = tabula.Open(path).Document()
		for _, e := range []error{e1, e2, e3} {
			if e != nil {
				apiErr = e
			}
		}
	})
	if !c.Check("C16/panic", pan == "", kase, func() string { return "panic: " + pan }) {
		c.Case(d.canon(), false)
		return
	}
	if !c.Check("C16/"+F+"-open", openErr == nil && apiErr == nil, kase, func() string { return fmt.Sprint(openErr, apiErr) }) {
		c.Case(d.canon(), false)
		return
	}
	c.Op(opLine, implLine)
	for k, tn := range odtTables {
		// number-columns-repeated: the number of column widths the reader holds for the table
		got := "missing"
		if k < len(colCounts) {
			got = fmt.Sprint(colCounts[k])
		}
		c.Op("c16.odtcols "+columnsOnly(tn).Sexp(), got)
	}
	vr := c.Rng.Fork(uint64(idx) + 1<<41)
	if F == "docx" {
		docxViewsOp(c, dpkg, path, drawViewOpts(vr), drawCallSeq(vr), kase)
		docxResolveOp(c, vr, dpkg, kase)
		docxVMergeOps(c, dpkg, docxEls)
		if idx%3 == 0 {
			apiOp(c, F, path, docxModelArgs(dpkg), vr.Chance(1, 3), vr.Chance(1, 3), kase)
		}
		if d.Fam != nil || d.Body != "" || idx%4 == 0 {
			// the element list as the model computes it WITH the resolver's cache
			c.Op("c16.docx.cached "+dpkg.Doc.Sexp()+" "+sexpOrDash(dpkg.Styles), implLine)
			c.Count("docx-element-list-with-cache-op")
		}
	} else {
		odtViewsOp(c, opkg, path, drawViewOpts(vr), drawCallSeq(vr), kase)
		odtResolveOp(c, vr, opkg, kase)
		if idx%3 == 1 {
			apiOp(c, F, path, odtModelArgs(opkg), vr.Chance(1, 3), vr.Chance(1, 3), kase)
		}
	}
	c.Check("C16/"+F+"-api-agree", out.Text == rdText && out.MD == rdMD, kase, func() string {
		return fmt.Sprintf("tabula.Open(f).Text()/ToMarkdown() differ from the %s reader's Text()/Markdown()", F)
	})
	checkReused(c, d, reused, kase)
	f := evaluate(d, out)
	if dbg := os.Getenv("VERIF_C16_DEBUG"); dbg != "" {
		for k, det := range f {
			if strings.Contains(k, dbg) {
				fmt.Fprintf(os.Stderr, "DEBUG %s-%s idx=%d: %s\n", F, k, idx, det)
			}
		}
	}
	for _, k := range oracleKeys[F] {
		detail, bad := f[k]
		c.Check("C16/"+F+"-"+k, !bad, kase, func() string { return detail })
	}
	for k, detail := range f { // a key the table above does not list is still a failure
		known := false
		for _, kk := range oracleKeys[F] {
			known = known || kk == k
		}
		if !known {
			det := detail
			c.Check("C16/"+F+"-"+k, false, kase, func() string { return det })
		}
	}
	stats(c, d)
	c.Case(d.canon(), len(flatten(out.Doc)) > 0)
}

func stats(c *hx.Ctx, d *ldoc) {
	c.Count(d.Format)
	c.Count(fmt.Sprintf("%s-blocks=%d", d.Format, min(len(d.Blocks), 12)))
	if !d.Styles {
		c.Count(d.Format + "-no-styles-part")
	}
	if len(d.Header)+len(d.Footer) > 0 {
		c.Count(d.Format + "-header/footer")
	}
	if d.Fam != nil {
		c.Count(d.Format + "-style-family")
	}
	if d.Grid {
		c.Count(d.Format + "-merge-grid-document")
	}
	if d.Edge {
		c.Count(d.Format + "-edge-attribute-document")
	}
	if d.Flavour != "" {
		c.Count(d.Format + "-markup-flavour:" + d.Flavour)
		for _, k := range strings.Split(d.Flavour, "+") {
			c.Count(d.Format + "-markup:" + k)
			if len(d.Header)+len(d.Footer) > 0 && (d.Format == "docx" || d.Styles) {
				c.Count(d.Format + "-markup:" + k + "-with-header/footer-part")
			}
		}
	}
	if d.Body != "" {
		c.Count(d.Format + "-body-style-document:" + d.Body)
	}
	statsStructure(c, d)
	shared := d.outlineStyled()
	outlineSeen := map[string]bool{} // body styles a direct-outline heading has used so far
	prevLi := -1             // level of the list item before, -1 = the list starts here
	used := map[string]int{} // family styles used so far in document order (body and cells)
	seenMulti := false
	for _, bl := range d.Blocks {
		if bl.P == nil || bl.P.Kind != "li" {
			prevLi = -1
		}
		if bl.T != nil {
			statsEdgeTable(c, d.Format, bl.T)
			for a := 0; a < bl.T.R; a++ {
				for b := 0; b < bl.T.C; b++ {
					if cell := bl.T.Cells[[2]int{a, b}]; cell != nil {
						for i := range cell.Paras {
							if id := cell.Paras[i].Fam; id != "" {
								used[id]++
								c.Count(d.Format + "-cell-paragraph-in-family-style")
							}
							if v := cell.Paras[i].Via; v != "" {
								c.Count(d.Format + "-cell-paragraph-in-body-style")
								if _, ok := shared[v]; ok {
									c.Count(d.Format + "-cell-paragraph-in-the-style-of-a-direct-outline-heading")
								}
							}
						}
					}
				}
			}
			c.Count(d.Format + "-table")
			if bl.T.Groups > 0 {
				c.Count("odt-table-grouped:" + []string{"", "header-rows", "header-rows+table-rows", "table-columns+table-rows", "nested-row-groups", "header-columns+column-group", "row-plan"}[bl.T.Groups])
			}
			for _, k := range bl.T.mergeClasses() {
				c.Count(d.Format + "-" + k)
			}
			if seenMulti {
				c.Count(d.Format + "-table-after-multipara-table")
			}
			if bl.T.multiPara() {
				seenMulti = true
			}
			for _, cell := range bl.T.Cells {
				if cell.RS > 1 || cell.CS > 1 {
					c.Count(d.Format + "-merged-cell")
				}
				if cell.Nested != nil {
					c.Count(d.Format + "-nested-table")
				}
			}
			continue
		}
		c.Count(d.Format + "-" + bl.P.Kind)
		if p := bl.P; p.Kind == "li" {
			switch {
			case d.Format == "odt" && p.empty() && p.NoPara:
				c.Count("odt-list-item-without-paragraph")
			case d.Format == "odt" && p.empty():
				c.Count("odt-list-item-with-empty-paragraph")
			}
			if d.Format == "odt" && p.Level > prevLi+1 {
				// the levels in between are list items that only wrap the nested list
				if prevLi < 0 {
					c.Count("odt-list-starts-below-level-0")
				} else {
					c.Count("odt-list-deepens-several-levels-at-once")
				}
				c.Count("odt-list-item-under-textless-item")
			}
			prevLi = p.Level
			switch {
			case p.LevelUndef:
				c.Count("docx-ilvl-outside-0..8:" + p.RawLevel)
			case p.RawLevel == "omit":
				c.Count("docx-ilvl-omitted")
			case p.RawLevel != "":
				c.Count("docx-ilvl-respelled")
			case d.Format == "docx" && p.Level == 8:
				c.Count("docx-ilvl-8")
			}
		}
		if bl.P.Kind == "h" {
			c.Count(d.Format + "-heading-via-" + bl.P.Via)
			if bl.P.NoOwnLevel {
				c.Count(fmt.Sprintf("odt-heading-without-a-level-of-its-own:outline-level=%s:via-%s", bl.P.RawOutline, bl.P.Via))
			} else if bl.P.RawOutline != "" {
				c.Count("odt-heading-outline-level-respelled")
			}
			if bl.P.StyleLevel != 0 {
				who := "a-style-above-it"
				if bl.P.StyleOwn {
					who = "its-own-style"
				}
				c.Count(fmt.Sprintf("odt-heading-outline-level-differs-from-the-level-of-%s:via-%s", who, bl.P.Via))
			}
		}
		if p := bl.P; p.Kind == "h" && p.Via == "outline" && p.Plain != "" {
			c.Count(d.Format + "-direct-outline-heading-in-body-style:" + p.Plain)
			if outlineSeen[p.Plain] {
				c.Count(d.Format + "-direct-outline-heading-in-a-style-used-by-one-before")
			}
			outlineSeen[p.Plain] = true
		}
		if p := bl.P; p.Kind == "p" {
			if _, ok := shared[p.Via]; ok && p.Via != "" {
				if outlineSeen[p.Via] {
					c.Count(d.Format + "-plain-paragraph-after-direct-outline-heading-in-its-style")
				} else {
					c.Count(d.Format + "-plain-paragraph-before-direct-outline-heading-in-its-style")
				}
			}
			if p.Via == "undef" || p.Via == "normal" {
				c.Count(d.Format + "-plain-paragraph-in-style-" + p.Via)
			}
			if p.HStyle != "" {
				c.Count("odt-plain-paragraph-in-heading-style:via-" + p.HStyle)
			}
			if p.Jc != "" {
				c.Count("docx-paragraph-with-direct-jc/spacing/ind")
			}
			if p.Out9 {
				c.Count("docx-paragraph-with-direct-outlineLvl-9")
			}
		}
		if d.Fam != nil && bl.P.Kind == "h" {
			id := bl.P.Fam
			if id == "" {
				id = rootStyleID(d.Format, bl.P.Via, bl.P.styleLevel())
			}
			if fs := d.Fam.get(id); fs != nil {
				if fs.Via == "family" {
					kind := "inheriting"
					if d.Fam.overrides(id) {
						kind = "overriding"
					}
					c.Count(fmt.Sprintf("%s-family-heading-%s-depth%d", d.Format, kind, fs.Depth))
					anc := false
					for _, a := range d.Fam.ancestors(id) {
						anc = anc || used[a] > 0
					}
					switch {
					case used[id] > 0:
						c.Count(d.Format + "-family-" + kind + "-style-used-again")
					case anc:
						c.Count(d.Format + "-family-" + kind + "-style-after-an-ancestor-style")
					default:
						c.Count(d.Format + "-family-" + kind + "-style-before-its-ancestors")
					}
				}
				used[id]++
			}
		}
		for _, ru := range bl.P.Runs {
			if ru.Wrap != "" {
				c.Count(d.Format + "-wrap-" + ru.Wrap)
			}
			for i, it := range ru.Items {
				if it.Kind != "t" && i+1 < len(ru.Items) && ru.Items[i+1].Kind == "t" {
					c.Count(d.Format + "-" + it.Kind + "-before-text-in-run")
				}
			}
		}
	}
}

func statsEdgeTable(c *hx.Ctx, F string, t *ltable) {
	if t.Undef {
		c.Count(F + "-table-with-span-outside-1..1024")
	}
	if t.Wide {
		c.Count(fmt.Sprintf("%s-table-%dx%d", F, min(t.R, 1024), t.C))
	}
	if t.RawRepeat != "" {
		if t.Undef && t.RepeatN == 1 && respelled(t.RawRepeat) < 0 {
			c.Count("odt-columns-repeated-outside-1..1024:" + t.RawRepeat)
		} else {
			c.Count(fmt.Sprintf("odt-columns-repeated-written=%d", min(t.RepeatN, 1024)))
		}
	}
	for _, cell := range t.Cells {
		for _, raw := range []string{cell.RawCS, cell.RawRS} {
			switch n := respelled(raw); {
			case raw == "":
			case n < 0:
				c.Count(F + "-span-outside-1..1024:" + raw)
			case n == 1:
				c.Count(F + "-span-1-written-out")
			default:
				c.Count(F + "-span-respelled")
			}
		}
		if cell.CS == 1024 {
			c.Count(F + "-cell-1024-columns-wide")
		}
		if cell.RS == 1024 {
			c.Count(F + "-cell-1024-rows-high")
		}
	}
}

// respelled: the number 1..1024 a raw attribute text spells (xsd:integer), -1 otherwise.
func respelled(raw string) int {
	s := strings.TrimPrefix(raw, "+")
	if s == "" || len(s) > 8 {
		return -1
	}
	n := 0
	for _, ch := range s {
		if ch < '0' || ch > '9' {
			return -1
		}
		n = n*10 + int(ch-'0')
	}
	if n < 1 || n > 1024 {
		return -1
	}
	return n
}

// columnsOnly: the table element with its table:table-column children only (what the
// column count is a function of).
func columnsOnly(t *Node) *Node {
	n := &Node{Tag: t.Tag, Attrs: t.Attrs}
	for _, k := range t.Kids {
		switch k.Tag {
		case "table:table-column":
			n.Kids = append(n.Kids, k)
		case "table:table-columns", "table:table-header-columns", "table:table-column-group",
			"table:table-rows", "table:table-header-rows", "table:table-row-group":
			n.Kids = append(n.Kids, columnsOnly(k)) // a grouping element: its columns count like direct ones
		}
	}
	return n
}

// ---- malformed stream: damaged packages must not crash the readers -----------------------

func malformed(c *hx.Ctx, idx int) {
	r := c.Rng.Fork(uint64(1_000_000 + idx))
	F := formatOf(idx)
	d := genDoc(r, F)
	var members []writers.Member
	main := "word/document.xml"
	if F == "docx" {
		members = writeDocx(r, d).Members
	} else {
		members = writeOdt(r, d).Members
		main = "content.xml"
	}
	fault := r.Intn(5)
	for i := range members {
		m := &members[i]
		target := m.Name == main
		if fault >= 3 {
			target = strings.HasSuffix(m.Name, "styles.xml") || strings.HasSuffix(m.Name, "numbering.xml") || strings.HasSuffix(m.Name, "header1.xml")
		}
		if !target {
			continue
		}
		switch fault {
		case 0, 3: // truncate
			m.Data = m.Data[:r.Intn(len(m.Data)+1)]
		case 1, 4: // flip a few bytes
			for k := 0; k < 3 && len(m.Data) > 0; k++ {
				m.Data[r.Intn(len(m.Data))] = byte("<>/\"& x"[r.Intn(7)])
			}
		case 2: // drop a closing tag somewhere
			s := string(m.Data)
			if k := strings.LastIndex(s[:len(s)/2+1], "</"); k >= 0 {
				if e := strings.Index(s[k:], ">"); e >= 0 {
					m.Data = []byte(s[:k] + s[k+e+1:])
				}
			}
		}
	}
	path := filepath.Join(c.OutDir, fmt.Sprintf("bad-%d.%s", idx, F))
	os.WriteFile(path, writers.Zip(members), 0o644)
	defer os.Remove(path)
	kase := map[string]interface{}{"seed": c.Seed, "index": idx, "format": F, "malformed": true}
	pan := hx.Safe(func() {
		tabula.Open(path).Text()
		tabula.Open(path).ToMarkdown()
		tabula.Open(path).Document()
	})
	c.Check("C16/panic", pan == "", kase, func() string { return "panic on damaged package: " + pan })
	c.Count(F + "-malformed")
	c.Case(fmt.Sprintf("bad%d", idx), false)
}

// ---- fixed witnesses of the defects quoted in the property text -----------------------------

func tx(tok string) []lrun { return []lrun{{Items: []inl{{Kind: "t", Tok: tok}}}} }

func oneCell(paras ...string) *lcell {
	c := &lcell{RS: 1, CS: 1}
	for _, p := range paras {
		c.Paras = append(c.Paras, lpara{Kind: "p", Runs: tx(p)})
	}
	return c
}

// anc is one authored cell of a fixed table: position, spans (0 = 1) and its token.
type anc struct {
	R, C, RS, CS int
	Tok          string
}

// gridTable builds a fixed table from its anchors; every other position is covered
// by the merge it lies in.
func gridTable(rows, cols int, cells ...anc) *ltable {
	t := &ltable{R: rows, C: cols, Cells: map[[2]int]*lcell{}, Cover: map[[2]int][2]int{}}
	for _, a := range cells {
		rs, cs := max(a.RS, 1), max(a.CS, 1)
		t.place(a.R, a.C, rs, cs)
		t.Cells[[2]int{a.R, a.C}].Paras = []lpara{{Kind: "p", Runs: tx(a.Tok)}}
	}
	return t
}

// mergeWitness: four small tables in which a vertical merge has a different number
// of cells to its left in its start row and in a continuation row.
func mergeWitness(F string) *ldoc {
	// [A 1x2][B 2x1] / [c][d]^ / [e][f][g]: column span in the start row only
	ta := gridTable(3, 3, anc{0, 0, 1, 2, "G001x"}, anc{0, 2, 2, 1, "G002x"}, anc{1, 0, 0, 0, "G003x"}, anc{1, 1, 0, 0, "G004x"},
		anc{2, 0, 0, 0, "G005x"}, anc{2, 1, 0, 0, "G006x"}, anc{2, 2, 0, 0, "G007x"})
	// [P][Q][R 2x1] / [s 1x2]^: column span in the continuation row only
	tb := gridTable(2, 3, anc{0, 0, 0, 0, "G011x"}, anc{0, 1, 0, 0, "G012x"}, anc{0, 2, 2, 1, "G013x"}, anc{1, 0, 1, 2, "G014x"})
	// [a 1x2][b][V 3x1] / [c][d 1x2]^ / [e 1x3]^: spans of other widths in every row, a merge of three rows
	tc := gridTable(3, 4, anc{0, 0, 1, 2, "G021x"}, anc{0, 2, 0, 0, "G022x"}, anc{0, 3, 3, 1, "G023x"},
		anc{1, 0, 0, 0, "G024x"}, anc{1, 1, 1, 2, "G025x"}, anc{2, 0, 1, 3, "G026x"})
	// [V 2x1][x 1x2][W 3x2] / ^[y][z]^ / [u 1x3]^ / [k][l 1x4]: two vertical merges, the second two columns wide
	td := gridTable(4, 5, anc{0, 0, 2, 1, "G031x"}, anc{0, 1, 1, 2, "G032x"}, anc{0, 3, 3, 2, "G033x"},
		anc{1, 1, 0, 0, "G034x"}, anc{1, 2, 0, 0, "G035x"}, anc{2, 0, 1, 3, "G036x"},
		anc{3, 0, 0, 0, "G037x"}, anc{3, 1, 1, 4, "G038x"})
	return &ldoc{Format: F, Blocks: []lblock{{T: ta}, {P: &lpara{Kind: "p", Runs: tx("G010x")}}, {T: tb},
		{P: &lpara{Kind: "p", Runs: tx("G020x")}}, {T: tc}, {T: td}}}
}

// witnessDocs are minimal documents for the four quoted defects (and their ODT twins),
// and for vertical merges beside column spans.
func witnessDocs() []*ldoc {
	t1 := &ltable{R: 1, C: 1, Cells: map[[2]int]*lcell{{0, 0}: oneCell("W001x", "W002x")}, Cover: map[[2]int][2]int{}}
	t2 := &ltable{R: 1, C: 1, Cells: map[[2]int]*lcell{{0, 0}: oneCell("W003x")}, Cover: map[[2]int][2]int{}}
	mk := func(F string, blocks ...lblock) *ldoc { return &ldoc{Format: F, Blocks: blocks} }
	return []*ldoc{
		// a table with a two-paragraph cell, then a table, then a paragraph
		mk("docx", lblock{T: t1}, lblock{T: t2}, lblock{P: &lpara{Kind: "p", Runs: tx("W004x")}}),
		// a tab before the text of the same run
		mk("docx", lblock{P: &lpara{Kind: "p", Runs: []lrun{{Items: []inl{{Kind: "t", Tok: "W001x"}}}, {Items: []inl{{Kind: "tab"}, {Kind: "t", Tok: "W002x"}}}}}}),
		// text inside a hyperlink / a tracked insertion / a content control, between plain runs
		mk("docx", lblock{P: &lpara{Kind: "p", Runs: []lrun{{Items: []inl{{Kind: "t", Tok: "W001x"}}}, {Wrap: "hyperlink", Items: []inl{{Kind: "t", Tok: "W002x"}}}, {Items: []inl{{Kind: "t", Tok: "W003x"}}}}}}),
		mk("docx", lblock{P: &lpara{Kind: "p", Runs: []lrun{{Items: []inl{{Kind: "t", Tok: "W001x"}}}, {Wrap: "ins", Items: []inl{{Kind: "t", Tok: "W002x"}}}, {Items: []inl{{Kind: "t", Tok: "W003x"}}}}}}),
		mk("docx", lblock{P: &lpara{Kind: "p", Runs: []lrun{{Items: []inl{{Kind: "t", Tok: "W001x"}}}, {Wrap: "sdt", Items: []inl{{Kind: "t", Tok: "W002x"}}}, {Items: []inl{{Kind: "t", Tok: "W003x"}}}}}}),
		// ODT: text, span, text
		mk("odt", lblock{P: &lpara{Kind: "p", Runs: []lrun{{Items: []inl{{Kind: "t", Tok: "W001x"}}}, {Wrap: "span", Items: []inl{{Kind: "t", Tok: "W002x"}}}, {Items: []inl{{Kind: "t", Tok: "W003x"}}}}}}),
		mk("odt", lblock{T: t1}, lblock{T: t2}, lblock{P: &lpara{Kind: "p", Runs: tx("W004x")}}),
		mergeWitness("docx"),
		mergeWitness("odt"),
		// ODT: a list that deepens by two levels at once and comes back (the level in
		// between is a list item that only wraps the nested list), an item with an empty
		// paragraph that has an item nested below it, an item without any paragraph
		mk("odt", lblock{P: &lpara{Kind: "p", Runs: tx("W001x")}},
			lblock{P: &lpara{Kind: "li", NumID: 1, Level: 0, Runs: tx("W002x")}},
			lblock{P: &lpara{Kind: "li", NumID: 1, Level: 2, Runs: tx("W003x")}},
			lblock{P: &lpara{Kind: "li", NumID: 1, Level: 1, Runs: tx("W004x")}},
			lblock{P: &lpara{Kind: "li", NumID: 1, Level: 0}},
			lblock{P: &lpara{Kind: "li", NumID: 1, Level: 1, Runs: tx("W005x")}},
			lblock{P: &lpara{Kind: "li", NumID: 1, Level: 0, NoPara: true}},
			lblock{P: &lpara{Kind: "li", NumID: 1, Level: 0, Runs: tx("W006x")}},
			lblock{P: &lpara{Kind: "p", Runs: tx("W007x")}}),
		// ODT: a list that starts two levels deep
		mk("odt", lblock{P: &lpara{Kind: "li", NumID: 1, Level: 2, Runs: tx("W001x")}},
			lblock{P: &lpara{Kind: "li", NumID: 1, Level: 0, Runs: tx("W002x")}},
			lblock{P: &lpara{Kind: "p", Runs: tx("W003x")}}),
		// spans and levels at and beyond the edges
		edgeWitness("docx"),
		edgeWitness("odt"),
		// a paragraph of the body text made a heading by a direct outline level, between
		// plain paragraphs (and a table) written in the same body style
		outlineWitness("docx"),
		outlineWitness("odt"),
		// ODT: headings that say another level than the one a style above their paragraph
		// style carries
		relevelWitness(),
		relevelOwnWitness(),
		// ODT: headings that state no level themselves, paragraphs written in heading styles
		unlevelWitness(),
		// DOCX: a block-level content control between the blocks of the body, then a table
		// that is followed by paragraphs; containers nested in one another around a heading
		// and a table; a marker element between the blocks
		boxWitness("sdt"),
		boxWitness("customXml-in-sdt"),
		// ODT: two row groups with their own header rows; rows before the header rows.
		// DOCX: "repeat as header row" on a row further down
		headerRowsWitness("odt", []rowSeg{{1, "header", 1}, {1, "", 1}, {1, "header", 2}, {1, "rows", 2}}),
		headerRowsWitness("odt", []rowSeg{{1, "", 0}, {2, "header", 0}, {1, "", 0}}),
		headerRowsWitness("docx", nil),
		// DOCX: a block-level content control inside a table cell, between two direct
		// paragraphs of the cell; a second cell whose only paragraph sits in w:customXml
		cellBoxWitness(),
	}
}

// cellBoxWitness: paragraph, table [A | B, sdt[C], D] [customXml[E] | F], paragraph.
func cellBoxWitness() *ldoc {
	t := gridTable(2, 2, anc{0, 0, 0, 0, "W002x"}, anc{0, 1, 0, 0, "W003x"}, anc{1, 0, 0, 0, "W006x"}, anc{1, 1, 0, 0, "W007x"})
	c := t.Cells[[2]int{0, 1}]
	c.Paras = append(c.Paras, lpara{Kind: "p", Runs: tx("W004x")}, lpara{Kind: "p", Runs: tx("W005x")})
	c.Box, c.BoxAt, c.BoxN = "sdt", 1, 1
	e := t.Cells[[2]int{1, 0}]
	e.Box, e.BoxAt, e.BoxN = "customXml", 0, 1
	return &ldoc{Format: "docx", NoDraw: true, Blocks: []lblock{{P: &lpara{Kind: "p", Runs: tx("W001x")}}, {T: t}, {P: &lpara{Kind: "p", Runs: tx("W008x")}}}}
}

// boxWitness: paragraph, container[paragraph (and, nested: heading, table)], table,
// paragraph, paragraph.
func boxWitness(kind string) *ldoc {
	t1 := gridTable(1, 2, anc{0, 0, 0, 0, "W003x"}, anc{0, 1, 0, 0, "W004x"})
	d := &ldoc{Format: "docx", NoDraw: true, Blocks: []lblock{
		{P: &lpara{Kind: "p", Runs: tx("W001x")}},
		{P: &lpara{Kind: "p", Runs: tx("W002x")}, Box: 1, BoxKind: kind},
		{T: t1},
		{P: &lpara{Kind: "p", Runs: tx("W005x")}},
		{P: &lpara{Kind: "p", Runs: tx("W006x")}, Marks: 2},
	}}
	if kind != "sdt" {
		t0 := gridTable(1, 1, anc{0, 0, 0, 0, "W008x"})
		d.Blocks = append(d.Blocks[:2], append([]lblock{
			{P: &lpara{Kind: "h", Level: 2, Via: "outline", Runs: tx("W007x")}, Box: 1, BoxKind: kind},
			{T: t0, Box: 1, BoxKind: kind}}, d.Blocks[2:]...)...)
	}
	return d
}

// headerRowsWitness: a table of four rows and two columns between two paragraphs, its
// rows laid out by the plan (odt) / its third row marked w:tblHeader (docx).
func headerRowsWitness(F string, plan []rowSeg) *ldoc {
	t := gridTable(4, 2, anc{0, 0, 0, 0, "W002x"}, anc{0, 1, 0, 0, "W003x"}, anc{1, 0, 0, 0, "W004x"}, anc{1, 1, 0, 0, "W005x"},
		anc{2, 0, 0, 0, "W006x"}, anc{2, 1, 0, 0, "W007x"}, anc{3, 0, 0, 0, "W008x"}, anc{3, 1, 0, 0, "W009x"})
	if F == "odt" {
		t.Groups, t.Plan = 6, plan
	} else {
		t.HdrRows = map[int]bool{2: true}
	}
	return &ldoc{Format: F, NoDraw: true, Blocks: []lblock{{P: &lpara{Kind: "p", Runs: tx("W001x")}}, {T: t}, {P: &lpara{Kind: "p", Runs: tx("W010x")}}}}
}

// unlevelWitness: <text:h> without text:outline-level (and with one that is no level) in
// the built-in heading style of level 3, in an automatic style derived from Heading 2, in a
// custom heading style and in no style at all; <text:p> written in Heading 2 and in the
// automatic style derived from it; a heading whose level is spelled "03".
func unlevelWitness() *ldoc {
	return &ldoc{Format: "odt", Styles: true, NoDraw: true, Blocks: []lblock{
		{P: &lpara{Kind: "h", Level: 3, Via: "builtin", NoOwnLevel: true, RawOutline: "omit", Runs: tx("W001x")}},
		{P: &lpara{Kind: "p", Level: 2, HStyle: "builtin", Runs: tx("W002x")}},
		{P: &lpara{Kind: "h", Level: 2, Via: "inherited", NoOwnLevel: true, RawOutline: "omit", Runs: tx("W003x")}},
		{P: &lpara{Kind: "p", Level: 2, HStyle: "inherited", Runs: tx("W004x")}},
		{P: &lpara{Kind: "h", Level: 4, Via: "custom", NoOwnLevel: true, RawOutline: "0", Runs: tx("W005x")}},
		{P: &lpara{Kind: "h", Level: 5, Via: "outline", NoOwnLevel: true, RawOutline: "11", Runs: tx("W006x")}},
		{P: &lpara{Kind: "h", Level: 3, Via: "builtin", RawOutline: "03", Runs: tx("W007x")}},
		{P: &lpara{Kind: "p", Level: 6, HStyle: "inherited2", Runs: tx("W008x")}},
		{P: &lpara{Kind: "h", Level: 7, Via: "inherited2", NoOwnLevel: true, RawOutline: "", Runs: tx("W009x")}},
	}}
}

// relevelWitness: what an editor writes after the level of a heading was changed on the
// paragraph: the heading keeps "Heading 1" through the automatic style derived from it
// (no outline level of its own) and says text:outline-level 3; the same with a custom
// heading style; beside headings whose style and level agree.
func relevelWitness() *ldoc {
	return &ldoc{Format: "odt", Styles: true, NoDraw: true, Blocks: []lblock{
		{P: &lpara{Kind: "h", Level: 1, Via: "builtin", Runs: tx("W001x")}},
		{P: &lpara{Kind: "p", Runs: tx("W002x")}},
		{P: &lpara{Kind: "h", Level: 3, StyleLevel: 1, Via: "inherited", Runs: tx("W003x")}},
		{P: &lpara{Kind: "p", Runs: tx("W004x")}},
		{P: &lpara{Kind: "h", Level: 3, Via: "builtin", Runs: tx("W005x")}},
		{P: &lpara{Kind: "h", Level: 2, StyleLevel: 5, Via: "inherited2", Runs: tx("W006x")}},
		{P: &lpara{Kind: "h", Level: 1, Via: "inherited", Runs: tx("W007x")}},
		{P: &lpara{Kind: "h", Level: 6, StyleLevel: 2, Via: "inherited", Runs: tx("W008x")}},
	}}
}

// relevelOwnWitness: the heading names "Heading 1" itself and says text:outline-level 3
// (the outline level is no property of an automatic style: an editor that changes nothing
// else writes no automatic style at all).
func relevelOwnWitness() *ldoc {
	return &ldoc{Format: "odt", Styles: true, NoDraw: true, Blocks: []lblock{
		{P: &lpara{Kind: "h", Level: 1, Via: "builtin", Runs: tx("W001x")}},
		{P: &lpara{Kind: "h", Level: 3, StyleLevel: 1, StyleOwn: true, Via: "builtin", Runs: tx("W002x")}},
		{P: &lpara{Kind: "p", Runs: tx("W003x")}},
		{P: &lpara{Kind: "h", Level: 2, StyleLevel: 4, StyleOwn: true, Via: "custom", Runs: tx("W004x")}},
	}}
}

func outlineWitness(F string) *ldoc {
	tb := &ltable{R: 1, C: 2, Cells: map[[2]int]*lcell{{0, 0}: oneCell("W005x"), {0, 1}: oneCell("W006x")}, Cover: map[[2]int][2]int{}}
	tb.Cells[[2]int{0, 1}].Paras[0].Via = "undef"
	return &ldoc{Format: F, Body: "undef", Blocks: []lblock{
		{P: &lpara{Kind: "p", Via: "undef", Runs: tx("W001x")}},
		{P: &lpara{Kind: "h", Level: 2, Via: "outline", Plain: "undef", Runs: tx("W002x")}},
		{P: &lpara{Kind: "p", Via: "undef", Runs: tx("W003x")}},
		{P: &lpara{Kind: "p", Via: "quote", Runs: tx("W004x")}},
		{T: tb},
		{P: &lpara{Kind: "h", Level: 5, Via: "outline", Plain: "quote", Runs: tx("W007x")}},
		{P: &lpara{Kind: "p", Via: "undef", Runs: tx("W008x")}},
		{P: &lpara{Kind: "p", Via: "quote", Runs: tx("W009x")}},
	}}
}

// edgeWitness: a row of cells whose span attributes say 1 (written out), 0, -1, 1025, 2^31-1
// and 10^20-1; a table with a cell 1024 columns wide; list items whose w:ilvl says 8, 9,
// 10^20-1 and -1.
func edgeWitness(F string) *ldoc {
	t := gridTable(1, 6, anc{0, 0, 0, 0, "E001x"}, anc{0, 1, 0, 0, "E002x"}, anc{0, 2, 0, 0, "E003x"}, anc{0, 3, 0, 0, "E004x"},
		anc{0, 4, 0, 0, "E005x"}, anc{0, 5, 0, 0, "E006x"})
	for i, raw := range []string{"1", "0", "-1", "1025", "2147483647", "99999999999999999999"} {
		t.Cells[[2]int{0, i}].RawCS = raw
	}
	t.Undef = true
	w := gridTable(2, 1024, anc{0, 0, 1, 1024, "E011x"}, anc{1, 0, 1, 1023, "E012x"}, anc{1, 1023, 0, 0, "E013x"})
	w.Wide = true
	d := &ldoc{Format: F, Blocks: []lblock{{T: t}, {P: &lpara{Kind: "p", Runs: tx("E010x")}}, {T: w}, {P: &lpara{Kind: "p", Runs: tx("E020x")}}}}
	if F == "odt" {
		t.Cells[[2]int{0, 3}].RawRS = "1025"
		t.Cells[[2]int{0, 4}].RawRS = "0"
		t.RawRepeat, t.RepeatN = "1025", 1
		w.RawRepeat, w.RepeatN = "1024", 1024
		return d
	}
	for i, raw := range []string{"", "9", "99999999999999999999", "-1", "omit"} {
		p := &lpara{Kind: "li", NumID: 1, Level: 8, Runs: tx(fmt.Sprintf("E03%dx", i)), RawLevel: raw, LevelUndef: raw != "" && raw != "omit"}
		if raw == "omit" {
			p.Level = 0
		}
		d.Blocks = append(d.Blocks, lblock{P: p})
	}
	return d
}

func runWitness(c *hx.Ctx, wi int, keep bool) {
	d := witnessDocs()[wi]
	r := hx.NewRng(7) // the witnesses use no random choice that matters
	kase := map[string]interface{}{"witness": wi, "format": d.Format}
	path := filepath.Join(c.OutDir, fmt.Sprintf("witness-%d.%s", wi, d.Format))
	var opLine string
	var odtTables []*Node
	var colCounts []int
	var reused viewRun
	var dpkg docxPkg
	var opkg odtPkg
	if d.Format == "docx" {
		pkg := writeDocx(r, d)
		dpkg = pkg
		os.WriteFile(path, writers.Zip(pkg.Members), 0o644)
		opLine = "c16.docx " + pkg.Doc.Sexp() + " " + sexpOrDash(pkg.Styles)
	} else {
		pkg := writeOdt(r, d)
		opkg = pkg
		os.WriteFile(path, writers.Zip(pkg.Members), 0o644)
		opLine = "c16.odt " + pkg.Content.Sexp() + " " + sexpOrDash(pkg.Styles)
		odtTables = pkg.Tables
	}
	if !keep {
		defer os.Remove(path)
	}
	var out outputs
	var implLine string
	var docxEls []docx.VerifElem
	pan := hx.Safe(func() {
		if d.Format == "docx" {
			if rd, err := docx.Open(path); err == nil {
				els := rd.VerifElements()
				docxEls = els
				implLine = dumpDocx(els)
				out.Parsed, out.HaveParsed = parsedDocx(els), true
				rd.Close()
			}
		} else {
			if rd, err := odt.Open(path); err == nil {
				els := rd.VerifElements()
				implLine = dumpOdt(els)
				out.Parsed, out.HaveParsed = parsedOdt(els), true
				for _, t := range rd.Tables() {
					colCounts = append(colCounts, len(t.ColWidths))
				}
				rd.Close()
			}
		}
		if v, err := openViews(d.Format, path); err == nil {
			reused = v.run([]byte("TMRDPLD")) // every view of one reader, the model after the renderings
			v.close()
		}
		out.Text, _, _ = tabula.Open(path).Text()
		out.MD, _, _ = tabula.Open(path).ToMarkdown()
		out.Doc, _, _ = tabula.Open(path).Document()
	})
	if !c.Check("C16/panic", pan == "", kase, func() string { return "panic: " + pan }) {
		return
	}
	c.Op(opLine, implLine)
	for k, tn := range odtTables {
		got := "missing"
		if k < len(colCounts) {
			got = fmt.Sprint(colCounts[k])
		}
		c.Op("c16.odtcols "+columnsOnly(tn).Sexp(), got)
	}
	if d.Format == "docx" {
		docxViewsOp(c, dpkg, path, viewOpts{}, "TMRDLPDMT", kase)
		docxVMergeOps(c, dpkg, docxEls)
		c.Op("c16.docx.cached "+dpkg.Doc.Sexp()+" "+sexpOrDash(dpkg.Styles), implLine)
	} else {
		odtViewsOp(c, opkg, path, viewOpts{}, "TMRDLPDMT", kase)
	}
	f := evaluate(d, out)
	for _, k := range oracleKeys[d.Format] {
		detail, bad := f[k]
		c.Check("C16/"+d.Format+"-"+k, !bad, kase, func() string { return detail })
	}
	checkReused(c, d, reused, kase)
	c.Count("witness")
	c.Case(fmt.Sprintf("witness%d", wi), true)
}

func init() { hx.Register("C16", Run, Replay) }

func Run(c *hx.Ctx) {
	c.Rep.Rule = "random logical documents (1..12 blocks: paragraphs with 1..4 runs/spans of mixed inline content incl. hyperlink/ins/sdt wrappers, " +
		"headings via built-in/custom/inherited/name/outline/cyclic styles, in a third of the styled documents a style family (1-2 root heading styles, 2-5 custom styles derived from them 1-3 deep, " +
		"each inheriting or overriding the level with an outline level of its own) whose styles are used by headings and table-cell paragraphs in random order and repetition, " +
		"in half of the documents a body style (italic, bold 11 pt, in a basedOn cycle, not defined in the styles part, or the default style named explicitly) in which most plain paragraphs, a third of the cell paragraphs and " +
		"headings made by a DIRECT outline level (w:outlineLvl in the paragraph's own properties / text:h) are written, before and after one another and repeatedly, DOCX paragraphs also with direct w:jc/w:spacing/w:ind and with w:outlineLvl 9 (body text), multi-level lists, tables with multi-paragraph cells, merges and nested tables, " +
		"optional styles/numbering/header/footer/meta parts, shuffled part order); plus documents of 1..3 tables that COMBINE merges (2..5 rows x 3..6 grid columns, 1..3 vertical merges of 2..4 rows placed at random, " +
		"then every row partitioned on its own into cells 1..3 columns wide, so the rows a vertical merge runs through hold different numbers of cells to its left: column span in the start row only, in a continuation row only, in both with other widths) " +
		"between paragraphs, headings and plain tables; plus documents about numeric attributes at the edges of their range (w:gridSpan, number-columns-spanned, number-rows-spanned, " +
		"number-columns-repeated written as 1, as another spelling of the number meant (+2, 007), 1024 (a cell 1024 grid columns wide / 1024 rows high, 1024 repeated columns), and outside 1..1024: 0, -1, 1025, 2^31-1, 2^32, 2^63-1, 2^63, 10^20-1, empty, a word; " +
		"w:ilvl 0..8, respelled, omitted, and 9, 10, 255, 2^31-1, 10^20-1, -1, empty, a word) - for values outside the range only presence, order and place of the text are demanded by the oracles, the Lean model decides the rest; " +
		"ODT lists that start below level 0 or deepen several levels at once (list items that only wrap the nested list), items with an empty paragraph or none (with and without items nested below); " +
		"for every document the views of one more reader (Text, Markdown, RAG Markdown, Document, parsed tables, model tables) asked for in a random order with repetitions, every view checked by the same oracles and for stability; every text piece a unique token, rendered by the harness's own DOCX and ODT writers " +
		"(even index = DOCX, odd = ODT); ODT tables group their rows / columns in table-header-rows, table-rows, table-row-group, table-columns, table-header-columns, table-column-group in two of five cases; " +
		"for every document ONE more reader whose views (TextWithOptions, MarkdownWithOptions, MarkdownWithRAGOptions, Document, ModelTables, parsed elements) are asked for in a drawn order with repetitions and drawn options (exclusion switches, heading offset -3..4, heading cap 0/1/3/6/9/-1), every answer compared in full with the Lean model of the writers; the views through tabula.Open(f) with drawn Exclude switches; a drawn history of 3..12 Resolve calls (ids the document uses and ids it does not define, repeated, the empty id) on one style resolver; the row spans of every DOCX body table against the state-free specification of the vertical-merge pass; " +
		"plus a render stream: regular documents into which body paragraphs are planted that ARE header/footer lines (bare, padded with spaces / tabs / no-break spaces / line breaks, near misses; as paragraph, heading, list item, table cell), cell text with pipes and Unicode spaces, a first / last paragraph that begins / ends with line breaks, paragraphs and list items without text, DOCX headings that also carry numbering properties, numbering parts and ODT list styles drawn at random (every number format incl. unknown ones, level texts plain / pattern / Private-Use / control character / empty, start values 0 / negative / huge / not a number, levels missing or defined twice, ids that point nowhere), ODT lists without a style name or with an undefined one - these are checked by the correspondence of all views, the panic check and the leak count (a header/footer line occurs in Text() / Markdown() exactly as often as the body holds it, exclusion never adds text); " +
		"ODT headings whose text:outline-level is NOT the level their paragraph style's definition chain says (a heading moved to another level keeps its style): through an automatic style derived from Heading N / a custom heading style of another level, through a family style that inherits its level (the style named carries no outline level of its own: key odt-outline-level-vs-inherited-style-level), and naming the built-in / custom / localized / family heading style of another level itself (key odt-outline-level-vs-own-style-level; repaired d316e04) - the heading's level is what text:outline-level says; " +
		"ODT headings that state NO level themselves (text:outline-level left out, empty, 0, 11, -2, 2.5, a word) in every kind of paragraph style - built-in / custom / localized heading style, automatic style derived from one, family style with an own or an inherited level, cyclic styles, a body style or no style (key odt-heading-without-outline-level: a heading, in place, at level 1 or at the level of its paragraph style) - and headings whose level is respelled (03); ODT plain paragraphs <text:p> written in a heading style or in a style derived from one (built-in, custom, localized, automatic PHn / PKn, family styles: key odt-paragraph-in-heading-style - a paragraph, not a heading); " +
		"every generated and render-stream package in a drawn MARKUP FLAVOUR (flavour.go; about half keep the writers' spelling): DOCX in the ISO/IEC 29500 Strict namespaces (main, relationships, every relationship Type, w:conformance=strict), the relationships namespace under another prefix or declared on each referencing element instead of the root, the main namespace under another prefix or as default namespace (each WordprocessingML part on its own), and combinations; ODT with text/office/style/table/fo under other prefixes, the text / style namespace as default namespace, table/xlink/svg declared on the elements that use them - same logical document, same authored trees, same expectations; HeaderTexts()/FooterTexts() of the reader hold the lines of the header / footer parts (key header-requested); " +
		"from a stream of its own (structure.go) the STRUCTURE around the blocks and inside the tables: in a third of the DOCX documents one or two runs of 1..3 consecutive blocks (paragraphs, headings, list items, tables) written inside a block-level container that is a direct child of the body - content control w:sdt/w:sdtContent, w:customXml, one nested in the other - half of the time with a table and a paragraph put right behind the container (the container is transparent: its blocks are body content at its place; key block-container-content-lost when they are in no view - REPAIRED, fails on the tree without the repair - and the usual body-order keys for everything around it), in a quarter of the DOCX tables one or two cells with a run of their paragraphs inside such a container that is a child of the w:tc (same key), " +
		"empty marker elements (w:bookmarkStart / w:bookmarkEnd / w:proofErr) as children of the body between the blocks, w:trPr/w:tblHeader on the leading row(s) of a DOCX table or on rows further down; in a third of the ODT tables the rows laid out by a drawn plan of sections (rows / header-rows / header-rows, rows / rows, header-rows, rows - each directly in the table or in a table:table-row-group of its own, plain rows as they are or in table:table-rows), so that table:table-header-rows also comes AFTER other rows and several times in one table (the table is its rows in source order, wherever they are written); " +
		"plus fixed witnesses of the quoted defects and a stream of damaged packages; " +
		"plus documents AT THE RESOURCE BOUNDS of the readers, written element by element (bounds.go; distribution buckets bound:…): inline containers (w:ins/w:sdt/w:sdtContent/w:hyperlink/w:smartTag/w:fldSimple/w:moveTo, text:span/text:a) nested 9999, 10000, 10001, 10002 and 40000 deep with text at several depths - in a body paragraph, a heading, a list-item paragraph, a table-cell paragraph, a header part, a nested table (not decoded), as the first body paragraph, inside a text:section, inside a skipped text:note (not decoded), with block elements behind the refused tag; " +
		"text:s counts 1, 7, 1023, 1024, 1025, 4096, 2^31-1, 2^63-1, 2^63, 10^20-1, +5, 007, 0, -3, empty, a word, omitted; tables whose rows x spanned columns are 2^20-cols, 2^20, 2^20+cols (spans 1024, 1000 - integer division -, 2 x 256, with vMerge, with row spans 16 and 1024), twenty and eight million, and large tables without spans; ODT tables whose table:table-column elements DECLARE more columns than the rows hold: rows x declared columns = 2^20 exactly (1024 x 1024, 1 x 2^20), one row / one column more, 1048 / 1049 rows x 1000, 128 x 131072 (the quoted document), 300 x 307200, 2 x 2048000; a basedOn chain of 2000 styles - " +
		"within the bound the oracles demand every text piece in order in all views, the written number of spaces, the authored spans; beyond it: DOCX and ODT refused by Open with an error through docx.Open / odt.Open and tabula.Open(f) (never a document cut short without an error), space runs 1024 long, over-limit tables 1 x 1 with every cell text still present, the grid of Document() as wide as the declared columns while rows x declared columns <= 2^20 and as wide as the widest row beyond; " +
		"non-trivial = Document() has at least one element"
	if os.Getenv("VERIF_C16_ONLY") == "bounds" { // debugging aid: the documents at the bounds alone
		runBounds(c)
		return
	}
	for wi := range witnessDocs() {
		runWitness(c, wi, false)
	}
	n := c.N(700, 12000)
	for i := 0; i < n; i++ {
		RunDoc(c, i, false)
	}
	for i, n := 0, c.N(240, 4000); i < n; i++ {
		RunDoc(c, gridBase+i, false)
	}
	for i, n := 0, c.N(200, 3000); i < n; i++ {
		RunDoc(c, edgeBase+i, false)
	}
	for i, n := 0, c.N(300, 5000); i < n; i++ {
		RunRenderDoc(c, renderBase+i, false)
	}
	for i := 0; i < c.N(100, 1500); i++ {
		malformed(c, i)
	}
	runBounds(c)
}

// Replay re-runs one recorded failing case on the implementation (the package is kept).
func Replay(c *hx.Ctx, kase map[string]interface{}) {
	if w, ok := kase["witness"].(float64); ok {
		runWitness(c, int(w), true)
		return
	}
	idx, _ := kase["index"].(float64)
	if m, _ := kase["malformed"].(bool); m {
		malformed(c, int(idx))
		return
	}
	if int(idx) >= boundsBase {
		RunBound(c, int(idx), true)
		return
	}
	if int(idx) >= renderBase {
		RunRenderDoc(c, int(idx), true)
		return
	}
	RunDoc(c, int(idx), true)
}
