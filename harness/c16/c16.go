// Package c16 is the correspondence/oracle harness for property C16.
package c16

import "verifharness/hx"

func init() { hx.Register("C16", Run, Replay) }

// Run is not built yet for this property.
func Run(c *hx.Ctx) { c.Note("C16: harness not built") }

func Replay(c *hx.Ctx, kase map[string]interface{}) {}
