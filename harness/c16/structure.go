package c16

import (
	"fmt"
	"strconv"

	"verifharness/hx"
)

// ---- structure around the blocks and inside the tables ---------------------------------------
//
// The body of a word-processor document is a sequence of paragraphs and tables, but the
// package need not write them as one flat list of children:
//
//   - DOCX: a block-level container may stand between the body and its blocks - a content
//     control (w:sdt / w:sdtContent: what Word writes for a cover page, a table of contents,
//     a bibliography, a rich-text control around whole paragraphs) or a custom XML element
//     (w:customXml), also one inside the other (ECMA-376 17.5.2.29 / 17.5.1.6: both hold
//     block-level content, EG_ContentBlockContent). The container is transparent: what it
//     holds are paragraphs and tables of the body, at the place of the container. Empty
//     markers (w:bookmarkStart / w:bookmarkEnd / w:proofErr) may stand between the blocks.
//     The same containers may stand between a table cell and its paragraphs (CT_Tc holds
//     EG_BlockLevelElts): what they hold are paragraphs of the cell, at their place.
//   - DOCX: any row of a table may carry w:trPr/w:tblHeader ("repeat as header row").
//   - ODT: the rows of a table may be laid out in sections (ODF 1.2 part 1, 9.1.2 and the
//     schema: table-rows-and-groups = (table-row-group | table-rows-no-group)+,
//     table-rows-no-group = (rows, (header-rows, rows)?) | (header-rows, rows?)): every
//     table:table-row-group may begin with its own table:table-header-rows, and rows may
//     come BEFORE the header rows. Where a row is written says nothing about the order of
//     the rows: the table is its rows in source order.
//
// drawStructure draws these from a stream of its own (seed, index), so the logical
// documents of the other streams stay what they were. The oracles are the ones of the
// property: every block in document order in every view, every table the authored grid.

// structStream: the stream the structure of document #idx is drawn from.
func structStream(c *hx.Ctx, idx int) *hx.Rng { return c.Rng.Fork(uint64(idx) + 1<<43) }

// rowSeg is a run of N consecutive rows of an ODT table as the writer lays it out.
type rowSeg struct {
	N     int
	Wrap  string // "" = table:table-row elements as they are, rows = in table:table-rows, header = in table:table-header-rows
	Group int    // 0 = directly in the table:table; k > 0 = inside the k-th table:table-row-group
}

var boxKinds = []string{"sdt", "sdt", "customXml", "customXml-in-sdt", "sdt-in-customXml"}

func drawStructure(r *hx.Rng, d *ldoc) {
	if d.Render || len(d.Blocks) == 0 {
		return
	}
	if d.Format == "docx" {
		if r.Chance(1, 3) {
			d.drawBoxes(r)
		}
		if r.Chance(1, 6) {
			for n := r.Range(1, 3); n > 0; n-- {
				d.Blocks[r.Intn(len(d.Blocks))].Marks = r.Range(1, 3)
			}
		}
	}
	for _, bl := range d.Blocks {
		if bl.T != nil {
			drawTableStructure(r, d.Format, bl.T)
		}
	}
}

func drawTableStructure(r *hx.Rng, F string, t *ltable) {
	if t.R <= 64 {
		switch {
		case F == "docx" && r.Chance(1, 4):
			// the leading row(s), as an editor writes them
			t.HdrRows = map[int]bool{0: true}
			if t.R > 2 && r.Chance(1, 3) {
				t.HdrRows[1] = true
			}
		case F == "docx" && t.R >= 2 && r.Chance(1, 6):
			// the mark on rows further down
			t.HdrRows = map[int]bool{}
			for n := r.Range(1, 2); n > 0; n-- {
				t.HdrRows[r.Range(1, t.R-1)] = true
			}
		case F == "odt" && r.Chance(1, 3):
			t.Groups, t.Plan = 6, drawRowPlan(r, t.R)
		}
		if F == "docx" && r.Chance(1, 4) {
			// one or two cells with some of their paragraphs inside a block-level container
			var cands []*lcell
			for a := 0; a < t.R; a++ {
				for b := 0; b < t.C; b++ {
					if c := t.Cells[[2]int{a, b}]; c != nil && len(c.Paras) > 0 {
						cands = append(cands, c)
					}
				}
			}
			for n := r.Range(1, 2); n > 0 && len(cands) > 0; n-- {
				c := cands[r.Intn(len(cands))]
				c.Box = hx.Pick(r, boxKinds)
				c.BoxAt = r.Intn(len(c.Paras))
				c.BoxN = r.Range(1, len(c.Paras)-c.BoxAt)
			}
		}
	}
	for a := 0; a < t.R; a++ {
		for b := 0; b < t.C; b++ {
			if c := t.Cells[[2]int{a, b}]; c != nil && c.Nested != nil {
				drawTableStructure(r, F, c.Nested)
			}
		}
	}
}

// drawRowPlan lays R rows out in sections. A section is one of the four shapes of
// table-rows-no-group - rows / header rows / header rows, rows / rows, header rows, rows -
// and stands directly in the table or in a table:table-row-group of its own; plain rows are
// written as they are or inside table:table-rows.
func drawRowPlan(r *hx.Rng, R int) []rowSeg {
	var plan []rowSeg
	left, grp := R, 0
	for left > 0 {
		g := 0
		if r.Bool() {
			grp++
			g = grp
		}
		shapes := []string{"r", "h"}
		if left >= 2 {
			shapes = append(shapes, "hr", "hr")
		}
		if left >= 3 {
			shapes = append(shapes, "rhr", "rhr")
		}
		shape := hx.Pick(r, shapes)
		n := r.Range(len(shape), left)
		if r.Bool() {
			n = min(left, len(shape)+r.Intn(2)) // short sections, so that several follow one another
		}
		counts := make([]int, len(shape))
		for i := range counts {
			counts[i] = 1
		}
		for k := n - len(shape); k > 0; k-- {
			counts[r.Intn(len(shape))]++
		}
		for i, part := range shape {
			seg := rowSeg{N: counts[i], Group: g}
			if part == 'h' {
				seg.Wrap = "header"
			} else if r.Chance(1, 3) {
				seg.Wrap = "rows"
			}
			plan = append(plan, seg)
		}
		left -= n
	}
	return plan
}

// headerAfterRow: some table:table-header-rows of the plan comes after a row of the table.
func headerAfterRow(plan []rowSeg) bool {
	for i, s := range plan {
		if s.Wrap == "header" && i > 0 {
			return true
		}
	}
	return false
}

func headerSegs(plan []rowSeg) int {
	n := 0
	for _, s := range plan {
		if s.Wrap == "header" {
			n++
		}
	}
	return n
}

// odtPlanRows lays the row elements out as the plan says; nil when the plan does not fit.
func odtPlanRows(plan []rowSeg, rows []*Node) []*Node {
	total := 0
	for _, s := range plan {
		total += s.N
	}
	if total != len(rows) || len(plan) == 0 {
		return nil
	}
	var out []*Node
	var grp *Node
	cur, k := 0, 0
	for _, s := range plan {
		rs := rows[k : k+s.N]
		k += s.N
		switch s.Wrap {
		case "header":
			rs = []*Node{odtGroup("table:table-header-rows", rs)}
		case "rows":
			rs = []*Node{odtGroup("table:table-rows", rs)}
		}
		if s.Group == 0 {
			out = append(out, rs...)
			grp, cur = nil, 0
			continue
		}
		if s.Group != cur {
			grp, cur = E("table:table-row-group"), s.Group
			out = append(out, grp)
		}
		grp.Add(rs...)
	}
	return out
}

func (t *ltable) structCanon() string {
	s := ""
	for _, seg := range t.Plan {
		s += fmt.Sprintf("{%d%s%d}", seg.N, seg.Wrap, seg.Group)
	}
	for a := 0; a < t.R && len(t.HdrRows) > 0; a++ {
		if t.HdrRows[a] {
			s += fmt.Sprintf("H%d", a)
		}
	}
	return s
}

// drawBoxes puts one or two runs of 1..3 consecutive blocks into block-level containers.
// What follows a container matters as much as what it holds: half of the time a table
// that is itself followed by a paragraph is put right behind it.
func (d *ldoc) drawBoxes(r *hx.Rng) {
	at, id := r.Intn(len(d.Blocks)), 0
	for n := r.Range(1, 2); n > 0 && at < len(d.Blocks); n-- {
		id++
		kind := hx.Pick(r, boxKinds)
		end := min(at+r.Range(1, 3), len(d.Blocks))
		for i := at; i < end; i++ {
			d.Blocks[i].Box, d.Blocks[i].BoxKind = id, kind
		}
		if r.Bool() {
			var ins []lblock
			if r.Chance(1, 3) {
				ins = append(ins, lblock{P: d.genPara(r)})
			}
			ins = append(ins, lblock{T: d.genTable(r, 0)}, lblock{P: d.genPara(r)})
			d.Blocks = append(d.Blocks[:end], append(ins, d.Blocks[end:]...)...)
			end += len(ins)
		}
		at = end + r.Intn(3)
	}
}

func (d *ldoc) boxed() bool {
	for _, bl := range d.Blocks {
		if bl.Box != 0 {
			return true
		}
	}
	return false
}

// docxBox writes the container around the block elements.
func docxBox(kind string, id int, inner []*Node) *Node {
	sdt := func(kids []*Node) *Node {
		return E("w:sdt",
			E("w:sdtPr", wval("w:alias", "box"), wval("w:id", strconv.Itoa(1000+id)),
				E("w:docPartObj", wval("w:docPartGallery", "Table of Contents"), E("w:docPartUnique"))),
			E("w:sdtEndPr"),
			E("w:sdtContent", kids...))
	}
	cx := func(kids []*Node) *Node {
		n := E("w:customXml", E("w:customXmlPr", E("w:attr").A("w:name", "kind").A("w:val", "x")))
		n.Add(kids...)
		return n.A("w:uri", "urn:example:doc").A("w:element", "chapter")
	}
	switch kind {
	case "customXml":
		return cx(inner)
	case "customXml-in-sdt":
		return sdt([]*Node{cx(inner)})
	case "sdt-in-customXml":
		return cx([]*Node{sdt(inner)})
	}
	return sdt(inner)
}

// docxMarks: empty markers that are children of the body (or of a container) themselves.
func docxMarks(n int) []*Node {
	all := []*Node{
		E("w:bookmarkStart").A("w:id", "50").A("w:name", "mark"),
		E("w:bookmarkEnd").A("w:id", "50"),
		E("w:proofErr").A("w:type", "spellStart"),
	}
	return all[:min(n, len(all))]
}

// statsStructure counts what drawStructure drew.
func statsStructure(c *hx.Ctx, d *ldoc) {
	seen := map[int]bool{}
	for bi, bl := range d.Blocks {
		if bl.Marks > 0 {
			c.Count("docx-body-level-marker-before-a-block")
		}
		if bl.T != nil {
			countTableStructure(c, d.Format, bl.T)
		}
		if bl.Box == 0 {
			continue
		}
		if bl.T != nil {
			c.Count("docx-table-inside-block-container")
		} else {
			c.Count("docx-" + bl.P.Kind + "-inside-block-container")
		}
		if seen[bl.Box] {
			continue
		}
		seen[bl.Box] = true
		c.Count("docx-block-container:" + bl.BoxKind)
		end := bi
		for end < len(d.Blocks) && d.Blocks[end].Box == bl.Box {
			end++
		}
		for k := end; k+1 < len(d.Blocks); k++ {
			if d.Blocks[k].T != nil && d.Blocks[k].Box == 0 && d.Blocks[k+1].P != nil {
				c.Count("docx-block-container-then-table-then-paragraph")
				break
			}
		}
		if end == len(d.Blocks) {
			c.Count("docx-block-container-ends-the-body")
		}
	}
}

func countTableStructure(c *hx.Ctx, F string, t *ltable) {
	if len(t.HdrRows) > 0 {
		c.Count("docx-table-with-tblHeader-rows")
		for a := 1; a < t.R; a++ {
			if t.HdrRows[a] && !t.HdrRows[a-1] {
				c.Count("docx-tblHeader-on-a-row-after-a-plain-row")
				break
			}
		}
	}
	if t.Plan != nil {
		c.Count("odt-table-rows-laid-out-by-plan")
		if headerAfterRow(t.Plan) {
			c.Count("odt-header-rows-after-other-rows")
		}
		if headerSegs(t.Plan) > 1 {
			c.Count("odt-several-header-rows-elements-in-a-table")
		}
		for _, s := range t.Plan {
			if s.Group > 0 && s.Wrap == "header" {
				c.Count("odt-row-group-with-its-own-header-rows")
				break
			}
		}
	}
	for _, cell := range t.Cells {
		if cell.Box != "" {
			c.Count("docx-cell-block-container:" + cell.Box)
			switch {
			case cell.BoxN == len(cell.Paras):
				c.Count("docx-cell-block-container-holds-every-paragraph-of-the-cell")
			case cell.BoxAt == 0:
				c.Count("docx-cell-block-container-before-direct-paragraphs")
			case cell.BoxAt+cell.BoxN == len(cell.Paras):
				c.Count("docx-cell-block-container-after-direct-paragraphs")
			default:
				c.Count("docx-cell-block-container-between-direct-paragraphs")
			}
		}
		if cell.Nested != nil {
			countTableStructure(c, F, cell.Nested)
		}
	}
}
