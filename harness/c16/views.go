package c16

import (
	"fmt"
	"strings"

	"github.com/tsawler/tabula/docx"
	"github.com/tsawler/tabula/model"
	"github.com/tsawler/tabula/odt"
	"github.com/tsawler/tabula/rag"

	"verifharness/hx"
)

// ---- the views of one reader, in any order --------------------------------------------
//
// The property speaks about three presentations of one document: plain text, Markdown
// and the document model. A caller holds ONE reader and asks for them in whatever order
// and as often as it likes; what a view presents is a function of the document, not of
// which views were produced before. For every generated document a second reader is
// opened and its views are asked for in a drawn order with repetitions:
//
//	T Text()   M Markdown()   R MarkdownWithRAGOptions(defaults)   D Document()
//	P the parsed element list / tables   L ModelTables()
//
// The last result of every view goes through the very oracles of the fresh-reader run
// (keys C16/<format>-reused-reader-<key>), and a view asked for twice must answer the
// same (C16/<format>-reused-reader-view-stable).

type views struct {
	text, md, rag func() (string, error)
	doc           func() (*model.Document, error)
	parsed        func() []ptable
	mtables       func() []*model.Table
	close         func()
}

func openViews(F, path string) (*views, error) {
	if F == "docx" {
		rd, err := docx.Open(path)
		if err != nil {
			return nil, err
		}
		return &views{text: rd.Text, md: rd.Markdown, doc: rd.Document, mtables: rd.ModelTables,
			rag:    func() (string, error) { return rd.MarkdownWithRAGOptions(docx.ExtractOptions{}, rag.MarkdownOptions{}) },
			parsed: func() []ptable { return parsedDocx(rd.VerifElements()) },
			close:  func() { rd.Close() }}, nil
	}
	rd, err := odt.Open(path)
	if err != nil {
		return nil, err
	}
	return &views{text: rd.Text, md: rd.Markdown, doc: rd.Document, mtables: rd.ModelTables,
		rag:    func() (string, error) { return rd.MarkdownWithRAGOptions(odt.ExtractOptions{}, rag.MarkdownOptions{}) },
		parsed: func() []ptable { return parsedOdt(rd.VerifElements()) },
		close:  func() { rd.Close() }}, nil
}

// viewSeq draws the order: every one of T, M, D, P once, shuffled, and up to three more
// calls (any view) put in at random places.
func viewSeq(r *hx.Rng) []byte {
	seq := []byte("TMDP")
	hx.Shuffle(r, seq)
	for n := r.Intn(4); n > 0; n-- {
		v := hx.Pick(r, []byte("TMDPRL"))
		k := r.Intn(len(seq) + 1)
		seq = append(seq[:k], append([]byte{v}, seq[k:]...)...)
	}
	return seq
}

type viewRun struct {
	Seq      string
	Out      outputs
	MTables  []*model.Table
	Err      error
	Unstable string // first view that answered differently the second time
	Ran      bool
}

func docCanon(doc *model.Document) string {
	var b strings.Builder
	for _, e := range flatten(doc) {
		fmt.Fprintf(&b, "%s/%d/%q", e.Kind, e.Level, e.Text)
		if e.Tbl != nil {
			b.WriteString(tableCanon(e.Tbl))
		}
		b.WriteString(";")
	}
	return b.String()
}

func tableCanon(t *model.Table) string {
	var b strings.Builder
	for _, row := range t.Rows {
		for _, c := range row {
			fmt.Fprintf(&b, "%q.%d.%d,", c.Text, c.RowSpan, c.ColSpan)
		}
		b.WriteString("/")
	}
	return b.String()
}

var viewName = map[byte]string{'T': "Text()", 'M': "Markdown()", 'R': "MarkdownWithRAGOptions()", 'D': "Document()", 'P': "Tables()", 'L': "ModelTables()"}

func (v *views) run(seq []byte) viewRun {
	res := viewRun{Seq: string(seq), Ran: true}
	last := map[byte]string{}
	for i, op := range seq {
		var canon string
		var err error
		switch op {
		case 'T':
			res.Out.Text, err = v.text()
			canon = res.Out.Text
		case 'M':
			res.Out.MD, err = v.md()
			canon = res.Out.MD
		case 'R':
			canon, err = v.rag()
		case 'D':
			res.Out.Doc, err = v.doc()
			canon = docCanon(res.Out.Doc)
		case 'P':
			res.Out.Parsed, res.Out.HaveParsed = v.parsed(), true
			canon = fmt.Sprintf("%+v", res.Out.Parsed)
		case 'L':
			res.MTables = v.mtables()
			for _, t := range res.MTables {
				canon += tableCanon(t) + ";"
			}
		}
		if err != nil && res.Err == nil {
			res.Err = fmt.Errorf("%s (call %d of %s): %v", viewName[op], i+1, res.Seq, err)
		}
		if prev, seen := last[op]; seen && prev != canon && res.Unstable == "" {
			res.Unstable = fmt.Sprintf("call %d of the sequence %s: %s answers %s, an earlier call on the same reader answered %s",
				i+1, res.Seq, viewName[op], clip(diffAt(prev, canon)), clip(diffAt(canon, prev)))
		}
		last[op] = canon
	}
	return res
}

// diffAt returns b from a little before the first place where it differs from a.
func diffAt(a, b string) string {
	i := 0
	for i < len(a) && i < len(b) && a[i] == b[i] {
		i++
	}
	return b[max(0, i-30):]
}

func clip(s string) string {
	if len(s) > 120 {
		return fmt.Sprintf("%q…", s[:120])
	}
	return fmt.Sprintf("%q", s)
}

// checkReused evaluates the views of the reused reader with the oracles of the property.
func checkReused(c *hx.Ctx, d *ldoc, vr viewRun, kase interface{}) {
	if !vr.Ran {
		return
	}
	F := d.Format
	pre := "C16/" + F + "-reused-reader-"
	note := "views of one reader asked for in the order " + vr.Seq + " (T Text, M Markdown, R RAG Markdown, D Document, P parsed tables, L ModelTables): "
	if !c.Check(pre+"open", vr.Err == nil, kase, func() string { return note + fmt.Sprint(vr.Err) }) {
		return
	}
	c.Check(pre+"view-stable", vr.Unstable == "", kase, func() string { return note + vr.Unstable })
	f := evaluate(d, vr.Out)
	if vr.MTables != nil {
		// ModelTables(): the tables of the body in order, each the authored grid
		k := 0
		for bi, bl := range d.Blocks {
			if bl.T == nil {
				continue
			}
			if bl.Box != 0 {
				// a table inside a block-level container of the body: it is the next table, if it is there at all
				toks := bl.T.tokens()
				if len(toks) == 0 {
					continue
				}
				if k < len(vr.MTables) && (entry{Tbl: vr.MTables[k]}).contains(toks[0].Tok) {
					if !bl.T.Undef {
						checkGrid(f, bl.T, vr.MTables[k], bi)
					}
					k++
					continue
				}
				f.add("block-container-content-lost", "ModelTables(): table block %d (first token %q) is not table #%d%s", bi, toks[0].Tok, k, boxNote(bl))
				continue
			}
			if k >= len(vr.MTables) {
				f.add("grid-cell", "ModelTables(): %d tables, table block %d is table #%d", len(vr.MTables), bi, k)
				break
			}
			if !bl.T.Undef {
				checkGrid(f, bl.T, vr.MTables[k], bi)
			}
			k++
		}
	}
	for _, k := range oracleKeys[F] {
		detail, bad := f[k]
		c.Check(pre+k, !bad, kase, func() string { return note + detail })
	}
	for k, detail := range f {
		known := false
		for _, kk := range oracleKeys[F] {
			known = known || kk == k
		}
		if !known {
			det := detail
			c.Check(pre+k, false, kase, func() string { return note + det })
		}
	}
	c.Count("reused-reader-sequence-length=" + fmt.Sprint(len(vr.Seq)))
	if i := strings.IndexAny(vr.Seq, "DPL"); i >= 0 && strings.ContainsAny(vr.Seq[:strings.LastIndexAny(vr.Seq, "DPL")], "TMR") {
		c.Count("reused-reader-model-after-rendering")
	}
	if i := strings.IndexAny(vr.Seq, "TMR"); i >= 0 && strings.ContainsAny(vr.Seq[:strings.LastIndexAny(vr.Seq, "TMR")], "DPL") {
		c.Count("reused-reader-rendering-after-model")
	}
}
