package c16

import (
	"strings"

	"verifharness/hx"
	"verifharness/writers"
)

// ---- markup flavours of the packages ----------------------------------------------------
//
// What a word-processor document says does not depend on how its markup spells the XML
// namespaces. The writers (docxw.go, odtw.go) produce one spelling - the Transitional
// namespace URIs, the customary prefixes w / r / text / office ..., every namespace
// declared on the root of the part. applyFlavour rewrites the FINISHED members of a
// package into another spelling of the very same documents:
//
// DOCX (ECMA-376 / ISO/IEC 29500):
//
//	strict        the Strict conformance class (what Word writes as "Strict Open XML
//	              Document"): the purl.oclc.org namespaces for the main namespace, for the
//	              relationships namespace of r:id and for the Type of EVERY relationship
//	              (officeDocument, styles, numbering, header, footer, hyperlink), for the
//	              drawing namespaces; w:conformance="strict" on the root of the main part.
//	              The OPC layer (package relationships namespace, content types) is the
//	              same in both classes.
//	rel-prefix    the relationships namespace bound to another prefix (rel:id, ns1:id)
//	local-decl    the relationships namespace declared on each referencing element
//	              (w:hyperlink, w:headerReference, w:footerReference), not on the root
//	main-prefix   the main namespace bound to another prefix (<x:document>, x:val) - drawn
//	              for every WordprocessingML part of the package on its own (document,
//	              styles, numbering, header, footer)
//	main-default  the main namespace ALSO the default namespace: elements without a prefix
//	              (<document>, <p>), attributes keep the prefix (attributes are never in the
//	              default namespace)
//
// ODT (OpenDocument has one set of namespace URIs; the spelling of prefixes and the place
// of the declarations are free as in any XML document):
//
//	odf-prefix    text / office / style / table / fo bound to other prefixes in content.xml
//	              and styles.xml (each part on its own)
//	odf-default   the text namespace (content.xml) / the style namespace (styles.xml) also
//	              the default namespace: <p>, <h>, <span> without a prefix
//	odf-local     the table / xlink namespaces declared on the elements that use them
//	              (every table:table, every text:a), not on the root
//
// and combinations. The logical document, the authored trees on the op lines and every
// expectation are the same in every flavour: a reader that binds a name to one namespace
// URI, to the prefix, or to the declarations of the root reads some flavour differently.

const (
	nsMainT   = "http://schemas.openxmlformats.org/wordprocessingml/2006/main"
	nsMainS   = "http://purl.oclc.org/ooxml/wordprocessingml/main"
	nsRelT    = "http://schemas.openxmlformats.org/officeDocument/2006/relationships"
	nsRelS    = "http://purl.oclc.org/ooxml/officeDocument/relationships"
	nsDrawT   = "http://schemas.openxmlformats.org/drawingml/2006/"
	nsDrawS   = "http://purl.oclc.org/ooxml/drawingml/"
	nsOdfText = "urn:oasis:names:tc:opendocument:xmlns:text:1.0"
	nsOdfSty  = "urn:oasis:names:tc:opendocument:xmlns:style:1.0"
)

// nsRelT is the namespace of r:id and the leading part of every relationship Type
var strictURIs = strings.NewReplacer(nsMainT, nsMainS, nsRelT, nsRelS, nsDrawT, nsDrawS)

// ---- a small XML rewriter (names only; text and attribute values byte for byte) -----------

type xattr struct{ Name, Raw string } // Raw: the value between the quotes, as written

type xtag struct {
	Close, Empty bool
	Name         string
	Attrs        []xattr
	Depth        int // 0 = the root element
}

func isNameByte(c byte) bool {
	return c == ':' || c == '_' || c == '-' || c == '.' || c >= '0' && c <= '9' || c >= 'a' && c <= 'z' || c >= 'A' && c <= 'Z' || c >= 0x80
}

// rewriteTags calls f for every start / empty / end tag of the part and writes the part
// out again with the tag as f left it. Declarations, processing instructions, comments,
// CDATA sections and character data pass through unchanged. ok = false: the part is not
// what the writers produce (left alone by the callers).
func rewriteTags(data []byte, f func(t *xtag)) (out []byte, ok bool) {
	s := string(data)
	var b strings.Builder
	depth := 0
	for i := 0; i < len(s); {
		if s[i] != '<' {
			j := strings.IndexByte(s[i:], '<')
			if j < 0 {
				j = len(s) - i
			}
			b.WriteString(s[i : i+j])
			i += j
			continue
		}
		pass := func(end string) bool {
			j := strings.Index(s[i:], end)
			if j < 0 {
				return false
			}
			b.WriteString(s[i : i+j+len(end)])
			i += j + len(end)
			return true
		}
		switch {
		case strings.HasPrefix(s[i:], "<?"):
			if !pass("?>") {
				return data, false
			}
			continue
		case strings.HasPrefix(s[i:], "<!--"):
			if !pass("-->") {
				return data, false
			}
			continue
		case strings.HasPrefix(s[i:], "<![CDATA["):
			if !pass("]]>") {
				return data, false
			}
			continue
		case strings.HasPrefix(s[i:], "<!"):
			if !pass(">") {
				return data, false
			}
			continue
		}
		i++
		t := xtag{}
		if i < len(s) && s[i] == '/' {
			t.Close = true
			i++
		}
		j := i
		for j < len(s) && isNameByte(s[j]) {
			j++
		}
		if j == i {
			return data, false
		}
		t.Name = s[i:j]
		i = j
		for {
			for i < len(s) && (s[i] == ' ' || s[i] == '\t' || s[i] == '\n' || s[i] == '\r') {
				i++
			}
			if i >= len(s) {
				return data, false
			}
			if s[i] == '>' {
				i++
				break
			}
			if s[i] == '/' && i+1 < len(s) && s[i+1] == '>' {
				t.Empty = true
				i += 2
				break
			}
			j := i
			for j < len(s) && isNameByte(s[j]) {
				j++
			}
			if j == i || j+1 >= len(s) || s[j] != '=' || (s[j+1] != '"' && s[j+1] != '\'') {
				return data, false
			}
			q := s[j+1]
			e := strings.IndexByte(s[j+2:], q)
			if e < 0 {
				return data, false
			}
			raw := s[j+2 : j+2+e]
			if q == '\'' {
				raw = strings.ReplaceAll(raw, `"`, "&quot;")
			}
			t.Attrs = append(t.Attrs, xattr{s[i:j], raw})
			i = j + 2 + e + 1
		}
		if t.Close {
			depth--
		}
		t.Depth = depth
		f(&t)
		b.WriteString("<")
		if t.Close {
			b.WriteString("/")
		}
		b.WriteString(t.Name)
		for _, a := range t.Attrs {
			b.WriteString(" " + a.Name + `="` + a.Raw + `"`)
		}
		if t.Empty {
			b.WriteString("/")
		}
		b.WriteString(">")
		if !t.Close && !t.Empty {
			depth++
		}
	}
	return []byte(b.String()), true
}

func splitName(n string) (prefix, local string) {
	if k := strings.IndexByte(n, ':'); k >= 0 {
		return n[:k], n[k+1:]
	}
	return "", n
}

// renamePrefix: the namespace bound to the prefix from is bound to the prefix to instead
// (declaration, element names, attribute names). elemsOnlyDefault: the namespace becomes
// the default namespace as well - elements lose the prefix, attributes keep it.
func renamePrefix(data []byte, from, to string, elemsOnlyDefault bool) []byte {
	out, _ := rewriteTags(data, func(t *xtag) {
		p, l := splitName(t.Name)
		if p == from {
			if elemsOnlyDefault {
				t.Name = l
			} else {
				t.Name = to + ":" + l
			}
		}
		if t.Close {
			return
		}
		var extra []xattr
		for i := range t.Attrs {
			a := &t.Attrs[i]
			ap, al := splitName(a.Name)
			switch {
			case ap == "xmlns" && al == from && elemsOnlyDefault:
				extra = append(extra, xattr{"xmlns", a.Raw})
			case ap == "xmlns" && al == from:
				a.Name = "xmlns:" + to
			case ap == from && !elemsOnlyDefault:
				a.Name = to + ":" + al
			}
		}
		t.Attrs = append(t.Attrs, extra...)
	})
	return out
}

// declareLocally: the declaration of the prefix moves from the root to every element
// that uses the prefix in its own name or in an attribute name (a declaration is in scope
// for the element it stands on and everything below; the elements that repeat it say the
// same thing once more).
func declareLocally(data []byte, prefix string) []byte {
	uri := ""
	out, _ := rewriteTags(data, func(t *xtag) {
		if t.Close {
			return
		}
		if t.Depth == 0 {
			keep := t.Attrs[:0:0]
			for _, a := range t.Attrs {
				if a.Name == "xmlns:"+prefix {
					uri = a.Raw
					continue
				}
				keep = append(keep, a)
			}
			t.Attrs = keep
		}
		if uri == "" {
			return
		}
		uses := strings.HasPrefix(t.Name, prefix+":")
		for _, a := range t.Attrs {
			uses = uses || strings.HasPrefix(a.Name, prefix+":")
		}
		if uses {
			// in front of the attributes that need it (any order is the same XML)
			t.Attrs = append([]xattr{{"xmlns:" + prefix, uri}}, t.Attrs...)
		}
	})
	return out
}

func addRootAttr(data []byte, name, val string) []byte {
	out, _ := rewriteTags(data, func(t *xtag) {
		if t.Depth == 0 && !t.Close {
			t.Attrs = append(t.Attrs, xattr{name, val})
		}
	})
	return out
}

// ---- drawing and applying a flavour ---------------------------------------------------------

// pickFlavour draws the flavour of package #idx (a stream of its own: the logical
// document of the index is the same whatever the flavour). About half of the packages
// keep the writers' spelling.
func pickFlavour(r *hx.Rng, F string) string {
	var fl []string
	if F == "docx" {
		switch c := r.Intn(20); {
		case c < 9:
			return ""
		case c < 12:
			return "strict"
		case c < 15:
			fl = append(fl, "strict")
		}
		// one spelling of the relationships namespace and / or one of the main namespace
		rel, main := hx.Pick(r, []string{"rel-prefix", "local-decl"}), hx.Pick(r, []string{"main-prefix", "main-default"})
		switch r.Intn(5) {
		case 0, 1:
			fl = append(fl, rel)
		case 2, 3:
			fl = append(fl, main)
		default:
			fl = append(fl, rel, main)
		}
		return strings.Join(fl, "+")
	}
	if r.Intn(20) < 11 {
		return ""
	}
	fl = append(fl, hx.Pick(r, []string{"odf-prefix", "odf-default", "odf-local"}))
	if r.Chance(1, 3) {
		if x := hx.Pick(r, []string{"odf-prefix", "odf-default", "odf-local"}); x != fl[0] {
			fl = append(fl, x)
		}
	}
	return strings.Join(fl, "+")
}

func hasFlavour(fl, k string) bool { return strings.Contains("+"+fl+"+", "+"+k+"+") }

var (
	relPrefixes  = []string{"rel", "relationships", "R", "ns1"}
	mainPrefixes = []string{"x", "wml", "W", "ns0", "main"}
)

func isWordML(name string) bool {
	return strings.HasPrefix(name, "word/") && strings.HasSuffix(name, ".xml")
}

// applyFlavour rewrites the finished members of a package (a copy; the members the
// writers returned stay as they are). r is the flavour's own stream.
func applyFlavour(r *hx.Rng, F, fl string, members []writers.Member) []writers.Member {
	if fl == "" {
		return members
	}
	out := make([]writers.Member, len(members))
	copy(out, members)
	for i := range out {
		m := &out[i]
		data := m.Data
		if F == "docx" {
			switch {
			case m.Name == "word/document.xml":
				if hasFlavour(fl, "rel-prefix") {
					data = renamePrefix(data, "r", hx.Pick(r, relPrefixes), false)
				}
				if hasFlavour(fl, "local-decl") {
					data = declareLocally(data, "r")
				}
				if hasFlavour(fl, "main-prefix") {
					data = renamePrefix(data, "w", hx.Pick(r, mainPrefixes), false)
				}
				if hasFlavour(fl, "main-default") {
					data = renamePrefix(data, "w", "", true)
				}
				if hasFlavour(fl, "strict") {
					// the attribute is in the main namespace whatever prefix that has by now
					p := "w"
					if _, ok := rewriteTags(data, func(t *xtag) {
						if t.Depth == 0 && !t.Close {
							for _, a := range t.Attrs {
								if ap, al := splitName(a.Name); ap == "xmlns" && a.Raw == nsMainT {
									p = al
								}
							}
						}
					}); ok {
						data = addRootAttr(data, p+":conformance", "strict")
					}
				}
			case isWordML(m.Name):
				// styles, numbering, header and footer parts: each spells the main namespace its own way
				switch {
				case hasFlavour(fl, "main-prefix") && r.Chance(2, 3):
					data = renamePrefix(data, "w", hx.Pick(r, mainPrefixes), false)
				case hasFlavour(fl, "main-default") && r.Chance(2, 3):
					data = renamePrefix(data, "w", "", true)
				}
			}
			if hasFlavour(fl, "strict") && (strings.HasSuffix(m.Name, ".xml") || strings.HasSuffix(m.Name, ".rels")) && m.Name != "[Content_Types].xml" {
				data = []byte(strictURIs.Replace(string(data)))
			}
		} else if m.Name == "content.xml" || m.Name == "styles.xml" {
			if hasFlavour(fl, "odf-local") {
				for _, p := range []string{"table", "xlink", "svg"} {
					data = declareLocally(data, p)
				}
			}
			if hasFlavour(fl, "odf-prefix") {
				for _, p := range [][2]string{{"text", "t"}, {"office", "o"}, {"style", "s"}, {"table", "tbl"}, {"fo", "xslfo"}} {
					if r.Chance(3, 4) {
						data = renamePrefix(data, p[0], p[1], false)
					}
				}
			}
			if hasFlavour(fl, "odf-default") {
				p := "text"
				if m.Name == "styles.xml" {
					p = "style"
				}
				if hasFlavour(fl, "odf-prefix") { // whatever the prefix is called by now
					uri := map[string]string{"text": nsOdfText, "style": nsOdfSty}[p]
					rewriteTags(data, func(t *xtag) {
						if t.Depth == 0 && !t.Close {
							for _, a := range t.Attrs {
								if ap, al := splitName(a.Name); ap == "xmlns" && a.Raw == uri {
									p = al
								}
							}
						}
					})
				}
				data = renamePrefix(data, p, "", true)
			}
		}
		m.Data = data
	}
	return out
}

// flavourStream: the flavour stream of document #idx.
func flavourStream(c *hx.Ctx, idx int) *hx.Rng { return c.Rng.Fork(uint64(idx) + 1<<42) }
