package c16

import (
	"sort"
	"strconv"

	"verifharness/hx"
	"verifharness/writers"
)

// Independent ODT writer (OpenDocument 1.2 text documents): mimetype first and
// stored, content.xml, styles.xml (named styles, list styles, master page with
// header/footer), meta.xml, META-INF/manifest.xml.

var odtNS = [][2]string{
	{"office", "urn:oasis:names:tc:opendocument:xmlns:office:1.0"},
	{"style", "urn:oasis:names:tc:opendocument:xmlns:style:1.0"},
	{"text", "urn:oasis:names:tc:opendocument:xmlns:text:1.0"},
	{"table", "urn:oasis:names:tc:opendocument:xmlns:table:1.0"},
	{"fo", "urn:oasis:names:tc:opendocument:xmlns:xsl-fo-compatible:1.0"},
	{"xlink", "http://www.w3.org/1999/xlink"},
	{"dc", "http://purl.org/dc/elements/1.1/"},
	{"meta", "urn:oasis:names:tc:opendocument:xmlns:meta:1.0"},
	{"svg", "urn:oasis:names:tc:opendocument:xmlns:svg-compatible:1.0"},
}

type odtPkg struct {
	Content *Node
	Styles  *Node
	Members []writers.Member
	Tables  []*Node // the table:table elements of the body (not the nested ones), in order
}

// odtStyleFor picks the style name; auto collects automatic (content.xml) styles,
// named the styles.xml ones.
func odtStyleFor(p *lpara, auto, named map[string]bool) string {
	L := strconv.Itoa(p.styleLevel())
	s := ""
	kind, via := p.Kind, p.Via
	if p.Kind == "p" && p.HStyle != "" {
		// a plain paragraph written in the style a heading of that Via / level would use
		kind, via = "h", p.HStyle
	}
	switch kind {
	case "h":
		switch via {
		case "builtin":
			s = "Heading_20_" + L
			named[s] = true
		case "custom":
			s = "Kapitel_20_" + L
			named[s] = true
		case "inherited":
			s = "PH" + L
			auto[s] = true
			named["Heading_20_"+L] = true
		case "inherited2":
			s = "PK" + L
			auto[s] = true
			named["Kapitel_20_"+L] = true
		case "name":
			s = "Heading" + L
			named[s] = true
		case "cyclic":
			s = "CycA" + L
			named[s] = true
			named["CycB"+L] = true
		case "family":
			s = p.Fam // its ancestors are added by family.closeNeed
			named[s] = true
		case "outline":
			// text:h with its text:outline-level, written in a body style (or in none)
			s = odtPlainStyle(p.Plain, auto, named)
		}
	case "p":
		if p.Fam != "" {
			s = p.Fam // a (cell) paragraph written in a style of the family
			named[s] = true
		}
		if ps := odtPlainStyle(p.Via, auto, named); ps != "" {
			s = ps
		}
	case "li":
		s = "List_20_Paragraph"
		named[s] = true
	}
	return s
}

// odtPlainStyle: the style name of a non-heading paragraph style (a p.Via value).
// "undef" is a name neither content.xml nor styles.xml defines.
func odtPlainStyle(via string, auto, named map[string]bool) string {
	switch via {
	case "quote":
		named["Quotations"] = true
		return "Quotations"
	case "boldsmall":
		auto["PB1"] = true
		return "PB1"
	case "bigbold":
		auto["PB2"] = true
		return "PB2"
	case "cycplain":
		named["CycPlainA"], named["CycPlainB"] = true, true
		return "CycPlainA"
	case "undef":
		return "Textk_f6_rper"
	case "normal":
		return "Standard"
	}
	return ""
}

func odtStyleDef(name string, noOutline bool) *Node {
	st := E("style:style").A("style:name", name).A("style:family", "paragraph")
	base, L := digitsSuffix(name)
	Ls := strconv.Itoa(L)
	switch base {
	case "Heading_20_":
		st.A("style:display-name", "Heading "+Ls).A("style:parent-style-name", "Heading").A("style:class", "text")
		if !noOutline {
			st.A("style:default-outline-level", Ls)
		}
		st.Add(E("style:text-properties").A("fo:font-size", strconv.Itoa(30-2*L)+"pt").A("fo:font-weight", "bold"))
	case "Kapitel_20_":
		st.A("style:display-name", "Kapitel "+Ls).A("style:parent-style-name", "Standard").A("style:default-outline-level", Ls)
		st.Add(E("style:paragraph-properties").A("fo:text-align", "center"))
	case "PH":
		st.A("style:parent-style-name", "Heading_20_"+Ls)
		st.Add(E("style:paragraph-properties").A("fo:text-align", "end"))
	case "PK":
		st.A("style:parent-style-name", "Kapitel_20_"+Ls)
	case "Heading":
		if L > 0 {
			st.A("style:parent-style-name", "Standard")
			if !noOutline {
				st.A("style:default-outline-level", Ls)
			}
		} else {
			st.A("style:parent-style-name", "Standard").A("style:class", "text")
		}
	case "CycA":
		st.A("style:parent-style-name", "CycB"+Ls)
	case "CycB":
		st.A("style:parent-style-name", "CycA"+Ls)
	case "Quotations":
		st.A("style:parent-style-name", "Standard").A("style:class", "html")
		st.Add(E("style:paragraph-properties").A("fo:margin-left", "1cm"))
	case "PB":
		st.A("style:parent-style-name", "Standard")
		sz := "11pt"
		if L == 2 {
			sz = "18pt"
		}
		st.Add(E("style:text-properties").A("fo:font-size", sz).A("fo:font-weight", "bold"))
	case "CycPlainA":
		st.A("style:parent-style-name", "CycPlainB")
	case "CycPlainB":
		st.A("style:parent-style-name", "CycPlainA")
	case "List_20_Paragraph":
		st.A("style:display-name", "List Paragraph").A("style:parent-style-name", "Standard")
	case "Standard":
		st.A("style:class", "text")
	}
	return st
}

// odtFamilyDef writes a derived style of the document's style family: a common
// style whose parent is a heading style, with a default outline level of its own
// when it overrides (OpenDocument 1.2 part 1, 19.470 / 19.510).
func odtFamilyDef(s *fstyle) *Node {
	st := E("style:style").A("style:name", s.ID).A("style:display-name", "Fam "+s.ID[len("Fam_20_"):]).
		A("style:family", "paragraph").A("style:parent-style-name", s.Parent).A("style:class", "text")
	if s.Own > 0 {
		st.A("style:default-outline-level", strconv.Itoa(s.Own))
	}
	if s.Depth == 1 {
		st.Add(E("style:paragraph-properties").A("fo:keep-with-next", "always"))
	}
	return st
}

func odtListStyles() []*Node {
	var out []*Node
	for id := 1; id <= 3; id++ {
		ls := E("text:list-style").A("style:name", "L"+strconv.Itoa(id))
		for l := 1; l <= 5; l++ {
			if id == 1 || (id == 3 && l%2 == 0) {
				ls.Add(E("text:list-level-style-bullet").A("text:level", strconv.Itoa(l)).A("text:bullet-char", []string{"•", "◦", "▪"}[l%3]))
			} else {
				n := E("text:list-level-style-number").A("text:level", strconv.Itoa(l)).A("style:num-format", []string{"1", "a", "i", "A", "I"}[(l+id)%5]).A("style:num-suffix", ".")
				if id == 3 && l == 1 {
					n.A("text:start-value", "3")
				}
				ls.Add(n)
			}
		}
		out = append(out, ls)
	}
	return out
}

func odtListStylesFor(d *ldoc) []*Node {
	if d.NumSeed != 0 {
		return odtListStylesVariant(hx.NewRng(d.NumSeed))
	}
	return odtListStyles()
}

func addText(kids []*Node, s string) []*Node {
	if n := len(kids); n > 0 && kids[n-1].Tag == "" {
		kids[n-1] = T(kids[n-1].Text + s) // adjacent character data is one text node
		return kids
	}
	return append(kids, T(s))
}

func odtItems(kids []*Node, items []inl) []*Node {
	for _, it := range items {
		switch it.Kind {
		case "t":
			kids = addText(kids, it.Tok)
		case "tab":
			kids = append(kids, E("text:tab"))
		case "br":
			kids = append(kids, E("text:line-break"))
		case "s":
			kids = append(kids, E("text:s").A("text:c", it.Tok))
		case "lit":
			kids = addText(kids, it.Tok)
		}
	}
	return kids
}

func odtInline(runs []lrun) []*Node {
	var kids []*Node
	for _, ru := range runs {
		style := "T1"
		if ru.Bold {
			style = "T2"
		}
		switch ru.Wrap {
		case "":
			kids = odtItems(kids, ru.Items)
		case "span":
			kids = append(kids, E("text:span", odtItems(nil, ru.Items)...).A("text:style-name", style))
		case "a":
			kids = append(kids, E("text:a", odtItems(nil, ru.Items)...).A("xlink:type", "simple").A("xlink:href", "https://example.org/"))
		case "span2":
			outer := odtItems(nil, ru.Items[:1])
			if len(ru.Items) == 1 {
				outer = nil
			}
			innerItems := ru.Items[1:]
			if len(ru.Items) == 1 {
				innerItems = ru.Items
			}
			inner := E("text:span", odtItems(nil, innerItems)...).A("text:style-name", "T2")
			kids = append(kids, E("text:span", append(outer, inner)...).A("text:style-name", "T1"))
		case "note":
			kids = append(kids, E("text:note", E("text:note-citation", T("1")),
				E("text:note-body", E("text:p", T(ru.Items[0].Tok)))).A("text:id", "ftn1").A("text:note-class", "footnote"))
		}
	}
	return kids
}

func odtPara(p *lpara, auto, named map[string]bool) *Node {
	s := odtStyleFor(p, auto, named)
	p.Style = s
	tag := "text:p"
	if p.Kind == "h" {
		tag = "text:h"
	}
	n := E(tag, odtInline(p.Runs)...)
	if s != "" {
		n.A("text:style-name", s)
	}
	if p.Kind == "h" {
		switch {
		case p.RawOutline == "omit":
			// no text:outline-level at all
		case p.RawOutline != "" || p.NoOwnLevel:
			n.A("text:outline-level", p.RawOutline)
		default:
			n.A("text:outline-level", strconv.Itoa(p.Level))
		}
	}
	return n
}

// odtList nests a run of list items (levels deepen by at most one) as text:list trees.
func odtList(items []*lpara, level int, auto, named map[string]bool) *Node {
	list := E("text:list")
	i := 0
	for i < len(items) {
		item := E("text:list-item")
		if items[i].Level == level {
			if !items[i].NoPara {
				item.Add(odtPara(items[i], auto, named))
			}
			i++
		}
		j := i
		for j < len(items) && items[j].Level > level {
			j++
		}
		if j > i {
			item.Add(odtList(items[i:j], level+1, auto, named))
			i = j
		}
		list.Add(item)
	}
	return list
}

// odtGroup wraps nodes in a grouping element of the table (ODF 1.2 part 1, 9.1.2: rows may
// sit in table:table-header-rows, table:table-rows, table:table-row-group, columns in
// table:table-columns, table:table-header-columns, table:table-column-group; the grouping
// says nothing about the content).
func odtGroup(tag string, ns []*Node) *Node { return E(tag, ns...) }

func odtTable(t *ltable, idx *int, auto, named map[string]bool) *Node {
	*idx++
	tbl := E("table:table").A("table:name", "Tbl"+strconv.Itoa(*idx))
	var cols, rows []*Node
	if t.RawRepeat != "" {
		// the first column element stands for RepeatN columns, the others follow one by one
		cols = append(cols, E("table:table-column").A("table:number-columns-repeated", rawAttr(t.RawRepeat)))
		for c := t.RepeatN; c < t.C; c++ {
			cols = append(cols, E("table:table-column"))
		}
	} else if t.NoGrid {
		cols = append(cols, E("table:table-column").A("table:number-columns-repeated", strconv.Itoa(t.C)))
	} else {
		for c := 0; c < t.C; c++ {
			cols = append(cols, E("table:table-column"))
		}
	}
	for a := 0; a < t.R; a++ {
		tr := E("table:table-row")
		for b := 0; b < t.C; b++ {
			cell := t.Cells[[2]int{a, b}]
			if cell == nil {
				tr.Add(E("table:covered-table-cell"))
				continue
			}
			tc := E("table:table-cell").A("office:value-type", "string")
			if cell.RawCS != "" {
				tc.A("table:number-columns-spanned", rawAttr(cell.RawCS))
			} else if cell.CS > 1 {
				tc.A("table:number-columns-spanned", strconv.Itoa(cell.CS))
			}
			if cell.RawRS != "" {
				tc.A("table:number-rows-spanned", rawAttr(cell.RawRS))
			} else if cell.RS > 1 {
				tc.A("table:number-rows-spanned", strconv.Itoa(cell.RS))
			}
			for i := range cell.Paras {
				tc.Add(odtPara(&cell.Paras[i], auto, named))
			}
			if cell.Nested != nil {
				tc.Add(odtTable(cell.Nested, idx, auto, named))
			}
			tr.Add(tc)
		}
		rows = append(rows, tr)
	}
	switch t.Groups {
	case 1: // the first row is a repeated heading row
		tbl.Add(cols...)
		tbl.Add(odtGroup("table:table-header-rows", rows[:1]))
		tbl.Add(rows[1:]...)
	case 2: // heading row and body rows, each in their group
		tbl.Add(cols...)
		tbl.Add(odtGroup("table:table-header-rows", rows[:1]))
		if len(rows) > 1 {
			tbl.Add(odtGroup("table:table-rows", rows[1:]))
		}
	case 3: // columns and rows grouped
		tbl.Add(odtGroup("table:table-columns", cols), odtGroup("table:table-rows", rows))
	case 4: // a row group inside a row group, the last row outside
		k := len(rows) / 2
		tbl.Add(cols...)
		tbl.Add(odtGroup("table:table-row-group", append([]*Node{odtGroup("table:table-row-group", rows[:k])}, rows[k:len(rows)-1]...)))
		tbl.Add(rows[len(rows)-1])
	case 5: // heading column and a column group
		tbl.Add(odtGroup("table:table-header-columns", cols[:1]))
		if len(cols) > 1 {
			tbl.Add(odtGroup("table:table-column-group", cols[1:]))
		}
		tbl.Add(rows...)
	case 6: // the rows laid out by the drawn plan (structure.go): header rows also after other rows
		tbl.Add(cols...)
		if laid := odtPlanRows(t.Plan, rows); laid != nil {
			tbl.Add(laid...)
		} else {
			tbl.Add(rows...)
		}
	default:
		tbl.Add(cols...)
		tbl.Add(rows...)
	}
	return tbl
}

// drawGroups gives the table (and its nested tables) a grouping of rows / columns.
func drawGroups(r *hx.Rng, t *ltable) {
	if r.Chance(2, 5) {
		if g := r.Range(1, 5); t.Plan == nil { // a drawn row plan (Groups 6) stays
			t.Groups = g
		}
	}
	for _, c := range t.Cells {
		if c.Nested != nil {
			drawGroups(r, c.Nested)
		}
	}
}

func sortedKeys(m map[string]bool) []string {
	ks := make([]string, 0, len(m))
	for k := range m {
		ks = append(ks, k)
	}
	sort.Strings(ks)
	return ks
}

func writeOdt(r *hx.Rng, d *ldoc) odtPkg {
	auto, named := map[string]bool{}, map[string]bool{"Standard": true}
	text := E("office:text", E("text:sequence-decls", E("text:sequence-decl").A("text:name", "Table")))
	var blocks, bodyTables []*Node
	tblIdx := 0
	for i := 0; i < len(d.Blocks); i++ {
		bl := d.Blocks[i]
		var n *Node
		switch {
		case bl.T != nil:
			if !d.NoDraw {
				drawGroups(r, bl.T)
			}
			n = odtTable(bl.T, &tblIdx, auto, named)
			bodyTables = append(bodyTables, n)
		case bl.P.Kind == "li":
			var items []*lpara
			j := i
			for j < len(d.Blocks) && d.Blocks[j].P != nil && d.Blocks[j].P.Kind == "li" && d.Blocks[j].P.NumID == bl.P.NumID {
				items = append(items, d.Blocks[j].P)
				j++
			}
			n = odtList(items, 0, auto, named)
			if bl.P.NumID != 0 { // render stream: list 0 is written without a style name
				n.A("text:style-name", "L"+strconv.Itoa(bl.P.NumID))
			}
			i = j - 1
		default:
			n = odtPara(bl.P, auto, named)
		}
		if bl.Section {
			n = E("text:section", n).A("text:name", "Sec"+strconv.Itoa(i))
		}
		blocks = append(blocks, n)
	}
	text.Add(blocks...)

	autoStyles := E("office:automatic-styles")
	for _, s := range sortedKeys(auto) {
		autoStyles.Add(odtStyleDef(s, d.NoOutline))
	}
	autoStyles.Add(E("style:style", E("style:text-properties").A("fo:font-style", "italic")).A("style:name", "T1").A("style:family", "text"))
	autoStyles.Add(E("style:style", E("style:text-properties").A("fo:font-weight", "bold")).A("style:name", "T2").A("style:family", "text"))
	listInContent := !d.Styles || r.Chance(1, 3)
	if d.Numbering && listInContent {
		autoStyles.Add(odtListStyles()...)
	}
	content := E("office:document-content", autoStyles, E("office:body", text)).A("office:version", "1.2")
	pkg := odtPkg{Content: content, Tables: bodyTables}

	manifest := `<?xml version="1.0" encoding="UTF-8"?>` + "\n" +
		`<manifest:manifest xmlns:manifest="urn:oasis:names:tc:opendocument:xmlns:manifest:1.0" manifest:version="1.2">` +
		`<manifest:file-entry manifest:full-path="/" manifest:media-type="application/vnd.oasis.opendocument.text"/>` +
		`<manifest:file-entry manifest:full-path="content.xml" manifest:media-type="text/xml"/>`
	members := []writers.Member{{Name: "content.xml", Data: content.XML(odtNS)}}
	if d.Styles {
		office := E("office:styles")
		d.Fam.closeNeed(named)
		names := sortedKeys(named)
		if r.Bool() {
			hx.Shuffle(r, names)
		}
		for _, s := range names {
			if fs := d.Fam.get(s); fs != nil && fs.Via == "family" {
				office.Add(odtFamilyDef(fs))
				continue
			}
			office.Add(odtStyleDef(s, d.NoOutline))
		}
		if d.Numbering && !listInContent {
			office.Add(odtListStyles()...)
		}
		st := E("office:document-styles", office, E("office:automatic-styles",
			E("style:page-layout", E("style:page-layout-properties").A("fo:page-width", "21cm")).A("style:name", "Mpm1"))).A("office:version", "1.2")
		if len(d.Header) > 0 || len(d.Footer) > 0 {
			mp := E("style:master-page").A("style:name", "Standard").A("style:page-layout-name", "Mpm1")
			if len(d.Header) > 0 {
				h := E("style:header")
				lines := d.Header
				var left []string
				if d.Render && len(lines) > 1 {
					lines, left = lines[:1], lines[1:] // render stream: further lines in the header of left pages
				}
				for _, t := range lines {
					h.Add(E("text:p", T(t)).A("text:style-name", "Header"))
				}
				mp.Add(h)
				if len(left) > 0 {
					hl := E("style:header-left")
					for _, t := range left {
						hl.Add(E("text:p", T(t[:3]), E("text:span", T(t[3:])).A("text:style-name", "T1")).A("text:style-name", "Header"))
					}
					mp.Add(hl)
				}
			}
			if len(d.Footer) > 0 {
				f := E("style:footer")
				for _, t := range d.Footer {
					f.Add(E("text:p", E("text:span", T(t)).A("text:style-name", "T1")).A("text:style-name", "Footer"))
				}
				mp.Add(f)
			}
			st.Add(E("office:master-styles", mp))
		}
		pkg.Styles = st
		members = append(members, writers.Member{Name: "styles.xml", Data: st.XML(odtNS)})
		manifest += `<manifest:file-entry manifest:full-path="styles.xml" manifest:media-type="text/xml"/>`
	}
	if d.Meta {
		members = append(members, writers.Member{Name: "meta.xml", Data: []byte(`<?xml version="1.0" encoding="UTF-8"?>` + "\n" +
			`<office:document-meta xmlns:office="urn:oasis:names:tc:opendocument:xmlns:office:1.0" xmlns:dc="http://purl.org/dc/elements/1.1/" xmlns:meta="urn:oasis:names:tc:opendocument:xmlns:meta:1.0" office:version="1.2"><office:meta><dc:title>METATITLE</dc:title><meta:generator>verif</meta:generator></office:meta></office:document-meta>`)})
		manifest += `<manifest:file-entry manifest:full-path="meta.xml" manifest:media-type="text/xml"/>`
	}
	manifest += `</manifest:manifest>`
	members = append(members, writers.Member{Name: "META-INF/manifest.xml", Data: []byte(manifest)})
	if r.Chance(1, 3) {
		hx.Shuffle(r, members)
	}
	pkg.Members = append([]writers.Member{{Name: "mimetype", Data: []byte("application/vnd.oasis.opendocument.text"), Store: true}}, members...)
	return pkg
}
