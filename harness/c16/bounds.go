package c16

import (
	"fmt"
	"os"
	"path/filepath"
	"strings"

	"github.com/tsawler/tabula"
	"github.com/tsawler/tabula/docx"
	"github.com/tsawler/tabula/model"
	"github.com/tsawler/tabula/odt"

	"verifharness/hx"
	"verifharness/writers"
)

// ---- documents at the resource bounds of the readers ----------------------------------------
//
// The DOCX and ODT readers limit four things (repairs made for the property "no input can
// crash, hang or exhaust the process"):
//
//	maxInlineDepth    = 10000  inline containers of a paragraph (w:ins, w:sdt, w:hyperlink, … /
//	                           text:span, text:a) may nest 10000 deep; the 10001st level is refused
//	maxSpaceRun       = 1024   <text:s text:c="N"/> stands for at most 1024 spaces
//	maxTableGridCells = 2^20   spans of a table are honoured only if rows x (widest row in spanned
//	                           columns) <= 2^20; otherwise every cell counts 1 x 1
//	maxCellSpan       = 1024   (edge stream, edge.go) a single span / column repetition
//
// The regular streams stay far away from the first three. The documents here stand at
// bound-1, at the bound, at bound+1 and far beyond it, written element by element (not
// through the logical-document generators). What is demanded of them:
//   - within the bound the statement of the property in full: every text piece present, in
//     document order, in Text(), Markdown() and Document(); spans as authored; the spaces of
//     text:s as many as written;
//   - beyond the bound what the repair documents, and no crash: a DOCX or ODT package whose
//     inline containers nest too deep is refused by Open with an error (and
//     tabula.Open(f).Text() returns it) - a document is presented in full or not at all, never
//     cut short without a word; a space run is 1024 spaces long; the cells of a table over the
//     grid limit all span 1 x 1 and every cell text is still there, in order; the columns an
//     ODT table DECLARES size the grid of Document() only while rows x declared columns stay
//     within 2^20, else the grid is as wide as the widest row;
//   - in every case the full correspondence with the Lean model (ops c16.docx / c16.odt,
//     the views and the API ops; a refused package answers "err" on both sides).

const boundsBase = 6_000_000

const (
	inlineBound = 10000
	spaceBound  = 1024
	gridBound   = 1 << 20
)

// bexpect is what the oracles demand of one bound document.
type bexpect struct {
	Refused bool     // docx.Open / odt.Open must fail (and only then)
	Want    []string // text pieces that must be present, in this order, in every view
	// Between: for a pair of adjacent tokens the exact text that stands between them in
	// Text() (text:s runs)
	Between map[[2]string]string
	// Spans: the spans Document() must report for the table cell holding the token
	Spans map[string][2]int // token -> (colSpan, rowSpan)
	// GridCols: the number of columns of the (single) table of Document(); 0 = not demanded
	GridCols int
}

type bspec struct {
	Name     string // distribution bucket
	F        string
	Thorough bool // only in the thorough tier
	NoAPI    bool // no c16.<format>.api op (its Document() answer would be a grid of a million cells)
	Seq      string
	Opts     viewOpts
	Build    func() (doc *Node, styles *Node, headers []*Node, want bexpect)
}

// ---- element builders --------------------------------------------------------------------

var docxWraps = []string{"w:ins", "w:sdt", "w:sdtContent", "w:hyperlink", "w:smartTag", "w:fldSimple", "w:moveTo"}
var odtWraps = []string{"text:span", "text:a", "text:span"}

func wrun(tok string) *Node { return E("w:r", E("w:t", T(tok))) }

// nestWith puts inner inside k nested wrappers (tags cycling through wraps, outermost
// first). at[level] are extra children written before (Pre) and after (Post) the next
// wrapper at that level (level 0 = directly in the paragraph; the inner content is at level k).
func nestWith(wraps []string, k int, inner []*Node, pre, post map[int][]*Node) []*Node {
	cur := inner
	for lvl := k; lvl >= 1; lvl-- {
		w := E(wraps[(lvl-1)%len(wraps)], cur...)
		if w.Tag == "w:hyperlink" {
			w.A("r:id", "rId9")
		}
		var kids []*Node
		kids = append(kids, pre[lvl-1]...)
		kids = append(kids, w)
		kids = append(kids, post[lvl-1]...)
		cur = kids
	}
	if k == 0 {
		var kids []*Node
		kids = append(kids, pre[0]...)
		kids = append(kids, inner...)
		kids = append(kids, post[0]...)
		return kids
	}
	return cur
}

// deepDocxPara: a paragraph whose runs sit at several depths of a k-deep nest of inline
// containers: tokens before and after the nest at levels 0, k/4, k/2, k-1 and one run at
// the bottom. Returns the paragraph and its tokens in document order.
func deepDocxPara(k int, tag string) (*Node, []string) {
	pre, post := map[int][]*Node{}, map[int][]*Node{}
	var before, after []string
	levels := []int{0, k / 4, k / 2, k - 1}
	seen := map[int]bool{}
	for i, l := range levels {
		if l < 0 || (k > 0 && l >= k) || seen[l] {
			continue
		}
		seen[l] = true
		a, b := fmt.Sprintf("%sa%dx", tag, i), fmt.Sprintf("%sb%dx", tag, i)
		pre[l] = []*Node{wrun(a)}
		post[l] = []*Node{wrun(b)}
		before = append(before, a)
		after = append([]string{b}, after...)
	}
	mid := tag + "midx"
	kids := nestWith(docxWraps, k, []*Node{wrun(mid)}, pre, post)
	toks := append(append(before, mid), after...)
	return E("w:p", kids...), toks
}

// deepOdtInline: the same for the mixed content of a text:p / text:h (character data
// between the spans).
func deepOdtInline(k int, tag string) ([]*Node, []string) {
	pre, post := map[int][]*Node{}, map[int][]*Node{}
	var before, after []string
	seen := map[int]bool{}
	for i, l := range []int{0, k / 4, k / 2, k - 1} {
		if l < 0 || (k > 0 && l >= k) || seen[l] {
			continue
		}
		seen[l] = true
		a, b := fmt.Sprintf("%sa%dx", tag, i), fmt.Sprintf("%sb%dx", tag, i)
		pre[l] = []*Node{T(a)}
		post[l] = []*Node{T(b)}
		before = append(before, a)
		after = append([]string{b}, after...)
	}
	mid := tag + "midx"
	kids := nestWith(odtWraps, k, []*Node{T(mid)}, pre, post)
	return kids, append(append(before, mid), after...)
}

func docxDoc(body ...*Node) *Node {
	b := E("w:body", body...)
	b.Add(E("w:sectPr", E("w:pgSz").A("w:w", "12240").A("w:h", "15840")))
	return E("w:document", b)
}

func wpara(tok string) *Node { return E("w:p", wrun(tok)) }

func odtContent(body ...*Node) *Node {
	text := E("office:text", body...)
	return E("office:document-content", E("office:automatic-styles"), E("office:body", text)).A("office:version", "1.2")
}

func tpara(tok string) *Node { return E("text:p", T(tok)) }

// ---- the packages ------------------------------------------------------------------------------

func packDocx(doc, styles *Node, headers []*Node) docxPkg {
	pkg := docxPkg{Doc: doc, Styles: styles, Headers: headers}
	ct := `<?xml version="1.0" encoding="UTF-8" standalone="yes"?>` + "\n" +
		`<Types xmlns="http://schemas.openxmlformats.org/package/2006/content-types">` +
		`<Default Extension="rels" ContentType="application/vnd.openxmlformats-package.relationships+xml"/>` +
		`<Default Extension="xml" ContentType="application/xml"/>` +
		`<Override PartName="/word/document.xml" ContentType="application/vnd.openxmlformats-officedocument.wordprocessingml.document.main+xml"/>`
	rels := `<?xml version="1.0" encoding="UTF-8" standalone="yes"?>` + "\n" +
		`<Relationships xmlns="http://schemas.openxmlformats.org/package/2006/relationships">`
	var members []writers.Member
	if styles != nil {
		members = append(members, writers.Member{Name: "word/styles.xml", Data: styles.XML(docxNS)})
		ct += `<Override PartName="/word/styles.xml" ContentType="application/vnd.openxmlformats-officedocument.wordprocessingml.styles+xml"/>`
		rels += `<Relationship Id="rId1" Type="` + relNS + `/styles" Target="styles.xml"/>`
	}
	for k, h := range headers {
		name := fmt.Sprintf("header%d.xml", k+1)
		members = append(members, writers.Member{Name: "word/" + name, Data: h.XML(docxNS)})
		ct += `<Override PartName="/word/` + name + `" ContentType="application/vnd.openxmlformats-officedocument.wordprocessingml.header+xml"/>`
		rels += fmt.Sprintf(`<Relationship Id="rId%d" Type="%s/header" Target="%s"/>`, 20+k, relNS, name)
	}
	rels += `<Relationship Id="rId9" Type="` + relNS + `/hyperlink" Target="https://example.org/" TargetMode="External"/></Relationships>`
	ct += `</Types>`
	pkg.Members = append([]writers.Member{
		{Name: "[Content_Types].xml", Data: []byte(ct)},
		{Name: "_rels/.rels", Data: []byte(`<?xml version="1.0" encoding="UTF-8" standalone="yes"?>` + "\n" +
			`<Relationships xmlns="http://schemas.openxmlformats.org/package/2006/relationships"><Relationship Id="rId1" Type="` + relNS + `/officeDocument" Target="word/document.xml"/></Relationships>`)},
		{Name: "word/_rels/document.xml.rels", Data: []byte(rels)},
		{Name: "word/document.xml", Data: doc.XML(docxNS)},
	}, members...)
	return pkg
}

func packOdt(content *Node) odtPkg {
	pkg := odtPkg{Content: content}
	manifest := `<?xml version="1.0" encoding="UTF-8"?>` + "\n" +
		`<manifest:manifest xmlns:manifest="urn:oasis:names:tc:opendocument:xmlns:manifest:1.0" manifest:version="1.2">` +
		`<manifest:file-entry manifest:full-path="/" manifest:media-type="application/vnd.oasis.opendocument.text"/>` +
		`<manifest:file-entry manifest:full-path="content.xml" manifest:media-type="text/xml"/></manifest:manifest>`
	pkg.Members = []writers.Member{
		{Name: "mimetype", Data: []byte("application/vnd.oasis.opendocument.text"), Store: true},
		{Name: "content.xml", Data: content.XML(odtNS)},
		{Name: "META-INF/manifest.xml", Data: []byte(manifest)},
	}
	return pkg
}

// ---- the specifications -----------------------------------------------------------------------

func depthName(k int) string {
	switch {
	case k == inlineBound-1:
		return "bound-1"
	case k == inlineBound:
		return "bound"
	case k == inlineBound+1:
		return "bound+1"
	case k == inlineBound+2:
		return "bound+2"
	}
	return fmt.Sprintf("far-beyond(%d)", k)
}

func docxDepthSpecs() []bspec {
	var out []bspec
	for _, k := range []int{inlineBound - 1, inlineBound, inlineBound + 1, inlineBound + 2, 4 * inlineBound} {
		k := k
		out = append(out, bspec{Name: "docx-inline-containers-in-body-paragraph:" + depthName(k), F: "docx", Seq: "TMDP",
			Build: func() (*Node, *Node, []*Node, bexpect) {
				p, toks := deepDocxPara(k, "N")
				want := append(append([]string{"B001x"}, toks...), "B002x")
				return docxDoc(wpara("B001x"), p, wpara("B002x")), nil, nil, bexpect{Refused: k > inlineBound, Want: want}
			}})
	}
	for _, k := range []int{inlineBound, inlineBound + 1} {
		k := k
		out = append(out, bspec{Name: "docx-inline-containers-in-table-cell-paragraph:" + depthName(k), F: "docx", Seq: "TMDLP",
			Build: func() (*Node, *Node, []*Node, bexpect) {
				p, toks := deepDocxPara(k, "C")
				tbl := E("w:tbl", E("w:tr", E("w:tc", wpara("B003x")), E("w:tc", p, wpara("B004x"))))
				want := append(append([]string{"B001x", "B003x"}, toks...), "B004x", "B002x")
				return docxDoc(wpara("B001x"), tbl, wpara("B002x")), nil, nil, bexpect{Refused: k > inlineBound, Want: want}
			}})
		// a header part whose paragraph nests that deep: within the bound its text is a header
		// line (a body paragraph that repeats it is excluded on request); beyond it the part
		// cannot be read and is left out - the body paragraph stays in any case by default
		out = append(out, bspec{Name: "docx-inline-containers-in-header-part-paragraph:" + depthName(k), F: "docx", Seq: "TMTD",
			Opts: viewOpts{ExH: true},
			Build: func() (*Node, *Node, []*Node, bexpect) {
				hp := E("w:p", nestWith(docxWraps, k, []*Node{wrun("HDRLINEx")}, nil, nil)...)
				hdr := E("w:hdr", hp)
				return docxDoc(wpara("B001x"), wpara("HDRLINEx"), wpara("B002x")), nil, []*Node{hdr},
					bexpect{Want: []string{"B001x", "HDRLINEx", "B002x"}}
			}})
	}
	// a paragraph in a NESTED table is not decoded at all: any depth is harmless there
	out = append(out, bspec{Name: "docx-inline-containers-in-nested-table-paragraph:bound+1", F: "docx", Seq: "TMDP",
		Build: func() (*Node, *Node, []*Node, bexpect) {
			p, _ := deepDocxPara(inlineBound+1, "X")
			inner := E("w:tbl", E("w:tr", E("w:tc", p)))
			tbl := E("w:tbl", E("w:tr", E("w:tc", inner, wpara("B003x"))))
			return docxDoc(wpara("B001x"), tbl, wpara("B002x")), nil, nil, bexpect{Want: []string{"B001x", "B003x", "B002x"}}
		}})
	// a long basedOn chain (the chain is built by appending and reversed once): the heading
	// level sits at the far end of it
	out = append(out, bspec{Name: "docx-basedOn-chain-of-2000-styles", F: "docx", Seq: "TMDP",
		Build: func() (*Node, *Node, []*Node, bexpect) {
			st := E("w:styles")
			const n = 2000
			for i := 0; i < n; i++ {
				s := E("w:style", wval("w:name", fmt.Sprintf("Chain %d", i))).A("w:type", "paragraph").A("w:styleId", fmt.Sprintf("Ch%d", i))
				if i+1 < n {
					s.Add(wval("w:basedOn", fmt.Sprintf("Ch%d", i+1)))
				} else {
					s.Add(E("w:pPr", wval("w:outlineLvl", "2")))
				}
				st.Add(s)
			}
			h := E("w:p", E("w:pPr", wval("w:pStyle", "Ch0")), wrun("B002x"))
			h2 := E("w:p", E("w:pPr", wval("w:pStyle", "Ch1000")), wrun("B003x"))
			return docxDoc(wpara("B001x"), h, h2, wpara("B004x")), st, nil, bexpect{Want: []string{"B001x", "B002x", "B003x", "B004x"}}
		}})
	return out
}

// ---- block-level containers (w:sdt / w:sdtContent / w:customXml) of the body and of a cell ----

var docxBlockWraps = []string{"w:customXml", "w:sdt", "w:sdtContent"}

// deepDocxBlocks: paragraphs at several depths of a k-deep nest of block-level containers:
// one before and one after the nest at levels 0, k/4, k/2, k-1 and one at the bottom.
// Returns the nodes of level 0 and the tokens in document order.
func deepDocxBlocks(k int, tag string) ([]*Node, []string) {
	pre, post := map[int][]*Node{}, map[int][]*Node{}
	var before, after []string
	seen := map[int]bool{}
	for i, l := range []int{0, k / 4, k / 2, k - 1} {
		if l < 0 || (k > 0 && l >= k) || seen[l] {
			continue
		}
		seen[l] = true
		a, b := fmt.Sprintf("%sa%dx", tag, i), fmt.Sprintf("%sb%dx", tag, i)
		pre[l] = []*Node{wpara(a)}
		post[l] = []*Node{wpara(b)}
		before = append(before, a)
		after = append([]string{b}, after...)
	}
	mid := tag + "midx"
	kids := nestWith(docxBlockWraps, k, []*Node{wpara(mid)}, pre, post)
	return kids, append(append(before, mid), after...)
}

func docxBlockDepthSpecs() []bspec {
	var out []bspec
	for _, k := range []int{inlineBound - 1, inlineBound, inlineBound + 1, inlineBound + 2, 4 * inlineBound} {
		k := k
		out = append(out, bspec{Name: "docx-block-containers-in-body:" + depthName(k), F: "docx", Seq: "TMDP",
			Build: func() (*Node, *Node, []*Node, bexpect) {
				ns, toks := deepDocxBlocks(k, "K")
				want := append(append([]string{"B001x"}, toks...), "B002x")
				body := append(append([]*Node{wpara("B001x")}, ns...), wpara("B002x"))
				return docxDoc(body...), nil, nil, bexpect{Refused: k > inlineBound, Want: want}
			}})
	}
	for _, k := range []int{inlineBound, inlineBound + 1} {
		k := k
		out = append(out, bspec{Name: "docx-block-containers-in-table-cell:" + depthName(k), F: "docx", Seq: "TMDLP",
			Build: func() (*Node, *Node, []*Node, bexpect) {
				ns, toks := deepDocxBlocks(k, "Q")
				cell := E("w:tc", ns...)
				cell.Add(wpara("B004x"))
				tbl := E("w:tbl", E("w:tr", E("w:tc", wpara("B003x")), cell))
				want := append(append([]string{"B001x", "B003x"}, toks...), "B004x", "B002x")
				return docxDoc(wpara("B001x"), tbl, wpara("B002x")), nil, nil, bexpect{Refused: k > inlineBound, Want: want}
			}})
		// a table at the bottom of the nest, a paragraph behind the nest
		out = append(out, bspec{Name: "docx-table-below-block-containers:" + depthName(k), F: "docx", Seq: "TMDLP",
			Build: func() (*Node, *Node, []*Node, bexpect) {
				tbl := E("w:tbl", E("w:tr", E("w:tc", wpara("B002x")), E("w:tc", wpara("B003x"))))
				ns := nestWith(docxBlockWraps, k, []*Node{tbl, wpara("B004x")}, nil, nil)
				body := append(append([]*Node{wpara("B001x")}, ns...), wpara("B005x"))
				return docxDoc(body...), nil, nil, bexpect{Refused: k > inlineBound, Want: []string{"B001x", "B002x", "B003x", "B004x", "B005x"}}
			}})
	}
	// containers nested beyond the bound where nothing is decoded - in the properties of a
	// content control, in a cell of a NESTED table - are skipped: any depth is harmless there
	out = append(out, bspec{Name: "docx-block-containers-in-sdtPr-and-nested-table:bound+1", F: "docx", Seq: "TMDLP",
		Build: func() (*Node, *Node, []*Node, bexpect) {
			junk := nestWith(docxBlockWraps, inlineBound+1, []*Node{wpara("X001x")}, nil, nil)
			sdt := E("w:sdt", E("w:sdtPr", junk...), E("w:sdtContent", wpara("B002x")))
			inner := E("w:tbl", E("w:tr", E("w:tc", nestWith(docxBlockWraps, inlineBound+1, []*Node{wpara("X002x")}, nil, nil)...)))
			tbl := E("w:tbl", E("w:tr", E("w:tc", inner, wpara("B003x"))))
			return docxDoc(wpara("B001x"), sdt, tbl, wpara("B004x")), nil, nil, bexpect{Want: []string{"B001x", "B002x", "B003x", "B004x"}}
		}})
	return out
}

func odtDepthSpecs() []bspec {
	var out []bspec
	for _, k := range []int{inlineBound - 1, inlineBound, inlineBound + 1, inlineBound + 2, 4 * inlineBound} {
		k := k
		out = append(out, bspec{Name: "odt-spans-in-body-paragraph:" + depthName(k), F: "odt", Seq: "TMDP",
			Build: func() (*Node, *Node, []*Node, bexpect) {
				kids, toks := deepOdtInline(k, "N")
				want := append(append([]string{"B001x"}, toks...), "B002x")
				return odtContent(tpara("B001x"), E("text:p", kids...), tpara("B002x")), nil, nil, bexpect{Refused: k > inlineBound, Want: want}
			}})
	}
	for _, k := range []int{inlineBound, inlineBound + 1} {
		k := k
		out = append(out, bspec{Name: "odt-spans-in-heading:" + depthName(k), F: "odt", Seq: "TMDP",
			Build: func() (*Node, *Node, []*Node, bexpect) {
				kids, toks := deepOdtInline(k, "H")
				want := append(append([]string{"B001x"}, toks...), "B002x")
				return odtContent(tpara("B001x"), E("text:h", kids...).A("text:outline-level", "2"), tpara("B002x")), nil, nil,
					bexpect{Refused: k > inlineBound, Want: want}
			}})
		out = append(out, bspec{Name: "odt-spans-in-list-item-paragraph:" + depthName(k), F: "odt", Seq: "TMDP",
			Build: func() (*Node, *Node, []*Node, bexpect) {
				kids, toks := deepOdtInline(k, "L")
				list := E("text:list", E("text:list-item", tpara("B003x")),
					E("text:list-item", E("text:p", kids...), E("text:list", E("text:list-item", tpara("B004x")))),
					E("text:list-item", tpara("B005x")))
				want := append(append([]string{"B001x", "B003x"}, toks...), "B004x", "B005x", "B002x")
				return odtContent(tpara("B001x"), list, tpara("B002x")), nil, nil, bexpect{Refused: k > inlineBound, Want: want}
			}})
		out = append(out, bspec{Name: "odt-spans-in-table-cell-paragraph:" + depthName(k), F: "odt", Seq: "TMDLP",
			Build: func() (*Node, *Node, []*Node, bexpect) {
				kids, toks := deepOdtInline(k, "C")
				tbl := E("table:table", E("table:table-column").A("table:number-columns-repeated", "2"),
					E("table:table-header-rows", E("table:table-row", E("table:table-cell", tpara("B003x")), E("table:table-cell", E("text:p", kids...)))),
					E("table:table-row", E("table:table-cell", tpara("B004x")), E("table:table-cell", tpara("B005x")))).A("table:name", "T1")
				want := append(append([]string{"B001x", "B003x"}, toks...), "B004x", "B005x", "B002x")
				return odtContent(tpara("B001x"), tbl, tpara("B002x")), nil, nil, bexpect{Refused: k > inlineBound, Want: want}
			}})
	}
	// the deep paragraph as the very first element: before the repair Text() was "" with no error
	out = append(out, bspec{Name: "odt-spans-in-first-body-paragraph:bound+1", F: "odt", Seq: "TMDP",
		Build: func() (*Node, *Node, []*Node, bexpect) {
			kids, _ := deepOdtInline(inlineBound+1, "N")
			return odtContent(E("text:p", kids...), tpara("B002x")), nil, nil, bexpect{Refused: true}
		}})
	// block elements behind the refused start tag (not valid ODF, but a tree all the same): before
	// the repair the reader went on behind that tag and read them as body elements
	out = append(out, bspec{Name: "odt-spans-in-body-paragraph:bound+1-with-blocks-behind-the-refused-tag", F: "odt", Seq: "TMDP",
		Build: func() (*Node, *Node, []*Node, bexpect) {
			inner := []*Node{T("Nmidx"), tpara("B003x"), E("text:list", E("text:list-item", tpara("B004x")))}
			post := map[int][]*Node{inlineBound: {tpara("B005x")}, 3: {E("text:h", T("B006x")).A("text:outline-level", "1")}}
			kids := nestWith(odtWraps, inlineBound+1, inner, nil, post)
			return odtContent(tpara("B001x"), E("text:p", kids...), tpara("B002x")), nil, nil, bexpect{Refused: true}
		}})
	// a section around the deep paragraph, and a nest inside a skipped inline element (a note):
	// the first is refused, the second is not decoded at all and harmless
	out = append(out, bspec{Name: "odt-spans-in-paragraph-of-a-section:bound+1", F: "odt", Seq: "TMDP",
		Build: func() (*Node, *Node, []*Node, bexpect) {
			kids, _ := deepOdtInline(inlineBound+1, "N")
			return odtContent(tpara("B001x"), E("text:section", tpara("B003x"), E("text:p", kids...)).A("text:name", "S1"), tpara("B002x")), nil, nil,
				bexpect{Refused: true}
		}})
	out = append(out, bspec{Name: "odt-spans-inside-a-skipped-note:bound+1", F: "odt", Seq: "TMDP",
		Build: func() (*Node, *Node, []*Node, bexpect) {
			kids, _ := deepOdtInline(inlineBound+1, "X")
			p := E("text:p", T("B003x"), E("text:note", E("text:note-body", E("text:p", kids...))), T("B004x"))
			return odtContent(tpara("B001x"), p, tpara("B002x")), nil, nil, bexpect{Want: []string{"B001x", "B003x", "B004x", "B002x"}}
		}})
	return out
}

// declSpecs: ODT tables whose <table:table-column> elements DECLARE more columns than the rows
// hold. Each repetition count is bounded by 1024, the number of column elements is not; the
// document model sizes its grid by the declared columns only while rows x declared columns
// stay within 2^20 (integer division in the code), else by the widest row.
type declShape struct {
	Rows, ColElems, Repeat, Extra int // Extra: one more column element repeated Extra times
	Thorough                      bool
}

func (d declShape) declared() int { return d.ColElems*d.Repeat + d.Extra }

func (d declShape) believed() bool { return d.declared() == 0 || d.Rows <= gridBound/d.declared() }

func (d declShape) name() string {
	rel := "over-the-limit"
	switch {
	case d.declared() == 0:
		rel = "none-declared"
	case d.Rows == gridBound/d.declared():
		rel = "at-the-limit"
	case d.Rows == gridBound/d.declared()+1:
		rel = "limit+1"
	case d.Rows < gridBound/d.declared():
		rel = "under-the-limit"
	}
	return fmt.Sprintf("odt-declared-columns-%drows-x-%dcolumns(%dx%d+%d):%s", d.Rows, d.declared(), d.ColElems, d.Repeat, d.Extra, rel)
}

func declSpecs() []bspec {
	shapes := []declShape{
		{Rows: 3, ColElems: 1, Repeat: 5},                       // a few declared columns more than cells: believed
		{Rows: 1024, ColElems: 1, Repeat: 1024},                 // rows x declared = 2^20 exactly: believed
		{Rows: 1025, ColElems: 1, Repeat: 1024},                 // one row more
		{Rows: 1024, ColElems: 1, Repeat: 1024, Extra: 1},       // one column more
		{Rows: 1048, ColElems: 1, Repeat: 1000},                 // 2^20 / 1000 = 1048 (integer division)
		{Rows: 1049, ColElems: 1, Repeat: 1000},                 //
		{Rows: 128, ColElems: 128, Repeat: 1024},                // the quoted document: 16.7 million cells if believed
		{Rows: 300, ColElems: 300, Repeat: 1024},                // 92 million
		{Rows: 2, ColElems: 2000, Repeat: 1024, Thorough: true}, // two rows under two million declared columns
		{Rows: 1, ColElems: 1024, Repeat: 1024},                 // one row x 2^20 columns: believed (a grid of 2^20 cells)
	}
	var out []bspec
	for _, d := range shapes {
		d := d
		seq, noAPI := "TMDLP", false
		if d.believed() && d.Rows*d.declared() > 300000 {
			seq, noAPI = "TP", true // the believed grid is a million cells: its full dump is compared once only
			if d.Rows == 1024 && d.Repeat == 1024 && d.Extra == 0 {
				seq = "TL"
			}
		}
		out = append(out, bspec{Name: d.name(), F: "odt", Seq: seq, Thorough: d.Thorough, NoAPI: noAPI,
			Build: func() (*Node, *Node, []*Node, bexpect) {
				ex := bexpect{Want: []string{"B001x"}, Spans: map[string][2]int{}}
				tbl := E("table:table").A("table:name", "D")
				for i := 0; i < d.ColElems; i++ {
					col := E("table:table-column")
					if d.Repeat != 1 {
						col.A("table:number-columns-repeated", fmt.Sprint(d.Repeat))
					}
					tbl.Add(col)
				}
				if d.Extra > 0 {
					tbl.Add(E("table:table-column").A("table:number-columns-repeated", fmt.Sprint(d.Extra)))
				}
				widest := 0
				for r := 0; r < d.Rows; r++ {
					row := E("table:table-row")
					n := 1
					if r%5 == 1 {
						n = 2
					}
					if r == 2 {
						n = 3
					}
					for i := 0; i < n; i++ {
						tok := fmt.Sprintf("D%04dc%dx", r, i)
						row.Add(E("table:table-cell", tpara(tok)))
						ex.Want = append(ex.Want, tok)
						ex.Spans[tok] = [2]int{1, 1}
					}
					widest = max(widest, n)
					tbl.Add(row)
				}
				ex.GridCols = widest
				if d.believed() && d.declared() > 0 {
					ex.GridCols = d.declared()
				}
				ex.Want = append(ex.Want, "B002x")
				return odtContent(tpara("B001x"), tbl, tpara("B002x")), nil, nil, ex
			}})
	}
	return out
}

func spaceSpecs() []bspec {
	type sc struct {
		raw  string
		want int
	}
	cases := []sc{{"1", 1}, {"7", 7}, {"1023", 1023}, {"1024", 1024}, {"1025", 1024}, {"4096", 1024}, {"2147483647", 1024},
		{"9223372036854775807", 1024}, {"9223372036854775808", 1}, {"99999999999999999999", 1}, {"+5", 5}, {"007", 7}, {"0", 1}, {"-3", 1}, {"", 1}, {"x", 1}, {"omit", 1}}
	return []bspec{{Name: "odt-text:s-counts-1..1023,1024,1025,2^31-1,2^63-1,2^63,signs,junk", F: "odt", Seq: "TMDP",
		Build: func() (*Node, *Node, []*Node, bexpect) {
			var body []*Node
			ex := bexpect{Between: map[[2]string]string{}}
			for i, c := range cases {
				a, b := fmt.Sprintf("S%02dax", i), fmt.Sprintf("S%02dbx", i)
				s := E("text:s")
				if c.raw != "omit" {
					s.A("text:c", c.raw)
				}
				body = append(body, E("text:p", T(a), s, T(b)))
				ex.Want = append(ex.Want, a, b)
				ex.Between[[2]string{a, b}] = strings.Repeat(" ", c.want)
			}
			// one run inside nested spans, and two runs side by side
			body = append(body, E("text:p", T("S90ax"), E("text:span", E("text:span", E("text:s").A("text:c", "2000"))), E("text:s").A("text:c", "1024"), T("S90bx")))
			ex.Want = append(ex.Want, "S90ax", "S90bx")
			ex.Between[[2]string{"S90ax", "S90bx"}] = strings.Repeat(" ", 2048)
			return odtContent(body...), nil, nil, ex
		}}}
}

// gridShape: a table of `rows` rows whose first row holds `n` cells spanning `cs` columns
// (and `rs` rows) each; the other rows hold one plain cell; every cell a token.
type gridShape struct {
	Rows, N, CS, RS int
	VMerge          bool // docx: a second row of continuation cells under the first
	Thorough        bool
}

func (g gridShape) cols() int { return g.N * g.CS }

func (g gridShape) honoured() bool {
	spans := g.CS > 1 || g.RS > 1
	return !spans || g.cols() == 0 || g.Rows <= gridBound/g.cols()
}

func (g gridShape) name(F string) string {
	rel := "over-the-limit"
	switch {
	case g.CS == 1 && g.RS <= 1:
		rel = "no-spans"
	case g.Rows == gridBound/g.cols():
		rel = "at-the-limit"
	case g.Rows == gridBound/g.cols()-1:
		rel = "limit-1"
	case g.Rows == gridBound/g.cols()+1:
		rel = "limit+1"
	case g.Rows < gridBound/g.cols():
		rel = "under-the-limit"
	}
	s := fmt.Sprintf("%s-table-grid-%drows-x-%dcells-spanning-%dcols", F, g.Rows, g.N, g.CS)
	if g.RS > 1 {
		s += fmt.Sprintf("-%drows", g.RS)
	}
	if g.VMerge {
		s += "-vMerge"
	}
	return s + ":" + rel
}

func gridSpecs(F string) []bspec {
	shapes := []gridShape{
		{Rows: 1023, N: 1, CS: 1024}, {Rows: 1024, N: 1, CS: 1024}, {Rows: 1025, N: 1, CS: 1024},
		{Rows: 1048, N: 1, CS: 1000}, {Rows: 1049, N: 1, CS: 1000}, // 2^20 / 1000 = 1048 (integer division)
		{Rows: 2048, N: 2, CS: 256}, {Rows: 2049, N: 2, CS: 256},
		{Rows: 2000, N: 10, CS: 1024},                // far beyond: a grid of twenty million cells if believed
		{Rows: 1100, N: 1000, CS: 1, Thorough: true}, // no spans: left alone whatever its size
		{Rows: 40, N: 30, CS: 1},
	}
	if F == "docx" {
		shapes = append(shapes, gridShape{Rows: 1024, N: 1, CS: 1024, VMerge: true}, gridShape{Rows: 1025, N: 1, CS: 1024, VMerge: true},
			gridShape{Rows: 4096, N: 2, CS: 128, VMerge: true}, gridShape{Rows: 4097, N: 2, CS: 128, VMerge: true})
	} else {
		shapes = append(shapes, gridShape{Rows: 1024, N: 1, CS: 1024, RS: 16}, gridShape{Rows: 1025, N: 1, CS: 1024, RS: 16},
			gridShape{Rows: 4096, N: 4, CS: 64, RS: 1024}, gridShape{Rows: 4097, N: 4, CS: 64, RS: 1024},
			gridShape{Rows: 1024, N: 1, CS: 1024, RS: 1024, Thorough: true}, // one Mi cells, all but one covered placeholders
			gridShape{Rows: 1024, N: 8, CS: 1024, RS: 1024})                 // the quoted document: eight million if believed
	}
	var out []bspec
	for _, g := range shapes {
		g := g
		// a believed grid is allocated cell by cell in the document model (rows x columns): the
		// model's answer to Document() is compared in full for ONE such table per format (7 MB
		// each); for the others the parsed table and the renderings are compared, and the
		// oracles still read Document() of the implementation
		seq, noAPI := "TMDLP", false
		if g.Rows*g.cols() > 300000 && g.honoured() {
			seq, noAPI = "TP", true // Markdown pads every row to the width of the grid: a million cells, too
			if g.Rows == 1024 && g.CS == 1024 && g.RS <= 1 && !g.VMerge {
				seq = "TD"
			}
		}
		out = append(out, bspec{Name: g.name(F), F: F, Seq: seq, Thorough: g.Thorough, NoAPI: noAPI,
			Build: func() (*Node, *Node, []*Node, bexpect) {
				ex := bexpect{Want: []string{"B001x"}, Spans: map[string][2]int{}}
				cs, rs := g.CS, max(g.RS, 1)
				if !g.honoured() {
					cs, rs = 1, 1
				}
				var tbl *Node
				tok := func(i int) string { return fmt.Sprintf("G%05dx", i) }
				if F == "docx" {
					tbl = E("w:tbl")
					first := E("w:tr")
					for i := 0; i < g.N; i++ {
						pr := E("w:tcPr")
						if g.CS > 1 {
							pr.Add(wval("w:gridSpan", fmt.Sprint(g.CS)))
						}
						if g.VMerge {
							pr.Add(wval("w:vMerge", "restart"))
						}
						first.Add(E("w:tc", pr, wpara(tok(i))))
						ex.Want = append(ex.Want, tok(i))
						r := 1
						if g.VMerge {
							r = 2 // the continuation cell under it, spans believed or not
						}
						ex.Spans[tok(i)] = [2]int{cs, r}
					}
					tbl.Add(first)
					for r := 1; r < g.Rows; r++ {
						row := E("w:tr")
						switch {
						case g.VMerge && r == 1:
							for i := 0; i < g.N; i++ {
								pr := E("w:tcPr")
								if g.CS > 1 {
									pr.Add(wval("w:gridSpan", fmt.Sprint(g.CS)))
								}
								pr.Add(E("w:vMerge"))
								row.Add(E("w:tc", pr, E("w:p")))
							}
						case r%97 == 3 || r == g.Rows-1:
							row.Add(E("w:tc", wpara(tok(1000+r))))
							ex.Want = append(ex.Want, tok(1000+r))
							ex.Spans[tok(1000+r)] = [2]int{1, 1}
						}
						tbl.Add(row)
					}
					ex.Want = append(ex.Want, "B002x")
					return docxDoc(wpara("B001x"), tbl, wpara("B002x")), nil, nil, ex
				}
				tbl = E("table:table").A("table:name", "G")
				first := E("table:table-row")
				for i := 0; i < g.N; i++ {
					c := E("table:table-cell", tpara(tok(i)))
					if g.CS > 1 {
						c.A("table:number-columns-spanned", fmt.Sprint(g.CS))
					}
					if g.RS > 1 {
						c.A("table:number-rows-spanned", fmt.Sprint(g.RS))
					}
					first.Add(c)
					ex.Want = append(ex.Want, tok(i))
					ex.Spans[tok(i)] = [2]int{cs, rs}
				}
				tbl.Add(first)
				for r := 1; r < g.Rows; r++ {
					row := E("table:table-row")
					// below a believed row span the row's own cell would stand beyond the grid: keep
					// the own cells to the rows no span reaches
					if (r%97 == 3 || r == g.Rows-1) && (g.RS <= 1 || r >= g.RS) {
						row.Add(E("table:table-cell", tpara(tok(1000+r))))
						ex.Want = append(ex.Want, tok(1000+r))
						ex.Spans[tok(1000+r)] = [2]int{1, 1}
					}
					tbl.Add(row)
				}
				ex.Want = append(ex.Want, "B002x")
				return odtContent(tpara("B001x"), tbl, tpara("B002x")), nil, nil, ex
			}})
	}
	return out
}

func boundSpecs() []bspec {
	var out []bspec
	out = append(out, docxDepthSpecs()...)
	out = append(out, odtDepthSpecs()...)
	out = append(out, spaceSpecs()...)
	out = append(out, gridSpecs("docx")...)
	out = append(out, gridSpecs("odt")...)
	out = append(out, declSpecs()...)
	out = append(out, docxBlockDepthSpecs()...) // appended last: the indices of the older documents stay
	return out
}

// ---- running one bound document -------------------------------------------------------------------

// docTexts: every text of the document model in order (paragraphs, headings, list items,
// table cells row by row), each followed by a separator.
func docTexts(doc *model.Document) string {
	var b strings.Builder
	for _, e := range flatten(doc) {
		if e.Tbl != nil {
			for _, row := range e.Tbl.Rows {
				for _, c := range row {
					b.WriteString(c.Text + "\x00")
				}
			}
			continue
		}
		b.WriteString(e.Text + "\x00")
	}
	return b.String()
}

// firstOutOfOrder: the first token of toks that does not occur in s behind the one before it.
func firstOutOfOrder(s string, toks []string) string {
	at := 0
	for _, t := range toks {
		k := strings.Index(s[at:], t)
		if k < 0 {
			if strings.Contains(s, t) {
				return t + " (out of order)"
			}
			return t + " (missing)"
		}
		at += k + len(t)
	}
	return ""
}

func RunBound(c *hx.Ctx, idx int, keep bool) {
	specs := boundSpecs()
	sp := specs[idx-boundsBase]
	F := sp.F
	doc, styles, headers, ex := sp.Build()
	kase := map[string]interface{}{"seed": c.Seed, "index": idx, "format": F, "bound": sp.Name}
	path := filepath.Join(c.OutDir, fmt.Sprintf("bound-%d.%s", idx-boundsBase, F))
	var dpkg docxPkg
	var opkg odtPkg
	var opLine string
	if F == "docx" {
		dpkg = packDocx(doc, styles, headers)
		os.WriteFile(path, writers.Zip(dpkg.Members), 0o644)
		opLine = "c16.docx " + dpkg.Doc.Sexp() + " " + sexpOrDash(dpkg.Styles)
	} else {
		opkg = packOdt(doc)
		os.WriteFile(path, writers.Zip(opkg.Members), 0o644)
		opLine = "c16.odt " + opkg.Content.Sexp() + " -"
	}
	if keep {
		kase["file"] = path
	} else {
		defer os.Remove(path)
	}
	c.Current(kase)

	var out outputs
	var implLine string
	var openErr, apiErr error
	var mdoc *model.Document
	pan := hx.Safe(func() {
		if F == "docx" {
			rd, err := docx.Open(path)
			if err != nil {
				openErr = err
			} else {
				implLine = dumpDocx(rd.VerifElements())
				rd.Close()
			}
		} else {
			rd, err := odt.Open(path)
			if err != nil {
				openErr = err
			} else {
				implLine = dumpOdt(rd.VerifElements())
				rd.Close()
			}
		}
		var e1, e2, e3 error
		out.Text, _, e1 = tabula.Open(path).Text()
		out.MD, _, e2 = tabula.Open(path).ToMarkdown()
		mdoc, _, e3 = tabula.Open(path).Document()
		for _, e := range []error{e1, e2, e3} {
			if e != nil {
				apiErr = e
			}
		}
	})
	c.Count("bound:" + sp.Name)
	if !c.Check("C16/panic", pan == "", kase, func() string { return "panic at a resource bound: " + pan }) {
		c.Case("bound:"+sp.Name, false)
		return
	}
	pre := "C16/" + F + "-bound-"
	if ex.Refused {
		// beyond the bound: refused as documented, through both entry points
		c.Check(pre+"not-refused", openErr != nil && apiErr != nil, kase, func() string {
			return fmt.Sprintf("%s: inline containers nest deeper than %d levels, Open must return an error (never a document cut short); %s.Open: %v, tabula.Open(f): %v; Text() = %s",
				sp.Name, inlineBound, F, openErr, apiErr, clip(fmt.Sprintf("%q", out.Text)))
		})
		if openErr == nil {
			c.Case("bound:"+sp.Name, false)
			return
		}
		c.Op(opLine, "err")
		if F == "docx" {
			c.Op(fmt.Sprintf("c16.docx.views %s %s %s %s %s %s %s", dpkg.Doc.Sexp(), sexpOrDash(dpkg.Styles), sexpOrDash(dpkg.Numbering),
				treesField(dpkg.Headers), treesField(dpkg.Footers), sp.Opts.field(), sp.Seq), "err")
			c.Op("c16.docx.cached "+dpkg.Doc.Sexp()+" "+sexpOrDash(dpkg.Styles), "err")
			c.Op(fmt.Sprintf("c16.docx.api %s 0 0", docxModelArgs(dpkg)), "err")
		} else {
			c.Op(fmt.Sprintf("c16.odt.views %s %s %s %s", opkg.Content.Sexp(), sexpOrDash(opkg.Styles), sp.Opts.field(), sp.Seq), "err")
			c.Op(fmt.Sprintf("c16.odt.api %s 0 0", odtModelArgs(opkg)), "err")
		}
		c.Count("bound-document-refused-by-Open")
		c.Case("bound:"+sp.Name, false)
		return
	}
	if !c.Check(pre+"refused-within-the-bound", openErr == nil && apiErr == nil, kase, func() string {
		return fmt.Sprintf("%s: the document is within every bound and must open: %v %v", sp.Name, openErr, apiErr)
	}) {
		c.Case("bound:"+sp.Name, false)
		return
	}
	c.Op(opLine, implLine)
	if F == "docx" {
		docxViewsOp(c, dpkg, path, sp.Opts, sp.Seq, kase)
		c.Op("c16.docx.cached "+dpkg.Doc.Sexp()+" "+sexpOrDash(dpkg.Styles), implLine)
		if !sp.NoAPI {
			apiOp(c, F, path, docxModelArgs(dpkg), false, false, kase)
		}
	} else {
		odtViewsOp(c, opkg, path, sp.Opts, sp.Seq, kase)
		if !sp.NoAPI {
			apiOp(c, F, path, odtModelArgs(opkg), false, false, kase)
		}
	}

	// the statement of the property on what lies within the bound (or before the place
	// where the reader gives up)
	for _, v := range []struct{ name, s string }{{"Text()", out.Text}, {"ToMarkdown()", out.MD}, {"Document()", docTexts(mdoc)}} {
		bad := firstOutOfOrder(v.s, ex.Want)
		c.Check(pre+"text-lost-or-out-of-order", bad == "", kase, func() string {
			return fmt.Sprintf("%s: %s does not show %s; the pieces wanted, in order: %s", sp.Name, v.name, bad, clip(strings.Join(ex.Want, " ")))
		})
	}
	for pair, between := range ex.Between {
		a := strings.Index(out.Text, pair[0])
		b := strings.Index(out.Text, pair[1])
		ok := a >= 0 && b >= a && out.Text[a+len(pair[0]):b] == between
		c.Check(pre+"space-run", ok, kase, func() string {
			got := "?"
			if a >= 0 && b >= a {
				got = fmt.Sprint(b - a - len(pair[0]))
			}
			return fmt.Sprintf("%s: between %s and %s Text() has %s characters, wanted %d spaces", sp.Name, pair[0], pair[1], got, len(between))
		})
	}
	if len(ex.Spans) > 0 {
		seen := 0
		for _, e := range flatten(mdoc) {
			if e.Tbl == nil {
				continue
			}
			for _, row := range e.Tbl.Rows {
				for _, cell := range row {
					want, ok := ex.Spans[strings.TrimSpace(cell.Text)]
					if !ok {
						continue
					}
					seen++
					cell := cell
					c.Check(pre+"grid-spans", cell.ColSpan == want[0] && cell.RowSpan == want[1], kase, func() string {
						return fmt.Sprintf("%s: the cell %s spans %d columns x %d rows in Document(), wanted %d x %d", sp.Name, cell.Text, cell.ColSpan, cell.RowSpan, want[0], want[1])
					})
				}
			}
		}
		c.Check(pre+"grid-cell-missing", seen == len(ex.Spans), kase, func() string {
			return fmt.Sprintf("%s: Document() holds %d of the %d authored cells", sp.Name, seen, len(ex.Spans))
		})
	}
	if ex.GridCols > 0 {
		cols, rows, cells := -1, 0, 0
		for _, e := range flatten(mdoc) {
			if e.Tbl != nil {
				rows = len(e.Tbl.Rows)
				cols = 0
				for _, row := range e.Tbl.Rows {
					cols = max(cols, len(row))
					cells += len(row)
				}
			}
		}
		c.Check(pre+"declared-columns-grid", cols == ex.GridCols, kase, func() string {
			return fmt.Sprintf("%s: the table of Document() is %d rows x %d columns (%d cells); wanted %d columns - the declared columns size the grid only while rows x declared columns <= %d, else the widest row does",
				sp.Name, rows, cols, cells, ex.GridCols, gridBound)
		})
	}
	c.Count("bound-document-opened")
	c.Case("bound:"+sp.Name, len(flatten(mdoc)) > 0)
}

// runBounds runs the documents at the bounds (the heavy ones in the thorough tier only).
func runBounds(c *hx.Ctx) {
	for i, sp := range boundSpecs() {
		if sp.Thorough && !c.Thorough() {
			continue
		}
		RunBound(c, boundsBase+i, false)
	}
}
