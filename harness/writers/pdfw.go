package writers

// An independent low-level PDF writer (ISO 32000-1 §7.5): header, indirect
// objects, streams, object streams, classic cross-reference tables and
// cross-reference streams, incremental revisions chained by /Prev.  It records
// what it wrote (offsets, entries) so a harness can describe the physical file
// to the Lean model.

import (
	"bytes"
	"compress/zlib"
	"fmt"
	"sort"
	"strings"
)

// XEntry is one cross-reference entry as authored.
type XEntry struct {
	Type int   // 0 free, 1 uncompressed, 2 compressed
	F1   int64 // offset | object stream number | next free
	F2   int   // generation | index in object stream
}

type PDF struct {
	Buf bytes.Buffer
	EOL string // "\n", "\r\n" or "\r"
	// LastXref is the offset of the most recently written xref section.
	LastXref int64
	// LastStreamLen is the data length of the most recently written stream.
	LastStreamLen int
	// LengthOverride, when non-empty, is written as the /Length value of the next stream.
	LengthOverride string
	// Tr, when non-nil, receives the abstract trace of everything written (see trace.go).
	Tr *Trace
	// XrefDictHook, when set, rewrites the dictionary text of the next cross-reference
	// stream (fault injection).
	XrefDictHook func(dict string) string
}

func NewPDF(eol string) *PDF {
	p := &PDF{EOL: eol}
	p.Buf.WriteString("%PDF-1.7" + eol + "%\xe2\xe3\xcf\xd3" + eol)
	return p
}

func (p *PDF) Off() int64 { return int64(p.Buf.Len()) }

// Obj writes `num gen obj <body> endobj` and returns its offset.
func (p *PDF) Obj(num, gen int, body string) int64 {
	off := p.Off()
	fmt.Fprintf(&p.Buf, "%d %d obj%s%s%sendobj%s", num, gen, p.EOL, body, p.EOL, p.EOL)
	p.Tr.obj(TraceObj{Offset: off, Num: num, Body: []byte(body)})
	return off
}

// Stream writes a stream object. dict is the dictionary content WITHOUT the
// /Length entry and without the << >> brackets; length is written as a direct
// integer unless lengthRef > 0 (then `lengthRef 0 R`).
func (p *PDF) Stream(num int, dict string, data []byte, lengthRef int) int64 {
	off := p.Off()
	p.LastStreamLen = len(data)
	l := fmt.Sprintf("%d", len(data))
	if lengthRef > 0 {
		l = fmt.Sprintf("%d 0 R", lengthRef)
	}
	if p.LengthOverride != "" {
		l = p.LengthOverride
	}
	// the EOL after `stream` must be LF or CRLF (never a lone CR)
	seol := p.EOL
	if seol == "\r" {
		seol = "\r\n"
	}
	fmt.Fprintf(&p.Buf, "%d 0 obj%s<< %s /Length %s >>%sstream%s", num, p.EOL, dict, l, p.EOL, seol)
	p.Buf.Write(data)
	fmt.Fprintf(&p.Buf, "%sendstream%sendobj%s", p.EOL, p.EOL, p.EOL)
	p.Tr.obj(TraceObj{Offset: off, Num: num, Stream: true, Dict: []byte(fmt.Sprintf("<< %s /Length %s >>", dict, l)), Data: append([]byte(nil), data...)})
	return off
}

// Deflate is zlib compression (FlateDecode's encoder).
func Deflate(data []byte) []byte {
	var b bytes.Buffer
	w := zlib.NewWriter(&b)
	w.Write(data)
	w.Close()
	return b.Bytes()
}

// ObjStmMember is one object packed into an object stream.
type ObjStmMember struct {
	Num  int
	Body string
}

// ObjStm writes an object stream (optionally Flate-compressed) and returns its offset.
func (p *PDF) ObjStm(num int, members []ObjStmMember, flate bool, lengthRef int) int64 {
	return p.ObjStmRaw(num, members, flate, lengthRef, nil)
}

// RawObjStm is an object stream on its way into the file (fault injection): NText and
// FirstText replace the /N and /First values when non-empty; Nums and Offsets are the
// header pairs as they will be written.
type RawObjStm struct {
	Ordinal   int
	Num       int
	NText     string
	FirstText string
	Nums      []string
	Offsets   []string
	// LengthText, when non-empty, replaces the /Length value of the object stream;
	// DictRewrite, when set, rewrites its dictionary text (without brackets and /Length).
	LengthText  string
	DictRewrite func(dict string) string
}

// ObjStmRaw writes an object stream whose dictionary values and header pairs may be
// rewritten by hook before they are laid out.
func (p *PDF) ObjStmRaw(num int, members []ObjStmMember, flate bool, lengthRef int, hook func(*RawObjStm)) int64 {
	var head, body strings.Builder
	raw := RawObjStm{Num: num}
	for _, m := range members {
		raw.Nums = append(raw.Nums, fmt.Sprint(m.Num))
		raw.Offsets = append(raw.Offsets, fmt.Sprint(body.Len()))
		body.WriteString(m.Body)
		body.WriteString(" ")
	}
	if hook != nil {
		hook(&raw)
	}
	for i := range raw.Nums {
		fmt.Fprintf(&head, "%s %s ", raw.Nums[i], raw.Offsets[i])
	}
	first := head.Len()
	data := []byte(head.String() + body.String())
	nText, firstText := fmt.Sprint(len(members)), fmt.Sprint(first)
	if raw.NText != "" {
		nText = raw.NText
	}
	if raw.FirstText != "" {
		firstText = raw.FirstText
	}
	dict := fmt.Sprintf("/Type /ObjStm /N %s /First %s", nText, firstText)
	if flate {
		plain := data
		data = Deflate(data)
		p.Tr.deflated(data, plain)
		dict += " /Filter /FlateDecode"
	}
	if raw.DictRewrite != nil {
		dict = raw.DictRewrite(dict)
	}
	if raw.LengthText != "" {
		saved := p.LengthOverride
		p.LengthOverride = raw.LengthText
		defer func() { p.LengthOverride = saved }()
	}
	off := p.Stream(num, dict, data, lengthRef)
	if p.Tr != nil && len(p.Tr.Objs) > 0 {
		p.Tr.Objs[len(p.Tr.Objs)-1].Members = append([]ObjStmMember(nil), members...)
	}
	return off
}

func sortedNums(entries map[int]XEntry) []int {
	nums := make([]int, 0, len(entries))
	for n := range entries {
		nums = append(nums, n)
	}
	sort.Ints(nums)
	return nums
}

// runs groups sorted numbers into maximal contiguous runs.
func runs(nums []int) [][2]int {
	var out [][2]int
	for i := 0; i < len(nums); {
		j := i
		for j+1 < len(nums) && nums[j+1] == nums[j]+1 {
			j++
		}
		out = append(out, [2]int{nums[i], j - i + 1})
		i = j + 1
	}
	return out
}

// XrefTable writes a classic cross-reference section + trailer + startxref.
// trailer is the trailer dictionary content without brackets and without /Prev.
// entryEOL chooses the 2-byte entry terminator: " \n", " \r" or "\r\n".
func (p *PDF) XrefTable(entries map[int]XEntry, trailer string, prev int64, entryEOL string) int64 {
	off := p.Off()
	p.Buf.WriteString("xref" + p.EOL)
	for _, r := range runs(sortedNums(entries)) {
		fmt.Fprintf(&p.Buf, "%d %d%s", r[0], r[1], p.EOL)
		for i := 0; i < r[1]; i++ {
			e := entries[r[0]+i]
			flag := "n"
			if e.Type == 0 {
				flag = "f"
			}
			fmt.Fprintf(&p.Buf, "%010d %05d %s%s", e.F1, e.F2, flag, entryEOL)
		}
	}
	tr := trailer
	if prev >= 0 {
		tr += fmt.Sprintf(" /Prev %d", prev)
	}
	fmt.Fprintf(&p.Buf, "trailer%s<< %s >>%sstartxref%s%d%s%%%%EOF%s", p.EOL, tr, p.EOL, p.EOL, off, p.EOL, p.EOL)
	p.LastXref = off
	p.Tr.section(TraceSection{Offset: off, Entries: traceEntries(entries), Trailer: trailer, Prev: prev})
	return off
}

func beBytes(v int64, w int) []byte {
	b := make([]byte, w)
	for i := w - 1; i >= 0; i-- {
		b[i] = byte(v)
		v >>= 8
	}
	return b
}

// XrefStream writes a cross-reference stream object `num` (which must have an
// entry for itself in entries, offset patched here) + startxref.
// w are the three field widths; predictor (0, 2, 10..15) and flate choose the
// encoding of the stream data. Returns the offset.
func (p *PDF) XrefStream(num int, entries map[int]XEntry, trailer string, prev int64, w [3]int, flate bool, predictor int, size int) int64 {
	off := p.Off()
	entries[num] = XEntry{Type: 1, F1: off, F2: 0}
	nums := sortedNums(entries)
	var data []byte
	var idx []string
	wtext := w // /W as written (may be hostile); the data is encoded with sane widths
	for i := range w {
		if w[i] < 0 {
			w[i] = 0
		}
		if w[i] > 8 {
			w[i] = 8
		}
	}
	for _, r := range runs(nums) {
		idx = append(idx, fmt.Sprintf("%d %d", r[0], r[1]))
		for i := 0; i < r[1]; i++ {
			e := entries[r[0]+i]
			if w[0] > 0 {
				data = append(data, beBytes(int64(e.Type), w[0])...)
			}
			data = append(data, beBytes(e.F1, w[1])...)
			data = append(data, beBytes(int64(e.F2), w[2])...)
		}
	}
	dict := fmt.Sprintf("/Type /XRef /Size %d /W [%d %d %d] /Index [%s] %s", size, wtext[0], wtext[1], wtext[2], strings.Join(idx, " "), trailer)
	if prev >= 0 {
		dict += fmt.Sprintf(" /Prev %d", prev)
	}
	cols := w[0] + w[1] + w[2]
	if flate && predictor >= 10 && cols > 0 {
		data = PNGPredict(data, cols, 1, func(row int) int {
			if predictor == 15 {
				return row % 5
			}
			return predictor - 10
		})
	}
	if flate {
		data = Deflate(data)
		dict += " /Filter /FlateDecode"
		if predictor >= 10 {
			dict += fmt.Sprintf(" /DecodeParms << /Predictor %d /Columns %d >>", predictor, cols)
		}
	}
	if p.XrefDictHook != nil {
		dict = p.XrefDictHook(dict)
	}
	p.Stream(num, dict, data, 0)
	fmt.Fprintf(&p.Buf, "startxref%s%d%s%%%%EOF%s", p.EOL, off, p.EOL, p.EOL)
	p.LastXref = off
	p.Tr.section(TraceSection{Offset: off, Stream: true, Entries: traceEntries(entries), Trailer: trailer, Prev: prev})
	return off
}

func paeth(a, b, c int) int {
	pp := a + b - c
	pa, pb, pc := abs(pp-a), abs(pp-b), abs(pp-c)
	if pa <= pb && pa <= pc {
		return a
	}
	if pb <= pc {
		return b
	}
	return c
}

func abs(x int) int {
	if x < 0 {
		return -x
	}
	return x
}

// PNGPredict applies PNG filtering (PNG spec §9) row by row; tag(row) gives the
// filter type 0..4 for each row. rowBytes = bytes per row, bpp = bytes per pixel.
func PNGPredict(data []byte, rowBytes, bpp int, tag func(row int) int) []byte {
	var out []byte
	prev := make([]byte, rowBytes)
	for r := 0; r*rowBytes < len(data); r++ {
		row := data[r*rowBytes : min((r+1)*rowBytes, len(data))]
		t := tag(r)
		out = append(out, byte(t))
		for i := range row {
			a, b, c := 0, int(prev[i]), 0
			if i >= bpp {
				a = int(row[i-bpp])
				c = int(prev[i-bpp])
			}
			var pred int
			switch t {
			case 0:
				pred = 0
			case 1:
				pred = a
			case 2:
				pred = b
			case 3:
				pred = (a + b) / 2
			case 4:
				pred = paeth(a, b, c)
			}
			out = append(out, byte(int(row[i])-pred))
		}
		prev = make([]byte, rowBytes)
		copy(prev, row)
	}
	return out
}
