package writers

import (
	"fmt"
	"strings"
)

// XCell is one authored cell of a worksheet.
type XCell struct {
	Ref  string // A1 reference as written
	T    string // t attribute ("" = absent)
	V    string // <v> text
	HasV bool
	F    string // <f> text ("" = absent)
	Is   *string // <is><t> text
}

type XRow struct {
	R     int
	Cells []XCell
}

// XSI is one shared string: plain text, or rich-text runs.
type XSI struct {
	Plain string
	Runs  []string // non-nil => rich text
}

type XSheet struct {
	Name   string
	Path   string // part path relative to xl/ (e.g. worksheets/sheet1.xml)
	RID    string
	Rows   []XRow
	Merges []string
}

type XWorkbook struct {
	Shared []XSI
	Sheets []XSheet // in declared (workbook.xml) order
}

func (s XSI) Text() string {
	if s.Runs != nil {
		return strings.Join(s.Runs, "")
	}
	return s.Plain
}

func SheetXML(sh XSheet) string {
	var b strings.Builder
	b.WriteString(`<?xml version="1.0" encoding="UTF-8" standalone="yes"?>` + "\n")
	b.WriteString(`<worksheet xmlns="http://schemas.openxmlformats.org/spreadsheetml/2006/main"><sheetData>`)
	for _, r := range sh.Rows {
		fmt.Fprintf(&b, `<row r="%d">`, r.R)
		for _, c := range r.Cells {
			fmt.Fprintf(&b, `<c r="%s"`, XMLEsc(c.Ref))
			if c.T != "" {
				fmt.Fprintf(&b, ` t="%s"`, XMLEsc(c.T))
			}
			b.WriteString(">")
			if c.F != "" {
				fmt.Fprintf(&b, `<f>%s</f>`, XMLEsc(c.F))
			}
			if c.HasV {
				fmt.Fprintf(&b, `<v>%s</v>`, XMLEsc(c.V))
			}
			if c.Is != nil {
				fmt.Fprintf(&b, `<is><t xml:space="preserve">%s</t></is>`, XMLEsc(*c.Is))
			}
			b.WriteString("</c>")
		}
		b.WriteString("</row>")
	}
	b.WriteString("</sheetData>")
	if len(sh.Merges) > 0 {
		fmt.Fprintf(&b, `<mergeCells count="%d">`, len(sh.Merges))
		for _, m := range sh.Merges {
			fmt.Fprintf(&b, `<mergeCell ref="%s"/>`, XMLEsc(m))
		}
		b.WriteString("</mergeCells>")
	}
	b.WriteString("</worksheet>")
	return b.String()
}

// XLSXMembers returns the package members in a canonical order; callers may
// permute them and add decoys.
func XLSXMembers(wb XWorkbook) []Member {
	var ms []Member
	var ct strings.Builder
	ct.WriteString(`<?xml version="1.0" encoding="UTF-8" standalone="yes"?>` + "\n")
	ct.WriteString(`<Types xmlns="http://schemas.openxmlformats.org/package/2006/content-types"><Default Extension="rels" ContentType="application/vnd.openxmlformats-package.relationships+xml"/><Default Extension="xml" ContentType="application/xml"/><Override PartName="/xl/workbook.xml" ContentType="application/vnd.openxmlformats-officedocument.spreadsheetml.sheet.main+xml"/>`)
	for _, s := range wb.Sheets {
		fmt.Fprintf(&ct, `<Override PartName="/xl/%s" ContentType="application/vnd.openxmlformats-officedocument.spreadsheetml.worksheet+xml"/>`, XMLEsc(s.Path))
	}
	ct.WriteString(`<Override PartName="/xl/sharedStrings.xml" ContentType="application/vnd.openxmlformats-officedocument.spreadsheetml.sharedStrings+xml"/></Types>`)
	ms = append(ms, Member{Name: "[Content_Types].xml", Data: []byte(ct.String())})
	ms = append(ms, Member{Name: "_rels/.rels", Data: []byte(`<?xml version="1.0" encoding="UTF-8" standalone="yes"?>` + "\n" + `<Relationships xmlns="http://schemas.openxmlformats.org/package/2006/relationships"><Relationship Id="rId1" Type="http://schemas.openxmlformats.org/officeDocument/2006/relationships/officeDocument" Target="xl/workbook.xml"/></Relationships>`)})

	var w strings.Builder
	w.WriteString(`<?xml version="1.0" encoding="UTF-8" standalone="yes"?>` + "\n")
	w.WriteString(`<workbook xmlns="http://schemas.openxmlformats.org/spreadsheetml/2006/main" xmlns:r="http://schemas.openxmlformats.org/officeDocument/2006/relationships"><sheets>`)
	for i, s := range wb.Sheets {
		fmt.Fprintf(&w, `<sheet name="%s" sheetId="%d" r:id="%s"/>`, XMLEsc(s.Name), i+1, XMLEsc(s.RID))
	}
	w.WriteString(`</sheets></workbook>`)
	ms = append(ms, Member{Name: "xl/workbook.xml", Data: []byte(w.String())})

	var rl strings.Builder
	rl.WriteString(`<?xml version="1.0" encoding="UTF-8" standalone="yes"?>` + "\n")
	rl.WriteString(`<Relationships xmlns="http://schemas.openxmlformats.org/package/2006/relationships">`)
	for _, s := range wb.Sheets {
		fmt.Fprintf(&rl, `<Relationship Id="%s" Type="http://schemas.openxmlformats.org/officeDocument/2006/relationships/worksheet" Target="%s"/>`, XMLEsc(s.RID), XMLEsc(s.Path))
	}
	rl.WriteString(`<Relationship Id="rIdSST" Type="http://schemas.openxmlformats.org/officeDocument/2006/relationships/sharedStrings" Target="sharedStrings.xml"/></Relationships>`)
	ms = append(ms, Member{Name: "xl/_rels/workbook.xml.rels", Data: []byte(rl.String())})

	var ss strings.Builder
	ss.WriteString(`<?xml version="1.0" encoding="UTF-8" standalone="yes"?>` + "\n")
	fmt.Fprintf(&ss, `<sst xmlns="http://schemas.openxmlformats.org/spreadsheetml/2006/main" count="%d" uniqueCount="%d">`, len(wb.Shared), len(wb.Shared))
	for _, si := range wb.Shared {
		ss.WriteString("<si>")
		if si.Runs != nil {
			for _, r := range si.Runs {
				fmt.Fprintf(&ss, `<r><rPr><b/></rPr><t xml:space="preserve">%s</t></r>`, XMLEsc(r))
			}
		} else {
			fmt.Fprintf(&ss, `<t xml:space="preserve">%s</t>`, XMLEsc(si.Plain))
		}
		ss.WriteString("</si>")
	}
	ss.WriteString("</sst>")
	ms = append(ms, Member{Name: "xl/sharedStrings.xml", Data: []byte(ss.String())})

	for _, s := range wb.Sheets {
		ms = append(ms, Member{Name: "xl/" + s.Path, Data: []byte(SheetXML(s))})
	}
	return ms
}
