package writers

// The abstract file: what the low-level writer knows about the bytes it lays out, at the
// level of "objects and cross-reference sections". A harness hands a *Trace to the writer
// (PDF.Tr, Layout.Trace); the writer appends to it while it writes and never reads it, so
// the bytes produced for a given seed are the same with and without a trace.

import (
	"bytes"
	"compress/zlib"
	"io"
	"regexp"
	"strconv"
)

// TraceObj is one indirect object as written at Offset: `Num 0 obj ... endobj`.
// A plain object has Body (the text between `obj` and `endobj`, without the EOLs the writer
// adds around it); a stream has Dict (the dictionary text `<< ... >>` as written, /Length
// included) and Data (the bytes between `stream` EOL and EOL `endstream`). An object stream
// additionally lists its members as they were packed.
type TraceObj struct {
	Offset  int64
	Num     int
	Stream  bool
	Body    []byte
	Dict    []byte
	Data    []byte
	Members []ObjStmMember
}

// TraceEntry is one cross-reference entry in the order it was written.
type TraceEntry struct {
	Num int
	E   XEntry
}

// TraceSection is one cross-reference section (classic table or stream) at Offset.
// Prev is the /Prev value written (-1: none); Trailer is the trailer dictionary text
// (for a cross-reference stream: the trailer keys of its dictionary).
type TraceSection struct {
	Offset  int64
	Stream  bool
	Entries []TraceEntry
	Trailer string
	Prev    int64
}

var rootRe = regexp.MustCompile(`/Root\s+(\d+)\s+\d+\s+R`)

// Root is the object number named by the trailer's /Root, or -1.
func (s TraceSection) Root() int {
	m := rootRe.FindStringSubmatch(s.Trailer)
	if m == nil {
		return -1
	}
	n, _ := strconv.Atoi(m[1])
	return n
}

// InflatePair is one zlib stream the writer produced (In) and the bytes it compressed (Out).
type InflatePair struct {
	In  []byte
	Out []byte
}

type Trace struct {
	Objs    []TraceObj
	Secs    []TraceSection
	Inflate []InflatePair
	// Start is the offset written after the last `startxref`.
	Start int64
}

func (t *Trace) obj(o TraceObj) {
	if t != nil {
		t.Objs = append(t.Objs, o)
	}
}

func (t *Trace) deflated(in, out []byte) {
	if t != nil {
		t.Inflate = append(t.Inflate, InflatePair{In: append([]byte(nil), in...), Out: append([]byte(nil), out...)})
	}
}

func (t *Trace) section(s TraceSection) {
	if t != nil {
		t.Secs = append(t.Secs, s)
		t.Start = s.Offset
	}
}

func traceEntries(entries map[int]XEntry) []TraceEntry {
	var out []TraceEntry
	for _, n := range sortedNums(entries) {
		out = append(out, TraceEntry{Num: n, E: entries[n]})
	}
	return out
}

// Inflate is zlib decompression by the standard library (the external function the reader
// model takes as a parameter); ok is false when zlib rejects the data.
func Inflate(data []byte) (out []byte, ok bool) {
	r, err := zlib.NewReader(bytes.NewReader(data))
	if err != nil {
		return nil, false
	}
	defer r.Close()
	out, err = io.ReadAll(r)
	if err != nil {
		return nil, false
	}
	return out, true
}
