// Package writers holds the harness's independent document writers.
package writers

import (
	"archive/zip"
	"bytes"
	"strings"
)

// Member is one ZIP member; order in the slice is archive order.
type Member struct {
	Name string
	Data []byte
	// Store writes the member uncompressed (EPUB mimetype).
	Store bool
}

// Zip writes the members in the given order.
func Zip(members []Member) []byte {
	var buf bytes.Buffer
	zw := zip.NewWriter(&buf)
	for _, m := range members {
		method := zip.Deflate
		if m.Store {
			method = zip.Store
		}
		w, err := zw.CreateHeader(&zip.FileHeader{Name: m.Name, Method: method})
		if err != nil {
			panic(err)
		}
		w.Write(m.Data)
	}
	zw.Close()
	return buf.Bytes()
}

// XMLEsc escapes text for element content and attribute values.
func XMLEsc(s string) string {
	var b strings.Builder
	for _, r := range s {
		switch r {
		case '&':
			b.WriteString("&amp;")
		case '<':
			b.WriteString("&lt;")
		case '>':
			b.WriteString("&gt;")
		case '"':
			b.WriteString("&quot;")
		case '\'':
			b.WriteString("&apos;")
		case '\n':
			b.WriteString("&#10;")
		case '\r':
			b.WriteString("&#13;")
		case '\t':
			b.WriteString("&#9;")
		default:
			b.WriteRune(r)
		}
	}
	return b.String()
}
