package writers

// Document-level PDF writer: renders one logical document (pages x lines x
// fonts) under a chosen physical layout (xref kind, object streams, filter
// chains, /Length placement, content splitting, page-tree depth and placement
// of inheritable keys, incremental revisions, object numbering/order, EOL).

import (
	"fmt"
	"sort"
	"strings"
	"unicode/utf16"

	"verifharness/hx"
)

type LLine struct {
	Font int    `json:"font"` // 0 = Type1 Helvetica/WinAnsi (Latin-1 text), 1 = Type0 with ToUnicode
	Text string `json:"text"`
}

type LPage struct {
	Lines []LLine `json:"lines"`
}

type LDoc struct {
	Pages []LPage `json:"pages"`
}

type Layout struct {
	EOL        string `json:"eol"`
	XrefStream bool   `json:"xref_stream"`
	ObjStm     bool   `json:"objstm"`
	LengthMode int    `json:"length_mode"` // 0 direct, 1 indirect (holder before stream), 2 indirect (holder after)
	Split      int    `json:"split"`       // content streams per page (1..4)
	SplitWS    bool   `json:"split_ws"`    // parts end with whitespace
	Depth      int    `json:"depth"`       // intermediate levels under the root (0..3)
	Revisions  int    `json:"revisions"`   // extra incremental revisions (0..3)
	Shuffle    bool   `json:"shuffle"`
	Filters    int    `json:"filters"` // 0 none, 1 single, 2 chains up to 3, 3 with predictors
	BigPad     int    `json:"big_pad"` // bytes of padding comment-free whitespace in content streams
	ParmsShape int    `json:"parms_shape"`
	Seed       uint64 `json:"seed"`
	// ObjHook, when set, may rewrite every object just before it is written (fault injection):
	// plain objects expose Body, streams expose Dict (without /Length) and the encoded Data.
	ObjHook func(o *RawObj) `json:"-"`
	// XrefHook may rewrite a cross-reference section before it is written.
	XrefHook func(x *RawXref) `json:"-"`
	// ObjStmHook may rewrite /N, /First and the header pairs of an object stream.
	ObjStmHook func(s *RawObjStm) `json:"-"`
	// Trace, when non-nil, receives the abstract file (objects and cross-reference sections).
	Trace *Trace `json:"-"`
}

// RawObj is one object on its way into the file. Drop suppresses it, Twice writes it twice.
type RawObj struct {
	Ordinal int
	Num     int
	Stream  bool
	Body    string
	Dict    string
	Data    []byte
	Drop    bool
	Twice   bool
	// LengthOverride replaces the /Length value text when non-empty.
	LengthOverride string
}

// RawXref is one cross-reference section on its way into the file.
type RawXref struct {
	Ordinal int
	Stream  bool
	Entries map[int]XEntry
	Trailer string
	Prev    int64
	W       [3]int
	Size    int
	// LengthOverride, when non-empty, replaces the /Length value text of a
	// cross-reference stream; DictRewrite, when set, rewrites the dictionary text of a
	// cross-reference stream (without brackets and without /Length) before it is written.
	LengthOverride string
	DictRewrite    func(dict string) string
}

// PNode is the authored page tree (for the model op and the oracle).
type PNode struct {
	Leaf bool
	MB   *[4]int // own /MediaBox
	Res  string  // own /Resources variant: "", "A", "B"
	Rot  *int
	Kids []*PNode
	Page int // leaf: page index
	// effective (nearest definer) values, computed by the writer
	EffMB  *[4]int
	EffRes string
	EffRot int
	key    int
}

type Rendered struct {
	Data   []byte
	Tree   *PNode
	Leaves []*PNode
}

type pobj struct {
	key    int
	stream bool
	body   func(num func(int) int) string // plain objects
	dict   func(num func(int) int) string // stream dict entries (without Length/Filter)
	data   []byte
	stale  []byte // stale stream data / nil
	// staleBody, when set, is what a plain object says in revisions older than its final one
	staleBody func(num func(int) int) string
	final     int
	nopack    bool
}

func pdfString(s []byte) string {
	var b strings.Builder
	b.WriteByte('(')
	for _, c := range s {
		switch c {
		case '(', ')', '\\':
			b.WriteByte('\\')
			b.WriteByte(c)
		case '\r':
			b.WriteString("\\r")
		case '\n':
			b.WriteString("\\n")
		default:
			b.WriteByte(c)
		}
	}
	b.WriteByte(')')
	return b.String()
}

func latin1(s string) []byte {
	var out []byte
	for _, r := range s {
		if r > 0xFF {
			r = '?'
		}
		out = append(out, byte(r))
	}
	return out
}

func pickChain(r *hx.Rng, mode int) []FilterSpec {
	if mode == 0 {
		return nil
	}
	names := [][2]string{{"FlateDecode", "Fl"}, {"ASCIIHexDecode", "AHx"}, {"ASCII85Decode", "A85"}}
	n := 1
	if mode >= 2 {
		n = r.Range(1, 3)
	}
	var chain []FilterSpec
	for i := 0; i < n; i++ {
		nm := hx.Pick(r, names[:])
		f := FilterSpec{Name: nm[r.Intn(2)]}
		// a predictor only on the stage that is applied to the (padded) plain data, i.e. the
		// last one in decoding order: a partial final predictor row is outside the claim
		if f.Kind() == "flate" && mode >= 3 && i == n-1 && r.Chance(2, 3) {
			f.Predictor = hx.Pick(r, []int{2, 10, 11, 12, 13, 14, 15})
			f.Columns = r.Range(1, 16)
			f.Colors = r.Range(1, 3)
		}
		chain = append(chain, f)
	}
	return chain
}

// padTo pads content (with spaces) so that its length is a multiple of every
// predictor row size in the chain (a partial final row is outside the claim).
func padTo(data []byte, chain []FilterSpec) []byte {
	m := 1
	for _, f := range chain {
		if f.Kind() == "flate" && f.Predictor > 1 {
			rb := f.Columns * max(f.Colors, 1)
			m = lcm(m, rb)
		}
	}
	for len(data)%m != 0 {
		data = append(data, ' ')
	}
	return data
}

func gcd(a, b int) int {
	for b != 0 {
		a, b = b, a%b
	}
	return a
}
func lcm(a, b int) int { return a / gcd(a, b) * b }

// RenderPDF renders doc under lay. All random choices come from lay.Seed.
func RenderPDF(doc LDoc, lay Layout) Rendered {
	r := hx.NewRng(lay.Seed)
	var objs []*pobj
	nextKey := 1
	add := func(o *pobj) int {
		o.key = nextKey
		nextKey++
		objs = append(objs, o)
		return o.key
	}

	// ---- fonts ---------------------------------------------------------------
	kHelv := add(&pobj{body: func(num func(int) int) string {
		return "<< /Type /Font /Subtype /Type1 /BaseFont /Helvetica /Encoding /WinAnsiEncoding >>"
	}})
	// code assignment for the Type0 font: one 2-byte code per UTF-16 unit sequence of a rune
	codes := map[rune]int{}
	var order []rune
	for _, p := range doc.Pages {
		for _, l := range p.Lines {
			if l.Font == 1 {
				for _, ru := range l.Text {
					if _, ok := codes[ru]; !ok {
						codes[ru] = 3 + len(codes)*7%1000 + len(codes)
						order = append(order, ru)
					}
				}
			}
		}
	}
	// make codes unique
	used := map[int]bool{}
	for _, ru := range order {
		c := codes[ru]
		for used[c] {
			c++
		}
		used[c] = true
		codes[ru] = c
	}
	var cm strings.Builder
	cm.WriteString("/CIDInit /ProcSet findresource begin\n12 dict begin\nbegincmap\n/CIDSystemInfo << /Registry (Adobe) /Ordering (UCS) /Supplement 0 >> def\n/CMapName /Adobe-Identity-UCS def\n/CMapType 2 def\n1 begincodespacerange\n<0000> <FFFF>\nendcodespacerange\n")
	for i := 0; i < len(order); i += 100 {
		j := min(i+100, len(order))
		fmt.Fprintf(&cm, "%d beginbfchar\n", j-i)
		for _, ru := range order[i:j] {
			var hexs string
			for _, u := range utf16.Encode([]rune{ru}) {
				hexs += fmt.Sprintf("%04X", u)
			}
			fmt.Fprintf(&cm, "<%04X> <%s>\n", codes[ru], hexs)
		}
		cm.WriteString("endbfchar\n")
	}
	cm.WriteString("endcmap\nCMapName currentdict /CMap defineresource pop\nend\nend\n")
	kToUni := add(&pobj{stream: true, dict: func(num func(int) int) string { return "" }, data: []byte(cm.String())})
	kCID := add(&pobj{body: func(num func(int) int) string {
		return "<< /Type /Font /Subtype /CIDFontType2 /BaseFont /AAAAAA+VerifSans /CIDSystemInfo << /Registry (Adobe) /Ordering (Identity) /Supplement 0 >> /DW 1000 >>"
	}})
	kT0 := add(&pobj{body: func(num func(int) int) string {
		return fmt.Sprintf("<< /Type /Font /Subtype /Type0 /BaseFont /AAAAAA+VerifSans /Encoding /Identity-H /DescendantFonts [%d 0 R] /ToUnicode %d 0 R >>", num(kCID), num(kToUni))
	}})
	resBody := func(variant string, num func(int) int) string {
		a, b := kHelv, kT0
		if variant == "B" {
			a, b = kT0, kHelv
		}
		return fmt.Sprintf("<< /Font << /F1 %d 0 R /F2 %d 0 R >> >>", num(a), num(b))
	}
	kRes := map[string]int{}
	for _, v := range []string{"A", "B"} {
		v := v
		kRes[v] = add(&pobj{body: func(num func(int) int) string { return resBody(v, num) }})
	}

	// ---- page tree -----------------------------------------------------------
	var leaves []*PNode
	var build func(pages []int, depth int) []*PNode
	build = func(pages []int, depth int) []*PNode {
		var out []*PNode
		if depth == 0 {
			for _, p := range pages {
				out = append(out, &PNode{Leaf: true, Page: p})
			}
			return out
		}
		for i := 0; i < len(pages); {
			n := r.Range(1, max(1, len(pages)-i))
			if n > 3 {
				n = r.Range(1, 3)
			}
			grp := pages[i : i+n]
			i += n
			if n == 1 && r.Chance(1, 3) {
				out = append(out, &PNode{Leaf: true, Page: grp[0]})
			} else {
				out = append(out, &PNode{Kids: build(grp, depth-1)})
			}
		}
		return out
	}
	all := make([]int, len(doc.Pages))
	for i := range all {
		all[i] = i
	}
	root := &PNode{Kids: build(all, lay.Depth)}
	boxes := [][4]int{{0, 0, 612, 792}, {0, 0, 595, 842}, {10, 20, 410, 620}, {0, 0, 100, 100}}
	var decorate func(n *PNode, isRoot bool)
	decorate = func(n *PNode, isRoot bool) {
		p := 3
		if n.Leaf {
			p = 4
		}
		if r.Chance(p, 10) {
			b := hx.Pick(r, boxes)
			n.MB = &b
		}
		if r.Chance(p, 10) {
			n.Res = hx.Pick(r, []string{"A", "B"})
		}
		if r.Chance(2, 10) {
			v := hx.Pick(r, []int{0, 90, 180, 270})
			n.Rot = &v
		}
		for _, k := range n.Kids {
			decorate(k, false)
		}
	}
	decorate(root, true)
	var eff func(n *PNode, mb *[4]int, res string, rot int)
	eff = func(n *PNode, mb *[4]int, res string, rot int) {
		if n.MB != nil {
			mb = n.MB
		}
		if n.Res != "" {
			res = n.Res
		}
		if n.Rot != nil {
			rot = *n.Rot
		}
		if n.Leaf {
			// every leaf needs an effective MediaBox and Resources (required keys)
			if mb == nil {
				b := boxes[0]
				n.MB = &b
				mb = n.MB
			}
			if res == "" {
				n.Res = "A"
				res = "A"
			}
			n.EffMB, n.EffRes, n.EffRot = mb, res, rot
			leaves = append(leaves, n)
		}
		for _, k := range n.Kids {
			eff(k, mb, res, rot)
		}
	}
	eff(root, nil, "", 0)
	sort.SliceStable(leaves, func(i, j int) bool { return leaves[i].Page < leaves[j].Page })

	// ---- content streams -----------------------------------------------------
	contentKeys := make([][]int, len(doc.Pages))
	for pi, pg := range doc.Pages {
		leaf := leaves[pi]
		fname := func(kind int) string {
			if (leaf.EffRes == "A") == (kind == 0) {
				return "/F1"
			}
			return "/F2"
		}
		toks := []string{"BT"}
		cur := -1
		for li, l := range pg.Lines {
			if l.Font != cur {
				toks = append(toks, fname(l.Font), "12", "Tf")
				cur = l.Font
			}
			if li == 0 {
				toks = append(toks, "72", "720", "Td")
			} else {
				toks = append(toks, "0", "-14", "Td")
			}
			if l.Font == 0 {
				toks = append(toks, pdfString(latin1(l.Text)), "Tj")
			} else {
				var hexs strings.Builder
				hexs.WriteByte('<')
				for _, ru := range l.Text {
					fmt.Fprintf(&hexs, "%04X", codes[ru])
				}
				hexs.WriteByte('>')
				toks = append(toks, hexs.String(), "Tj")
			}
		}
		toks = append(toks, "ET")
		nparts := min(max(lay.Split, 1), len(toks))
		// cut points at token boundaries
		cuts := map[int]bool{}
		for len(cuts) < nparts-1 {
			cuts[r.Range(1, len(toks)-1)] = true
		}
		var parts []string
		var cur2 strings.Builder
		for i, t := range toks {
			if cuts[i] {
				s := cur2.String()
				if !lay.SplitWS {
					s = strings.TrimRight(s, " \n")
				}
				parts = append(parts, s)
				cur2.Reset()
			}
			cur2.WriteString(t)
			if r.Chance(1, 4) {
				cur2.WriteString("\n")
			} else {
				cur2.WriteString(" ")
			}
		}
		parts = append(parts, cur2.String())
		for pj, part := range parts {
			data := []byte(part)
			if lay.BigPad > 0 && pj == 0 {
				data = append([]byte(strings.Repeat(" \n", lay.BigPad/2)), data...)
			}
			stale := []byte("BT /F1 12 Tf 72 720 Td (STALE-CONTENT) Tj ET ")
			contentKeys[pi] = append(contentKeys[pi], add(&pobj{stream: true, dict: func(num func(int) int) string { return "" }, data: data, stale: stale}))
		}
	}

	// what a superseded page leaf points at: if a stale leaf is ever used, this text shows
	kStaleContent := add(&pobj{stream: true, dict: func(num func(int) int) string { return "" }, data: []byte("BT /F1 12 Tf 72 720 Td (STALE-PAGE-LEAF) Tj ET ")})

	// ---- page tree objects ---------------------------------------------------
	var assign func(n *PNode)
	assign = func(n *PNode) {
		n.key = add(&pobj{})
		for _, k := range n.Kids {
			assign(k)
		}
	}
	assign(root)
	inlineRes := r.Bool()
	attrs := func(n *PNode, num func(int) int) string {
		s := ""
		if n.MB != nil {
			s += fmt.Sprintf(" /MediaBox [%d %d %d %d]", n.MB[0], n.MB[1], n.MB[2], n.MB[3])
		}
		if n.Res != "" {
			if inlineRes {
				s += " /Resources " + resBody(n.Res, num)
			} else {
				s += fmt.Sprintf(" /Resources %d 0 R", num(kRes[n.Res]))
			}
		}
		if n.Rot != nil {
			s += fmt.Sprintf(" /Rotate %d", *n.Rot)
		}
		return s
	}
	var countLeaves func(n *PNode) int
	countLeaves = func(n *PNode) int {
		if n.Leaf {
			return 1
		}
		c := 0
		for _, k := range n.Kids {
			c += countLeaves(k)
		}
		return c
	}
	byKey := map[int]*pobj{}
	for _, o := range objs {
		byKey[o.key] = o
	}
	var fill func(n *PNode, parent *PNode)
	fill = func(n *PNode, parent *PNode) {
		o := byKey[n.key]
		o.body = func(num func(int) int) string {
			par := ""
			if parent != nil {
				par = fmt.Sprintf(" /Parent %d 0 R", num(parent.key))
			}
			if n.Leaf {
				ck := contentKeys[n.Page]
				var c string
				if len(ck) == 1 && lay.Seed%2 == 0 {
					c = fmt.Sprintf("%d 0 R", num(ck[0]))
				} else {
					var refs []string
					for _, k := range ck {
						refs = append(refs, fmt.Sprintf("%d 0 R", num(k)))
					}
					c = "[" + strings.Join(refs, " ") + "]"
				}
				return fmt.Sprintf("<< /Type /Page%s%s /Contents %s >>", par, attrs(n, num), c)
			}
			var kids []string
			for _, k := range n.Kids {
				kids = append(kids, fmt.Sprintf("%d 0 R", num(k.key)))
			}
			return fmt.Sprintf("<< /Type /Pages%s /Kids [%s] /Count %d%s >>", par, strings.Join(kids, " "), countLeaves(n), attrs(n, num))
		}
		if n.Leaf {
			o.staleBody = func(num func(int) int) string {
				par := ""
				if parent != nil {
					par = fmt.Sprintf(" /Parent %d 0 R", num(parent.key))
				}
				return fmt.Sprintf("<< /Type /Page%s%s /Contents %d 0 R >>", par, attrs(n, num), num(kStaleContent))
			}
		}
		for _, k := range n.Kids {
			fill(k, n)
		}
	}
	fill(root, nil)
	kCat := add(&pobj{body: func(num func(int) int) string {
		return fmt.Sprintf("<< /Type /Catalog /Pages %d 0 R >>", num(root.key))
	}})
	byKey[kCat] = objs[len(objs)-1]

	// ---- numbering, revisions --------------------------------------------------
	nums := make([]int, len(objs))
	for i := range nums {
		nums[i] = i + 1
	}
	if lay.Shuffle {
		hx.Shuffle(r, nums)
	}
	numOf := map[int]int{}
	for i, o := range objs {
		numOf[o.key] = nums[i]
	}
	num := func(k int) int { return numOf[k] }
	nextNum := len(objs) + 1
	for _, o := range objs {
		o.final = 0
		if lay.Revisions > 0 && r.Chance(1, 2) {
			o.final = r.Range(0, lay.Revisions)
		}
	}

	p := NewPDF(lay.EOL)
	p.Tr = lay.Trace
	prev := int64(-1)
	ordinal := 0
	xordinal := 0
	stmOrdinal := 0
	for rev := 0; rev <= lay.Revisions; rev++ {
		entries := map[int]XEntry{}
		if rev == 0 {
			entries[0] = XEntry{Type: 0, F1: 0, F2: 65535}
		}
		var todo []*pobj
		for _, o := range objs {
			if o.final == rev || (o.final > rev && (rev == 0 || r.Chance(1, 3))) {
				todo = append(todo, o)
			}
		}
		if lay.Shuffle {
			hx.Shuffle(r, todo)
		}
		useStm := lay.ObjStm && (lay.XrefStream || true)
		xrefStream := lay.XrefStream || useStm
		var packed []ObjStmMember
		type holder struct {
			num int
			val int
		}
		for _, o := range todo {
			staleNow := o.final > rev
			if !o.stream {
				body := o.body(num) // most plain objects are rewritten unchanged in later revisions
				if staleNow && o.staleBody != nil {
					body = o.staleBody(num) // a superseded page leaf differs from its final version
				}
				raw := RawObj{Ordinal: ordinal, Num: num(o.key), Body: body}
				ordinal++
				if lay.ObjHook != nil {
					lay.ObjHook(&raw)
				}
				if raw.Drop {
					continue
				}
				if useStm && r.Chance(3, 4) {
					entries[raw.Num] = XEntry{Type: 2} // patched below
					packed = append(packed, ObjStmMember{Num: raw.Num, Body: raw.Body})
					if raw.Twice {
						packed = append(packed, ObjStmMember{Num: raw.Num, Body: raw.Body})
					}
				} else {
					off := p.Obj(raw.Num, 0, raw.Body)
					entries[raw.Num] = XEntry{Type: 1, F1: off}
					if raw.Twice {
						p.Obj(raw.Num, 0, raw.Body)
					}
				}
				continue
			}
			data := o.data
			if staleNow && o.stale != nil {
				data = o.stale
			}
			chain := pickChain(r, lay.Filters)
			data = padTo(append([]byte(nil), data...), chain)
			enc := EncodeChainTrace(data, chain, r.Intn(6), lay.Trace)
			dict := strings.TrimSpace(o.dict(num) + " " + FilterDict(chain, lay.ParmsShape))
			lenRef := 0
			var pending *holder
			if lay.LengthMode > 0 {
				lenRef = nextNum
				nextNum++
				h := holder{lenRef, len(enc)}
				if lay.LengthMode == 1 {
					off := p.Obj(h.num, 0, fmt.Sprint(h.val))
					entries[h.num] = XEntry{Type: 1, F1: off}
				} else {
					pending = &h
				}
			}
			raw := RawObj{Ordinal: ordinal, Num: num(o.key), Stream: true, Dict: dict, Data: enc}
			ordinal++
			if lay.ObjHook != nil {
				lay.ObjHook(&raw)
			}
			if raw.Drop {
				continue
			}
			p.LengthOverride = raw.LengthOverride
			off := p.Stream(raw.Num, raw.Dict, raw.Data, lenRef)
			p.LengthOverride = ""
			entries[raw.Num] = XEntry{Type: 1, F1: off}
			if raw.Twice {
				p.Stream(raw.Num, raw.Dict, raw.Data, lenRef)
			}
			if pending != nil {
				if useStm && r.Bool() {
					entries[pending.num] = XEntry{Type: 2}
					packed = append(packed, ObjStmMember{Num: pending.num, Body: fmt.Sprint(pending.val)})
				} else {
					off := p.Obj(pending.num, 0, fmt.Sprint(pending.val))
					entries[pending.num] = XEntry{Type: 1, F1: off}
				}
			}
		}
		if len(packed) > 0 {
			stm := nextNum
			nextNum++
			for i, m := range packed {
				entries[m.Num] = XEntry{Type: 2, F1: int64(stm), F2: i}
			}
			var stmHook func(*RawObjStm)
			if lay.ObjStmHook != nil {
				so := stmOrdinal
				stmHook = func(s *RawObjStm) { s.Ordinal = so; lay.ObjStmHook(s) }
			}
			stmOrdinal++
			off := p.ObjStmRaw(stm, packed, r.Bool(), 0, stmHook)
			entries[stm] = XEntry{Type: 1, F1: off}
		}
		trailer := fmt.Sprintf("/Root %d 0 R", num(kCat))
		rx := RawXref{Ordinal: xordinal, Stream: xrefStream, Entries: entries, Trailer: trailer, Prev: prev, W: [3]int{1, 4, 2}, Size: nextNum + len(objs)*4 + 10}
		xordinal++
		if lay.XrefHook != nil {
			lay.XrefHook(&rx)
			entries, trailer = rx.Entries, rx.Trailer
		}
		if xrefStream {
			xn := nextNum
			nextNum++
			pred := 0
			if lay.Filters >= 3 {
				pred = hx.Pick(r, []int{0, 12, 10, 11, 13, 14, 15})
			}
			p.LengthOverride, p.XrefDictHook = rx.LengthOverride, rx.DictRewrite
			prev = p.XrefStream(xn, entries, trailer, rx.Prev, rx.W, lay.Filters > 0, pred, rx.Size)
			p.LengthOverride, p.XrefDictHook = "", nil
		} else {
			prev = p.XrefTable(entries, trailer+fmt.Sprintf(" /Size %d", rx.Size), rx.Prev, hx.Pick(r, []string{" \n", "\r\n", " \r"}))
		}
	}
	return Rendered{Data: p.Buf.Bytes(), Tree: root, Leaves: leaves}
}

// TreeSexpr renders the authored page tree for the model op:
// (N mb res rot kid...) / (L mb res rot); mb = a.b.c.d or -, res = A|B|-, rot = int or -
func TreeSexpr(n *PNode) string {
	mb, res, rot := "-", "-", "-"
	if n.MB != nil {
		mb = fmt.Sprintf("%d.%d.%d.%d", n.MB[0], n.MB[1], n.MB[2], n.MB[3])
	}
	if n.Res != "" {
		res = n.Res
	}
	if n.Rot != nil {
		rot = fmt.Sprint(*n.Rot)
	}
	if n.Leaf {
		return fmt.Sprintf("(L,%s,%s,%s)", mb, res, rot)
	}
	var kids []string
	for _, k := range n.Kids {
		kids = append(kids, TreeSexpr(k))
	}
	return fmt.Sprintf("(N,%s,%s,%s,%s)", mb, res, rot, strings.Join(kids, ","))
}
