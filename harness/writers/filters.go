package writers

// Conforming encoders for the PDF stream filters, written from ISO 32000-1
// §7.4 (not from tabula's decoders).

import (
	"fmt"
	"strings"
)

// HexEncode is ASCIIHexDecode's encoder: two hex digits per byte, `>` as EOD.
// ws inserts a line break every ws digits (0 = none); upper chooses the case.
func HexEncode(data []byte, ws int, upper bool) []byte {
	var b strings.Builder
	f := "%02x"
	if upper {
		f = "%02X"
	}
	for i, c := range data {
		if ws > 0 && i > 0 && (2*i)%ws == 0 {
			b.WriteString("\n")
		}
		fmt.Fprintf(&b, f, c)
	}
	b.WriteString(">")
	return []byte(b.String())
}

// A85Encode is ASCII85Decode's encoder: groups of 4 bytes -> 5 digits base 85
// offset by '!', all-zero group -> 'z', final partial group of n bytes -> n+1
// digits, `~>` as EOD. ws inserts a newline every ws output characters.
func A85Encode(data []byte, ws int, useZ bool) []byte {
	var out []byte
	emit := func(c byte) {
		if ws > 0 && len(out) > 0 && len(out)%ws == 0 {
			out = append(out, '\n')
		}
		out = append(out, c)
	}
	for i := 0; i < len(data); i += 4 {
		n := len(data) - i
		if n > 4 {
			n = 4
		}
		var v uint32
		for j := 0; j < 4; j++ {
			v <<= 8
			if j < n {
				v |= uint32(data[i+j])
			}
		}
		if n == 4 && v == 0 && useZ {
			emit('z')
			continue
		}
		var d [5]byte
		for j := 4; j >= 0; j-- {
			d[j] = byte(v%85) + '!'
			v /= 85
		}
		for j := 0; j < n+1; j++ {
			emit(d[j])
		}
	}
	out = append(out, '~', '>')
	return out
}

// FilterSpec is one stage of a filter chain as it appears in /Filter
// (decoding order) with its optional predictor parameters.
type FilterSpec struct {
	Name      string // FlateDecode, Fl, ASCIIHexDecode, AHx, ASCII85Decode, A85
	Predictor int    // 0/1 none, 2 TIFF, 10..15 PNG (Flate only)
	Columns   int
	Colors    int
}

func (f FilterSpec) Kind() string {
	switch f.Name {
	case "FlateDecode", "Fl":
		return "flate"
	case "ASCIIHexDecode", "AHx":
		return "hex"
	case "ASCII85Decode", "A85":
		return "a85"
	}
	return "?"
}

// TIFFPredict applies TIFF predictor 2 (horizontal differencing, 8 bits per component).
func TIFFPredict(data []byte, columns, colors int) []byte {
	rowBytes := columns * colors
	out := make([]byte, len(data))
	for r := 0; r*rowBytes < len(data); r++ {
		for i := 0; i < rowBytes && r*rowBytes+i < len(data); i++ {
			k := r*rowBytes + i
			if i >= colors {
				out[k] = data[k] - data[k-colors]
			} else {
				out[k] = data[k]
			}
		}
	}
	return out
}

// EncodeChain encodes data so that decoding with chain (in /Filter order)
// yields data again. pad reports how many bytes of padding (spaces) were
// appended to fill the last predictor row.
func EncodeChain(data []byte, chain []FilterSpec, variant int) []byte {
	return EncodeChainTrace(data, chain, variant, nil)
}

// EncodeChainTrace is EncodeChain that also reports every zlib stream it produces to tr.
func EncodeChainTrace(data []byte, chain []FilterSpec, variant int, tr *Trace) []byte {
	for i := len(chain) - 1; i >= 0; i-- {
		f := chain[i]
		switch f.Kind() {
		case "flate":
			if f.Predictor >= 10 {
				rowBytes := f.Columns * max(f.Colors, 1)
				data = PNGPredict(data, rowBytes, max(f.Colors, 1), func(row int) int {
					if f.Predictor == 15 {
						return (row + variant) % 5
					}
					return f.Predictor - 10
				})
			} else if f.Predictor == 2 {
				data = TIFFPredict(data, f.Columns, max(f.Colors, 1))
			}
			plain := data
			data = Deflate(data)
			tr.deflated(data, plain)
		case "hex":
			data = HexEncode(data, []int{0, 64, 7}[variant%3], variant%2 == 0)
		case "a85":
			data = A85Encode(data, []int{0, 75, 5}[variant%3], variant%2 == 0)
		}
	}
	return data
}

// FilterDict renders the /Filter and /DecodeParms entries for a chain.
// parmsShape: 0 = natural (dict for single filter / array), 1 = always array with nulls.
func FilterDict(chain []FilterSpec, parmsShape int) string {
	if len(chain) == 0 {
		return ""
	}
	var names, parms []string
	any := false
	for _, f := range chain {
		names = append(names, "/"+f.Name)
		if f.Kind() == "flate" && f.Predictor > 1 {
			any = true
			p := fmt.Sprintf("<< /Predictor %d /Columns %d", f.Predictor, f.Columns)
			if f.Colors > 1 {
				p += fmt.Sprintf(" /Colors %d", f.Colors)
			}
			parms = append(parms, p+" >>")
		} else {
			parms = append(parms, "null")
		}
	}
	var s string
	if len(chain) == 1 && parmsShape == 0 {
		s = "/Filter " + names[0]
		if any {
			s += " /DecodeParms " + parms[0]
		}
		return s
	}
	s = "/Filter [" + strings.Join(names, " ") + "]"
	if any || parmsShape == 1 {
		s += " /DecodeParms [" + strings.Join(parms, " ") + "]"
	}
	return s
}
