package c05

// The resource bounds of filters.CCITTFaxDecode (internal/filters/ccittfax.go), reached from
// both sides:
//
//   fix 6dc2783  the decoded image may have at most maxCCITTOutput = 64 MiB; the comparison is
//                len(out) > maxCCITTOutput after io.ReadAll(io.LimitReader(reader, max+1)); beyond it
//                the answer is an error (nothing truncated);
//   fix 0d4fd26  Columns < 1 and Rows < 0 (after getIntParam) are errors, tested before the
//                library's reader is made.
//
// Images are Group 4 (ITU-T T.6) written by the harness: all white (one V(0) code, a single 1 bit,
// per row) or white with a black vertical stripe. The geometries are factorisations of
// 2^26-1 = 3*2731*8191, 2^26 and 2^26+1 = 5*53*157*1613 into bytes-per-row x rows, so that the
// decoded image has exactly bound-1, bound and bound+1 bytes; "one row beyond" and images of
// 1..4 GiB (which the library alone would take most of a minute to produce) lie further out.
//
//   c05.sdcz <dict> <data> <inflate table> <ccitt table>     reply: okz <length> <fnv> | err
//
// The ccitt table carries the library's answer run-length coded. For the far-beyond images it
// carries the first maxCCITTOutput+1 bytes of that answer only (read through the harness's own
// io.LimitReader): theorem ccitt_reads_prefix_only says the model looks at nothing else.

import (
	"bytes"
	"fmt"
	"io"
	"runtime"
	"strconv"
	"strings"
	"time"

	"golang.org/x/image/ccitt"

	"github.com/tsawler/tabula/core"

	"verifharness/hx"
)

// ccittMax is the documented bound (commit message and comment of fix 6dc2783: "The decoded image
// may now be at most 64 MiB").
const ccittMax = 64 << 20

type ccittGeo struct {
	rowBytes, rows int
}

var (
	geoBelow = []ccittGeo{{8191, 8193}, {8193, 8191}, {2731, 24573}, {24573, 2731}}                    // 2^26-1
	geoAt    = []ccittGeo{{1 << 10, 1 << 16}, {1 << 11, 1 << 15}, {1 << 12, 1 << 14}, {1 << 13, 1 << 13}, // 2^26
		{1 << 14, 1 << 12}, {1 << 15, 1 << 11}, {1 << 16, 1 << 10}, {1 << 17, 1 << 9}}
	geoAbove = []ccittGeo{{8065, 8321}, {8321, 8065}, {1613, 41605}, {41605, 1613}} // 2^26+1
	geoFar   = []ccittGeo{{1 << 17, 1 << 14}, {1 << 16, 1 << 16}, {1 << 17, 1 << 13}, {1 << 15, 1 << 16}}
)

// fnvz is the digest of the c05.sdcz replies.
func fnvz(b []byte) uint32 {
	h := uint64(2166136261)
	for _, x := range b {
		h = (h*16777619 + uint64(x) + 1) % 4294967296
	}
	return uint32(h)
}

func replyZ(out []byte, ok bool, pan string) string {
	if pan != "" {
		return "panic"
	}
	if !ok {
		return "err"
	}
	return fmt.Sprintf("okz %d %d", len(out), fnvz(out))
}

// rle writes bytes as R<hexbyte>x<count>.<hexbyte>x<count>.…
func rle(b []byte) string {
	var sb strings.Builder
	sb.WriteByte('R')
	const hexd = "0123456789abcdef"
	for i := 0; i < len(b); {
		j := i
		for j < len(b) && b[j] == b[i] {
			j++
		}
		if i > 0 {
			sb.WriteByte('.')
		}
		sb.WriteByte(hexd[b[i]>>4])
		sb.WriteByte(hexd[b[i]&15])
		sb.WriteByte('x')
		sb.WriteString(strconv.Itoa(j - i))
		i = j
	}
	return sb.String()
}

// g4White: `rows` all-white lines (each the single bit 1: V(0) against an all-white line), EOFB or
// zero padding. Equal to g4Stripe(columns, rows, 0, 0, eofb), without the per-bit loop.
func g4White(rows int, eofb bool) []byte {
	b := bytes.Repeat([]byte{0xFF}, rows/8)
	bb := bitBuf{b: b, n: 8 * (rows / 8)}
	for i := 0; i < rows%8; i++ {
		bb.put("1")
	}
	if eofb {
		bb.put("000000000001000000000001")
	}
	return bb.b
}

// ccittLibLimited asks the library (Group 4) directly, reading at most `limit` bytes of its answer
// (limit < 0: all of it).
func ccittLibLimited(inv bool, columns, rows int, data []byte, limit int64) (out []byte, ok bool) {
	hx.Safe(func() {
		var rd io.Reader = ccitt.NewReader(bytes.NewReader(data), ccitt.MSB, ccitt.Group4, columns, rows, &ccitt.Options{Invert: inv})
		if limit >= 0 {
			rd = io.LimitReader(rd, limit)
		}
		b, err := io.ReadAll(rd)
		out, ok = b, err == nil
	})
	return
}

type ccittBoundCase struct {
	Key        string `json:"key"`
	CcittBound bool   `json:"ccittbound"`
	Dict       string `json:"dict"`
	Data       string `json:"data"`
	Want       string `json:"want"`
	Note       string `json:"note,omitempty"`
}

// one image around maxCCITTOutput. class: below | at | above | row-beyond | far | rows-cap.
func ccittBoundOne(c *hx.Ctx, r *hx.Rng, class string, g ccittGeo, model, giveRows bool) {
	pad := 0
	if r.Chance(1, 3) {
		pad = r.Intn(8) // the last byte of a row partly used
	}
	columns := g.rowBytes*8 - pad
	dataRows := g.rows
	if class == "rows-cap" {
		dataRows = 2*g.rows + r.Intn(100) // the data stands for more rows than /Rows admits
	}
	stripe := g.rows <= 1<<14 && class != "far" && r.Bool()
	eofb := r.Chance(2, 3)
	giveRows = giveRows || class == "rows-cap"
	if !giveRows {
		eofb = true // height to be detected: the image ends at the EOFB
	}
	var data []byte
	a, w := 0, 0
	if stripe {
		a, w = r.Intn(8), r.Range(1, 7)
		data = g4Stripe(columns, dataRows, a, w, eofb)
	} else {
		data = g4White(dataRows, eofb)
	}
	blackIs1 := r.Bool()
	dc := deco{RealInts: r.Chance(1, 3), Fraction: r.Chance(1, 6)}
	kvs := []kv{{"K", number(r, hx.Pick(r, []int64{-1, -1, -2, -7}), dc)}, {"Columns", number(r, int64(columns), dc)}}
	if giveRows {
		kvs = append(kvs, kv{"Rows", number(r, int64(g.rows), dc)})
	}
	if blackIs1 {
		kvs = append(kvs, kv{"BlackIs1", wBool(true)})
	} else if r.Bool() {
		kvs = append(kvs, kv{"BlackIs1", hx.Pick(r, []wo{wBool(false), wInt(1), wNull()})})
	}
	hx.Shuffle(r, kvs)
	name := hx.Pick(r, []string{"CCITTFaxDecode", "CCF"})
	var d wo
	if r.Chance(1, 3) {
		d = wDict(kv{"Filter", wArr(wName(name))}, kv{"DecodeParms", wArr(wDict(kvs...))})
	} else {
		d = wDict(kv{"DecodeParms", wDict(kvs...)}, kv{"Filter", wName(name)}, kv{"Length", wInt(int64(len(data)))})
	}
	size := int64(g.rowBytes) * int64(g.rows)
	within := size <= ccittMax
	want := "err"
	if within {
		want = fmt.Sprintf("oklen %d", size)
	}
	kase := ccittBoundCase{Key: "C05/ccitt-bound", CcittBound: true, Dict: d.w, Data: hx.Hex(data), Want: want,
		Note: fmt.Sprintf("%s: %d bytes per row x %d rows = %d bytes (bound %d)", class, g.rowBytes, g.rows, size, ccittMax)}

	var out []byte
	var ok bool
	var pan string
	t0 := time.Now()
	c.Guard("C05/ccitt-bound", kase, 60, func() { out, ok, pan = decodeDict(d.o.(core.Dict), data) })
	took := time.Since(t0)
	c.Check("C05/panic-decode", pan == "", kase, func() string { return "Decode panicked: " + pan })
	reply := replyZ(out, ok, pan)

	// statement-level expectations: within the bound the image the data stands for, whole and
	// unchanged; beyond it a refusal (no bytes), not a crash, in time proportional to the bound
	rowsArg := -1
	if giveRows {
		rowsArg = g.rows
	}
	if within {
		c.Check("C05/ccitt-bound-within-refused", ok, kase, func() string {
			return fmt.Sprintf("an image of %d bytes (<= %d) was not decoded: %s", size, ccittMax, reply)
		})
		if ok {
			c.Check("C05/ccitt-bound-within-size", int64(len(out)) == size, kase, func() string {
				return fmt.Sprintf("decoded %d bytes, the geometry says %d", len(out), size)
			})
			if !stripe && pad == 0 && int64(len(out)) == size {
				wantByte := byte(0xFF) // PDF: BlackIs1 false = white is 1
				if blackIs1 {
					wantByte = 0
				}
				bad := -1
				for i, x := range out {
					if x != wantByte {
						bad = i
						break
					}
				}
				c.Check("C05/ccitt-bound-within-pixels", bad < 0, kase, func() string {
					return fmt.Sprintf("all-white image: byte %d is %02x, want %02x", bad, out[bad], wantByte)
				})
			}
		}
	} else {
		c.Check("C05/ccitt-bound-beyond-not-refused", !ok && len(out) == 0, kase, func() string {
			return fmt.Sprintf("an image of %d bytes (> %d) was handed on: %d bytes, ok=%v", size, ccittMax, len(out), ok)
		})
		c.Check("C05/ccitt-bound-beyond-slow", took < 30*time.Second, kase, func() string {
			return fmt.Sprintf("refusing took %v", took)
		})
	}

	// the library's own answer for the intended arguments
	limit := int64(-1)
	if class == "far" {
		limit = ccittMax + 1
	}
	lib, libOK := ccittLibLimited(blackIs1, columns, rowsArg, data, limit)
	if within && ok {
		c.Check("C05/ccitt-bound-within-differs-from-library", libOK && bytes.Equal(lib, out), kase, func() string {
			return fmt.Sprintf("Decode: %s, x/image/ccitt: %s", reply, replyZ(lib, libOK, ""))
		})
	}
	if model {
		o := "!"
		if libOK {
			o = rle(lib)
		}
		iv := "0"
		if blackIs1 {
			iv = "1"
		}
		ents := []string{fmt.Sprintf("4%s:%d:%d:%s>%s", iv, columns, rowsArg, hx.Hex(data), o)}
		// decoys: what the library says for the neighbouring argument combinations a wrong
		// wrapper would ask for (cheap ones: Group 3 fails at once on this data)
		for _, alt := range []struct {
			g4   bool
			inv  bool
			cols int
			rows int
		}{{false, blackIs1, columns, rowsArg}, {false, !blackIs1, columns, rowsArg}} {
			ao, aok, _ := ccittLib(alt.g4, alt.inv, alt.cols, alt.rows, data)
			s := "!"
			if aok && len(ao) <= 1<<16 {
				s = hx.Hex(ao)
			} else if aok {
				s = rle(ao)
			}
			aiv := "0"
			if alt.inv {
				aiv = "1"
			}
			ents = append(ents, fmt.Sprintf("3%s:%d:%d:%s>%s", aiv, alt.cols, alt.rows, hx.Hex(data), s))
		}
		c.Op("c05.sdcz "+d.w+" "+hx.Hex(data)+" _ "+strings.Join(ents, ";"), reply)
		c.Count("ccitt-bound:model-op:" + class)
	}
	c.Count(fmt.Sprintf("ccitt-bound:%s:ok=%v", class, ok))
	if giveRows {
		c.Count("ccitt-bound:rows=given")
	} else {
		c.Count("ccitt-bound:rows=detect")
	}
	c.Case(fmt.Sprintf("ccittbound|%s|%d|%d", d.w, len(data), fnvz(data)), ok && len(out) > 0)
	out, lib = nil, nil
	runtime.GC()
}

// ccittBoundCases: the 64 MiB bound from both sides. Quick tier: one image each of bound-1, bound,
// bound+1 and far beyond on the implementation (oracles), bound and bound+1 also through the Lean
// model (a 64 MiB list costs the driver ~10 s). Thorough tier: every class several times, all
// through the model.
func ccittBoundCases(c *hx.Ctx) {
	r0 := c.Rng.Fork(0xCC1B0)
	type plan struct {
		class string
		geos  []ccittGeo
		model bool
	}
	// quick: only the image just above the bound goes through the model as well (one 64 MiB
	// list costs the driver ~8 s and 2 GB); thorough: all of them
	plans := []plan{{"below", geoBelow, false}, {"at", geoAt, false}, {"above", geoAbove, true}, {"far", geoFar, false}}
	if c.Thorough() {
		plans = []plan{{"below", geoBelow, true}, {"at", geoAt, true}, {"above", geoAbove, true}, {"far", geoFar, true},
			{"row-beyond", geoAt, true}, {"rows-cap", geoAt, true}, {"at", geoAt, true}, {"above", geoAbove, true},
			{"below", geoBelow, true}, {"far", geoFar, true}}
	}
	base := r0.Intn(2)
	for i, p := range plans {
		r := r0.Fork(uint64(i))
		g := hx.Pick(r, p.geos)
		if p.class == "row-beyond" {
			g.rows++
		}
		ccittBoundOne(c, r, p.class, g, p.model, (i+base)%2 == 0) // height given and detected alternate
	}
}

// ccittGeometryEdges: fix 0d4fd26 from both sides — Columns around 1 and Rows around 0, as Int and
// as Real (getIntParam truncates toward zero: 0.5 is 0, 1.5 is 1, -0.5 is 0, -1.5 is -1), and far
// out (-2^31-1, -2^62). Expected from the fix's own words: "Columns must be a positive integer and
// Rows non-negative; anything else is now an error"; otherwise what the library says.
func ccittGeometryEdges(c *hx.Ctx) {
	r0 := c.Rng.Fork(0xCC1ED)
	type val struct {
		w   wo
		eff int64 // value after getIntParam
		tag string
	}
	colVals := []val{
		{wInt(-(1 << 62)), -(1 << 62), "-2^62"}, {wInt(-(1 << 31) - 1), -(1 << 31) - 1, "-2^31-1"}, {wInt(-1), -1, "-1"},
		{wInt(0), 0, "0"}, {wInt(1), 1, "1"}, {wInt(2), 2, "2"}, {wInt(8), 8, "8"},
		{wReal(1, 1), 0, "0.5"}, {wReal(15, 4), 0, "0.9375"}, {wReal(3, 1), 1, "1.5"}, {wReal(-1, 1), 0, "-0.5"},
		{wReal(-3, 1), -1, "-1.5"}, {wReal(17, 1), 8, "8.5"},
	}
	rowVals := []val{
		{wInt(-(1 << 62)), -(1 << 62), "-2^62"}, {wInt(-(1 << 31) - 1), -(1 << 31) - 1, "-2^31-1"}, {wInt(-2), -2, "-2"},
		{wInt(-1), -1, "-1"}, {wInt(0), 0, "0"}, {wInt(1), 1, "1"}, {wInt(2), 2, "2"}, {wInt(3), 3, "3"},
		{wReal(-1, 1), 0, "-0.5"}, {wReal(-3, 1), -1, "-1.5"}, {wReal(1, 1), 0, "0.5"}, {wReal(5, 1), 2, "2.5"},
		{wo{}, 0, "absent"},
	}
	idx := 0
	for _, cv := range colVals {
		for _, rv := range rowVals {
			idx++
			r := r0.Fork(uint64(idx))
			imgCols := 8
			if cv.eff >= 1 && cv.eff <= 40 {
				imgCols = int(cv.eff)
			}
			imgRows := 3
			data := g4White(imgRows, r.Bool())
			if r.Chance(1, 6) {
				data = r.Bytes(r.Range(0, 6))
			}
			kvs := []kv{{"K", wInt(-1)}, {"Columns", cv.w}}
			if rv.tag != "absent" {
				kvs = append(kvs, kv{"Rows", rv.w})
			}
			if r.Bool() {
				kvs = append(kvs, kv{"BlackIs1", wBool(r.Bool())})
			}
			hx.Shuffle(r, kvs)
			d := wDict(kv{"Filter", wName(hx.Pick(r, []string{"CCITTFaxDecode", "CCF"}))}, kv{"DecodeParms", wDict(kvs...)})
			refused := cv.eff < 1 || rv.eff < 0
			want := ""
			if refused {
				want = "err"
			}
			kase := ccittCase{Key: "C05/ccitt-geometry-edge", Dict: d.w, Data: hx.Hex(data), Want: want,
				Note: fmt.Sprintf("Columns %s (read as %d), Rows %s (read as %d)", cv.tag, cv.eff, rv.tag, rv.eff)}
			var out []byte
			var ok bool
			var pan string
			c.Guard("C05/ccitt-geometry-edge", kase, 10, func() { out, ok, pan = decodeDict(d.o.(core.Dict), data) })
			c.Check("C05/panic-decode", pan == "", kase, func() string { return "Decode panicked: " + pan })
			reply := replyOf(out, ok, pan)
			// the library's answers for the arguments in question and their neighbours
			var ents []string
			hung := false
			colsTry := []int{imgCols, imgCols + 1, 1728}
			rowsTry := []int{-1, 1, 2, 3}
			for _, g4 := range []bool{true, false} {
				for _, inv := range []bool{false, true} {
					for _, cols := range colsTry {
						for _, rws := range rowsTry {
							lo, lok, h := ccittLib(g4, inv, cols, rws, data)
							hung = hung || h
							o := "!"
							if lok {
								o = hx.Hex(lo)
							}
							g, iv := "3", "0"
							if g4 {
								g = "4"
							}
							if inv {
								iv = "1"
							}
							ents = append(ents, fmt.Sprintf("%s%s:%d:%d:%s>%s", g, iv, cols, rws, hx.Hex(data), o))
						}
					}
				}
			}
			if hung {
				c.Count("ccitt-edge:library-hung-skipped")
				continue
			}
			c.Op("c05.sdc "+d.w+" "+hx.Hex(data)+" _ "+strings.Join(ents, ";"), reply)
			if refused {
				c.Check("C05/undecodable-ccitt-geometry", !ok, kase, func() string {
					return fmt.Sprintf("CCITTFaxDecode with Columns %s, Rows %s decoded without error: %s", cv.tag, rv.tag, clip(reply))
				})
			} else if cv.eff <= 40 {
				// a valid geometry must not be refused by the wrapper: the answer is the library's
				rowsArg := int(rv.eff)
				if rowsArg == 0 {
					rowsArg = -1
				}
				inv := false
				for _, e := range kvs {
					if b, isB := e.v.o.(core.Bool); isB && e.k == "BlackIs1" {
						inv = bool(b)
					}
				}
				lo, lok, _ := ccittLib(true, inv, int(cv.eff), rowsArg, data)
				c.Check("C05/ccitt-geometry-edge-valid-differs-from-library", ok == lok && (!ok || bytes.Equal(lo, out)), kase, func() string {
					return fmt.Sprintf("Decode: %s, x/image/ccitt: %s", clip(reply), clip(replyOf(lo, lok, "")))
				})
			}
			side := "valid"
			if refused {
				side = "refused"
			}
			c.Count(fmt.Sprintf("ccitt-edge:%s:ok=%v", side, ok))
			c.Count("ccitt-edge:Columns=" + cv.tag)
			c.Count("ccitt-edge:Rows=" + rv.tag)
			c.Case(fmt.Sprintf("ccittedge|%s|%x", d.w, data), ok && len(out) > 0)
		}
	}
}

// replayCcittBound re-runs a recorded case of ccittBoundOne.
func replayCcittBound(c *hx.Ctx, kase map[string]interface{}) bool {
	if b, _ := kase["ccittbound"].(bool); !b {
		return false
	}
	d, err := parseDictWire(fmt.Sprint(kase["dict"]))
	data, err2 := unhex(fmt.Sprint(kase["data"]))
	if err != nil || err2 != nil {
		fmt.Println("replay: cannot parse case", err, err2)
		return true
	}
	want := fmt.Sprint(kase["want"])
	t0 := time.Now()
	out, ok, pan := decodeDict(d.o.(core.Dict), data)
	fmt.Printf("replay: dict=%s data=%d bytes (%v)\n  expected: %s\n  actual:   %s in %v\n", clip(d.w), len(data), kase["note"], want, replyZ(out, ok, pan), time.Since(t0))
	c.Check("C05/panic-decode", pan == "", kase, func() string { return "Decode panicked: " + pan })
	if strings.HasPrefix(want, "oklen ") {
		n, _ := strconv.Atoi(want[6:])
		c.Check("C05/ccitt-bound-within-refused", ok, kase, func() string { return "not decoded" })
		c.Check("C05/ccitt-bound-within-size", !ok || len(out) == n, kase, func() string {
			return fmt.Sprintf("decoded %d bytes, the geometry says %d", len(out), n)
		})
	} else {
		c.Check("C05/ccitt-bound-beyond-not-refused", !ok && len(out) == 0, kase, func() string {
			return fmt.Sprintf("handed on %d bytes, ok=%v", len(out), ok)
		})
	}
	return true
}
