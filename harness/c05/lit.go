package c05

// Correspondence for the loop-level / buffer-level models and for histories with shared buffers.
//
//   c05.lit.hex <data>, c05.lit.a85 <data>   the index loops of ASCIIHexDecode / ASCII85Decode
//                                             (Model/FiltersLit.lean)
//   c05.flat <P> <inflated>                   FlateDecode's predictors on flat buffers
//                                             (Model/PredictFlat.lean)
//   c05.lit.sd <dict> <data> <table>          Decode() over those (Model/StreamLit.lean)
//   c05.heap <ops> <table> <dict1> <data1> …  a history of Decode() / Decoded() calls and of writes
//                                             by the caller into the slices it was given
//                                             (Model/StreamHeap.lean). Only bytes are compared. Whether
//                                             a result shares its array with Stream.Data (no Filter,
//                                             DCT/JPX, Decoded()) is modelled from the code as it is but
//                                             not demanded by the property: the generated histories
//                                             write only through results of streams with a decoding
//                                             filter, and the aliasing itself is observed and counted
//                                             (heap:alias-as-modelled), never enforced
//
// The loop-level models index lists (quadratic in the driver), so they get the inputs up to
// litLimit bytes: every exhaustive / raw-alphabet / undecodable / byte-class case and the short
// pipelines. Props/C05Lit.lean proves them equal to the models the other ops run, for all inputs.

import (
	"bytes"
	"fmt"
	"strconv"
	"strings"

	"github.com/tsawler/tabula/core"

	"verifharness/hx"
)

const litLimit = 1200

// litASCII: the same raw data and the same reply as c05.hex / c05.a85, for the loop-level model.
func litASCII(c *hx.Ctx, kind string, data []byte, reply string) {
	if len(data) > litLimit {
		c.Count("lit:skipped-large")
		return
	}
	c.Op("c05.lit."+kind+" "+hx.Hex(data), reply)
	c.Count("lit:" + kind)
}

// litPred: the inflated data of a single Flate stage with one parameter dictionary.
var flatSeen int

func litPred(c *hx.Ctx, p string, inf []byte, reply string) {
	if len(inf) > litLimit {
		c.Count("lit:skipped-large")
		return
	}
	// the exhaustive predictor grid is large: the quick tier sends every other case
	flatSeen++
	if flatSeen%c.N(2, 1) != 0 {
		return
	}
	c.Op("c05.flat "+p+" "+hx.Hex(inf), reply)
	c.Count("lit:flat")
}

// litDict: a whole Decode() through the loop-level functions.
func litDict(c *hx.Ctx, dw string, data []byte, table, reply string) {
	if len(data) > litLimit || len(table) > 6*litLimit || strings.Contains(dw, hx.HexS("CCITTFaxDecode")) || strings.Contains(dw, hx.HexS("CCF")) {
		c.Count("lit:skipped-large")
		return
	}
	c.Op("c05.lit.sd "+dw+" "+hx.Hex(data)+" "+table, reply)
	c.Count("lit:sd")
}

// ---- histories with shared buffers ----------------------------------------------------------

type heapStream struct {
	d       wo
	data    []byte
	known   [][]byte
	want    []byte // what a conforming filtered stream must decode to
	hasWant bool
	pass    bool // no decoding filter: Decode() hands out s.Data itself
	class   string
}

// heapStreamGen: a conforming pipeline of 1..3 stages (filtered: its results are buffers of their
// own), a damaged one, or a stream whose Decode() is the identity (no Filter, an empty Filter
// array, /DCTDecode, /DCT, /JPXDecode alone or in an array).
func heapStreamGen(r *hx.Rng) heapStream {
	switch r.Intn(10) {
	case 0, 1, 2:
		x, _ := content(r, r.Intn(24), 0)
		var d wo
		switch r.Intn(6) {
		case 0:
			d = wDict(kv{"Length", wInt(int64(len(x)))})
		case 1:
			d = wDict(kv{"Filter", wArr()})
		case 2:
			d = wDict(kv{"Filter", wName("DCTDecode")})
		case 3:
			d = wDict(kv{"Filter", wName("JPXDecode")}, kv{"DecodeParms", wNull()})
		case 4:
			d = wDict(kv{"Filter", wArr(wName("DCT"), wName("JPXDecode"))})
		default:
			d = wDict(kv{"Filter", wArr(wName("DCT"))}, kv{"DecodeParms", wArr(wDict(kv{"Predictor", wInt(12)}))})
		}
		return heapStream{d: d, data: x, want: x, hasWant: true, pass: true, class: "pass-through"}
	case 3:
		// a pass-through name in front of or behind a decoding filter: still a buffer of its own
		x, _ := content(r, r.Intn(16), 0)
		data := hexEncode(r, x, asciiStyle{})
		d := wDict(kv{"Filter", wArr(wName("DCT"), wName("AHx"))})
		if r.Bool() {
			d = wDict(kv{"Filter", wArr(wName("ASCIIHexDecode"), wName("JPXDecode"))})
		}
		return heapStream{d: d, data: data, want: x, hasWant: true, class: "filtered+pass-through"}
	}
	nst := r.Range(1, 3)
	stages := make([]stage, nst)
	for i := range stages {
		stages[i] = randomStage(r)
	}
	n := r.Intn(25)
	last := &stages[nst-1]
	if last.Kind == "fl" && last.Pred >= 2 {
		last.Colors, last.Columns = r.Range(1, 3), r.Range(1, 4)
		rows := r.Range(0, 3)
		n = rows * last.Colors * last.Columns
		if last.Pred >= 10 {
			last.Tags = randomTags(r, last.Pred, rows)
		}
	}
	x, _ := content(r, n, 0)
	data, flIn := buildChain(r, stages, x)
	f, p, _ := shapes(r, stages)
	hs := heapStream{d: dictWo(r, f, p, conformingDeco(r)), data: data, known: flIn, want: x, hasWant: true, class: "filtered"}
	if r.Chance(1, 6) && len(data) > 0 {
		hs.data = append([]byte(nil), data...)
		hs.data[r.Intn(len(hs.data))] ^= 0x41
		hs.hasWant = false
		hs.class = "damaged"
	}
	return hs
}

type heapCase struct {
	Key     string   `json:"key"`
	Heap    []string `json:"heap"` // dict, data, dict, data, …
	Ops     string   `json:"ops"`
	Note    string   `json:"note,omitempty"`
	Classes []string `json:"classes,omitempty"`
	Wants   []string `json:"wants,omitempty"`
}

type heapOp struct {
	kind    byte // 'd' Decode, 'D' Decoded, 'w' write
	a, k, v int
}

func (o heapOp) wire() string {
	if o.kind == 'w' {
		return fmt.Sprintf("w%d:%d:%d", o.a, o.k, o.v)
	}
	return string(o.kind) + strconv.Itoa(o.a)
}

func parseHeapOps(s string) []heapOp {
	var ops []heapOp
	for _, f := range strings.Split(s, ",") {
		if f == "" {
			continue
		}
		if f[0] == 'w' {
			ps := strings.Split(f[1:], ":")
			if len(ps) != 3 {
				continue
			}
			a, _ := strconv.Atoi(ps[0])
			k, _ := strconv.Atoi(ps[1])
			v, _ := strconv.Atoi(ps[2])
			ops = append(ops, heapOp{'w', a, k, v})
			continue
		}
		a, _ := strconv.Atoi(f[1:])
		ops = append(ops, heapOp{f[0], a, 0, 0})
	}
	return ops
}

func sameBacking(a, b []byte) bool { return len(a) > 0 && len(b) > 0 && &a[0] == &b[0] }

// runHeap performs the operations on real *core.Stream values, records the c05.heap op and
// checks, from the statement alone: a Decode() call changes no Data and no slice handed out
// before; a stream with a decoding filter never hands out its Data, keeps it whatever the caller
// writes into results, and — when conforming — decodes to its original every time.
func runHeap(c *hx.Ctx, hs []heapStream, ops []heapOp, note string) bool {
	kase := heapCase{Key: "C05/heap", Note: note}
	var wires []string
	streams := make([]*core.Stream, len(hs))
	decodedCalled := make([]bool, len(hs))
	for i, s := range hs {
		wires = append(wires, s.d.w, hx.Hex(s.data))
		streams[i] = &core.Stream{Dict: s.d.o.(core.Dict), Data: append([]byte(nil), s.data...)}
		kase.Classes = append(kase.Classes, s.class)
		if s.hasWant {
			kase.Wants = append(kase.Wants, hx.Hex(s.want))
		} else {
			kase.Wants = append(kase.Wants, "?")
		}
	}
	kase.Heap = wires
	ow := make([]string, len(ops))
	for i, o := range ops {
		ow[i] = o.wire()
	}
	kase.Ops = strings.Join(ow, ",")
	var table []string
	seenT := map[string]bool{}
	var results [][]byte
	var resOK []bool
	var entries []string
	allOK := true
	snapshot := func() ([][]byte, [][]byte) {
		ds := make([][]byte, len(streams))
		for i, s := range streams {
			ds[i] = append([]byte(nil), s.Data...)
		}
		rs := make([][]byte, len(results))
		for i, r := range results {
			rs[i] = append([]byte(nil), r...)
		}
		return ds, rs
	}
	for _, o := range ops {
		switch o.kind {
		case 'w':
			if o.a < len(results) && resOK[o.a] && o.k < len(results[o.a]) {
				results[o.a][o.k] = byte(o.v)
			}
			entries = append(entries, "w")
		case 'd', 'D':
			if o.a >= len(streams) {
				results = append(results, nil)
				resOK = append(resOK, false)
				entries = append(entries, "err")
				continue
			}
			s := streams[o.a]
			if o.kind == 'd' {
				for _, t := range strings.Split(inflateTableDict(s.Dict, s.Data, hs[o.a].known), ";") {
					if t != "_" && !seenT[t] {
						seenT[t] = true
						table = append(table, t)
					}
				}
			}
			ds, rs := snapshot()
			var out []byte
			var err error
			pan := hx.Safe(func() {
				if o.kind == 'd' {
					out, err = s.Decode()
				} else {
					out, err = s.Decoded()
					decodedCalled[o.a] = true
				}
			})
			c.Check("C05/panic-decode", pan == "", kase, func() string { return "Decode panicked in a history: " + pan })
			ok := pan == "" && err == nil
			// (1) the call wrote nowhere
			for j, st := range streams {
				c.Check("C05/heap-call-changes-data", bytes.Equal(st.Data, ds[j]), kase, func() string {
					return fmt.Sprintf("%s changed the Data of stream %d: %s -> %s", o.wire(), j, clip(hx.Hex(ds[j])), clip(hx.Hex(st.Data)))
				})
			}
			for j, r := range results {
				c.Check("C05/heap-call-changes-earlier-result", bytes.Equal(r, rs[j]), kase, func() string {
					return fmt.Sprintf("%s changed result %d: %s -> %s", o.wire(), j, clip(hx.Hex(rs[j])), clip(hx.Hex(r)))
				})
			}
			results = append(results, out)
			resOK = append(resOK, ok)
			if !ok {
				entries = append(entries, "err")
				allOK = false
				continue
			}
			entries = append(entries, "ok "+hx.Hex(out))
			if len(out) > 0 {
				// observation only: does the slice share its array with Data where the model says so
				modelled := o.kind == 'D' || hs[o.a].pass
				c.Count(fmt.Sprintf("heap:alias-as-modelled=%v", sameBacking(out, s.Data) == modelled))
			}
		}
		// (3) a filtered stream on which Decoded() was not called keeps its Data, and — when
		// conforming — decodes to its original at this point of the history
		for j, st := range streams {
			if hs[j].pass || decodedCalled[j] {
				continue
			}
			c.Check("C05/heap-write-reaches-filtered-stream", bytes.Equal(st.Data, hs[j].data), kase, func() string {
				return fmt.Sprintf("after %s the Data of filtered stream %d is %s, was %s", o.wire(), j, clip(hx.Hex(st.Data)), clip(hx.Hex(hs[j].data)))
			})
		}
		if o.kind == 'd' && o.a < len(streams) && hs[o.a].hasWant && !hs[o.a].pass && !decodedCalled[o.a] {
			last := results[len(results)-1]
			c.Check("C05/heap-roundtrip-in-history", resOK[len(resOK)-1] && bytes.Equal(last, hs[o.a].want), kase, func() string {
				return fmt.Sprintf("stream %d decoded to %s at this point of the history, want %s", o.a, clip(entries[len(entries)-1]), clip(hx.Hex(hs[o.a].want)))
			})
		}
	}
	sd := make([]string, len(streams))
	for i, s := range streams {
		sd[i] = hx.Hex(s.Data)
	}
	rd := make([]string, len(results))
	for i, r := range results {
		if resOK[i] {
			rd[i] = hx.Hex(r)
		} else {
			rd[i] = "!"
		}
	}
	tab := "_"
	if len(table) > 0 {
		tab = strings.Join(table, ";")
	}
	c.Op("c05.heap "+kase.Ops+" "+tab+" "+strings.Join(wires, " "),
		strings.Join(entries, "|")+"#"+strings.Join(sd, ",")+"#"+strings.Join(rd, ","))
	return allOK
}

func heapHistories(c *hx.Ctx) {
	r0 := c.Rng.Fork(0x4EA9)
	for i := 0; i < c.N(700, 5000); i++ {
		r := r0.Fork(uint64(i))
		hs := make([]heapStream, r.Range(1, 3))
		for j := range hs {
			hs[j] = heapStreamGen(r)
		}
		nops := r.Range(2, 9)
		var ops []heapOp
		var writable []int // results of Decode() on streams with a decoding filter
		nres := 0
		for len(ops) < nops {
			switch {
			case len(writable) > 0 && r.Chance(2, 5):
				ops = append(ops, heapOp{'w', hx.Pick(r, writable), r.Intn(6), r.Intn(256)})
			case r.Chance(1, 7):
				ops = append(ops, heapOp{'D', r.Intn(len(hs) + 1), 0, 0})
				nres++
			default:
				o := heapOp{'d', r.Intn(len(hs)), 0, 0}
				if r.Chance(1, 40) {
					o.a = len(hs) + r.Intn(2)
				}
				if o.a < len(hs) && !hs[o.a].pass {
					writable = append(writable, nres)
				}
				ops = append(ops, o)
				nres++
			}
		}
		ok := runHeap(c, hs, ops, fmt.Sprintf("seed=%d heap=%d", c.Seed, i))
		for _, s := range hs {
			c.Count("heap:stream=" + s.class)
		}
		nw := 0
		for _, o := range ops {
			if o.kind == 'w' {
				nw++
			}
		}
		c.Count(fmt.Sprintf("heap:writes=%d", min(nw, 3)))
		c.Case(fmt.Sprintf("heap|%d|%d", c.Seed, i), ok)
	}
	// the witnesses of the model (Props/C05Alias.lean). The two that do not depend on aliasing go
	// through the correspondence; the one that does (a stream without Filter hands out its Data) is
	// observed on the implementation and counted only
	hexs := heapStream{d: wDict(kv{"Filter", wName("AHx")}), data: []byte("41>"), want: []byte{0x41}, hasWant: true, class: "filtered"}
	runHeap(c, []heapStream{hexs}, []heapOp{{'D', 0, 0, 0}, {'d', 0, 0, 0}}, "Decoded() returns the raw Data")
	runHeap(c, []heapStream{hexs}, []heapOp{{'d', 0, 0, 0}, {'w', 0, 0, 7}, {'d', 0, 0, 0}}, "a filtered stream is out of the caller's reach")
	st := &core.Stream{Dict: core.Dict{}, Data: []byte{1, 2, 3}}
	if out, err := st.Decode(); err == nil && len(out) == 3 {
		out[0] = 7
		again, _ := st.Decode()
		c.Count(fmt.Sprintf("heap:unfiltered-stream-shares-data as-modelled=%v", bytes.Equal(again, []byte{7, 2, 3})))
	}
	c.Count("heap:witnesses")
}

func replayHeap(c *hx.Ctx, kase map[string]interface{}) bool {
	raw, ok := kase["heap"].([]interface{})
	if !ok {
		return false
	}
	var hs []heapStream
	classes, _ := kase["classes"].([]interface{})
	wants, _ := kase["wants"].([]interface{})
	for i := 0; i+1 < len(raw); i += 2 {
		d, err := parseDictWire(fmt.Sprint(raw[i]))
		data, err2 := unhex(fmt.Sprint(raw[i+1]))
		if err != nil || err2 != nil {
			fmt.Println("replay: cannot parse case", err, err2)
			return true
		}
		s := heapStream{d: d, data: data}
		if i/2 < len(classes) {
			s.class = fmt.Sprint(classes[i/2])
			s.pass = s.class == "pass-through"
		}
		if i/2 < len(wants) && fmt.Sprint(wants[i/2]) != "?" {
			if w, err := unhex(fmt.Sprint(wants[i/2])); err == nil {
				s.want, s.hasWant = w, true
			}
		}
		hs = append(hs, s)
	}
	ops := parseHeapOps(fmt.Sprint(kase["ops"]))
	fmt.Printf("replay: history of %d operations on %d streams: %s\n", len(ops), len(hs), kase["ops"])
	runHeap(c, hs, ops, "replay")
	return true
}
