package c05

// Independent conforming encoders, written from the specifications:
//   ASCIIHexDecode   PDF 32000-1:2008 §7.4.2
//   ASCII85Decode    PDF 32000-1:2008 §7.4.3
//   FlateDecode      §7.4.4 (compress/zlib of the Go standard library)
//   PNG predictors   §7.4.4.4 + PNG (ISO/IEC 15948) §9 "Filtering"
//   TIFF predictor 2 TIFF 6.0 §14 "Differencing Predictor"
// Nothing here is derived from tabula's decoders.

import (
	"bytes"
	"compress/zlib"
	"io"

	"verifharness/hx"
)

// white-space characters of PDF (§7.2.2 table 1)
var pdfWS = []byte{0x00, 0x09, 0x0A, 0x0C, 0x0D, 0x20}

// style of an ASCII encoding: how much the encoder uses the freedoms the
// specification gives it.
type asciiStyle struct {
	Upper    int  // hex: 0 lower, 1 upper, 2 mixed per digit
	WS       int  // insert white space with probability WS/16 before every character
	NoZ      bool // a85: write an all-zero group as !!!!! instead of z
	DropZero bool // hex: leave out a final 0 digit (EOD after an odd number of digits)
}

func maybeWS(r *hx.Rng, out *bytes.Buffer, st asciiStyle) {
	for st.WS > 0 && r != nil && r.Intn(16) < st.WS {
		out.WriteByte(pdfWS[r.Intn(len(pdfWS))])
	}
}

// hexEncode: each byte as two hexadecimal digits, then the EOD marker '>'.
func hexEncode(r *hx.Rng, data []byte, st asciiStyle) []byte {
	const lower, upper = "0123456789abcdef", "0123456789ABCDEF"
	var out bytes.Buffer
	digit := func(n byte) {
		maybeWS(r, &out, st)
		tab := lower
		if st.Upper == 1 || (st.Upper == 2 && r != nil && r.Bool()) {
			tab = upper
		}
		out.WriteByte(tab[n])
	}
	for i, b := range data {
		digit(b >> 4)
		if st.DropZero && i == len(data)-1 && b&15 == 0 {
			break
		}
		digit(b & 15)
	}
	maybeWS(r, &out, st)
	out.WriteByte('>')
	return out.Bytes()
}

// a85Encode: 4 bytes -> 5 digits base 85 offset '!', zero group -> 'z', final
// partial group of n bytes -> n+1 digits, then '~>'.
func a85Encode(r *hx.Rng, data []byte, st asciiStyle) []byte {
	var out bytes.Buffer
	emit := func(c byte) {
		maybeWS(r, &out, st)
		out.WriteByte(c)
	}
	for i := 0; i < len(data); i += 4 {
		n := len(data) - i
		if n > 4 {
			n = 4
		}
		var grp [4]byte
		copy(grp[:], data[i:i+n])
		v := uint64(grp[0])<<24 | uint64(grp[1])<<16 | uint64(grp[2])<<8 | uint64(grp[3])
		if n == 4 && v == 0 && !st.NoZ {
			emit('z')
			continue
		}
		var d [5]byte
		for k := 4; k >= 0; k-- {
			d[k] = byte(v%85) + '!'
			v /= 85
		}
		for k := 0; k < n+1; k++ {
			emit(d[k])
		}
	}
	maybeWS(r, &out, st)
	out.WriteString("~>")
	return out.Bytes()
}

// paethSpec is the PaethPredictor function of the PNG specification.
func paethSpec(a, b, c int) int {
	p := a + b - c
	pa, pb, pc := p-a, p-b, p-c
	if pa < 0 {
		pa = -pa
	}
	if pb < 0 {
		pb = -pb
	}
	if pc < 0 {
		pc = -pc
	}
	if pa <= pb && pa <= pc {
		return a
	}
	if pb <= pc {
		return b
	}
	return c
}

// pngPredict filters 8-bit samples row by row; tags[row] is the filter type
// (0 None, 1 Sub, 2 Up, 3 Average, 4 Paeth). len(data) must be
// len(tags)*columns*colors.
func pngPredict(data []byte, colors, columns int, tags []byte) []byte {
	bpp := colors // bytes per complete pixel at 8 bits per component
	n := columns * colors
	out := make([]byte, 0, len(data)+len(tags))
	raw := func(row, x int) int { // Raw(x) of scanline row; 0 left of the scanline and above the image
		if row < 0 || x < 0 {
			return 0
		}
		return int(data[row*n+x])
	}
	for row := range tags {
		out = append(out, tags[row])
		for x := 0; x < n; x++ {
			a, b, c := raw(row, x-bpp), raw(row-1, x), raw(row-1, x-bpp)
			var pred int
			switch tags[row] {
			case 0:
				pred = 0
			case 1:
				pred = a
			case 2:
				pred = b
			case 3:
				pred = (a + b) / 2
			case 4:
				pred = paethSpec(a, b, c)
			}
			out = append(out, byte(raw(row, x)-pred))
		}
	}
	return out
}

// tiffPredict: horizontal differencing of 8-bit samples, per row, per component.
func tiffPredict(data []byte, colors, columns int) []byte {
	n := columns * colors
	out := make([]byte, len(data))
	for start := 0; start+n <= len(data); start += n {
		for x := n - 1; x >= 0; x-- {
			if x >= colors {
				out[start+x] = data[start+x] - data[start+x-colors]
			} else {
				out[start+x] = data[start+x]
			}
		}
	}
	return out
}

// deflate compresses with the standard library at the given level
// (zlib.NoCompression .. zlib.BestCompression, zlib.HuffmanOnly).
func deflate(data []byte, level int) []byte {
	var buf bytes.Buffer
	w := zwriters[level]
	if w == nil {
		var err error
		w, err = zlib.NewWriterLevel(&buf, level)
		if err != nil {
			panic(err)
		}
		zwriters[level] = w
	} else {
		w.Reset(&buf) // the same state as a new writer, without its allocations
	}
	w.Write(data)
	w.Close()
	return buf.Bytes()
}

// one compressor per level, reused (the harness runs on one goroutine)
var zwriters = map[int]*zlib.Writer{}

// inflate is the external-library result supplied to the model: zlib of the
// standard library, error if the stream is corrupt or truncated.
func inflate(data []byte) ([]byte, bool) {
	rd, err := zlib.NewReader(bytes.NewReader(data))
	if err != nil {
		return nil, false
	}
	defer rd.Close()
	out, err := io.ReadAll(rd)
	if err != nil {
		return nil, false
	}
	return out, true
}
