// Package c05 is the correspondence/oracle harness for property C05.
package c05

import "verifharness/hx"

func init() { hx.Register("C05", Run, Replay) }

// Run is not built yet for this property.
func Run(c *hx.Ctx) { c.Note("C05: harness not built") }

func Replay(c *hx.Ctx, kase map[string]interface{}) {}
