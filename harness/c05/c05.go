// Package c05: stream decoding exactly inverts every supported encoding.
//
// Implementation under test: (&core.Stream{Dict, Data}).Decode() — the only entry
// point used; FlateDecode's predictors are reached through /FlateDecode with
// zlib-compressed data, so no verif hook is needed for this property.
package c05

import (
	"bytes"
	"compress/zlib"
	"encoding/hex"
	"fmt"
	"strconv"
	"strings"

	"github.com/tsawler/tabula/core"

	"verifharness/hx"
)

// ---- wire-format specs of the stream dictionary --------------------------------

// pobj is one DecodeParms object: Kind "~" absent, "z" null, "o" other type, "d" dict.
// P = Predictor, Colors, Columns, BitsPerComponent in wire form: "~" absent,
// "12" Int, "12r" Real with integral value, "x" a non-numeric object.
type pobj struct {
	Kind string
	P    [4]string
}

func (o pobj) wire() string {
	if o.Kind == "d" {
		return "d=" + strings.Join(o.P[:], "/")
	}
	return o.Kind
}

var parmKeys = [4]string{"Predictor", "Colors", "Columns", "BitsPerComponent"}

func (o pobj) object() core.Object {
	switch o.Kind {
	case "z":
		return core.Null{}
	case "o":
		return core.Int(7)
	case "d":
		d := core.Dict{}
		for i, f := range o.P {
			switch {
			case f == "~":
			case f == "x":
				d[parmKeys[i]] = core.Name("x")
			case strings.HasSuffix(f, "r"):
				n, _ := strconv.ParseInt(strings.TrimSuffix(f, "r"), 10, 64)
				d[parmKeys[i]] = core.Real(float64(n))
			default:
				n, _ := strconv.ParseInt(f, 10, 64)
				d[parmKeys[i]] = core.Int(n)
			}
		}
		return d
	}
	return nil
}

func parsePobj(s string) (pobj, error) {
	if s == "~" || s == "z" || s == "o" {
		return pobj{Kind: s}, nil
	}
	if strings.HasPrefix(s, "d=") {
		f := strings.Split(s[2:], "/")
		if len(f) == 4 {
			return pobj{Kind: "d", P: [4]string{f[0], f[1], f[2], f[3]}}, nil
		}
	}
	return pobj{}, fmt.Errorf("bad parms object %q", s)
}

type parms struct {
	Array bool
	One   pobj
	Elems []pobj
}

func (p parms) wire() string {
	if !p.Array {
		return p.One.wire()
	}
	ws := make([]string, len(p.Elems))
	for i, e := range p.Elems {
		ws[i] = e.wire()
	}
	return "a:" + strings.Join(ws, ",")
}

func (p parms) object() core.Object {
	if !p.Array {
		return p.One.object()
	}
	arr := core.Array{}
	for _, e := range p.Elems {
		o := e.object()
		if o == nil {
			o = core.Null{}
		}
		arr = append(arr, o)
	}
	return arr
}

func parseParms(s string) (parms, error) {
	if strings.HasPrefix(s, "a:") {
		p := parms{Array: true}
		if s == "a:" {
			return p, nil
		}
		for _, e := range strings.Split(s[2:], ",") {
			o, err := parsePobj(e)
			if err != nil {
				return p, err
			}
			p.Elems = append(p.Elems, o)
		}
		return p, nil
	}
	o, err := parsePobj(s)
	return parms{One: o}, err
}

// filt is the Filter entry: Kind "~" absent, "o" other type, "n" one name, "a" array.
// An element is a name, or "" for a non-name object.
type filt struct {
	Kind  string
	Elems []string
	Other []bool
}

func (f filt) wire() string {
	switch f.Kind {
	case "n":
		return "n:" + hx.HexS(f.Elems[0])
	case "a":
		ws := make([]string, len(f.Elems))
		for i, e := range f.Elems {
			if f.Other[i] {
				ws[i] = "o"
			} else {
				ws[i] = hx.HexS(e)
			}
		}
		return "a:" + strings.Join(ws, ",")
	}
	return f.Kind
}

func (f filt) object() core.Object {
	switch f.Kind {
	case "o":
		return core.Int(7)
	case "n":
		return core.Name(f.Elems[0])
	case "a":
		arr := core.Array{}
		for i, e := range f.Elems {
			if f.Other[i] {
				arr = append(arr, core.Int(7))
			} else {
				arr = append(arr, core.Name(e))
			}
		}
		return arr
	}
	return nil
}

func unhex(s string) ([]byte, error) {
	if s == "-" {
		return nil, nil
	}
	return hex.DecodeString(s)
}

func parseFilt(s string) (filt, error) {
	switch {
	case s == "~" || s == "o":
		return filt{Kind: s}, nil
	case strings.HasPrefix(s, "n:"):
		b, err := unhex(s[2:])
		return filt{Kind: "n", Elems: []string{string(b)}, Other: []bool{false}}, err
	case strings.HasPrefix(s, "a:"):
		f := filt{Kind: "a"}
		if s == "a:" {
			return f, nil
		}
		for _, e := range strings.Split(s[2:], ",") {
			if e == "o" {
				f.Elems, f.Other = append(f.Elems, ""), append(f.Other, true)
				continue
			}
			b, err := unhex(e)
			if err != nil {
				return f, err
			}
			f.Elems, f.Other = append(f.Elems, string(b)), append(f.Other, false)
		}
		return f, nil
	}
	return filt{}, fmt.Errorf("bad filter %q", s)
}

func names(ns ...string) filt {
	return filt{Kind: "a", Elems: ns, Other: make([]bool, len(ns))}
}

func oneName(n string) filt { return filt{Kind: "n", Elems: []string{n}, Other: []bool{false}} }

func dictOf(f filt, p parms) core.Dict {
	d := core.Dict{"Length": core.Int(0)}
	if o := f.object(); o != nil {
		d["Filter"] = o
	}
	if o := p.object(); o != nil {
		d["DecodeParms"] = o
	}
	return d
}

// ---- running one stream ---------------------------------------------------------

// streamCase is the replayable form of one decode.
type streamCase struct {
	Key    string `json:"key"`
	Filter string `json:"filter"`
	Parms  string `json:"parms"`
	Data   string `json:"data"`
	Want   string `json:"want"` // "ok <hex>": must decode to this; "err": must fail; "": no expectation
	Note   string `json:"note,omitempty"`
}

// decode calls the implementation. ok=false for an error; pan != "" for a panic.
func decode(f filt, p parms, data []byte) (out []byte, ok bool, pan string) {
	var err error
	pan = hx.Safe(func() {
		out, err = (&core.Stream{Dict: dictOf(f, p), Data: data}).Decode()
	})
	return out, pan == "" && err == nil, pan
}

func replyOf(out []byte, ok bool, pan string) string {
	if pan != "" {
		return "panic"
	}
	if !ok {
		return "err"
	}
	return "ok " + hx.Hex(out)
}

func isFlate(n string) bool { return n == "FlateDecode" || n == "Fl" }

// inflateTable lists, for every Flate stage the chain can reach, the input it is given and
// zlib's answer. Inputs come from `known` (the harness encoder's own intermediates) and from
// decoding the filter prefix with the implementation; the model looks entries up by the
// input it computed itself, so a wrong intermediate on either side shows as a divergence.
func inflateTable(f filt, p parms, data []byte, known [][]byte) string {
	var ents []string
	seen := map[string]bool{}
	add := func(in []byte) {
		if seen[string(in)] {
			return
		}
		seen[string(in)] = true
		out, ok := inflate(in)
		o := "!"
		if ok {
			o = hx.Hex(out)
		}
		ents = append(ents, hx.Hex(in)+">"+o)
	}
	for _, k := range known {
		add(k)
	}
	switch f.Kind {
	case "n":
		if isFlate(f.Elems[0]) {
			add(data)
		}
	case "a":
		cur := data
		for i := range f.Elems {
			if f.Other[i] {
				break
			}
			if isFlate(f.Elems[i]) {
				add(cur)
			}
			if i+1 < len(f.Elems) {
				pre := filt{Kind: "a", Elems: f.Elems[:i+1], Other: f.Other[:i+1]}
				out, ok, _ := decode(pre, p, data)
				if !ok {
					break
				}
				cur = out
			}
		}
	}
	if len(ents) == 0 {
		return "_"
	}
	return strings.Join(ents, ";")
}

// expectation of the statement-level oracle
type expect struct {
	key     string // oracle key
	want    []byte // valid when hasWant
	hasWant bool
	mustErr bool
	note    string
	suffix  string // refinement of the key by the generator's input class ("" for the general stream)
}

func wantBytes(key string, x []byte) expect { return expect{key: key, want: x, hasWant: true} }
func wantErr(key, note string) expect       { return expect{key: key, mustErr: true, note: note} }

var noExpect = expect{}

// run decodes one stream with the implementation, records the correspondence op (kind:
// "hex", "a85", "pred" or "chain") and applies the oracle. Returns whether it decoded.
func run(c *hx.Ctx, kind string, f filt, p parms, data []byte, known [][]byte, e expect) ([]byte, bool) {
	out, ok, pan := decode(f, p, data)
	reply := replyOf(out, ok, pan)
	kase := streamCase{Key: e.key, Filter: f.wire(), Parms: p.wire(), Data: hx.Hex(data), Note: e.note}
	if e.hasWant {
		kase.Want = "ok " + hx.Hex(e.want)
	} else if e.mustErr {
		kase.Want = "err"
	}
	c.Check("C05/panic-decode", pan == "", kase, func() string { return "Decode panicked: " + pan })
	switch kind {
	case "hex":
		c.Op("c05.hex "+hx.Hex(data), reply)
		c.Op("c05.spec.hex "+hx.Hex(data), reply)
		litASCII(c, "hex", data, reply)
	case "a85":
		c.Op("c05.a85 "+hx.Hex(data), reply)
		c.Op("c05.spec.a85 "+hx.Hex(data), reply)
		litASCII(c, "a85", data, reply)
	case "pred":
		// data is a zlib stream; the model gets what zlib makes of it
		inf, iok := inflate(data)
		if iok {
			c.Op("c05.pred "+strings.Join(p.One.P[:], "/")+" "+hx.Hex(inf), reply)
			litPred(c, strings.Join(p.One.P[:], "/"), inf, reply)
		}
	default:
		c.Op("c05.chain "+f.wire()+" "+p.wire()+" "+hx.Hex(data)+" "+inflateTable(f, p, data, known), reply)
	}
	if e.hasWant {
		c.Check(e.key, ok && bytes.Equal(out, e.want), kase, func() string {
			return fmt.Sprintf("decode(encode(x)) != x: Filter=%s DecodeParms=%s data=%s: got %s want ok %s",
				describeFilter(f), p.wire(), clip(hx.Hex(data)), clip(reply), clip(hx.Hex(e.want)))
		})
	}
	if e.mustErr {
		c.Check(e.key, !ok, kase, func() string {
			return fmt.Sprintf("undecodable data (%s) decoded without error: Filter=%s DecodeParms=%s data=%s: got %s",
				e.note, describeFilter(f), p.wire(), clip(hx.Hex(data)), clip(reply))
		})
	}
	return out, ok
}

func clip(s string) string {
	if len(s) > 160 {
		return s[:160] + fmt.Sprintf("…(%d chars)", len(s))
	}
	return s
}

func describeFilter(f filt) string {
	switch f.Kind {
	case "n":
		return "/" + f.Elems[0]
	case "a":
		var b []string
		for i, e := range f.Elems {
			if f.Other[i] {
				b = append(b, "7")
			} else {
				b = append(b, "/"+e)
			}
		}
		return "[" + strings.Join(b, " ") + "]"
	}
	return f.Kind
}

// ---- pipelines ------------------------------------------------------------------

type stage struct {
	Kind    string // "fl", "hex", "a85"
	Abbrev  bool
	Pred    int // 0: no DecodeParms for this stage; otherwise the Predictor value
	Colors  int
	Columns int
	Tags    []byte
	Level   int
	Style   asciiStyle
	Verbose int // how the params dict is written: 0 minimal, 1 all keys, 2 Real numbers
}

func (s stage) name() string {
	switch s.Kind {
	case "fl":
		if s.Abbrev {
			return "Fl"
		}
		return "FlateDecode"
	case "hex":
		if s.Abbrev {
			return "AHx"
		}
		return "ASCIIHexDecode"
	}
	if s.Abbrev {
		return "A85"
	}
	return "ASCII85Decode"
}

func (s stage) hasParms() bool { return s.Kind == "fl" && s.Pred != 0 }

func (s stage) pobj() pobj {
	if !s.hasParms() {
		return pobj{Kind: "z"}
	}
	num := func(n int) string {
		if s.Verbose == 2 {
			return strconv.Itoa(n) + "r"
		}
		return strconv.Itoa(n)
	}
	o := pobj{Kind: "d", P: [4]string{num(s.Pred), "~", "~", "~"}}
	if s.Colors != 1 || s.Verbose >= 1 {
		o.P[1] = num(s.Colors)
	}
	if s.Columns != 1 || s.Verbose >= 1 {
		o.P[2] = num(s.Columns)
	}
	if s.Verbose >= 1 {
		o.P[3] = num(8)
	}
	return o
}

// encode applies the conforming encoder of one stage; for a Flate stage it also returns
// the bytes handed to zlib (what inflate must give back).
func (s stage) encode(r *hx.Rng, in []byte) (out []byte) {
	switch s.Kind {
	case "hex":
		return hexEncode(r, in, s.Style)
	case "a85":
		return a85Encode(r, in, s.Style)
	}
	pre := in
	switch {
	case s.Pred == 2:
		pre = tiffPredict(in, s.Colors, s.Columns)
	case s.Pred >= 10:
		pre = pngPredict(in, s.Colors, s.Columns, s.Tags)
	}
	return deflate(pre, s.Level)
}

var levels = []int{zlib.NoCompression, zlib.BestSpeed, zlib.DefaultCompression, zlib.BestCompression, zlib.HuffmanOnly}

// geometry for a predictor stage whose input has n bytes: colors*columns must divide n.
func pickGeometry(r *hx.Rng, n int) (colors, columns int) {
	if n == 0 {
		return r.Range(1, 4), r.Range(1, 64)
	}
	var cs []int
	for c := 1; c <= 4; c++ {
		if n%c == 0 {
			cs = append(cs, c)
		}
	}
	colors = hx.Pick(r, cs)
	m := n / colors
	var ds []int
	for d := 1; d <= 64 && d <= m; d++ {
		if m%d == 0 {
			ds = append(ds, d)
		}
	}
	if m <= 4096 {
		ds = append(ds, m)
	}
	return colors, hx.Pick(r, ds)
}

func randomTags(r *hx.Rng, pred, rows int) []byte {
	tags := make([]byte, rows)
	uniform := pred >= 10 && pred <= 14 && r.Bool()
	for i := range tags {
		if uniform {
			tags[i] = byte(pred - 10)
		} else {
			tags[i] = byte(r.Intn(5))
		}
	}
	return tags
}

// content classes of the quantifier: random, all-zero, all-FF, periodic rows, ramps, few symbols
func content(r *hx.Rng, n, period int) ([]byte, string) {
	b := make([]byte, n)
	class := hx.Pick(r, []string{"random", "random", "zero", "ff", "periodic", "ramp", "sparse", "ascii85ish"})
	switch class {
	case "random":
		copy(b, r.Bytes(n))
	case "ff":
		for i := range b {
			b[i] = 0xFF
		}
	case "periodic":
		if period <= 0 {
			period = r.Range(1, 9)
		}
		pat := r.Bytes(period)
		for i := range b {
			b[i] = pat[i%period]
		}
	case "ramp":
		step := byte(r.Range(1, 7))
		for i := range b {
			b[i] = byte(i) * step
		}
	case "sparse":
		for i := range b {
			if r.Chance(1, 6) {
				b[i] = hx.Pick(r, []byte{1, 0x7F, 0x80, 0xFF})
			}
		}
	case "ascii85ish":
		for i := range b {
			b[i] = hx.Pick(r, []byte{'z', '~', '>', '!', 'u', ' ', 0})
		}
	}
	return b, class
}

// buildChain encodes x through the stages (last stage first) fixing the geometry of predictor
// stages that are not last from the length of their input. Returns the encoded data and the
// intermediates handed to zlib-compress (keys of the inflate table are their compressed forms).
func buildChain(r *hx.Rng, stages []stage, x []byte) (data []byte, flateInputs [][]byte) {
	data, flateInputs, _ = buildChainMids(r, stages, x)
	return data, flateInputs
}

// buildChainMids also returns every intermediate: mids[0] = x, mids[k] = the data after the k
// innermost stages have been applied (mids[len(stages)] = the encoded stream data).
func buildChainMids(r *hx.Rng, stages []stage, x []byte) (data []byte, flateInputs [][]byte, mids [][]byte) {
	mids = append(mids, x)
	cur := x
	for i := len(stages) - 1; i >= 0; i-- {
		s := &stages[i]
		if s.Kind == "fl" && s.Pred >= 2 && s.Columns == 0 {
			s.Colors, s.Columns = pickGeometry(r, len(cur))
			if s.Pred >= 10 {
				rows := 0
				if len(cur) > 0 {
					rows = len(cur) / (s.Colors * s.Columns)
				}
				s.Tags = randomTags(r, s.Pred, rows)
			}
		}
		cur = s.encode(r, cur)
		mids = append(mids, cur)
		if s.Kind == "fl" {
			flateInputs = append(flateInputs, cur)
		}
	}
	return cur, flateInputs, mids
}

func randomStage(r *hx.Rng) stage {
	s := stage{Kind: hx.Pick(r, []string{"fl", "fl", "hex", "a85"}), Abbrev: r.Bool(), Colors: 1, Columns: 1,
		Level: hx.Pick(r, levels), Verbose: hx.Pick(r, []int{0, 0, 1, 2})}
	s.Style = asciiStyle{Upper: r.Intn(3), NoZ: r.Chance(1, 4), DropZero: r.Chance(1, 4)}
	if r.Bool() {
		s.Style.WS = r.Range(1, 6)
	}
	if s.Kind == "fl" {
		s.Pred = hx.Pick(r, []int{0, 0, 1, 2, 10, 11, 12, 13, 14, 15, 15, 15})
		if s.Pred >= 2 {
			s.Columns = 0 // chosen by buildChain
		}
	}
	return s
}

// shapes of Filter / DecodeParms that a conforming writer may use for the stages
func shapes(r *hx.Rng, stages []stage) (filt, parms, string) {
	ns := make([]string, len(stages))
	any := false
	for i, s := range stages {
		ns[i] = s.name()
		any = any || s.hasParms()
	}
	f := names(ns...)
	if len(stages) == 1 && r.Bool() {
		f = oneName(ns[0])
	}
	if !any {
		switch r.Intn(4) {
		case 0:
			return f, parms{One: pobj{Kind: "~"}}, "parms-absent"
		case 1:
			return f, parms{One: pobj{Kind: "z"}}, "parms-null"
		case 2:
			if f.Kind == "n" {
				return f, parms{One: pobj{Kind: "d", P: [4]string{"~", "~", "~", "~"}}}, "parms-dict"
			}
		}
	}
	if f.Kind == "n" || (len(stages) == 1 && r.Bool()) {
		// one filter: the parameter dictionary itself
		o := stages[0].pobj()
		if o.Kind == "z" && r.Bool() {
			o = pobj{Kind: "d", P: [4]string{"~", "~", "~", "~"}}
		}
		if o.Kind == "d" {
			return f, parms{One: o}, "parms-dict"
		}
		return f, parms{One: o}, "parms-null"
	}
	p := parms{Array: true}
	for _, s := range stages {
		p.Elems = append(p.Elems, s.pobj())
	}
	return f, p, "parms-array"
}

type pipeCase struct {
	Seed  uint64 `json:"seed"`
	Index int    `json:"index"`
}

// checkPipeline encodes x through the stages with the harness's encoders, decodes the result
// with the implementation under a conforming Filter/DecodeParms shape (digested description
// and freshly written dictionary) and demands the original bytes back. keySuffix refines the
// oracle key for a generator that targets one class of inputs.
func checkPipeline(c *hx.Ctx, r *hx.Rng, stages []stage, x []byte, class, origin, keySuffix string) (f filt, p parms, data []byte, flIn [][]byte, e expect) {
	nst := len(stages)
	data, flIn, mids := buildChainMids(r, stages, x)
	f, p, shape := shapes(r, stages)
	var kinds []string
	key := "C05/roundtrip-chain"
	for _, s := range stages {
		k := s.Kind
		if s.Kind == "fl" {
			switch {
			case s.Pred == 2:
				k = "fl+tiff"
			case s.Pred >= 10:
				k = "fl+png"
			}
		}
		kinds = append(kinds, k)
	}
	if nst == 1 {
		key = map[string]string{"fl": "C05/flate-roundtrip", "fl+tiff": "C05/tiff-roundtrip", "fl+png": "C05/png-roundtrip",
			"hex": "C05/hex-roundtrip", "a85": "C05/a85-roundtrip"}[kinds[0]]
	}
	e = wantBytes(key+keySuffix, x)
	e.suffix = keySuffix
	e.note = fmt.Sprintf("%s stages=%s content=%s", origin, strings.Join(kinds, ","), class)
	_, ok := run(c, "chain", f, p, data, flIn, e)
	pipelineDict(c, r.Fork(0xD1), stages, f, p, data, flIn, e)
	pipelineWrites(c, stages, flIn, mids)
	c.Count("pipeline:" + strings.Join(kinds, ">"))
	c.Count("shape:" + shape)
	c.Count("content:" + class)
	switch {
	case len(x) == 0:
		c.Count("len:0")
	case len(x) <= 64:
		c.Count("len:1-64")
	case len(x) <= 4096:
		c.Count("len:65-4096")
	default:
		c.Count("len:4097-65536")
	}
	c.Case(fmt.Sprintf("%s|%s|%x", f.wire(), p.wire(), data), ok && len(x) > 0)
	return f, p, data, flIn, e
}

// RunPipeline generates random pipeline number idx of the seed's stream and checks it.
func RunPipeline(c *hx.Ctx, idx int) {
	r := c.Rng.Fork(uint64(idx))
	nst := r.Range(1, 3)
	stages := make([]stage, nst)
	for i := range stages {
		stages[i] = randomStage(r)
	}
	// size class
	maxLen := 64
	switch r.Intn(10) {
	case 0, 1, 2:
		maxLen = 8
	case 3, 4, 5:
		maxLen = 300
	case 6, 7:
		maxLen = 4096
	case 8:
		if c.Thorough() || r.Chance(1, 6) {
			maxLen = 65536
		} else {
			maxLen = 4096
		}
	}
	n := r.Intn(maxLen + 1)
	if r.Chance(1, 12) && maxLen == 65536 {
		n = 65536
	}
	last := &stages[nst-1]
	period := 0
	if last.Kind == "fl" && last.Pred >= 2 {
		last.Colors = r.Range(1, 4)
		last.Columns = r.Range(1, 64)
		if r.Chance(1, 10) {
			last.Columns = r.Range(65, 700)
		}
		rowLen := last.Colors * last.Columns
		rows := n / rowLen
		if rows == 0 && r.Chance(2, 3) {
			rows = 1
		}
		n = rows * rowLen
		period = rowLen
		if r.Bool() {
			period = last.Colors
		}
		if last.Pred >= 10 {
			last.Tags = randomTags(r, last.Pred, rows)
		}
	}
	x, class := content(r, n, period)
	f, p, data, flIn, e := checkPipeline(c, r, stages, x, class, fmt.Sprintf("seed=%d index=%d", c.Seed, idx), "")

	// the outermost filter is an ASCII filter: bytes after its EOD marker do not belong to
	// the data (must not change the result); the same data without the marker is tolerated
	// by tabula (no expectation, correspondence only)
	if k0 := stages[0].Kind; (k0 == "hex" || k0 == "a85") && r.Chance(1, 3) {
		eod := 1
		if k0 == "a85" {
			eod = 2
		}
		tail := r.Bytes(r.Range(1, 12))
		if r.Bool() {
			tail = []byte(hx.Pick(r, []string{"~>", ">", "zz", "\x00", "00>", "endstream", "!!!!!"}))
		}
		e2 := e
		e2.key = "C05/roundtrip-after-eod"
		run(c, "chain", f, p, append(append([]byte(nil), data...), tail...), flIn, e2)
		run(c, "chain", f, p, data[:len(data)-eod], flIn, noExpect)
		c.Count("eod:" + k0 + ":trailing-bytes+no-marker")
	}

	// the same data under a non-conforming but tolerated parameter layout, and malformed
	// variants: correspondence only
	if r.Chance(1, 4) {
		malformed(c, r, f, p, data, flIn)
	}
}

// malformed damages an encoded stream / its dictionary; no expectation except "no panic" and
// agreement with the model.
func malformed(c *hx.Ctx, r *hx.Rng, f filt, p parms, data []byte, known [][]byte) {
	d := append([]byte(nil), data...)
	what := r.Intn(8)
	switch what {
	case 0: // flip a byte
		if len(d) > 0 {
			d[r.Intn(len(d))] ^= byte(1 << uint(r.Intn(8)))
		}
	case 1: // delete a byte
		if len(d) > 0 {
			i := r.Intn(len(d))
			d = append(d[:i], d[i+1:]...)
		}
	case 2: // insert a byte from the interesting alphabet
		i := r.Intn(len(d) + 1)
		b := hx.Pick(r, []byte{'z', '~', '>', 'u', '!', 'v', ' ', 0, 'g', 'G', 0x80, 0xFF})
		d = append(d[:i], append([]byte{b}, d[i:]...)...)
	case 3: // truncate
		d = d[:r.Intn(len(d)+1)]
	case 4: // drop the params / shorten the params array
		if p.Array && len(p.Elems) > 0 {
			p.Elems = p.Elems[:r.Intn(len(p.Elems))]
		} else {
			p = parms{One: pobj{Kind: hx.Pick(r, []string{"~", "z", "o"})}}
		}
	case 5: // reverse the filter array
		if f.Kind == "a" {
			g := names()
			for i := len(f.Elems) - 1; i >= 0; i-- {
				g.Elems, g.Other = append(g.Elems, f.Elems[i]), append(g.Other, f.Other[i])
			}
			f = g
		}
	case 6: // one dict for every filter of the array
		if p.Array && len(p.Elems) > 0 {
			p = parms{One: hx.Pick(r, p.Elems)}
		}
	case 7: // a non-name in the filter array / params array under a single name
		if f.Kind == "a" && len(f.Elems) > 0 {
			i := r.Intn(len(f.Elems))
			f.Other = append([]bool(nil), f.Other...)
			f.Other[i] = true
		} else if f.Kind == "n" {
			p = parms{Array: true, Elems: []pobj{p.One}}
		}
	}
	_, ok := run(c, "chain", f, p, d, known, noExpect)
	runDict(c, dictWo(r.Fork(0xD2), f, p, deco{Extra: true, Shuffle: true, RealInts: true, Fraction: r.Chance(1, 3), Others: true}), d, known, noExpect)
	c.Count(fmt.Sprintf("malformed:%d:ok=%v", what, ok))
	c.Case("", false)
}

// ---- exhaustive small inputs ----------------------------------------------------------

var smallAlphabet = []byte{0x00, 0x01, 0x7F, 0x80, 0xFF, 'z', '~', '>'}

func allStrings(alpha []byte, maxLen int) [][]byte {
	res := [][]byte{{}}
	prev := [][]byte{{}}
	for l := 1; l <= maxLen; l++ {
		var next [][]byte
		for _, p := range prev {
			for _, a := range alpha {
				s := append(append([]byte(nil), p...), a)
				next = append(next, s)
			}
		}
		res = append(res, next...)
		prev = next
	}
	return res
}

func onePred(pred, colors, columns int) parms {
	return parms{One: pobj{Kind: "d", P: [4]string{strconv.Itoa(pred), strconv.Itoa(colors), strconv.Itoa(columns), "~"}}}
}

func exhaustiveSmall(c *hx.Ctx) {
	strs := allStrings(smallAlphabet, 3)
	r := c.Rng.Fork(0xE5)
	for _, s := range strs {
		// canonical and styled ASCII encodings
		run(c, "hex", oneName("ASCIIHexDecode"), parms{One: pobj{Kind: "~"}}, hexEncode(nil, s, asciiStyle{}), nil, wantBytes("C05/hex-roundtrip", s))
		st := asciiStyle{Upper: r.Intn(3), WS: r.Range(0, 8), DropZero: r.Bool()}
		run(c, "hex", oneName("AHx"), parms{One: pobj{Kind: "~"}}, hexEncode(r, s, st), nil, wantBytes("C05/hex-roundtrip", s))
		run(c, "a85", oneName("ASCII85Decode"), parms{One: pobj{Kind: "~"}}, a85Encode(nil, s, asciiStyle{}), nil, wantBytes("C05/a85-roundtrip", s))
		st = asciiStyle{WS: r.Range(0, 8), NoZ: r.Bool()}
		run(c, "a85", oneName("A85"), parms{One: pobj{Kind: "~"}}, a85Encode(r, s, st), nil, wantBytes("C05/a85-roundtrip", s))
		// zero-extended to full groups (z handling)
		z := append(append([]byte{0, 0, 0, 0}, s...), 0, 0, 0, 0, 0)
		run(c, "a85", oneName("A85"), parms{One: pobj{Kind: "~"}}, a85Encode(nil, z, asciiStyle{}), nil, wantBytes("C05/a85-roundtrip", z))
		c.Case("ascii"+string(s), len(s) > 0)
	}
	c.Count("exhaustive:ascii-strings")
	// every predictor setting x geometry x short string (tiled into 1..3 rows)
	k := 0
	for _, pred := range []int{1, 2, 10, 11, 12, 13, 14, 15} {
		for colors := 1; colors <= 4; colors++ {
			for columns := 1; columns <= 8; columns++ {
				for si, s := range strs {
					k++
					if !c.Thorough() && !(colors <= 2 && columns <= 2) && (k%23) != 0 {
						continue
					}
					rowLen := colors * columns
					rows := len(s)
					x := make([]byte, rows*rowLen)
					for i := range x {
						x[i] = s[(i/rowLen+i%rowLen)%len(s)]
					}
					if pred == 1 {
						x = s
						rows = 0
					}
					tags := make([]byte, rows)
					for i := range tags {
						if pred == 15 {
							tags[i] = byte((si + i*3 + columns) % 5)
						} else if pred >= 10 {
							tags[i] = byte(pred - 10)
						}
					}
					stg := stage{Kind: "fl", Pred: pred, Colors: colors, Columns: columns, Tags: tags, Level: zlib.BestSpeed}
					key := "C05/png-roundtrip"
					if pred == 2 {
						key = "C05/tiff-roundtrip"
					} else if pred == 1 {
						key = "C05/flate-roundtrip"
					}
					_, ok := run(c, "pred", oneName("FlateDecode"), onePred(pred, colors, columns), stg.encode(nil, x), nil, wantBytes(key, x))
					c.Case(fmt.Sprintf("pred%d/%d/%d/%x", pred, colors, columns, x), ok && len(x) > 0)
				}
			}
		}
	}
	c.Count("exhaustive:predictor-geometry-strings")
}

// rawAlphabets feeds every string over small alphabets of *encoded* characters straight to the
// ASCII decoders (state machines of the decoders; mostly undecodable or oddly terminated).
func rawAlphabets(c *hx.Ctx) {
	none := parms{One: pobj{Kind: "~"}}
	for _, s := range allStrings([]byte{'0', 'a', 'F', 'g', ' ', '>', 0x00, 0x80}, c.N(4, 5)) {
		_, ok := run(c, "hex", oneName("AHx"), none, s, nil, noExpect)
		c.Case("rawhex"+string(s), ok && len(s) > 0)
	}
	for _, s := range allStrings([]byte{'!', 'u', 's', 'z', '~', '>', ' ', 'v'}, c.N(4, 6)) {
		_, ok := run(c, "a85", oneName("A85"), none, s, nil, noExpect)
		c.Case("rawa85"+string(s), ok && len(s) > 0)
	}
	c.Count("exhaustive:raw-ascii-alphabets")
}

// tagTriples: all choices of per-row filter types for three rows, over a grid of geometries.
func tagTriples(c *hx.Ctx) {
	r := c.Rng.Fork(0x7A6)
	for t := 0; t < 125; t++ {
		tags := []byte{byte(t / 25), byte(t / 5 % 5), byte(t % 5)}
		for colors := 1; colors <= 4; colors++ {
			for _, columns := range []int{1, 2, 3, 5, 8} {
				if !c.Thorough() && (t+colors+columns)%3 != 0 {
					continue
				}
				x, _ := content(r, 3*colors*columns, 0)
				stg := stage{Kind: "fl", Pred: 15, Colors: colors, Columns: columns, Tags: tags, Level: zlib.BestSpeed}
				_, ok := run(c, "pred", oneName("Fl"), onePred(15, colors, columns), stg.encode(nil, x), nil, wantBytes("C05/png-roundtrip", x))
				c.Case(fmt.Sprintf("tags%v/%d/%d/%x", tags, colors, columns, x), ok)
			}
		}
	}
	c.Count("exhaustive:tag-triples")
}

// ---- undecodable data must be an error ----------------------------------------------

func undecodable(c *hx.Ctx) {
	r := c.Rng.Fork(0xBAD)
	none := parms{One: pobj{Kind: "~"}}
	n := c.N(150, 1500)
	for i := 0; i < n; i++ {
		x := r.Bytes(r.Range(1, 40))
		// hex: a byte that is neither a digit, white space nor '>' before the EOD
		{
			enc := hexEncode(r, x, asciiStyle{Upper: r.Intn(3), WS: r.Intn(4)})
			pos := r.Intn(len(enc) - 1)
			bad := hx.Pick(r, []byte{'g', 'G', 'x', '/', ':', '@', '`', '<', '~', 0x80, 0xFF, '-', '.'})
			d := append(append(append([]byte(nil), enc[:pos]...), bad), enc[pos:]...)
			if r.Bool() {
				d = append(append(append([]byte(nil), enc[:pos]...), bad), enc[pos+1:]...)
				if enc[pos] == '>' {
					d = append(d, '>')
				}
			}
			run(c, "hex", oneName("ASCIIHexDecode"), none, d, nil, wantErr("C05/undecodable-hex-nonhex", fmt.Sprintf("byte %#x at %d", bad, pos)))
		}
		// a85: a byte outside !..u that is not z, white space or the EOD
		{
			enc := a85Encode(r, x, asciiStyle{WS: r.Intn(4)})
			pos := r.Intn(len(enc) - 1)
			bad := hx.Pick(r, []byte{'v', 'w', 'x', 'y', '{', '|', '}', 0x7F, 0x80, 0xFF, 0x01, 0x1F})
			d := append(append(append([]byte(nil), enc[:pos]...), bad), enc[pos:]...)
			run(c, "a85", oneName("ASCII85Decode"), none, d, nil, wantErr("C05/undecodable-a85-char", fmt.Sprintf("byte %#x at %d", bad, pos)))
		}
		// a85: z inside a group (after 1..4 digits of a non-zero group)
		{
			pre := r.Bytes(4 * r.Intn(3))
			grp := []byte{byte(r.Range(1, 255)), byte(r.Intn(256)), byte(r.Intn(256)), byte(r.Intn(256))}
			e1 := a85Encode(nil, pre, asciiStyle{NoZ: true})
			e1 = e1[:len(e1)-2]
			e2 := a85Encode(nil, grp, asciiStyle{NoZ: true})
			k := r.Range(1, 4)
			d := append(append([]byte(nil), e1...), e2[:k]...)
			if r.Bool() {
				d = append(d, ' ')
			}
			d = append(d, 'z')
			d = append(d, e2[k:]...)
			run(c, "a85", oneName("A85"), none, d, nil, wantErr("C05/undecodable-a85-z-in-group", fmt.Sprintf("z after %d digits", k)))
		}
		// a85: a group whose value exceeds 2^32-1
		{
			pre := a85Encode(nil, r.Bytes(4*r.Intn(3)), asciiStyle{})
			pre = pre[:len(pre)-2]
			var grp []byte
			for {
				grp = []byte{'s' + byte(r.Intn(3)), byte(r.Range('!', 'u')), byte(r.Range('!', 'u')), byte(r.Range('!', 'u')), byte(r.Range('!', 'u'))}
				v := uint64(0)
				for _, g := range grp {
					v = v*85 + uint64(g-'!')
				}
				if v > 0xFFFFFFFF {
					break
				}
			}
			if r.Chance(1, 5) {
				grp = []byte("s8W-\"") // 2^32 exactly
			}
			if r.Chance(1, 6) {
				grp = grp[:0]
				for k := r.Range(2, 4); k > 0; k-- { // partial group of u: padded value is 85^5-1
					grp = append(grp, 'u')
				}
			}
			d := append(append(append([]byte(nil), pre...), grp...), '~', '>')
			run(c, "a85", oneName("A85"), none, d, nil, wantErr("C05/undecodable-a85-overflow", "group "+string(grp)))
		}
		// predictors
		colors, columns := r.Range(1, 4), r.Range(1, 16)
		rowLen := colors * columns
		rows := r.Range(1, 4)
		raw := r.Bytes(rows * rowLen)
		{ // data that is not a whole number of rows
			pred := hx.Pick(r, []int{2, 10, 12, 15})
			rs := rowLen
			if pred >= 10 {
				rs++
			}
			if rs > 1 {
				bad := r.Bytes(rows*rs + r.Range(1, rs-1))
				run(c, "pred", oneName("FlateDecode"), onePred(pred, colors, columns), deflate(bad, zlib.BestSpeed), nil,
					wantErr("C05/undecodable-row-mismatch", fmt.Sprintf("%d bytes, row size %d", len(bad), rs)))
			}
		}
		{ // a PNG filter-type byte above 4
			tags := randomTags(r, 15, rows)
			enc := pngPredict(raw, colors, columns, tags)
			enc[r.Intn(rows)*(rowLen+1)] = byte(r.Range(5, 255))
			run(c, "pred", oneName("Fl"), onePred(hx.Pick(r, []int{10, 11, 12, 13, 14, 15}), colors, columns), deflate(enc, zlib.BestSpeed), nil,
				wantErr("C05/undecodable-png-tag", "filter type > 4"))
		}
		{ // Predictor values that do not exist
			pred := hx.Pick(r, []int{0, 3, 4, 9, 16, 20, -1, -10, 255, 1 << 20})
			run(c, "pred", oneName("Fl"), onePred(pred, colors, columns), deflate(raw, zlib.BestSpeed), nil,
				wantErr("C05/undecodable-predictor", fmt.Sprintf("Predictor %d", pred)))
		}
		{ // BitsPerComponent other than 8 is not supported: must be refused, not mis-decoded
			pred := hx.Pick(r, []int{2, 10, 12, 15})
			p := onePred(pred, colors, columns)
			p.One.P[3] = strconv.Itoa(hx.Pick(r, []int{1, 2, 4, 16, 0, -8, 7}))
			enc := raw
			if pred >= 10 {
				enc = pngPredict(raw, colors, columns, randomTags(r, pred, rows))
			}
			run(c, "pred", oneName("Fl"), p, deflate(enc, zlib.BestSpeed), nil, wantErr("C05/undecodable-bpc", "BitsPerComponent "+p.One.P[3]))
		}
		{ // Columns/Colors that are not positive (or overflow): no row geometry exists
			pred := hx.Pick(r, []int{2, 10, 12, 15})
			geo := [][2]int64{{0, 1}, {1, 0}, {-1, 1}, {1, -1}, {-1, -1}, {-2, -3}, {0, 0}, {-3, 1}, {1, -2},
				{1 << 32, 1 << 32}, {1 << 62, 4}, {-1 << 63, 1}, {1 << 31, 1 << 31}, {-int64(r.Range(1, 9)), int64(r.Range(1, 4))}}
			g := hx.Pick(r, geo)
			p := parms{One: pobj{Kind: "d", P: [4]string{strconv.Itoa(pred), strconv.FormatInt(g[1], 10), strconv.FormatInt(g[0], 10), "~"}}}
			d := r.Bytes(r.Range(1, 12))
			run(c, "pred", oneName("FlateDecode"), p, deflate(d, zlib.BestSpeed), nil,
				wantErr("C05/undecodable-geometry", fmt.Sprintf("Columns=%d Colors=%d", g[0], g[1])))
		}
		{ // a damaged zlib stream
			z := deflate(r.Bytes(r.Range(8, 200)), hx.Pick(r, levels))
			switch r.Intn(3) {
			case 0:
				z = z[:r.Range(0, len(z)-1)]
			case 1:
				z[0] ^= 0x55
			case 2:
				z[len(z)-1-r.Intn(4)] ^= 0xFF // Adler-32 checksum
			}
			if _, ok := inflate(z); !ok {
				run(c, "chain", oneName("Fl"), none, z, nil, wantErr("C05/undecodable-zlib", "zlib rejects the stream"))
			}
		}
		c.Case("", false)
	}
	// filters tabula does not implement and names it does not know: an error, not the raw bytes
	for _, nm := range []string{"LZWDecode", "LZW", "RunLengthDecode", "RL", "JBIG2Decode", "Crypt", "Flate", "flatedecode", "FL", "AHX", "A85Decode", "", "ASCIIHexDecode "} {
		run(c, "chain", oneName(nm), none, []byte("00>"), nil, wantErr("C05/undecodable-unknown-filter", "filter "+nm))
		run(c, "chain", names("AHx", nm), none, []byte("00>"), nil, wantErr("C05/undecodable-unknown-filter", "filter "+nm))
	}
	// structure of the dictionary: correspondence
	for _, f := range []filt{{Kind: "~"}, {Kind: "o"}, names(), {Kind: "a", Elems: []string{""}, Other: []bool{true}},
		{Kind: "a", Elems: []string{"AHx", ""}, Other: []bool{false, true}}, oneName("DCTDecode"), oneName("DCT"), oneName("JPXDecode"),
		names("AHx", "DCT"), names("A85", "JPXDecode", "AHx")} {
		for _, p := range []parms{none, {One: pobj{Kind: "z"}}, {One: pobj{Kind: "o"}}, {Array: true}, {Array: true, Elems: []pobj{{Kind: "z"}, {Kind: "o"}}}} {
			run(c, "chain", f, p, []byte("36 31>"), nil, noExpect)
		}
	}
	c.Count("undecodable-classes")
}

// ---- specification encoders of the model vs the harness's encoders -----------------

func specEncoders(c *hx.Ctx) {
	r := c.Rng.Fork(0x5EC)
	for i := 0; i < c.N(300, 3000); i++ {
		x, _ := content(r, r.Intn(40), 0)
		c.Op("c05.enc.hex l "+hx.Hex(x), "ok "+hx.Hex(hexEncode(nil, x, asciiStyle{})))
		c.Op("c05.enc.hex u "+hx.Hex(x), "ok "+hx.Hex(hexEncode(nil, x, asciiStyle{Upper: 1})))
		c.Op("c05.enc.a85 "+hx.Hex(x), "ok "+hx.Hex(a85Encode(nil, x, asciiStyle{})))
		colors, columns, rows := r.Range(1, 4), r.Range(1, 9), r.Range(0, 4)
		y, _ := content(r, colors*columns*rows, 0)
		tags := randomTags(r, 15, rows)
		c.Op(fmt.Sprintf("c05.enc.png %d %d %s %s", colors, columns, hx.Hex(tags), hx.Hex(y)), "ok "+hx.Hex(pngPredict(y, colors, columns, tags)))
		c.Op(fmt.Sprintf("c05.enc.tiff %d %d %s", colors, columns, hx.Hex(y)), "ok "+hx.Hex(tiffPredict(y, colors, columns)))
	}
	c.Count("spec-encoder-ops")
}

func init() { hx.Register("C05", Run, Replay) }

func Run(c *hx.Ctx) {
	c.Rep.Rule = "exhaustive: every byte string of length <= 3 over {00,01,7F,80,FF,z,~,>} through ASCIIHex/ASCII85 (canonical and white-space/case styled) and, tiled into rows, through Flate with Predictor {1,2,10..15} x Colors 1..4 x Columns 1..8 (quick tier: full for small geometries, every 23rd otherwise); all per-row PNG filter-type triples over a geometry grid; every string of length <= 4 (thorough 5/6) over alphabets of encoded characters fed raw to the ASCII decoders. random: pipelines of 1..3 stages of {Flate (no parms, Predictor 1, TIFF, PNG with independent per-row types), ASCIIHex, ASCII85} with full or abbreviated names, lengths 0..64 KiB, random/zero/FF/periodic/ramp/sparse content, Columns 1..700, Colors 1..4, DecodeParms as dict, array, null or absent, encoded by the harness's own encoders (from the PDF/PNG/TIFF specifications) and compress/zlib at five levels. expansion: the named contents (all-zero, all-0xFF, one row repeated) at 16 KiB and 64 KiB under no predictor / Predictor 1 / TIFF / PNG None / Up / mixed, then random plans over a ladder of lengths around the powers of two up to 64 KiB x compressible contents (constant, short period, repeated row, long runs, zeros before/after a random part, ramps, PDF-like text) x zlib levels x shapes (Flate alone, behind or before an ASCII filter, Flate over Flate, a predictor stage over a Flate stage), so that Flate stages expanding by every factor from 1 to ~1000 occur in every run. undecodable classes built by damaging conforming encodings in a way the specification forbids. byte classes of the ASCII filters: every byte value 0..255 at every kind of place of ASCIIHex data (for the high / low digit of a pair, between digits, first, right before the EOD marker, alone, after the EOD marker, in data without a marker) and of ASCII85 data (inside a group, between groups, first, before ~>, after ~>, for a digit of a full group, without a marker), written in either case with white space interleaved, decoded from the description and from a written dictionary: a digit joins the digits, white space changes nothing, an EOD marker ends the data there, bytes after the marker are not data, every other byte is an error; and chains of 1..3 stages in which one ASCII stage at any place carries a byte its filter does not allow (any of the 227 resp. 163 such bytes, anywhere before the marker) while the other stages are conforming: an error. dictionary level (c05.sd / c05.sess): every pipeline and every malformed variant again through a freshly written stream dictionary (other keys, shuffled key order, numbers as Int or Real), every parameter key x every kind of value (all object types, integers and Reals n +- 1/16, 1/2 around the values of interest), arbitrary object trees under Filter/DecodeParms, histories of 2..8 Decode() calls on 1..4 streams, and /CCITTFaxDecode dictionaries (K, Columns, Rows, BlackIs1 as Int/Real/other objects or absent) on Group-4 images written by the harness (T.6: white or a vertical stripe) with x/image/ccitt's own results for a grid of argument combinations. resource bounds of CCITTFaxDecode from both sides: Columns x Rows over {-2^62, -2^31-1, -1, 0, 1, 2, 8 and the Reals 0.5, 0.9375, 1.5, -0.5, -1.5, 8.5} x {-2^62, -2^31-1, -2, -1, 0, 1, 2, 3, -0.5, -1.5, 0.5, 2.5, absent} (every pair, every run); Group-4 images whose decoded size is exactly 2^26-1, 2^26 and 2^26+1 bytes (factorisations of these numbers into bytes-per-row x rows chosen by the seed), one row beyond, /Rows capping longer data at the bound, and 1..4 GiB images, all-white or striped, height given or detected (quick tier: one image per class on the implementation, bound and bound+1 also through the model; thorough: ten images, all through the model, c05.sdcz). non-trivial = decoded without error to a non-empty string; distinct by (Filter, DecodeParms, data)."
	exhaustiveSmall(c)
	rawAlphabets(c)
	tagTriples(c)
	undecodable(c)
	asciiByteClasses(c)
	specEncoders(c)
	RunDictLevel(c)
	n := c.N(1200, 12000)
	for i := 0; i < n; i++ {
		RunPipeline(c, i)
	}
	expansion(c)
	c.Rep.Exhaustive = false
}

// Replay re-runs one recorded failing case on the implementation.
func Replay(c *hx.Ctx, kase map[string]interface{}) {
	if replayCcittBound(c, kase) {
		return
	}
	if replayHeap(c, kase) {
		return
	}
	if replayDict(c, kase) {
		return
	}
	str := func(k string) string { s, _ := kase[k].(string); return s }
	f, err1 := parseFilt(str("filter"))
	p, err2 := parseParms(str("parms"))
	data, err3 := unhex(str("data"))
	if err1 != nil || err2 != nil || err3 != nil {
		c.Note("replay: cannot parse case: %v %v %v", err1, err2, err3)
		fmt.Println("replay: cannot parse case", err1, err2, err3)
		return
	}
	e := expect{key: str("key"), note: str("note")}
	want := str("want")
	switch {
	case want == "err":
		e.mustErr = true
	case strings.HasPrefix(want, "ok "):
		w, _ := unhex(want[3:])
		e.want, e.hasWant = w, true
	}
	out, ok, pan := decode(f, p, data)
	fmt.Printf("replay: Filter=%s DecodeParms=%s data=%s\n  expected: %s\n  actual:   %s\n", describeFilter(f), p.wire(), clip(hx.Hex(data)), clip(want), clip(replyOf(out, ok, pan)))
	run(c, "chain", f, p, data, nil, e)
}
