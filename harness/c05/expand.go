package c05

// Long, highly compressible inputs: the part of the quantifier "random up to 64 KiB incl.
// all-zero / all-0xFF / periodic rows" where the decoded data is tens to a thousand times
// larger than the encoded stream. The general pipeline stream (RunPipeline) reaches that
// corner only by accident: it needs the 64 KiB size class, a length in its upper part, one
// of the constant/periodic content classes and a compressing zlib level all at once. Here
// the size ladder, the content classes and the levels are chosen so that every run has Flate
// stages over the whole range of expansion factors deflate can reach (1:1 for stored blocks
// up to ~1030:1 for a constant run), at lengths around the powers of two up to 64 KiB, alone
// and inside chains, with and without predictors (including data that is only compressible
// *after* prediction: ramps under Sub/TIFF, repeated rows under Up).
//
// Expectations come from the statement only: decode(encode(x)) == x for the harness's own
// encoders and dictionary writer (checkPipeline). Nothing here looks at what tabula returns.

import (
	"compress/zlib"
	"fmt"

	"verifharness/hx"
)

// lengths around the places where an implementation's buffers, read chunks or size limits
// usually sit, up to the 64 KiB of the quantifier
var expandLadder = []int{1 << 10, 1 << 12, 1 << 13, 12 << 10, 1<<14 - 1, 1 << 14, 1<<14 + 1, 20000, 24 << 10,
	1<<15 - 1, 1 << 15, 1<<15 + 1, 40000, 48 << 10, 60000, 1<<16 - 1, 1 << 16}

var expandContents = []string{"zero", "ff", "const", "periodic", "rowperiodic", "runs", "zerotail", "zerohead", "ramp", "rowrepeat", "text"}

// compressibleContent fills n bytes of one of the compressible classes. rowLen/colors give
// the row geometry when the innermost stage has a predictor (0 otherwise).
func compressibleContent(r *hx.Rng, class string, n, rowLen, colors int) []byte {
	b := make([]byte, n)
	switch class {
	case "zero":
	case "ff":
		for i := range b {
			b[i] = 0xFF
		}
	case "const":
		v := byte(r.Range(1, 254))
		for i := range b {
			b[i] = v
		}
	case "periodic": // a short pattern (one pixel, a few bytes)
		period := r.Range(2, 9)
		if colors > 0 && r.Bool() {
			period = colors
		}
		pat := r.Bytes(period)
		for i := range b {
			b[i] = pat[i%period]
		}
	case "rowperiodic", "rowrepeat": // one random row, repeated (all-zero after the Up filter)
		period := rowLen
		if period == 0 {
			period = r.Range(16, 700)
		}
		pat := r.Bytes(period)
		for i := range b {
			b[i] = pat[i%period]
		}
	case "runs": // long runs of a few symbols
		for i := 0; i < n; {
			v := hx.Pick(r, []byte{0, 0, 0xFF, 1, 0x7F, 0x80, byte(r.Intn(256))})
			l := r.Range(200, 6000)
			for k := 0; k < l && i < n; k++ {
				b[i] = v
				i++
			}
		}
	case "zerotail": // a little incompressible data, then zeros to the end
		h := r.Intn(1025)
		if h > n {
			h = n
		}
		copy(b, r.Bytes(h))
	case "zerohead": // zeros, then a little incompressible data at the very end
		h := r.Intn(1025)
		if h > n {
			h = n
		}
		copy(b[n-h:], r.Bytes(h))
	case "ramp": // constant after the Sub filter / TIFF differencing with one colour
		step := byte(r.Range(1, 7))
		for i := range b {
			b[i] = byte(i) * step
		}
	case "text": // ordinary redundancy (ratios of a few to one), as a contrast
		words := [][]byte{[]byte("BT "), []byte("ET\n"), []byte("0 0 Td "), []byte("(Hello) Tj "), []byte("/F1 12 Tf "), []byte("1 0 0 1 72 720 Tm ")}
		for i := 0; i < n; {
			i += copy(b[i:], hx.Pick(r, words))
		}
	}
	return b
}

// mostly compressing levels; stored and Huffman-only blocks keep the low end of the range
var expandLevels = []int{zlib.BestSpeed, zlib.DefaultCompression, zlib.DefaultCompression, zlib.BestCompression, zlib.BestCompression,
	zlib.BestSpeed, zlib.HuffmanOnly, zlib.NoCompression}

type expandPlan struct {
	n       int
	class   string
	shape   string // "fl", "ascii>fl", "fl>ascii", "fl>fl", "ascii>fl>fl", "fl>fl+pred"
	pred    int    // predictor of the innermost Flate stage (0 none)
	level   int
	fixed   bool // from the deterministic grid
	uniform int  // PNG: -1 random tags, 0..4 every row the same type
}

// the deterministic part: the contents the statement names, at a middle and the top length,
// under every predictor family, at the default level
func expandGrid() []expandPlan {
	var g []expandPlan
	for _, class := range []string{"zero", "ff", "rowperiodic"} {
		for _, n := range []int{1 << 14, 1 << 16} {
			for _, pred := range []int{0, 1, 2, 10, 12, 15} {
				u := -1
				if pred >= 10 && pred <= 14 {
					u = pred - 10
				}
				g = append(g, expandPlan{n: n, class: class, shape: "fl", pred: pred, level: zlib.DefaultCompression, fixed: true, uniform: u})
			}
		}
	}
	return g
}

func ratioBucket(out, in int) string {
	if in == 0 {
		return "n/a"
	}
	q := out / in
	switch {
	case q < 2:
		return "<2"
	case q < 8:
		return "2-7"
	case q < 32:
		return "8-31"
	case q < 128:
		return "32-127"
	case q < 512:
		return "128-511"
	}
	return ">=512"
}

// RunExpansion generates case idx of the expansion stream and checks it.
func RunExpansion(c *hx.Ctx, idx int) {
	r := c.Rng.Fork(0xE7A).Fork(uint64(idx))
	grid := expandGrid()
	var pl expandPlan
	if idx < len(grid) {
		pl = grid[idx]
	} else {
		pl = expandPlan{
			n:       hx.Pick(r, expandLadder),
			class:   hx.Pick(r, expandContents),
			shape:   hx.Pick(r, []string{"fl", "fl", "fl", "fl", "ascii>fl", "fl>ascii", "fl>fl", "ascii>fl>fl", "fl>fl+pred"}),
			pred:    hx.Pick(r, []int{0, 0, 1, 2, 10, 11, 12, 13, 14, 15, 15}),
			level:   hx.Pick(r, expandLevels),
			uniform: -1,
		}
		if r.Chance(1, 3) {
			pl.n = r.Range(4096, 1<<16)
		}
		if pl.pred >= 10 && pl.pred <= 14 && r.Bool() {
			pl.uniform = pl.pred - 10
		}
		if pl.pred == 15 && r.Chance(1, 3) {
			pl.uniform = r.Intn(5)
		}
	}

	fl := func(pred int) stage {
		s := stage{Kind: "fl", Abbrev: r.Bool(), Colors: 1, Columns: 1, Level: pl.level, Pred: pred, Verbose: hx.Pick(r, []int{0, 0, 1, 2})}
		if pred >= 2 {
			s.Columns = 0 // chosen by buildChain from the length of the stage's input
		}
		return s
	}
	ascii := func() stage {
		s := stage{Kind: hx.Pick(r, []string{"hex", "a85"}), Abbrev: r.Bool(), Colors: 1, Columns: 1}
		s.Style = asciiStyle{Upper: r.Intn(3), DropZero: r.Chance(1, 4)}
		if r.Chance(1, 4) {
			s.Style.WS = r.Range(1, 3)
		}
		return s
	}
	var stages []stage
	n := pl.n
	switch pl.shape {
	case "fl":
		stages = []stage{fl(pl.pred)}
	case "ascii>fl":
		stages = []stage{ascii(), fl(pl.pred)}
	case "fl>ascii": // the Flate stage inflates to the ASCII text of x (two digits per byte at most)
		stages = []stage{fl(hx.Pick(r, []int{0, 0, 1})), ascii()}
		if n > 1<<15 {
			n = 1 << 15
		}
	case "fl>fl": // a compressed stream compressed again: only the inner stage expands much
		stages = []stage{fl(0), fl(pl.pred)}
		stages[0].Level = hx.Pick(r, expandLevels)
	case "ascii>fl>fl":
		stages = []stage{ascii(), fl(0), fl(pl.pred)}
	case "fl>fl+pred": // an outer predictor stage over the compressed form of the inner one
		stages = []stage{fl(hx.Pick(r, []int{2, 12, 15})), fl(pl.pred)}
	}

	// geometry of the innermost stage when it has a predictor: whole rows, n rounded down
	last := &stages[len(stages)-1]
	rowLen, colors := 0, 0
	if last.Kind == "fl" && last.Pred >= 2 {
		last.Colors = r.Range(1, 4)
		last.Columns = r.Range(1, 64)
		if r.Chance(1, 8) {
			last.Columns = r.Range(65, 700)
		}
		if pl.fixed {
			last.Colors, last.Columns = 1+idx%4, 64
		}
		rowLen, colors = last.Colors*last.Columns, last.Colors
		rows := n / rowLen
		if rows == 0 {
			rows = 1
		}
		n = rows * rowLen
		if last.Pred >= 10 {
			if pl.uniform >= 0 {
				last.Tags = make([]byte, rows)
				for i := range last.Tags {
					last.Tags[i] = byte(pl.uniform)
				}
			} else {
				last.Tags = randomTags(r, last.Pred, rows)
			}
		}
	}
	x := compressibleContent(r, pl.class, n, rowLen, colors)

	origin := fmt.Sprintf("seed=%d expansion=%d shape=%s level=%d", c.Seed, idx, pl.shape, pl.level)
	_, _, _, flIn, _ := checkPipeline(c, r, stages, x, "compressible-"+pl.class, origin, "-compressible")

	// the distribution over expansion factors that was actually reached (the harness's own
	// encoder output against what zlib gives back for it: no implementation involved)
	best := "n/a"
	order := []string{"n/a", "<2", "2-7", "8-31", "32-127", "128-511", ">=512"}
	rank := func(s string) int {
		for i, o := range order {
			if o == s {
				return i
			}
		}
		return 0
	}
	for _, z := range flIn {
		if out, ok := inflate(z); ok {
			if b := ratioBucket(len(out), len(z)); rank(b) > rank(best) {
				best = b
			}
		}
	}
	c.Count("expansion:max-flate-ratio " + best)
	c.Count("expansion:shape " + pl.shape)
}

func expansion(c *hx.Ctx) {
	n := c.N(len(expandGrid())+60, len(expandGrid())+600)
	for i := 0; i < n; i++ {
		RunExpansion(c, i)
	}
}
