package c05

// CCITTFaxDecode: tabula's wrapper (internal/filters/ccittfax.go) around x/image/ccitt.
// The CCITT codes are the library's business (a parameter of the model); what is modelled
// and compared here is the wrapper: which Columns / Rows / K / BlackIs1 it reads from the
// DecodeParms dictionary (getIntParam, getBoolParam, defaults 1728 / 0 / 0 / false), what it
// refuses (Columns < 1, Rows < 0) and which arguments it hands to ccitt.NewReader (Group 4 for
// K < 0, else Group 3; Invert = BlackIs1; height -1 = detect for Rows 0).
//
//   c05.sdc <dict> <data> <inflate table> <ccitt table>
//
// The ccitt table holds the library's own answer for a grid of argument combinations around the
// intended ones; the model looks up the combination it derives from the dictionary.

import (
	"bytes"
	"fmt"
	"io"
	"strings"
	"time"

	"golang.org/x/image/ccitt"

	"github.com/tsawler/tabula/core"

	"verifharness/hx"
)

// ccittLib calls the library directly; hung = it did not return within two seconds.
func ccittLib(g4, inv bool, columns, rows int, data []byte) (out []byte, ok, hung bool) {
	type res struct {
		out []byte
		ok  bool
	}
	ch := make(chan res, 1)
	go func() {
		var r res
		hx.Safe(func() {
			sf := ccitt.Group3
			if g4 {
				sf = ccitt.Group4
			}
			b, err := io.ReadAll(ccitt.NewReader(bytes.NewReader(data), ccitt.MSB, sf, columns, rows, &ccitt.Options{Invert: inv}))
			r = res{b, err == nil}
		})
		ch <- r
	}()
	select {
	case r := <-ch:
		return r.out, r.ok, false
	case <-time.After(2 * time.Second):
		return nil, false, true
	}
}

type bitBuf struct {
	b []byte
	n int
}

func (w *bitBuf) put(bits string) {
	for _, c := range bits {
		if w.n%8 == 0 {
			w.b = append(w.b, 0)
		}
		if c == '1' {
			w.b[len(w.b)-1] |= 0x80 >> uint(w.n%8)
		}
		w.n++
	}
}

// terminating codes of ITU-T T.4 table 2 for run lengths 0..7
var whiteRun = []string{"00110101", "000111", "0111", "1000", "1011", "1100", "1110", "1111"}
var blackRun = []string{"0000110111", "010", "11", "10", "011", "0011", "0010", "00011"}

// g4Stripe encodes (ITU-T T.6) an image of `rows` lines of `columns` pixels, white except for
// a vertical black stripe of width w starting at column a (w = 0: all white): the first line in
// horizontal mode, every further line as three (one for all white) V(0) codes, then EOFB.
func g4Stripe(columns, rows, a, w int, eofb bool) []byte {
	var bb bitBuf
	for r := 0; r < rows; r++ {
		switch {
		case w == 0:
			bb.put("1")
		case r == 0:
			bb.put("001" + whiteRun[a] + blackRun[w])
			if a+w < columns {
				bb.put("1")
			}
		default:
			bb.put("11")
			if a+w < columns {
				bb.put("1")
			}
		}
	}
	if eofb {
		bb.put("000000000001000000000001")
	}
	return bb.b
}

type ccittCase struct {
	Key  string `json:"key"`
	Dict string `json:"dict"`
	Data string `json:"data"`
	Want string `json:"want"`
	Note string `json:"note,omitempty"`
}

func ccittCases(c *hx.Ctx) {
	r0 := c.Rng.Fork(0xCC177)
	okCount, n := 0, c.N(600, 3000)
	for i := 0; i < n; i++ {
		r := r0.Fork(uint64(i))
		columns, rows := r.Range(1, 40), r.Range(1, 6)
		a, w := 0, 0
		if r.Bool() && columns >= 3 {
			a = r.Intn(min(columns-1, 8))
			w = r.Range(1, min(7, columns-a))
		}
		data := g4Stripe(columns, rows, a, w, r.Chance(4, 5))
		switch r.Intn(8) {
		case 0:
			data = r.Bytes(r.Range(0, 12))
		case 1:
			if len(data) > 0 {
				data = data[:r.Intn(len(data))]
			}
		}
		// the DecodeParms dictionary
		dc := deco{RealInts: r.Chance(1, 3), Fraction: r.Chance(1, 5)}
		var kvs []kv
		kTrue := hx.Pick(r, []int64{-1, -1, -1, -2, 0, 1, 4})
		wantCols, wantRows := int64(columns), int64(rows)
		if r.Chance(1, 4) {
			wantRows = 0 // height to be detected
		}
		switch r.Intn(10) {
		case 0:
			wantCols = int64(hx.Pick(r, []int{0, -1, -5}))
		case 1:
			wantRows = int64(-r.Range(1, 3))
		}
		if !r.Chance(1, 10) {
			kvs = append(kvs, kv{"Columns", number(r, wantCols, dc)})
		} else if r.Bool() {
			kvs = append(kvs, kv{"Columns", nonNumber(r)})
		}
		if wantRows != 0 || r.Bool() {
			kvs = append(kvs, kv{"Rows", number(r, wantRows, dc)})
		}
		if kTrue != 0 || r.Bool() {
			kvs = append(kvs, kv{"K", number(r, kTrue, dc)})
		}
		switch r.Intn(5) {
		case 0:
			kvs = append(kvs, kv{"BlackIs1", wBool(true)})
		case 1:
			kvs = append(kvs, kv{"BlackIs1", wBool(false)})
		case 2:
			kvs = append(kvs, kv{"BlackIs1", hx.Pick(r, []wo{wInt(1), wName("true"), wNull(), wStr("true")})})
		}
		hx.Shuffle(r, kvs)
		pd := wDict(kvs...)
		name := hx.Pick(r, []string{"CCITTFaxDecode", "CCF"})
		var d wo
		switch r.Intn(4) {
		case 0:
			d = wDict(kv{"Filter", wArr(wName(name))}, kv{"DecodeParms", wArr(pd)})
		case 1:
			if len(kvs) == 0 {
				d = wDict(kv{"Filter", wName(name)})
				break
			}
			fallthrough
		default:
			d = wDict(kv{"DecodeParms", pd}, kv{"Filter", wName(name)}, kv{"Length", wInt(int64(len(data)))})
		}
		// the library's answers around the intended arguments
		var ents []string
		hung := false
		for _, g4 := range []bool{true, false} {
			for _, inv := range []bool{false, true} {
				for _, cols := range []int{columns, columns + 1, 1728} {
					for _, rws := range []int{-1, rows, rows + 1} {
						out, ok, h := ccittLib(g4, inv, cols, rws, data)
						hung = hung || h
						o := "!"
						if ok {
							o = hx.Hex(out)
						}
						g, iv := "3", "0"
						if g4 {
							g = "4"
						}
						if inv {
							iv = "1"
						}
						ents = append(ents, fmt.Sprintf("%s%s:%d:%d:%s>%s", g, iv, cols, rws, hx.Hex(data), o))
					}
				}
			}
		}
		if hung {
			c.Count("ccitt:library-hung-skipped")
			continue
		}
		kase := ccittCase{Key: "C05/ccitt", Dict: d.w, Data: hx.Hex(data)}
		var out []byte
		var ok bool
		var pan string
		c.Guard("C05/ccitt", kase, 10, func() { out, ok, pan = decodeDict(d.o.(core.Dict), data) })
		c.Check("C05/panic-decode", pan == "", kase, func() string { return "Decode panicked: " + pan })
		reply := replyOf(out, ok, pan)
		c.Op("c05.sdc "+d.w+" "+hx.Hex(data)+" _ "+strings.Join(ents, ";"), reply)
		if cv, isNum := integralValueOf(kvs, "Columns"); isNum && cv < 1 {
			c.Check("C05/undecodable-ccitt-geometry", !ok, kase, func() string {
				return fmt.Sprintf("CCITTFaxDecode with Columns %d decoded without error: %s", cv, clip(reply))
			})
		}
		if ok {
			okCount++
		}
		c.Count(fmt.Sprintf("ccitt:ok=%v", ok))
		c.Case(fmt.Sprintf("ccitt|%s|%x", d.w, data), ok && len(out) > 0)
	}
	if okCount == 0 {
		c.Note("ccitt: no generated stream decoded; the wrapper's argument choice was not observable in this run")
	}
}

func integralValueOf(kvs []kv, key string) (int64, bool) {
	for _, e := range kvs {
		if e.k == key {
			return integralValue(e.v)
		}
	}
	return 0, false
}
