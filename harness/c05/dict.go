package c05

// Dictionary-level correspondence (model: lean/TabulaModel/Model/StreamDict.lean).
//
// The ops of c05.go hand the model a digested Filter / DecodeParms description; here the
// model gets the stream dictionary itself, as core.Objects: the key lookups of Decode, the
// type switches on Filter / DecodeParms / the array elements, dictToParams and getIntParam
// (Int, Real with int(v) truncation, anything else = default) are all on the model's side.
//
//   c05.sd   <dict> <data> <table>                      one Decode()
//   c05.sess <calls> <table> <dict1> <data1> <dict2> …  a history of Decode() calls on a set
//                                                       of *core.Stream values
//
// wire form of an object: N (Go nil) | z | T | F | i<int> | r<m>/<e> (Real m/2^e) | s<hex> | n<hex> |
// o (indirect reference / stream) | a[obj,…] | d[hexkey=obj,…]

import (
	"bytes"
	"fmt"
	"math"
	"strconv"
	"strings"

	"github.com/tsawler/tabula/core"

	"verifharness/hx"
)

// wo is an object together with its wire form.
type wo struct {
	w string
	o core.Object
}

func wNull() wo { return wo{"z", core.Null{}} }

// wNil is a Go nil interface stored as a value (no parser produces it; a program can)
func wNil() wo { return wo{"N", nil} }
func wBool(b bool) wo {
	if b {
		return wo{"T", core.Bool(true)}
	}
	return wo{"F", core.Bool(false)}
}
func wInt(n int64) wo { return wo{"i" + strconv.FormatInt(n, 10), core.Int(n)} }

// wReal is the float64 m / 2^e (exact for |m| < 2^53, e <= 60).
func wReal(m int64, e uint) wo {
	return wo{fmt.Sprintf("r%d/%d", m, e), core.Real(math.Ldexp(float64(m), -int(e)))}
}
func wStr(s string) wo  { return wo{"s" + hx.HexS(s), core.String(s)} }
func wName(s string) wo { return wo{"n" + hx.HexS(s), core.Name(s)} }
func wOther(k int) wo {
	if k%2 == 0 {
		return wo{"o", core.IndirectRef{Number: 5 + k, Generation: 0}}
	}
	return wo{"o", &core.Stream{Dict: core.Dict{}, Data: []byte("x")}}
}
func wArr(xs ...wo) wo {
	ws := make([]string, len(xs))
	arr := core.Array{}
	for i, x := range xs {
		ws[i] = x.w
		arr = append(arr, x.o)
	}
	return wo{"a[" + strings.Join(ws, ",") + "]", arr}
}

type kv struct {
	k string
	v wo
}

// wDict: keys must be distinct (a Go map has one value per key).
func wDict(kvs ...kv) wo {
	ws := make([]string, len(kvs))
	d := core.Dict{}
	for i, e := range kvs {
		ws[i] = hx.HexS(e.k) + "=" + e.v.w
		d[e.k] = e.v.o
	}
	return wo{"d[" + strings.Join(ws, ",") + "]", d}
}

// parseWo reads the wire form back (for replay).
func parseWo(s string) (wo, string, error) {
	bad := func() (wo, string, error) { return wo{}, "", fmt.Errorf("bad object at %q", clip(s)) }
	if s == "" {
		return bad()
	}
	span := func(t string, ok func(byte) bool) (string, string) {
		i := 0
		for i < len(t) && ok(t[i]) {
			i++
		}
		return t[:i], t[i:]
	}
	isNum := func(b byte) bool { return b == '-' || (b >= '0' && b <= '9') }
	isHex := func(b byte) bool { return b == '-' || (b >= '0' && b <= '9') || (b >= 'a' && b <= 'f') }
	switch s[0] {
	case 'N':
		return wNil(), s[1:], nil
	case 'z':
		return wNull(), s[1:], nil
	case 'T':
		return wBool(true), s[1:], nil
	case 'F':
		return wBool(false), s[1:], nil
	case 'o':
		return wOther(0), s[1:], nil
	case 'i':
		num, rest := span(s[1:], isNum)
		n, err := strconv.ParseInt(num, 10, 64)
		if err != nil {
			return bad()
		}
		return wInt(n), rest, nil
	case 'r':
		num, rest := span(s[1:], isNum)
		if !strings.HasPrefix(rest, "/") {
			return bad()
		}
		ex, rest := span(rest[1:], isNum)
		m, err1 := strconv.ParseInt(num, 10, 64)
		e, err2 := strconv.ParseUint(ex, 10, 32)
		if err1 != nil || err2 != nil {
			return bad()
		}
		return wReal(m, uint(e)), rest, nil
	case 's', 'n':
		h, rest := span(s[1:], isHex)
		b, err := unhex(h)
		if err != nil {
			return bad()
		}
		if s[0] == 's' {
			return wStr(string(b)), rest, nil
		}
		return wName(string(b)), rest, nil
	case 'a':
		if !strings.HasPrefix(s, "a[") {
			return bad()
		}
		rest := s[2:]
		var xs []wo
		if strings.HasPrefix(rest, "]") {
			return wArr(), rest[1:], nil
		}
		for {
			x, r, err := parseWo(rest)
			if err != nil {
				return bad()
			}
			xs = append(xs, x)
			if strings.HasPrefix(r, ",") {
				rest = r[1:]
				continue
			}
			if strings.HasPrefix(r, "]") {
				return wArr(xs...), r[1:], nil
			}
			return bad()
		}
	case 'd':
		if !strings.HasPrefix(s, "d[") {
			return bad()
		}
		rest := s[2:]
		var kvs []kv
		if strings.HasPrefix(rest, "]") {
			return wDict(), rest[1:], nil
		}
		for {
			h, r := span(rest, isHex)
			k, err := unhex(h)
			if err != nil || !strings.HasPrefix(r, "=") {
				return bad()
			}
			x, r, err := parseWo(r[1:])
			if err != nil {
				return bad()
			}
			kvs = append(kvs, kv{string(k), x})
			if strings.HasPrefix(r, ",") {
				rest = r[1:]
				continue
			}
			if strings.HasPrefix(r, "]") {
				return wDict(kvs...), r[1:], nil
			}
			return bad()
		}
	}
	return bad()
}

func parseDictWire(s string) (wo, error) {
	x, rest, err := parseWo(s)
	if err != nil {
		return x, err
	}
	if _, ok := x.o.(core.Dict); !ok || rest != "" {
		return x, fmt.Errorf("not a dictionary: %q", clip(s))
	}
	return x, nil
}

// ---- from the digested description to a dictionary, with a writer's freedoms -------------

// deco says which freedoms the dictionary writer uses.
type deco struct {
	Extra    bool // other keys in the stream dictionary and in parameter dictionaries
	Shuffle  bool // key order
	RealInts bool // numbers written as Reals with an integral value
	Fraction bool // numbers written as Reals with a fraction (int(v) truncates; tolerated, not conforming)
	Others   bool // vary the type of non-name / non-dict objects
}

// a non-numeric object for a parameter value
func nonNumber(r *hx.Rng) wo {
	switch r.Intn(9) {
	case 8:
		return wNil()
	case 0:
		return wName("x")
	case 1:
		return wNull()
	case 2:
		return wBool(r.Bool())
	case 3:
		return wStr("12")
	case 4:
		return wArr(wInt(12))
	case 5:
		return wDict(kv{"Predictor", wInt(12)})
	case 6:
		return wName("12")
	}
	return wOther(r.Intn(2))
}

// an object that is neither a Name nor an Array (Filter), resp. neither Dict, Null nor Array
func nonName(r *hx.Rng, vary bool) wo {
	if !vary {
		return wInt(7)
	}
	switch r.Intn(7) {
	case 0:
		return wInt(7)
	case 1:
		return wNull()
	case 2:
		return wStr("FlateDecode")
	case 3:
		return wDict(kv{"Filter", wName("AHx")})
	case 4:
		return wReal(3, 1)
	case 5:
		return wBool(true)
	}
	return wOther(r.Intn(2))
}

func nonDict(r *hx.Rng, vary bool) wo {
	if !vary {
		return wInt(7)
	}
	switch r.Intn(6) {
	case 0:
		return wInt(12)
	case 1:
		return wName("Predictor")
	case 2:
		return wStr("<</Predictor 12>>")
	case 3:
		return wReal(24, 1)
	case 4:
		return wBool(false)
	}
	return wOther(r.Intn(2))
}

// number writes the integer n as an Int or, by the decoration, as a Real.
func number(r *hx.Rng, n int64, dc deco) wo {
	if n <= -(1<<40) || n >= 1<<40 { // keep m = n*2^e exact in a float64
		return wInt(n)
	}
	if dc.Fraction && r.Chance(1, 2) {
		e := uint(r.Range(1, 8))
		frac := int64(r.Range(1, (1<<e)-1))
		if n < 0 || (n == 0 && r.Bool()) {
			return wReal(n*(1<<e)-frac, e) // -0.5 truncates to 0, -3.25 to -3
		}
		return wReal(n*(1<<e)+frac, e)
	}
	if dc.RealInts && r.Chance(1, 2) {
		e := uint(r.Intn(6))
		return wReal(n*(1<<e), e)
	}
	return wInt(n)
}

var extraKeys = []string{"Length", "Type", "K", "EarlyChange", "Rows", "BlackIs1", "predictor", "Predictor ", "Colours", "Column", "DecodeParams", "Filters", "DL", "F"}

func extras(r *hx.Rng, have map[string]bool, kvs []kv) []kv {
	for n := r.Intn(4); n > 0; n-- {
		k := hx.Pick(r, extraKeys)
		if have[k] {
			continue
		}
		have[k] = true
		var v wo
		switch r.Intn(5) {
		case 0:
			v = wInt(int64(r.Range(-3, 40)))
		case 1:
			v = wName("XRef")
		case 2:
			v = wBool(r.Bool())
		case 3:
			v = wNull()
		default:
			v = wArr(wName("AHx"), wInt(15))
		}
		kvs = append(kvs, kv{k, v})
	}
	return kvs
}

func finishDict(r *hx.Rng, kvs []kv, have map[string]bool, dc deco) wo {
	if dc.Extra {
		kvs = extras(r, have, kvs)
	}
	if dc.Shuffle {
		hx.Shuffle(r, kvs)
	}
	return wDict(kvs...)
}

// pobjWo writes one DecodeParms object; ok=false for an absent one.
func pobjWo(r *hx.Rng, o pobj, dc deco) (wo, bool) {
	switch o.Kind {
	case "~":
		return wo{}, false
	case "z":
		return wNull(), true
	case "o":
		return nonDict(r, dc.Others), true
	}
	var kvs []kv
	have := map[string]bool{}
	for i, f := range o.P {
		have[parmKeys[i]] = true
		switch {
		case f == "~":
			have[parmKeys[i]] = false
		case f == "x":
			if dc.Others {
				kvs = append(kvs, kv{parmKeys[i], nonNumber(r)})
			} else {
				kvs = append(kvs, kv{parmKeys[i], wName("x")})
			}
		case strings.HasSuffix(f, "r"):
			n, _ := strconv.ParseInt(strings.TrimSuffix(f, "r"), 10, 64)
			d2 := dc
			d2.RealInts = true
			v := number(r, n, d2)
			if _, isInt := v.o.(core.Int); isInt {
				v = wReal(n, 0)
			}
			kvs = append(kvs, kv{parmKeys[i], v})
		default:
			n, _ := strconv.ParseInt(f, 10, 64)
			kvs = append(kvs, kv{parmKeys[i], number(r, n, dc)})
		}
	}
	return finishDict(r, kvs, have, dc), true
}

// dictWo writes the stream dictionary for (f, p): the same Filter / DecodeParms as
// dictOf(f, p) means, using the freedoms of dc.
func dictWo(r *hx.Rng, f filt, p parms, dc deco) wo {
	kvs := []kv{}
	have := map[string]bool{"Filter": true, "DecodeParms": true}
	if !dc.Extra || r.Bool() {
		kvs = append(kvs, kv{"Length", wInt(0)})
		have["Length"] = true
	}
	switch f.Kind {
	case "o":
		kvs = append(kvs, kv{"Filter", nonName(r, dc.Others)})
	case "n":
		kvs = append(kvs, kv{"Filter", wName(f.Elems[0])})
	case "a":
		var xs []wo
		for i, e := range f.Elems {
			if f.Other[i] {
				x := nonName(r, dc.Others)
				if dc.Others && r.Chance(1, 4) {
					x = wArr(wName("AHx")) // an array inside the Filter array is not a name either
				}
				xs = append(xs, x)
			} else {
				xs = append(xs, wName(e))
			}
		}
		kvs = append(kvs, kv{"Filter", wArr(xs...)})
	}
	if p.Array {
		var xs []wo
		for _, e := range p.Elems {
			x, ok := pobjWo(r, e, dc)
			if !ok {
				x = wNull() // dictOf: an absent element of the array is written as null
			}
			xs = append(xs, x)
		}
		kvs = append(kvs, kv{"DecodeParms", wArr(xs...)})
	} else if x, ok := pobjWo(r, p.One, dc); ok {
		kvs = append(kvs, kv{"DecodeParms", x})
	}
	return finishDict(r, kvs, have, dc)
}

// ---- running one stream dictionary -------------------------------------------------------

type dictCase struct {
	Key  string `json:"key"`
	Dict string `json:"dict"`
	Data string `json:"data"`
	Want string `json:"want"`
	Note string `json:"note,omitempty"`
}

func decodeDict(d core.Dict, data []byte) (out []byte, ok bool, pan string) {
	var err error
	pan = hx.Safe(func() {
		out, err = (&core.Stream{Dict: d, Data: data}).Decode()
	})
	return out, pan == "" && err == nil, pan
}

// inflateTableDict: zlib's answer for every input a Flate stage of the dictionary's chain can
// be given (found by decoding the filter prefixes with the implementation), plus `known`.
func inflateTableDict(d core.Dict, data []byte, known [][]byte) string {
	var ents []string
	seen := map[string]bool{}
	add := func(in []byte) {
		if seen[string(in)] {
			return
		}
		seen[string(in)] = true
		out, ok := inflate(in)
		o := "!"
		if ok {
			o = hx.Hex(out)
		}
		ents = append(ents, hx.Hex(in)+">"+o)
	}
	for _, k := range known {
		add(k)
	}
	switch fo := d["Filter"].(type) {
	case core.Name:
		if isFlate(string(fo)) {
			add(data)
		}
	case core.Array:
		cur := data
		for i, el := range fo {
			nm, ok := el.(core.Name)
			if !ok {
				break
			}
			if isFlate(string(nm)) {
				add(cur)
			}
			if i+1 < len(fo) {
				d2 := core.Dict{}
				for k, v := range d {
					d2[k] = v
				}
				d2["Filter"] = fo[:i+1]
				out, ok, _ := decodeDict(d2, data)
				if !ok {
					break
				}
				cur = out
			}
		}
	}
	if len(ents) == 0 {
		return "_"
	}
	return strings.Join(ents, ";")
}

// runDict decodes (dict, data) with the implementation, records the c05.sd op and applies
// the oracle.
func runDict(c *hx.Ctx, d wo, data []byte, known [][]byte, e expect) ([]byte, bool) {
	dict := d.o.(core.Dict)
	out, ok, pan := decodeDict(dict, data)
	reply := replyOf(out, ok, pan)
	kase := dictCase{Key: e.key, Dict: d.w, Data: hx.Hex(data), Note: e.note}
	if e.hasWant {
		kase.Want = "ok " + hx.Hex(e.want)
	} else if e.mustErr {
		kase.Want = "err"
	}
	c.Check("C05/panic-decode", pan == "", kase, func() string { return "Decode panicked: " + pan })
	table := inflateTableDict(dict, data, known)
	c.Op("c05.sd "+d.w+" "+hx.Hex(data)+" "+table, reply)
	litDict(c, d.w, data, table, reply)
	if e.hasWant {
		c.Check(e.key, ok && bytes.Equal(out, e.want), kase, func() string {
			return fmt.Sprintf("decode(encode(x)) != x: dict=%s data=%s: got %s want ok %s", clip(d.w), clip(hx.Hex(data)), clip(reply), clip(hx.Hex(e.want)))
		})
	}
	if e.mustErr {
		c.Check(e.key, !ok, kase, func() string {
			return fmt.Sprintf("undecodable data (%s) decoded without error: dict=%s data=%s: got %s", e.note, clip(d.w), clip(hx.Hex(data)), clip(reply))
		})
	}
	return out, ok
}

// stagesWire is the pipeline in the form the model's checker `conformingB` reads.
func stagesWire(stages []stage) string {
	if len(stages) == 0 {
		return "_"
	}
	b2 := func(b bool) string {
		if b {
			return "1"
		}
		return "0"
	}
	ws := make([]string, len(stages))
	for i, s := range stages {
		switch {
		case s.Kind == "hex":
			ws[i] = "h" + b2(s.Abbrev)
		case s.Kind == "a85":
			ws[i] = "a" + b2(s.Abbrev)
		case s.Pred == 2:
			ws[i] = fmt.Sprintf("t%s:%d:%d", b2(s.Abbrev), s.Colors, s.Columns)
		case s.Pred >= 10:
			ws[i] = fmt.Sprintf("p%s:%d:%d:%d:%s", b2(s.Abbrev), s.Pred, s.Colors, s.Columns, hx.Hex(s.Tags))
		default:
			ws[i] = "f" + b2(s.Abbrev)
		}
	}
	return strings.Join(ws, ",")
}

// pipelineWrites: the encodings the harness's encoders (written from the specifications, with
// their white-space / case / dropped-zero styles) produced for a pipeline must satisfy the
// hypothesis `ChainWrites` of the end-to-end theorem: the model's checker chainWritesL says
// so on the intermediates. An ASCII85 stage in the NoZ style (!!!!! for a zero group, which
// §7.4.3 forbids) is outside `A85Writing`: then the answer is whatever the checker says.
func pipelineWrites(c *hx.Ctx, stages []stage, flIn [][]byte, mids [][]byte) {
	total := 0
	for _, m := range mids {
		total += len(m)
	}
	if total > 20000 {
		return
	}
	want := "true"
	for i, s := range stages {
		if s.Kind == "a85" && s.Style.NoZ {
			// conforming only if the stage's input has no all-zero group
			in := mids[len(stages)-1-i]
			for k := 0; k+4 <= len(in); k += 4 {
				if in[k] == 0 && in[k+1] == 0 && in[k+2] == 0 && in[k+3] == 0 {
					want = "false"
				}
			}
		}
	}
	var ents []string
	for _, z := range flIn {
		if out, ok := inflate(z); ok {
			ents = append(ents, hx.Hex(z)+">"+hx.Hex(out))
		}
	}
	tab := "_"
	if len(ents) > 0 {
		tab = strings.Join(ents, ";")
	}
	ms := make([]string, len(mids))
	for i := range mids {
		ms[i] = hx.Hex(mids[len(mids)-1-i])
	}
	c.Op("c05.writes "+stagesWire(stages)+" "+tab+" "+strings.Join(ms, " "), want)
	c.Count("writes-checked:" + want)
	// the lenient hypothesis `ChainWritesLax` (Props/C05Lax.lean) covers the NoZ style too
	c.Op("c05.writeslax "+stagesWire(stages)+" "+tab+" "+strings.Join(ms, " "), "true")
}

// conformingDeco: freedoms a conforming writer has (the oracle still demands the round trip).
func conformingDeco(r *hx.Rng) deco {
	return deco{Extra: r.Bool(), Shuffle: r.Bool(), RealInts: r.Chance(1, 3), Others: true}
}

// pipelineDict re-runs a pipeline case of RunPipeline through a freshly written dictionary.
func pipelineDict(c *hx.Ctx, r *hx.Rng, stages []stage, f filt, p parms, data []byte, known [][]byte, e expect) {
	dc := conformingDeco(r)
	e.key = "C05/roundtrip-dict" + e.suffix
	d := dictWo(r, f, p, dc)
	runDict(c, d, data, known, e)
	// the dictionary this writer (written from §7.3.8.2 / §7.4) produced must satisfy the
	// hypothesis `Conforming` of the end-to-end theorem: the model's checker says so
	c.Op("c05.conf "+stagesWire(stages)+" "+d.w, "true")
	c.Count(fmt.Sprintf("dict:conforming extra=%v shuffle=%v realints=%v", dc.Extra, dc.Shuffle, dc.RealInts))
	if r.Chance(1, 5) {
		// numbers with a fraction: what getIntParam makes of them is the model's business;
		// the property text does not speak about them (no expectation)
		dc.Fraction = true
		runDict(c, dictWo(r, f, p, dc), data, known, noExpect)
		c.Count("dict:fractional-reals")
	}
}

// ---- every kind of value under every parameter key ------------------------------------------

func paramValues(thorough bool) []wo {
	vs := []wo{wNil(), wNull(), wBool(true), wBool(false), wName("12"), wName("x"), wStr("12"), wStr(""), wArr(), wArr(wInt(12)),
		wDict(), wDict(kv{"Predictor", wInt(2)}), wOther(0), wOther(1)}
	ints := []int64{-1 << 63, -1 << 31, -2, -1, 0, 1, 2, 3, 4, 5, 6, 7, 8, 9, 10, 11, 12, 13, 14, 15, 16, 17, 255, 256, 1 << 31, 1<<31 - 1, 1 << 40, 1<<63 - 1}
	for _, n := range ints {
		vs = append(vs, wInt(n))
	}
	// Reals m / 2^e around every integer of interest: n-1/2, n-1/16, n, n+1/16, n+1/2, n+15/16
	base := []int64{-2, -1, 0, 1, 2, 3, 4, 6, 8, 9, 10, 12, 15, 16}
	if thorough {
		base = append(base, 5, 7, 11, 13, 14, 17, 255, 1<<31, 1<<40)
	}
	for _, n := range base {
		for _, q := range []int64{-8, -1, 0, 1, 8, 15} {
			vs = append(vs, wReal(n*16+q, 4))
		}
	}
	vs = append(vs, wReal(1, 60), wReal(-1, 60), wReal(1<<52, 0), wReal(-(1 << 52), 0), wReal(3, 0), wReal(12, 0), wReal(96, 3))
	return vs
}

// paramKinds: for a PNG, a TIFF and a plain Flate stream, replace the value of one parameter
// key by every value of paramValues (the other keys keep their right values), as a single
// dictionary and as an element of a DecodeParms array.
func paramKinds(c *hx.Ctx) {
	r := c.Rng.Fork(0xD1C7)
	type base struct {
		pred, colors, columns int64
		x, enc                []byte
	}
	x := []byte{10, 20, 30, 200, 210, 220, 1, 2, 3, 4, 5, 6}
	bases := []base{
		{12, 3, 2, x, deflate(pngPredict(x, 3, 2, []byte{4, 3}), 1)},
		{15, 1, 4, x, deflate(pngPredict(x, 1, 4, []byte{1, 2, 4}), 1)},
		{2, 3, 2, x, deflate(tiffPredict(x, 3, 2), 1)},
		{2, 1, 1, x, deflate(tiffPredict(x, 1, 1), 1)},
		{1, 1, 1, x, deflate(x, 1)},
	}
	vals := paramValues(c.Thorough())
	for bi, b := range bases {
		right := map[string]int64{"Predictor": b.pred, "Colors": b.colors, "Columns": b.columns, "BitsPerComponent": 8}
		for _, key := range parmKeys {
			for vi, v := range append([]wo{{}}, vals...) { // first: key absent
				var kvs []kv
				for _, k := range parmKeys {
					switch {
					case k != key:
						kvs = append(kvs, kv{k, wInt(right[k])})
					case v.w != "":
						kvs = append(kvs, kv{k, v})
					}
				}
				hx.Shuffle(r, kvs)
				pd := wDict(kvs...)
				var d wo
				if (bi+vi)%3 == 0 {
					d = wDict(kv{"Filter", wArr(wName("Fl"))}, kv{"DecodeParms", wArr(pd)})
				} else {
					d = wDict(kv{"DecodeParms", pd}, kv{"Filter", wName("FlateDecode")})
				}
				// the oracle speaks only where the property text does: an integer (or a Real
				// with an integral value) equal to the right value, or absent with the right
				// value being the default, must give x back; a Predictor that is an integer
				// outside {1,2,10..15} must be refused
				e := noExpect
				dflt := map[string]int64{"Predictor": 1, "Colors": 1, "Columns": 1, "BitsPerComponent": 8}[key]
				n, isNum := integralValue(v)
				switch {
				case v.w == "":
					if right[key] == dflt {
						e = wantBytes("C05/roundtrip-dict", b.x)
					}
				case !isNum:
				case n == right[key], key == "Predictor" && n >= 10 && n <= 15 && b.pred >= 10:
					e = wantBytes("C05/roundtrip-dict", b.x)
				case key == "Predictor" && !(n == 1 || n == 2 || (n >= 10 && n <= 15)):
					e = wantErr("C05/undecodable-predictor", fmt.Sprintf("Predictor %d", n))
				case key == "BitsPerComponent" && n != 8 && b.pred != 1:
					e = wantErr("C05/undecodable-bpc", fmt.Sprintf("BitsPerComponent %d", n))
				case (key == "Colors" || key == "Columns") && n < 1 && b.pred != 1:
					e = wantErr("C05/undecodable-geometry", fmt.Sprintf("%s %d", key, n))
				}
				e.note = fmt.Sprintf("base=%d key=%s value=%s", bi, key, v.w)
				_, ok := runDict(c, d, b.enc, nil, e)
				c.Case(fmt.Sprintf("pk|%d|%s|%s", bi, key, v.w), ok)
			}
		}
	}
	c.Count("exhaustive:param-key-x-value-kind")
}

// integralValue: the integer a conforming reader sees in v (an Int, or a Real whose value is
// an integer); ok=false for everything else.
func integralValue(v wo) (int64, bool) {
	switch t := v.o.(type) {
	case core.Int:
		return int64(t), true
	case core.Real:
		f := float64(t)
		if f == math.Trunc(f) && math.Abs(f) < 1<<62 {
			return int64(f), true
		}
	}
	return 0, false
}

// ---- arbitrary objects under Filter / DecodeParms ------------------------------------------

func junkObj(r *hx.Rng, depth int) wo {
	n := 9
	if depth <= 0 {
		n = 7
	}
	if r.Chance(1, 12) {
		return wNil()
	}
	switch r.Intn(n) {
	case 0:
		return wNull()
	case 1:
		return wName(hx.Pick(r, []string{"AHx", "A85", "Fl", "FlateDecode", "ASCIIHexDecode", "ASCII85Decode", "DCT", "LZW", "Crypt", "", "Foo"}))
	case 2:
		return wInt(int64(r.Range(-2, 16)))
	case 3:
		return wReal(int64(r.Range(-40, 300)), uint(r.Intn(5)))
	case 4:
		return wBool(r.Bool())
	case 5:
		return wStr(hx.Pick(r, []string{"", "AHx", "12"}))
	case 6:
		return wOther(r.Intn(2))
	case 7:
		xs := make([]wo, r.Intn(4))
		for i := range xs {
			xs[i] = junkObj(r, depth-1)
		}
		return wArr(xs...)
	}
	var kvs []kv
	have := map[string]bool{}
	for i := r.Intn(5); i > 0; i-- {
		k := hx.Pick(r, []string{"Predictor", "Colors", "Columns", "BitsPerComponent", "Filter", "DecodeParms", "K"})
		if have[k] {
			continue
		}
		have[k] = true
		kvs = append(kvs, kv{k, junkObj(r, depth-1)})
	}
	return wDict(kvs...)
}

// junkDicts: stream dictionaries whose Filter / DecodeParms are arbitrary object trees
// (mostly not conforming); data is a small ASCII/Flate encoding. Correspondence only.
func junkDicts(c *hx.Ctx) {
	r := c.Rng.Fork(0x1A2B)
	for i := 0; i < c.N(4000, 20000); i++ {
		x := r.Bytes(r.Intn(9))
		var data []byte
		switch r.Intn(4) {
		case 0:
			data = hexEncode(r, x, asciiStyle{WS: r.Intn(3)})
		case 1:
			data = a85Encode(r, x, asciiStyle{})
		case 2:
			data = deflate(x, 1)
		default:
			data = hexEncode(nil, a85Encode(nil, x, asciiStyle{}), asciiStyle{})
		}
		var kvs []kv
		if r.Chance(9, 10) {
			kvs = append(kvs, kv{"Filter", junkObj(r, 2)})
		}
		if r.Chance(2, 3) {
			kvs = append(kvs, kv{"DecodeParms", junkObj(r, 2)})
		}
		if r.Bool() {
			kvs = append(kvs, kv{"Length", wInt(int64(len(data)))})
		}
		hx.Shuffle(r, kvs)
		_, ok := runDict(c, wDict(kvs...), data, nil, noExpect)
		c.Count(fmt.Sprintf("junk-dict:ok=%v", ok))
		c.Case("", false)
	}
}

// ---- histories of Decode() calls -----------------------------------------------------------

type sessCase struct {
	Key     string   `json:"key"`
	Streams []string `json:"streams"` // dict, data, dict, data, …
	Calls   []int    `json:"calls"`
	Note    string   `json:"note,omitempty"`
}

type sessStream struct {
	d     wo
	data  []byte
	known [][]byte
}

// smallStream: a short conforming pipeline (or a damaged one) as a dictionary and data.
func smallStream(r *hx.Rng) sessStream {
	nst := r.Range(0, 3)
	stages := make([]stage, nst)
	for i := range stages {
		stages[i] = randomStage(r)
	}
	n := r.Intn(33)
	if nst > 0 {
		last := &stages[nst-1]
		if last.Kind == "fl" && last.Pred >= 2 {
			last.Colors, last.Columns = r.Range(1, 3), r.Range(1, 5)
			rows := r.Range(0, 3)
			n = rows * last.Colors * last.Columns
			if last.Pred >= 10 {
				last.Tags = randomTags(r, last.Pred, rows)
			}
		}
	}
	x, _ := content(r, n, 0)
	data, flIn := buildChain(r, stages, x)
	f, p := filt{Kind: "~"}, parms{One: pobj{Kind: "~"}}
	if nst > 0 {
		f, p, _ = shapes(r, stages)
	}
	if r.Chance(1, 5) && len(data) > 0 {
		data = append([]byte(nil), data...)
		data[r.Intn(len(data))] ^= 0x41
	}
	return sessStream{d: dictWo(r, f, p, conformingDeco(r)), data: data, known: flIn}
}

// notConforming: dictionaries that do NOT describe the pipeline (a wrong name, a missing or
// wrong parameter): the checker must say false. (The property makes no claim about them.)
func notConforming(c *hx.Ctx) {
	png := "p0:12:2:3:0204"
	pd := func(kvs ...kv) wo { return wDict(kvs...) }
	full := pd(kv{"Predictor", wInt(12)}, kv{"Colors", wInt(2)}, kv{"Columns", wInt(3)})
	cases := []struct {
		stages string
		d      wo
	}{
		{png, wDict(kv{"Filter", wName("FlateDecode")})},                                                             // parameters missing
		{png, wDict(kv{"Filter", wName("Fl")}, kv{"DecodeParms", full})},                                            // abbreviated where the stage says full
		{png, wDict(kv{"Filter", wName("FlateDecode")}, kv{"DecodeParms", pd(kv{"Predictor", wInt(12)}, kv{"Columns", wInt(3)})})}, // Colors 2 left out
		{png, wDict(kv{"Filter", wName("FlateDecode")}, kv{"DecodeParms", pd(kv{"Predictor", wReal(25, 1)}, kv{"Colors", wInt(2)}, kv{"Columns", wInt(3)})})}, // 12.5
		{png, wDict(kv{"Filter", wName("FlateDecode")}, kv{"DecodeParms", wArr(full)})},                               // array next to a name
		{"h1," + png, wDict(kv{"Filter", wArr(wName("AHx"), wName("FlateDecode"))}, kv{"DecodeParms", wArr(full)})}, // entry at the wrong index
		{"h1," + png, wDict(kv{"Filter", wArr(wName("FlateDecode"), wName("AHx"))}, kv{"DecodeParms", wArr(full, wNull())})}, // order
		{"h1", wDict()},                     // no Filter
		{"_", wDict(kv{"Filter", wArr(wName("AHx"))})}, // a filter too many
		{"f0", wDict(kv{"Filter", wName("FlateDecode")}, kv{"DecodeParms", pd(kv{"Predictor", wInt(2)})})}, // a predictor the stage does not have
		{"t0:1:4", wDict(kv{"Filter", wName("FlateDecode")}, kv{"DecodeParms", pd(kv{"Predictor", wInt(2)}, kv{"Columns", wInt(4)}, kv{"BitsPerComponent", wInt(4)})})},
	}
	for _, k := range cases {
		c.Op("c05.conf "+k.stages+" "+k.d.w, "false")
	}
	c.Count("not-conforming-dicts")
}

// runSession performs the calls on one set of *core.Stream values and checks, from the
// statement alone, that the history does not matter: a stream decodes to the same result
// every time, no call changes a stream, and no call changes bytes returned earlier.
func runSession(c *hx.Ctx, ss []sessStream, calls []int, note string) bool {
	kase := sessCase{Key: "C05/history", Calls: calls, Note: note}
	var wires []string
	streams := make([]*core.Stream, len(ss))
	origData := make([][]byte, len(ss))
	var table []string
	for i, s := range ss {
		kase.Streams = append(kase.Streams, s.d.w, hx.Hex(s.data))
		wires = append(wires, s.d.w, hx.Hex(s.data))
		streams[i] = &core.Stream{Dict: s.d.o.(core.Dict), Data: append([]byte(nil), s.data...)}
		origData[i] = append([]byte(nil), s.data...)
		if t := inflateTableDict(s.d.o.(core.Dict), s.data, s.known); t != "_" {
			table = append(table, t)
		}
	}
	type res struct {
		stream int
		out    []byte // the slice the implementation returned
		copy   []byte
		reply  string
	}
	var results []res
	first := map[int]string{}
	var replies []string
	allOK := true
	for _, i := range calls {
		var out []byte
		var err error
		pan := ""
		if i < len(streams) {
			pan = hx.Safe(func() { out, err = streams[i].Decode() })
		} else {
			err = fmt.Errorf("no such stream")
		}
		reply := replyOf(out, pan == "" && err == nil, pan)
		c.Check("C05/panic-decode", pan == "", kase, func() string { return "Decode panicked in a history: " + pan })
		replies = append(replies, reply)
		if prev, seen := first[i]; seen {
			c.Check("C05/history-result-differs", prev == reply, kase, func() string {
				return fmt.Sprintf("stream %d decoded to %s first and to %s later in the same history", i, clip(prev), clip(reply))
			})
		} else {
			first[i] = reply
		}
		// a stream without a filter returns its own Data (documented aliasing): no copy check
		if err == nil && i < len(streams) && streams[i].Dict.Get("Filter") != nil {
			results = append(results, res{i, out, append([]byte(nil), out...), reply})
		}
		for _, p := range results {
			c.Check("C05/history-result-clobbered", bytes.Equal(p.out, p.copy), kase, func() string {
				return fmt.Sprintf("the bytes returned for stream %d (%s) changed after a later Decode: now %s", p.stream, clip(p.reply), clip(hx.Hex(p.out)))
			})
		}
		for j, s := range streams {
			c.Check("C05/history-input-mutated", bytes.Equal(s.Data, origData[j]), kase, func() string {
				return fmt.Sprintf("Decode changed the Data of stream %d: %s -> %s", j, clip(hx.Hex(origData[j])), clip(hx.Hex(s.Data)))
			})
		}
		allOK = allOK && err == nil
	}
	cs := make([]string, len(calls))
	for i, k := range calls {
		cs[i] = strconv.Itoa(k)
	}
	tab := "_"
	if len(table) > 0 {
		tab = strings.Join(table, ";")
	}
	c.Op("c05.sess "+strings.Join(cs, ",")+" "+tab+" "+strings.Join(wires, " "), strings.Join(replies, "|"))
	return allOK
}

func sessions(c *hx.Ctx) {
	r0 := c.Rng.Fork(0x5E55)
	for i := 0; i < c.N(1000, 5000); i++ {
		r := r0.Fork(uint64(i))
		ss := make([]sessStream, r.Range(1, 4))
		for j := range ss {
			ss[j] = smallStream(r)
		}
		calls := make([]int, r.Range(2, 8))
		for j := range calls {
			calls[j] = r.Intn(len(ss))
			if r.Chance(1, 30) {
				calls[j] = len(ss) + r.Intn(2) // an index outside the store
			}
		}
		ok := runSession(c, ss, calls, fmt.Sprintf("seed=%d session=%d", c.Seed, i))
		c.Count(fmt.Sprintf("session:streams=%d", len(ss)))
		c.Case(fmt.Sprintf("sess|%d|%d", c.Seed, i), ok)
	}
}

// RunDictLevel is the dictionary-level part of the run.
func RunDictLevel(c *hx.Ctx) {
	paramKinds(c)
	notConforming(c)
	ccittCases(c)
	ccittGeometryEdges(c)
	ccittBoundCases(c)
	junkDicts(c)
	sessions(c)
	heapHistories(c)
}

// replayDict re-runs a recorded dictionary-level or history case.
func replayDict(c *hx.Ctx, kase map[string]interface{}) bool {
	if ds, ok := kase["dict"].(string); ok {
		d, err := parseDictWire(ds)
		data, err2 := unhex(fmt.Sprint(kase["data"]))
		if err != nil || err2 != nil {
			fmt.Println("replay: cannot parse case", err, err2)
			return true
		}
		e := expect{key: fmt.Sprint(kase["key"])}
		want, _ := kase["want"].(string)
		switch {
		case want == "err":
			e.mustErr = true
		case strings.HasPrefix(want, "ok "):
			w, _ := unhex(want[3:])
			e.want, e.hasWant = w, true
		}
		out, okd, pan := decodeDict(d.o.(core.Dict), data)
		fmt.Printf("replay: dict=%s data=%s\n  expected: %s\n  actual:   %s\n", clip(d.w), clip(hx.Hex(data)), clip(want), clip(replyOf(out, okd, pan)))
		runDict(c, d, data, nil, e)
		return true
	}
	if raw, ok := kase["streams"].([]interface{}); ok {
		var ss []sessStream
		for i := 0; i+1 < len(raw); i += 2 {
			d, err := parseDictWire(fmt.Sprint(raw[i]))
			data, err2 := unhex(fmt.Sprint(raw[i+1]))
			if err != nil || err2 != nil {
				fmt.Println("replay: cannot parse case", err, err2)
				return true
			}
			ss = append(ss, sessStream{d: d, data: data})
		}
		var calls []int
		if cr, ok := kase["calls"].([]interface{}); ok {
			for _, v := range cr {
				if f, ok := v.(float64); ok {
					calls = append(calls, int(f))
				}
			}
		}
		fmt.Printf("replay: history of %d Decode() calls on %d streams\n", len(calls), len(ss))
		runSession(c, ss, calls, "replay")
		return true
	}
	return false
}
