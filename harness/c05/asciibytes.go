package c05

// Every byte value at every kind of place of ASCIIHexDecode / ASCII85Decode data.
//
// The two ASCII filters partition the 256 byte values into classes, and the statement
// ("decoding what a conforming encoder produced returns the original bytes, tolerating the
// end-of-data markers and interleaved whitespace ...; undecodable data yields an error, not
// wrong bytes") says what each class must do:
//
//   ASCIIHexDecode (PDF 32000-1 §7.4.2): 0-9 A-F a-f are digits; the white-space characters of
//   §7.2.2 Table 1 (00 09 0A 0C 0D 20) are ignored; '>' is the EOD marker, after an odd number
//   of digits a 0 follows the last digit; "any other characters shall cause an error".
//
//   ASCII85Decode (§7.4.3): '!'..'u' are digits; 'z' stands for a group of four zero bytes and
//   is not allowed inside a group; white space is ignored; "~>" is the EOD marker; "any other
//   characters, and any character sequences that represent impossible combinations ... shall
//   cause an error".
//
// The generators below author a logical document (a list of hexadecimal digit values resp. a
// list of four-byte groups and a final partial group), write it with the writer's freedoms
// (case, white space) and put ONE foreign byte b - every value 0..255 in turn - at every kind of
// place: instead of the high / low digit of a pair, between digits, at the very beginning,
// right before the EOD marker, as the only byte, after the EOD marker, and in data without an
// EOD marker. What the decoder must return follows from the class of b and the logical
// document alone (never from tabula): a digit joins the digits, white space changes nothing,
// an EOD marker ends the data there, anything after the EOD marker is not data, any other byte
// is an error. The same through a freshly written stream dictionary, and with the damaged
// ASCII stage at any place of a filter chain of up to three stages.

import (
	"fmt"

	"verifharness/hx"
)

// class of a byte for ASCIIHexDecode: "digit" (with its value), "ws", "eod", "bad"
func hexClass(b byte) (string, byte) {
	switch {
	case b >= '0' && b <= '9':
		return "digit", b - '0'
	case b >= 'A' && b <= 'F':
		return "digit", b - 'A' + 10
	case b >= 'a' && b <= 'f':
		return "digit", b - 'a' + 10
	case isPdfWS(b):
		return "ws", 0
	case b == '>':
		return "eod", 0
	}
	return "bad", 0
}

// class of a byte for ASCII85Decode: "digit" (with its value), "z", "ws", "tilde", "bad"
func a85Class(b byte) (string, byte) {
	switch {
	case b >= '!' && b <= 'u':
		return "digit", b - '!'
	case b == 'z':
		return "z", 0
	case isPdfWS(b):
		return "ws", 0
	case b == '~':
		return "tilde", 0
	}
	return "bad", 0
}

func isPdfWS(b byte) bool {
	for _, w := range pdfWS {
		if b == w {
			return true
		}
	}
	return false
}

// the bytes of a class, for the random generators
func bytesOfClass(class func(byte) (string, byte), want string) []byte {
	var bs []byte
	for i := 0; i < 256; i++ {
		if k, _ := class(byte(i)); k == want {
			bs = append(bs, byte(i))
		}
	}
	return bs
}

// smallClassWeight: how many times the places are gone through for one byte of the class, so
// that a class of one or six bytes gets about as many cases as a dozen bytes of a large class.
func smallClassWeight(class func(byte) (string, byte), of string) int {
	n := len(bytesOfClass(class, of))
	if n >= 12 {
		return 1
	}
	return 12 / n
}

// nibblesToBytes pairs hexadecimal digit values; a final odd digit is followed by 0 (§7.4.2).
func nibblesToBytes(nib []byte) []byte {
	out := make([]byte, 0, (len(nib)+1)/2)
	for i := 0; i < len(nib); i += 2 {
		lo := byte(0)
		if i+1 < len(nib) {
			lo = nib[i+1]
		}
		out = append(out, nib[i]<<4|lo)
	}
	return out
}

// hexForeign writes the digit values nib as hexadecimal digits (case and white space by st)
// with the foreign byte b in front of digit j (insert) or instead of digit j (replace);
// j == len(nib) puts it right before the EOD marker; after: b follows the EOD marker instead.
func hexForeign(r *hx.Rng, nib []byte, st asciiStyle, b byte, j int, replace, after, eod bool) []byte {
	const lower, upper = "0123456789abcdef", "0123456789ABCDEF"
	var out []byte
	ws := func() {
		for st.WS > 0 && r.Intn(16) < st.WS {
			out = append(out, pdfWS[r.Intn(len(pdfWS))])
		}
	}
	for i, n := range nib {
		ws()
		if i == j && !after {
			out = append(out, b)
			if replace {
				continue
			}
			ws()
		}
		tab := lower
		if st.Upper == 1 || (st.Upper == 2 && r.Bool()) {
			tab = upper
		}
		out = append(out, tab[n])
	}
	ws()
	if j >= len(nib) && !after {
		out = append(out, b)
		ws()
	}
	if eod {
		out = append(out, '>')
	}
	if after {
		out = append(out, b)
	}
	return out
}

// runBoth decodes one single-filter stream from the digested description (kind "hex"/"a85")
// and, when dict is set, from a freshly written stream dictionary.
func runBoth(c *hx.Ctx, r *hx.Rng, kind, name string, data []byte, e expect, dict bool) bool {
	none := parms{One: pobj{Kind: "~"}}
	f := oneName(name)
	if r.Chance(1, 4) {
		f = names(name) // the same filter as a one-element array
		kind = "chain"
	}
	_, ok := run(c, kind, f, none, data, nil, e)
	if dict {
		runDict(c, dictWo(r.Fork(0xD3), f, none, conformingDeco(r)), data, nil, e)
	}
	return ok
}

// hexByteTable: every byte value x every kind of place in ASCIIHexDecode data.
func hexByteTable(c *hx.Ctx) {
	r := c.Rng.Fork(0xA5C1)
	reps := c.N(1, 4)
	for rep := 0; rep < reps; rep++ {
		for bi := 0; bi < 256; bi++ {
			b := byte(bi)
			class, v := hexClass(b)
			// the small classes (one EOD byte, six white-space bytes) are drawn more often
			for turn := 0; turn < 9*smallClassWeight(hexClass, class); turn++ {
				slot := turn % 9
				nib := make([]byte, 2*r.Range(1, 5))
				for i := range nib {
					nib[i] = byte(r.Intn(16))
				}
				if r.Chance(1, 4) {
					nib = nib[:len(nib)-1] // an odd number of digits: a 0 follows the last one
				}
				j, replace, after, eod := 0, false, false, true
				place := ""
				switch slot {
				case 0:
					place, replace, j = "for-high-digit", true, 2*r.Intn((len(nib)+1)/2)
				case 1:
					place, replace, j = "for-low-digit", true, 1
					if len(nib) < 2 {
						nib = append(nib, byte(r.Intn(16)))
					}
					j = 2*r.Intn(len(nib)/2) + 1
				case 2:
					place, j = "between-digits", r.Intn(len(nib))
				case 3:
					place, j = "first", 0
				case 4:
					place, j = "before-eod", len(nib)
				case 5:
					place, after = "after-eod", true
				case 6:
					place, eod, j = "no-eod", false, r.Intn(len(nib)+1)
				case 7:
					place, nib, j = "alone", nil, 0
				case 8:
					place, eod, j = "last-no-eod", false, len(nib)
				}
				st := asciiStyle{Upper: r.Intn(3)}
				if r.Bool() {
					st.WS = r.Range(1, 5)
				}
				data := hexForeign(r, nib, st, b, j, replace, after, eod)
				note := fmt.Sprintf("byte %#02x (%s) %s, digit index %d of %d", b, class, place, j, len(nib))

				// what the logical document becomes
				var e expect
				switch {
				case after:
					e = wantBytes("C05/roundtrip-after-eod", nibblesToBytes(nib))
				case class == "bad":
					e = wantErr("C05/undecodable-hex-nonhex", note)
				case !eod && class != "eod":
					// data that ends without the marker: tolerated by tabula, the statement does
					// not demand it (correspondence only)
					e = noExpect
				case class == "digit":
					var n2 []byte
					n2 = append(n2, nib[:j]...)
					n2 = append(n2, v)
					if replace {
						n2 = append(n2, nib[j+1:]...)
					} else {
						n2 = append(n2, nib[j:]...)
					}
					e = wantBytes("C05/hex-byte-class-digit", nibblesToBytes(n2))
				case class == "ws":
					n2 := append([]byte(nil), nib...)
					if replace {
						n2 = append(n2[:j], n2[j+1:]...)
					}
					e = wantBytes("C05/hex-byte-class-whitespace", nibblesToBytes(n2))
				case class == "eod":
					e = wantBytes("C05/hex-byte-class-eod", nibblesToBytes(nib[:j]))
				}
				e.note = note
				name := "ASCIIHexDecode"
				if r.Bool() {
					name = "AHx"
				}
				ok := runBoth(c, r, "hex", name, data, e, class == "bad" || r.Chance(1, 4))
				c.Count("hex-byte:" + class + ":" + place)
				c.Case(fmt.Sprintf("hexbyte|%s|%x", name, data), ok && len(data) > 0)
			}
		}
	}
}

// a85Doc is the logical document of an ASCII85 stream: full groups and a final partial group.
type a85Doc struct {
	groups [][4]byte
	tail   []byte // 0..3 bytes
}

func (d a85Doc) bytes() []byte {
	var out []byte
	for _, g := range d.groups {
		out = append(out, g[:]...)
	}
	return append(out, d.tail...)
}

func a85Digits(g [4]byte) [5]byte {
	v := uint64(g[0])<<24 | uint64(g[1])<<16 | uint64(g[2])<<8 | uint64(g[3])
	var d [5]byte
	for k := 4; k >= 0; k-- {
		d[k] = byte(v % 85)
		v /= 85
	}
	return d
}

// a85ByteTable: every byte value x every kind of place in ASCII85Decode data.
func a85ByteTable(c *hx.Ctx) {
	r := c.Rng.Fork(0xA85C1)
	reps := c.N(1, 4)
	for rep := 0; rep < reps; rep++ {
		for bi := 0; bi < 256; bi++ {
			b := byte(bi)
			class, v := a85Class(b)
			for turn := 0; turn < 8*smallClassWeight(a85Class, class); turn++ {
				slot := turn % 8
				var doc a85Doc
				ng := r.Range(1, 3)
				for i := 0; i < ng; i++ {
					var g [4]byte
					copy(g[:], r.Bytes(4))
					switch r.Intn(6) {
					case 0:
						g = [4]byte{} // written as z
					case 1:
						g[0] = 0
					}
					doc.groups = append(doc.groups, g)
				}
				doc.tail = r.Bytes(r.Intn(4))

				// tokens: one per character of the conforming encoding; grp = index of the group
				// (len(groups) = the partial group), k = index of the digit inside the group
				type tok struct {
					ch     byte
					grp, k int
				}
				var toks []tok
				for gi, g := range doc.groups {
					if g == [4]byte{} {
						toks = append(toks, tok{'z', gi, 0})
						continue
					}
					d := a85Digits(g)
					for k := 0; k < 5; k++ {
						toks = append(toks, tok{d[k] + '!', gi, k})
					}
				}
				if n := len(doc.tail); n > 0 {
					var g [4]byte
					copy(g[:], doc.tail)
					d := a85Digits(g)
					for k := 0; k < n+1; k++ {
						toks = append(toks, tok{d[k] + '!', len(doc.groups), k})
					}
				}
				// positions: index into toks, len(toks) = right before "~>"
				var inside, boundary, fullDigit []int
				for i, t := range toks {
					if t.k == 0 {
						boundary = append(boundary, i)
					} else {
						inside = append(inside, i)
					}
					if t.grp < len(doc.groups) && t.ch != 'z' {
						fullDigit = append(fullDigit, i)
					}
				}
				if len(doc.tail) == 0 {
					boundary = append(boundary, len(toks))
				} else {
					inside = append(inside, len(toks))
				}
				if len(inside) == 0 || len(fullDigit) == 0 {
					// every group is written as z: draw another document for the same byte
					// and place
					turn--
					continue
				}

				pos, replace, after, eod := 0, false, false, true
				place := ""
				switch slot {
				case 0:
					place, pos = "inside-group", hx.Pick(r, inside)
				case 1:
					place, pos = "group-boundary", hx.Pick(r, boundary)
				case 2:
					place, pos = "first", 0
				case 3:
					place, pos = "before-eod", len(toks)
				case 4:
					place, after = "after-eod", true
				case 5:
					place, replace, pos = "for-digit", true, hx.Pick(r, fullDigit)
				case 6:
					place, eod, pos = "no-eod", false, r.Intn(len(toks)+1)
				case 7:
					place, pos = "anywhere", r.Intn(len(toks)+1)
				}
				isBoundary := false
				for _, q := range boundary {
					isBoundary = isBoundary || q == pos
				}

				st := asciiStyle{}
				if r.Bool() {
					st.WS = r.Range(1, 5)
				}
				var data []byte
				ws := func() {
					for st.WS > 0 && r.Intn(16) < st.WS {
						data = append(data, pdfWS[r.Intn(len(pdfWS))])
					}
				}
				for i, t := range toks {
					ws()
					if i == pos && !after {
						data = append(data, b)
						if replace {
							continue
						}
						ws()
					}
					data = append(data, t.ch)
				}
				ws()
				if pos >= len(toks) && !after {
					data = append(data, b)
					ws()
				}
				if eod {
					data = append(data, '~', '>')
				}
				if after {
					data = append(data, b)
				}
				note := fmt.Sprintf("byte %#02x (%s) %s, character index %d of %d", b, class, place, pos, len(toks))

				var e expect
				switch {
				case after:
					e = wantBytes("C05/roundtrip-after-eod", doc.bytes())
				case class == "bad":
					e = wantErr("C05/undecodable-a85-char", note)
				case !eod:
					e = noExpect // no marker: tolerated, not demanded
				case class == "ws" && !replace:
					e = wantBytes("C05/a85-byte-class-whitespace", doc.bytes())
				case class == "z" && !replace && isBoundary:
					// a z between groups is a group of four zero bytes
					var out []byte
					gi := len(doc.groups)
					if pos < len(toks) {
						gi = toks[pos].grp
					}
					for i, g := range doc.groups {
						if i == gi {
							out = append(out, 0, 0, 0, 0)
						}
						out = append(out, g[:]...)
					}
					if gi == len(doc.groups) {
						out = append(out, 0, 0, 0, 0)
					}
					out = append(out, doc.tail...)
					e = wantBytes("C05/a85-byte-class-z", out)
				case class == "z" && !replace && !isBoundary && pos < len(toks):
					e = wantErr("C05/undecodable-a85-z-in-group", note)
				case class == "digit" && replace:
					// the group with one digit exchanged: its value, if it fits 32 bits
					t := toks[pos]
					d := a85Digits(doc.groups[t.grp])
					d[t.k] = v
					val := uint64(0)
					for _, x := range d {
						val = val*85 + uint64(x)
					}
					if val > 0xFFFFFFFF {
						e = wantErr("C05/undecodable-a85-overflow", note)
					} else {
						var out []byte
						for i, g := range doc.groups {
							if i == t.grp {
								out = append(out, byte(val>>24), byte(val>>16), byte(val>>8), byte(val))
							} else {
								out = append(out, g[:]...)
							}
						}
						out = append(out, doc.tail...)
						e = wantBytes("C05/a85-byte-class-digit", out)
					}
				default:
					// an inserted digit regroups everything that follows, a ~ that is not
					// followed by > is not spoken about: model only
					e = noExpect
				}
				e.note = note
				name := "ASCII85Decode"
				if r.Bool() {
					name = "A85"
				}
				ok := runBoth(c, r, "a85", name, data, e, class == "bad" || r.Chance(1, 4))
				c.Count("a85-byte:" + class + ":" + place)
				c.Case(fmt.Sprintf("a85byte|%s|%x", name, data), ok && len(data) > 0)
			}
		}
	}
}

// chainForeignByte: a filter chain of 1..3 stages in which ONE ASCII stage - at any place of the
// chain - was written with a byte its filter does not allow (any byte of the "bad" class, at
// any place before the EOD marker); every other stage is conforming. The damaged stage's data
// is undecodable, so Decode() must return an error, whatever the stages around it are.
func chainForeignByte(c *hx.Ctx) {
	r0 := c.Rng.Fork(0xC4A1)
	hexBad := bytesOfClass(hexClass, "bad")
	a85Bad := bytesOfClass(a85Class, "bad")
	n := c.N(400, 4000)
	for idx := 0; idx < n; idx++ {
		r := r0.Fork(uint64(idx))
		nst := r.Range(1, 3)
		stages := make([]stage, nst)
		for i := range stages {
			stages[i] = randomStage(r)
		}
		at := r.Intn(nst)
		if k := stages[at].Kind; k != "hex" && k != "a85" {
			stages[at].Kind = hx.Pick(r, []string{"hex", "a85"})
			stages[at].Pred, stages[at].Colors, stages[at].Columns = 0, 1, 1
		}
		x, class := content(r, r.Intn(hx.Pick(r, []int{4, 40, 400})+1), 0)
		// the stages behind the damaged one and the damaged one itself, conforming so far
		inner, _, _ := buildChainMids(r, stages[at:], x)
		eod, bad := 1, hx.Pick(r, hexBad)
		if stages[at].Kind == "a85" {
			eod, bad = 2, hx.Pick(r, a85Bad)
		}
		pos := r.Intn(len(inner) - eod + 1) // anywhere up to right before the EOD marker
		damaged := append(append(append([]byte(nil), inner[:pos]...), bad), inner[pos:]...)
		if r.Chance(1, 3) && pos < len(inner)-eod {
			// instead of a character of the data (the marker stays)
			damaged = append(append(append([]byte(nil), inner[:pos]...), bad), inner[pos+1:]...)
		}
		// the stages in front of it, conforming
		data, flIn, _ := buildChainMids(r, stages[:at], damaged)
		f, p, shape := shapes(r, stages)
		key := "C05/undecodable-hex-nonhex-in-chain"
		if stages[at].Kind == "a85" {
			key = "C05/undecodable-a85-char-in-chain"
		}
		var kinds []string
		for _, s := range stages {
			kinds = append(kinds, s.Kind)
		}
		e := wantErr(key, fmt.Sprintf("seed=%d index=%d stages=%v content=%s: byte %#02x at %d in the data of stage %d (%s)",
			c.Seed, idx, kinds, class, bad, pos, at, stages[at].name()))
		_, ok := run(c, "chain", f, p, data, flIn, e)
		runDict(c, dictWo(r.Fork(0xD4), f, p, conformingDeco(r)), data, flIn, e)
		c.Count(fmt.Sprintf("chain-foreign-byte:%s:stage%d/%d", stages[at].Kind, at, nst))
		c.Count("shape:" + shape)
		c.Case(fmt.Sprintf("chainbyte|%s|%s|%x", f.wire(), p.wire(), data), ok)
	}
}

// asciiByteClasses runs the three generators of this file.
func asciiByteClasses(c *hx.Ctx) {
	hexByteTable(c)
	a85ByteTable(c)
	chainForeignByte(c)
	c.Count("ascii-byte-classes")
}
