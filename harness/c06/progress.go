package c06

// Stage 13 — progress, positions, the parser's window, one operand (round 3 of the deepening).
//
// Ops (reply grammar in lean/TabulaModel/Handlers/C06.lean, models in Model/LexPos.lean):
//   c06.lexp <hex>     core.NewLexer(r).NextToken() to EOF/error with Token.Pos and Token.SkippedBytes
//   c06.win <hex>      core.NewParser(r), then ParseObject() until it fails: the window
//                      (currentToken | peekToken | p.err != nil) after NewParser and after every call
//   c06.operand <hex>  contentstream parseOperand once on a fresh parser: operand and p.pos
//
// Oracles (independent of the Lean model; from the property text and the meaning of "progress"):
//   C06/lex-pos-not-increasing     Token.Pos of successive tokens does not strictly increase, or lies
//                                  outside the input, or TokenEOF is not at the end of the input
//   C06/lex-skipped-mismatch       Token.SkippedBytes is not exactly the white space in front of the token
//   C06/lex-gap                    a non-white byte between two tokens belongs to neither (bytes lost)
//   C06/window-after-error         after a lexical error was recorded, peekToken is not TokenEOF, or the
//                                  error flag is dropped again, or a later ParseObject reports a clean EOF
//   C06/depth-not-restored         p.depth is not 0 between two top-level ParseObject calls / after parseOperand
//   C06/operand-no-progress        parseOperand succeeded without consuming a byte, or moved outside the data
//   C06/operand-disagree           ONE ParseObject call and ONE parseOperand call on the same bytes both
//                                  succeed and give different values (unless the document-level parser
//                                  read an indirect reference, which content streams do not have: then the
//                                  content-stream parser must have read its first integer)
//   C06/operand-vs-parse           parseOperand's operand differs from the first operand Parse() reports
//                                  for the same bytes followed by " Do"

import (
	"bytes"
	"fmt"
	"io"
	"strconv"
	"strings"

	"github.com/tsawler/tabula/contentstream"
	"github.com/tsawler/tabula/core"

	"verifharness/hx"
)

func isPDFWhite(b byte) bool {
	return b == ' ' || b == '\t' || b == '\n' || b == '\r' || b == '\f' || b == 0
}

type posTok struct {
	code    string
	val     []byte
	pos     int64
	skipped []byte
}

type lexpOutcome struct {
	outcome
	toks []posTok
}

// lexPositions runs the public lexer to EOF or the first error, keeping Pos and SkippedBytes.
func lexPositions(in []byte) lexpOutcome {
	l := core.NewLexer(bytes.NewReader(in))
	var o lexpOutcome
	var parts []string
	for i := 0; i < len(in)+2; i++ {
		t, err := l.NextToken()
		if err != nil {
			o.end = "err"
			break
		}
		pt := posTok{code: tokCode[t.Type], val: t.Value, pos: t.Pos, skipped: t.SkippedBytes}
		if t.Type == core.TokenEOF {
			pt.val = nil
		}
		o.toks = append(o.toks, pt)
		parts = append(parts, fmt.Sprintf("%s%s@%d+%s", pt.code, hx.Hex(pt.val), pt.pos, hx.Hex(pt.skipped)))
		if t.Type == core.TokenEOF {
			o.end = "eof"
			break
		}
	}
	if o.end == "" {
		o.end = "noprogress"
	}
	o.line = strings.Join(append(parts, o.end), " ")
	return o
}

func tokWire(t *core.Token) string {
	if t == nil {
		return "nil"
	}
	if t.Type == core.TokenEOF {
		return "E-"
	}
	return tokCode[t.Type] + hx.Hex(t.Value)
}

type winState struct {
	cur, peek string
	err       bool
	depth     int
}

type winOutcome struct {
	outcome
	states   []winState
	depthEnd int // p.depth after the failing call
}

// windowTrace: NewParser, then ParseObject until it fails; the window after each step.
func windowTrace(in []byte) winOutcome {
	p := core.NewParser(bytes.NewReader(in))
	var o winOutcome
	snap := func() {
		cur, peek, e, d := core.VerifWindow(p)
		o.states = append(o.states, winState{tokWire(cur), tokWire(peek), e, d})
	}
	snap()
	for i := 0; i < len(in)+2; i++ {
		_, err := p.ParseObject()
		if err == io.EOF {
			o.end = "eof"
			break
		}
		if err != nil {
			o.end = "err"
			break
		}
		snap()
	}
	if o.end == "" {
		o.end = "noprogress"
	}
	_, _, _, o.depthEnd = core.VerifWindow(p)
	parts := make([]string, 0, len(o.states)+1)
	for _, s := range o.states {
		e := "0"
		if s.err {
			e = "1"
		}
		parts = append(parts, s.cur+"|"+s.peek+"|"+e)
	}
	o.line = strings.Join(append(parts, o.end), " ")
	return o
}

type operandOutcome struct {
	outcome
	obj   *node
	pos   int
	depth int
}

func operandAt(in []byte) operandOutcome {
	obj, pos, depth, err := contentstream.VerifParseOperand(in)
	o := operandOutcome{pos: pos, depth: depth}
	if err != nil {
		o.line = "err"
		return o
	}
	o.ok = true
	o.obj = coreToNode(obj)
	o.line = o.obj.sexpr() + " " + strconv.Itoa(pos)
	return o
}

func runLexp(in []byte) lexpOutcome {
	var r lexpOutcome
	r.outcome = guarded(func() outcome { r = lexPositions(in); return r.outcome })
	return r
}
func runWin(in []byte) winOutcome {
	var r winOutcome
	r.outcome = guarded(func() outcome { r = windowTrace(in); return r.outcome })
	return r
}
func runOperand(in []byte) operandOutcome {
	var r operandOutcome
	r.outcome = guarded(func() outcome { r = operandAt(in); return r.outcome })
	return r
}

// judgeLexp: the position oracles on one run of the lexer.
func judgeLexp(c *hx.Ctx, in []byte, o lexpOutcome) {
	kase := map[string]interface{}{"kind": "lexp", "input": hx.Hex(in)}
	okPos, okSkip, okGap := true, true, true
	why := ""
	prevEnd := int64(-1) // Pos of the previous token
	for i, t := range o.toks {
		if t.pos < 0 || t.pos > int64(len(in)) || (i > 0 && t.pos <= prevEnd) {
			okPos = false
			why = fmt.Sprintf("token %d at %d after %d", i, t.pos, prevEnd)
		}
		if t.code == "E" && t.pos != int64(len(in)) {
			okPos = false
			why = fmt.Sprintf("TokenEOF at %d of %d", t.pos, len(in))
		}
		start := t.pos - int64(len(t.skipped))
		if start < 0 || !bytes.Equal(in[start:t.pos], t.skipped) {
			okSkip = false
			why = fmt.Sprintf("token %d at %d: skipped %q", i, t.pos, t.skipped)
		} else {
			for _, b := range t.skipped {
				if !isPDFWhite(b) {
					okSkip = false
				}
			}
			// the byte in front of the skipped white space is not white (all of it was skipped),
			// and the token itself does not start with white space
			if start > 0 && isPDFWhite(in[start-1]) && i > 0 && start > prevEnd {
				// white space may also END the previous token (comment: its end-of-line marker;
				// string / hex string bodies), so this is only a defect when the previous token
				// is one that cannot contain white space
				p := o.toks[i-1].code
				if p == "I" || p == "F" || p == "K" || p == "N" || p == "R" || p == "[" || p == "]" || p == "D" || p == "d" {
					okGap = false
					why = fmt.Sprintf("white space in front of token %d at %d not in SkippedBytes", i, t.pos)
				}
			}
			if t.code != "E" && t.pos < int64(len(in)) && isPDFWhite(in[t.pos]) {
				okSkip = false
				why = fmt.Sprintf("token %d starts on white space at %d", i, t.pos)
			}
		}
		prevEnd = t.pos
	}
	remember(c, "C06/lex-pos-not-increasing", okPos, kase, func() string { return fmt.Sprintf("%s: %s in %s", why, o.line, short(in)) })
	remember(c, "C06/lex-skipped-mismatch", okSkip, kase, func() string { return fmt.Sprintf("%s: %s in %s", why, o.line, short(in)) })
	remember(c, "C06/lex-gap", okGap, kase, func() string { return fmt.Sprintf("%s: %s in %s", why, o.line, short(in)) })
}

// judgeWin: error propagation as seen in the parser's window.
func judgeWin(c *hx.Ctx, in []byte, o winOutcome) {
	kase := map[string]interface{}{"kind": "win", "input": hx.Hex(in)}
	ok, okDepth := true, o.depthEnd == 0
	why := ""
	seenErr := false
	for i, s := range o.states {
		if s.depth != 0 {
			okDepth = false
		}
		if seenErr && !s.err {
			ok, why = false, fmt.Sprintf("state %d dropped the recorded error", i)
		}
		if s.err {
			seenErr = true
			if s.peek != "E-" {
				ok, why = false, fmt.Sprintf("state %d has a recorded error and peekToken %s", i, s.peek)
			}
		}
	}
	if seenErr && o.end == "eof" {
		ok, why = false, "a lexical error was recorded and the run ended with io.EOF"
	}
	remember(c, "C06/window-after-error", ok, kase, func() string { return fmt.Sprintf("%s: %s from %s", why, o.line, short(in)) })
	remember(c, "C06/depth-not-restored", okDepth, kase, func() string {
		return fmt.Sprintf("p.depth not 0 between calls (after the last call: %d): %s from %s", o.depthEnd, o.line, short(in))
	})
}

// judgeOperand: progress of parseOperand, and one-call agreement with the document-level parser.
func (x runner) judgeOperand(in []byte, o operandOutcome) {
	c := x.c
	kase := map[string]interface{}{"kind": "operand", "input": hx.Hex(in)}
	remember(c, "C06/depth-not-restored", o.depth == 0, kase, func() string {
		return fmt.Sprintf("contentstream p.depth = %d after parseOperand on %s", o.depth, short(in))
	})
	if !o.ok {
		c.Count("operand:err")
		return
	}
	c.Count("operand:ok")
	remember(c, "C06/operand-no-progress", o.pos > 0 && o.pos <= len(in), kase, func() string {
		return fmt.Sprintf("parseOperand returned %s with p.pos = %d on %d bytes %s", o.obj.sexpr(), o.pos, len(in), short(in))
	})
	// one ParseObject call on the same bytes
	a := guarded(func() outcome {
		p := core.NewParser(bytes.NewReader(in))
		obj, err := p.ParseObject()
		if err != nil {
			return outcome{line: "err"}
		}
		n := coreToNode(obj)
		return outcome{ok: true, objs: []*node{n}, line: n.sexpr()}
	})
	if a.hang || a.panic_ != "" {
		abnormal(c, a, "obj", in)
		return
	}
	if a.ok {
		c.Count("operand-agree:both-accept")
		same := a.line == o.obj.sexpr()
		if !same && a.objs[0].k == kRef && o.obj.k == kInt && o.obj.i == a.objs[0].num {
			same = true // "n g R": the content-stream parser has no references and read n
			c.Count("operand-agree:reference")
		}
		remember(c, "C06/operand-disagree", same, kase, func() string {
			return fmt.Sprintf("on %s ParseObject gave %s, parseOperand gave %s", short(in), a.line, o.obj.sexpr())
		})
	} else {
		c.Count("operand-agree:core-rejects")
	}
	// the same operand as Parse() reports it
	runCS([]byte("q"))
	b := runCS(append(append([]byte{}, in[:o.pos]...), " Do"...))
	if b.ok && len(b.ops) == 1 && b.ops[0].op == "Do" && len(b.ops[0].operands) >= 1 {
		remember(c, "C06/operand-vs-parse", b.ops[0].operands[0].sexpr() == o.obj.sexpr(), kase, func() string {
			return fmt.Sprintf("on %s parseOperand gave %s, Parse gave %s", short(in), o.obj.sexpr(), b.line)
		})
	}
}

func (x runner) emitProgress(in []byte, what int) {
	c := x.c
	if !comparable(in) {
		// a number token beyond what float64 represents exactly (see props/C06.json, assumptions)
		c.Count("progress-skipped-inexact-number")
		return
	}
	if what&1 != 0 {
		if o := runLexp(in); !abnormal(c, o.outcome, "lexp", in) {
			c.Op("c06.lexp "+hx.Hex(in), o.line)
			judgeLexp(c, in, o)
			c.Count("lexp:" + o.end)
		}
	}
	if what&2 != 0 {
		if o := runWin(in); !abnormal(c, o.outcome, "win", in) {
			c.Op("c06.win "+hx.Hex(in), o.line)
			judgeWin(c, in, o)
			c.Count("win:" + o.end)
			c.Count(fmt.Sprintf("win-calls:%s", countBucket(len(o.states)-1)))
		}
	}
	if what&4 != 0 {
		if o := runOperand(in); !abnormal(c, o.outcome, "operand", in) {
			c.Op("c06.operand "+hx.Hex(in), o.line)
			x.judgeOperand(in, o)
		}
	}
}

func countBucket(n int) string {
	switch {
	case n == 0:
		return "0"
	case n == 1:
		return "1"
	case n < 5:
		return "2-4"
	case n < 20:
		return "5-19"
	}
	return ">=20"
}

// truncations of interest: every prefix of a short print (the input ends inside every token in turn)
func prefixes(in []byte, max int) [][]byte {
	var out [][]byte
	step := 1
	if len(in) > max {
		step = len(in)/max + 1
	}
	for i := 0; i <= len(in); i += step {
		out = append(out, in[:i])
	}
	return out
}

func (x runner) stageProgress() {
	c := x.c
	// a. legal prints: trees and sequences under every policy
	for i := 0; i < c.N(260, 20000) && !poisoned; i++ {
		r := c.Rng.Fork(uint64(130000 + i))
		p := randomPolicy(r)
		if i%2 == 0 {
			p = fixedPolicies(r)[i/2%10]
		}
		var ts []*node
		for n := r.Range(1, 4); n > 0; n-- {
			ts = append(ts, randTree(r, r.Range(1, 5), false))
		}
		in := printObjects(p, ts)
		x.emitProgress(in, 3)
		t := randTree(r, r.Range(1, 5), i%5 != 0)
		one := printObjects(p, []*node{t})
		if i%3 == 0 {
			one = append(append(one, ' '), printObjects(p, []*node{randAtom(r, true)})...)
		}
		x.emitProgress(one, 4)
		c.Case("pg:"+objsLine(ts, "")+p.label, true)
		c.Count("progress-policy:" + p.label)
	}
	// b. every prefix of legal prints: the input ends inside each kind of token in turn
	for i := 0; i < c.N(24, 1500) && !poisoned; i++ {
		r := c.Rng.Fork(uint64(131000 + i))
		p := fixedPolicies(r)[i%10]
		in := printObjects(p, []*node{randTree(r, r.Range(1, 3), false), randAtom(r, false)})
		for _, pre := range prefixes(in, c.N(40, 400)) {
			if !comparable(pre) {
				continue
			}
			x.emitProgress(pre, 7)
			c.Count("progress-prefix")
		}
		c.Case("pp:"+hx.Hex(in), true)
	}
	// c. the witnesses of the C06 fixes and hand-picked boundary inputs
	for _, w := range []string{"", " ", "%", "% c", "% c\r", "% c\r\n1", "[ 1 ) ]", "<< /A > /B 2 >>", "(abc", "<41", "/A#4", "/A#",
		"1 0 R", "1 0 R 2", "[1 0 R]", "<</K 1 0 R>>", "1 0", "1 0 obj", "1 stream 2", "[1 stream]", "stream", "1 2 stream\n3",
		"true.5", "[true.5]", "[true/A]", "1true", "null5", "+", "-", ".", "+.", "-.5", "5.", "1.2.3", "--1", "1-2", "1+2", "00012",
		"9223372036854775807", "9223372036854775808", "-9223372036854775808", "-9223372036854775809", "99999999999999999999",
		"<4 1>", "<4 >", "<>", "< >", "<4", "<", ">", ">>", "<<", "<<>>", "[", "]", "[]", "[[", "{", "}", "(", ")", "()", "(\\", "(\\)", "(\\1", "(\\12", "(\\123", "(\\1234)",
		"/", "//", "/ ", "/#41", "/#4G", "/A#20B", "R", "RR", "R2", "[R]", "tru", "truee", "t", "f", "n", "fals", "nul",
		"1%c\n0%d\rR", "[12 %c\n0 R]", "1 %c", "1 %c\n", "\x00\t\n\f\r 1"} {
		in := []byte(w)
		x.emitProgress(in, 7)
		c.Case("pw:"+hx.Hex(in), true)
		c.Count("progress-witness")
	}
}

// progressRaws: malformed inputs for the three ops; they travel with the raw stream (child processes).
func progressRaws(c *hx.Ctx) []rawCase {
	var raws []rawCase
	n := c.N(450, 40000)
	kinds := []string{"lexp", "win", "operand"}
	for i := 0; len(raws) < n && i < n*3; i++ {
		r := c.Rng.Fork(uint64(300000 + i))
		k := kinds[i%3]
		var in []byte
		switch r.Intn(3) {
		case 0:
			in = randSoup(r)
		case 1:
			in = mutate(r, printObjects(randomPolicy(r), []*node{randTree(r, 4, k == "operand" && r.Chance(2, 3))}))
		default:
			p := randomPolicy(r)
			p.sep = sepMinimal
			in = mutate(r, printObjects(p, []*node{randTree(r, 3, false), randAtom(r, false)}))
		}
		if !comparable(in) {
			continue
		}
		raws = append(raws, rawCase{K: k, In: hx.Hex(in)})
	}
	return raws
}

// evalProgressRaw is the child side of the raw stream for the three ops.
func evalProgressRaw(k string, in []byte) (outcome, bool) {
	switch k {
	case "lexp":
		return lexPositions(in).outcome, true
	case "win":
		return windowTrace(in).outcome, true
	case "operand":
		return operandAt(in).outcome, true
	}
	return outcome{}, false
}
