package c06

// Serialisations LONGER than an I/O buffer, and readers whose reads are short.
//
// The property quantifies over all object trees and operator programs under
// every legal spelling; nothing in it bounds the size of the serialisation or
// says how the bytes reach core.NewParser(r) (r is any io.Reader). The
// document-level lexer reads through a buffered reader, so every multi-byte
// lexical element (white-space run, CRLF, comment, string with escapes, hex
// string, name with #xx, number, "n g R") can be cut in two by the end of a
// buffer window. This file generates
//
//   * large containers / object sequences / operator programs whose print
//     crosses 1, 2 or 3 multiples of 4096 bytes, and slides each of them by a
//     legal prefix (white space or a comment) of 0..K-1 bytes, so that every
//     byte position of a K-byte neighbourhood — hence every token kind and every
//     separator kind near it — lies across offsets 4095/4096, 8191/8192, … in turn;
//   * readers that deliver the same bytes in short reads (1, 2, 3, … bytes,
//     4095, mixed schedules, last piece together with io.EOF), which puts the
//     window ends at arbitrary offsets also for small inputs.
//
// Expectations come only from the trees/programs the harness wrote.

import (
	"fmt"
	"strconv"

	"verifharness/hx"
)

const ioBlock = 4096

// ---- reader schedules -------------------------------------------------------------

var fixedScheds = []readerSpec{
	{chunks: []int{1}},
	{chunks: []int{2}},
	{chunks: []int{3}},
	{chunks: []int{7}, eofData: true},
	{chunks: []int{ioBlock - 1}},
	{chunks: []int{ioBlock, 1}},
	{chunks: []int{1, ioBlock}},
	{chunks: []int{5, 1, 1, 64, 2}},
	{chunks: nil, eofData: true},
}

func randSched(r *hx.Rng) readerSpec {
	if r.Chance(1, 3) {
		return hx.Pick(r, fixedScheds)
	}
	n := r.Range(1, 6)
	s := readerSpec{eofData: r.Chance(1, 4)}
	for i := 0; i < n; i++ {
		switch r.Intn(4) {
		case 0:
			s.chunks = append(s.chunks, r.Range(1, 4))
		case 1:
			s.chunks = append(s.chunks, r.Range(1, 40))
		case 2:
			s.chunks = append(s.chunks, hx.Pick(r, []int{ioBlock - 2, ioBlock - 1, ioBlock, 2 * ioBlock, 512, 100}))
		default:
			s.chunks = append(s.chunks, r.Range(1, 6000))
		}
	}
	return s
}

func (s readerSpec) kase(m map[string]interface{}) map[string]interface{} {
	ch := make([]interface{}, len(s.chunks))
	for i, v := range s.chunks {
		ch[i] = v
	}
	m["chunks"] = ch
	m["eofdata"] = s.eofData
	return m
}

func specFromCase(kase map[string]interface{}) readerSpec {
	var s readerSpec
	if l, ok := kase["chunks"].([]interface{}); ok {
		s.chunks = []int{}
		for _, v := range l {
			switch n := v.(type) {
			case float64:
				s.chunks = append(s.chunks, int(n))
			case int:
				s.chunks = append(s.chunks, n)
			}
		}
		if len(s.chunks) == 0 {
			s.chunks = nil
		}
	}
	s.eofData, _ = kase["eofdata"].(bool)
	return s
}

// ---- checks -----------------------------------------------------------------------------

// around shows the bytes on both sides of the first buffer-size multiple inside in.
func around(in []byte) string {
	if len(in) <= ioBlock {
		return ""
	}
	lo, hi := ioBlock-6, ioBlock+6
	if hi > len(in) {
		hi = len(in)
	}
	return fmt.Sprintf(", bytes %d..%d = %q", lo, hi-1, in[lo:hi])
}

// checkObjectsVia: the document-level parser, reading the bytes through the given
// kind of reader, must give back exactly the objects written. keyPrefix gets the
// type of the first node that differs appended (or is used as is when fixedKey).
func (x runner) checkObjectsVia(in []byte, exp []*node, want string, rs readerSpec, label, keyPrefix string, fixedKey, emit bool) outcome {
	c := x.c
	o := runObjVia(in, rs)
	if emit && !o.hang && o.panic_ == "" {
		// the model knows nothing of readers: it must say the same whatever the chunking
		c.Op("c06.obj "+hx.Hex(in), o.line)
	}
	if abnormal(c, o, "obj", in) {
		return o
	}
	if o.line == want {
		if fixedKey {
			remember(c, keyPrefix, true, nil, nil)
		} else {
			remember(c, keyPrefix+kindName[exp[0].k], true, nil, nil)
		}
		return o
	}
	d := seqDiff(exp, o.objs)
	if d == "" {
		d = "end"
	}
	key := keyPrefix + d
	if fixedKey {
		key = keyPrefix
	}
	kind := "objr"
	kase := rs.kase(map[string]interface{}{"kind": kind, "input": hx.Hex(in), "expect": want, "key": key, "policy": label})
	remember(c, key, false, kase, func() string {
		w, g := want, o.line
		if len(w) > 300 {
			w = w[:300] + "…"
		}
		if len(g) > 300 {
			g = g[:300] + "…"
		}
		return fmt.Sprintf("policy %s, %s, %d bytes%s: wrote %s, parser read %s (%d objects, end %s) from %s",
			label, rs, len(in), around(in), w, g, len(o.objs), o.end, short(in))
	})
	return o
}

// checkProgramWant is checkProgram for large programs: one grouping verdict and one
// operand verdict per parse (not one per operation), case built only on failure.
func (x runner) checkProgramWant(in []byte, exp []operation, want, label string, emit bool) outcome {
	c := x.c
	runCS([]byte("q")) // an operator empties the operand stack: every case starts clean
	o := runCS(in)
	if emit && !o.hang && o.panic_ == "" {
		c.Op("c06.cs "+hx.Hex(in), o.line)
	}
	if abnormal(c, o, "cs", in) {
		return o
	}
	kase := func(key string) map[string]interface{} {
		return map[string]interface{}{"kind": "cs", "input": hx.Hex(in), "expect": want, "key": key, "policy": label}
	}
	if o.line == want {
		remember(c, "C06/cs-large-grouping", true, nil, nil)
		remember(c, "C06/cs-large-roundtrip", true, nil, nil)
		return o
	}
	grouping := o.ok && len(o.ops) == len(exp)
	bad := -1
	if grouping {
		for i := range exp {
			if o.ops[i].op != exp[i].op || len(o.ops[i].operands) != len(exp[i].operands) {
				grouping = false
				bad = i
				break
			}
		}
	}
	if !grouping {
		remember(c, "C06/cs-large-grouping", false, kase("C06/cs-large-grouping"), func() string {
			if !o.ok {
				return fmt.Sprintf("policy %s: legal content stream of %d bytes and %d operations rejected%s: %s", label, len(in), len(exp), around(in), short(in))
			}
			if bad >= 0 {
				return fmt.Sprintf("policy %s, %d bytes%s: operation %d written as %s, parser grouped %s", label, len(in), around(in), bad, opsLine(exp[bad:bad+1]), opsLine(o.ops[bad:bad+1]))
			}
			return fmt.Sprintf("policy %s, %d bytes%s: wrote %d operations, parser returned %d", label, len(in), around(in), len(exp), len(o.ops))
		})
		return o
	}
	remember(c, "C06/cs-large-grouping", true, nil, nil)
	for i := range exp {
		if d := seqDiff(exp[i].operands, o.ops[i].operands); d != "" {
			key := "C06/cs-large-roundtrip-" + d
			remember(c, key, false, kase(key), func() string {
				return fmt.Sprintf("policy %s, %d bytes%s: operation %d wrote %s, parser read %s", label, len(in), around(in), i, opsLine(exp[i:i+1]), opsLine(o.ops[i:i+1]))
			})
			return o
		}
	}
	// the lines differ although every operand compares equal: cannot happen for a
	// faithful rendering; keep it visible rather than silent
	remember(c, "C06/cs-large-roundtrip-line", false, kase("C06/cs-large-roundtrip-line"), func() string {
		return fmt.Sprintf("policy %s: result line differs from the written program (%d bytes)", label, len(in))
	})
	return o
}

// ---- large trees and programs ---------------------------------------------------------------

func longBytes(r *hx.Rng, n int) []byte {
	b := make([]byte, n)
	mode := r.Intn(3)
	for i := range b {
		switch mode {
		case 0:
			b[i] = byte(r.U64())
		case 1:
			b[i] = hx.Pick(r, []byte("()\\<>[]/%# \t\r\n\f\x00019nrtbfAFaf"))
		default:
			if r.Chance(1, 4) {
				b[i] = hx.Pick(r, []byte("()\\\r\n\t#/% "))
			} else {
				b[i] = byte(r.Range(33, 126))
			}
		}
	}
	return b
}

// bigElement is one child of a large container: mostly short atoms of every type
// (so that any small neighbourhood of the print holds many token kinds), some
// small containers, now and then a long string or name.
func bigElement(r *hx.Rng, shape int, noRef bool) *node {
	switch {
	case shape == 3 && r.Chance(1, 2):
		return randTree(r, r.Range(2, 3), noRef)
	case shape == 4 && r.Chance(1, 12):
		if r.Chance(1, 3) {
			return &node{k: kName, s: longBytes(r, r.Range(30, 200))}
		}
		return &node{k: kStr, s: longBytes(r, r.Range(60, 700))}
	case r.Chance(1, 10):
		return randTree(r, 2, noRef)
	case !noRef && r.Chance(1, 8):
		return mkRef(int64(r.Intn(100000)), int64(r.Intn(3)*r.Intn(65536)))
	}
	return randAtom(r, noRef)
}

var bigShapes = []string{"array", "dict", "sequence", "nested", "long-strings", "one-long-string"}

// bigObjects grows a tree (or top-level sequence) until its print under policy p
// is at least minLen bytes long; it returns the objects, the print and its spans.
func bigObjects(r *hx.Rng, p policy, shape, minLen int) ([]*node, []byte, []span) {
	var elems []*node
	build := func() []*node {
		switch shape {
		case 1:
			d := &node{k: kDict}
			for i, e := range elems {
				key := []byte("K" + strconv.Itoa(i))
				if i%3 == 1 {
					// distinct by construction: the index is part of the key
					key = append(randBytes(r.Fork(uint64(i)), 4), "_"+strconv.Itoa(i)...)
				}
				d.dict = append(d.dict, entry{key, e})
			}
			return []*node{d}
		case 2:
			return append([]*node{}, elems...)
		case 3:
			// containers inside containers: rows of 1..5 elements, rows alternately arrays and dictionaries
			top := &node{k: kArr}
			for i := 0; i < len(elems); {
				n := 1 + (i*7+3)%5
				if i+n > len(elems) {
					n = len(elems) - i
				}
				if (i/3)%2 == 0 {
					top.arr = append(top.arr, mkArr(elems[i:i+n]...))
				} else {
					d := &node{k: kDict}
					for j, e := range elems[i : i+n] {
						d.dict = append(d.dict, entry{[]byte(keyAlphabet[j%len(keyAlphabet)] + strconv.Itoa(j)), e})
					}
					top.arr = append(top.arr, d)
				}
				i += n
			}
			return []*node{mkArr(mkInt(int64(len(elems))), top)}
		}
		return []*node{mkArr(elems...)}
	}
	if shape == 5 {
		// one string longer than the buffer between two short neighbours
		long := longBytes(r, minLen/4+16)
		for round := 0; ; round++ {
			elems = []*node{mkInt(int64(r.Intn(100))), {k: kStr, s: long}, mkName("After"), mkRef(12, 0)}
			ts := build()
			q := p
			q.r = r.Fork(uint64(9000 + round))
			b, sp := printObjectsSpans(q, ts)
			if len(b) >= minLen {
				return ts, b, sp
			}
			long = append(long, longBytes(r, (minLen-len(b))*len(long)/(len(b)+1)+16)...)
		}
	}
	add := minLen/40 + 4
	for round := 0; ; round++ {
		for i := 0; i < add; i++ {
			elems = append(elems, bigElement(r, shape, false))
		}
		ts := build()
		q := p
		q.r = r.Fork(uint64(5000 + round))
		b, sp := printObjectsSpans(q, ts)
		if len(b) >= minLen {
			return ts, b, sp
		}
		// how many more elements the missing bytes need, at the density seen so far
		add = (minLen-len(b))*len(elems)/(len(b)+1) + 8
	}
}

func bigProgram(r *hx.Rng, p policy, minLen int) ([]operation, []byte, []span) {
	var prog []operation
	add := minLen/60 + 2
	for round := 0; ; round++ {
		for i := 0; i < add; i++ {
			op := hx.Pick(r, operators)
			if r.Chance(1, 4) {
				op = hx.Pick(r, []string{"'", "\"", "T*", "TJ", "Tj", "BDC", "f", "n", "d0"})
			}
			o := operation{op: op}
			k := r.Intn(4)
			if r.Chance(1, 8) {
				k = r.Range(4, 7)
			}
			for j := 0; j < k; j++ {
				if r.Chance(1, 25) {
					o.operands = append(o.operands, &node{k: kStr, s: longBytes(r, r.Range(60, 500))})
				} else {
					o.operands = append(o.operands, randTree(r, r.Range(1, 3), true))
				}
			}
			prog = append(prog, o)
		}
		q := p
		q.r = r.Fork(uint64(6000 + round))
		b, sp := printOpsSpans(q, prog)
		if len(b) >= minLen {
			return prog, b, sp
		}
		add = (minLen-len(b))*len(prog)/(len(b)+1) + 4
	}
}

// slidePrefix is a legal prefix of exactly s bytes in front of a first token:
// white space, or (every third length that allows it) a comment line.
func slidePrefix(r *hx.Rng, s int, eol string) []byte {
	if s%3 == 2 && s >= 1+len(eol) {
		b := []byte{'%'}
		for len(b) < s-len(eol) {
			ch := byte(r.Range(32, 126))
			b = append(b, ch)
		}
		return append(b, eol...)
	}
	b := make([]byte, s)
	for i := range b {
		b[i] = hx.Pick(r, wsBytes)
	}
	return b
}

// countStraddles records, for the input body slid by s bytes, which lexical
// elements lie across a multiple of the buffer size (bytes B-1 and B both inside).
func (x runner) countStraddles(spans []span, s, total int, bucket string) {
	for _, sp := range spans {
		a, e := sp.start+s, sp.end+s
		for B := ioBlock; B < total; B += ioBlock {
			if a < B && B < e {
				x.c.Count(bucket + sp.what)
			}
		}
	}
}

// slideShifts lists the prefix lengths under which the body is parsed: every length
// 0..K-1 (a contiguous neighbourhood of each multiple of the buffer size), and, for
// every class of lexical element (token kinds, separator kinds, "n g R" groups) and
// every multiple B, the lengths that put B INSIDE the nearest element of that class
// lying up to maxSlide bytes before B — at `cuts` of its interior positions (first,
// last and random ones), so each class is cut at each multiple whatever K is.
func slideShifts(r *hx.Rng, spans []span, bodyLen, K, maxSlide, cuts int) []int {
	seen := map[int]bool{}
	var out []int
	add := func(s int) {
		if s >= 0 && s <= maxSlide && !seen[s] {
			seen[s] = true
			out = append(out, s)
		}
	}
	for s := 0; s < K; s++ {
		add(s)
	}
	for B := ioBlock; B < bodyLen+maxSlide; B += ioBlock {
		done := map[string]bool{}
		for i := len(spans) - 1; i >= 0; i-- {
			sp := spans[i]
			if sp.end-sp.start < 2 || done[sp.what] {
				continue
			}
			// cut positions c with start < c < end, slid to B: s = B - c
			if sp.start+1 > B || B-(sp.end-1) > maxSlide || B-(sp.start+1) < 0 {
				continue
			}
			done[sp.what] = true
			inner := sp.end - sp.start - 1 // number of interior cuts
			pick := []int{1, inner}
			for len(pick) < cuts {
				pick = append(pick, r.Range(1, inner))
			}
			for _, k := range pick[:cuts] {
				add(B - (sp.start + k))
			}
		}
	}
	return out
}

// boundaryPolicy: thirteen policies in turn: the ten fixed ones, "one token per line"
// with CRLF line ends (plain and indented), and a random one.
func boundaryPolicy(r *hx.Rng, i int) policy {
	switch i % 13 {
	case 10:
		return policy{label: "crlf-lines", sep: sepSingle, eol: "\r\n", str: strLiteral, name: nameMinimal, r: r}
	case 11:
		return policy{label: "crlf-indented", sep: sepLines, eol: "\r\n", str: strMixed, name: nameMixed, numDeco: true, r: r}
	case 12:
		p := randomPolicy(r)
		if r.Chance(1, 3) {
			p.sep = sepLines
		}
		return p
	}
	return fixedPolicies(r)[i%13]
}

// stageLargeObjects: stage 8.
func (x runner) stageLargeObjects() {
	c := x.c
	K := c.N(32, 130)
	maxSlide, cuts := 500, c.N(3, 6)
	n := c.N(14, 156)
	for bi := 0; bi < n && !poisoned; bi++ {
		r := c.Rng.Fork(uint64(300000 + bi))
		p := boundaryPolicy(r, bi)
		// shapes have period 6, policies 13, and the number of multiples crossed moves
		// by one from one block of six to the next: all combinations meet over the run
		shape := bi % len(bigShapes)
		crossings := 1 + (bi+bi/len(bigShapes))%3
		ts, body, spans := bigObjects(r, p, shape, crossings*ioBlock+8)
		want := objsLine(ts, "eof")
		c.Count("large-obj-shape:" + bigShapes[shape])
		c.Count("large-obj-policy:" + p.label)
		c.Count(fmt.Sprintf("large-obj-crossings:%d", (len(body)+K)/ioBlock))
		allOK := true
		for si, s := range slideShifts(r, spans, len(body), K, maxSlide, cuts) {
			if poisoned {
				break
			}
			in := append(slidePrefix(r, s, p.eol), body...)
			x.countStraddles(spans, s, len(in), "straddle-obj:")
			emit := si == 0 || si == K/2 || si == K+3
			o := x.checkObjectsVia(in, ts, want, readerSpec{}, p.label, "C06/core-large-roundtrip-", false, emit)
			if o.line != want {
				allOK = false
			}
			// the same bytes through a reader with short reads: other window ends
			rs := fixedScheds[(si+bi)%len(fixedScheds)]
			if si%4 == 3 {
				rs = randSched(r)
			}
			if o2 := x.checkObjectsVia(in, ts, want, rs, p.label, "C06/core-large-shortread-", false, false); o2.line != want {
				allOK = false
			}
			if emit {
				if l := runLexVia(in, readerSpec{}); !abnormal(c, l, "lex", in) {
					c.Op("c06.lex "+hx.Hex(in), l.line)
				}
			}
		}
		c.Case(fmt.Sprintf("big:%d:%s:%s:%d", bi, bigShapes[shape], p.label, len(body)), allOK)
	}
}

// stageLargePrograms: stage 9.
func (x runner) stageLargePrograms() {
	c := x.c
	K := c.N(24, 100)
	maxSlide, cuts := 500, c.N(3, 6)
	n := c.N(13, 130)
	for bi := 0; bi < n && !poisoned; bi++ {
		r := c.Rng.Fork(uint64(310000 + bi))
		p := boundaryPolicy(r, bi)
		crossings := 1 + (bi+bi/13)%3
		prog, body, spans := bigProgram(r, p, crossings*ioBlock+8)
		want := opsLine(prog)
		c.Count("large-cs-policy:" + p.label)
		c.Count(fmt.Sprintf("large-cs-ops:%d00s", len(prog)/100))
		allOK := true
		for si, s := range slideShifts(r, spans, len(body), K, maxSlide, cuts) {
			if poisoned {
				break
			}
			in := append(slidePrefix(r, s, p.eol), body...)
			x.countStraddles(spans, s, len(in), "straddle-cs:")
			if o := x.checkProgramWant(in, prog, want, p.label, si == 0 || si == K/2 || si == K+3); o.line != want {
				allOK = false
			}
		}
		c.Case(fmt.Sprintf("bigp:%d:%s:%d", bi, p.label, len(body)), allOK)
	}
}
