package c06

// Stage 10: names and strings whose BYTES are those of a lexical keyword or an
// operator of the format.
//
// ISO 32000-1 §7.3.4-5: the value of a string or a name is its byte sequence;
// "/stream", "(stream)" and "<73747265616D>" are a name and two strings and have
// nothing to do with the keyword "stream" (§7.3.8), just as "/R" is not the R of
// an indirect reference, "(true)" is not a boolean and "/Tj" is not an operator.
// An object tree may carry such atoms anywhere, so the round trip of the property
// covers them: every keyword-spelled atom is put at every position of arrays
// (first / middle / last / alone), dictionaries (as key, as value, both; last or
// followed by further entries), nested containers, the top-level sequence, next to
// integers and references (whose "n g R" needs a look-ahead), and of operand lists
// (before the operator of the same spelling too) — always followed by further
// tokens as well as last — and printed under every spelling policy (so the string
// comes as literal, escaped, octal and hex, the name raw and #-escaped).
//
// Oracles:
//   C06/core-kwspelled-roundtrip-<type>  document-level parser read back another tree
//   C06/cs-kwspelled-grouping            operators / operand counts not preserved
//   C06/cs-kwspelled-roundtrip-<type>    content-stream parser read another operand
//   C06/parsers-disagree                 (shared) both accept, different values

import (
	"fmt"

	"verifharness/hx"
)

// the words of the format: object syntax and file structure (§7.3, §7.5), the
// xref entry types, the inline-image operators, then every content-stream operator
var structuralWords = []string{"true", "false", "null", "R", "obj", "endobj", "stream", "endstream",
	"xref", "trailer", "startxref", "f", "n", "BI", "ID", "EI"}

type kwWord struct {
	w     string
	class string // structural | near | operator
}

func flipFirst(s string) string {
	b := []byte(s)
	switch {
	case b[0] >= 'a' && b[0] <= 'z':
		b[0] -= 32
	case b[0] >= 'A' && b[0] <= 'Z':
		b[0] += 32
	}
	return string(b)
}

// kwWords: the exact spellings, and for the structural ones three near misses each
// (one byte more, one byte less, other case) which are ordinary atoms.
func kwWords() []kwWord {
	seen := map[string]bool{}
	var out []kwWord
	add := func(w, class string) {
		if w == "" || seen[w] {
			return
		}
		seen[w] = true
		out = append(out, kwWord{w, class})
	}
	for _, w := range structuralWords {
		add(w, "structural")
	}
	for _, w := range operators {
		add(w, "operator")
	}
	for _, w := range structuralWords {
		add(w+"s", "near")
		add(w[:len(w)-1], "near")
		add(flipFirst(w), "near")
	}
	return out
}

func mkDict(es ...entry) *node { return &node{k: kDict, dict: es} }
func ent(k string, v *node) entry { return entry{[]byte(k), v} }

// kwCtx hands the templates their parts: W the keyword-spelled atom (fresh copy per
// use), V the atom of the other type with the same bytes, key the word as a
// dictionary key, x the next filler atom.
type kwCtx struct {
	word string
	name bool // W is a name (else a string)
	fill *atomCycle
}

func (k *kwCtx) W() *node {
	if k.name {
		return mkName(k.word)
	}
	return mkStr(k.word)
}
func (k *kwCtx) V() *node {
	if k.name {
		return mkStr(k.word)
	}
	return mkName(k.word)
}
func (k *kwCtx) x() *node { return k.fill.next() }

// the positions. refs: the template contains indirect references (document level only).
var kwTemplates = []struct {
	name  string
	refs  bool
	build func(k *kwCtx) []*node
}{
	{"top-alone", false, func(k *kwCtx) []*node { return []*node{k.W()} }},
	{"top-followed", false, func(k *kwCtx) []*node { return []*node{k.W(), k.x(), k.V(), mkInt(7), k.W()} }},
	{"array-alone", false, func(k *kwCtx) []*node { return []*node{mkArr(k.W())} }},
	{"array-first", false, func(k *kwCtx) []*node { return []*node{mkArr(k.W(), k.x(), k.x())} }},
	{"array-middle", false, func(k *kwCtx) []*node { return []*node{mkArr(k.x(), k.W(), k.x())} }},
	{"array-last", false, func(k *kwCtx) []*node { return []*node{mkArr(k.x(), k.x(), k.W())} }},
	{"array-run", false, func(k *kwCtx) []*node { return []*node{mkArr(k.W(), k.V(), k.W())} }},
	{"array-after-ints", false, func(k *kwCtx) []*node { return []*node{mkArr(mkInt(1), mkInt(0), k.W(), mkInt(2))} }},
	{"dict-key", false, func(k *kwCtx) []*node { return []*node{mkDict(ent(k.word, k.x()))} }},
	{"dict-key-followed", false, func(k *kwCtx) []*node {
		return []*node{mkDict(ent(k.word, k.x()), ent("Q1", k.x()))}
	}},
	{"dict-value-last", false, func(k *kwCtx) []*node { return []*node{mkDict(ent("Q1", k.x()), ent("Q2", k.W()))} }},
	{"dict-value-followed", false, func(k *kwCtx) []*node {
		return []*node{mkDict(ent("Q1", k.W()), ent("Q2", k.x()))}
	}},
	{"dict-key-and-value", false, func(k *kwCtx) []*node {
		return []*node{mkDict(ent(k.word, k.W()), ent("Q2", k.V()))}
	}},
	{"nested-array", false, func(k *kwCtx) []*node { return []*node{mkArr(mkArr(k.W(), k.x()), k.x())} }},
	{"nested-dict", false, func(k *kwCtx) []*node {
		return []*node{mkDict(ent("Q1", mkArr(k.x(), k.W())), ent("Q2", mkDict(ent(k.word, k.V()))), ent("Q3", k.x()))}
	}},
	{"dict-in-array", false, func(k *kwCtx) []*node {
		return []*node{mkArr(mkDict(ent(k.word, k.W())), k.W(), mkArr())}
	}},
	{"array-with-refs", true, func(k *kwCtx) []*node {
		return []*node{mkArr(mkRef(3, 0), k.W(), mkRef(12, 1), k.V(), mkInt(5), mkInt(6))}
	}},
	{"dict-with-refs", true, func(k *kwCtx) []*node {
		return []*node{mkDict(ent(k.word, mkRef(4, 0)), ent("Q1", k.W()), ent("Q2", mkRef(5, 0))), mkInt(1), mkInt(2)}
	}},
}

// checkProgramKeyed is checkProgramWant with its own oracle keys (prefix-grouping,
// prefix-roundtrip-<type>): one grouping verdict and one operand verdict per parse.
func (x runner) checkProgramKeyed(in []byte, exp []operation, label, prefix string, emit bool) outcome {
	c := x.c
	runCS([]byte("q")) // an operator empties the operand stack: every case starts clean
	o := runCS(in)
	if emit && !o.hang && o.panic_ == "" {
		c.Op("c06.cs "+hx.Hex(in), o.line)
	}
	if abnormal(c, o, "cs", in) {
		return o
	}
	want := opsLine(exp)
	kase := func(key string) map[string]interface{} {
		return map[string]interface{}{"kind": "cs", "input": hx.Hex(in), "expect": want, "key": key, "policy": label}
	}
	gkey := prefix + "grouping"
	if o.line == want {
		remember(c, gkey, true, nil, nil)
		remember(c, prefix+"roundtrip", true, nil, nil)
		return o
	}
	grouping := o.ok && len(o.ops) == len(exp)
	if grouping {
		for i := range exp {
			if o.ops[i].op != exp[i].op || len(o.ops[i].operands) != len(exp[i].operands) {
				grouping = false
				break
			}
		}
	}
	if !grouping {
		remember(c, gkey, false, kase(gkey), func() string {
			if !o.ok {
				return fmt.Sprintf("policy %s: legal content stream rejected: %s (wrote %s)", label, short(in), want)
			}
			return fmt.Sprintf("policy %s: wrote %s, parser grouped %s from %s", label, want, o.line, short(in))
		})
		return o
	}
	remember(c, gkey, true, nil, nil)
	for i := range exp {
		if d := seqDiff(exp[i].operands, o.ops[i].operands); d != "" {
			key := prefix + "roundtrip-" + d
			remember(c, key, false, kase(key), func() string {
				return fmt.Sprintf("policy %s: operation %d wrote %s, parser read %s from %s", label, i, opsLine(exp[i:i+1]), opsLine(o.ops[i:i+1]), short(in))
			})
			return o
		}
	}
	key := prefix + "roundtrip-line"
	remember(c, key, false, kase(key), func() string {
		return fmt.Sprintf("policy %s: result line %s differs from the written program %s", label, o.line, want)
	})
	return o
}

func isOperatorWord(w string) bool {
	for _, o := range operators {
		if o == w {
			return true
		}
	}
	return false
}

// stageKeywordSpelled: every word × {name, string} × every position × spelling policies,
// through both parsers.
func (x runner) stageKeywordSpelled() {
	c := x.c
	words := kwWords()
	fill := &atomCycle{noRef: true}
	ncase := 0
	for wi, w := range words {
		if poisoned {
			return
		}
		for ki, isName := range []bool{true, false} {
			kindLabel := "string"
			if isName {
				kindLabel = "name"
			}
			for ti, tpl := range kwTemplates {
				r := c.Rng.Fork(uint64(300000 + (wi*2+ki)*len(kwTemplates) + ti))
				pols := fixedPolicies(r)
				use := pols
				// quick: the exact structural words under every policy, the rest under two
				// policies that rotate (every word × type still meets all ten over the positions)
				if w.class != "structural" && !c.Thorough() {
					a := (wi + ti + ki) % len(pols)
					b := (a + 3 + ti%5) % len(pols)
					use = []policy{pols[a], pols[b]}
				}
				for pi, p := range use {
					k := &kwCtx{word: w.w, name: isName, fill: fill}
					ts := tpl.build(k)
					emit := c.Thorough() || (w.class == "structural" && pi < 3) || (w.class != "structural" && pi == 0 && (wi+ti)%4 == 0)

					// document-level parser
					in := printObjects(p, ts)
					o := x.checkObjects(in, ts, p.label, "C06/core-kwspelled-roundtrip-", emit)
					c.Case("k:"+objsLine(ts, "")+p.label, o.end == "eof")

					// content-stream parser: the same nodes as operands; the operator is the
					// word itself where it is one; a second operation takes the atom alone
					if !tpl.refs {
						op1 := operators[(wi+ti+pi)%len(operators)]
						if isOperatorWord(w.w) && ti%2 == 0 {
							op1 = w.w
						}
						prog := []operation{
							{op: op1, operands: ts},
							{op: operators[(wi*7+ti)%len(operators)], operands: []*node{k.W()}},
							{op: operators[(wi+ti*5+ki)%len(operators)]},
						}
						x.checkProgramKeyed(printOps(p, prog), prog, p.label, "C06/cs-kwspelled-", emit)
						if len(ts) == 1 {
							x.checkAgree(in)
						}
					}
					ncase++
					c.Count("kwspelled-word:" + w.class + ":" + kindLabel)
					c.Count("kwspelled-position:" + tpl.name)
					c.Count("kwspelled-policy:" + p.label)
				}
			}
		}
	}
	c.Note("keyword-spelled atoms: %d words x {name,string} x %d positions, %d printed cases", len(words), len(kwTemplates), ncase)
}
