package c06

// Stage 12: literal strings whose spelling holds RAW end-of-line bytes.
//
// The other stages never put a raw CR between the parentheses of a literal
// string (the printer escapes byte 13, see printer.go), so the class "binary
// string data written without escaping the end-of-line bytes" - (a<CR>b),
// (a<CR><LF>b), (<LF><CR>) … - never reached either parser. It is inside the
// property's quantifier all the same: "strings with arbitrary bytes", "line-ending
// variants", and above all "the document-level parser and the content-stream
// parser assign the same value to every operand both accept".
//
// What such a spelling MEANS has two defensible readings, and the property text
// does not choose between them:
//   keep : the value of a literal string is its bytes, so a raw CR is byte 13
//          (what a writer that escapes only \ ( ) relies on);
//   norm : ISO 32000-1 §7.3.4.2 - an end-of-line marker inside a literal string
//          that is not preceded by a backslash reads as ONE byte 10, whether it
//          was written CR, LF or CR LF.
// The harness therefore authors, for every spelling, BOTH values (per piece of the
// spelling, see rawPiece) and demands
//   (1) of each parser: the tree read back is the tree written under ONE of the
//       two readings, applied to the whole input - every byte that is not a raw
//       end-of-line comes back exactly, nothing is dropped, doubled or moved, the
//       tokens behind the string are read from where the string ended;
//   (2) of the pair: both parsers read the SAME tree (whichever reading it is).
// Nothing here is taken from tabula's behaviour.
//
// Generators: every raw end-of-line form (CR, CR LF, LF CR, CR CR, CR LF CR LF,
// CR CR LF, and LF as the control) in every context of a literal string (alone,
// first, last, in the middle, inside balanced raw parentheses, behind an escaped
// backslash, behind each kind of line continuation, in front of a continuation,
// next to \n \r and octal escapes), each string at every position of arrays,
// dictionaries, nested containers, object sequences and operand lists, under the
// ten spelling policies (which spell everything AROUND the string), through full
// and short reads; plus random spellings built piece by piece (raw bytes over all
// 256 values, raw end-of-lines, named and octal escapes, continuations, nested
// parentheses) inside random trees and random programs.
//
// Oracles:
//   C06/core-raw-eol-roundtrip   document-level parser: neither reading of what was written
//   C06/core-raw-eol-shortread   the same through an io.Reader with short reads
//   C06/cs-raw-eol-grouping      content-stream parser: operators / operand counts not preserved
//   C06/cs-raw-eol-roundtrip     content-stream parser: neither reading of the operands written
//   C06/parsers-disagree-raw-eol both parsers accept the operand and give different values

import (
	"fmt"

	"verifharness/hx"
)

// rawPiece is one lexical piece of a literal string's spelling with the bytes it
// stands for under the two readings.
type rawPiece struct {
	spell, keep, norm string
	form              string // distribution bucket
}

var rawEOLForms = []rawPiece{
	{"\r", "\r", "\n", "cr"},
	{"\r\n", "\r\n", "\n", "crlf"},
	{"\n\r", "\n\r", "\n\n", "lf-cr"},
	{"\r\r", "\r\r", "\n\n", "cr-cr"},
	{"\r\n\r\n", "\r\n\r\n", "\n\n", "crlf-crlf"},
	{"\r\r\n", "\r\r\n", "\n\n", "cr-crlf"},
	{"\n", "\n", "\n", "lf"},
}

// rawEOLContexts builds the spelling around one end-of-line form; skip says for
// which forms the context would change the form itself (a CR in front of a form
// that starts with LF makes a CR LF pair).
var rawEOLContexts = []struct {
	name        string
	pre, post   string // spelling before / after the form (inside the parentheses)
	kpre, kpost string // their value (the same under both readings)
	skipLFFirst bool
}{
	{"alone", "", "", "", "", false},
	{"middle", "a", "b", "a", "b", false},
	{"first", "", "b", "", "b", false},
	{"last", "a", "", "a", "", false},
	{"in-parens", "a(", ")b", "a(", ")b", false},
	{"in-parens-deep", "((x", "))y", "((x", "))y", false},
	{"after-backslash", "\\\\", "", "\\", "", false},
	{"after-continuation-crlf", "a\\\r\n", "b", "a", "b", false},
	{"after-continuation-lf", "a\\\n", "b", "a", "b", false},
	{"after-continuation-cr", "a\\\r", "b", "a", "b", true},
	{"before-continuation", "a", "\\\r\nb", "a", "b", false},
	{"before-continuation-lf", "a", "\\\nb", "a", "b", false},
	{"before-escaped-lf", "", "\\n", "", "\n", false},
	{"before-escaped-cr", "", "\\r", "", "\r", false},
	{"before-octal-cr", "", "\\015z", "", "\rz", false},
	{"after-octal-cr", "q\\015", "", "q\r", "", false},
	{"after-escaped-cr", "\\r", "7", "\r", "7", false},
	{"after-short-octal", "\\1", "\\12", "\x01", "\n", false},
	{"binary", "\x00\xff", "\x80(\x0c)\t", "\x00\xff", "\x80(\x0c)\t", false},
}

func mkRawEOL(lit, keep, norm string) *node {
	return &node{k: kStr, s: []byte(keep), lit: []byte("(" + lit + ")"), alt: []byte(norm)}
}

// altTree is the tree under the other reading: every generator-spelled string
// takes its alt value.
func altTree(n *node) *node {
	c := *n
	if n.k == kStr && n.lit != nil {
		c.s = n.alt
	}
	if n.arr != nil {
		c.arr = make([]*node, len(n.arr))
		for i, e := range n.arr {
			c.arr[i] = altTree(e)
		}
	}
	if n.dict != nil {
		c.dict = make([]entry, len(n.dict))
		for i, e := range n.dict {
			c.dict[i] = entry{e.key, altTree(e.val)}
		}
	}
	return &c
}

func altTrees(ns []*node) []*node {
	out := make([]*node, len(ns))
	for i, n := range ns {
		out[i] = altTree(n)
	}
	return out
}

func altOps(ops []operation) []operation {
	out := make([]operation, len(ops))
	for i, o := range ops {
		out[i] = operation{op: o.op, operands: altTrees(o.operands)}
	}
	return out
}

func cp(n *node) *node { c := *n; return &c }

// ---- random spellings ---------------------------------------------------------------------

// randRawEOLString spells a random string piece by piece. A raw LF is never put
// directly behind a raw CR (that would be the CR LF piece, which is generated as
// such), so that the value of the whole is the concatenation of the pieces' values
// under either reading.
func randRawEOLString(r *hx.Rng) (*node, string) {
	var spell, keep, norm []byte
	forms := ""
	var gen func(n, depth int)
	add := func(p rawPiece) {
		if len(spell) > 0 && spell[len(spell)-1] == '\r' && p.spell[0] == '\n' {
			p = rawPiece{"\\n", "\n", "\n", ""}
		}
		spell = append(spell, p.spell...)
		keep = append(keep, p.keep...)
		norm = append(norm, p.norm...)
		if p.form != "" && len(forms) < 40 {
			forms += p.form + " "
		}
	}
	gen = func(n, depth int) {
		for ; n > 0; n-- {
			switch k := r.Intn(20); {
			case k < 6: // a raw end-of-line form
				add(hx.Pick(r, rawEOLForms[:3]))
			case k < 11: // a raw byte that is itself (everything but \ ( ) CR LF)
				b := byte(r.U64())
				if r.Bool() {
					b = hx.Pick(r, []byte("ab 01789nrtbf\x00\t\x0c\x0b\x0e\xff<>[]/%#"))
				}
				if b == '\\' || b == '(' || b == ')' || b == '\r' || b == '\n' {
					b = '.'
				}
				add(rawPiece{string([]byte{b}), string([]byte{b}), string([]byte{b}), ""})
			case k < 13: // a named escape
				b := hx.Pick(r, []byte("\n\r\t\b\f()\\"))
				add(rawPiece{"\\" + string([]byte{namedEscape[b]}), string([]byte{b}), string([]byte{b}), ""})
			case k < 15: // an octal escape, three digits
				b := byte(r.U64())
				if r.Bool() {
					b = hx.Pick(r, []byte("\r\n\\()"))
				}
				add(rawPiece{fmt.Sprintf("\\%03o", b), string([]byte{b}), string([]byte{b}), ""})
			case k < 17: // a line continuation
				add(rawPiece{"\\" + hx.Pick(r, []string{"\r", "\n", "\r\n"}), "", "", "cont"})
			case k < 19 && depth < 3: // balanced raw parentheses
				add(rawPiece{"(", "(", "(", ""})
				gen(r.Intn(4), depth+1)
				add(rawPiece{")", ")", ")", ""})
			default:
				add(rawPiece{"\\\\", "\\", "\\", ""})
			}
		}
	}
	gen(r.Range(1, 10), 0)
	return mkRawEOL(string(spell), string(keep), string(norm)), forms
}

// plantRawEOL replaces string leaves of a tree by randomly spelled ones (about one
// in two); it reports how many were planted.
func plantRawEOL(r *hx.Rng, n *node) int {
	planted := 0
	switch n.k {
	case kStr:
		if r.Bool() {
			s, _ := randRawEOLString(r)
			*n = *s
			planted++
		}
	case kArr:
		for _, e := range n.arr {
			planted += plantRawEOL(r, e)
		}
	case kDict:
		for _, e := range n.dict {
			planted += plantRawEOL(r, e.val)
		}
	}
	return planted
}

// ---- checks ---------------------------------------------------------------------------------

// rawEOLObjects: the document-level parser must read back the objects written, under
// one of the two readings of a raw end-of-line (the same for the whole input).
func (x runner) rawEOLObjects(in []byte, exp []*node, label string, rs *readerSpec, emit bool) outcome {
	c := x.c
	var o outcome
	key := "C06/core-raw-eol-roundtrip"
	if rs != nil {
		o = runObjVia(in, *rs)
		key = "C06/core-raw-eol-shortread"
	} else {
		o = runObj(in)
	}
	if emit && !o.hang && o.panic_ == "" {
		c.Op("c06.obj "+hx.Hex(in), o.line)
	}
	if abnormal(c, o, "obj", in) {
		return o
	}
	keep, norm := objsLine(exp, "eof"), objsLine(altTrees(exp), "eof")
	ok := o.line == keep || o.line == norm
	if ok {
		remember(c, key, true, nil, nil)
		return o
	}
	kase := map[string]interface{}{"kind": "obj", "input": hx.Hex(in), "expect": keep, "expect2": norm, "key": key, "policy": label}
	if rs != nil {
		kase = rs.kase(kase)
		kase["kind"] = "objr"
	}
	remember(c, key, false, kase, func() string {
		how := "full reads"
		if rs != nil {
			how = rs.String()
		}
		return fmt.Sprintf("policy %s, %s: wrote %s (raw end-of-line bytes kept) = %s (raw end-of-line read as LF), parser read %s from %s",
			label, how, keep, norm, o.line, short(in))
	})
	return o
}

// rawEOLProgram: the same for the content-stream parser, operator grouping first.
func (x runner) rawEOLProgram(in []byte, exp []operation, label string, emit bool) outcome {
	c := x.c
	runCS([]byte("q"))
	o := runCS(in)
	if emit && !o.hang && o.panic_ == "" {
		c.Op("c06.cs "+hx.Hex(in), o.line)
	}
	if abnormal(c, o, "cs", in) {
		return o
	}
	keep, norm := opsLine(exp), opsLine(altOps(exp))
	kase := func(key string) map[string]interface{} {
		return map[string]interface{}{"kind": "cs", "input": hx.Hex(in), "expect": keep, "expect2": norm, "key": key, "policy": label}
	}
	grouping := o.ok && len(o.ops) == len(exp)
	if grouping {
		for i := range exp {
			if o.ops[i].op != exp[i].op || len(o.ops[i].operands) != len(exp[i].operands) {
				grouping = false
			}
		}
	}
	if !grouping {
		remember(c, "C06/cs-raw-eol-grouping", false, kase("C06/cs-raw-eol-grouping"), func() string {
			return fmt.Sprintf("policy %s: wrote %s, parser grouped %s from %s", label, keep, o.line, short(in))
		})
		return o
	}
	remember(c, "C06/cs-raw-eol-grouping", true, nil, nil)
	ok := o.line == keep || o.line == norm
	if ok {
		remember(c, "C06/cs-raw-eol-roundtrip", true, nil, nil)
		return o
	}
	remember(c, "C06/cs-raw-eol-roundtrip", false, kase("C06/cs-raw-eol-roundtrip"), func() string {
		return fmt.Sprintf("policy %s: wrote %s (raw end-of-line bytes kept) = %s (raw end-of-line read as LF), parser read %s from %s",
			label, keep, norm, o.line, short(in))
	})
	return o
}

// ---- the stage --------------------------------------------------------------------------------

// rawEOLEmbeddings puts one string at every kind of position. Document-level
// object sequences first, then operator programs.
func rawEOLEmbeddings(s *node) (objs [][]*node, names []string, progs [][]operation, pnames []string) {
	c := func() *node { return cp(s) }
	objs = [][]*node{
		{c()},
		{c(), mkInt(7), c(), mkName("N")},
		{mkArr(mkInt(1), c(), mkName("A"), c(), mkStr("x"))},
		{mkDict(ent("K", c()), ent("L", mkInt(5)))},
		{mkDict(ent("K", mkInt(5)), ent("L", c()))},
		{mkArr(mkDict(ent("K", mkArr(c()))), c())},
		{mkArr(c(), mkRef(3, 0), c()), mkRef(4, 1)},
	}
	names = []string{"alone", "sequence", "array", "dict-followed", "dict-last", "nested", "next-to-ref"}
	progs = [][]operation{
		{{op: "Tj", operands: []*node{c()}}},
		{{op: "TJ", operands: []*node{mkArr(c(), mkInt(-120), c())}}, {op: "T*"}},
		{{op: "\"", operands: []*node{mkInt(1), mkInt(2), c()}}, {op: "'", operands: []*node{c()}}, {op: "q"}},
		{{op: "BDC", operands: []*node{mkName("P"), mkDict(ent("K", c()), ent("L", mkBool(true)))}}, {op: "EMC"}},
	}
	pnames = []string{"Tj", "TJ-array", "quote-operators", "BDC-dict"}
	return
}

func (x runner) stageRawEOL() {
	c := x.c
	const agreeKey = "C06/parsers-disagree-raw-eol"

	// (a) every form in every context at every position under every policy ----------------------
	ci := 0
	for fi, f := range rawEOLForms {
		for xi, cx := range rawEOLContexts {
			if cx.skipLFFirst && f.spell[0] == '\n' {
				continue
			}
			s := mkRawEOL(cx.pre+f.spell+cx.post, cx.kpre+f.keep+cx.kpost, cx.kpre+f.norm+cx.kpost)
			objs, names, progs, pnames := rawEOLEmbeddings(s)
			r := c.Rng.Fork(uint64(300000 + fi*100 + xi))
			for pi, p := range fixedPolicies(r) {
				for ei, ts := range objs {
					if poisoned {
						return
					}
					in := printObjects(p, ts)
					emit := ei == 0 || (ci+pi)%9 == 0 || c.Thorough()
					o := x.rawEOLObjects(in, ts, p.label, nil, emit)
					rs := fixedScheds[(ci+ei+pi)%len(fixedScheds)]
					x.rawEOLObjects(in, ts, p.label, &rs, false)
					c.Case("e:"+names[ei]+objsLine(ts, "")+p.label, o.end == "eof")
					c.Count("raweol-embed:" + names[ei])
					if len(ts) == 1 && !ts[0].hasRef() {
						// the same object as the operand of an operator, and both parsers side by side
						prog := []operation{{op: operators[(ci+ei+pi)%len(operators)], operands: ts}}
						x.rawEOLProgram(printOps(p, prog), prog, p.label, emit)
						x.checkAgreeKey(in, agreeKey)
					}
				}
				for gi, prog := range progs {
					if poisoned {
						return
					}
					emit := gi == 0 || (ci+pi)%9 == 0 || c.Thorough()
					o := x.rawEOLProgram(printOps(p, prog), prog, p.label, emit)
					c.Case("e:"+pnames[gi]+opsLine(prog)+p.label, o.ok)
					c.Count("raweol-embed:" + pnames[gi])
				}
				c.Count("raweol-policy:" + p.label)
			}
			c.Count("raweol-form:" + f.form)
			c.Count("raweol-context:" + cx.name)
			ci++
		}
	}

	// (b) random spellings inside random trees and programs -------------------------------------------
	for i := 0; i < c.N(400, 30000) && !poisoned; i++ {
		r := c.Rng.Fork(uint64(320000 + i))
		p := randomPolicy(r)
		if i%3 == 0 {
			p = fixedPolicies(r)[i/3%10]
		}
		switch i % 3 {
		case 0, 1: // document-level objects; without references also as an operand, side by side
			noRef := i%3 == 1
			var ts []*node
			planted := 0
			for n := r.Range(1, 3); n > 0; n-- {
				t := randTree(r, r.Range(1, 5), noRef)
				planted += plantRawEOL(r, t)
				ts = append(ts, t)
			}
			if planted == 0 {
				s, _ := randRawEOLString(r)
				ts = append(ts, s)
			}
			in := printObjects(p, ts)
			o := x.rawEOLObjects(in, ts, p.label, nil, true)
			rs := randSched(r.Fork(77))
			x.rawEOLObjects(in, ts, p.label, &rs, false)
			c.Case("er:"+objsLine(ts, ""), o.end == "eof")
			if noRef {
				one := ts[len(ts)-1:]
				x.checkAgreeKey(printObjects(p, one), agreeKey)
				prog := []operation{{op: hx.Pick(r, operators), operands: ts}}
				x.rawEOLProgram(printOps(p, prog), prog, p.label, i%2 == 0)
			}
			c.Count("raweol-random:objects")
		default: // operator programs with planted strings
			prog := randProgram(r, 6)
			planted := 0
			for _, op := range prog {
				for _, t := range op.operands {
					planted += plantRawEOL(r, t)
				}
			}
			s, _ := randRawEOLString(r)
			if planted == 0 || r.Chance(1, 3) {
				prog = append(prog, operation{op: hx.Pick(r, []string{"Tj", "'", "TJ"}), operands: []*node{s}})
			}
			o := x.rawEOLProgram(printOps(p, prog), prog, p.label, true)
			c.Case("ep:"+opsLine(prog), o.ok)
			c.Count("raweol-random:program")
		}
	}
}
