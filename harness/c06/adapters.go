package c06

// Adapters: the real tabula entry points named by the property
// (core.NewParser(r).ParseObject(), contentstream.NewParser(b).Parse(),
// core.NewLexer(r).NextToken()), each under a watchdog, with their results
// rendered in the wire format.

import (
	"bytes"
	"fmt"
	"io"
	"math"
	"sort"
	"strconv"
	"strings"
	"time"

	"github.com/tsawler/tabula/contentstream"
	"github.com/tsawler/tabula/core"

	"verifharness/hx"
)

const watchdog = 2 * time.Second

type outcome struct {
	line   string  // wire form of the result
	objs   []*node // obj: parsed objects
	end    string  // obj/lex: "eof" or "err"
	ops    []operation
	ok     bool   // cs: Parse returned no error
	panic_ string // non-empty if the implementation panicked
	hang   bool
}

// poisoned is set once an in-process call did not return: a goroutine is
// still spinning, so the run is cut short after recording the hang.
var poisoned bool

func guarded(f func() outcome) outcome {
	ch := make(chan outcome, 1)
	go func() {
		var o outcome
		if p := hx.Safe(func() { o = f() }); p != "" {
			o = outcome{panic_: p, line: "panic"}
		}
		ch <- o
	}()
	select {
	case o := <-ch:
		return o
	case <-time.After(watchdog):
		poisoned = true
		return outcome{hang: true, line: "hang"}
	}
}

func coreToNode(o core.Object) *node {
	switch v := o.(type) {
	case core.Null:
		return &node{k: kNull}
	case core.Bool:
		return mkBool(bool(v))
	case core.Int:
		return mkInt(int64(v))
	case core.Real:
		f := float64(v)
		if math.IsNaN(f) || math.IsInf(f, 0) {
			return &node{k: kReal, digs: "nan"}
		}
		s := strconv.FormatFloat(f, 'f', -1, 64)
		neg := strings.HasPrefix(s, "-")
		s = strings.TrimPrefix(s, "-")
		scale := 0
		if i := strings.IndexByte(s, '.'); i >= 0 {
			scale = len(s) - i - 1
			s = s[:i] + s[i+1:]
		}
		return mkReal(neg, s, scale)
	case core.String:
		return &node{k: kStr, s: []byte(v)}
	case core.Name:
		return &node{k: kName, s: []byte(v)}
	case core.Array:
		n := &node{k: kArr}
		for _, e := range v {
			n.arr = append(n.arr, coreToNode(e))
		}
		return n
	case core.Dict:
		n := &node{k: kDict}
		keys := make([]string, 0, len(v))
		for k := range v {
			keys = append(keys, k)
		}
		sort.Strings(keys)
		for _, k := range keys {
			n.dict = append(n.dict, entry{[]byte(k), coreToNode(v[k])})
		}
		return n
	case core.IndirectRef:
		return mkRef(int64(v.Number), int64(v.Generation))
	}
	return &node{k: kind(-1)}
}

func objsLine(objs []*node, end string) string {
	parts := make([]string, 0, len(objs)+1)
	for _, o := range objs {
		parts = append(parts, o.sexpr())
	}
	return strings.Join(append(parts, end), " ")
}

func opsLine(ops []operation) string {
	parts := []string{"ok"}
	for _, o := range ops {
		args := make([]string, len(o.operands))
		for i, a := range o.operands {
			args[i] = a.sexpr()
		}
		parts = append(parts, hx.HexS(o.op)+"("+strings.Join(args, ",")+")")
	}
	return strings.Join(parts, " ")
}

// parseObjects calls ParseObject until io.EOF or an error.
func parseObjects(in []byte) outcome {
	return parseObjectsFrom(bytes.NewReader(in), len(in)+2)
}

// chunkReader is an io.Reader over data that hands out the bytes in pieces of
// the scheduled sizes (cyclically), never more than asked for and never zero:
// a legal reader whose reads are short. With eofData the last piece comes
// together with io.EOF, which the io.Reader contract also allows.
type chunkReader struct {
	data    []byte
	off     int
	sched   []int
	i       int
	eofData bool
}

func (c *chunkReader) Read(p []byte) (int, error) {
	if len(p) == 0 {
		return 0, nil
	}
	if c.off >= len(c.data) {
		return 0, io.EOF
	}
	n := len(p)
	if len(c.sched) > 0 {
		n = c.sched[c.i%len(c.sched)]
		c.i++
	}
	if n < 1 {
		n = 1
	}
	if n > len(p) {
		n = len(p)
	}
	if n > len(c.data)-c.off {
		n = len(c.data) - c.off
	}
	copy(p, c.data[c.off:c.off+n])
	c.off += n
	if c.eofData && c.off == len(c.data) {
		return n, io.EOF
	}
	return n, nil
}

// readerSpec describes how the input bytes reach core.NewParser / core.NewLexer:
// chunks == nil means a bytes.Reader (every read as large as asked for).
type readerSpec struct {
	chunks  []int
	eofData bool
}

func (s readerSpec) open(in []byte) io.Reader {
	if s.chunks == nil && !s.eofData {
		return bytes.NewReader(in)
	}
	return &chunkReader{data: in, sched: s.chunks, eofData: s.eofData}
}

func (s readerSpec) String() string {
	if s.chunks == nil && !s.eofData {
		return "full reads"
	}
	return fmt.Sprintf("reads of %v bytes (cyclic), data-with-EOF=%v", s.chunks, s.eofData)
}

// parseObjectsFrom calls ParseObject on one parser over rd until io.EOF or an error.
func parseObjectsFrom(rd io.Reader, limit int) outcome {
	p := core.NewParser(rd)
	var o outcome
	for i := 0; i < limit; i++ {
		obj, err := p.ParseObject()
		if err == io.EOF {
			o.end = "eof"
			break
		}
		if err != nil {
			o.end = "err"
			break
		}
		o.objs = append(o.objs, coreToNode(obj))
	}
	if o.end == "" {
		o.end = "noprogress"
	}
	o.line = objsLine(o.objs, o.end)
	return o
}

func parseContent(in []byte) outcome {
	ops, err := contentstream.NewParser(in).Parse()
	if err != nil {
		return outcome{line: "err"}
	}
	o := outcome{ok: true}
	for _, op := range ops {
		x := operation{op: op.Operator}
		for _, a := range op.Operands {
			x.operands = append(x.operands, coreToNode(a))
		}
		o.ops = append(o.ops, x)
	}
	o.line = opsLine(o.ops)
	return o
}

var tokCode = map[core.TokenType]string{
	core.TokenEOF: "E", core.TokenWhitespace: "W", core.TokenComment: "C", core.TokenKeyword: "K",
	core.TokenInteger: "I", core.TokenReal: "F", core.TokenString: "S", core.TokenHexString: "H",
	core.TokenName: "N", core.TokenArrayStart: "[", core.TokenArrayEnd: "]", core.TokenDictStart: "D",
	core.TokenDictEnd: "d", core.TokenIndirectRef: "R",
}

// lexTokens runs the public lexer to EOF or the first error.
func lexTokens(in []byte) outcome {
	return lexTokensFrom(bytes.NewReader(in), len(in)+2)
}

func lexTokensFrom(rd io.Reader, limit int) outcome {
	l := core.NewLexer(rd)
	var parts []string
	end := ""
	for i := 0; i < limit; i++ {
		t, err := l.NextToken()
		if err != nil {
			end = "err"
			break
		}
		if t.Type == core.TokenEOF {
			end = "eof"
			break
		}
		parts = append(parts, tokCode[t.Type]+hx.Hex(t.Value))
	}
	if end == "" {
		end = "noprogress"
	}
	return outcome{line: strings.Join(append(parts, end), " "), end: end}
}

func runObj(in []byte) outcome { return guarded(func() outcome { return parseObjects(in) }) }
func runCS(in []byte) outcome  { return guarded(func() outcome { return parseContent(in) }) }
func runLex(in []byte) outcome { return guarded(func() outcome { return lexTokens(in) }) }

func runObjVia(in []byte, s readerSpec) outcome {
	return guarded(func() outcome { return parseObjectsFrom(s.open(in), len(in)+2) })
}
func runLexVia(in []byte, s readerSpec) outcome {
	return guarded(func() outcome { return lexTokensFrom(s.open(in), len(in)+2) })
}

// abnormal records the panic / hang oracles for one call; true if the call was abnormal.
func abnormal(c *hx.Ctx, o outcome, what string, in []byte) bool {
	kase := map[string]interface{}{"kind": what, "input": hx.Hex(in)}
	remember(c, "C06/panic", o.panic_ == "", kase, func() string {
		return fmt.Sprintf("%s panicked on %q: %s", what, in, o.panic_)
	})
	remember(c, "C06/hang", !o.hang, kase, func() string {
		return fmt.Sprintf("%s did not return within %v on %q", what, watchdog, in)
	})
	return o.panic_ != "" || o.hang
}
