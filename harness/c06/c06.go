// Package c06 is the correspondence/oracle harness for property C06.
package c06

import "verifharness/hx"

func init() { hx.Register("C06", Run, Replay) }

// Run is not built yet for this property.
func Run(c *hx.Ctx) { c.Note("C06: harness not built") }

func Replay(c *hx.Ctx, kase map[string]interface{}) {}
