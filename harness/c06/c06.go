// Package c06 is the correspondence/oracle harness for property C06:
// "PDF object syntax has one meaning for both parsers".
//
// Ops (see lean/TabulaModel/Handlers/C06.lean for the reply grammar):
//   c06.obj <hex>   core.NewParser(r).ParseObject() repeated to EOF/error
//   c06.cs  <hex>   contentstream.NewParser(b).Parse()
//   c06.lex <hex>   core.NewLexer(r).NextToken() repeated to EOF/error
//   c06.lexp / c06.win / c06.operand   token positions, the parser's window, one operand (progress.go)
//
// Oracles (independent of the Lean model; expectations come from the harness's
// own trees and its own ISO 32000 printer):
//   C06/core-roundtrip-<type>  print(tree) parsed by the document-level parser ≠ tree
//   C06/cs-roundtrip-<type>    print(operand) parsed by the content-stream parser ≠ operand
//   C06/cs-grouping            operators / operand counts of a printed program not preserved
//   C06/cs-operand-leak        operands of one Parse call show up in the next
//   C06/parsers-disagree       both parsers accept an operand and give different values
//   C06/ref-lookahead          "a b R" / "a b" sequences not grouped as written
//   C06/core-shortread-roundtrip-<type>, C06/ref-lookahead-shortread
//                              the same bytes through an io.Reader with short reads ≠ tree
//   C06/core-large-roundtrip-<type>, C06/core-large-shortread-<type>
//                              a print longer than the I/O buffer (slid byte by byte over
//                              the 4096-byte multiples) parsed back ≠ tree   (boundary.go)
//   C06/cs-large-grouping, C06/cs-large-roundtrip-<type>
//                              the same for operator programs
//   C06/core-kwspelled-roundtrip-<type>, C06/cs-kwspelled-grouping, C06/cs-kwspelled-roundtrip-<type>
//                              a name or string whose bytes are those of a keyword or operator
//                              (stream, endobj, R, true, Tj, …) at some position of an array,
//                              dictionary, object sequence or operand list is not read back   (keywords.go)
//   C06/core-nesting-roundtrip-<type>, C06/core-nesting-limit, C06/cs-nesting-grouping,
//   C06/cs-nesting-roundtrip[-<type>], C06/cs-nesting-limit, C06/nesting-parsers-disagree,
//   C06/core-nesting-truncated
//                              arrays and dictionaries nested 498..502 deep (the parsers' documented
//                              limit is 500 containers open at once): round trip up to the limit,
//                              an error beyond it, in both parsers alike   (nesting.go)
//   C06/core-raw-eol-roundtrip, C06/core-raw-eol-shortread, C06/cs-raw-eol-grouping,
//   C06/cs-raw-eol-roundtrip, C06/parsers-disagree-raw-eol
//                              literal strings with RAW end-of-line bytes inside (CR, CR LF, LF CR, …):
//                              each parser reads the tree written under one of the two readings (bytes
//                              kept / end-of-line = LF), both parsers the same one   (raweol.go)
//   C06/panic, C06/hang
package c06

import (
	"bufio"
	"context"
	"encoding/hex"
	"encoding/json"
	"fmt"
	"os"
	"os/exec"
	"path/filepath"
	"strconv"
	"strings"
	"time"

	"verifharness/hx"
)

func init() { hx.Register("C06", Run, Replay) }

// ---- comparing trees -----------------------------------------------------------

// firstDiff returns the kind name of the expected node at the first place where
// got differs from exp ("" if equal).
func firstDiff(exp, got *node) string {
	if got == nil || exp.k != got.k {
		return kindName[exp.k]
	}
	switch exp.k {
	case kBool:
		if exp.b != got.b {
			return "bool"
		}
	case kInt:
		if exp.i != got.i {
			return "int"
		}
	case kReal:
		if canonReal(exp.neg, exp.digs, exp.scale) != canonReal(got.neg, got.digs, got.scale) {
			return "real"
		}
	case kStr:
		if string(exp.s) != string(got.s) {
			return "string"
		}
	case kName:
		if string(exp.s) != string(got.s) {
			return "name"
		}
	case kRef:
		if exp.num != got.num || exp.gen != got.gen {
			return "ref"
		}
	case kArr:
		for i, e := range exp.arr {
			if i >= len(got.arr) {
				return "array"
			}
			if d := firstDiff(e, got.arr[i]); d != "" {
				return d
			}
		}
		if len(exp.arr) != len(got.arr) {
			return "array"
		}
	case kDict:
		gm := map[string]*node{}
		for _, e := range got.dict {
			gm[string(e.key)] = e.val
		}
		for _, e := range exp.dict {
			g, ok := gm[string(e.key)]
			if !ok {
				return "dict"
			}
			if d := firstDiff(e.val, g); d != "" {
				return d
			}
		}
		if len(exp.dict) != len(got.dict) {
			return "dict"
		}
	}
	return ""
}

func seqDiff(exp, got []*node) string {
	for i, e := range exp {
		if i >= len(got) {
			return kindName[e.k]
		}
		if d := firstDiff(e, got[i]); d != "" {
			return d
		}
	}
	if len(got) > len(exp) {
		return "extra"
	}
	return ""
}

// ---- the checks -----------------------------------------------------------------

type runner struct {
	c *hx.Ctx
}

// witnesses keeps the first failing case of EVERY oracle key. hx keeps at most 20
// failing cases per run in all, so with many fine-grained keys the key that the
// driver reports may otherwise be left without its replayable input.
var witnesses = map[string]hx.Failure{}

// remember is c.Check that also keeps the first witness of each key.
func remember(c *hx.Ctx, key string, ok bool, kase interface{}, detail func() string) bool {
	res := c.Check(key, ok, kase, detail)
	if !ok {
		if _, seen := witnesses[key]; !seen {
			witnesses[key] = hx.Failure{Key: key, Case: kase, Detail: detail()}
		}
	}
	return res
}

// keepWitnesses makes sure every failing key has a replayable case in the report.
func keepWitnesses(c *hx.Ctx) {
	have := map[string]bool{}
	for _, f := range c.Rep.Failures {
		have[f.Key] = true
	}
	for _, k := range hx.SortedKeys(c.Rep.FailureCount) {
		if w, ok := witnesses[k]; ok && !have[k] {
			c.Rep.Failures = append(c.Rep.Failures, w)
		}
	}
}

func short(b []byte) string {
	if len(b) > 160 {
		return fmt.Sprintf("%q…(%d bytes)", b[:160], len(b))
	}
	return fmt.Sprintf("%q", b)
}

// checkObjects: the document-level parser must read back exactly the objects written.
func (x runner) checkObjects(in []byte, exp []*node, label string, keyPrefix string, emit bool) outcome {
	c := x.c
	o := runObj(in)
	if emit && !o.hang && o.panic_ == "" {
		c.Op("c06.obj "+hx.Hex(in), o.line)
	}
	if abnormal(c, o, "obj", in) {
		return o
	}
	want := objsLine(exp, "eof")
	d := ""
	if o.line != want {
		d = seqDiff(exp, o.objs)
		if d == "" {
			d = "end"
		}
	}
	var key string
	switch {
	case keyPrefix == "C06/ref-lookahead":
		key = keyPrefix
	case d != "":
		key = keyPrefix + d
	default:
		key = keyPrefix + kindName[exp[0].k]
	}
	remember(c, key, d == "", map[string]interface{}{"kind": "obj", "input": hx.Hex(in), "expect": want, "key": key, "policy": label},
		func() string { return fmt.Sprintf("policy %s: wrote %s, parser read %s from %s", label, want, o.line, short(in)) })
	return o
}

// checkProgram: the content-stream parser must give back the operations written.
func (x runner) checkProgram(in []byte, exp []operation, label string, emit bool) outcome {
	c := x.c
	runCS([]byte("q")) // an operator empties the operand stack: every case starts clean
	o := runCS(in)
	if emit && !o.hang && o.panic_ == "" {
		c.Op("c06.cs "+hx.Hex(in), o.line)
	}
	if abnormal(c, o, "cs", in) {
		return o
	}
	want := opsLine(exp)
	kase := func(key string) map[string]interface{} {
		return map[string]interface{}{"kind": "cs", "input": hx.Hex(in), "expect": want, "key": key, "policy": label}
	}
	grouping := o.ok && len(o.ops) == len(exp)
	if grouping {
		for i := range exp {
			if o.ops[i].op != exp[i].op || len(o.ops[i].operands) != len(exp[i].operands) {
				grouping = false
			}
		}
	}
	// an outright rejection of a legal stream is reported under the type of the
	// first operand kind that the parser cannot read alone, else as grouping
	if !o.ok {
		key := "C06/cs-grouping"
		remember(c, key, false, kase(key), func() string {
			return fmt.Sprintf("policy %s: legal content stream rejected: %s (wrote %s)", label, short(in), want)
		})
		return o
	}
	remember(c, "C06/cs-grouping", grouping, kase("C06/cs-grouping"), func() string {
		return fmt.Sprintf("policy %s: wrote %s, parser grouped %s from %s", label, want, o.line, short(in))
	})
	if !grouping {
		return o
	}
	for i := range exp {
		d := seqDiff(exp[i].operands, o.ops[i].operands)
		key := "C06/cs-roundtrip-" + d
		if d == "" {
			key = "C06/cs-roundtrip"
		}
		remember(c, key, d == "", kase(key), func() string {
			return fmt.Sprintf("policy %s: operation %d wrote %s, parser read %s from %s", label, i, opsLine(exp[i:i+1]), opsLine(o.ops[i:i+1]), short(in))
		})
	}
	return o
}

// checkAgree: whatever both parsers accept as ONE operand must get ONE value.
func (x runner) checkAgree(operand []byte) { x.checkAgreeKey(operand, "C06/parsers-disagree") }

// checkAgreeKey is checkAgree reporting under the given (finer) oracle key.
func (x runner) checkAgreeKey(operand []byte, key string) {
	c := x.c
	a := runObj(operand)
	runCS([]byte("q"))
	b := runCS(append(append([]byte{}, operand...), []byte(" Do")...))
	if a.hang || b.hang || a.panic_ != "" || b.panic_ != "" {
		return
	}
	bothAccept := a.end == "eof" && len(a.objs) == 1 && b.ok && len(b.ops) == 1 && b.ops[0].op == "Do" && len(b.ops[0].operands) == 1
	if !bothAccept {
		c.Count("agree:not-both-accept")
		return
	}
	c.Count("agree:both-accept")
	av, bv := a.objs[0].sexpr(), b.ops[0].operands[0].sexpr()
	kase := map[string]interface{}{"kind": "agree", "input": hx.Hex(operand)}
	if key != "C06/parsers-disagree" {
		kase["key"] = key
	}
	remember(c, key, av == bv, kase, func() string {
		return fmt.Sprintf("operand %s: document parser %s, content-stream parser %s", short(operand), av, bv)
	})
}

// ---- generators -------------------------------------------------------------------

var operators = []string{"q", "Q", "cm", "w", "J", "j", "M", "d", "ri", "i", "gs", "m", "l", "c", "v", "y", "h", "re",
	"S", "s", "f", "F", "f*", "B", "B*", "b", "b*", "n", "W", "W*", "BT", "ET", "Tc", "Tw", "Tz", "TL", "Tf", "Tr", "Ts",
	"Td", "TD", "Tm", "T*", "Tj", "TJ", "'", "\"", "d0", "d1", "CS", "cs", "SC", "SCN", "sc", "scn", "G", "g", "RG", "rg",
	"K", "k", "sh", "Do", "MP", "DP", "BMC", "BDC", "EMC", "BX", "EX"}

func randProgram(r *hx.Rng, maxOps int) []operation {
	n := r.Range(1, maxOps)
	ops := make([]operation, n)
	for i := range ops {
		op := hx.Pick(r, operators)
		if r.Chance(1, 4) {
			op = hx.Pick(r, []string{"'", "\"", "T*", "TJ", "Tj", "BDC", "f", "n", "d0"})
		}
		ops[i].op = op
		k := r.Intn(4)
		if r.Chance(1, 6) {
			k = r.Range(4, 7)
		}
		for j := 0; j < k; j++ {
			ops[i].operands = append(ops[i].operands, randTree(r, r.Range(1, 3), true))
		}
	}
	return ops
}

var soup = []string{"[", "]", "<<", ">>", "<", ">", "(", ")", "/", "#", "%", "\\", "0", "1", "7", "9", "12", ".", "+", "-",
	"R", "true", "false", "null", "obj", "endobj", "stream", "endstream", " ", "\n", "\r", "\t", "\x00", "\f", "a", "f", "n", "t",
	"'", "\"", "*", "{", "}", "A", "F", "41", "#41", "#4", "#zz", "/A", "(a)", "<41>", "<4>", "<4 1>", "\\(", "\\)", "\\0", "\\101",
	"\\\r\n", "\\\n", "1 0 R", "1 0", "Tj", "T*", "d0", "BT", "1.5", "-.5", "5.", "00", "\xff", "\x80", "%c\n", "%c\r", "true]", "null>>"}

func randSoup(r *hx.Rng) []byte {
	var b []byte
	for n := r.Range(1, 12); n > 0; n-- {
		b = append(b, hx.Pick(r, soup)...)
	}
	return b
}

func mutate(r *hx.Rng, in []byte) []byte {
	b := append([]byte{}, in...)
	for n := r.Range(1, 3); n > 0; n-- {
		if len(b) == 0 {
			b = append(b, hx.Pick(r, soup)...)
			continue
		}
		i := r.Intn(len(b))
		switch r.Intn(6) {
		case 0: // delete
			b = append(b[:i], b[i+1:]...)
		case 1: // insert a syntax fragment
			frag := hx.Pick(r, soup)
			b = append(b[:i], append([]byte(frag), b[i:]...)...)
		case 2: // replace
			b[i] = hx.Pick(r, []byte("()<>[]/%#\\ \r\n019.+-RtfnA'\"*"))
		case 3: // truncate
			b = b[:i]
		case 4: // duplicate a slice
			j := i + r.Intn(len(b)-i)
			b = append(b[:j], append(append([]byte{}, b[i:j]...), b[j:]...)...)
		default: // swap
			j := r.Intn(len(b))
			b[i], b[j] = b[j], b[i]
		}
	}
	return b
}

// comparable reports whether every number token of a raw input is certain to be
// read exactly (≤ 15 significant digits, or an integer inside int64): beyond
// that the value is strconv's rounding, which the property does not speak about.
func comparable(in []byte) bool {
	i := 0
	for i < len(in) {
		if !(in[i] >= '0' && in[i] <= '9') && in[i] != '.' {
			i++
			continue
		}
		j, digits, dot := i, 0, false
		for j < len(in) && ((in[j] >= '0' && in[j] <= '9') || in[j] == '.') {
			if in[j] == '.' {
				dot = true
			} else {
				digits++
			}
			j++
		}
		if dot && digits > 15 {
			return false
		}
		if !dot && digits > 18 {
			if _, err := strconv.ParseInt(string(in[i:j]), 10, 64); err != nil {
				return false
			}
		}
		i = j
	}
	return true
}

// ---- the malformed stream runs in child processes ----------------------------------

type rawCase struct {
	K  string `json:"k"` // obj | cs | lex
	In string `json:"in"`
}

func evalRaw(k string, in []byte) outcome {
	switch k {
	case "agree":
		// both parsers on the same bytes (the content-stream one needs an operator behind the operand)
		a := parseObjects(in)
		b := parseContent(append(append([]byte{}, in...), " Do"...))
		return outcome{line: "A " + a.line + " | " + b.line}
	case "obj":
		return parseObjects(in)
	case "cs":
		return parseContent(in)
	default:
		if o, ok := evalProgressRaw(k, in); ok {
			return o
		}
		return lexTokens(in)
	}
}

// runBatchChild is the child side: one result line per case on stdout.
func runBatchChild(cases []interface{}) {
	w := bufio.NewWriter(os.Stdout)
	for i, ci := range cases {
		m, _ := ci.(map[string]interface{})
		k, _ := m["k"].(string)
		s, _ := m["in"].(string)
		in := unhex(s)
		var o outcome
		if p := hx.Safe(func() { o = evalRaw(k, in) }); p != "" {
			o = outcome{line: "panic " + hex.EncodeToString([]byte(p))}
		}
		fmt.Fprintf(w, "R %d %s\n", i, o.line)
		w.Flush()
	}
}

func unhex(s string) []byte {
	if s == "-" || s == "" {
		return nil
	}
	b, _ := hex.DecodeString(s)
	return b
}

// runBatch evaluates the cases in child processes of this binary; a case that
// does not answer within the watchdog is recorded as a hang, a case that kills
// the child as a panic, and the batch continues behind it.
func (x runner) runBatch(cases []rawCase) {
	c := x.c
	exe, err := os.Executable()
	if err != nil {
		c.Note("C06: cannot locate own binary (%v); malformed stream skipped", err)
		return
	}
	dir, err := os.MkdirTemp("", "c06-batch-")
	if err != nil {
		c.Note("C06: %v; malformed stream skipped", err)
		return
	}
	defer os.RemoveAll(dir)
	start := 0
	for start < len(cases) {
		file := filepath.Join(dir, "batch.json")
		payload := map[string]interface{}{"seed": c.Seed, "tier": c.Tier,
			"case": map[string]interface{}{"kind": "batch", "cases": cases[start:]}}
		b, _ := json.Marshal(payload)
		os.WriteFile(file, b, 0o644)
		ctx, cancel := context.WithCancel(context.Background())
		cmd := exec.CommandContext(ctx, exe, "replay", "C06", "--case", file, "--out", filepath.Join(dir, "out"))
		cmd.Env = append(os.Environ(), "GOMEMLIMIT=1GiB")
		stdout, _ := cmd.StdoutPipe()
		if err := cmd.Start(); err != nil {
			cancel()
			c.Note("C06: cannot start child (%v); malformed stream skipped", err)
			return
		}
		lines := make(chan string, 64)
		go func() {
			sc := bufio.NewScanner(stdout)
			sc.Buffer(make([]byte, 1<<20), 1<<26)
			for sc.Scan() {
				lines <- sc.Text()
			}
			close(lines)
		}()
		done := 0
		stalled, died := false, false
	loop:
		for start+done < len(cases) {
			select {
			case ln, ok := <-lines:
				if !ok {
					died = true
					break loop
				}
				if !strings.HasPrefix(ln, "R ") {
					continue
				}
				f := strings.SplitN(ln, " ", 3)
				idx, _ := strconv.Atoi(f[1])
				if idx != done || len(f) < 3 {
					continue
				}
				rc := cases[start+done]
				in := unhex(rc.In)
				if strings.HasPrefix(f[2], "panic") {
					abnormal(c, outcome{panic_: string(unhex(strings.TrimPrefix(f[2], "panic ")))}, rc.K, in)
				} else if rc.K == "agree" {
					x.agreeLine(in, strings.TrimPrefix(f[2], "A "))
				} else {
					remember(c, "C06/panic", true, nil, nil)
					remember(c, "C06/hang", true, nil, nil)
					c.Op("c06."+rc.K+" "+rc.In, f[2])
					c.Count("raw-" + rc.K + ":" + lastWord(f[2]))
				}
				c.Case("raw:"+rc.K+rc.In, !strings.HasSuffix(f[2], "err") && f[2] != "eof" && f[2] != "ok")
				done++
			case <-time.After(watchdog + time.Second):
				stalled = true
				break loop
			}
		}
		cancel()
		cmd.Wait()
		if start+done < len(cases) && (stalled || died) {
			rc := cases[start+done]
			in := unhex(rc.In)
			if stalled {
				abnormal(c, outcome{hang: true}, rc.K, in)
			} else {
				abnormal(c, outcome{panic_: "child process died (fatal error / out of memory)"}, rc.K, in)
			}
			done++
		}
		start += done
	}
}

// agreeLine judges one "core result | content-stream result" pair of the raw stream: if the
// document parser read exactly one object and the content-stream parser exactly one
// operation Do with one operand, the two values must be the same.
func (x runner) agreeLine(in []byte, line string) {
	c := x.c
	parts := strings.SplitN(line, " | ", 2)
	if len(parts) != 2 {
		return
	}
	cf := strings.Fields(parts[0])
	sf := strings.Fields(parts[1])
	if len(cf) != 2 || cf[1] != "eof" || len(sf) != 2 || sf[0] != "ok" || !strings.HasPrefix(sf[1], "446f(") || !strings.HasSuffix(sf[1], ")") {
		c.Count("raw-agree:not-both-accept")
		return
	}
	operand := sf[1][len("446f(") : len(sf[1])-1]
	// one operand only: no top-level comma (commas inside [] or <> belong to the operand)
	depth, single := 0, true
	for _, ch := range operand {
		switch ch {
		case '[', '<':
			depth++
		case ']', '>':
			depth--
		case ',':
			if depth == 0 {
				single = false
			}
		}
	}
	if !single || operand == "" {
		c.Count("raw-agree:not-both-accept")
		return
	}
	c.Count("raw-agree:both-accept")
	remember(c, "C06/parsers-disagree", cf[0] == operand, map[string]interface{}{"kind": "agree", "input": hx.Hex(in)}, func() string {
		return fmt.Sprintf("operand %s: document parser %s, content-stream parser %s", short(in), cf[0], operand)
	})
}

func lastWord(s string) string {
	if i := strings.LastIndexByte(s, ' '); i >= 0 {
		s = s[i+1:]
	}
	if s == "err" || s == "eof" {
		return s
	}
	return "ok"
}

// ---- Run --------------------------------------------------------------------------------

// stage lets a developer run part of the stream: C06_STAGES=5,7 (default: all).
func stage(n int) bool {
	v := os.Getenv("C06_STAGES")
	if v == "" {
		return true
	}
	for _, f := range strings.Split(v, ",") {
		if f == strconv.Itoa(n) {
			return true
		}
	}
	return false
}

func Run(c *hx.Ctx) {
	x := runner{c}
	defer keepWitnesses(c)
	c.Rep.Rule = "object trees: every container skeleton to depth 4 (3 in quick) with ≤2 children per array/dict, leaves cycled over a 3-atom alphabet per type, plus random trees to depth 8 with strings/names over all 256 bytes, int64 limits and dyadic reals; each printed by an ISO 32000-1 §7.2-7.3 printer under 10 spelling policies (minimal/maximal white space, comments, CR/LF/CRLF, literal/escaped/octal/hex strings, #-escaped names, random mix); random operator programs (≤60 operations, all operand types, incl. ' \" T* d0); integer/reference sequences; names and strings whose bytes are exactly a keyword or operator of the format (true false null R obj endobj stream endstream xref trailer startxref f n BI ID EI and all 70 content operators, plus one-byte-longer/shorter/other-case near misses) at every position of arrays, dictionaries (key, value, both; last and followed), nested containers, top-level sequences, next to integers and references, and of operand lists (also before the operator of the same spelling), under the ten policies (buckets kwspelled-*); every document-level input also through io.Readers with short reads (1,2,3,7,4095,… byte pieces, random schedules, last piece with io.EOF); large arrays/dictionaries/object sequences/nested containers/long strings and operator programs whose print crosses 1-3 multiples of the 4096-byte I/O buffer, each slid by a white-space or comment prefix of 0..K-1 bytes (K=40 quick, 130 thorough) so that every token and separator kind lies across offsets 4095/4096, 8191/8192, 12287/12288 in turn (distribution buckets straddle-*); container chains nested 498, 499, 500, 501, 502 deep (thorough: also 1, 2, 37, 250, 490, 510, 1000, 1501) around the parsers' documented limit of 500 containers open at once - all arrays, all dictionaries, alternating either way, random per level; alone or with scalar / container siblings before, after or on both sides of the deep child at every level; innermost an empty container, a scalar of every type, or a string / name made of the bytes that open containers - each as a document-level object and as a content-stream operand under two (thorough: all ten plus a random) spelling policies; 499..1100 sibling containers inside one array, one dictionary, one top-level sequence, one operand list and one operation each (levels are given back); three chains at the limit side by side, in sequence and inside one more container, with a too deep one in no / first / middle / last position; and unbalanced inputs (opening delimiters only to depth 3000 (5000), closing delimiters cut off or in excess) (buckets nest-*); literal strings with raw end-of-line bytes inside - CR, CR LF, LF CR, CR CR, CR LF CR LF, CR CR LF (LF as control) alone, first, last, in the middle, inside balanced parentheses, next to escaped backslashes, line continuations of every kind, \\n \\r and octal escapes and binary bytes - each at every position of arrays, dictionaries, nested containers, object sequences (also next to references) and operand lists (Tj, TJ arrays, ' and \", BDC dictionaries) under the ten policies, through full and short reads, and as the same operand for both parsers, plus random piecewise spellings (raw bytes over all 256 values, raw end-of-lines, named/octal escapes, continuations, nested parentheses) planted in random trees and programs (buckets raweol-*); for progress (stage 13): random trees and object sequences under the ten policies and random ones, EVERY PREFIX of short prints (the input ends inside each kind of token in turn), ~110 hand-picked boundary inputs (lone delimiters, truncated escapes, sign-only numbers, int64 limits, `n g R` next to `obj`/`stream`, keywords glued to other tokens) and mutated prints / token soup, each lexed with Token.Pos and SkippedBytes, parsed with the parser's two-token window and error flag observed after every ParseObject call, and read as ONE content-stream operand with the position after it (buckets lexp:*, win:*, win-calls:*, operand:*, operand-agree:*, progress-*); plus a malformed stream (mutated prints and token soup) compared with the model by value-or-error only. non-trivial = parsed without error to a non-empty result."

	// 1. exhaustive container skeletons ------------------------------------------------
	depth := c.N(3, 4)
	sh := shapes(depth)
	cyc := &atomCycle{}
	cycNoRef := &atomCycle{noRef: true}
	nsh := 0
	for si, s := range sh {
		if poisoned || !stage(1) {
			break
		}
		pols := fixedPolicies(c.Rng.Fork(uint64(si)))
		// quick: every skeleton under every policy up to depth 3; thorough: depth 4
		// skeletons rotate through the policies (every skeleton under ≥ 2 of them)
		use := pols
		if depth == 4 && s.depthOf() == 4 {
			use = []policy{pols[si%len(pols)], pols[(si/len(pols)+3)%len(pols)]}
		}
		for _, p := range use {
			t := s.fill(cyc, si)
			in := printObjects(p, []*node{t})
			o := x.checkObjects(in, []*node{t}, p.label, "C06/core-roundtrip-", true)
			c.Case("t:"+t.sexpr()+p.label, o.end == "eof")
			x.checkObjectsVia(in, []*node{t}, objsLine([]*node{t}, "eof"), fixedScheds[(si+len(p.label))%len(fixedScheds)],
				p.label, "C06/core-shortread-roundtrip-", false, false)
			c.Count("policy:" + p.label)
			c.Count(fmt.Sprintf("tree-depth:%d", t.depth()))
			// the same skeleton as a content-stream operand (no references there)
			t2 := s.fill(cycNoRef, si)
			prog := []operation{{op: operators[(si+len(p.label))%len(operators)], operands: []*node{t2}}}
			x.checkProgram(printOps(p, prog), prog, p.label, true)
			if si%7 == 0 {
				x.checkAgree(printObjects(p, []*node{t2}))
			}
		}
		nsh++
	}
	c.Rep.Exhaustive = !poisoned
	c.Note("skeletons enumerated: %d (depth ≤ %d)", nsh, depth)

	// 2. every atom of every type under every policy, all 256 bytes in strings and names ---
	for b := 0; b < 256 && !poisoned && stage(2); b++ {
		r := c.Rng.Fork(uint64(1000 + b))
		for pi, p := range fixedPolicies(r) {
			for _, t := range []*node{
				{k: kStr, s: []byte{byte(b)}}, {k: kName, s: []byte{byte(b)}},
				{k: kStr, s: []byte{'x', byte(b), '7'}}, {k: kName, s: []byte{'x', byte(b), 'A', byte(b)}},
			} {
				in := printObjects(p, []*node{t})
				x.checkObjects(in, []*node{t}, p.label, "C06/core-roundtrip-", pi < 3 || c.Thorough())
				prog := []operation{{op: "Tj", operands: []*node{t}}}
				x.checkProgram(printOps(p, prog), prog, p.label, pi < 3 || c.Thorough())
				x.checkAgree(in)
				c.Case("b:"+t.sexpr()+p.label, true)
			}
		}
	}
	for i, v := range limitInts {
		if !stage(2) {
			break
		}
		r := c.Rng.Fork(uint64(2000 + i))
		for _, p := range fixedPolicies(r) {
			t := mkInt(v)
			x.checkObjects(printObjects(p, []*node{t}), []*node{t}, p.label, "C06/core-roundtrip-", true)
			prog := []operation{{op: "w", operands: []*node{t}}}
			x.checkProgram(printOps(p, prog), prog, p.label, true)
			c.Case("i:"+t.sexpr()+p.label, true)
		}
	}

	// 3. random trees to depth 8 -------------------------------------------------------
	for i := 0; i < c.N(400, 40000) && !poisoned && stage(3); i++ {
		r := c.Rng.Fork(uint64(10000 + i))
		p := randomPolicy(r)
		if i%3 == 0 {
			p = fixedPolicies(r)[i/3%10]
		}
		n := r.Range(1, 3)
		var ts []*node
		for j := 0; j < n; j++ {
			ts = append(ts, randTree(r, r.Range(1, 8), false))
		}
		in := printObjects(p, ts)
		o := x.checkObjects(in, ts, p.label, "C06/core-roundtrip-", true)
		c.Case("r:"+objsLine(ts, ""), o.end == "eof")
		c.Count("random-tree-policy:" + p.label)
		{
			// the same bytes through a reader with short reads (its own generator, so
			// that the stream of cases above does not depend on it)
			rs := randSched(r.Fork(77))
			x.checkObjectsVia(in, ts, objsLine(ts, "eof"), rs, p.label, "C06/core-shortread-roundtrip-", false, i%2 == 0)
			if i%4 == 0 {
				if l := runLexVia(in, rs); !abnormal(c, l, "lex", in) {
					c.Op("c06.lex "+hx.Hex(in), l.line)
				}
			}
			c.Count(fmt.Sprintf("shortread-first-chunk:%s", chunkBucket(rs)))
		}
		if !ts[0].hasRef() {
			x.checkAgree(printObjects(p, ts[:1]))
		}
	}

	// 4. integers and references side by side ------------------------------------------
	for i := 0; i < c.N(300, 20000) && !poisoned && stage(4); i++ {
		r := c.Rng.Fork(uint64(40000 + i))
		p := randomPolicy(r)
		p.numDeco = false
		var seq []*node
		for n := r.Range(1, 6); n > 0; n-- {
			if r.Chance(2, 5) {
				seq = append(seq, mkRef(int64(r.Intn(1000)), int64(r.Intn(3))))
			} else if r.Chance(1, 6) {
				seq = append(seq, hx.Pick(r, []*node{mkName("R"), mkStr("R"), mkBool(true), {k: kNull}}))
			} else {
				seq = append(seq, mkInt(int64(r.Intn(1000))))
			}
		}
		var ts []*node
		switch r.Intn(3) {
		case 0:
			ts = seq
		case 1:
			ts = []*node{mkArr(seq...)}
		default:
			d := &node{k: kDict}
			for j, e := range seq {
				d.dict = append(d.dict, entry{[]byte(fmt.Sprintf("K%d", j)), e})
			}
			ts = []*node{d, mkInt(int64(r.Intn(10))), mkInt(int64(r.Intn(10)))}
		}
		in := printObjects(p, ts)
		o := x.checkObjects(in, ts, p.label, "C06/ref-lookahead", true)
		c.Case("l:"+objsLine(ts, ""), o.end == "eof")
		x.checkObjectsVia(in, ts, objsLine(ts, "eof"), randSched(r.Fork(77)), p.label, "C06/ref-lookahead-shortread", true, false)
	}

	// 5. operator programs -----------------------------------------------------------------
	for i := 0; i < c.N(250, 20000) && !poisoned && stage(5); i++ {
		r := c.Rng.Fork(uint64(70000 + i))
		p := randomPolicy(r)
		if i%2 == 0 {
			p = fixedPolicies(r)[i/2%10]
		}
		maxOps := 12
		if i%10 == 0 {
			maxOps = 60
		}
		prog := randProgram(r, maxOps)
		o := x.checkProgram(printOps(p, prog), prog, p.label, true)
		c.Case("p:"+opsLine(prog), o.ok)
		c.Count("program-policy:" + p.label)
		c.Count(fmt.Sprintf("program-ops:%d0s", len(prog)/10))
	}

	// 6. operands must not travel from one Parse call to the next -----------------------------
	for i := 0; i < c.N(20, 200) && !poisoned && stage(6); i++ {
		r := c.Rng.Fork(uint64(90000 + i))
		p := randomPolicy(r)
		var dangling []*node
		for n := r.Range(1, 4); n > 0; n-- {
			dangling = append(dangling, randTree(r, 2, true))
		}
		first := printOps(p, []operation{{op: "q"}})
		first = append(append(first, ' '), printObjects(p, dangling)...)
		second := randProgram(r, 3)
		x.checkLeak(first, printOps(p, second), second)
	}

	// 8./9. prints longer than the I/O buffer, slid over its multiples (boundary.go) -------------
	if stage(8) {
		x.stageLargeObjects()
	}
	if stage(9) {
		x.stageLargePrograms()
	}

	// 10. names and strings spelled like keywords / operators, at every position (keywords.go) ------
	if stage(10) && !poisoned {
		x.stageKeywordSpelled()
	}

	// 11. arrays and dictionaries nested around the parsers' limit of 500 (nesting.go) -------------------
	if stage(11) && !poisoned {
		x.stageNesting()
	}

	// 12. literal strings with raw end-of-line bytes inside (raweol.go) ------------------------------------
	if stage(12) && !poisoned {
		x.stageRawEOL()
	}

	// 13. progress: token positions, the parser's window, one operand (progress.go) ---------------------------
	if stage(13) && !poisoned {
		x.stageProgress()
	}

	// 7. malformed / raw stream: value-or-error against the model only ---------------------------
	if poisoned {
		c.Note("run cut short after an in-process hang (a goroutine of the implementation is still spinning)")
		return
	}
	if !stage(7) {
		return
	}
	var raws []rawCase
	nraw := c.N(1500, 120000)
	skipped := 0
	for i := 0; len(raws) < nraw && i < nraw*3; i++ {
		r := c.Rng.Fork(uint64(200000 + i))
		var in []byte
		kinds := []string{"obj", "cs", "lex"}
		k := kinds[i%3]
		switch r.Intn(3) {
		case 0:
			in = randSoup(r)
		case 1:
			p := randomPolicy(r)
			if k == "cs" {
				in = mutate(r, printOps(p, randProgram(r, 4)))
			} else {
				in = mutate(r, printObjects(p, []*node{randTree(r, 4, false)}))
			}
		default:
			p := randomPolicy(r)
			p.sep = sepMinimal
			in = mutate(r, printObjects(p, []*node{randTree(r, 3, k == "cs"), randAtom(r, k == "cs")}))
			if k == "cs" {
				in = append(in, " Tj"...)
			}
		}
		if !comparable(in) {
			skipped++
			continue
		}
		raws = append(raws, rawCase{K: k, In: hx.Hex(in)})
		if k == "obj" && i%2 == 0 {
			raws = append(raws, rawCase{K: "agree", In: hx.Hex(in)})
		}
	}
	// the two defect witnesses of DESIGN §7 always travel with the stream
	for _, w := range []string{"[ 1 ) ]", "<< /A > /B 2 >>", "<< ", "<<", "<4> Tj", "[true] TJ", "% c\nq"} {
		raws = append(raws, rawCase{K: "obj", In: hx.HexS(w)}, rawCase{K: "cs", In: hx.HexS(w)}, rawCase{K: "lex", In: hx.HexS(w)})
	}
	if stage(13) {
		raws = append(raws, progressRaws(c)...)
	}
	c.Note("raw cases: %d (skipped %d with number tokens beyond exact range)", len(raws), skipped)
	x.runBatch(raws)
}

func chunkBucket(rs readerSpec) string {
	if len(rs.chunks) == 0 {
		return "full"
	}
	switch n := rs.chunks[0]; {
	case n == 1:
		return "1"
	case n < 8:
		return "2-7"
	case n < ioBlock:
		return "8-4095"
	}
	return ">=4096"
}

func (s *shape) depthOf() int {
	if s.leaf {
		return 1
	}
	d := 0
	for _, k := range s.kids {
		if x := k.depthOf(); x > d {
			d = x
		}
	}
	return d + 1
}

// checkLeak: a stream that ends in operands without an operator, then another stream.
func (x runner) checkLeak(first, second []byte, exp []operation) {
	c := x.c
	runCS([]byte("q"))
	a := runCS(first)
	b := runCS(second)
	if abnormal(c, a, "cs", first) || abnormal(c, b, "cs", second) {
		return
	}
	want := opsLine(exp)
	remember(c, "C06/cs-operand-leak", b.line == want,
		map[string]interface{}{"kind": "leak", "first": hx.Hex(first), "input": hx.Hex(second), "expect": want},
		func() string {
			return fmt.Sprintf("after parsing %s, parsing %s gave %s, want %s", short(first), short(second), b.line, want)
		})
}

// ---- Replay -------------------------------------------------------------------------------

func Replay(c *hx.Ctx, kase map[string]interface{}) {
	kind, _ := kase["kind"].(string)
	if kind == "batch" {
		cases, _ := kase["cases"].([]interface{})
		runBatchChild(cases)
		return
	}
	s, _ := kase["input"].(string)
	in := unhex(s)
	expect, _ := kase["expect"].(string)
	expect2, _ := kase["expect2"].(string) // raweol.go: the value under the other reading of raw end-of-line bytes
	key, _ := kase["key"].(string)
	fail := func(k string, o outcome) {
		remember(c, k, false, kase, func() string { return fmt.Sprintf("input %s: expected %s, got %s", short(in), expect, o.line) })
	}
	switch kind {
	case "objr":
		o := runObjVia(in, specFromCase(kase))
		if abnormal(c, o, "obj", in) {
			return
		}
		if expect != "" && o.line != expect && (expect2 == "" || o.line != expect2) {
			fail(key, o)
		}
	case "obj", "lex":
		o := runObj(in)
		if kind == "lex" {
			o = runLex(in)
		}
		if abnormal(c, o, kind, in) {
			return
		}
		if expect != "" && o.line != expect && (expect2 == "" || o.line != expect2) {
			fail(key, o)
		}
	case "cs":
		runCS([]byte("q"))
		o := runCS(in)
		if abnormal(c, o, kind, in) {
			return
		}
		if expect != "" && o.line != expect && (expect2 == "" || o.line != expect2) {
			fail(key, o)
		}
	case "lexp":
		if o := runLexp(in); !abnormal(c, o.outcome, kind, in) {
			judgeLexp(c, in, o)
		}
	case "win":
		if o := runWin(in); !abnormal(c, o.outcome, kind, in) {
			judgeWin(c, in, o)
		}
	case "operand":
		if o := runOperand(in); !abnormal(c, o.outcome, kind, in) {
			runner{c}.judgeOperand(in, o)
		}
	case "leak":
		f, _ := kase["first"].(string)
		runCS([]byte("q"))
		runCS(unhex(f))
		o := runCS(in)
		if o.line != expect {
			fail("C06/cs-operand-leak", o)
		}
	case "agree":
		if key != "" {
			runner{c}.checkAgreeKey(in, key)
		} else {
			runner{c}.checkAgree(in)
		}
	case "nest-agree":
		csHex, _ := kase["cs"].(string)
		cs := unhex(csHex)
		a := runObj(in)
		runCS([]byte("q"))
		b := runCS(cs)
		if abnormal(c, a, "obj", in) || abnormal(c, b, "cs", cs) {
			return
		}
		depth := 0
		if len(a.objs) == 1 {
			depth = a.objs[0].nesting()
		}
		runner{c}.nestAgree(a, b, in, cs, depth)
	}
}
