package c06

// Stage 11: arrays and dictionaries nested around the limit of the two parsers.
//
// tabula documents (core/parser.go, contentstream/parser.go: maxNestingDepth) that
// arrays and dictionaries may nest at most 500 deep in both parsers: with 500
// containers open, opening one more is an error. The property's round trip
// therefore holds for every tree whose deepest path crosses at most 500
// containers, and a tree that needs 501 is an error - in BOTH parsers, which
// still agree. What counts is the number of containers open AT ONCE: closing a
// container gives its level back, scalars, strings full of parentheses or
// brackets, names with delimiter bytes, comments with brackets and any number of
// sibling containers do not count.
//
// Oracles (expectations come from the tree the harness wrote and the documented
// limit, never from what tabula returns):
//   C06/core-nesting-roundtrip-<type>  a tree nested ≤ 500 deep is not read back by the document parser
//   C06/core-nesting-limit             a sequence with a tree nested > 500 deep: the objects before it,
//                                      then an error (not a value, not end of input)
//   C06/cs-nesting-grouping, C06/cs-nesting-roundtrip[-<type>]
//                                      the same for operands of a content stream
//   C06/cs-nesting-limit               a content stream with an operand nested > 500 deep is not rejected
//   C06/nesting-parsers-disagree       one parser accepts the operand and the other rejects it, or
//                                      both accept and the values differ
//   C06/core-nesting-truncated         a container chain whose closing delimiters are missing is
//                                      returned as an object / as a clean end of input
// Every input is also a correspondence op (c06.obj / c06.cs) against the Lean
// models, which carry the same limit.

import (
	"fmt"
	"strings"

	"verifharness/hx"
)

// nestLimit is the documented limit of both parsers.
const nestLimit = 500

// nesting is the number of arrays and dictionaries open around the innermost
// token of n (0 for a scalar, 1 for an empty or flat container).
func (n *node) nesting() int {
	if n.k != kArr && n.k != kDict {
		return 0
	}
	d := 0
	for _, e := range n.arr {
		if x := e.nesting(); x > d {
			d = x
		}
	}
	for _, e := range n.dict {
		if x := e.val.nesting(); x > d {
			d = x
		}
	}
	return d + 1
}

const (
	patArr = iota
	patDict
	patArrDict // array, dictionary, array, …
	patDictArr
	patRandom
	nPatterns
)

var patName = []string{"arrays", "dicts", "arr-dict", "dict-arr", "random"}

const (
	sibNone   = iota // the chain only
	sibBefore        // a scalar in front of the deep child at every level
	sibAfter         // a scalar behind it
	sibBoth          // a scalar on both sides
	sibContainers    // a shallow container on both sides: levels are given back on the way
	nSiblings
)

var sibName = []string{"alone", "scalar-before", "scalar-after", "scalar-both", "containers-both"}

// leaves for the innermost position: nil (the innermost container is empty),
// scalars of every type, and strings / names made of the very bytes that open
// containers (they must not count as nesting).
func nestLeaf(r *hx.Rng, i int, noRef bool) *node {
	switch i % 9 {
	case 0:
		return nil
	case 1:
		return mkInt(randInt(r))
	case 2:
		return mkName("N")
	case 3:
		return mkStr(strings.Repeat("(", 40) + "[[<<" + strings.Repeat(")", 40))
	case 4:
		return &node{k: kNull}
	case 5:
		return mkBool(i%2 == 1)
	case 6:
		return &node{k: kName, s: []byte("[[<<[")}
	case 7:
		if noRef {
			return randReal(r)
		}
		return mkRef(int64(r.Intn(1000)), 0)
	default:
		return &node{k: kStr, s: []byte("]]>>[[<<")}
	}
}

// chain builds depth containers around leaf (leaf == nil: the innermost one is
// empty), following the pattern, with the given siblings at every level.
func chain(r *hx.Rng, depth, pattern, sib int, leaf *node) *node {
	cur := leaf
	if depth == 0 && cur == nil {
		cur = &node{k: kNull}
	}
	for lvl := depth; lvl >= 1; lvl-- {
		var isDict bool
		switch pattern {
		case patArr:
			isDict = false
		case patDict:
			isDict = true
		case patArrDict:
			isDict = lvl%2 == 0
		case patDictArr:
			isDict = lvl%2 == 1
		default:
			isDict = r.Bool()
		}
		var before, after []*node
		switch sib {
		case sibBefore:
			before = []*node{mkInt(int64(lvl))}
		case sibAfter:
			after = []*node{mkName("z")}
		case sibBoth:
			before, after = []*node{mkBool(lvl%2 == 0)}, []*node{mkInt(int64(-lvl))}
		case sibContainers:
			// two levels deep themselves: only where two levels are left below the limit of
			// this chain, so that the chain stays exactly depth deep
			if lvl+2 <= depth {
				before = []*node{mkArr()}
				after = []*node{mkDict(ent("A", mkArr(mkInt(1))))}
			}
		}
		c := &node{k: kArr}
		if isDict {
			c.k = kDict
		}
		add := func(key string, v *node) {
			if isDict {
				c.dict = append(c.dict, entry{[]byte(key), v})
			} else {
				c.arr = append(c.arr, v)
			}
		}
		for i, b := range before {
			add(fmt.Sprintf("A%d", i), b)
		}
		if cur != nil {
			add("K", cur)
		}
		for i, a := range after {
			add(fmt.Sprintf("Z%d", i), a)
		}
		cur = c
	}
	return cur
}

// wantObjects: what the document parser must say on a printed sequence - every
// object up to the first one nested deeper than the limit, then err; eof if none is.
func wantObjects(ts []*node) (string, bool) {
	var ok []*node
	for _, t := range ts {
		if t.nesting() > nestLimit {
			return objsLine(ok, "err"), false
		}
		ok = append(ok, t)
	}
	return objsLine(ts, "eof"), true
}

func progWithin(prog []operation) bool {
	for _, o := range prog {
		for _, t := range o.operands {
			if t.nesting() > nestLimit {
				return false
			}
		}
	}
	return true
}

func trunc(s string) string {
	if len(s) > 200 {
		return s[:100] + "…" + s[len(s)-60:]
	}
	return s
}

// nestObjects: one printed sequence through the document parser.
func (x runner) nestObjects(in []byte, ts []*node, label string) outcome {
	c := x.c
	want, within := wantObjects(ts)
	if within {
		c.Count("nest-verdict:core-roundtrip")
		return x.checkObjects(in, ts, label, "C06/core-nesting-roundtrip-", true)
	}
	c.Count("nest-verdict:core-limit")
	o := runObj(in)
	if !o.hang && o.panic_ == "" {
		c.Op("c06.obj "+hx.Hex(in), o.line)
	}
	if abnormal(c, o, "obj", in) {
		return o
	}
	key := "C06/core-nesting-limit"
	remember(c, key, o.line == want, map[string]interface{}{"kind": "obj", "input": hx.Hex(in), "expect": want, "key": key, "policy": label},
		func() string {
			deep := 0
			for _, t := range ts {
				if n := t.nesting(); n > deep {
					deep = n
				}
			}
			return fmt.Sprintf("policy %s: a sequence of %d objects, the deepest nested %d deep (limit %d): expected %s, parser said %s (%d objects, end %s) on %s",
				label, len(ts), deep, nestLimit, trunc(want), trunc(o.line), len(o.objs), o.end, short(in))
		})
	return o
}

// nestProgram: one printed program through the content-stream parser.
func (x runner) nestProgram(in []byte, prog []operation, label string) outcome {
	c := x.c
	if progWithin(prog) {
		c.Count("nest-verdict:cs-roundtrip")
		return x.checkProgramKeyed(in, prog, label, "C06/cs-nesting-", true)
	}
	c.Count("nest-verdict:cs-limit")
	runCS([]byte("q"))
	o := runCS(in)
	if !o.hang && o.panic_ == "" {
		c.Op("c06.cs "+hx.Hex(in), o.line)
	}
	if abnormal(c, o, "cs", in) {
		return o
	}
	key := "C06/cs-nesting-limit"
	remember(c, key, o.line == "err", map[string]interface{}{"kind": "cs", "input": hx.Hex(in), "expect": "err", "key": key, "policy": label},
		func() string {
			return fmt.Sprintf("policy %s: a content stream with an operand nested more than %d deep was not rejected: parser said %s on %s",
				label, nestLimit, trunc(o.line), short(in))
		})
	return o
}

// nestAgree: the verdicts of the two parsers on ONE operand (a: document parser on
// the operand alone, b: content-stream parser on operand + operator).
func (x runner) nestAgree(a, b outcome, doc, cs []byte, depth int) {
	c := x.c
	if a.hang || b.hang || a.panic_ != "" || b.panic_ != "" {
		return
	}
	aAcc := a.end == "eof" && len(a.objs) == 1
	bAcc := b.ok && len(b.ops) == 1 && len(b.ops[0].operands) == 1
	ok := aAcc == bAcc
	av, bv := "rejected", "rejected"
	if aAcc {
		av = a.objs[0].sexpr()
	}
	if bAcc {
		bv = b.ops[0].operands[0].sexpr()
	}
	if aAcc && bAcc {
		ok = av == bv
	}
	remember(c, "C06/nesting-parsers-disagree", ok,
		map[string]interface{}{"kind": "nest-agree", "input": hx.Hex(doc), "cs": hx.Hex(cs)},
		func() string {
			return fmt.Sprintf("an operand nested %d deep (limit %d): document parser %s, content-stream parser %s; document bytes %s",
				depth, nestLimit, trunc(av), trunc(bv), short(doc))
		})
}

// oneOperand runs one tree through both parsers under one policy.
func (x runner) oneOperand(p policy, t *node, op string, bucket string) {
	c := x.c
	doc := printObjects(p, []*node{t})
	a := x.nestObjects(doc, []*node{t}, p.label)
	prog := []operation{{op: op, operands: []*node{t}}}
	cs := printOps(p, prog)
	b := x.nestProgram(cs, prog, p.label)
	x.nestAgree(a, b, doc, cs, t.nesting())
	c.Case("nest:"+bucket+":"+p.label+":"+hx.Hex(doc[:min(len(doc), 24)])+fmt.Sprint(len(doc)), a.end == "eof" && b.ok)
}

// dropClosers removes the last k closing delimiters (and what lies between and
// behind them) from a print whose tail consists of closers and white space only.
func dropClosers(in []byte, k int) []byte {
	i := len(in)
	for k > 0 && i > 0 {
		i--
		switch in[i] {
		case ']':
			k--
		case '>':
			if i > 0 && in[i-1] == '>' {
				i--
				k--
			}
		default:
			if !isWS(in[i]) {
				return in[:i+1] // not a pure closer tail: stop here
			}
		}
	}
	return in[:i]
}

// opensOnly is depth opening delimiters and nothing else.
func opensOnly(r *hx.Rng, depth, pattern int, sep string) []byte {
	var b []byte
	for lvl := 1; lvl <= depth; lvl++ {
		isDict := pattern == patDict || (pattern == patArrDict && lvl%2 == 0) || (pattern == patDictArr && lvl%2 == 1) ||
			(pattern == patRandom && r.Bool())
		if isDict {
			b = append(b, "<<"...)
			b = append(b, sep...)
			b = append(b, "/K"...)
		} else {
			b = append(b, '[')
		}
		b = append(b, sep...)
	}
	return b
}

// nestRaw: an unbalanced input - correspondence with the models, no panic, no hang;
// for the document parser also: no object may come out of a chain that is never closed.
func (x runner) nestRaw(in []byte, what string, neverCloses bool) {
	c := x.c
	a := runObj(in)
	if !abnormal(c, a, "obj", in) {
		c.Op("c06.obj "+hx.Hex(in), a.line)
		if neverCloses {
			key := "C06/core-nesting-truncated"
			remember(c, key, a.line == "err", map[string]interface{}{"kind": "obj", "input": hx.Hex(in), "expect": "err", "key": key, "policy": what},
				func() string {
					return fmt.Sprintf("%s: the outermost container is never closed, yet the document parser said %s on %s", what, trunc(a.line), short(in))
				})
		}
	}
	runCS([]byte("q"))
	b := runCS(in)
	if !abnormal(c, b, "cs", in) {
		c.Op("c06.cs "+hx.Hex(in), b.line)
	}
	c.Count("nest-raw:" + what)
	c.Case("nestraw:"+what+":"+hx.Hex(in[:min(len(in), 16)])+fmt.Sprint(len(in)), false)
}

func min(a, b int) int {
	if a < b {
		return a
	}
	return b
}

// stageNesting: stage 11.
func (x runner) stageNesting() {
	c := x.c
	depths := []int{nestLimit - 2, nestLimit - 1, nestLimit, nestLimit + 1, nestLimit + 2}
	if c.Thorough() {
		depths = append(depths, 1, 2, 37, nestLimit/2, nestLimit-10, nestLimit+10, 2*nestLimit, 3*nestLimit+1)
	}

	// A. one chain per (depth, pattern, siblings), both parsers. Quick: siblings, leaf and two
	// policies rotate with the index so that over the 25 (depth, pattern) pairs every sibling
	// kind, leaf kind and policy occurs; thorough: the full product under every policy.
	idx := 0
	for _, d := range depths {
		for pat := 0; pat < nPatterns && !poisoned; pat++ {
			sibs := []int{(idx + pat) % nSiblings}
			if c.Thorough() {
				sibs = []int{sibNone, sibBefore, sibAfter, sibBoth, sibContainers}
			}
			for _, sib := range sibs {
				r := c.Rng.Fork(uint64(500000 + idx))
				pols := fixedPolicies(r)
				use := []policy{pols[idx%len(pols)], pols[(idx/2+5)%len(pols)]}
				if c.Thorough() {
					use = append(pols, randomPolicy(r))
				}
				for pi, p := range use {
					leaf := nestLeaf(r, idx+pi, true)
					t := chain(r, d, pat, sib, leaf)
					if t.nesting() != d {
						c.Note("C06 nesting: generator error: chain of %d (%s) is %d deep", d, sibName[sib], t.nesting())
					}
					x.oneOperand(p, t, operators[(idx+pi)%len(operators)], fmt.Sprintf("%d:%s:%s", d, patName[pat], sibName[sib]))
					c.Count(fmt.Sprintf("nest-depth:%d", t.nesting()))
					c.Count("nest-pattern:" + patName[pat])
					c.Count("nest-siblings:" + sibName[sib])
					c.Count("nest-policy:" + p.label)
				}
				idx++
			}
		}
	}

	// B. levels are given back: what counts is what is open at once ----------------------------
	widths := []int{nestLimit - 1, nestLimit, nestLimit + 1, nestLimit + 2, 2*nestLimit + 100}
	for wi, w := range widths {
		if poisoned {
			break
		}
		r := c.Rng.Fork(uint64(510000 + wi))
		pols := fixedPolicies(r)
		p := pols[(wi*3)%len(pols)]
		small := func(i int) *node {
			switch i % 4 {
			case 0:
				return mkArr()
			case 1:
				return mkDict()
			case 2:
				return mkArr(mkDict(ent("K", mkArr())))
			}
			return mkDict(ent("K", mkArr(mkInt(int64(i)))))
		}
		// w sibling containers inside one array / one dictionary
		arr, dict := &node{k: kArr}, &node{k: kDict}
		var seq []*node
		for i := 0; i < w; i++ {
			arr.arr = append(arr.arr, small(i))
			dict.dict = append(dict.dict, entry{[]byte(fmt.Sprintf("K%d", i)), small(i + 1)})
			seq = append(seq, small(i+2))
		}
		x.oneOperand(p, arr, "TJ", fmt.Sprintf("wide-array:%d", w))
		x.oneOperand(pols[(wi*3+1)%len(pols)], dict, "BDC", fmt.Sprintf("wide-dict:%d", w))
		// w containers one after the other at top level: one parser object, one Parse call
		x.nestObjects(printObjects(p, seq), seq, p.label)
		x.nestProgram(printOps(p, []operation{{op: "SCN", operands: seq}}), []operation{{op: "SCN", operands: seq}}, p.label)
		var manyOps []operation
		for i, t := range seq {
			manyOps = append(manyOps, operation{op: operators[i%len(operators)], operands: []*node{t}})
		}
		x.nestProgram(printOps(p, manyOps), manyOps, p.label)
		c.Count(fmt.Sprintf("nest-wide:%d", w))
		c.Case(fmt.Sprintf("nestwide:%d:%s", w, p.label), true)
	}
	// several chains at the limit side by side, in sequence, and a too deep one among them
	for i := 0; i < c.N(6, 40) && !poisoned; i++ {
		r := c.Rng.Fork(uint64(520000 + i))
		pols := fixedPolicies(r)
		p := pols[(i*7+2)%len(pols)]
		if c.Thorough() && i%3 == 0 {
			p = randomPolicy(r)
		}
		mk := func(d int) *node { return chain(r, d, r.Intn(nPatterns), r.Intn(nSiblings-1), nestLeaf(r, r.Intn(9), true)) }
		// position of the too deep member: none, first, middle, last
		var members []*node
		bad := i % 4
		for j := 0; j < 3; j++ {
			d := nestLimit - r.Intn(2)
			if bad == j+1 {
				d = nestLimit + 1 + r.Intn(2)
			}
			members = append(members, mk(d))
		}
		// (a) as a top-level sequence: each starts again from no open container
		x.nestObjects(printObjects(p, members), members, p.label)
		var prog []operation
		for j, t := range members {
			prog = append(prog, operation{op: operators[(i+j)%len(operators)], operands: []*node{t}})
		}
		x.nestProgram(printOps(p, prog), prog, p.label)
		x.nestProgram(printOps(p, []operation{{op: "sc", operands: members}}), []operation{{op: "sc", operands: members}}, p.label)
		// (b) inside one more container: one level less is left for each
		var inner []*node
		for j := 0; j < 3; j++ {
			d := nestLimit - 1 - r.Intn(2)
			if bad == j+1 {
				d = nestLimit + r.Intn(2)
			}
			inner = append(inner, mk(d))
		}
		outer := mkArr(inner...)
		if i%2 == 1 {
			outer = mkDict(ent("A", inner[0]), ent("B", inner[1]), ent("C", inner[2]))
		}
		x.oneOperand(p, outer, "Do", fmt.Sprintf("side-by-side:%d", bad))
		c.Count(fmt.Sprintf("nest-side-by-side:too-deep-member-%d", bad))
	}

	// C. unbalanced: opening delimiters only, closers cut off, closers in excess -----------------------
	seps := []string{"", " ", "\r\n", "%[[<<\n"}
	rawDepths := append([]int{}, depths...)
	rawDepths = append(rawDepths, c.N(3000, 5000))
	ri := 0
	for _, d := range rawDepths {
		for pat := 0; pat < nPatterns && !poisoned; pat++ {
			if !c.Thorough() && (pat+ri)%2 == 1 && d != nestLimit && d != nestLimit+1 {
				ri++
				continue
			}
			r := c.Rng.Fork(uint64(530000 + ri))
			sep := seps[ri%len(seps)]
			if d > 2*nestLimit+100 {
				sep = "" // keep the model's quadratic lexer window affordable
			}
			x.nestRaw(opensOnly(r, d, pat, sep), fmt.Sprintf("opens-only:%s", patName[pat]), d > 0)
			if d <= 2*nestLimit {
				pols := fixedPolicies(r)
				p := pols[[]int{0, 1, 2, 6, 7, 8}[ri%6]] // policies without comments: the tail is closers and white space
				t := chain(r, d, pat, []int{sibNone, sibBefore}[ri%2], mkInt(7))
				in := printObjects(p, []*node{t})
				for _, k := range []int{1, d / 2, d} {
					if k >= 1 {
						x.nestRaw(dropClosers(in, k), fmt.Sprintf("closers-cut:%s", patName[pat]), true)
					}
				}
				extra := append(append([]byte{}, in...), hx.Pick(r, []string{"]", ">>", " ] ]", ">>>>", "]>>"})...)
				x.nestRaw(extra, fmt.Sprintf("closers-extra:%s", patName[pat]), false)
			}
			ri++
		}
	}
	c.Note("nesting stage: %d chains, limit %d", idx, nestLimit)
}
