package c06

// An independent PDF object/content-stream PRINTER, written from ISO 32000-1
// §7.2 (lexical conventions) and §7.3 (objects) — not from tabula's lexer.
//
// §7.2.2: the six white-space characters NUL HT LF FF CR SP; delimiters
//         ( ) < > [ ] { } / %; everything else is a regular character. Tokens
//         made of regular characters must be separated from one another by
//         white space (or a comment, which counts as one white space); next to
//         a delimiter no separation is needed.
// §7.2.3: a comment runs from % (outside a string) to the end of line.
// §7.3.2-3: true false null; integers and reals: optional sign, digits, one
//         optional point (reals), leading zeros and "4." / ".5" allowed.
// §7.3.4.2: literal strings: balanced parentheses may be raw, others \( \);
//         \n \r \t \b \f \\ ; \ddd with 1-3 octal digits; \EOL is a line
//         continuation; a raw EOL of any kind means LF (so raw CR is never
//         written for byte 13).
// §7.3.4.3: hex strings: pairs of hex digits, white space ignored, a missing
//         last digit is 0.
// §7.3.5: names: / then regular characters; #xx for any byte, mandatory for
//         white space, delimiters and '#'.

import (
	"bytes"
	"fmt"
	"strconv"
	"strings"

	"verifharness/hx"
)

const (
	sepMinimal = iota
	sepSingle
	sepMaximal
	sepComments
	sepRandom
	sepLines // every separation is a line break followed by 0-3 bytes of indentation (boundary.go only)
)

const (
	strLiteral = iota // raw where allowed, balanced parentheses raw
	strEscaped        // named escapes and \( \) wherever one exists, raw otherwise
	strOctal          // every byte as \ddd
	strHex            // <...>
	strMixed          // per-byte random choice incl. line continuations
)

const (
	nameMinimal = iota // #xx only where mandatory
	nameAll            // #xx for every byte
	nameMixed
)

type policy struct {
	label   string
	sep     int
	eol     string
	str     int
	name    int
	numDeco bool
	r       *hx.Rng
}

var wsBytes = []byte{0, 9, 10, 12, 13, 32}

func isWS(b byte) bool    { return b == 0 || b == 9 || b == 10 || b == 12 || b == 13 || b == 32 }
func isDelim(b byte) bool { return strings.IndexByte("()<>[]{}/%", b) >= 0 }
func isRegular(b byte) bool { return !isWS(b) && !isDelim(b) }

// the fixed policies named by the property's quantifier; "random" mixes all
func fixedPolicies(r *hx.Rng) []policy {
	return []policy{
		{label: "minimal", sep: sepMinimal, eol: "\n", str: strLiteral, name: nameMinimal, r: r},
		{label: "single-space", sep: sepSingle, eol: "\n", str: strEscaped, name: nameMinimal, r: r},
		{label: "maximal-ws", sep: sepMaximal, eol: "\r\n", str: strLiteral, name: nameMinimal, numDeco: true, r: r},
		{label: "comments-lf", sep: sepComments, eol: "\n", str: strLiteral, name: nameMinimal, r: r},
		{label: "comments-cr", sep: sepComments, eol: "\r", str: strEscaped, name: nameMixed, r: r},
		{label: "comments-crlf", sep: sepComments, eol: "\r\n", str: strMixed, name: nameMinimal, r: r},
		{label: "hex-strings", sep: sepMinimal, eol: "\n", str: strHex, name: nameMinimal, r: r},
		{label: "octal-strings", sep: sepSingle, eol: "\r", str: strOctal, name: nameMinimal, r: r},
		{label: "escaped-names", sep: sepMinimal, eol: "\n", str: strLiteral, name: nameAll, r: r},
		{label: "random", sep: sepRandom, eol: "\n", str: strMixed, name: nameMixed, numDeco: true, r: r},
	}
}

func randomPolicy(r *hx.Rng) policy {
	return policy{label: "random", sep: r.Intn(5), eol: hx.Pick(r, []string{"\n", "\r", "\r\n"}),
		str: r.Intn(5), name: r.Intn(3), numDeco: r.Bool(), r: r}
}

type writer struct {
	p           policy
	buf         bytes.Buffer
	lastRegular bool
	tokens      int
	// spans records where every token, separator and "n g R" group lies in the
	// output, so that the buffer-boundary stage can tell which kind of lexical
	// element a given offset falls into (distribution evidence only).
	spans        []span
	lastTokStart int
}

// span is one lexical element of the printed bytes: buf[start:end].
type span struct {
	start, end int
	what       string
}

// tokenClass names the class of a printed token from its spelling.
func tokenClass(b []byte) string {
	switch {
	case len(b) == 0:
		return "empty"
	case b[0] == '(':
		return "string-literal"
	case string(b) == "<<" || string(b) == ">>" || string(b) == "[" || string(b) == "]":
		return "delimiter"
	case b[0] == '<':
		return "string-hex"
	case b[0] == '/':
		return "name"
	case (b[0] >= '0' && b[0] <= '9') || b[0] == '+' || b[0] == '-' || b[0] == '.':
		if bytes.IndexByte(b, '.') >= 0 {
			return "real"
		}
		return "int"
	}
	return "keyword"
}

// sepClass names the class of a printed separator.
func sepClass(b []byte) string {
	switch {
	case bytes.IndexByte(b, '%') >= 0:
		if bytes.Contains(b, []byte("\r\n")) {
			return "sep-comment-crlf"
		}
		return "sep-comment"
	case len(b) == 1:
		return "sep-ws1"
	case bytes.Contains(b, []byte("\r\n")):
		return "sep-wsrun-crlf"
	}
	return "sep-wsrun"
}

func (w *writer) comment() {
	w.buf.WriteByte('%')
	n := w.p.r.Intn(6)
	for i := 0; i < n; i++ {
		b := byte(w.p.r.U64())
		if w.p.r.Chance(1, 3) {
			b = hx.Pick(w.p.r, []byte("()<>[]/% \\true1R"))
		}
		if b == '\r' || b == '\n' {
			b = '%'
		}
		w.buf.WriteByte(b)
	}
	w.buf.WriteString(w.p.eol)
}

func (w *writer) ws(n int) {
	for i := 0; i < n; i++ {
		w.buf.WriteByte(hx.Pick(w.p.r, wsBytes))
	}
}

// sep writes the separation between two tokens; required says whether the
// grammar needs one here.
func (w *writer) sep(required bool) {
	r := w.p.r
	start := w.buf.Len()
	defer func() {
		if end := w.buf.Len(); end > start {
			w.spans = append(w.spans, span{start, end, sepClass(w.buf.Bytes()[start:end])})
		}
	}()
	mode := w.p.sep
	if mode == sepRandom {
		mode = r.Intn(4)
	}
	switch mode {
	case sepMinimal:
		if required {
			w.buf.WriteByte(' ')
		}
	case sepSingle:
		if w.p.eol != "\n" && r.Chance(1, 4) {
			w.buf.WriteString(w.p.eol)
		} else {
			w.buf.WriteByte(' ')
		}
	case sepMaximal:
		w.ws(r.Range(1, 4))
	case sepLines:
		w.buf.WriteString(w.p.eol)
		for i := r.Intn(4); i > 0; i-- {
			w.buf.WriteByte(hx.Pick(r, []byte("  \t")))
		}
	case sepComments:
		w.ws(r.Intn(2))
		w.comment()
		w.ws(r.Intn(2))
		if r.Chance(1, 4) {
			w.comment()
		}
	}
	w.lastRegular = false
}

func (w *writer) tok(b []byte, startsRegular, endsRegular bool) {
	if w.tokens > 0 || w.p.sep >= sepMaximal {
		w.sep(w.lastRegular && startsRegular)
	}
	w.tokens++
	w.lastTokStart = w.buf.Len()
	w.buf.Write(b)
	w.spans = append(w.spans, span{w.lastTokStart, w.buf.Len(), tokenClass(b)})
	w.lastRegular = endsRegular
}

func (w *writer) finish() []byte {
	if w.p.sep >= sepMaximal && w.p.r.Bool() {
		w.sep(false)
	}
	return w.buf.Bytes()
}

func hexDigit(r *hx.Rng, v byte, mixedCase bool) byte {
	if v < 10 {
		return '0' + v
	}
	if mixedCase && r.Bool() {
		return 'a' + v - 10
	}
	return 'A' + v - 10
}

func (w *writer) nameBytes(s []byte) []byte {
	r := w.p.r
	out := []byte{'/'}
	for _, b := range s {
		must := !isRegular(b) || b == '#'
		esc := must
		switch w.p.name {
		case nameAll:
			esc = true
		case nameMixed:
			esc = must || r.Chance(1, 3)
		case nameMinimal:
			// §7.3.5 recommends #xx outside '!'..'~'; raw is still legal for regular characters
			esc = must
		}
		if esc {
			out = append(out, '#', hexDigit(r, b>>4, w.p.name != nameMinimal), hexDigit(r, b&15, w.p.name != nameMinimal))
		} else {
			out = append(out, b)
		}
	}
	return out
}

// matchedParens marks the parentheses of s that pair up (those may be written raw).
func matchedParens(s []byte) []bool {
	m := make([]bool, len(s))
	var stack []int
	for i, b := range s {
		if b == '(' {
			stack = append(stack, i)
		} else if b == ')' && len(stack) > 0 {
			j := stack[len(stack)-1]
			stack = stack[:len(stack)-1]
			m[i], m[j] = true, true
		}
	}
	return m
}

var namedEscape = map[byte]byte{'\n': 'n', '\r': 'r', '\t': 't', '\b': 'b', '\f': 'f', '(': '(', ')': ')', '\\': '\\'}

func (w *writer) hexString(s []byte) []byte {
	r := w.p.r
	spaced := w.p.sep != sepMinimal
	out := []byte{'<'}
	gap := func() {
		if spaced && r.Chance(1, 3) {
			for i := r.Range(1, 2); i > 0; i-- {
				out = append(out, hx.Pick(r, wsBytes))
			}
		}
	}
	for i, b := range s {
		gap()
		out = append(out, hexDigit(r, b>>4, true))
		if i == len(s)-1 && b&15 == 0 && r.Bool() {
			break // a missing final digit is 0
		}
		gap()
		out = append(out, hexDigit(r, b&15, true))
	}
	gap()
	return append(out, '>')
}

func (w *writer) literalString(s []byte, mode int) []byte {
	r := w.p.r
	matched := matchedParens(s)
	// the raw/escaped decision for a matched pair must be the same on both ends
	rawPair := make([]bool, len(s))
	{
		var stack []int
		for i, b := range s {
			if !matched[i] {
				continue
			}
			if b == '(' {
				stack = append(stack, i)
				rawPair[i] = mode == strLiteral || (mode == strMixed && r.Bool())
			} else {
				j := stack[len(stack)-1]
				stack = stack[:len(stack)-1]
				rawPair[i] = rawPair[j]
			}
		}
	}
	out := []byte{'('}
	forceEscapeLF := false
	for i, b := range s {
		if mode == strMixed && r.Chance(1, 8) {
			out = append(out, '\\')
			out = append(out, w.p.eol...)
			forceEscapeLF = w.p.eol == "\r"
		}
		nextIsOctalDigit := i+1 < len(s) && s[i+1] >= '0' && s[i+1] <= '9'
		octal := func(minDigits bool) {
			o := strconv.FormatUint(uint64(b), 8)
			if !minDigits || nextIsOctalDigit {
				for len(o) < 3 {
					o = "0" + o
				}
			} else if r.Bool() && len(o) < 3 {
				o = "0" + o
			}
			out = append(out, '\\')
			out = append(out, o...)
		}
		esc, hasNamed := namedEscape[b]
		isParen := b == '(' || b == ')'
		mustEscape := b == '\\' || b == '\r' || (isParen && !rawPair[i]) || (b == '\n' && forceEscapeLF)
		forceEscapeLF = false
		switch mode {
		case strOctal:
			octal(false)
		case strEscaped:
			if hasNamed {
				out = append(out, '\\', esc)
			} else {
				out = append(out, b)
			}
		case strLiteral:
			if mustEscape {
				out = append(out, '\\', esc)
			} else {
				out = append(out, b)
			}
		default: // mixed: raw, named escape or octal, as far as each is legal here
			pick := r.Intn(3)
			switch {
			case isParen && rawPair[i]:
				out = append(out, b) // the partner is raw too
			case pick == 0 && !mustEscape:
				out = append(out, b)
			case pick == 1 && hasNamed:
				out = append(out, '\\', esc)
			default:
				octal(true)
			}
		}
	}
	return append(out, ')')
}

func (w *writer) intBytes(i int64) []byte {
	s := strconv.FormatInt(i, 10)
	if !w.p.numDeco {
		return []byte(s)
	}
	r := w.p.r
	sign, digs := "", s
	if s[0] == '-' {
		sign, digs = "-", s[1:]
	} else if r.Chance(1, 3) {
		sign = "+"
	}
	if r.Chance(1, 3) {
		digs = strings.Repeat("0", r.Range(1, 3)) + digs
	}
	return []byte(sign + digs)
}

func (w *writer) realBytes(n *node) []byte {
	digs := n.digs
	for len(digs) <= n.scale {
		digs = "0" + digs
	}
	ip, fp := digs[:len(digs)-n.scale], digs[len(digs)-n.scale:]
	sign := ""
	if n.neg {
		sign = "-"
	}
	if !w.p.numDeco {
		return []byte(sign + ip + "." + fp)
	}
	r := w.p.r
	if !n.neg && r.Chance(1, 3) {
		sign = "+"
	}
	if strings.Trim(ip, "0") == "" && fp != "" && r.Bool() {
		ip = "" // ".5"
	} else if r.Chance(1, 3) {
		ip = strings.Repeat("0", r.Range(1, 2)) + ip
	}
	if r.Chance(1, 3) {
		fp += strings.Repeat("0", r.Range(1, 2))
	} else if strings.Trim(fp, "0") == "" && ip != "" && r.Bool() {
		fp = "" // "4."
	}
	return []byte(sign + ip + "." + fp)
}

func (w *writer) str(s []byte) {
	mode := w.p.str
	if mode == strMixed && w.p.r.Chance(1, 4) {
		mode = strHex
	}
	if mode == strHex {
		w.tok(w.hexString(s), false, false)
	} else {
		w.tok(w.literalString(s, mode), false, false)
	}
}

func (w *writer) obj(n *node) {
	switch n.k {
	case kNull:
		w.tok([]byte("null"), true, true)
	case kBool:
		if n.b {
			w.tok([]byte("true"), true, true)
		} else {
			w.tok([]byte("false"), true, true)
		}
	case kInt:
		w.tok(w.intBytes(n.i), true, true)
	case kReal:
		w.tok(w.realBytes(n), true, true)
	case kStr:
		if n.lit != nil {
			w.tok(n.lit, false, false) // spelled by the generator (raweol.go)
		} else {
			w.str(n.s)
		}
	case kName:
		w.tok(w.nameBytes(n.s), false, true)
	case kArr:
		w.tok([]byte("["), false, false)
		for _, e := range n.arr {
			w.obj(e)
		}
		w.tok([]byte("]"), false, false)
	case kDict:
		w.tok([]byte("<<"), false, false)
		for _, e := range n.dict {
			w.tok(w.nameBytes(e.key), false, true)
			w.obj(e.val)
		}
		w.tok([]byte(">>"), false, false)
	case kRef:
		w.tok([]byte(strconv.FormatInt(n.num, 10)), true, true)
		refStart := w.lastTokStart
		w.tok([]byte(strconv.FormatInt(n.gen, 10)), true, true)
		w.tok([]byte("R"), true, true)
		w.spans = append(w.spans, span{refStart, w.buf.Len(), "ref-group"})
	default:
		panic(fmt.Sprint("printer: kind ", n.k))
	}
}

// printObjects writes a sequence of objects (top level of a document-level parse).
func printObjects(p policy, ns []*node) []byte {
	b, _ := printObjectsSpans(p, ns)
	return b
}

// printObjectsSpans is printObjects that also says where each lexical element lies.
func printObjectsSpans(p policy, ns []*node) ([]byte, []span) {
	w := &writer{p: p}
	for _, n := range ns {
		w.obj(n)
	}
	b := w.finish()
	return b, w.spans
}

type operation struct {
	op       string
	operands []*node
}

// printOps writes a content stream: operands then operator, repeatedly.
func printOps(p policy, ops []operation) []byte {
	b, _ := printOpsSpans(p, ops)
	return b
}

// printOpsSpans is printOps that also says where each lexical element lies.
func printOpsSpans(p policy, ops []operation) ([]byte, []span) {
	w := &writer{p: p}
	for _, o := range ops {
		for _, n := range o.operands {
			w.obj(n)
		}
		w.tok([]byte(o.op), true, true)
	}
	b := w.finish()
	return b, w.spans
}
