package c06

// Logical PDF object trees (the harness's own type, independent of tabula's
// core.Object) and their generators.

import (
	"fmt"
	"sort"
	"strconv"
	"strings"

	"verifharness/hx"
)

type kind int

const (
	kNull kind = iota
	kBool
	kInt
	kReal
	kStr
	kName
	kArr
	kDict
	kRef
)

var kindName = []string{"null", "bool", "int", "real", "string", "name", "array", "dict", "ref"}

type entry struct {
	key []byte
	val *node
}

// node is one PDF object. Reals are exact decimals: sign, digits and the
// number of fractional digits (value = ±digits / 10^scale); every generated
// real is a dyadic rational so strconv.ParseFloat is exact on it.
type node struct {
	k     kind
	b     bool
	i     int64
	neg   bool   // real
	digs  string // real: decimal digits, no sign, no dot
	scale int    // real: how many of digs are fractional
	s     []byte // string / name bytes
	lit   []byte // string only: a ready-made literal spelling "(…)" to be written as is (raweol.go); nil = the policy spells s
	alt   []byte // string with lit only: the value under the other reading of raw end-of-line bytes (raweol.go)
	arr   []*node
	dict  []entry // distinct keys, in writing order
	num   int64   // ref
	gen   int64   // ref
}

// canonReal gives the canonical decimal text of ±digs/10^scale: no leading
// zeros, no trailing fractional zeros, no "-0".
func canonReal(neg bool, digs string, scale int) string {
	for len(digs) <= scale {
		digs = "0" + digs
	}
	ip, fp := digs[:len(digs)-scale], digs[len(digs)-scale:]
	ip = strings.TrimLeft(ip, "0")
	if ip == "" {
		ip = "0"
	}
	fp = strings.TrimRight(fp, "0")
	out := ip
	if fp != "" {
		out += "." + fp
	}
	if neg && out != "0" {
		out = "-" + out
	}
	return out
}

// sexpr is the wire form of a tree (see Handlers/C06.lean):
//   n | t | f | i<dec> | r<dec> | s<hex> | /<hex> | [a,b,…] | <k:v,k:v,…> (keys sorted) | R<n>.<g>
func (n *node) sexpr() string {
	switch n.k {
	case kNull:
		return "n"
	case kBool:
		if n.b {
			return "t"
		}
		return "f"
	case kInt:
		return "i" + strconv.FormatInt(n.i, 10)
	case kReal:
		return "r" + canonReal(n.neg, n.digs, n.scale)
	case kStr:
		return "s" + hx.Hex(n.s)
	case kName:
		return "/" + hx.Hex(n.s)
	case kArr:
		parts := make([]string, len(n.arr))
		for i, e := range n.arr {
			parts[i] = e.sexpr()
		}
		return "[" + strings.Join(parts, ",") + "]"
	case kDict:
		return "<" + strings.Join(sortDictParts(n.dict), ",") + ">"
	case kRef:
		return fmt.Sprintf("R%d.%d", n.num, n.gen)
	}
	return "?"
}

func sortDictParts(es []entry) []string {
	idx := make([]int, len(es))
	for i := range idx {
		idx[i] = i
	}
	sort.SliceStable(idx, func(a, b int) bool { return string(es[idx[a]].key) < string(es[idx[b]].key) })
	parts := make([]string, len(es))
	for i, j := range idx {
		parts[i] = hx.Hex(es[j].key) + ":" + es[j].val.sexpr()
	}
	return parts
}

func (n *node) depth() int {
	d := 0
	for _, e := range n.arr {
		if x := e.depth(); x > d {
			d = x
		}
	}
	for _, e := range n.dict {
		if x := e.val.depth(); x > d {
			d = x
		}
	}
	return d + 1
}

func (n *node) hasRef() bool {
	if n.k == kRef {
		return true
	}
	for _, e := range n.arr {
		if e.hasRef() {
			return true
		}
	}
	for _, e := range n.dict {
		if e.val.hasRef() {
			return true
		}
	}
	return false
}

// ---- atoms ----------------------------------------------------------------------

func mkInt(i int64) *node      { return &node{k: kInt, i: i} }
func mkStr(s string) *node     { return &node{k: kStr, s: []byte(s)} }
func mkName(s string) *node    { return &node{k: kName, s: []byte(s)} }
func mkRef(n, g int64) *node   { return &node{k: kRef, num: n, gen: g} }
func mkBool(b bool) *node      { return &node{k: kBool, b: b} }
func mkArr(xs ...*node) *node  { return &node{k: kArr, arr: xs} }
func mkReal(neg bool, digs string, scale int) *node {
	return &node{k: kReal, neg: neg, digs: digs, scale: scale}
}

// the 3-atom alphabet per type used by the exhaustive shape enumeration
var atomAlphabet = [][]*node{
	{{k: kNull}},
	{mkBool(true), mkBool(false)},
	{mkInt(0), mkInt(-17), mkInt(9223372036854775807)},
	{mkReal(false, "5", 1), mkReal(true, "12375", 3), mkReal(false, "30", 1)},
	{mkStr(""), mkStr("a(b)c\\"), mkStr("\x00\r\n\xff)(")},
	{mkName("A"), mkName("A B#/"), mkName("")},
	{mkRef(1, 0), mkRef(12, 3), mkRef(0, 65535)},
}

var keyAlphabet = []string{"K", "Type", "a b", "", "#", "K2"}

// atomCycle hands out atoms round-robin over all types, so that over the
// enumeration every atom meets every parent kind and position.
type atomCycle struct {
	t, i  int
	noRef bool
}

func (a *atomCycle) next() *node {
	for {
		alpha := atomAlphabet[a.t%len(atomAlphabet)]
		n := alpha[a.i%len(alpha)]
		a.t++
		if a.t%len(atomAlphabet) == 0 {
			a.i++
		}
		if a.noRef && n.k == kRef {
			continue
		}
		c := *n
		return &c
	}
}

// shapes enumerates every container skeleton of depth ≤ d whose containers
// (arrays and dictionaries) have at most two children. Leaves are nil.
type shape struct {
	dict bool
	kids []*shape // nil shape = leaf
	leaf bool
}

func shapes(d int) []*shape {
	leaf := &shape{leaf: true}
	if d <= 1 {
		return []*shape{leaf}
	}
	sub := shapes(d - 1)
	out := []*shape{leaf}
	for _, isDict := range []bool{false, true} {
		out = append(out, &shape{dict: isDict})
		for _, a := range sub {
			out = append(out, &shape{dict: isDict, kids: []*shape{a}})
		}
		for _, a := range sub {
			for _, b := range sub {
				out = append(out, &shape{dict: isDict, kids: []*shape{a, b}})
			}
		}
	}
	return out
}

func (s *shape) fill(a *atomCycle, keyOff int) *node {
	if s.leaf {
		return a.next()
	}
	if !s.dict {
		n := &node{k: kArr}
		for _, k := range s.kids {
			n.arr = append(n.arr, k.fill(a, keyOff+1))
		}
		return n
	}
	n := &node{k: kDict}
	for i, k := range s.kids {
		key := keyAlphabet[(keyOff+i)%len(keyAlphabet)]
		n.dict = append(n.dict, entry{[]byte(key), k.fill(a, keyOff+2)})
	}
	return n
}

// ---- random trees -----------------------------------------------------------------

func randBytes(r *hx.Rng, maxLen int) []byte {
	n := r.Intn(maxLen + 1)
	b := make([]byte, n)
	mode := r.Intn(4)
	for i := range b {
		switch mode {
		case 0: // all 256 byte values
			b[i] = byte(r.U64())
		case 1: // syntax-heavy
			b[i] = hx.Pick(r, []byte("()\\<>[]{}/%# \t\r\n\f\x00012789nrtbf#AFaf"))
		case 2: // printable
			b[i] = byte(r.Range(32, 126))
		default:
			if r.Chance(1, 3) {
				b[i] = hx.Pick(r, []byte("()\\\r\n#/%"))
			} else {
				b[i] = byte(r.U64())
			}
		}
	}
	return b
}

var limitInts = []int64{0, 1, -1, 7, 42, -42, 255, 65535, 2147483647, -2147483648, 2147483648,
	9223372036854775807, -9223372036854775808, 9223372036854775806, -9223372036854775807, 1000000000000000000}

func randInt(r *hx.Rng) int64 {
	if r.Chance(1, 3) {
		return hx.Pick(r, limitInts)
	}
	v := int64(r.U64() >> uint(r.Range(1, 63)))
	if r.Bool() {
		v = -v
	}
	return v
}

// randReal: k / 2^j with j ≤ 10, written exactly with j fractional digits and at
// most 15 significant digits in all (so the value is certainly exact in float64
// and its shortest decimal form is the decimal written).
func randReal(r *hx.Rng) *node {
	j := r.Intn(11)
	p := uint64(1)
	for i := 0; i < j; i++ {
		p *= 5
	}
	limit := uint64(999999999999999) / p // k*5^j < 10^15
	k := (r.U64() >> uint(r.Range(14, 63))) % (limit + 1)
	digs := strconv.FormatUint(k*p, 10)
	return mkReal(r.Bool(), digs, j)
}

func randAtom(r *hx.Rng, noRef bool) *node {
	for {
		switch r.Intn(9) {
		case 0:
			return &node{k: kNull}
		case 1:
			return mkBool(r.Bool())
		case 2, 3:
			return mkInt(randInt(r))
		case 4:
			return randReal(r)
		case 5:
			return &node{k: kStr, s: randBytes(r, 12)}
		case 6:
			return &node{k: kName, s: randBytes(r, 8)}
		case 7:
			if noRef {
				continue
			}
			return mkRef(int64(r.Intn(100000)), int64(r.Intn(3)*r.Intn(65536)))
		default:
			return &node{k: kStr, s: randBytes(r, 40)}
		}
	}
}

func randTree(r *hx.Rng, depth int, noRef bool) *node {
	if depth <= 1 || r.Chance(2, 5) {
		return randAtom(r, noRef)
	}
	n := r.Intn(5)
	if r.Bool() {
		t := &node{k: kArr}
		for i := 0; i < n; i++ {
			t.arr = append(t.arr, randTree(r, depth-1, noRef))
		}
		return t
	}
	t := &node{k: kDict}
	seen := map[string]bool{}
	for i := 0; i < n; i++ {
		key := randBytes(r, 6)
		if r.Bool() {
			key = []byte(hx.Pick(r, keyAlphabet))
		}
		if seen[string(key)] {
			continue
		}
		seen[string(key)] = true
		t.dict = append(t.dict, entry{key, randTree(r, depth-1, noRef)})
	}
	return t
}
