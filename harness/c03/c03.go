// Package c03: extraction is deterministic and free of cross-call interference.
//
// Built with -race by the check driver; data races are read back from the
// detector's log by the driver and reported with both stacks as the replay.
package c03

import (
	"crypto/sha256"
	"fmt"
	"os"
	"path/filepath"
	"sort"
	"strings"
	"sync"

	"github.com/tsawler/tabula"
	"github.com/tsawler/tabula/contentstream"
	"github.com/tsawler/tabula/core"
	"github.com/tsawler/tabula/font"
	"github.com/tsawler/tabula/text"

	"verifharness/c20"
	"verifharness/hx"
	"verifharness/writers"
)

func init() { hx.Register("C03", Run, Replay) }

// ---- parser sessions ---------------------------------------------------------------

var operators = []string{"q", "Q", "m", "l", "h", "S", "f", "n", "W", "B", "b", "s", "c", "v", "y", "g", "G", "k", "K", "w", "j", "J", "M", "d", "i"}

type sessCase struct {
	Calls  []string `json:"calls"`  // content-stream programs, parsed one after the other
	Poison []string `json:"poison"` // raw inputs parsed before the last call (may fail / end mid-operand)
}

func showOps(ops []contentstream.Operation) string {
	var out []string
	for _, o := range ops {
		var xs []string
		for _, a := range o.Operands {
			switch v := a.(type) {
			case core.Int:
				xs = append(xs, fmt.Sprint(int64(v)))
			default:
				xs = append(xs, fmt.Sprintf("?%T", a))
			}
		}
		out = append(out, fmt.Sprintf("%d:%s", o.Operator[0], strings.Join(xs, ",")))
	}
	return "[" + strings.Join(out, ";") + "]"
}

func genProgram(r *hx.Rng, endMid bool) (src string, wire string) {
	var s, w []string
	n := r.Range(0, 8)
	for i := 0; i < n; i++ {
		if r.Chance(3, 5) {
			v := r.Range(-50, 500)
			s = append(s, fmt.Sprint(v))
			w = append(w, fmt.Sprintf("n%d", v))
		} else {
			op := hx.Pick(r, operators)
			s = append(s, op)
			w = append(w, fmt.Sprintf("o%d", op[0]))
		}
	}
	if endMid {
		for k := r.Range(1, 3); k > 0; k-- {
			v := r.Range(0, 9)
			s = append(s, fmt.Sprint(v))
			w = append(w, fmt.Sprintf("n%d", v))
		}
	}
	if len(w) == 0 {
		return "", "-"
	}
	return strings.Join(s, " "), strings.Join(w, ",")
}

func runSession(c *hx.Ctx, idx int) {
	r := hx.NewRng(c.Seed).Fork(uint64(idx))
	var k sessCase
	var wires []string
	ncalls := r.Range(1, 4)
	for i := 0; i < ncalls; i++ {
		src, wire := genProgram(r, i < ncalls-1 && r.Chance(2, 3))
		k.Calls = append(k.Calls, src)
		wires = append(wires, wire)
	}
	for p := r.Intn(3); p > 0; p-- {
		k.Poison = append(k.Poison, hx.Pick(r, []string{"1 2 3", "(unterminated", "<< /A 1", "[ 1 2", "7 8 9 10 11", "<4", "/N 5 6", "1 2 ) 3", "BT 1 2"}))
	}
	var alone, inSession string
	c.Guard("C03/session", k, 10, func() {
		last := k.Calls[len(k.Calls)-1]
		ops, err := contentstream.NewParser([]byte(last)).Parse()
		alone = showOps(ops)
		if err != nil {
			alone = "err"
		}
		for _, call := range k.Calls[:len(k.Calls)-1] {
			contentstream.NewParser([]byte(call)).Parse()
		}
		for _, p := range k.Poison {
			contentstream.NewParser([]byte(p)).Parse()
		}
		ops, err = contentstream.NewParser([]byte(last)).Parse()
		inSession = showOps(ops)
		if err != nil {
			inSession = "err"
		}
	})
	c.Check("C03/parse-depends-on-history", alone == inSession, k, func() string {
		return fmt.Sprintf("parse of %q alone = %s, after history %q + %q = %s", k.Calls[len(k.Calls)-1], alone, k.Calls[:len(k.Calls)-1], k.Poison, inSession)
	})
	c.Op("c03.sess "+strings.Join(wires, " "), inSession)
	c.Count("session")
	c.Case(fmt.Sprint(k), inSession != "[]")
}

// ---- font registration over a map --------------------------------------------------

type fontCase struct {
	Names []string `json:"names"`
}

// signature identifies a parsed font by what it does: base font + how it decodes two probe bytes
func signature(f *font.Font) string {
	if f == nil {
		return "-"
	}
	return f.BaseFont + "/" + hx.HexS(f.DecodeString([]byte{0x8A, 0xD0, 0x41}))
}

func runFonts(c *hx.Ctx, idx int) {
	r := hx.NewRng(c.Seed ^ 0xf0f0).Fork(uint64(idx))
	pool := []string{"F1", "F2", "F", "/F", "TT0", "/TT0", "C2_0", "/F1", "R9", "Helv"}
	n := r.Range(1, 5)
	hx.Shuffle(r, pool)
	names := append([]string(nil), pool[:n]...)
	sort.Strings(names)
	k := fontCase{Names: names}
	fonts := core.Dict{}
	// several entries may share Subtype and BaseFont and differ only in their encoding
	bases := []string{"Helvetica", "Times-Roman", "Courier"}
	encs := []string{"WinAnsiEncoding", "MacRomanEncoding", "StandardEncoding", "PDFDocEncoding"}
	used := map[string]bool{}
	sigOf := map[string]int{}
	noRefs := func(ref core.IndirectRef) (core.Object, error) { return nil, fmt.Errorf("no refs") }
	for i, nm := range names {
		var b, e string
		for {
			b, e = hx.Pick(r, bases[:1+r.Intn(len(bases))]), hx.Pick(r, encs)
			if !used[b+e] {
				used[b+e] = true
				break
			}
		}
		k.Names[i] = nm
		d := core.Dict{"Type": core.Name("Font"), "Subtype": core.Name("Type1"), "BaseFont": core.Name(b), "Encoding": core.Name(e)}
		fonts[nm] = d
		if t1, err := font.NewType1Font(d, noRefs); err == nil {
			sigOf[signature(t1.Font)] = i + 1 // what this entry is when parsed on its own
		}
	}
	res := core.Dict{"Font": fonts}
	keys := map[string]bool{}
	for _, nm := range names {
		keys[nm] = true
		keys["/"+nm] = true
	}
	ks := hx.SortedKeys(keys)
	results := map[string]int{}
	var first string
	c.Guard("C03/fonts", k, 10, func() {
		for rep := 0; rep < 24; rep++ {
			e := text.NewExtractor()
			e.RegisterFontsFromResources(res, noRefs)
			got := e.GetFonts()
			var out []string
			for _, key := range ks {
				if f, ok := got[key]; ok && f != nil {
					if i, known := sigOf[signature(f)]; known {
						out = append(out, fmt.Sprint(i))
					} else {
						out = append(out, "?"+signature(f))
					}
				} else {
					out = append(out, "-")
				}
			}
			s := strings.Join(out, ",")
			if rep == 0 {
				first = s
			}
			results[s]++
		}
	})
	aliasing := false
	for _, a := range names {
		for _, b := range names {
			if a != b && (a == "/"+b) {
				aliasing = true
			}
		}
	}
	c.Check("C03/font-registration-order-dependent", len(results) == 1, k, func() string {
		return fmt.Sprintf("24 registrations of the same font dictionary %v gave %d different font maps: %v", names, len(results), results)
	})
	// every name must be bound to the font its own dictionary entry describes
	for i, nm := range names {
		pos := sort.SearchStrings(ks, nm)
		for variant, cnt := range results {
			parts := strings.Split(variant, ",")
			c.Check("C03/font-bound-to-wrong-entry", pos < len(parts) && parts[pos] == fmt.Sprint(i+1), k, func() string {
				return fmt.Sprintf("font dictionary %v: name %q is bound to entry %s, its own entry is %d (%d of 24 registrations)", names, nm, parts[pos], i+1, cnt)
			})
		}
	}
	{
		var es, hk []string
		for i, nm := range names {
			es = append(es, fmt.Sprintf("%s=%d", hx.HexS(nm), i+1))
		}
		for _, key := range ks {
			hk = append(hk, hx.HexS(key))
		}
		c.Op("c03.fonts "+strings.Join(es, ",")+" "+strings.Join(hk, ","), first)
	}
	if aliasing {
		c.Count("fonts-aliasing")
	}
	c.Count("fonts")
	c.Case(fmt.Sprint(names), true)
}

// ---- font metrics must not carry over from one document to the next -----------------

func metricsPDF(base, subtype string, widths string, body string) []byte {
	p := writers.NewPDF("\n")
	e := map[int]writers.XEntry{0: {Type: 0, F2: 65535}}
	e[1] = writers.XEntry{Type: 1, F1: p.Obj(1, 0, "<< /Type /Catalog /Pages 2 0 R >>")}
	e[2] = writers.XEntry{Type: 1, F1: p.Obj(2, 0, "<< /Type /Pages /Kids [3 0 R] /Count 1 >>")}
	e[3] = writers.XEntry{Type: 1, F1: p.Obj(3, 0, "<< /Type /Page /Parent 2 0 R /MediaBox [0 0 612 792] /Resources << /Font << /F1 4 0 R >> >> /Contents 5 0 R >>")}
	e[4] = writers.XEntry{Type: 1, F1: p.Obj(4, 0, fmt.Sprintf("<< /Type /Font /Subtype /%s /BaseFont /%s /Encoding /WinAnsiEncoding%s >>", subtype, base, widths))}
	e[5] = writers.XEntry{Type: 1, F1: p.Stream(5, "", []byte(body), 0)}
	p.XrefTable(e, "/Root 1 0 R /Size 6", -1, " \n")
	return p.Buf.Bytes()
}

// runMetricsHistory: a document that relies on the built-in metrics of a Standard-14 font
// is extracted first on its own, then again after a document that brings its own /Widths
// for the same base font. Must be the first thing the process does with these fonts.
func runMetricsHistory(c *hx.Ctx) {
	for _, base := range []string{"Helvetica", "Times-Roman", "Courier", "Helvetica-Bold"} {
		for _, subtype := range []string{"Type1", "TrueType"} {
			var body strings.Builder
			body.WriteString("BT /F1 12 Tf 72 760 Td ")
			for gap := 18; gap <= 60; gap += 2 {
				fmt.Fprintf(&body, "(Hello) Tj %d 0 Td (World) Tj %d -16 Td ", gap, -gap)
			}
			body.WriteString("ET")
			var w strings.Builder
			w.WriteString(" /FirstChar 32 /LastChar 126 /Widths [")
			for i := 32; i <= 126; i++ {
				w.WriteString(hx.Pick(c.Rng, []string{"60 ", "1900 ", "250 "}))
			}
			w.WriteString("]")
			pb := filepath.Join(c.OutDir, "c03-metrics-b.pdf")
			pa := filepath.Join(c.OutDir, "c03-metrics-a.pdf")
			os.WriteFile(pb, metricsPDF(base, subtype, "", body.String()), 0o644)
			os.WriteFile(pa, metricsPDF(base, subtype, w.String(), "BT /F1 12 Tf 72 700 Td (Some text with its own widths) Tj ET"), 0o644)
			k := map[string]interface{}{"metrics": base, "subtype": subtype}
			var before, after string
			c.Guard("C03/metrics", k, 30, func() {
				before, _, _ = tabula.Open(pb).Text()
				tabula.Open(pa).Text()
				tabula.Open(pa).Fragments()
				after, _, _ = tabula.Open(pb).Text()
			})
			c.Check("C03/after-history-differs", before == after && before != "", k, func() string {
				return fmt.Sprintf("Text() of a %s %s document that relies on the built-in metrics: alone %q, after a document with its own /Widths for the same base font %q", subtype, base, before, after)
			})
			os.Remove(pa)
			os.Remove(pb)
			c.Count("metrics-history")
			c.Case("metrics"+base+subtype, true)
		}
	}
}

// ---- layout heuristics must break ties the same way every time --------------------

// runLayoutTies: pages on which the "most common" left margin, font size and alignment are
// tied between two candidates (so a vote counted in a Go map has no unique winner) are
// extracted repeatedly; every public rendering must be byte-identical each time.
func runLayoutTies(c *hx.Ctx, idx int) {
	r := hx.NewRng(c.Seed ^ 0x71e5).Fork(uint64(idx))
	var body strings.Builder
	body.WriteString("BT\n")
	y := 740
	groups := r.Range(2, 4)
	perGroup := r.Range(1, 3)
	xs := []int{72, 90, 108, 126, 300}
	sizes := []int{10, 12, 14, 18}
	hx.Shuffle(r, xs)
	hx.Shuffle(r, sizes)
	n := 0
	for g := 0; g < groups; g++ {
		for l := 0; l < perGroup; l++ {
			n++
			fmt.Fprintf(&body, "/F1 %d Tf 1 0 0 1 %d %d Tm (Tie%dx%d words on line %d of group %d here) Tj\n", sizes[g%len(sizes)], xs[g%len(xs)], y, idx, n, l+1, g+1)
			y -= 20
			if l == perGroup-1 {
				y -= 24
			}
		}
	}
	body.WriteString("ET")
	path := filepath.Join(c.OutDir, fmt.Sprintf("c03-ties-%d.pdf", idx))
	os.WriteFile(path, metricsPDF("Helvetica", "Type1", "", body.String()), 0o644)
	defer os.Remove(path)
	k := map[string]interface{}{"ties": idx, "seed": c.Seed}
	seen := map[string]map[string]int{}
	add := func(op, v string) {
		if seen[op] == nil {
			seen[op] = map[string]int{}
		}
		seen[op][v]++
	}
	c.Guard("C03/ties", k, 60, func() {
		for rep := 0; rep < 40; rep++ {
			t, _, _ := tabula.Open(path).Text()
			add("Text", t)
			j, _, _ := tabula.Open(path).JoinParagraphs().Text()
			add("JoinParagraphs.Text", j)
			m, _, _ := tabula.Open(path).ToMarkdown()
			add("ToMarkdown", m)
			ps, _ := tabula.Open(path).Paragraphs()
			var sb strings.Builder
			for _, p := range ps {
				fmt.Fprintf(&sb, "[%d|%v|%s]", len(p.Lines), p.Style, p.Text)
			}
			add("Paragraphs", sb.String())
			hs, _ := tabula.Open(path).Headings()
			sb.Reset()
			for _, h := range hs {
				fmt.Fprintf(&sb, "[%d|%s]", h.Level, h.Text)
			}
			add("Headings", sb.String())
			ch, _, err := tabula.Open(path).Chunks()
			if err == nil && ch != nil {
				js, _ := ch.ToJSONL()
				add("Chunks.ToJSONL", js)
			}
		}
	})
	for op, vs := range seen {
		c.Check("C03/repeat-differs", len(vs) == 1, k, func() string {
			var ex []string
			for v, cnt := range vs {
				ex = append(ex, fmt.Sprintf("%dx %q", cnt, truncate(v, 160)))
			}
			sort.Strings(ex)
			return fmt.Sprintf("40 runs of %s on the same page (%d groups of %d lines, tied margins/sizes) gave %d different results: %s", op, groups, perGroup, len(vs), strings.Join(ex, " | "))
		})
	}
	c.Count("layout-ties")
	c.Case(fmt.Sprint("ties", idx), true)
}

// runUndeclaredFont: a page selects (Tf) a font name its resources do not declare while
// declaring two other fonts that decode the shown bytes differently; whatever the library
// does for the undeclared name, it must do the same on every run.
func runUndeclaredFont(c *hx.Ctx, idx int) {
	r := hx.NewRng(c.Seed ^ 0x0fd0).Fork(uint64(idx))
	encs := []string{"WinAnsiEncoding", "MacRomanEncoding", "StandardEncoding", "PDFDocEncoding"}
	hx.Shuffle(r, encs)
	p := writers.NewPDF("\n")
	e := map[int]writers.XEntry{0: {Type: 0, F2: 65535}}
	e[1] = writers.XEntry{Type: 1, F1: p.Obj(1, 0, "<< /Type /Catalog /Pages 2 0 R >>")}
	e[2] = writers.XEntry{Type: 1, F1: p.Obj(2, 0, "<< /Type /Pages /Kids [3 0 R] /Count 1 >>")}
	nf := r.Range(2, 4)
	var fd strings.Builder
	for i := 0; i < nf; i++ {
		fmt.Fprintf(&fd, "/F%d %d 0 R ", i+1, 10+i)
		e[10+i] = writers.XEntry{Type: 1, F1: p.Obj(10+i, 0, fmt.Sprintf("<< /Type /Font /Subtype /Type1 /BaseFont /%s /Encoding /%s >>", hx.Pick(r, []string{"Helvetica", "Times-Roman", "Courier"}), encs[i%len(encs)]))}
	}
	e[3] = writers.XEntry{Type: 1, F1: p.Obj(3, 0, "<< /Type /Page /Parent 2 0 R /MediaBox [0 0 612 792] /Resources << /Font << "+fd.String()+">> >> /Contents 5 0 R >>")}
	body := "BT /F1 12 Tf 72 720 Td (declared \\351\\212) Tj /Fx9 12 Tf 0 -20 Td (caf\\351 \\212\\320\\244 undeclared) Tj ET"
	e[5] = writers.XEntry{Type: 1, F1: p.Stream(5, "", []byte(body), 0)}
	p.XrefTable(e, "/Root 1 0 R /Size 20", -1, " \n")
	path := filepath.Join(c.OutDir, fmt.Sprintf("c03-undeclared-%d.pdf", idx))
	os.WriteFile(path, p.Buf.Bytes(), 0o644)
	defer os.Remove(path)
	k := map[string]interface{}{"undeclared-font": idx, "seed": c.Seed}
	seen := map[string]int{}
	c.Guard("C03/undeclared-font", k, 60, func() {
		for rep := 0; rep < 48; rep++ {
			t, _, _ := tabula.Open(path).Text()
			fr, _, _ := tabula.Open(path).Fragments()
			var sb strings.Builder
			sb.WriteString(t)
			for _, f := range fr {
				sb.WriteString("|" + f.Text)
			}
			seen[sb.String()]++
		}
	})
	c.Check("C03/repeat-differs", len(seen) == 1, k, func() string {
		var ex []string
		for v, cnt := range seen {
			ex = append(ex, fmt.Sprintf("%dx %q", cnt, truncate(v, 120)))
		}
		sort.Strings(ex)
		return fmt.Sprintf("48 extractions of a page that selects an undeclared font beside %d declared ones gave %d different results: %s", nf, len(seen), strings.Join(ex, " | "))
	})
	c.Count("undeclared-font")
	c.Case(fmt.Sprint("undeclared", idx), true)
}

func truncate(s string, n int) string {
	if len(s) > n {
		return s[:n] + "…"
	}
	return s
}

// ---- whole extractions: repeat, history, goroutines ---------------------------------

type docCase struct {
	Seed    uint64   `json:"seed"`
	Index   int      `json:"index"`
	Formats []string `json:"formats"`
	Mode    string   `json:"mode"`
}

// digest runs the observed operations on one file and returns a digest per operation.
func digest(path string) map[string]string {
	out := map[string]string{}
	h := func(s string) string { x := sha256.Sum256([]byte(s)); return fmt.Sprintf("%x", x[:8]) }
	t, _, err := tabula.Open(path).Text()
	out["Text"] = h(t) + errs(err)
	m, _, err := tabula.Open(path).ToMarkdown()
	out["ToMarkdown"] = h(m) + errs(err)
	ch, _, err := tabula.Open(path).Chunks()
	if err == nil && ch != nil {
		j, e1 := ch.ToJSONL()
		cs, e2 := ch.ToCSV()
		out["Chunks.ToJSONL"] = h(j) + errs(e1)
		out["Chunks.ToCSV"] = h(cs) + errs(e2)
	} else {
		out["Chunks.ToJSONL"] = errs(err)
	}
	return out
}

func errs(err error) string {
	if err != nil {
		return "!err"
	}
	return ""
}

func runDocs(c *hx.Ctx, idx int) {
	r := hx.NewRng(c.Seed ^ 0xd0c5).Fork(uint64(idx))
	k := docCase{Seed: c.Seed, Index: idx}
	ndocs := r.Range(2, 6)
	var paths []string
	for i := 0; i < ndocs; i++ {
		f := hx.Pick(r, c20.SevenFormats)
		k.Formats = append(k.Formats, f)
		p := filepath.Join(c.OutDir, fmt.Sprintf("c03-%d-%d%s", idx, i, c20.ExtOf(f)))
		os.WriteFile(p, c20.GenDocument(r, f, fmt.Sprintf("tok%dx%d", idx, i)), 0o644)
		paths = append(paths, p)
	}
	bad := filepath.Join(c.OutDir, fmt.Sprintf("c03-%d-bad.pdf", idx))
	os.WriteFile(bad, []byte("%PDF-1.4\n1 0 obj\n<< /Length 5 >>\nstream\n1 2 3"), 0o644)
	defer func() {
		for _, p := range append(paths, bad) {
			os.Remove(p)
		}
	}()
	base := make([]map[string]string, ndocs)
	k.Mode = "alone"
	if !c.Guard("C03/docs", k, 60, func() {
		for i, p := range paths {
			base[i] = digest(p)
		}
	}) {
		return
	}
	cmp := func(mode string, i int, got map[string]string) {
		for op, want := range base[i] {
			kk := k
			kk.Mode = mode
			c.Check("C03/"+mode+"-differs", got[op] == want, kk, func() string {
				return fmt.Sprintf("%s of document %d (%s) %s: digest %s, alone %s", op, i, k.Formats[i], mode, got[op], want)
			})
		}
	}
	// repeated runs (map iteration order) and after other extractions incl. a failing one
	c.Guard("C03/docs", k, 120, func() {
		for rep := 0; rep < 3; rep++ {
			for i, p := range paths {
				cmp("repeat", i, digest(p))
			}
		}
		order := r.Intn(ndocs)
		tabula.Open(bad).Text()
		contentstream.NewParser([]byte("1 2 3 4 5")).Parse()
		for j := 0; j < ndocs; j++ {
			i := (order + j) % ndocs
			tabula.Open(bad).Fragments()
			cmp("after-history", i, digest(paths[i]))
		}
	})
	// concurrently on g goroutines
	g := r.Range(2, 8)
	var wg sync.WaitGroup
	results := make([]map[string]string, g*2)
	which := make([]int, g*2)
	c.Guard("C03/docs", k, 180, func() {
		for w := 0; w < g*2; w++ {
			which[w] = (w + idx) % ndocs
			wg.Add(1)
			go func(w int) {
				defer wg.Done()
				if w%5 == 4 {
					tabula.Open(bad).Text()
				}
				results[w] = digest(paths[which[w]])
			}(w)
		}
		wg.Wait()
	})
	for w := range results {
		if results[w] != nil {
			cmp("concurrent", which[w], results[w])
		}
	}
	c.Count(fmt.Sprintf("docs=%d goroutines=%d", ndocs, g*2))
	c.Case(fmt.Sprint(k), true)
}

func Run(c *hx.Ctx) {
	c.Rep.Rule = "parser sessions (1-4 operator programs, earlier ones ending mid-operand, plus failing raw inputs) compared with the parse alone; font dictionaries (1-5 names incl. aliasing pairs F and /F) registered 24 times each; 2-6 documents of the seven formats extracted alone, repeatedly, after other and failing extractions, and on 4-16 goroutines at once under the race detector, comparing digests of Text/ToMarkdown/Chunks().ToJSONL()/ToCSV(); 2-5 page PDFs whose pages share one resources dictionary (inherited from a /Pages node or one indirect object) and draw through Form XObjects whose own resources rebind the shared XObject/font names, each page extracted alone on a fresh reader, after 4-9 other page extractions on one caller-owned reader, and inside Open(f).Text(); trees of up to 16 Extractors derived from one base (file name or caller-owned reader) by Pages/PageRange/layout switches, families of siblings derived before any runs, run in arbitrary order, repeatedly and from 3-6 goroutines, each compared with a fresh linear chain of the same calls run alone; 3-8 goroutines each extracting 1-3 documents of their own that the process has not seen before (web pages and EPUB chapters with free-form class/id/role attributes, the seven formats, dense PDF pages) through tabula.Open and the htmldoc/epubdoc readers in every navigation-exclusion mode, the first such case being the first thing the process does, compared with the same documents alone afterwards and with the race detector's log; PDF pages on the thresholds of the line-grouping heuristics (scaling CTMs 1..0.1, baseline pitch 15%-150% of the glyph height, up to 42 distinct baselines, 1-3 columns with coinciding or interleaved baselines drawn column by column, bottom-up, row by row or shuffled, Tm/Td/BT-per-line positioning) with 15 public renderings taken 8 times each; map-order cases (each real function called 4-16 times, all results required equal, and the inputs sent to the model with one arbitrary iteration order): line tolerance on 0-30 fragments with positions and heights in multiples of 0.5 (compressed, threshold, scattered, few baselines), the three layout votes with tied candidates, CSV columns of 0-5 chunks, mergeResources of random page/form resources, /Differences with unknown glyph names, ordered lists with items on levels 0-5, EPUB manifests with 0-3 navigation documents / NCX files, pages with 0-6 XObjects (images, forms, broken images), 3-6 pages with 1-4 repeating header texts of equal or different confidence, one page through parse + fonts + tolerance + votes under a forward or a backward runtime; process cases: 1-3 documents (PDFs of 2-6 pages with messy pages, a broken PDF, the six other formats; Open and FromReader bases), per family 3-9 calls (configuration methods incl. sibling page selections from a parent with spare slice capacity, inverted ranges, out-of-range pages; Text/Fragments/Document, PageCount, Close) interleaved at random, every terminal answer also compared with the same chain built afresh and with the family run on a goroutine of its own; look-up histories with ClearCache on one reader; PDF 1.5 files of 2-4 pages written in 2-4 revisions (cross-reference streams chained by /Prev, fonts / page and resource dictionaries / integers on their own or inside 1-2 object streams per revision, later revisions replacing, freeing and adding objects so that superseded versions stay behind in object streams beside current ones): GetObject histories of 3-12 look-ups with ClearCache on one reader compared with a reader per look-up and with the last version written, IsCharacterLevel/IsMultiColumn/PageCount before the terminal call on one Extractor, 3-6 page selections on one caller-owned reader and the whole document, each compared with the page alone on a fresh Open, the content and object streams of these files plain or Flate-compressed with the absence of a predictor spelled in nine ways (no /DecodeParms, /Predictor 1 alone or with /Columns etc., an empty dictionary, null, one-element arrays), and between the look-ups 0-2 decodes of a content stream fetched through the same reader or whole extractions of the file through another reader; PDFs of 3-7 pages with 1-4 running header/footer lines (constant or around the page number, from page one or two) over 2-5 body lines of their own, drawn top-down, body first or shuffled: 3-8 extractions on one caller-owned reader (no option, ExcludeHeaders/Footers/HeadersAndFooters, JoinParagraphs, page selections; Text/ToMarkdown/Fragments; the Extractor of the step before run again), each compared with the same chain alone on a fresh Open, repeats with each other, and plain Text() with every line the harness wrote on the selected pages; PDFs of 2-5 pages in a page tree of 1-2 levels that open but carry one fault behind the catalog (four in five: a kid listed twice / shared between parents / leading back to an ancestor / an integer, array, null or missing object, a node without /Type or of another type, /Kids missing or not an array, /Count not an integer, a catalog without /Pages, a page whose contents are an integer, missing, not inflatable or end mid-operand, whose resources or font are an integer): 2-5 calls (PageCount, IsCharacterLevel, IsMultiColumn, Text, Fragments, ToMarkdown) on one Extractor with or without a page selection and 3-6 steps on one caller-owned reader (FromReader extractions and counts, Reader.PageCount, GetPage+ExtractText), each answer (value, error or not) compared with the same call alone on a fresh Open / reader; sectioned web pages and EPUB chapters (optional preface, 1-4 sections h1-h4 with 0-3 paragraphs, lists, tables, quotations), free-form web pages and the seven formats: 4-9 reads (exports in five shapes, Markdown renderings with four option sets, filters followed by a rendering or export, per-chunk renderings, statistics; exact repetitions) on ONE collection returned by Chunks(), each compared with the same read on a fresh collection, repeated reads with each other, and encoding/json of the chunks before and after every read; 3-6 reads (chunking with two configurations, text, outline, statistics, reading order) on one Document(); ResolveDeep on 2-5 mutually referring dictionaries; non-trivial = session with at least one operation / every font and document case / a page list processed / at least two candidates"
	runFresh(c, 0, true) // cold start: the very first extractions of the process run concurrently (no PDF: see next line)
	runMetricsHistory(c) // first: nothing may have touched the font tables yet
	for i := 1; i < c.N(12, 200); i++ {
		runFresh(c, i, false)
	}
	for i := 0; i < c.N(1500, 40000); i++ {
		runSession(c, i)
	}
	for i := 0; i < c.N(300, 5000); i++ {
		runFonts(c, i)
	}
	for i := 0; i < c.N(25, 400); i++ {
		runDocs(c, i)
	}
	for i := 0; i < c.N(12, 150); i++ {
		runLayoutTies(c, i)
	}
	for i := 0; i < c.N(10, 150); i++ {
		runUndeclaredFont(c, i)
	}
	for i := 0; i < c.N(60, 1200); i++ {
		runForms(c, i)
	}
	for i := 0; i < c.N(60, 1200); i++ {
		runDerive(c, i)
	}
	for i := 0; i < c.N(24, 400); i++ {
		runDense(c, i)
	}
	for i := 0; i < c.N(60, 1500); i++ {
		runRevisions(c, i)
	}
	for i := 0; i < c.N(80, 2000); i++ {
		runLazy(c, i)
	}
	for i := 0; i < c.N(60, 1200); i++ {
		runRunning(c, i)
	}
	for i := 0; i < c.N(80, 2000); i++ {
		runCollection(c, i)
	}
	runOrder(c)
}

func Replay(c *hx.Ctx, m map[string]interface{}) {
	if kind, _ := m["kind"].(string); kind != "" {
		idx, _ := m["index"].(float64)
		switch kind {
		case "forms":
			runForms(c, int(idx))
		case "derive":
			runDerive(c, int(idx))
		case "dense":
			runDense(c, int(idx))
		case "revisions":
			runRevisions(c, int(idx))
		case "lazy":
			runLazy(c, int(idx))
		case "running":
			runRunning(c, int(idx))
		case "collection":
			runCollection(c, int(idx))
		case "fresh":
			cold, _ := m["cold"].(bool)
			if raceLog() == "" {
				c.Note("the race oracle needs the -race build of the harness with GORACE=log_path=...; only the byte comparison is replayed")
			}
			runFresh(c, int(idx), cold)
		default:
			replayOrder(c, kind, int(idx))
		}
		return
	}
	if idx, ok := m["index"].(float64); ok {
		runDocs(c, int(idx))
		return
	}
	c.Note("session/font cases replay from (seed, index) of the run; see the case for the programs / names")
	for i := 0; i < 1500; i++ {
		runSession(c, i)
	}
	for i := 0; i < 300; i++ {
		runFonts(c, i)
	}
}
