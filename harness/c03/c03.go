// Package c03 is the correspondence/oracle harness for property C03.
package c03

import "verifharness/hx"

func init() { hx.Register("C03", Run, Replay) }

// Run is not built yet for this property.
func Run(c *hx.Ctx) { c.Note("C03: harness not built") }

func Replay(c *hx.Ctx, kase map[string]interface{}) {}
