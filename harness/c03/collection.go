package c03

// What an extraction returns is a value: reading it does not change it.
//
// The property: "repeating any operation gives byte-identical text, markdown, chunks and
// exports", "the result ... depends only on the document bytes and the options". The exports
// and renderings of Chunks() are methods of the collection the call returned, so the
// operations that are repeated are calls on ONE collection, in any order: ToJSONL, ToCSV,
// ToJSON, ToTSV, an Exporter with another configuration, ToMarkdown with four sets of options,
// ToMarkdownChunks, the filters (with lists / with tables / element type / section / minimum
// size / key word) followed by a rendering or an export (a filtered collection holds the SAME
// chunks), the per-chunk renderings (ToMarkdown, ToMarkdownWithOptions, ToEmbeddingFormat,
// Summary, GenerateContextText), the statistics. A history of 4-9 such calls, with exact
// repetitions, on one collection:
//
//   - every answer is compared with the same call on a collection that a fresh Open(f).Chunks()
//     returned and nothing has read yet;
//   - the same call made twice in the history must give the same bytes;
//   - the public fields of all chunks, marshalled by encoding/json (not by tabula's exporter),
//     are compared before the history and after every call.
//
// The same for the *model.Document of Open(f).Document(): chunking it (twice, with two
// configurations), its text, outline, headings and statistics, in any order, each compared with
// the same call on a fresh Document().
//
// Documents: sectioned web pages and EPUB chapters written here (a title, optional text before
// the first heading, 1-4 sections whose headings h1..h4 jump levels freely, each with 0-3
// paragraphs / bullet or numbered lists / tables / quotations), the free-form web pages of
// fresh.go, and the small documents of the seven formats.

import (
	"encoding/json"
	"fmt"
	"os"
	"path/filepath"
	"strings"

	"github.com/tsawler/tabula"
	"github.com/tsawler/tabula/model"
	"github.com/tsawler/tabula/rag"

	"verifharness/c20"
	"verifharness/hx"
	"verifharness/writers"
)

type collCase struct {
	Kind  string `json:"kind"` // "collection"
	Seed  uint64 `json:"seed"`
	Index int    `json:"index"`
	Doc   string `json:"doc"`
	Steps string `json:"steps"`
}

// secGen writes sectioned (X)HTML and remembers what it authored.
type secGen struct {
	r        *hx.Rng
	tag      string
	n        int
	headings []string
	words    []string
	shape    []string
}

func (g *secGen) sentence() string {
	g.n++
	w := fmt.Sprintf("%ss%d", g.tag, g.n)
	g.words = append(g.words, w)
	s := w
	for k := g.r.Range(3, 9); k > 0; k-- {
		s += " " + hx.Pick(g.r, fillWords)
	}
	return s + "."
}

func (g *secGen) para() string {
	var ss []string
	for k := g.r.Range(1, 3); k > 0; k-- {
		ss = append(ss, g.sentence())
	}
	return strings.Join(ss, " ")
}

func (g *secGen) blockOf() string {
	switch g.r.Intn(8) {
	case 0, 1, 2:
		g.shape = append(g.shape, "p")
		return "<p>" + g.para() + "</p>\n"
	case 3, 4:
		el := hx.Pick(g.r, []string{"ul", "ol"})
		g.shape = append(g.shape, el)
		var sb strings.Builder
		sb.WriteString("<" + el + ">")
		for k := g.r.Range(2, 4); k > 0; k-- {
			sb.WriteString("<li>" + g.sentence() + "</li>")
		}
		sb.WriteString("</" + el + ">\n")
		return sb.String()
	case 5, 6:
		g.shape = append(g.shape, "table")
		var sb strings.Builder
		sb.WriteString("<table><tr><th>Name</th><th>Value</th></tr>")
		for k := g.r.Range(1, 3); k > 0; k-- {
			g.n++
			fmt.Fprintf(&sb, "<tr><td>%sc%d</td><td>%d</td></tr>", g.tag, g.n, g.r.Range(1, 999))
		}
		sb.WriteString("</table>\n")
		return sb.String()
	}
	g.shape = append(g.shape, "quote")
	return "<blockquote><p>" + g.sentence() + "</p></blockquote>\n"
}

func (g *secGen) body() string {
	var sb strings.Builder
	if g.r.Chance(1, 3) {
		g.shape = append(g.shape, "preface")
		sb.WriteString("<p>" + g.para() + "</p>\n")
	}
	nsec := g.r.Range(1, 4)
	bodied := g.r.Intn(nsec) // this section has content for sure
	for s := 0; s < nsec; s++ {
		lv := g.r.Range(1, 4)
		g.n++
		h := fmt.Sprintf("%sH%d %s %s", g.tag, g.n, hx.Pick(g.r, fillWords), hx.Pick(g.r, fillWords))
		g.headings = append(g.headings, h)
		g.shape = append(g.shape, fmt.Sprintf("h%d", lv))
		fmt.Fprintf(&sb, "<h%d>%s</h%d>\n", lv, h, lv)
		nb := g.r.Range(0, 3)
		if s == bodied && nb == 0 {
			nb = 1
		}
		for ; nb > 0; nb-- {
			sb.WriteString(g.blockOf())
		}
	}
	return sb.String()
}

// genCollectionDoc returns the file, its extension, a description, and authored section
// titles / words to ask for.
func genCollectionDoc(r *hx.Rng, tag string) (data []byte, ext, desc string, headings, kw []string) {
	kind := hx.Pick(r, []string{"sectioned-html", "sectioned-html", "sectioned-html", "sectioned-html", "sectioned-epub", "sectioned-epub",
		"web-html", "web-epub", c20.FHTML, c20.FEPUB, c20.FDOCX, c20.FODT, c20.FXLSX, c20.FPPTX, c20.FPDF, "dense-pdf"})
	switch kind {
	case "sectioned-html":
		g := &secGen{r: r, tag: tag}
		b := g.body()
		head := hx.Pick(r, []string{"<!DOCTYPE html>\n<html lang=\"en\">\n", "<html>\n"})
		return []byte(head + "<head><meta charset=\"utf-8\"><title>Guide " + tag + "</title></head>\n<body>\n" + b + "</body>\n</html>\n"),
			".html", kind + " [" + strings.Join(g.shape, " ") + "]", g.headings, g.words
	case "sectioned-epub":
		e := &c20.Epub{Version: hx.Pick(r, []int{2, 3}), Base: hx.Pick(r, []string{"OEBPS/", ""}), Token: tag}
		var shape []string
		for i, n := 0, r.Range(1, 2); i < n; i++ {
			g := &secGen{r: r, tag: fmt.Sprintf("%sc%d", tag, i+1)}
			b := g.body()
			headings = append(headings, g.headings...)
			kw = append(kw, g.words...)
			shape = append(shape, "ch["+strings.Join(g.shape, " ")+"]")
			e.Items = append(e.Items, c20.EItem{ID: fmt.Sprintf("c%d", i+1), Path: fmt.Sprintf("ch%d.xhtml", i+1), MediaType: "application/xhtml+xml", Spine: true,
				Data: []byte(`<?xml version="1.0" encoding="UTF-8"?>` + "\n" + `<html xmlns="http://www.w3.org/1999/xhtml"><head><title>Chapter ` + fmt.Sprint(i+1) + `</title></head><body>` + "\n" + b + `</body></html>`)})
		}
		e.Items = append(e.Items, c20.EItem{ID: "ncx", Path: "toc.ncx", MediaType: "application/x-dtbncx+xml",
			Data: []byte(`<?xml version="1.0" encoding="UTF-8"?>` + "\n" + `<ncx xmlns="http://www.daisy.org/z3986/2005/ncx/" version="2005-1"><head><meta name="dtb:uid" content="urn:uuid:` + tag + `"/></head><docTitle><text>T</text></docTitle><navMap><navPoint id="n1" playOrder="1"><navLabel><text>Start</text></navLabel><content src="ch1.xhtml"/></navPoint></navMap></ncx>`)})
		return writers.Zip(e.Members(nil)), ".epub", kind + " " + strings.Join(shape, ""), headings, kw
	}
	data, ext = genFresh(r, kind, tag)
	return data, ext, kind, []string{"Heading"}, []string{tag, "paragraph"}
}

// collObs is one read of a collection.
type collObs struct {
	name string
	f    func(cc *rag.ChunkCollection) string
}

func strErr(s string, err error) string { return s + errs(err) }

func mdOptsOf(i int) (string, rag.MarkdownOptions) {
	switch i % 4 {
	case 0:
		return "RAGOptimizedMarkdownOptions()", rag.RAGOptimizedMarkdownOptions()
	case 1:
		o := rag.DefaultMarkdownOptions()
		o.HeadingLevelOffset = 1
		o.IncludeTableOfContents = true
		return "{HeadingLevelOffset:1,IncludeTableOfContents}", o
	case 2:
		o := rag.DefaultMarkdownOptions()
		o.HeadingLevelOffset = -1
		o.MaxHeadingLevel = 3
		o.IncludePageNumbers = true
		return "{HeadingLevelOffset:-1,MaxHeadingLevel:3,IncludePageNumbers}", o
	}
	o := rag.DefaultMarkdownOptions()
	o.IncludeChunkSeparators = true
	o.IncludeChunkIDs = true
	return "{IncludeChunkSeparators,IncludeChunkIDs}", o
}

// genCollObs draws one read. Chunk positions are taken modulo the length of the collection it
// is applied to, sections and key words are the ones the harness wrote into the document.
func genCollObs(r *hx.Rng, headings, kw []string) collObs {
	render := func(r *hx.Rng) (string, func(cc *rag.ChunkCollection) string) {
		switch r.Intn(6) {
		case 0:
			return "ToMarkdown()", func(cc *rag.ChunkCollection) string { return cc.ToMarkdown() }
		case 1:
			return "ToMarkdownChunks()", func(cc *rag.ChunkCollection) string { return strings.Join(cc.ToMarkdownChunks(), "\x1e") }
		case 2:
			n, o := mdOptsOf(r.Intn(4))
			return "ToMarkdownWithOptions(" + n + ")", func(cc *rag.ChunkCollection) string { return cc.ToMarkdownWithOptions(o) }
		case 3:
			n, o := mdOptsOf(r.Intn(4))
			return "ToMarkdownChunksWithOptions(" + n + ")", func(cc *rag.ChunkCollection) string {
				return strings.Join(cc.ToMarkdownChunksWithOptions(o), "\x1e")
			}
		case 4:
			return "ToJSONL()", func(cc *rag.ChunkCollection) string { return strErr(cc.ToJSONL()) }
		}
		return "ToCSV()", func(cc *rag.ChunkCollection) string { return strErr(cc.ToCSV()) }
	}
	switch r.Intn(12) {
	case 0:
		return collObs{"ToJSONL()", func(cc *rag.ChunkCollection) string { return strErr(cc.ToJSONL()) }}
	case 1:
		return collObs{"ToCSV()", func(cc *rag.ChunkCollection) string { return strErr(cc.ToCSV()) }}
	case 2:
		if r.Bool() {
			return collObs{"ToJSON()", func(cc *rag.ChunkCollection) string { return strErr(cc.ToJSON()) }}
		}
		return collObs{"ToTSV()", func(cc *rag.ChunkCollection) string { return strErr(cc.ToTSV()) }}
	case 3:
		return collObs{"NewExporterWithConfig(VectorDBExportConfig()).ExportToString(cc.Chunks)", func(cc *rag.ChunkCollection) string {
			return strErr(rag.NewExporterWithConfig(rag.VectorDBExportConfig()).ExportToString(cc.Chunks))
		}}
	case 4, 5:
		n, f := render(r)
		return collObs{n, f}
	case 6, 7:
		// a filter, then a rendering or an export of what it kept
		n, f := render(r)
		var fn string
		var flt func(cc *rag.ChunkCollection) *rag.ChunkCollection
		switch r.Intn(6) {
		case 0:
			fn, flt = "FilterWithLists()", func(cc *rag.ChunkCollection) *rag.ChunkCollection { return cc.FilterWithLists() }
		case 1:
			fn, flt = "FilterWithTables()", func(cc *rag.ChunkCollection) *rag.ChunkCollection { return cc.FilterWithTables() }
		case 2:
			et := hx.Pick(r, []string{"paragraph", "list", "table", "heading"})
			fn, flt = fmt.Sprintf("FilterByElementType(%q)", et), func(cc *rag.ChunkCollection) *rag.ChunkCollection { return cc.FilterByElementType(et) }
		case 3:
			h := hx.Pick(r, headings)
			fn, flt = fmt.Sprintf("FilterBySection(%q)", h), func(cc *rag.ChunkCollection) *rag.ChunkCollection { return cc.FilterBySection(h) }
		case 4:
			m := r.Range(1, 12)
			fn, flt = fmt.Sprintf("FilterByMinTokens(%d)", m), func(cc *rag.ChunkCollection) *rag.ChunkCollection { return cc.FilterByMinTokens(m) }
		default:
			w := hx.Pick(r, kw)
			fn, flt = fmt.Sprintf("Search(%q)", w), func(cc *rag.ChunkCollection) *rag.ChunkCollection { return cc.Search(w) }
		}
		return collObs{fn + "." + n, func(cc *rag.ChunkCollection) string {
			sub := flt(cc)
			if sub == nil {
				return "nil collection"
			}
			return f(sub)
		}}
	case 8, 9:
		// one chunk rendered on its own
		pos := r.Intn(64)
		at := func(cc *rag.ChunkCollection) *rag.Chunk {
			if len(cc.Chunks) == 0 {
				return nil
			}
			return cc.Chunks[pos%len(cc.Chunks)]
		}
		var mn string
		var m func(ch *rag.Chunk) string
		switch r.Intn(5) {
		case 0:
			mn, m = "ToMarkdown()", func(ch *rag.Chunk) string { return ch.ToMarkdown() }
		case 1:
			n, o := mdOptsOf(r.Intn(4))
			mn, m = "ToMarkdownWithOptions("+n+")", func(ch *rag.Chunk) string { return ch.ToMarkdownWithOptions(o) }
		case 2:
			mn, m = "ToEmbeddingFormat()", func(ch *rag.Chunk) string { return ch.ToEmbeddingFormat() }
		case 3:
			mn, m = "Summary()", func(ch *rag.Chunk) string { return ch.Summary() }
		default:
			cfg := rag.MetadataConfig{ContextFormat: rag.ContextFormatMarkdown, IncludeDocumentTitle: true, IncludePageNumbers: true, IncludeSectionPath: r.Bool()}
			mn, m = fmt.Sprintf("GenerateContextText(markdown,title,pages,path=%v)", cfg.IncludeSectionPath), func(ch *rag.Chunk) string { return ch.GenerateContextText(cfg) }
		}
		return collObs{fmt.Sprintf("Chunks[%d mod len].%s", pos, mn), func(cc *rag.ChunkCollection) string {
			ch := at(cc)
			if ch == nil {
				return "no chunk"
			}
			return m(ch)
		}}
	case 10:
		return collObs{"Statistics()+GetAllSections()", func(cc *rag.ChunkCollection) string {
			return fmt.Sprintf("%+v %q", cc.Statistics(), cc.GetAllSections())
		}}
	}
	return collObs{"every chunk: ToMarkdown()", func(cc *rag.ChunkCollection) string {
		var sb strings.Builder
		for _, ch := range cc.Chunks {
			sb.WriteString(ch.ToMarkdown() + "\x1e")
		}
		return sb.String()
	}}
}

// snapshot: the public fields of every chunk, as encoding/json sees them.
func snapshot(cc *rag.ChunkCollection) string {
	b, err := json.Marshal(cc.Chunks)
	if err != nil {
		return "marshal!err"
	}
	return string(b)
}

// docObs is one read of a *model.Document.
type docObs struct {
	name string
	f    func(d *model.Document) string
}

var docReads = []docObs{
	{"rag.ChunkDocument(doc).ToJSONL()", func(d *model.Document) string { return strErr(rag.ChunkDocument(d).ToJSONL()) }},
	{"rag.ChunkDocument(doc).ToMarkdown()", func(d *model.Document) string { return rag.ChunkDocument(d).ToMarkdown() }},
	{"rag.ChunkDocument(doc).ToMarkdownChunks()", func(d *model.Document) string {
		return strings.Join(rag.ChunkDocument(d).ToMarkdownChunks(), "\x1e")
	}},
	{"rag.ChunkDocumentWithConfig(doc, target 120 / max 240).ToCSV()", func(d *model.Document) string {
		cfg := rag.DefaultChunkerConfig()
		cfg.TargetChunkSize, cfg.MaxChunkSize, cfg.MinChunkSize, cfg.OverlapSize = 120, 240, 20, 30
		return strErr(rag.ChunkDocumentWithConfig(d, cfg, rag.DefaultSizeConfig()).ToCSV())
	}},
	{"doc.ExtractText()", func(d *model.Document) string { return d.ExtractText() }},
	{"doc.TableOfContents()+AllHeadings()", func(d *model.Document) string {
		var sb strings.Builder
		for _, e := range d.TableOfContents() {
			fmt.Fprintf(&sb, "[%d|%s|p%d]", e.Level, e.Text, e.Page)
		}
		for _, h := range d.AllHeadings() {
			fmt.Fprintf(&sb, "<%d|%s>", h.Level, h.Text)
		}
		return sb.String()
	}},
	{"doc.LayoutStats()+len(ExtractTables())+len(AllLists())", func(d *model.Document) string {
		return fmt.Sprintf("%+v %d %d", d.LayoutStats(), len(d.ExtractTables()), len(d.AllLists()))
	}},
	{"reading order of every page", func(d *model.Document) string {
		var sb strings.Builder
		for _, p := range d.Pages {
			for _, e := range p.ElementsInReadingOrder() {
				if te, ok := e.(model.TextElement); ok {
					sb.WriteString(te.GetText() + "\x1e")
				} else {
					fmt.Fprintf(&sb, "%T\x1e", e)
				}
			}
		}
		return sb.String()
	}},
}

func runCollection(c *hx.Ctx, idx int) {
	r := hx.NewRng(c.Seed ^ 0xc011ec).Fork(uint64(idx))
	tag := fmt.Sprintf("k%d", idx)
	data, ext, desc, headings, kw := genCollectionDoc(r, tag)
	kw = append(kw, tag, "Value") // a document of tables only has no sentence to look for
	path := filepath.Join(c.OutDir, fmt.Sprintf("c03-collection-%d%s", idx, ext))
	os.WriteFile(path, data, 0o644)
	defer os.Remove(path)
	k := collCase{Kind: "collection", Seed: c.Seed, Index: idx, Doc: desc}
	show := func() string {
		if ext == ".html" {
			return fmt.Sprintf("%s %q", desc, truncate(string(data), 1500))
		}
		return desc
	}

	// ---- one collection -------------------------------------------------------------------
	steps := make([]collObs, r.Range(4, 9))
	var sdesc []string
	for i := range steps {
		steps[i] = genCollObs(r, headings, kw)
		if i > 0 && r.Chance(1, 3) {
			steps[i] = steps[r.Intn(i)] // an exact repetition
		}
		sdesc = append(sdesc, steps[i].name)
	}
	k.Steps = "cc := Open(f).Chunks(); cc." + strings.Join(sdesc, "; cc.")
	got := make([]string, len(steps))
	snaps := make([]string, len(steps))
	alone := map[string]string{}
	var snap0 string
	nchunks := -1
	c.Guard("C03/collection", k, 60, func() {
		cc, _, err := tabula.Open(path).Chunks()
		if err != nil || cc == nil {
			return
		}
		nchunks = len(cc.Chunks)
		snap0 = snapshot(cc)
		for i, s := range steps {
			got[i] = s.f(cc)
			snaps[i] = snapshot(cc)
		}
		for _, s := range steps {
			if _, ok := alone[s.name]; ok {
				continue
			}
			fresh, _, err := tabula.Open(path).Chunks()
			if err != nil || fresh == nil {
				alone[s.name] = "Chunks()!err"
				continue
			}
			alone[s.name] = s.f(fresh)
		}
	})
	if nchunks >= 0 {
		first := map[string]int{}
		changed := false
		for i, s := range steps {
			i, s := i, s
			c.Check("C03/collection-answer-depends-on-history", got[i] == alone[s.name], k, func() string {
				return fmt.Sprintf("document %s: in %s, call %d (cc.%s) returned %q; the same call on a collection fresh from Open(f).Chunks() returns %q (%s)",
					show(), k.Steps, i+1, s.name, truncate(got[i], 400), truncate(alone[s.name], 400), firstDiff(got[i], alone[s.name]))
			})
			if j, ok := first[s.name]; ok {
				c.Check("C03/collection-repeat-differs", got[i] == got[j], k, func() string {
					return fmt.Sprintf("document %s: in %s, cc.%s returned %q as call %d and %q as call %d (%s)",
						show(), k.Steps, s.name, truncate(got[j], 400), j+1, truncate(got[i], 400), i+1, firstDiff(got[j], got[i]))
				})
			} else {
				first[s.name] = i
			}
			if !changed {
				before := snap0
				if i > 0 {
					before = snaps[i-1]
				}
				changed = snaps[i] != before
				c.Check("C03/collection-changed-by-read", !changed, k, func() string {
					return fmt.Sprintf("document %s: in %s, call %d (cc.%s) changed the chunks of the collection it read: encoding/json of cc.Chunks before %q, after %q (%s)",
						show(), k.Steps, i+1, s.name, truncate(before, 400), truncate(snaps[i], 400), firstDiff(before, snaps[i]))
				})
			}
		}
	}

	// ---- one Document ---------------------------------------------------------------------
	dsteps := make([]docObs, r.Range(3, 6))
	var ddesc []string
	for i := range dsteps {
		dsteps[i] = hx.Pick(r, docReads)
		if i > 0 && r.Chance(1, 3) {
			dsteps[i] = dsteps[r.Intn(i)]
		}
		ddesc = append(ddesc, dsteps[i].name)
	}
	kd := k
	kd.Steps = "doc := Open(f).Document(); " + strings.Join(ddesc, "; ")
	dgot := make([]string, len(dsteps))
	dalone := map[string]string{}
	haveDoc := false
	c.Guard("C03/collection", kd, 60, func() {
		doc, _, err := tabula.Open(path).Document()
		if err != nil || doc == nil {
			return
		}
		haveDoc = true
		for i, s := range dsteps {
			dgot[i] = s.f(doc)
		}
		for _, s := range dsteps {
			if _, ok := dalone[s.name]; ok {
				continue
			}
			fresh, _, err := tabula.Open(path).Document()
			if err != nil || fresh == nil {
				dalone[s.name] = "Document()!err"
				continue
			}
			dalone[s.name] = s.f(fresh)
		}
	})
	if haveDoc {
		for i, s := range dsteps {
			i, s := i, s
			c.Check("C03/document-answer-depends-on-history", dgot[i] == dalone[s.name], kd, func() string {
				return fmt.Sprintf("document %s: in %s, call %d (%s) returned %q; the same call on a fresh Open(f).Document() returns %q (%s)",
					show(), kd.Steps, i+1, s.name, truncate(dgot[i], 400), truncate(dalone[s.name], 400), firstDiff(dgot[i], dalone[s.name]))
			})
		}
	}

	kind := strings.Fields(desc)[0]
	c.Count("collection-doc " + kind)
	c.Count("collection-doc")
	// non-trivial: a collection of at least two chunks was read
	c.Case("collection"+desc+k.Steps+kd.Steps, nchunks >= 2)
}
