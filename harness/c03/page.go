package c03

// One page through all the mechanisms of C03 at once (Model/Extraction.lean: pageFacts): the
// content-stream parse, the font registration, the line tolerance and the three votes, each by
// the real function, against the model evaluated under the reference runtime or under one that
// ranges over every map backwards.

import (
	"fmt"
	"sort"
	"strconv"
	"strings"

	"github.com/tsawler/tabula/contentstream"
	"github.com/tsawler/tabula/core"
	"github.com/tsawler/tabula/font"
	"github.com/tsawler/tabula/layout"
	"github.com/tsawler/tabula/text"

	"verifharness/hx"
)

func runPage(c *hx.Ctx, idx int) {
	r := hx.NewRng(c.Seed ^ 0x9a6e).Fork(uint64(idx))
	// fonts
	pool := []string{"F1", "F2", "F", "/F", "TT0", "/TT0", "/F1", "R9"}
	hx.Shuffle(r, pool)
	names := append([]string(nil), pool[:r.Range(1, 4)]...)
	sort.Strings(names)
	bases := []string{"Helvetica", "Times-Roman", "Courier"}
	encs := []string{"WinAnsiEncoding", "MacRomanEncoding", "StandardEncoding", "PDFDocEncoding"}
	used := map[string]bool{}
	sigOf := map[string]int{}
	fonts := core.Dict{}
	noRefs := func(ref core.IndirectRef) (core.Object, error) { return nil, fmt.Errorf("no refs") }
	var fw []string
	for i, nm := range names {
		var b, e string
		for {
			b, e = hx.Pick(r, bases), hx.Pick(r, encs)
			if !used[b+e] {
				used[b+e] = true
				break
			}
		}
		d := core.Dict{"Type": core.Name("Font"), "Subtype": core.Name("Type1"), "BaseFont": core.Name(b), "Encoding": core.Name(e)}
		fonts[nm] = d
		if t1, err := font.NewType1Font(d, noRefs); err == nil {
			sigOf[signature(t1.Font)] = i + 1
		}
		fw = append(fw, fmt.Sprintf("%s=%d", hx.HexS(nm), i+1))
	}
	keys := map[string]bool{}
	for _, nm := range names {
		keys[nm] = true
		keys["/"+nm] = true
	}
	ks := hx.SortedKeys(keys)
	var hk []string
	for _, key := range ks {
		hk = append(hk, hx.HexS(key))
	}
	// content stream
	src, tw := genProgram(r, false)
	// fragments (multiples of 0.5, see runTol)
	h := 5 * r.Range(4, 30)
	pitch := 5 * r.Range(1, 40)
	var frags []text.TextFragment
	var frw []string
	total := 0.0
	base := 5 * r.Range(100, 1400)
	for i, n := 0, r.Range(0, 12); i < n; i++ {
		y := base - (i%5)*pitch - (i/5)*5*r.Range(0, 3)
		frags = append(frags, text.TextFragment{Text: "x", X: 72, Y: float64(y) / 10, Width: 10, Height: float64(h) / 10, FontSize: float64(h) / 10})
		frw = append(frw, fmt.Sprintf("%d:%d", y, h))
		total += float64(h) / 10
	}
	// lines, alignments, paragraphs
	var xs []float64
	var xw, aw, pw []string
	var as []layout.LineAlignment
	var sizes []float64
	var nl []int
	mp := []int{r.Range(30, 300), r.Range(30, 300)}
	sp := []int{r.Range(16, 40), r.Range(16, 40)}
	for i, n := 0, r.Range(0, 8); i < n; i++ {
		x := hx.Pick(r, mp)
		xs = append(xs, float64(x))
		xw = append(xw, strconv.Itoa(x))
		a := r.Intn(5)
		as = append(as, layout.LineAlignment(a))
		aw = append(aw, strconv.Itoa(a))
	}
	for i, n := 0, r.Range(0, 5); i < n; i++ {
		s := hx.Pick(r, sp)
		sizes = append(sizes, float64(s)/2)
		nl = append(nl, r.Range(1, 3))
		pw = append(pw, fmt.Sprintf("%d:%d", s, nl[i]))
	}
	rt := hx.Pick(r, []string{"ref", "rev"})
	k := orderCase{"page", c.Seed, idx, strings.Join([]string{joinOrDash(fw, ","), tw, joinOrDash(frw, ","), joinOrDash(xw, ","), joinOrDash(aw, ","), joinOrDash(pw, ",")}, " ")}
	var first string
	var distinct map[string]int
	if !c.Guard("C03/page", k, 30, func() {
		first, distinct = same(4, func() string {
			e := text.NewExtractor()
			e.RegisterFontsFromResources(core.Dict{"Font": fonts}, noRefs)
			got := e.GetFonts()
			var fo []string
			for _, key := range ks {
				if f, ok := got[key]; ok && f != nil {
					if i, known := sigOf[signature(f)]; known {
						fo = append(fo, strconv.Itoa(i))
					} else {
						fo = append(fo, "?")
					}
				} else {
					fo = append(fo, "-")
				}
			}
			ops, err := contentstream.NewParser([]byte(src)).Parse()
			so := showOps(ops)
			if err != nil {
				so = "err"
			}
			size := "-"
			if len(sizes) > 0 {
				size = strconv.Itoa(int(layout.VerifDetectBodyFontSize(sizes, nl) * 2))
			}
			return strings.Join([]string{strings.Join(fo, ","), so,
				tolSymbol(layout.VerifLineTolerance(frags), len(frags), total),
				strconv.Itoa(int(layout.VerifDetectLeftMargin(xs) / 5)),
				strconv.Itoa(int(layout.VerifDetectDominantAlignment(as))), size}, "|")
		})
	}) {
		return
	}
	c.Check("C03/page-facts-repeat-differ", len(distinct) == 1, k, func() string {
		return fmt.Sprintf("4 runs of parse + font registration + line tolerance + the three votes on the same page (%s) gave %s", k.What, showDistinct(distinct))
	})
	c.Op("c03.page "+rt+" "+joinOrDash(fw, ",")+" "+strings.Join(hk, ",")+" "+tw+" "+joinOrDash(frw, ",")+" "+joinOrDash(xw, ",")+" "+joinOrDash(aw, ",")+" "+joinOrDash(pw, ","), first)
	c.Count("page-facts runtime=" + rt)
	c.Case("page"+k.What, len(frags) > 2)
}
