package c03

// runFresh: "an extraction gives the same result whether it runs alone ... or concurrently
// with extractions of other documents on other goroutines" x "all interleavings explored by
// running k extractions of distinct documents on g goroutines under the race detector".
//
// runDocs extracts every document alone FIRST and concurrently afterwards, so anything the
// library remembers about a document (a memo keyed by content, a lazily built table) is
// already in place when the goroutines start and they only ever read it. Here the order is
// the other one: g goroutines each extract documents of their own that nothing in this
// process has seen before - distinct text, distinct class/id values, distinct member names
// - through every public entry point and option (tabula.Open, htmldoc/epubdoc readers with
// each navigation-exclusion mode), and only afterwards is every document extracted alone
// for comparison. The first case runs before anything else in the process (cold start:
// whatever is built on first use is built by several goroutines at once).
//
// Two oracles: (1) byte equality concurrent vs alone; (2) the race detector must not have
// written a report while the goroutines ran - the case names the documents and the
// schedule, the detail quotes the two stacks. (2) needs the -race build that ./check uses
// for this property; in another build it is skipped.

import (
	"bytes"
	"fmt"
	"os"
	"path/filepath"
	"strconv"
	"strings"
	"sync"
	"time"

	"github.com/tsawler/tabula"
	"github.com/tsawler/tabula/epubdoc"
	"github.com/tsawler/tabula/htmldoc"

	"verifharness/c20"
	"verifharness/hx"
	"verifharness/writers"
)

type freshCase struct {
	Kind       string   `json:"kind"` // "fresh"
	Seed       uint64   `json:"seed"`
	Index      int      `json:"index"`
	Cold       bool     `json:"cold"`
	Goroutines int      `json:"goroutines"`
	Start      string   `json:"start"`
	Docs       []string `json:"docs"` // per goroutine: the documents it extracts, in order
}

// ---- a web page with the attributes real pages carry -------------------------------------

// class/id words as they occur on the web (site chrome and content), not taken from tabula
var webWords = []string{
	"nav", "navbar", "menu", "sidebar", "footer", "header", "breadcrumb", "breadcrumbs", "pagination", "social",
	"share", "comments", "related", "widget", "advert", "banner", "cookie-notice", "toc", "masthead", "skip-link",
	"content", "post", "entry", "article-body", "story", "lead", "note", "figure", "caption", "main-text",
	"summary", "quote", "col", "row", "card", "hero",
}

var fillWords = []string{"alpha", "beta", "gamma", "delta", "river", "stone", "paper", "seven", "of", "the", "and", "over"}

type webGen struct {
	r   *hx.Rng
	tag string
	n   int
}

func (g *webGen) uniq() string { g.n++; return fmt.Sprintf("%s-%d", g.tag, g.n) }

// attrs: class and id values; most carry a token no other document has
func (g *webGen) attrs() string {
	var sb strings.Builder
	if g.r.Chance(3, 4) {
		var v string
		switch g.r.Intn(6) {
		case 0:
			v = hx.Pick(g.r, webWords)
		case 1:
			v = hx.Pick(g.r, webWords) + " " + g.uniq()
		case 2:
			v = hx.Pick(g.r, webWords) + "-" + g.uniq()
		case 3:
			v = g.uniq()
		case 4:
			v = g.uniq() + " " + hx.Pick(g.r, webWords) + " " + hx.Pick(g.r, webWords)
		case 5:
			v = "x" + g.uniq() + "-" + hx.Pick(g.r, webWords)
		}
		fmt.Fprintf(&sb, ` class="%s"`, v)
	}
	if g.r.Chance(1, 2) {
		v := "id-" + g.uniq()
		if g.r.Chance(1, 3) {
			v = hx.Pick(g.r, webWords) + "-" + g.uniq()
		}
		fmt.Fprintf(&sb, ` id="%s"`, v)
	}
	return sb.String()
}

func (g *webGen) text() string {
	g.n++
	w := fmt.Sprintf("%sw%d", strings.ReplaceAll(g.tag, "-", ""), g.n)
	for k := g.r.Range(1, 5); k > 0; k-- {
		w += " " + hx.Pick(g.r, fillWords)
	}
	return w
}

func (g *webGen) links(n int) string {
	var sb strings.Builder
	for i := 0; i < n; i++ {
		fmt.Fprintf(&sb, `<a href="/p/%s"%s>%s</a> `, g.uniq(), g.attrs(), g.text())
	}
	return sb.String()
}

func (g *webGen) block(depth int) string {
	r := g.r
	switch r.Intn(12) {
	case 0, 1, 2:
		return fmt.Sprintf("<p%s>%s</p>\n", g.attrs(), g.text())
	case 3:
		var sb strings.Builder
		fmt.Fprintf(&sb, "<div%s>\n", g.attrs())
		for k := r.Range(1, 3); k > 0; k-- {
			if depth < 2 && r.Chance(1, 3) {
				sb.WriteString(g.block(depth + 1))
			} else {
				fmt.Fprintf(&sb, "<p%s>%s</p>\n", g.attrs(), g.text())
			}
		}
		sb.WriteString("</div>\n")
		return sb.String()
	case 4:
		var sb strings.Builder
		fmt.Fprintf(&sb, "<nav%s><ul%s>", g.attrs(), g.attrs())
		for k := r.Range(2, 5); k > 0; k-- {
			fmt.Fprintf(&sb, "<li%s>%s</li>", g.attrs(), g.links(1))
		}
		sb.WriteString("</ul></nav>\n")
		return sb.String()
	case 5:
		el := hx.Pick(r, []string{"header", "footer", "aside", "section", "article", "main"})
		lv := 2 + r.Intn(2)
		return fmt.Sprintf("<%s%s><h%d%s>%s</h%d><p%s>%s</p></%s>\n", el, g.attrs(), lv, g.attrs(), g.text(), lv, g.attrs(), g.text(), el)
	case 6:
		var sb strings.Builder
		el := hx.Pick(r, []string{"ul", "ol"})
		fmt.Fprintf(&sb, "<%s%s>", el, g.attrs())
		for k := r.Range(2, 5); k > 0; k-- {
			fmt.Fprintf(&sb, "<li%s>%s</li>", g.attrs(), g.text())
		}
		fmt.Fprintf(&sb, "</%s>\n", el)
		return sb.String()
	case 7:
		var sb strings.Builder
		fmt.Fprintf(&sb, "<table%s><tr%s><th%s>%s</th><th>%s</th></tr>", g.attrs(), g.attrs(), g.attrs(), g.text(), g.text())
		for k := r.Range(1, 3); k > 0; k-- {
			fmt.Fprintf(&sb, "<tr%s><td%s>%s</td><td%s>%s</td></tr>", g.attrs(), g.attrs(), g.text(), g.attrs(), g.text())
		}
		sb.WriteString("</table>\n")
		return sb.String()
	case 8:
		role := hx.Pick(r, []string{"navigation", "banner", "contentinfo", "complementary", "main", "search", "note"})
		return fmt.Sprintf("<div role=\"%s\"%s>%s</div>\n", role, g.attrs(), g.links(r.Range(1, 4)))
	case 9: // mostly links, little text
		return fmt.Sprintf("<div%s>%s%s</div>\n", g.attrs(), g.links(r.Range(3, 7)), hx.Pick(g.r, fillWords))
	case 10:
		lv := 1 + r.Intn(3)
		return fmt.Sprintf("<h%d%s>%s</h%d>\n", lv, g.attrs(), g.text(), lv)
	default:
		return fmt.Sprintf("<blockquote%s><p%s>%s <em%s>%s</em> <span%s>%s</span></p></blockquote>\n", g.attrs(), g.attrs(), g.text(), g.attrs(), g.text(), g.attrs(), g.text())
	}
}

func (g *webGen) body() string {
	var sb strings.Builder
	for k := g.r.Range(6, 24); k > 0; k-- {
		sb.WriteString(g.block(0))
	}
	return sb.String()
}

func webHTML(r *hx.Rng, tag string) []byte {
	g := &webGen{r: r, tag: tag}
	head := hx.Pick(r, []string{"<!DOCTYPE html>\n<html lang=\"en\">\n", "<!doctype html>\n<html>\n", "<html>\n"})
	return []byte(head + "<head><meta charset=\"utf-8\"><title>Page " + tag + "</title></head>\n<body" + g.attrs() + ">\n" + g.body() + "</body>\n</html>\n")
}

func webXHTML(r *hx.Rng, tag string, title string) []byte {
	g := &webGen{r: r, tag: tag}
	return []byte(`<?xml version="1.0" encoding="UTF-8"?>` + "\n" + `<!DOCTYPE html>` + "\n" +
		`<html xmlns="http://www.w3.org/1999/xhtml"><head><title>` + title + `</title></head><body` + g.attrs() + `><h1` + g.attrs() + `>` + title + `</h1>` + "\n" + g.body() + `</body></html>`)
}

func webEPUB(r *hx.Rng, tag string) []byte {
	e := &c20.Epub{Version: hx.Pick(r, []int{2, 3}), Base: hx.Pick(r, []string{"OEBPS/", "", "EPUB/"}), Token: tag}
	n := r.Range(1, 3)
	for i := 0; i < n; i++ {
		p := fmt.Sprintf("%s-ch%d.xhtml", tag, i+1)
		if r.Chance(1, 3) {
			p = "Text/" + p
		}
		e.Items = append(e.Items, c20.EItem{ID: fmt.Sprintf("c%d", i+1), Path: p, MediaType: "application/xhtml+xml", Spine: true,
			Data: webXHTML(r, fmt.Sprintf("%s-c%d", tag, i+1), fmt.Sprintf("Chapter %d of %s", i+1, tag))})
	}
	if e.Version == 3 {
		e.Items = append(e.Items, c20.EItem{ID: "nav", Path: "nav.xhtml", MediaType: "application/xhtml+xml", Props: "nav",
			Data: []byte(`<?xml version="1.0" encoding="UTF-8"?>` + "\n" + `<html xmlns="http://www.w3.org/1999/xhtml" xmlns:epub="http://www.idpf.org/2007/ops"><head><title>Nav</title></head><body><nav epub:type="toc" id="toc-` + tag + `"><ol><li><a href="` + e.Items[0].Path + `">Start</a></li></ol></nav></body></html>`)})
	}
	e.Items = append(e.Items, c20.EItem{ID: "ncx", Path: "toc.ncx", MediaType: "application/x-dtbncx+xml",
		Data: []byte(`<?xml version="1.0" encoding="UTF-8"?>` + "\n" + `<ncx xmlns="http://www.daisy.org/z3986/2005/ncx/" version="2005-1"><head><meta name="dtb:uid" content="urn:uuid:` + tag + `"/></head><docTitle><text>T</text></docTitle><navMap><navPoint id="n1" playOrder="1"><navLabel><text>Start</text></navLabel><content src="` + e.Items[0].Path + `"/></navPoint></navMap></ncx>`)})
	return writers.Zip(e.Members(nil))
}

// ---- the documents of one case --------------------------------------------------------------

// freshKinds: the web formats carry most of the weight (their extraction looks at free-form
// attribute values), every other format and a dense PDF page take part too.
var freshKinds = []string{"web-html", "web-html", "web-html", "web-html", "web-epub", "web-epub", "web-epub",
	c20.FHTML, c20.FEPUB, c20.FDOCX, c20.FODT, c20.FXLSX, c20.FPPTX, c20.FPDF, "dense-pdf"}

func isPDFKind(k string) bool { return k == c20.FPDF || k == "dense-pdf" }

func genFresh(r *hx.Rng, kind, tag string) (data []byte, ext string) {
	switch kind {
	case "web-html":
		return webHTML(r, tag), ".html"
	case "web-epub":
		return webEPUB(r, tag), ".epub"
	case "dense-pdf":
		body, _, _ := denseContent(r, strings.ReplaceAll(tag, "-", ""))
		return densePDF([]string{body}), ".pdf"
	}
	return c20.GenDocument(r, kind, strings.ReplaceAll(tag, "-", "")), c20.ExtOf(kind)
}

type obs struct{ name, val string }

// observeFresh: every public way of extracting one file; a fresh Extractor/Reader per call.
func observeFresh(path, ext string) []obs {
	var out []obs
	add := func(name, v string, err error) { out = append(out, obs{name, v + errs(err)}) }
	t, _, err := tabula.Open(path).Text()
	add("Open(f).Text", t, err)
	m, _, err := tabula.Open(path).ToMarkdown()
	add("Open(f).ToMarkdown", m, err)
	ch, _, err := tabula.Open(path).Chunks()
	if err == nil && ch != nil {
		j, e1 := ch.ToJSONL()
		add("Open(f).Chunks.ToJSONL", j, e1)
		cs, e2 := ch.ToCSV()
		add("Open(f).Chunks.ToCSV", cs, e2)
	} else {
		add("Open(f).Chunks", "", err)
	}
	if d, _, err := tabula.Open(path).Document(); d != nil {
		add("Open(f).Document.ExtractText", d.ExtractText(), err)
	} else {
		add("Open(f).Document", "nil", err)
	}
	modes := []htmldoc.NavigationExclusionMode{htmldoc.NavigationExclusionNone, htmldoc.NavigationExclusionExplicit,
		htmldoc.NavigationExclusionStandard, htmldoc.NavigationExclusionAggressive}
	switch ext {
	case ".html":
		withReader := func(name string, f func(r *htmldoc.Reader) (string, error)) {
			r, err := htmldoc.Open(path)
			if err != nil {
				add(name, "open", err)
				return
			}
			defer r.Close()
			v, err := f(r)
			add(name, v, err)
		}
		withReader("htmldoc.Text", func(r *htmldoc.Reader) (string, error) { return r.Text() })
		withReader("htmldoc.Markdown", func(r *htmldoc.Reader) (string, error) { return r.Markdown() })
		withReader("htmldoc.Document.ExtractText", func(r *htmldoc.Reader) (string, error) {
			d, err := r.Document()
			if d == nil {
				return "nil", err
			}
			return d.ExtractText(), err
		})
		for _, md := range modes {
			md := md
			withReader(fmt.Sprintf("htmldoc.TextWithOptions(mode=%d)", md), func(r *htmldoc.Reader) (string, error) {
				return r.TextWithOptions(htmldoc.ExtractOptions{NavigationExclusion: md})
			})
			withReader(fmt.Sprintf("htmldoc.MarkdownWithOptions(mode=%d)", md), func(r *htmldoc.Reader) (string, error) {
				return r.MarkdownWithOptions(htmldoc.ExtractOptions{NavigationExclusion: md, IncludeLinks: md%2 == 1})
			})
		}
		// the same bytes from memory
		if b, err := os.ReadFile(path); err == nil {
			if r, err := htmldoc.OpenReader(bytes.NewReader(b)); err == nil {
				v, err := r.Text()
				add("htmldoc.OpenReader.Text", v, err)
			}
		}
	case ".epub":
		withReader := func(name string, f func(r *epubdoc.Reader) (string, error)) {
			r, err := epubdoc.Open(path)
			if err != nil {
				add(name, "open", err)
				return
			}
			defer r.Close()
			v, err := f(r)
			add(name, v, err)
		}
		withReader("epubdoc.Document.ExtractText", func(r *epubdoc.Reader) (string, error) {
			d, err := r.Document()
			if d == nil {
				return "nil", err
			}
			return d.ExtractText(), err
		})
		for _, md := range modes {
			md := md
			withReader(fmt.Sprintf("epubdoc.TextWithOptions(mode=%d)", md), func(r *epubdoc.Reader) (string, error) {
				return r.TextWithOptions(epubdoc.ExtractOptions{NavigationExclusion: int(md)})
			})
			withReader(fmt.Sprintf("epubdoc.MarkdownWithOptions(mode=%d)", md), func(r *epubdoc.Reader) (string, error) {
				return r.MarkdownWithOptions(epubdoc.ExtractOptions{NavigationExclusion: int(md)})
			})
		}
	}
	return out
}

// ---- the race detector's log ---------------------------------------------------------------

// raceLog is the file the race detector of THIS process appends its reports to ("" when the
// binary is not a -race build or GORACE names no log_path).
func raceLog() string {
	for _, f := range strings.Fields(os.Getenv("GORACE")) {
		if strings.HasPrefix(f, "log_path=") {
			return strings.TrimPrefix(f, "log_path=") + "." + strconv.Itoa(os.Getpid())
		}
	}
	return ""
}

func fileSize(p string) int64 {
	if st, err := os.Stat(p); err == nil {
		return st.Size()
	}
	return 0
}

// raceReportsSince returns the number of reports written after offset and a short form of
// the first one: per access, the innermost frames inside tabula.
func raceReportsSince(p string, off int64) (int, string) {
	b, err := os.ReadFile(p)
	if err != nil || int64(len(b)) <= off {
		return 0, ""
	}
	var first string
	n := 0
	for _, blk := range strings.Split(string(b[off:]), "==================") {
		if !strings.Contains(blk, "DATA RACE") {
			continue
		}
		n++
		if first != "" {
			continue
		}
		var parts []string
		frames := 0
		for _, ln := range strings.Split(blk, "\n") {
			t := strings.TrimSpace(ln)
			switch {
			case strings.HasPrefix(t, "Write at"), strings.HasPrefix(t, "Read at"), strings.HasPrefix(t, "Previous write at"), strings.HasPrefix(t, "Previous read at"):
				if i := strings.Index(t, " at 0x"); i >= 0 {
					if j := strings.Index(t, " by "); j > i {
						t = t[:i] + t[j:]
					}
				}
				parts = append(parts, t)
				frames = 0
			case strings.HasPrefix(t, "Goroutine "):
				frames = 99 // creation stacks are not needed
			case strings.HasSuffix(t, "()") && frames < 4 && len(parts) > 0:
				if frames > 0 || strings.Contains(t, "tabula") {
					parts[len(parts)-1] += " " + strings.TrimPrefix(t, "github.com/tsawler/tabula/")
					frames++
				} else if strings.HasPrefix(t, "runtime.") {
					parts[len(parts)-1] += " " + t
				}
			}
		}
		first = strings.Join(parts, " <-> ")
	}
	return n, first
}

// ---- the case ------------------------------------------------------------------------------

func runFresh(c *hx.Ctx, idx int, cold bool) {
	r := hx.NewRng(c.Seed ^ 0xf7e5).Fork(uint64(idx))
	g := r.Range(3, 8)
	k := freshCase{Kind: "fresh", Seed: c.Seed, Index: idx, Cold: cold, Goroutines: g, Start: hx.Pick(r, []string{"together", "together", "staggered"})}
	type doc struct {
		kind, path, ext string
	}
	docs := make([][]doc, g)
	var all []string
	for w := 0; w < g; w++ {
		var names []string
		for j, nd := 0, r.Range(1, 3); j < nd; j++ {
			kind := hx.Pick(r, freshKinds)
			for cold && isPDFKind(kind) { // the cold start leaves the PDF font tables to runMetricsHistory
				kind = hx.Pick(r, freshKinds)
			}
			if (w+j)%3 == 0 && !strings.HasPrefix(kind, "web-") && r.Chance(1, 2) {
				kind = hx.Pick(r, []string{"web-html", "web-epub"})
			}
			tag := fmt.Sprintf("s%dc%dg%dd%d", c.Seed%1000, idx, w, j)
			if cold {
				tag = "cold" + tag
			}
			data, ext := genFresh(r, kind, tag)
			p := filepath.Join(c.OutDir, fmt.Sprintf("c03-fresh-%d-%d-%d%s", idx, w, j, ext))
			os.WriteFile(p, data, 0o644)
			docs[w] = append(docs[w], doc{kind, p, ext})
			all = append(all, p)
			names = append(names, kind)
		}
		k.Docs = append(k.Docs, strings.Join(names, ","))
	}
	defer func() {
		for _, p := range all {
			os.Remove(p)
		}
	}()
	c.Current(k)
	defer os.Remove(filepath.Join(c.OutDir, "current.json"))

	// first: all goroutines at once, every document for the first time in this process
	rlog := raceLog()
	before := fileSize(rlog)
	conc := make([][][]obs, g)
	if !c.Guard("C03/fresh", k, 180, func() {
		var wg sync.WaitGroup
		start := make(chan struct{})
		for w := 0; w < g; w++ {
			conc[w] = make([][]obs, len(docs[w]))
			wg.Add(1)
			go func(w int) {
				defer wg.Done()
				<-start
				if k.Start == "staggered" {
					time.Sleep(time.Duration(w) * 400 * time.Microsecond)
				}
				for j, d := range docs[w] {
					conc[w][j] = observeFresh(d.path, d.ext)
				}
			}(w)
		}
		close(start)
		wg.Wait()
	}) {
		return
	}
	if rlog != "" {
		n, first := raceReportsSince(rlog, before)
		c.Check("C03/race-between-extractions-of-distinct-documents", n == 0, k, func() string {
			return fmt.Sprintf("the race detector wrote %d report(s) while %d goroutines (start: %s) each extracted documents of their own, never extracted before in this process %v; first report: %s",
				n, g, k.Start, k.Docs, first)
		})
	}

	// then: every document alone
	alone := make([][][]obs, g)
	c.Guard("C03/fresh", k, 180, func() {
		for w := range docs {
			alone[w] = make([][]obs, len(docs[w]))
			for j, d := range docs[w] {
				alone[w][j] = observeFresh(d.path, d.ext)
			}
		}
	})
	nontrivial := false
	for w := range docs {
		for j, d := range docs[w] {
			if alone[w] == nil || alone[w][j] == nil || conc[w][j] == nil {
				continue
			}
			for i, a := range alone[w][j] {
				if i >= len(conc[w][j]) {
					break
				}
				a, got, d := a, conc[w][j][i], d
				if a.val != "" && !strings.HasSuffix(a.val, "!err") {
					nontrivial = true
				}
				c.Check("C03/concurrent-first-differs", got.name == a.name && got.val == a.val, k, func() string {
					return fmt.Sprintf("%s of document %d of goroutine %d (%s), extracted for the first time while %d goroutines extracted documents of their own: %s; alone afterwards: %s",
						a.name, j+1, w+1, d.kind, g, firstDiff(got.val, a.val), truncate(words(a.val), 200))
				})
			}
		}
	}
	c.Count(fmt.Sprintf("fresh-concurrent goroutines=%d", g))
	c.Count("fresh-concurrent")
	c.Case(fmt.Sprint("fresh", idx, k.Docs, cold), nontrivial)
}

// firstDiff shows two strings around the first byte at which they differ.
func firstDiff(a, b string) string {
	i := 0
	for i < len(a) && i < len(b) && a[i] == b[i] {
		i++
	}
	from := i - 60
	if from < 0 {
		from = 0
	}
	cut := func(s string) string {
		to := i + 100
		if to > len(s) {
			to = len(s)
		}
		if from > len(s) {
			return ""
		}
		return s[from:to]
	}
	return fmt.Sprintf("differ at byte %d (lengths %d and %d): …%q vs …%q", i, len(a), len(b), cut(a), cut(b))
}
