package c03

// Two further families of histories inside the property's quantifier ("an extraction gives
// the same result whether it runs alone, after any other extractions ..."; "the result
// depends only on the document bytes and the options"):
//
//   - runForms: multi-page PDFs whose pages share ONE resources dictionary (inherited from a
//     /Pages node, or one indirect object named by every page) and draw through Form
//     XObjects that carry resources of their own in which the names of the shared dictionary
//     (/Fm0, /F1 ...) stand for something else. A page is extracted alone on a fresh reader,
//     then again after arbitrary other page extractions on one caller-owned reader, and as
//     part of the whole document.
//   - runDerive: a tree of Extractors derived from one base by option chaining (Pages,
//     PageRange, the layout switches), siblings derived before any of them runs, run in an
//     arbitrary order, repeatedly, and from several goroutines; every node must give what
//     a fresh linear chain with the same options gives on its own.
//
// Nothing here knows what tabula prints for a page: every expectation is "the same bytes as
// the same document + options gave alone".

import (
	"fmt"
	"os"
	"path/filepath"
	"strings"
	"sync"

	"github.com/tsawler/tabula"
	"github.com/tsawler/tabula/reader"

	"verifharness/hx"
	"verifharness/writers"
)

// ---- a small object-level PDF assembler on top of the independent writer -----------------

type pdfObjs struct {
	p *writers.PDF
	e map[int]writers.XEntry
	n int
}

func newPDFObjs() *pdfObjs {
	return &pdfObjs{p: writers.NewPDF("\n"), e: map[int]writers.XEntry{0: {Type: 0, F2: 65535}}, n: 0}
}

func (d *pdfObjs) alloc() int { d.n++; return d.n }

func (d *pdfObjs) obj(num int, body string) {
	d.e[num] = writers.XEntry{Type: 1, F1: d.p.Obj(num, 0, body)}
}

func (d *pdfObjs) stream(num int, dict string, data string) {
	d.e[num] = writers.XEntry{Type: 1, F1: d.p.Stream(num, dict, []byte(data), 0)}
}

func (d *pdfObjs) finish(root int) []byte {
	d.p.XrefTable(d.e, fmt.Sprintf("/Root %d 0 R /Size %d", root, d.n+1), -1, " \n")
	return d.p.Buf.Bytes()
}

// ---- shared resources + shadowing forms ---------------------------------------------------

type formsCase struct {
	Kind  string `json:"kind"` // "forms"
	Seed  uint64 `json:"seed"`
	Index int    `json:"index"`
	Shape string `json:"shape"`
	Steps string `json:"steps"`
}

var (
	formXNames = []string{"Fm0", "Fm1", "Fm2", "X1"}
	formFNames = []string{"F1", "F2"}
	formEncs   = []string{"WinAnsiEncoding", "MacRomanEncoding", "StandardEncoding", "PDFDocEncoding"}
)

// genFormsDoc writes the document and returns (bytes, number of pages, description).
func genFormsDoc(r *hx.Rng, tag string) ([]byte, int, string) {
	d := newPDFObjs()
	catalog, root := d.alloc(), d.alloc()
	npages := r.Range(2, 5)
	nforms := r.Range(2, 5)
	nfonts := r.Range(2, 3)

	// fonts: same base, different encodings, so that the byte \351\212 shows which one was used
	encs := append([]string(nil), formEncs...)
	hx.Shuffle(r, encs)
	fonts := make([]int, nfonts)
	for i := range fonts {
		fonts[i] = d.alloc()
		d.obj(fonts[i], fmt.Sprintf("<< /Type /Font /Subtype /Type1 /BaseFont /%s /Encoding /%s >>",
			hx.Pick(r, []string{"Helvetica", "Times-Roman", "Courier"}), encs[i]))
	}
	forms := make([]int, nforms)
	for i := range forms {
		forms[i] = d.alloc()
	}

	// subDict renders a name->object dictionary either in place or as an indirect object
	subDict := func(names []string, targets []int, indirect bool) string {
		var sb strings.Builder
		sb.WriteString("<< ")
		for i, nm := range names {
			fmt.Fprintf(&sb, "/%s %d 0 R ", nm, targets[i])
		}
		sb.WriteString(">>")
		if indirect {
			n := d.alloc()
			d.obj(n, sb.String())
			return fmt.Sprintf("%d 0 R", n)
		}
		return sb.String()
	}
	// pickMap binds a non-empty subset of the names to targets drawn from pool
	pickMap := func(names []string, pool []int, min int) ([]string, []int) {
		ns := append([]string(nil), names...)
		hx.Shuffle(r, ns)
		k := r.Range(min, len(ns))
		ns = ns[:k]
		ts := make([]int, k)
		for i := range ts {
			ts[i] = hx.Pick(r, pool)
		}
		return ns, ts
	}

	// the shared (page-level) resources: every font name and most XObject names are bound
	directSubs := r.Chance(3, 4) // sub-dictionaries written in place (the usual producer output)
	pfn, pft := pickMap(formFNames, fonts, len(formFNames))
	pxn, pxt := pickMap(formXNames, forms, 2)
	sharedRes := func() string {
		return fmt.Sprintf("<< /Font %s /XObject %s >>", subDict(pfn, pft, !directSubs && r.Bool()), subDict(pxn, pxt, !directSubs && r.Bool()))
	}

	// forms: form i may only invoke forms with a larger index through ITS OWN dictionary, so
	// its own names never loop; names it does not redefine fall through to whatever the
	// surrounding resources say (which may loop: bounded by the library, same every time)
	var shape []string
	for i := range forms {
		own := i < nforms-1 && r.Chance(3, 4)
		var body strings.Builder
		fn := hx.Pick(r, formFNames)
		fmt.Fprintf(&body, "BT /%s 11 Tf 72 %d Td (%sF%d\\351\\212) Tj ET", fn, 640-36*i, tag, i)
		dict := "/Type /XObject /Subtype /Form /BBox [0 0 612 792]"
		if r.Chance(1, 4) {
			dict += fmt.Sprintf(" /Matrix [1 0 0 1 %d 0]", 10*r.Range(1, 20))
		}
		desc := fmt.Sprintf("F%d", i)
		if own {
			later := forms[i+1:]
			xn, xt := pickMap(formXNames, later, 1)
			res := "/XObject " + subDict(xn, xt, r.Chance(1, 4))
			desc += "{X:" + strings.Join(xn, ",")
			if r.Chance(1, 2) {
				f2n, f2t := pickMap(formFNames, fonts, 1)
				res += " /Font " + subDict(f2n, f2t, r.Chance(1, 4))
				desc += " F:" + strings.Join(f2n, ",")
			}
			desc += "}"
			if r.Chance(1, 5) {
				n := d.alloc()
				d.obj(n, "<< "+res+" >>")
				dict += fmt.Sprintf(" /Resources %d 0 R", n)
			} else {
				dict += " /Resources << " + res + " >>"
			}
			// mostly one invocation: names that fall through may loop, and a loop with
			// fan-out 2 is executed 2^depth times before the library's depth limit stops it
			ndo := 1
			if r.Chance(1, 5) {
				ndo = 2
			}
			for ; ndo > 0; ndo-- {
				fmt.Fprintf(&body, " /%s Do", hx.Pick(r, xn))
			}
		} else if i < nforms-1 && r.Chance(1, 3) {
			// no resources of its own: names resolve in the surrounding dictionary
			fmt.Fprintf(&body, " /%s Do", hx.Pick(r, formXNames))
			desc += "{inherit}"
		}
		d.stream(forms[i], dict, body.String())
		shape = append(shape, desc)
	}

	// page tree: where the shared dictionary lives
	mode := r.Intn(4)
	twoLevel := r.Chance(1, 3)
	pagesRes, pageRes := "", ""
	switch mode {
	case 0: // in place on the /Pages node, inherited
		pagesRes = " /Resources " + sharedRes()
	case 1: // indirect object named by the /Pages node
		n := d.alloc()
		d.obj(n, sharedRes())
		pagesRes = fmt.Sprintf(" /Resources %d 0 R", n)
	case 2: // one indirect object named by every page
		n := d.alloc()
		d.obj(n, sharedRes())
		pageRes = fmt.Sprintf(" /Resources %d 0 R", n)
	case 3: // inherited, but one page has a dictionary of its own
		pagesRes = " /Resources " + sharedRes()
	}
	mid := 0
	parent := root
	if twoLevel {
		mid = d.alloc()
		parent = mid
	}
	var kids []string
	var pageDesc []string
	for pg := 0; pg < npages; pg++ {
		page, cont := d.alloc(), d.alloc()
		kids = append(kids, fmt.Sprintf("%d 0 R", page))
		var body strings.Builder
		fmt.Fprintf(&body, "BT /%s 12 Tf 72 740 Td (%sP%d\\351) Tj ET", hx.Pick(r, pfn), tag, pg+1)
		var dos []string
		for k := r.Range(1, 3); k > 0; k-- {
			nm := hx.Pick(r, pxn)
			dos = append(dos, nm)
			fmt.Fprintf(&body, " q /%s Do Q", nm)
		}
		pageDesc = append(pageDesc, strings.Join(dos, "+"))
		d.stream(cont, "", body.String())
		res := pageRes
		if mode == 3 && pg == npages/2 {
			res = " /Resources " + sharedRes()
		}
		d.obj(page, fmt.Sprintf("<< /Type /Page /Parent %d 0 R%s /Contents %d 0 R >>", parent, res, cont))
	}
	if twoLevel {
		d.obj(mid, fmt.Sprintf("<< /Type /Pages /Parent %d 0 R /Kids [%s] /Count %d >>", root, strings.Join(kids, " "), npages))
		d.obj(root, fmt.Sprintf("<< /Type /Pages /Kids [%d 0 R] /Count %d /MediaBox [0 0 612 792]%s >>", mid, npages, pagesRes))
	} else {
		d.obj(root, fmt.Sprintf("<< /Type /Pages /Kids [%s] /Count %d /MediaBox [0 0 612 792]%s >>", strings.Join(kids, " "), npages, pagesRes))
	}
	d.obj(catalog, fmt.Sprintf("<< /Type /Catalog /Pages %d 0 R >>", root))
	desc := fmt.Sprintf("res-mode=%d two-level=%v direct-subdicts=%v page-xobjects=%s page-fonts=%s forms=[%s] pages=[%s]",
		mode, twoLevel, directSubs, strings.Join(pxn, ","), strings.Join(pfn, ","), strings.Join(shape, " "), strings.Join(pageDesc, " | "))
	return d.finish(catalog), npages, desc
}

// pageOps are the observations taken of one page selection.
var pageOps = []string{"Text", "ToMarkdown", "Fragments", "JoinParagraphs.Text"}

func observe(e *tabula.Extractor, op string) string {
	switch op {
	case "Text":
		t, _, err := e.Text()
		return t + errs(err)
	case "ToMarkdown":
		t, _, err := e.ToMarkdown()
		return t + errs(err)
	case "JoinParagraphs.Text":
		t, _, err := e.JoinParagraphs().Text()
		return t + errs(err)
	case "Fragments":
		fr, _, err := e.Fragments()
		var sb strings.Builder
		for _, f := range fr {
			fmt.Fprintf(&sb, "[%s|%s@%d,%d]", f.Text, f.FontName, int(f.X), int(f.Y))
		}
		return sb.String() + errs(err)
	case "PageCount":
		n, err := e.PageCount()
		return fmt.Sprint(n) + errs(err)
	}
	return "?"
}

func words(s string) string { return strings.Join(strings.Fields(s), " ") }

func runForms(c *hx.Ctx, idx int) {
	r := hx.NewRng(c.Seed ^ 0xf0a5).Fork(uint64(idx))
	data, npages, shape := genFormsDoc(r, fmt.Sprintf("d%d", idx))
	path := filepath.Join(c.OutDir, fmt.Sprintf("c03-forms-%d.pdf", idx))
	os.WriteFile(path, data, 0o644)
	defer os.Remove(path)
	k := formsCase{Kind: "forms", Seed: c.Seed, Index: idx, Shape: shape}

	// every page on its own, on a reader nothing else has used
	alone := make([]map[string]string, npages+1)
	if !c.Guard("C03/forms", k, 60, func() {
		for p := 1; p <= npages; p++ {
			alone[p] = map[string]string{}
			for _, op := range pageOps {
				alone[p][op] = observe(tabula.Open(path).Pages(p), op)
			}
		}
	}) {
		return
	}
	nontrivial := false
	for p := 1; p <= npages; p++ {
		if strings.Contains(alone[p]["Text"], fmt.Sprintf("d%dP%d", idx, p)) {
			nontrivial = true
		}
	}

	// the same selections after other extractions on one caller-owned reader
	type step struct {
		page int
		op   string
	}
	nsteps := r.Range(4, 9)
	steps := make([]step, nsteps)
	var sdesc []string
	for i := range steps {
		steps[i] = step{r.Range(1, npages), hx.Pick(r, pageOps)}
		if i > 0 && r.Chance(1, 4) {
			steps[i] = steps[r.Intn(i)] // an exact repetition
		}
		sdesc = append(sdesc, fmt.Sprintf("%d:%s", steps[i].page, steps[i].op))
	}
	k.Steps = strings.Join(sdesc, " ")
	got := make([]string, nsteps)
	opened := false
	c.Guard("C03/forms", k, 60, func() {
		rd, err := reader.Open(path)
		if err != nil {
			return
		}
		defer rd.Close()
		opened = true
		for i, s := range steps {
			got[i] = observe(tabula.FromReader(rd).Pages(s.page), s.op)
		}
	})
	if opened {
		firstSeen := map[step]int{}
		for i, s := range steps {
			i, s := i, s
			c.Check("C03/shared-reader-history-differs", got[i] == alone[s.page][s.op], k, func() string {
				return fmt.Sprintf("FromReader(r).Pages(%d).%s() as step %d of [%s] on one reader gave %q; the same page on a fresh reader gives %q (%s)",
					s.page, s.op, i+1, k.Steps, truncate(words(got[i]), 200), truncate(words(alone[s.page][s.op]), 200), shape)
			})
			if j, ok := firstSeen[s]; ok {
				c.Check("C03/shared-reader-repeat-differs", got[i] == got[j], k, func() string {
					return fmt.Sprintf("FromReader(r).Pages(%d).%s() on one reader gave %q as step %d and %q as step %d of [%s] (%s)",
						s.page, s.op, truncate(words(got[j]), 200), j+1, truncate(words(got[i]), 200), i+1, k.Steps, shape)
				})
			} else {
				firstSeen[s] = i
			}
		}
	}

	// the pages as part of one extraction of the whole document: page p comes after pages 1..p-1
	var full, ranged string
	c.Guard("C03/forms", k, 60, func() {
		full = observe(tabula.Open(path), "Text")
		ranged = observe(tabula.Open(path).PageRange(1, npages), "Text")
	})
	var parts []string
	for p := 1; p <= npages; p++ {
		if w := words(alone[p]["Text"]); w != "" {
			parts = append(parts, w)
		}
	}
	want := strings.Join(parts, " ")
	for name, v := range map[string]string{"Open(f).Text()": full, fmt.Sprintf("Open(f).PageRange(1,%d).Text()", npages): ranged} {
		name, v := name, v
		c.Check("C03/page-in-document-differs", words(v) == want, k, func() string {
			return fmt.Sprintf("%s has the words %q; the pages extracted one by one have %q (%s)", name, truncate(words(v), 300), truncate(want, 300), shape)
		})
	}
	c.Count(fmt.Sprintf("forms-doc res-mode=%c", shape[9]))
	c.Count("forms-doc")
	c.Case("forms"+shape+k.Steps, nontrivial)
}

// ---- derived extractors -------------------------------------------------------------------

type deriveCase struct {
	Kind  string `json:"kind"` // "derive"
	Seed  uint64 `json:"seed"`
	Index int    `json:"index"`
	Base  string `json:"base"`
	Prog  string `json:"prog"`
}

// pagedPDF: n pages, page i says "<tag>PAGE-i" and a second line.
func pagedPDF(n int, tag string) []byte {
	d := newPDFObjs()
	catalog, root, f := d.alloc(), d.alloc(), d.alloc()
	d.obj(f, "<< /Type /Font /Subtype /Type1 /BaseFont /Helvetica /Encoding /WinAnsiEncoding >>")
	var kids []string
	for i := 1; i <= n; i++ {
		page, cont := d.alloc(), d.alloc()
		kids = append(kids, fmt.Sprintf("%d 0 R", page))
		d.stream(cont, "", fmt.Sprintf("BT /F1 12 Tf 72 700 Td (%sPAGE-%d) Tj 0 -18 Td (second line of page %d) Tj ET", tag, i, i))
		d.obj(page, fmt.Sprintf("<< /Type /Page /Parent %d 0 R /Contents %d 0 R >>", root, cont))
	}
	d.obj(root, fmt.Sprintf("<< /Type /Pages /Kids [%s] /Count %d /MediaBox [0 0 612 792] /Resources << /Font << /F1 %d 0 R >> >> >>", strings.Join(kids, " "), n, f))
	d.obj(catalog, fmt.Sprintf("<< /Type /Catalog /Pages %d 0 R >>", root))
	return d.finish(catalog)
}

// optStep is one chaining call.
type optStep struct {
	name string
	args []int
}

func (s optStep) String() string {
	if s.args == nil {
		return s.name
	}
	var xs []string
	for _, a := range s.args {
		xs = append(xs, fmt.Sprint(a))
	}
	return s.name + "(" + strings.Join(xs, ",") + ")"
}

func (s optStep) apply(e *tabula.Extractor) *tabula.Extractor {
	switch s.name {
	case "Pages":
		return e.Pages(s.args...)
	case "PageRange":
		return e.PageRange(s.args[0], s.args[1])
	case "ExcludeHeaders":
		return e.ExcludeHeaders()
	case "ExcludeFooters":
		return e.ExcludeFooters()
	case "ExcludeHeadersAndFooters":
		return e.ExcludeHeadersAndFooters()
	case "JoinParagraphs":
		return e.JoinParagraphs()
	case "ByColumn":
		return e.ByColumn()
	case "PreserveLayout":
		return e.PreserveLayout()
	}
	return e
}

func genOptStep(r *hx.Rng, npages int) optStep {
	switch x := r.Intn(20); {
	case x < 8:
		args := make([]int, r.Range(1, 3))
		for i := range args {
			args[i] = r.Range(1, npages)
		}
		if r.Chance(1, 16) {
			args[0] = npages + r.Range(1, 3) // out of range: an error, the same error every time
		}
		return optStep{"Pages", args}
	case x < 14:
		a := r.Range(1, npages)
		return optStep{"PageRange", []int{a, a + r.Intn(npages-a+1)}}
	default:
		return optStep{hx.Pick(r, []string{"ExcludeHeaders", "ExcludeFooters", "ExcludeHeadersAndFooters", "JoinParagraphs", "ByColumn", "PreserveLayout"}), nil}
	}
}

var deriveOps = []string{"Text", "Text", "Text", "ToMarkdown", "Fragments", "PageCount"}

func runDerive(c *hx.Ctx, idx int) {
	r := hx.NewRng(c.Seed ^ 0xde71).Fork(uint64(idx))
	npages := r.Range(4, 8)
	tag := fmt.Sprintf("v%d", idx)
	path := filepath.Join(c.OutDir, fmt.Sprintf("c03-derive-%d.pdf", idx))
	os.WriteFile(path, pagedPDF(npages, tag), 0o644)
	defer os.Remove(path)
	shared := r.Chance(1, 3) // base on a caller-owned reader instead of a file name
	k := deriveCase{Kind: "derive", Seed: c.Seed, Index: idx, Base: "Open(f)"}
	if shared {
		k.Base = "FromReader(r)"
	}

	// the program: node 0 is the base; "d" derives a new node from an existing one, "r" runs one
	type node struct {
		parent int
		step   optStep
	}
	type action struct {
		derive bool
		node   int // derive: index of the new node; run: node to run
		op     string
	}
	nodes := []node{{parent: -1}}
	var prog []action
	var pdesc []string
	chain := func(n int) []optStep {
		var rev []optStep
		for ; n > 0; n = nodes[n].parent {
			rev = append(rev, nodes[n].step)
		}
		for i, j := 0, len(rev)-1; i < j; i, j = i+1, j-1 {
			rev[i], rev[j] = rev[j], rev[i]
		}
		return rev
	}
	children := map[int]int{}
	derive := func(par int, st optStep) {
		children[par]++
		nodes = append(nodes, node{parent: par, step: st})
		prog = append(prog, action{derive: true, node: len(nodes) - 1})
		pdesc = append(pdesc, fmt.Sprintf("n%d:=n%d.%s", len(nodes)-1, par, st))
	}
	selectsPages := func(n int) bool { return nodes[n].step.name == "Pages" || nodes[n].step.name == "PageRange" }
	genPageStep := func() optStep {
		for {
			if st := genOptStep(r, npages); st.name == "Pages" || st.name == "PageRange" {
				return st
			}
		}
	}
	nact := r.Range(5, 10)
	for a := 0; a < nact && len(nodes) < 16; a++ {
		switch x := r.Intn(10); {
		case len(nodes) < 2 || x < 3:
			// one derivation; parent: prefer a node that already has a child, else any
			par := r.Intn(len(nodes))
			if r.Chance(1, 2) {
				var withKids []int
				for n := range nodes {
					if children[n] > 0 {
						withKids = append(withKids, n)
					}
				}
				if len(withKids) > 0 {
					par = hx.Pick(r, withKids)
				}
			}
			derive(par, genOptStep(r, npages))
		case x < 7:
			// a family: two to four page selections derived from the same parent before any of
			// them runs; parent preferably one that already carries a page selection of its own
			par := r.Intn(len(nodes))
			var sel []int
			for n := range nodes {
				if n > 0 && selectsPages(n) {
					sel = append(sel, n)
				}
			}
			if len(sel) > 0 && r.Chance(3, 4) {
				par = hx.Pick(r, sel)
			}
			for k := r.Range(2, 4); k > 0; k-- {
				derive(par, genPageStep())
			}
		default:
			n := r.Intn(len(nodes))
			op := hx.Pick(r, deriveOps)
			prog = append(prog, action{node: n, op: op})
			pdesc = append(pdesc, fmt.Sprintf("n%d.%s", n, op))
		}
	}
	// finally every node runs once more, in a shuffled order
	order := make([]int, len(nodes))
	for i := range order {
		order[i] = i
	}
	hx.Shuffle(r, order)
	for _, n := range order {
		prog = append(prog, action{node: n, op: "Text"})
		pdesc = append(pdesc, fmt.Sprintf("n%d.Text", n))
	}
	k.Prog = strings.Join(pdesc, "; ")

	// what each (node, op) gives when its chain is built and run with nothing else going on
	fresh := map[string]string{}
	freshOf := func(n int, op string) string {
		key := fmt.Sprintf("%d/%s", n, op)
		if v, ok := fresh[key]; ok {
			return v
		}
		e := tabula.Open(path)
		for _, s := range chain(n) {
			e = s.apply(e)
		}
		v := observe(e, op)
		fresh[key] = v
		return v
	}
	chainText := func(n int) string {
		var xs []string
		for _, s := range chain(n) {
			xs = append(xs, s.String())
		}
		if len(xs) == 0 {
			return "Open(f)"
		}
		return "Open(f)." + strings.Join(xs, ".")
	}

	type result struct {
		at   int
		n    int
		op   string
		got  string
		want string
	}
	var results []result
	if !c.Guard("C03/derive", k, 120, func() {
		for _, a := range prog {
			if !a.derive {
				freshOf(a.node, a.op)
			}
		}
		var rd *reader.Reader
		live := make([]*tabula.Extractor, len(nodes))
		if shared {
			var err error
			rd, err = reader.Open(path)
			if err != nil {
				return
			}
			defer rd.Close()
			live[0] = tabula.FromReader(rd)
		} else {
			live[0] = tabula.Open(path)
		}
		for i, a := range prog {
			if a.derive {
				live[a.node] = nodes[a.node].step.apply(live[nodes[a.node].parent])
				continue
			}
			results = append(results, result{i, a.node, a.op, observe(live[a.node], a.op), freshOf(a.node, a.op)})
		}
	}) {
		return
	}
	nontrivial := false
	seenRun := map[string]string{}
	for _, x := range results {
		x := x
		if strings.Contains(x.got, tag+"PAGE-") {
			nontrivial = true
		}
		c.Check("C03/derived-extractor-differs", x.got == x.want, k, func() string {
			return fmt.Sprintf("%d-page PDF, base n0 := %s, program [%s]: action %d, n%d.%s(), gave %q; %s.%s() built and run on its own gives %q",
				npages, k.Base, k.Prog, x.at+1, x.n, x.op, truncate(words(x.got), 240), chainText(x.n), x.op, truncate(words(x.want), 240))
		})
		key := fmt.Sprintf("%d/%s", x.n, x.op)
		if prev, ok := seenRun[key]; ok {
			c.Check("C03/derived-extractor-repeat-differs", x.got == prev, k, func() string {
				return fmt.Sprintf("%d-page PDF, base n0 := %s, program [%s]: n%d.%s() gave %q earlier and %q at action %d",
					npages, k.Base, k.Prog, x.n, x.op, truncate(words(prev), 240), truncate(words(x.got), 240), x.at+1)
			})
		} else {
			seenRun[key] = x.got
		}
	}

	// siblings derived from one idle base on several goroutines at once (each goroutine derives
	// and runs its own Extractor; the base itself is only read). File-name bases only: a
	// caller-owned reader is one document, and the property speaks of distinct extractions.
	if !shared {
		// the base: the deepest node of the program whose last call selected pages (else n0)
		bn := 0
		for n := len(nodes) - 1; n > 0; n-- {
			if nodes[n].step.name == "Pages" || nodes[n].step.name == "PageRange" {
				bn = n
				break
			}
		}
		g := r.Range(3, 6)
		sib := make([]optStep, g)
		for i := range sib {
			sib[i] = optStep{"Pages", []int{r.Range(1, npages)}}
			if r.Chance(1, 3) {
				a := r.Range(1, npages)
				sib[i] = optStep{"PageRange", []int{a, a + r.Intn(npages-a+1)}}
			}
		}
		want := make([]string, g)
		got := make([]string, g)
		c.Guard("C03/derive", k, 120, func() {
			for i := range sib {
				e := tabula.Open(path)
				for _, s := range chain(bn) {
					e = s.apply(e)
				}
				want[i] = observe(sib[i].apply(e), "Text")
			}
			b := tabula.Open(path)
			for _, s := range chain(bn) {
				b = s.apply(b)
			}
			var wg sync.WaitGroup
			start := make(chan struct{})
			for i := range sib {
				wg.Add(1)
				go func(i int) {
					defer wg.Done()
					<-start
					got[i] = observe(sib[i].apply(b), "Text")
				}(i)
			}
			close(start)
			wg.Wait()
		})
		for i := range sib {
			i := i
			c.Check("C03/derived-concurrently-differs", got[i] == want[i], k, func() string {
				return fmt.Sprintf("%d-page PDF, base := %s; %d goroutines each ran base.<sibling>.Text() with siblings %v: sibling %d (%s) gave %q, on its own it gives %q",
					npages, chainText(bn), g, sib, i, sib[i], truncate(words(got[i]), 240), truncate(words(want[i]), 240))
			})
		}
	}
	c.Count("derive-tree base=" + k.Base)
	c.Count("derive-tree")
	c.Case("derive"+k.Base+k.Prog, nontrivial)
}
