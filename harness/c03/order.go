package c03

// Map iteration order (C03, mechanism "map-ordered data is sorted before it influences output").
//
// Every case calls the real function several times (Go randomises the order of each range over
// a map), requires the same result every time (oracle), and sends the inputs together with ONE
// arbitrary iteration order (a shuffle made here) to the Lean model, which must give the
// implementation's answer whatever that order is (Model/MapOrder.lean, Props/C03Order.lean).

import (
	"fmt"
	"os"
	"path/filepath"
	"sort"
	"strconv"
	"strings"

	"github.com/tsawler/tabula/core"
	"github.com/tsawler/tabula/epubdoc"
	"github.com/tsawler/tabula/font"
	"github.com/tsawler/tabula/layout"
	"github.com/tsawler/tabula/model"
	"github.com/tsawler/tabula/rag"
	"github.com/tsawler/tabula/reader"
	"github.com/tsawler/tabula/text"

	"verifharness/hx"
)

type orderCase struct {
	Kind  string `json:"kind"`
	Seed  uint64 `json:"seed"`
	Index int    `json:"index"`
	What  string `json:"what"`
}

func joinInts(xs []int) string {
	if len(xs) == 0 {
		return "-"
	}
	s := make([]string, len(xs))
	for i, x := range xs {
		s[i] = strconv.Itoa(x)
	}
	return strings.Join(s, ",")
}

func joinOrDash(xs []string, sep string) string {
	if len(xs) == 0 {
		return "-"
	}
	return strings.Join(xs, sep)
}

// same runs f n times and reports whether all results were equal, and the distinct results.
func same(n int, f func() string) (first string, distinct map[string]int) {
	distinct = map[string]int{}
	for i := 0; i < n; i++ {
		v := f()
		if i == 0 {
			first = v
		}
		distinct[v]++
	}
	return first, distinct
}

func showDistinct(d map[string]int) string {
	var xs []string
	for v, n := range d {
		xs = append(xs, fmt.Sprintf("%dx %q", n, truncate(v, 120)))
	}
	sort.Strings(xs)
	return strings.Join(xs, " | ")
}

// ---- calculateAdaptiveTolerance ------------------------------------------------------

// tolSymbol puts the tolerance in the model's words: dflt (no fragments), std (average height x
// LineHeightTolerance), floor (0.15), gap:<g> (g tenths x 0.2).
func tolSymbol(res float64, nfrags int, total float64) string {
	if nfrags == 0 {
		if res == 2.0 {
			return "dflt"
		}
		return fmt.Sprint("?", res)
	}
	std := total / float64(nfrags) * layout.DefaultLineConfig().LineHeightTolerance
	switch {
	case res == std:
		return "std"
	case res == 0.15:
		return "floor"
	}
	g := int(res*50 + 0.5) // gap in tenths: res = (g/10) * 0.2
	if float64(g)/10*0.2 == res {
		return fmt.Sprintf("gap:%d", g)
	}
	return fmt.Sprint("?", res)
}

func runTol(c *hx.Ctx, idx int) {
	r := hx.NewRng(c.Seed ^ 0x7013).Fork(uint64(idx))
	// positions are multiples of 0.5 and heights multiples of 0.5, so that every float the
	// function computes on the way is exact and can be compared with the model's integers
	var ys, hs []int // in tenths
	mode := r.Intn(6)
	n := r.Range(0, 30)
	if mode == 0 {
		n = r.Range(0, 3)
	}
	h := 5 * r.Range(2, 40) // glyph height 1.0 .. 20.0
	pitch := 5 * r.Range(1, 60)
	switch mode {
	case 1: // compressed: pitch well below half the height, two columns drawn one after the other
		h = 5 * r.Range(16, 40)
		pitch = 5 * r.Range(1, 5)
	case 2: // on the threshold: pitch around half the height
		pitch = 5*(h/10) + 5*r.Range(-1, 1)
		if pitch < 5 {
			pitch = 5
		}
	}
	base := 5 * r.Range(-40, 1500)
	cols := r.Range(1, 3)
	for i := 0; i < n; i++ {
		row := i % ((n + cols - 1) / cols)
		y := base - row*pitch
		if mode >= 4 && r.Chance(1, 3) {
			y = base - 5*r.Range(0, 400) // scattered
		}
		if mode == 3 && r.Chance(1, 2) {
			y = base // few distinct baselines
		}
		ys = append(ys, y)
		hh := h
		if mode == 5 {
			hh = 5 * r.Range(2, 40)
		}
		hs = append(hs, hh)
	}
	order := r.Intn(3)
	if order == 1 {
		for i, j := 0, len(ys)-1; i < j; i, j = i+1, j-1 {
			ys[i], ys[j] = ys[j], ys[i]
			hs[i], hs[j] = hs[j], hs[i]
		}
	} else if order == 2 {
		perm := make([]int, len(ys))
		for i := range perm {
			perm[i] = i
		}
		hx.Shuffle(r, perm)
		y2, h2 := make([]int, len(ys)), make([]int, len(ys))
		for i, p := range perm {
			y2[i], h2[i] = ys[p], hs[p]
		}
		ys, hs = y2, h2
	}
	frags := make([]text.TextFragment, len(ys))
	var wire []string
	total := 0.0
	for i := range ys {
		frags[i] = text.TextFragment{Text: "x", X: 72, Y: float64(ys[i]) / 10, Width: 10, Height: float64(hs[i]) / 10, FontSize: float64(hs[i]) / 10}
		wire = append(wire, fmt.Sprintf("%d:%d", ys[i], hs[i]))
		total += frags[i].Height
	}
	k := orderCase{"tol", c.Seed, idx, strings.Join(wire, ",")}
	symbol := func(res float64) string { return tolSymbol(res, len(frags), total) }
	var first string
	var distinct map[string]int
	if !c.Guard("C03/tol", k, 20, func() {
		first, distinct = same(8, func() string { return symbol(layout.VerifLineTolerance(frags)) })
	}) {
		return
	}
	c.Check("C03/tolerance-repeat-differs", len(distinct) == 1, k, func() string {
		return fmt.Sprintf("8 calls of calculateAdaptiveTolerance on the same %d fragments (y:height in tenths %s) gave %s", len(frags), k.What, showDistinct(distinct))
	})
	set := map[int]bool{}
	var it []int
	for _, y := range ys {
		if !set[y] {
			set[y] = true
			it = append(it, y)
		}
	}
	hx.Shuffle(r, it)
	c.Op("c03.tol "+joinOrDash(wire, ",")+" "+joinInts(it), first)
	c.Count("tolerance " + strings.SplitN(first, ":", 2)[0])
	c.Case("tol"+k.What, len(it) >= 3)
}

// ---- the majority votes ------------------------------------------------------------

func runVote(c *hx.Ctx, idx int) {
	r := hx.NewRng(c.Seed ^ 0x707e).Fork(uint64(idx))
	kind := hx.Pick(r, []string{"m", "m", "a", "f", "f"})
	n := r.Range(0, 14)
	if r.Chance(1, 12) {
		n = 0
	}
	var wire []string
	keys := map[int]bool{}
	var call func() string
	switch kind {
	case "m":
		// a few margins, so that ties are common
		pool := make([]int, r.Range(1, 4))
		for i := range pool {
			pool[i] = r.Range(-30, 420)
		}
		xs := make([]float64, n)
		for i := range xs {
			x := hx.Pick(r, pool) + r.Intn(3)
			xs[i] = float64(x)
			wire = append(wire, strconv.Itoa(x))
			keys[x/5] = true // int(x/5.0): truncation toward zero, as Go's integer division
		}
		call = func() string { return strconv.Itoa(int(layout.VerifDetectLeftMargin(xs) / 5)) }
	case "a":
		as := make([]layout.LineAlignment, n)
		for i := range as {
			a := r.Intn(5)
			as[i] = layout.LineAlignment(a)
			wire = append(wire, strconv.Itoa(a))
			keys[a] = true
		}
		call = func() string { return strconv.Itoa(int(layout.VerifDetectDominantAlignment(as))) }
	default:
		pool := make([]int, r.Range(1, 4))
		for i := range pool {
			pool[i] = r.Range(12, 60) // half points
		}
		sizes := make([]float64, n)
		nl := make([]int, n)
		for i := range sizes {
			s := hx.Pick(r, pool)
			sizes[i] = float64(s) / 2
			nl[i] = r.Range(0, 4)
			wire = append(wire, fmt.Sprintf("%d:%d", s, nl[i]))
			keys[s] = true
		}
		call = func() string {
			if len(sizes) == 0 {
				if v := layout.VerifDetectBodyFontSize(sizes, nl); v != 12.0 {
					return fmt.Sprint("?", v)
				}
				return "-"
			}
			return strconv.Itoa(int(layout.VerifDetectBodyFontSize(sizes, nl) * 2))
		}
	}
	k := orderCase{"vote", c.Seed, idx, kind + " " + strings.Join(wire, ",")}
	var first string
	var distinct map[string]int
	if !c.Guard("C03/vote", k, 20, func() { first, distinct = same(12, call) }) {
		return
	}
	c.Check("C03/vote-repeat-differs", len(distinct) == 1, k, func() string {
		return fmt.Sprintf("12 calls of the %s vote on the same input (%s) gave %s", map[string]string{"m": "left-margin", "a": "alignment", "f": "body-font-size"}[kind], k.What, showDistinct(distinct))
	})
	var it []int
	for b := range keys {
		it = append(it, b)
	}
	sort.Ints(it)
	hx.Shuffle(r, it)
	c.Op("c03.vote "+kind+" "+joinOrDash(wire, ",")+" "+joinInts(it), first)
	c.Count("vote " + kind)
	c.Case("vote"+k.What, len(it) >= 2)
}

// ---- collectCSVColumns -------------------------------------------------------------

var standardColumns = map[string]bool{"document_title": true, "page_start": true, "page_end": true, "chunk_index": true,
	"section_title": true, "has_table": true, "has_list": true, "has_image": true, "id": true, "text": true}

func runCsvCols(c *hx.Ctx, idx int) {
	r := hx.NewRng(c.Seed ^ 0xc5c0).Fork(uint64(idx))
	cfg := rag.DefaultExportConfig()
	cfg.IncludeText = r.Chance(3, 4)
	cfg.IncludeMetadata = r.Chance(5, 6)
	cfg.IncludeEmbeddings = r.Chance(1, 4)
	n := r.Range(0, 5)
	chunks := make([]*rag.Chunk, n)
	for i := range chunks {
		m := rag.ChunkMetadata{ChunkIndex: i}
		if r.Bool() {
			m.DocumentTitle = "Doc"
		}
		if r.Bool() {
			m.SectionPath = []string{"A", "B"}
			m.SectionTitle = "B"
		}
		if r.Bool() {
			m.HeadingLevel = r.Range(1, 3)
		}
		if r.Bool() {
			m.PageStart, m.PageEnd = 1, 2
		}
		if r.Bool() {
			m.TotalChunks = n
		}
		if r.Bool() {
			m.ParentID = "p"
		}
		if r.Bool() {
			m.ChildIDs = []string{"c"}
		}
		if r.Bool() {
			m.ElementTypes = []string{"paragraph"}
		}
		m.HasTable, m.HasList, m.HasImage = r.Bool(), r.Bool(), r.Bool()
		if r.Bool() {
			m.CharCount, m.WordCount, m.EstimatedTokens = 10, 2, 3
		}
		chunks[i] = &rag.Chunk{ID: fmt.Sprintf("chunk-%d", i), Text: "t", Metadata: m}
	}
	k := orderCase{"csvcols", c.Seed, idx, fmt.Sprintf("text=%v meta=%v emb=%v chunks=%d", cfg.IncludeText, cfg.IncludeMetadata, cfg.IncludeEmbeddings, n)}
	var first string
	var distinct map[string]int
	if !c.Guard("C03/csvcols", k, 20, func() {
		first, distinct = same(8, func() string {
			var hs []string
			for _, col := range rag.VerifCollectCSVColumns(cfg, chunks) {
				hs = append(hs, hx.HexS(col))
			}
			return strings.Join(hs, ",")
		})
	}) {
		return
	}
	c.Check("C03/csv-columns-repeat-differ", len(distinct) == 1, k, func() string {
		return fmt.Sprintf("8 calls of collectCSVColumns on the same %d chunks gave %s", n, showDistinct(distinct))
	})
	// the keys of every chunk's metadata map in the order one range over it yields them, and one
	// arbitrary order of the collected non-standard keys
	var per []string
	union := map[string]bool{}
	for _, ch := range chunks {
		var ks []string
		for key := range rag.VerifChunkMetadataToMap(ch.Metadata) {
			ks = append(ks, hx.HexS(key))
			if !standardColumns[key] {
				union[key] = true
			}
		}
		per = append(per, joinOrDash(ks, ","))
	}
	var it []string
	for _, key := range hx.SortedKeys(union) {
		it = append(it, hx.HexS(key))
	}
	hx.Shuffle(r, it)
	b := func(x bool) string {
		if x {
			return "1"
		}
		return "0"
	}
	c.Op("c03.csvcols "+b(cfg.IncludeText)+b(cfg.IncludeMetadata)+b(cfg.IncludeEmbeddings)+" "+joinOrDash(per, ";")+" "+joinOrDash(it, ","), first)
	c.Count("csv-columns")
	c.Case("csvcols"+k.What+fmt.Sprint(per), len(it) > 0)
}

// ---- mergeResources ---------------------------------------------------------------

type resEntry struct {
	key   string
	sub   map[string]int // nil: a non-dictionary value
	other int
}

func genResources(r *hx.Rng, keys, names []string) []resEntry {
	var out []resEntry
	for _, k := range keys {
		if !r.Chance(2, 3) {
			continue
		}
		e := resEntry{key: k}
		if r.Chance(3, 4) {
			e.sub = map[string]int{}
			for _, n := range names {
				if r.Chance(1, 2) {
					e.sub[n] = r.Range(1, 99)
				}
			}
		} else {
			e.other = r.Range(100, 199)
		}
		out = append(out, e)
	}
	return out
}

func toDict(es []resEntry) core.Dict {
	d := core.Dict{}
	for _, e := range es {
		if e.sub != nil {
			s := core.Dict{}
			for n, id := range e.sub {
				s[n] = core.Int(id)
			}
			d[e.key] = s
		} else {
			d[e.key] = core.Int(e.other)
		}
	}
	return d
}

// wireRes writes the entries in the given order; sub-dictionaries in a shuffled order when r != nil
func wireRes(es []resEntry, r *hx.Rng) string {
	var xs []string
	for _, e := range es {
		if e.sub == nil {
			xs = append(xs, fmt.Sprintf("%s=o%d", hx.HexS(e.key), e.other))
			continue
		}
		names := hx.SortedKeys(e.sub)
		if r != nil {
			hx.Shuffle(r, names)
		}
		var ss []string
		for _, n := range names {
			ss = append(ss, fmt.Sprintf("%s:%d", hx.HexS(n), e.sub[n]))
		}
		xs = append(xs, hx.HexS(e.key)+"=d"+strings.Join(ss, "+"))
	}
	return joinOrDash(xs, ",")
}

func showDictVal(v core.Object, names []string) string {
	switch x := v.(type) {
	case nil:
		return "-"
	case core.Int:
		return fmt.Sprintf("o%d", int(x))
	case core.Dict:
		var ss []string
		for _, n := range names {
			if id, ok := x[n].(core.Int); ok {
				ss = append(ss, strconv.Itoa(int(id)))
			} else {
				ss = append(ss, "-")
			}
		}
		return "d{" + strings.Join(ss, ",") + "}"
	}
	return fmt.Sprintf("?%T", v)
}

func runMerge(c *hx.Ctx, idx int) {
	r := hx.NewRng(c.Seed ^ 0x3e96).Fork(uint64(idx))
	keys := []string{"Font", "XObject", "ExtGState", "ProcSet", "ColorSpace"}
	names := []string{"F1", "F2", "Fm0", "Im1", "GS0"}
	parent := genResources(r, keys, names)
	child := genResources(r, keys, names)
	k := orderCase{"merge", c.Seed, idx, wireRes(parent, nil) + " <- " + wireRes(child, nil)}
	show := func(d core.Dict) string {
		var out []string
		for _, key := range append(append([]string{}, keys...), "Other") {
			out = append(out, showDictVal(d[key], names))
		}
		return strings.Join(out, ";")
	}
	var first string
	var distinct map[string]int
	pd, cd := toDict(parent), toDict(child)
	beforeP, beforeC := show(pd), show(cd)
	if !c.Guard("C03/merge", k, 20, func() {
		first, distinct = same(6, func() string { return show(text.VerifMergeResources(pd, cd)) })
	}) {
		return
	}
	c.Check("C03/merge-resources-repeat-differs", len(distinct) == 1, k, func() string {
		return fmt.Sprintf("6 calls of mergeResources(%s) gave %s", k.What, showDistinct(distinct))
	})
	c.Check("C03/merge-resources-changes-its-arguments", show(pd) == beforeP && show(cd) == beforeC, k, func() string {
		return fmt.Sprintf("mergeResources(%s) changed a dictionary it was given: parent %s -> %s, child %s -> %s", k.What, beforeP, show(pd), beforeC, show(cd))
	})
	itP := append([]resEntry{}, parent...)
	itC := append([]resEntry{}, child...)
	hx.Shuffle(r, itP)
	hx.Shuffle(r, itC)
	var hn []string
	for _, n := range names {
		hn = append(hn, hx.HexS(n))
	}
	var probes []string
	for _, key := range append(append([]string{}, keys...), "Other") {
		probes = append(probes, hx.HexS(key)+":"+strings.Join(hn, "+"))
	}
	c.Op("c03.merge "+wireRes(parent, nil)+" "+wireRes(child, nil)+" "+wireRes(itP, r)+" "+wireRes(itC, r)+" "+strings.Join(probes, ","), first)
	c.Count("merge-resources")
	c.Case("merge"+k.What, len(parent) > 0 && len(child) > 0)
}

// ---- NewCustomEncodingFromGlyphs ----------------------------------------------------

// glyph names with their Unicode values (Adobe Glyph List), and names that are not glyph names
var glyphPool = []struct {
	name string
	r    int
}{{"A", 65}, {"eacute", 233}, {"bullet", 0x2022}, {"Euro", 0x20AC}, {"space", 32}, {"adieresis", 228}, {"germandbls", 223},
	{"notaglyphname", -1}, {"zzqq", -1}, {"", -1}}

func runGlyphs(c *hx.Ctx, idx int) {
	r := hx.NewRng(c.Seed ^ 0x61f5).Fork(uint64(idx))
	diffs := map[byte]string{}
	var wire []string
	codes := map[int]bool{}
	for n := r.Range(0, 8); n > 0; n-- {
		code := r.Range(0, 255)
		if codes[code] {
			continue
		}
		codes[code] = true
		g := hx.Pick(r, glyphPool)
		diffs[byte(code)] = g.name
		if g.r >= 0 {
			wire = append(wire, fmt.Sprintf("%d=%d", code, g.r))
		} else {
			wire = append(wire, fmt.Sprintf("%d=-", code))
		}
	}
	hx.Shuffle(r, wire)
	probeCodes := []int{}
	for code := range codes {
		probeCodes = append(probeCodes, code)
	}
	sort.Ints(probeCodes)
	for i := 0; i < 3; i++ {
		probeCodes = append(probeCodes, r.Range(32, 255))
	}
	base := font.WinAnsiEncoding
	var probes []string
	for _, code := range probeCodes {
		probes = append(probes, fmt.Sprintf("%d:%d", code, int(base.Decode(byte(code)))))
	}
	k := orderCase{"glyphs", c.Seed, idx, strings.Join(wire, ",")}
	var first string
	var distinct map[string]int
	if !c.Guard("C03/glyphs", k, 20, func() {
		first, distinct = same(6, func() string {
			e := font.NewCustomEncodingFromGlyphs(base, diffs)
			var out []string
			for _, code := range probeCodes {
				out = append(out, strconv.Itoa(int(e.Decode(byte(code)))))
			}
			return strings.Join(out, ",")
		})
	}) {
		return
	}
	c.Check("C03/custom-encoding-repeat-differs", len(distinct) == 1, k, func() string {
		return fmt.Sprintf("6 encodings built from the same /Differences (%s) decode differently: %s", k.What, showDistinct(distinct))
	})
	c.Op("c03.glyphs "+joinOrDash(wire, ",")+" "+strings.Join(probes, ","), first)
	c.Count("custom-encoding")
	c.Case("glyphs"+k.What, len(wire) > 0)
}

// ---- list numbering (createListChunk) -----------------------------------------------

func runNumbers(c *hx.Ctx, idx int) {
	r := hx.NewRng(c.Seed ^ 0x2b3a).Fork(uint64(idx))
	n := r.Range(1, 14)
	levels := make([]int, n)
	lv := 0
	for i := range levels {
		switch r.Intn(5) {
		case 0, 1:
		case 2:
			lv++
		case 3:
			lv -= r.Range(1, 2)
		case 4:
			lv = r.Range(0, 4)
		}
		if lv < 0 {
			lv = 0
		}
		if lv > 5 {
			lv = 5
		}
		levels[i] = lv
	}
	k := orderCase{"numbers", c.Seed, idx, joinInts(levels)}
	items := make([]model.ListItem, n)
	for i := range items {
		items[i] = model.ListItem{Text: fmt.Sprintf("item%d", i), Level: levels[i]}
	}
	call := func() string {
		doc := model.NewDocument()
		pg := model.NewPage(612, 792)
		pg.Number = 1
		pg.Elements = append(pg.Elements, &model.List{Items: items, Ordered: true})
		doc.AddPage(pg)
		var nums []string
		for _, ch := range rag.NewDocumentChunker().ChunkDocument(doc).Chunks {
			for _, line := range strings.Split(ch.Text, "\n") {
				line = strings.TrimSpace(line)
				if i := strings.Index(line, ". item"); i > 0 {
					nums = append(nums, line[:i])
				}
			}
		}
		return joinOrDash(nums, ",")
	}
	var first string
	var distinct map[string]int
	if !c.Guard("C03/numbers", k, 20, func() { first, distinct = same(6, call) }) {
		return
	}
	c.Check("C03/list-numbering-repeat-differs", len(distinct) == 1, k, func() string {
		return fmt.Sprintf("6 chunkings of an ordered list with item levels %s number the items differently: %s", k.What, showDistinct(distinct))
	})
	c.Op("c03.numbers "+joinInts(levels), first)
	c.Count("list-numbering")
	c.Case("numbers"+k.What, n > 1)
}

// ---- EPUB navigation document ---------------------------------------------------------

func runNav(c *hx.Ctx, idx int) {
	r := hx.NewRng(c.Seed ^ 0x0a7e).Fork(uint64(idx))
	ids := []string{"nav", "nav2", "toc", "ncx", "ncx-old", "a", "Z", "c1", "cover", "n"}
	hx.Shuffle(r, ids)
	n := r.Range(0, 6)
	manifest := map[string]epubdoc.ManifestItem{}
	var wire []string
	navs, ncxs := 0, 0
	for _, id := range ids[:n] {
		it := epubdoc.ManifestItem{ID: id, Href: id + ".xhtml", MediaType: "application/xhtml+xml"}
		flags := ""
		if r.Chance(2, 5) {
			it.Properties = []string{"nav"}
			if r.Bool() {
				it.Properties = []string{"scripted", "nav"}
			}
			flags += "n"
			navs++
		} else if r.Chance(1, 4) {
			it.Properties = []string{"cover-image"}
		}
		if r.Chance(2, 5) {
			it.MediaType = "application/x-dtbncx+xml"
			flags += "x"
			ncxs++
		}
		if flags == "" {
			flags = "-"
		}
		manifest[id] = it
		wire = append(wire, hx.HexS(id)+"="+flags)
	}
	k := orderCase{"nav", c.Seed, idx, fmt.Sprint(wire)}
	dash := func(s string) string {
		if s == "" {
			return "-"
		}
		return hx.HexS(s)
	}
	var first string
	var distinct map[string]int
	if !c.Guard("C03/nav", k, 20, func() {
		first, distinct = same(16, func() string {
			a, b := epubdoc.VerifFindNavigation(manifest)
			return dash(a) + "/" + dash(b)
		})
	}) {
		return
	}
	c.Check("C03/epub-navigation-choice-differs", len(distinct) == 1, k, func() string {
		return fmt.Sprintf("16 look-ups of the navigation document / NCX in the same manifest (%d items with the nav property, %d NCX items; id=flags in hex %v) chose differently: %s", navs, ncxs, wire, showDistinct(distinct))
	})
	c.Op("c03.nav "+joinOrDash(wire, ","), first)
	c.Count(fmt.Sprintf("epub-navigation navs=%d", min(navs, 2)))
	c.Case("nav"+k.What, navs+ncxs > 0)
}

// ---- images of a page -------------------------------------------------------------

func runImages(c *hx.Ctx, idx int) {
	r := hx.NewRng(c.Seed ^ 0x1a6e).Fork(uint64(idx))
	names := []string{"Im1", "Im2", "Im10", "A", "img", "X0", "Fm1", "Z9"}
	hx.Shuffle(r, names)
	n := r.Range(0, 6)
	d := newPDFObjs()
	catalog, root, page := d.alloc(), d.alloc(), d.alloc()
	var xo []string
	var wire []string
	nimg := 0
	for _, nm := range names[:n] {
		o := d.alloc()
		kind := hx.Pick(r, []string{"i", "i", "i", "f", "b", "n"})
		switch kind {
		case "i":
			w := r.Range(1, 4)
			d.stream(o, fmt.Sprintf("/Type /XObject /Subtype /Image /Width %d /Height 1 /BitsPerComponent 8 /ColorSpace /DeviceGray", w), strings.Repeat("a", w))
			nimg++
		case "f":
			d.stream(o, "/Type /XObject /Subtype /Form /BBox [0 0 10 10]", "q Q")
		case "b": // an image without /Width: extraction of it fails, it is skipped
			d.stream(o, "/Type /XObject /Subtype /Image /Height 1 /BitsPerComponent 8 /ColorSpace /DeviceGray", "a")
		case "n": // not a stream
			d.obj(o, "<< /Subtype /Image >>")
		}
		xo = append(xo, fmt.Sprintf("/%s %d 0 R", nm, o))
		wire = append(wire, hx.HexS(nm)+"="+kind)
	}
	d.obj(page, fmt.Sprintf("<< /Type /Page /Parent %d 0 R /MediaBox [0 0 612 792] /Resources << /XObject << %s >> >> >>", root, strings.Join(xo, " ")))
	d.obj(root, fmt.Sprintf("<< /Type /Pages /Kids [%d 0 R] /Count 1 >>", page))
	d.obj(catalog, fmt.Sprintf("<< /Type /Catalog /Pages %d 0 R >>", root))
	path := filepath.Join(c.OutDir, fmt.Sprintf("c03-images-%d.pdf", idx))
	os.WriteFile(path, d.finish(catalog), 0o644)
	defer os.Remove(path)
	k := orderCase{"images", c.Seed, idx, fmt.Sprint(xo, wire)}
	var first string
	var distinct map[string]int
	if !c.Guard("C03/images", k, 30, func() {
		first, distinct = same(10, func() string {
			rd, err := reader.Open(path)
			if err != nil {
				return "err-open"
			}
			defer rd.Close()
			pg, err := rd.GetPage(0)
			if err != nil {
				return "err-page"
			}
			ims, err := rd.ExtractPageImages(pg)
			if err != nil {
				return "err"
			}
			var out []string
			for _, im := range ims {
				out = append(out, hx.HexS(im.Name))
			}
			return joinOrDash(out, ",")
		})
	}) {
		return
	}
	c.Check("C03/page-images-order-differs", len(distinct) == 1, k, func() string {
		return fmt.Sprintf("10 calls of ExtractPageImages on the same page (XObjects %v, %d images) returned the images in different orders: %s", xo, nimg, showDistinct(distinct))
	})
	c.Op("c03.images "+joinOrDash(wire, ","), first)
	c.Count(fmt.Sprintf("page-images n=%d", min(nimg, 3)))
	c.Case("images"+k.What, nimg > 1)
}

// ---- header / footer regions ---------------------------------------------------------

func runRegions(c *hx.Ctx, idx int) {
	r := hx.NewRng(c.Seed ^ 0x4e61).Fork(uint64(idx))
	npages := r.Range(3, 6)
	words := []string{"Alpha Report", "Confidential Beta", "Gamma Section", "Delta Corp", "Epsilon Draft", "Zeta Notes"}
	hx.Shuffle(r, words)
	npat := r.Range(1, 4)
	// pattern p appears on the pages from[p]..npages-1 (equal spans give equal confidence)
	from := make([]int, npat)
	for p := range from {
		if r.Chance(1, 3) {
			from[p] = r.Range(0, 1)
		}
	}
	var pages []layout.PageFragments
	for pi := 0; pi < npages; pi++ {
		fr := []text.TextFragment{{Text: fmt.Sprintf("body text of page number %d goes here", pi), X: 72, Y: 400, Width: 200, Height: 10, FontSize: 10}}
		for p := 0; p < npat; p++ {
			if pi >= from[p] {
				fr = append(fr, text.TextFragment{Text: words[p], X: 72 + 150*float64(p), Y: 770, Width: 80, Height: 10, FontSize: 10})
			}
		}
		if r.Chance(1, 2) {
			hx.Shuffle(r, fr)
		}
		pages = append(pages, layout.PageFragments{PageIndex: pi, PageHeight: 792, PageWidth: 612, Fragments: fr})
	}
	k := orderCase{"regions", c.Seed, idx, fmt.Sprint(npages, " pages; patterns ", words[:npat], " from page ", from)}
	var confs map[string]float64
	var first string
	var distinct map[string]int
	if !c.Guard("C03/regions", k, 30, func() {
		first, distinct = same(10, func() string {
			res := layout.NewHeaderFooterDetector().Detect(pages)
			confs = map[string]float64{}
			var out []string
			if res != nil {
				for _, h := range res.Headers {
					key := layout.VerifNormalizeForComparison(h.Text)
					confs[key] = h.Confidence
					out = append(out, hx.HexS(key))
				}
			}
			return joinOrDash(out, ",")
		})
	}) {
		return
	}
	c.Check("C03/header-footer-region-order-differs", len(distinct) == 1, k, func() string {
		return fmt.Sprintf("10 detections on the same %d pages (%s) list the header regions in different orders (GetHeaderTexts, Summary): %s", npages, k.What, showDistinct(distinct))
	})
	// confidences become ranks (equal confidence, equal rank)
	var vals []float64
	for _, v := range confs {
		vals = append(vals, v)
	}
	sort.Float64s(vals)
	rank := func(v float64) int { return sort.SearchFloat64s(vals, v) }
	var wire []string
	for key, v := range confs {
		wire = append(wire, fmt.Sprintf("%s=%d", hx.HexS(key), rank(v)))
	}
	sort.Strings(wire)
	hx.Shuffle(r, wire)
	c.Op("c03.regions "+joinOrDash(wire, ","), first)
	c.Count(fmt.Sprintf("header-regions n=%d", min(len(confs), 3)))
	c.Case("regions"+k.What, len(confs) > 1)
}

func runOrder(c *hx.Ctx) {
	for i := 0; i < c.N(300, 6000); i++ {
		runTol(c, i)
	}
	for i := 0; i < c.N(400, 8000); i++ {
		runVote(c, i)
	}
	for i := 0; i < c.N(120, 2500); i++ {
		runCsvCols(c, i)
	}
	for i := 0; i < c.N(200, 4000); i++ {
		runMerge(c, i)
	}
	for i := 0; i < c.N(120, 2500); i++ {
		runGlyphs(c, i)
	}
	for i := 0; i < c.N(150, 3000); i++ {
		runNumbers(c, i)
	}
	for i := 0; i < c.N(200, 4000); i++ {
		runNav(c, i)
	}
	for i := 0; i < c.N(60, 800); i++ {
		runImages(c, i)
	}
	for i := 0; i < c.N(80, 1200); i++ {
		runRegions(c, i)
	}
	for i := 0; i < c.N(80, 1500); i++ {
		runWorld(c, i)
	}
	for i := 0; i < c.N(100, 2000); i++ {
		runCache(c, i)
	}
	for i := 0; i < c.N(150, 3000); i++ {
		runPage(c, i)
	}
	for i := 0; i < c.N(80, 1500); i++ {
		runResolveDeep(c, i)
	}
}

func replayOrder(c *hx.Ctx, kind string, idx int) bool {
	switch kind {
	case "tol":
		runTol(c, idx)
	case "vote":
		runVote(c, idx)
	case "csvcols":
		runCsvCols(c, idx)
	case "merge":
		runMerge(c, idx)
	case "glyphs":
		runGlyphs(c, idx)
	case "numbers":
		runNumbers(c, idx)
	case "nav":
		runNav(c, idx)
	case "images":
		runImages(c, idx)
	case "regions":
		runRegions(c, idx)
	case "world":
		runWorld(c, idx)
	case "cache":
		runCache(c, idx)
	case "page":
		runPage(c, idx)
	case "resolve":
		runResolveDeep(c, idx)
	default:
		return false
	}
	return true
}
