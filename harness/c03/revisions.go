package c03

// Documents with a past: PDF 1.5 files written by the independent writer in 2-4 revisions
// (ISO 32000-1 §7.5.6 incremental updates, §7.5.7 object streams, §7.5.8 cross-reference
// streams chained by /Prev). Every object that may live in an object stream (fonts, page
// dictionaries, resource dictionaries, plain integers) is put either on its own or into one
// of the object streams of its revision; a later revision replaces some of them (again on
// their own or inside a new object stream), frees some, adds some. The file therefore holds
// several objects with the same number, and the cross-reference sections say which one is the
// object of the document: the superseded ones are still there, next to current neighbours,
// in object streams that remain in use.
//
// The logical document (what the harness authored) is the LAST version of every object. The
// property says the result is a function of the document and the options, whatever the
// reader did before:
//
//   - look-up histories: GetObject on one reader, in an arbitrary order, with repetitions,
//     numbers nothing has, freed numbers and ClearCache in between; each answer compared with
//     the same look-up on a reader of its own, and (c03.cache, Model/Process.lean readCached)
//     with the authored current value;
//   - Extractor histories: IsCharacterLevel / IsMultiColumn / PageCount (which read the first
//     page or the page tree and leave the reader open) before the terminal call on the same
//     Extractor; page selections one after the other on one caller-owned reader; the pages
//     inside one extraction of the whole document. Each compared with the same selection on a
//     fresh Open(f) with nothing before it.
//
// Nothing here knows how tabula decodes a page: the expectations are "the same as alone" and
// "the version the harness wrote last".

import (
	"fmt"
	"os"
	"path/filepath"
	"sort"
	"strconv"
	"strings"

	"github.com/tsawler/tabula"
	"github.com/tsawler/tabula/core"
	"github.com/tsawler/tabula/reader"

	"verifharness/hx"
	"verifharness/writers"
)

type revCase struct {
	Kind  string `json:"kind"` // "revisions"
	Seed  uint64 `json:"seed"`
	Index int    `json:"index"`
	File  string `json:"file"`  // the physical layout, revision by revision
	Steps string `json:"steps"` // the history under test
}

// revObj is one object of the logical document that may be packed into an object stream.
type revObj struct {
	num  int
	kind string // int | font | page | res
	page int    // font/page/res: the page it belongs to (1-based)
	ver  int    // the version value: the integer itself, or the /V entry of the dictionary
	live bool   // false once freed
	// where the current version lives: 0 = on its own, else the object stream's number
	home int
	// page: the content stream it names; res/page: how the font is reached
	cont int
}

type revDoc struct {
	objs      []*revObj
	npages    int
	tag       string
	resOf     []int // per page: number of its resources object, 0 = written in place
	fontOf    []int // per page: number of its font object
	pageOf    []int
	root      int
	catalog   int
	next      int // next unused object number
	layout    []string
	shadowed  int // superseded versions left inside an object stream that still holds a current object
	stale     map[int]bool
	xnow      map[int]string // merged cross-reference table in the wire form of op c03.objstm
	traps     []int          // numbers whose last entry leads nowhere (bad index, wrong member, no object stream)
	streams   []int          // the content streams written (current or not), in the order written
	contentOf map[int]string // what each of them holds once decoded
}

// flateSpelling: the ways a Flate-compressed stream can say that its data went through no
// predictor (ISO 32000-1 §7.4.4.4, Table 8: /Predictor 1 is the default, so is the absence of
// /DecodeParms, §7.3.8.2 Table 5 allows null and arrays of one filter / one dictionary).
func flateSpelling(r *hx.Rng) string {
	return hx.Pick(r, []string{
		" /Filter /FlateDecode",
		" /Filter /FlateDecode /DecodeParms << /Predictor 1 >>",
		" /Filter /FlateDecode /DecodeParms << /Predictor 1 >>",
		" /Filter /FlateDecode /DecodeParms << /Predictor 1 /Columns 4 >>",
		" /Filter /FlateDecode /DecodeParms << /Columns 1 /Colors 1 /BitsPerComponent 8 /Predictor 1 >>",
		" /Filter /FlateDecode /DecodeParms << >>",
		" /Filter /FlateDecode /DecodeParms null",
		" /Filter [/FlateDecode] /DecodeParms [<< /Predictor 1 >>]",
		" /Filter [/FlateDecode]",
	})
}

var revEncs = []string{"WinAnsiEncoding", "MacRomanEncoding", "StandardEncoding", "PDFDocEncoding"}

func (d *revDoc) body(o *revObj) string {
	switch o.kind {
	case "int":
		return strconv.Itoa(o.ver)
	case "font":
		// a new version of a font is a font that reads the same bytes differently
		return fmt.Sprintf("<< /Type /Font /Subtype /Type1 /BaseFont /Helvetica /Encoding /%s /V %d >>", revEncs[(o.num+o.ver)%len(revEncs)], o.ver)
	case "res":
		return fmt.Sprintf("<< /Font << /F1 %d 0 R >> /V %d >>", d.fontOf[o.page-1], o.ver)
	case "page":
		res := fmt.Sprintf("<< /Font << /F1 %d 0 R >> >>", d.fontOf[o.page-1])
		if n := d.resOf[o.page-1]; n != 0 {
			res = fmt.Sprintf("%d 0 R", n)
		}
		return fmt.Sprintf("<< /Type /Page /Parent %d 0 R /MediaBox [0 0 612 792] /Resources %s /Contents %d 0 R /V %d >>", d.root, res, o.cont, o.ver)
	}
	return "null"
}

func (d *revDoc) content(page, rev int) string {
	return fmt.Sprintf("BT /F1 12 Tf 72 700 Td (%sP%dr%d caf\\351 \\212\\216\\320) Tj 0 -20 Td (line two of page %d) Tj ET", d.tag, page, rev, page)
}

// genRevisions writes the file and returns it with the logical document.
func genRevisions(r *hx.Rng, tag string) ([]byte, *revDoc) {
	d := &revDoc{tag: tag, stale: map[int]bool{}, xnow: map[int]string{}, contentOf: map[int]string{}}
	// how each stream is compressed and how it spells out its decode parameters is drawn from a
	// generator of its own, so that the logical documents stay what they were
	rx := r.Fork(0x9d1)
	p := writers.NewPDF(hx.Pick(r, []string{"\n", "\n", "\r\n"}))
	putContent := func(num int, data string) int64 {
		d.streams = append(d.streams, num)
		d.contentOf[num] = data
		if rx.Chance(1, 2) {
			return p.Stream(num, "", []byte(data), 0)
		}
		return p.Stream(num, flateSpelling(rx), writers.Deflate([]byte(data)), 0)
	}
	alloc := func() int { d.next++; return d.next }
	d.catalog, d.root = alloc(), alloc()
	d.npages = r.Range(2, 4)
	conts := make([]int, d.npages)
	for pg := 1; pg <= d.npages; pg++ {
		d.pageOf = append(d.pageOf, alloc())
		conts[pg-1] = alloc()
		d.fontOf = append(d.fontOf, alloc())
		res := 0
		if r.Chance(1, 3) {
			res = alloc()
		}
		d.resOf = append(d.resOf, res)
	}
	for pg := 1; pg <= d.npages; pg++ {
		d.objs = append(d.objs, &revObj{num: d.pageOf[pg-1], kind: "page", page: pg, ver: r.Range(1, 9), live: true, cont: conts[pg-1]})
		d.objs = append(d.objs, &revObj{num: d.fontOf[pg-1], kind: "font", page: pg, ver: r.Range(1, 9), live: true})
		if d.resOf[pg-1] != 0 {
			d.objs = append(d.objs, &revObj{num: d.resOf[pg-1], kind: "res", page: pg, ver: r.Range(1, 9), live: true})
		}
	}
	for n := r.Range(1, 4); n > 0; n-- {
		d.objs = append(d.objs, &revObj{num: alloc(), kind: "int", ver: r.Range(-500, 5000), live: true})
	}

	// members[s] = numbers listed in the header of object stream s (all revisions)
	members := map[int][]int{}
	xrefNum := 0
	prev := int64(-1)
	nrev := r.Range(2, 4)
	stmLen := map[int]int{}
	var stmList []int
	for rev := 0; rev < nrev; rev++ {
		e := map[int]writers.XEntry{}
		var desc []string
		var write []*revObj
		if rev == 0 {
			e[0] = writers.XEntry{Type: 0, F1: 0, F2: 65535}
			e[d.catalog] = writers.XEntry{Type: 1, F1: p.Obj(d.catalog, 0, fmt.Sprintf("<< /Type /Catalog /Pages %d 0 R >>", d.root))}
			var kids []string
			for _, n := range d.pageOf {
				kids = append(kids, fmt.Sprintf("%d 0 R", n))
			}
			e[d.root] = writers.XEntry{Type: 1, F1: p.Obj(d.root, 0, fmt.Sprintf("<< /Type /Pages /Kids [%s] /Count %d >>", strings.Join(kids, " "), d.npages))}
			for pg := 1; pg <= d.npages; pg++ {
				e[conts[pg-1]] = writers.XEntry{Type: 1, F1: putContent(conts[pg-1], d.content(pg, 0))}
			}
			write = append(write, d.objs...)
		} else {
			// what this revision replaces: preferably something that sits in an object stream
			var live, packed []*revObj
			for _, o := range d.objs {
				if o.live {
					live = append(live, o)
					if o.home != 0 {
						packed = append(packed, o)
					}
				}
			}
			hx.Shuffle(r, live)
			k := r.Range(1, 3)
			if len(packed) > 0 && r.Chance(4, 5) {
				write = append(write, hx.Pick(r, packed))
			}
			for _, o := range live {
				if len(write) >= k {
					break
				}
				if len(write) == 0 || write[0] != o {
					write = append(write, o)
				}
			}
			for _, o := range write {
				o.ver += r.Range(1, 3) // never the version it had: a different integer, a different encoding
				if o.kind == "page" && r.Chance(1, 2) {
					o.cont = alloc()
					e[o.cont] = writers.XEntry{Type: 1, F1: putContent(o.cont, d.content(o.page, rev))}
				}
			}
			// an integer nothing refers to may be deleted
			if r.Chance(1, 3) {
				for _, o := range live {
					already := false
					for _, w := range write {
						already = already || w == o
					}
					if o.kind == "int" && !already {
						o.live = false
						e[o.num] = writers.XEntry{Type: 0, F1: 0, F2: 1}
						d.xnow[o.num] = "f"
						desc = append(desc, fmt.Sprintf("%d:freed", o.num))
						if o.home != 0 {
							d.stale[o.home] = true
						}
						o.home = 0
						break
					}
				}
			}
			if r.Chance(1, 3) {
				o := &revObj{num: alloc(), kind: "int", ver: r.Range(-500, 5000), live: true}
				d.objs = append(d.objs, o)
				write = append(write, o)
			}
		}
		// where each written object goes: on its own, or into one of this revision's object streams
		nstm := r.Range(1, 2)
		stms := make([]int, nstm)
		for i := range stms {
			stms[i] = alloc()
		}
		packs := map[int][]*revObj{}
		for _, o := range write {
			if o.home != 0 {
				d.stale[o.home] = true // its old version stays behind in that object stream
			}
			if r.Chance(3, 5) {
				s := hx.Pick(r, stms)
				packs[s] = append(packs[s], o)
				o.home = s
			} else {
				o.home = 0
				e[o.num] = writers.XEntry{Type: 1, F1: p.Obj(o.num, 0, d.body(o))}
				d.xnow[o.num] = fmt.Sprintf("o%d", o.ver)
				desc = append(desc, fmt.Sprintf("%d:%s/V%d", o.num, o.kind, o.ver))
			}
		}
		for _, s := range stms {
			ms := packs[s]
			if len(ms) == 0 {
				continue
			}
			hx.Shuffle(r, ms)
			var mem []writers.ObjStmMember
			var md, hn, hv []string
			for i, o := range ms {
				mem = append(mem, writers.ObjStmMember{Num: o.num, Body: d.body(o)})
				e[o.num] = writers.XEntry{Type: 2, F1: int64(s), F2: i}
				d.xnow[o.num] = fmt.Sprintf("s%d.%d", s, i)
				hn = append(hn, strconv.Itoa(o.num))
				hv = append(hv, strconv.Itoa(o.ver))
				members[s] = append(members[s], o.num)
				md = append(md, fmt.Sprintf("%d:%s/V%d", o.num, o.kind, o.ver))
			}
			flate := r.Bool()
			spelling := flateSpelling(rx)
			e[s] = writers.XEntry{Type: 1, F1: p.ObjStmRaw(s, mem, flate, 0, func(raw *writers.RawObjStm) {
				if flate && spelling != " /Filter /FlateDecode" {
					raw.DictRewrite = func(dict string) string {
						return strings.Replace(dict, " /Filter /FlateDecode", spelling, 1)
					}
				}
			})}
			if flate {
				md = append(md, "<<"+strings.TrimSpace(spelling)+">>")
			}
			d.xnow[s] = fmt.Sprintf("m1/%s/%s", strings.Join(hn, "."), strings.Join(hv, "."))
			stmLen[s] = len(ms)
			stmList = append(stmList, s)
			desc = append(desc, fmt.Sprintf("objstm%d{%s}", s, strings.Join(md, " ")))
		}
		if rev == nrev-1 && len(stmList) > 0 {
			// malformed references: numbers whose entry of the last revision names an index past
			// the header, a member that carries another number, an object that is no stream, or
			// an object stream nothing has
			for n := r.Range(0, 2); n > 0; n-- {
				t := alloc()
				s := hx.Pick(r, stmList)
				idx := r.Intn(stmLen[s])
				switch r.Intn(4) {
				case 0:
					idx = stmLen[s] + r.Intn(3)
				case 1: // the member at idx is another object
				case 2:
					for _, o := range d.objs {
						if o.kind == "int" && o.live && o.home == 0 {
							s = o.num
						}
					}
				case 3:
					s = d.next + 40
				}
				e[t] = writers.XEntry{Type: 2, F1: int64(s), F2: idx}
				d.xnow[t] = fmt.Sprintf("s%d.%d", s, idx)
				d.traps = append(d.traps, t)
				desc = append(desc, fmt.Sprintf("%d:->objstm%d[%d]", t, s, idx))
			}
		}
		xrefNum = alloc()
		w := [3]int{1, r.Range(2, 4), 2}
		flate := r.Bool()
		pred := 0
		if flate {
			pred = hx.Pick(r, []int{0, 0, 12, 15})
		}
		prev = p.XrefStream(xrefNum, e, fmt.Sprintf("/Root %d 0 R", d.catalog), prev, w, flate, pred, d.next+1)
		d.layout = append(d.layout, fmt.Sprintf("rev%d[%s xref%d]", rev, strings.Join(desc, " "), xrefNum))
	}
	// an object stream is a trap when it lists a number whose current object is elsewhere (or
	// nowhere) AND still holds the current version of another object
	for s, nums := range members {
		if !d.stale[s] {
			continue
		}
		for _, n := range nums {
			for _, o := range d.objs {
				if o.num == n && o.live && o.home == s {
					d.shadowed++
				}
			}
		}
	}
	return p.Buf.Bytes(), d
}

// versionOf reads the version value out of whatever GetObject returned.
func versionOf(obj core.Object, err error) string {
	if err != nil {
		return "-"
	}
	switch v := obj.(type) {
	case core.Int:
		return strconv.Itoa(int(v))
	case core.Dict:
		if n, ok := v["V"].(core.Int); ok {
			return strconv.Itoa(int(n))
		}
		return "?dict"
	}
	return fmt.Sprintf("?%T", obj)
}

var revPageOps = []string{"Text", "Fragments", "ToMarkdown"}

func runRevisions(c *hx.Ctx, idx int) {
	r := hx.NewRng(c.Seed ^ 0x4e715).Fork(uint64(idx))
	tag := fmt.Sprintf("u%d", idx)
	data, d := genRevisions(r, tag)
	path := filepath.Join(c.OutDir, fmt.Sprintf("c03-revisions-%d.pdf", idx))
	os.WriteFile(path, data, 0o644)
	defer os.Remove(path)
	k := revCase{Kind: "revisions", Seed: c.Seed, Index: idx, File: strings.Join(d.layout, " ")}

	// ---- look-up histories -----------------------------------------------------------------
	var spec []string
	current := map[int]string{}
	var nums []int
	sort.Slice(d.objs, func(i, j int) bool { return d.objs[i].num < d.objs[j].num })
	for _, o := range d.objs {
		nums = append(nums, o.num)
		if o.live {
			spec = append(spec, fmt.Sprintf("%d=%d", o.num, o.ver))
			current[o.num] = strconv.Itoa(o.ver)
		}
	}
	nums = append(nums, d.next+3) // a number nothing has
	nums = append(nums, d.traps...)
	var acc []string
	var seq []int
	for n := r.Range(3, 12); n > 0; n-- {
		if r.Chance(1, 8) {
			acc = append(acc, "c")
			seq = append(seq, -1)
			continue
		}
		o := hx.Pick(r, nums)
		acc = append(acc, fmt.Sprintf("g%d", o))
		seq = append(seq, o)
	}
	// what else the process does between the look-ups (drawn apart, the look-ups stay what they
	// were): x<n> = the content stream n of this document is fetched through the same reader and
	// decoded (core.Stream.Decode), t = the whole document is extracted through a reader of its
	// own. Neither is a look-up of the history, so the model sees the look-ups only; the answers of
	// the look-ups must not notice them.
	rh := r.Fork(0x1e7)
	between := make([][]string, len(seq)) // before look-up i
	var hist []string
	for i := range seq {
		if i > 0 {
			for n := rh.Intn(3); n > 0; n-- {
				if rh.Chance(1, 4) {
					between[i] = append(between[i], "t")
				} else {
					between[i] = append(between[i], fmt.Sprintf("x%d", hx.Pick(rh, d.streams)))
				}
			}
		}
		hist = append(hist, between[i]...)
		hist = append(hist, acc[i])
	}
	k.Steps = "GetObject: " + strings.Join(hist, ",")
	var got, fresh []string
	type decoded struct {
		num  int
		at   int
		data string
	}
	var decs []decoded
	lookedUp := c.Guard("C03/revisions", k, 30, func() {
		rd, err := reader.Open(path)
		if err != nil {
			return
		}
		defer rd.Close()
		for i, o := range seq {
			for _, b := range between[i] {
				if b == "t" {
					tabula.Open(path).Text()
					continue
				}
				n, _ := strconv.Atoi(b[1:])
				if obj, err := rd.GetObject(n); err == nil {
					if st, ok := obj.(*core.Stream); ok {
						if data, err := st.Decode(); err == nil {
							decs = append(decs, decoded{n, i, string(data)})
							continue
						}
					}
				}
				decs = append(decs, decoded{n, i, "<no stream / not decodable>"})
			}
			if o < 0 {
				rd.ClearCache()
				got = append(got, "-")
				fresh = append(fresh, "-")
				continue
			}
			got = append(got, versionOf(rd.GetObject(o)))
			r2, err := reader.Open(path)
			if err != nil {
				fresh = append(fresh, "err-open")
				continue
			}
			fresh = append(fresh, versionOf(r2.GetObject(o)))
			r2.Close()
		}
	})
	if lookedUp && got != nil {
		for _, x := range decs {
			x := x
			c.Check("C03/revised-stream-decode-depends-on-history", x.data == d.contentOf[x.num], k, func() string {
				return fmt.Sprintf("file %s; history %s on one reader: the content stream %d decoded before look-up %d is %q; the harness wrote %q", k.File, strings.Join(hist, ","), x.num, x.at+1, truncate(x.data, 120), truncate(d.contentOf[x.num], 120))
			})
		}
		c.Check("C03/revised-lookup-depends-on-reader-history", strings.Join(got, ",") == strings.Join(fresh, ","), k, func() string {
			return fmt.Sprintf("file %s; current versions %s; accesses %s on one reader gave the versions %v; each look-up on a reader of its own gives %v", k.File, strings.Join(spec, ","), strings.Join(hist, ","), got, fresh)
		})
		want := make([]string, len(seq))
		for i, o := range seq {
			want[i] = "-"
			if v, ok := current[o]; ok {
				want[i] = v
			}
		}
		c.Check("C03/revised-lookup-not-the-current-object", strings.Join(got, ",") == strings.Join(want, ","), k, func() string {
			return fmt.Sprintf("file %s; accesses %s on one reader gave the versions %v; the document (last revision of every object; - = freed or never written) has %v", k.File, strings.Join(hist, ","), got, want)
		})
		c.Op("c03.cache "+joinOrDash(spec, ",")+" "+strings.Join(acc, ","), strings.Join(got, ","))
		// the three-level model (objCache, objStmCache, ObjectStream) on the physical layout: the
		// merged cross-reference table with what lies behind every entry, superseded members included
		var xk []int
		for n := range d.xnow {
			xk = append(xk, n)
		}
		sort.Ints(xk)
		var xw []string
		for _, n := range xk {
			xw = append(xw, fmt.Sprintf("%d=%s", n, d.xnow[n]))
		}
		c.Op("c03.objstm "+strings.Join(xw, ",")+" "+strings.Join(acc, ","), strings.Join(got, ","))
		c.Count(fmt.Sprintf("objstm-history traps=%d stale-streams=%d", len(d.traps), len(d.stale)))
	}

	// ---- extraction histories --------------------------------------------------------------
	alone := make([]map[string]string, d.npages+1)
	k.Steps = "alone"
	if !c.Guard("C03/revisions", k, 60, func() {
		for p := 1; p <= d.npages; p++ {
			alone[p] = map[string]string{}
			for _, op := range revPageOps {
				alone[p][op] = observe(tabula.Open(path).Pages(p), op)
			}
		}
	}) {
		return
	}
	nontrivial := false
	for p := 1; p <= d.npages; p++ {
		if strings.Contains(alone[p]["Text"], fmt.Sprintf("%sP%d", tag, p)) && d.shadowed > 0 {
			nontrivial = true
		}
	}

	// one Extractor: calls that leave its reader open, then the terminal call
	for trial := r.Range(2, 3); trial > 0; trial-- {
		page := r.Range(1, d.npages)
		op := hx.Pick(r, revPageOps)
		var pre []string
		for n := r.Range(1, 3); n > 0; n-- {
			pre = append(pre, hx.Pick(r, []string{"IsCharacterLevel", "IsMultiColumn", "PageCount"}))
		}
		kk := k
		kk.Steps = fmt.Sprintf("e := Open(f).Pages(%d); e.%s(); e.%s()", page, strings.Join(pre, "(); e."), op)
		var after string
		if !c.Guard("C03/revisions", kk, 60, func() {
			e := tabula.Open(path).Pages(page)
			defer e.Close()
			for _, call := range pre {
				switch call {
				case "IsCharacterLevel":
					e.IsCharacterLevel()
				case "IsMultiColumn":
					e.IsMultiColumn()
				case "PageCount":
					e.PageCount()
				}
			}
			after = observe(e, op)
		}) {
			continue
		}
		c.Check("C03/revised-extractor-history-differs", after == alone[page][op], kk, func() string {
			return fmt.Sprintf("file %s: %s gave %q; Open(f).Pages(%d).%s() with nothing before it gives %q", k.File, kk.Steps, truncate(words(after), 200), page, op, truncate(words(alone[page][op]), 200))
		})
	}

	// one caller-owned reader: page selections one after the other
	type step struct {
		page int
		op   string
	}
	steps := make([]step, r.Range(3, 6))
	var sdesc []string
	for i := range steps {
		steps[i] = step{r.Range(1, d.npages), hx.Pick(r, revPageOps)}
		sdesc = append(sdesc, fmt.Sprintf("%d:%s", steps[i].page, steps[i].op))
	}
	k.Steps = "FromReader(r).Pages(p).op(): " + strings.Join(sdesc, " ")
	sgot := make([]string, len(steps))
	opened := false
	c.Guard("C03/revisions", k, 60, func() {
		rd, err := reader.Open(path)
		if err != nil {
			return
		}
		defer rd.Close()
		opened = true
		for i, s := range steps {
			sgot[i] = observe(tabula.FromReader(rd).Pages(s.page), s.op)
		}
	})
	if opened {
		for i, s := range steps {
			i, s := i, s
			c.Check("C03/revised-shared-reader-history-differs", sgot[i] == alone[s.page][s.op], k, func() string {
				return fmt.Sprintf("file %s: FromReader(r).Pages(%d).%s() as step %d of [%s] on one reader gave %q; the same page on a fresh reader gives %q",
					k.File, s.page, s.op, i+1, strings.Join(sdesc, " "), truncate(words(sgot[i]), 200), truncate(words(alone[s.page][s.op]), 200))
			})
		}
	}

	// the pages inside one extraction of the whole document
	var full string
	k.Steps = "Open(f).Text()"
	c.Guard("C03/revisions", k, 60, func() { full = observe(tabula.Open(path), "Text") })
	var parts []string
	for p := 1; p <= d.npages; p++ {
		if w := words(alone[p]["Text"]); w != "" {
			parts = append(parts, w)
		}
	}
	want := strings.Join(parts, " ")
	c.Check("C03/revised-page-in-document-differs", words(full) == want, k, func() string {
		return fmt.Sprintf("file %s: Open(f).Text() has the words %q; the pages extracted one by one have %q", k.File, truncate(words(full), 300), truncate(want, 300))
	})

	if d.shadowed > 0 {
		c.Count("revisions-doc with a superseded object beside a current one in an object stream")
	}
	c.Count("revisions-doc")
	c.Case("revisions"+k.File+strings.Join(acc, ",")+strings.Join(sdesc, " "), nontrivial)
}
