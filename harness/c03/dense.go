package c03

// runDense: "repeating any operation gives byte-identical text, markdown, chunks and
// exports" x "repeated runs under Go's randomized map iteration", on pages that sit ON the
// thresholds of the layout heuristics instead of comfortably inside one regime:
//
//   - compressed coordinates: the content is drawn under a scaling CTM (one cm, nested cm's,
//     cm with a translation) or simply set tighter than its font size, so that the baseline
//     pitch is 15%..150% of the glyph height (values on both sides of 1/2, 1/3, 1/4, 1);
//   - many distinct baselines (up to ~40), so that whatever collects them in a Go map has
//     several buckets;
//   - one to three columns whose baselines coincide or interleave (offset by a half, third
//     or quarter of the pitch), drawn one column after the other, bottom-up, alternating,
//     row by row or in a shuffled order - the content stream does not visit the baselines
//     top to bottom;
//   - text positioned with absolute Tm, relative Td or one BT..ET per line.
//
// Every public rendering of the page is taken several times in this process and compared
// byte for byte. Nothing here knows what the right grouping into lines is; the expectation
// is the property's: the same bytes + the same options give the same result every time.

import (
	"fmt"
	"os"
	"path/filepath"
	"sort"
	"strconv"
	"strings"

	"github.com/tsawler/tabula"
	"github.com/tsawler/tabula/layout"

	"verifharness/hx"
)

type denseCase struct {
	Kind  string `json:"kind"` // "dense"
	Seed  uint64 `json:"seed"`
	Index int    `json:"index"`
	Shape string `json:"shape"`
}

func num(v float64) string {
	s := strconv.FormatFloat(v, 'f', 4, 64)
	if strings.Contains(s, ".") {
		s = strings.TrimRight(strings.TrimRight(s, "0"), ".")
	}
	if s == "" || s == "-0" {
		return "0"
	}
	return s
}

var (
	denseScales  = []float64{1, 0.5, 0.5, 0.25, 0.25, 0.2, 0.125, 0.1}
	denseHeights = []float64{8, 9, 10, 10, 11, 12, 14}
	// baseline pitch in percent of the glyph height
	denseRatios  = []int{15, 20, 24, 25, 26, 30, 30, 33, 35, 40, 45, 49, 50, 51, 55, 60, 75, 100, 120, 150}
	denseOffsets = []float64{0, 0.5, 0.5, 1.0 / 3, 0.25}
	denseOrders  = []string{"cols-down", "cols-down", "cols-up", "cols-alt", "rows", "shuffled"}
	densePos     = []string{"Tm", "Td", "BT-per-line"}
)

// denseContent returns one page's content stream and a description of it.
func denseContent(r *hx.Rng, tag string) (string, string, int) {
	s := hx.Pick(r, denseScales)
	h := hx.Pick(r, denseHeights)
	ratio := hx.Pick(r, denseRatios)
	pitch := h * float64(ratio) / 100 // device units
	ncols := hx.Pick(r, []int{1, 2, 2, 2, 3})
	rows := r.Range(3, 14)
	off := hx.Pick(r, denseOffsets)
	order := hx.Pick(r, denseOrders)
	pos := hx.Pick(r, densePos)
	ctmStyle := r.Intn(3)
	colWidth := 510.0 / float64(ncols)

	type cell struct {
		col, row int
		x, y     float64 // device space
	}
	var cells []cell
	for c := 0; c < ncols; c++ {
		for rw := 0; rw < rows; rw++ {
			cells = append(cells, cell{c, rw, 54 + float64(c)*colWidth, 730 - float64(c)*off*pitch - float64(rw)*pitch})
		}
	}
	less := func(a, b cell) bool { // cols-down
		if a.col != b.col {
			return a.col < b.col
		}
		return a.row < b.row
	}
	switch order {
	case "cols-down":
		sort.SliceStable(cells, func(i, j int) bool { return less(cells[i], cells[j]) })
	case "cols-up":
		sort.SliceStable(cells, func(i, j int) bool {
			if cells[i].col != cells[j].col {
				return cells[i].col < cells[j].col
			}
			return cells[i].row > cells[j].row
		})
	case "cols-alt":
		sort.SliceStable(cells, func(i, j int) bool {
			if cells[i].col != cells[j].col {
				return cells[i].col < cells[j].col
			}
			if cells[i].col%2 == 1 {
				return cells[i].row > cells[j].row
			}
			return cells[i].row < cells[j].row
		})
	case "rows":
		sort.SliceStable(cells, func(i, j int) bool {
			if cells[i].row != cells[j].row {
				return cells[i].row < cells[j].row
			}
			return cells[i].col < cells[j].col
		})
	case "shuffled":
		hx.Shuffle(r, cells)
	}

	// translation of the scaled space (device units), only with ctmStyle 2
	tx, ty := 0.0, 0.0
	var b strings.Builder
	b.WriteString("q\n")
	switch ctmStyle {
	case 0:
		fmt.Fprintf(&b, "%s 0 0 %s 0 0 cm\n", num(s), num(s))
	case 1: // two nested scalings whose product is s
		fmt.Fprintf(&b, "0.5 0 0 0.5 0 0 cm\nq\n%s 0 0 %s 0 0 cm\n", num(2*s), num(2*s))
	case 2:
		tx, ty = float64(r.Range(0, 6)*3), float64(r.Range(-4, 4)*3)
		fmt.Fprintf(&b, "%s 0 0 %s %s %s cm\n", num(s), num(s), num(tx), num(ty))
	}
	ux := func(x float64) float64 { return (x - tx) / s }
	uy := func(y float64) float64 { return (y - ty) / s }
	fs := h / s
	word := func(c cell) string {
		w := fmt.Sprintf("%sc%dr%d", tag, c.col+1, c.row+1)
		for k := r.Intn(3); k > 0; k-- {
			w += " " + hx.Pick(r, []string{"alpha", "beta", "gamma", "delta", "omega", "of", "the", "and"})
		}
		return w
	}
	switch pos {
	case "Tm":
		fmt.Fprintf(&b, "BT\n/F1 %s Tf\n", num(fs))
		for _, c := range cells {
			fmt.Fprintf(&b, "1 0 0 1 %s %s Tm (%s) Tj\n", num(ux(c.x)), num(uy(c.y)), word(c))
		}
		b.WriteString("ET\n")
	case "Td":
		fmt.Fprintf(&b, "BT\n/F1 %s Tf\n", num(fs))
		px, py := 0.0, 0.0
		for _, c := range cells {
			x, y := ux(c.x), uy(c.y)
			fmt.Fprintf(&b, "%s %s Td (%s) Tj\n", num(x-px), num(y-py), word(c))
			px, py = x, y
		}
		b.WriteString("ET\n")
	case "BT-per-line":
		for _, c := range cells {
			fmt.Fprintf(&b, "BT /F1 %s Tf %s %s Td (%s) Tj ET\n", num(fs), num(ux(c.x)), num(uy(c.y)), word(c))
		}
	}
	if ctmStyle == 1 {
		b.WriteString("Q\n")
	}
	b.WriteString("Q")
	distinct := rows
	if off != 0 && ncols > 1 {
		distinct = rows * ncols
		if off == 0.5 && ncols == 3 {
			distinct = rows*2 + 1
		}
	}
	desc := fmt.Sprintf("scale=%s ctm=%d glyph-height=%s pitch=%d%% cols=%d rows=%d col-offset=%s order=%s pos=%s",
		num(s), ctmStyle, num(h), ratio, ncols, rows, num(off), order, pos)
	return b.String(), desc, distinct
}

func densePDF(contents []string) []byte {
	d := newPDFObjs()
	catalog, root, f := d.alloc(), d.alloc(), d.alloc()
	d.obj(f, "<< /Type /Font /Subtype /Type1 /BaseFont /Helvetica /Encoding /WinAnsiEncoding >>")
	var kids []string
	for _, body := range contents {
		page, cont := d.alloc(), d.alloc()
		kids = append(kids, fmt.Sprintf("%d 0 R", page))
		d.stream(cont, "", body)
		d.obj(page, fmt.Sprintf("<< /Type /Page /Parent %d 0 R /Contents %d 0 R >>", root, cont))
	}
	d.obj(root, fmt.Sprintf("<< /Type /Pages /Kids [%s] /Count %d /MediaBox [0 0 612 792] /Resources << /Font << /F1 %d 0 R >> >> >>", strings.Join(kids, " "), len(contents), f))
	d.obj(catalog, fmt.Sprintf("<< /Type /Catalog /Pages %d 0 R >>", root))
	return d.finish(catalog)
}

func showLines(ls []layout.Line) string {
	var sb strings.Builder
	for _, l := range ls {
		fmt.Fprintf(&sb, "[%d|%s]", len(l.Fragments), l.Text)
	}
	return sb.String()
}

// denseOps: every public rendering of a PDF that goes through the layout heuristics.
var denseOps = []struct {
	name string
	run  func(path string) string
}{
	{"Text", func(p string) string { t, _, err := tabula.Open(p).Text(); return t + errs(err) }},
	{"JoinParagraphs.Text", func(p string) string { t, _, err := tabula.Open(p).JoinParagraphs().Text(); return t + errs(err) }},
	{"ByColumn.Text", func(p string) string { t, _, err := tabula.Open(p).ByColumn().Text(); return t + errs(err) }},
	{"PreserveLayout.Text", func(p string) string { t, _, err := tabula.Open(p).PreserveLayout().Text(); return t + errs(err) }},
	{"ToMarkdown", func(p string) string { t, _, err := tabula.Open(p).ToMarkdown(); return t + errs(err) }},
	{"Lines", func(p string) string { ls, err := tabula.Open(p).Lines(); return showLines(ls) + errs(err) }},
	{"Paragraphs", func(p string) string {
		ps, err := tabula.Open(p).Paragraphs()
		var sb strings.Builder
		for _, x := range ps {
			fmt.Fprintf(&sb, "[%d|%v|%s]", len(x.Lines), x.Style, x.Text)
		}
		return sb.String() + errs(err)
	}},
	{"ReadingOrder", func(p string) string {
		ro, err := tabula.Open(p).ReadingOrder()
		if ro == nil {
			return "nil" + errs(err)
		}
		return fmt.Sprintf("cols=%d ", ro.ColumnCount) + showLines(ro.Lines) + errs(err)
	}},
	{"Headings", func(p string) string {
		hs, err := tabula.Open(p).Headings()
		var sb strings.Builder
		for _, x := range hs {
			fmt.Fprintf(&sb, "[%d|%s]", x.Level, x.Text)
		}
		return sb.String() + errs(err)
	}},
	{"Lists", func(p string) string {
		ls, err := tabula.Open(p).Lists()
		var sb strings.Builder
		for _, l := range ls {
			sb.WriteString("{")
			for _, it := range l.Items {
				fmt.Fprintf(&sb, "[%s|%s|%d]", it.Prefix, it.Text, len(it.Lines))
			}
			sb.WriteString("}")
		}
		return sb.String() + errs(err)
	}},
	{"Blocks", func(p string) string {
		bs, err := tabula.Open(p).Blocks()
		var sb strings.Builder
		for _, bl := range bs {
			sb.WriteString("{")
			for _, ln := range bl.Lines {
				sb.WriteString("[")
				for _, f := range ln {
					sb.WriteString(f.Text + "|")
				}
				sb.WriteString("]")
			}
			sb.WriteString("}")
		}
		return sb.String() + errs(err)
	}},
	{"Elements", func(p string) string {
		es, err := tabula.Open(p).Elements()
		var sb strings.Builder
		for _, e := range es {
			fmt.Fprintf(&sb, "[%v|%s]", e.Type, e.Text)
		}
		return sb.String() + errs(err)
	}},
	{"Document.ExtractText", func(p string) string {
		d, _, err := tabula.Open(p).Document()
		if d == nil {
			return "nil" + errs(err)
		}
		return d.ExtractText() + errs(err)
	}},
	{"Chunks.ToJSONL", func(p string) string {
		ch, _, err := tabula.Open(p).Chunks()
		if err != nil || ch == nil {
			return "nil" + errs(err)
		}
		j, e := ch.ToJSONL()
		return j + errs(e)
	}},
	{"Chunks.ToCSV", func(p string) string {
		ch, _, err := tabula.Open(p).Chunks()
		if err != nil || ch == nil {
			return "nil" + errs(err)
		}
		j, e := ch.ToCSV()
		return j + errs(e)
	}},
}

func runDense(c *hx.Ctx, idx int) {
	r := hx.NewRng(c.Seed ^ 0xde75e).Fork(uint64(idx))
	tag := fmt.Sprintf("z%d", idx)
	npages := 1
	if r.Chance(1, 5) {
		npages = 2
	}
	var contents, descs []string
	baselines := 0
	for p := 0; p < npages; p++ {
		body, desc, n := denseContent(r, fmt.Sprintf("%sp%d", tag, p+1))
		contents = append(contents, body)
		descs = append(descs, desc)
		if n > baselines {
			baselines = n
		}
	}
	path := filepath.Join(c.OutDir, fmt.Sprintf("c03-dense-%d.pdf", idx))
	os.WriteFile(path, densePDF(contents), 0o644)
	defer os.Remove(path)
	k := denseCase{Kind: "dense", Seed: c.Seed, Index: idx, Shape: strings.Join(descs, " || ")}
	reps := c.N(8, 12)
	seen := make([]map[string]int, len(denseOps))
	for i := range seen {
		seen[i] = map[string]int{}
	}
	if !c.Guard("C03/dense", k, 120, func() {
		for rep := 0; rep < reps; rep++ {
			for i, op := range denseOps {
				seen[i][op.run(path)]++
			}
		}
	}) {
		return
	}
	nontrivial := false
	for i, op := range denseOps {
		vs := seen[i]
		for v := range vs {
			if op.name == "Text" && strings.Contains(v, tag+"p1c1r1") {
				nontrivial = true
			}
		}
		c.Check("C03/repeat-differs", len(vs) == 1, k, func() string {
			var ex []string
			for v, cnt := range vs {
				ex = append(ex, fmt.Sprintf("%dx %q", cnt, truncate(v, 200)))
			}
			sort.Strings(ex)
			var two []string
			for v := range vs {
				two = append(two, v)
			}
			sort.Strings(two)
			return fmt.Sprintf("%d runs of Open(f).%s() on the same %d-page PDF (%s) gave %d different results, two of them %s; all: %s; page 1 content stream: %s",
				reps, op.name, npages, k.Shape, len(vs), firstDiff(two[0], two[1]), strings.Join(ex, " | "), truncate(contents[0], 1500))
		})
	}
	switch {
	case baselines > 16:
		c.Count("dense-page baselines>16")
	case baselines > 8:
		c.Count("dense-page baselines 9-16")
	default:
		c.Count("dense-page baselines<=8")
	}
	c.Count("dense-page")
	c.Case("dense"+k.Shape, nontrivial)
}
