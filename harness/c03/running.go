package c03

// Documents with running heads: PDFs of 3-7 pages on which 0-2 header lines and 0-2 footer
// lines repeat from page to page (the same words, or the same words around the page number,
// from the first page or from a later one), above and below 2-5 body lines that every page has
// for itself. Such a document is the only kind on which the header/footer options do anything:
// an extraction with ExcludeHeaders / ExcludeFooters / ExcludeHeadersAndFooters reads all pages,
// decides what repeats and drops it; the same document extracted without the option keeps it.
//
// The property says every one of these results is a function of the document and the options.
// So: 3-8 extractions one after the other on ONE caller-owned reader (tabula.FromReader(r): the
// reader, and whatever it remembers, outlives every extraction), each with its own options
// (none, the three exclusions, JoinParagraphs, page selections) and its own terminal call, some
// on the Extractor value of the step before (the same operation repeated); each result is
// compared with the same chain on a fresh tabula.Open(f) with nothing before it, and repeated
// runs of one Extractor with each other. The logical document also says what a plain Text() has
// to contain: every line the harness wrote on the selected pages, running heads included.
//
// Nothing here knows which lines tabula takes for headers: "the same as alone" and "the lines
// that were written" are the only expectations.

import (
	"fmt"
	"os"
	"path/filepath"
	"strings"

	"github.com/tsawler/tabula"
	"github.com/tsawler/tabula/reader"

	"verifharness/hx"
	"verifharness/writers"
)

type runningCase struct {
	Kind  string `json:"kind"` // "running"
	Seed  uint64 `json:"seed"`
	Index int    `json:"index"`
	Doc   string `json:"doc"`
	Steps string `json:"steps"`
}

type runLine struct {
	y    int
	size int
	text string
}

var runningHeads = []string{"Quarterly Engineering Report", "Confidential Draft", "Annual Survey of Things", "Internal Memo", "Proceedings Volume Seven", "Acme Holdings"}

// genRunningDoc returns the file, the lines of every page (top to bottom) and a description.
func genRunningDoc(r *hx.Rng, tag string) ([]byte, [][]runLine, string) {
	npages := r.Range(3, 7)
	heads := append([]string(nil), runningHeads...)
	hx.Shuffle(r, heads)
	type running struct {
		y, size  int
		text     string
		numbered bool
		from     int
	}
	var runs []running
	nh, nf := r.Range(0, 2), r.Range(0, 2)
	if nh+nf == 0 {
		nh = 1
	}
	for i := 0; i < nh; i++ {
		runs = append(runs, running{y: 772 - 14*i, size: hx.Pick(r, []int{9, 10}), text: heads[i] + " " + tag, numbered: r.Chance(1, 4)})
	}
	for i := 0; i < nf; i++ {
		runs = append(runs, running{y: 44 - 14*i, size: hx.Pick(r, []int{8, 9, 10}), text: heads[2+i] + " " + tag, numbered: r.Chance(1, 2)})
	}
	for i := range runs {
		if r.Chance(1, 4) {
			runs[i].from = 1 // a title page without it
		}
	}
	d := newPDFObjs()
	catalog, root, f := d.alloc(), d.alloc(), d.alloc()
	d.obj(f, "<< /Type /Font /Subtype /Type1 /BaseFont /Helvetica /Encoding /WinAnsiEncoding >>")
	var kids []string
	var pages [][]runLine
	orders := map[string]int{}
	for pg := 1; pg <= npages; pg++ {
		var lines []runLine
		for _, h := range runs {
			if pg-1 < h.from {
				continue
			}
			t := h.text
			if h.numbered {
				t = fmt.Sprintf("%s page %d", h.text, pg)
			}
			lines = append(lines, runLine{h.y, h.size, t})
		}
		y := 640 - 10*r.Intn(4)
		for b := r.Range(2, 5); b > 0; b-- {
			lines = append(lines, runLine{y, 12, fmt.Sprintf("%sp%db%d %s line of page %d", tag, pg, b, hx.Pick(r, []string{"alpha", "bravo", "charlie", "delta", "echo"}), pg)})
			y -= hx.Pick(r, []int{18, 22, 40})
		}
		// the order in which the content stream draws them: top to bottom, body first, or any
		drawn := append([]runLine(nil), lines...)
		order := hx.Pick(r, []string{"top-down", "top-down", "body-first", "shuffled"})
		switch order {
		case "top-down":
			for i := 1; i < len(drawn); i++ {
				for j := i; j > 0 && drawn[j].y > drawn[j-1].y; j-- {
					drawn[j], drawn[j-1] = drawn[j-1], drawn[j]
				}
			}
		case "shuffled":
			hx.Shuffle(r, drawn)
		default:
			nrun := len(lines)
			for _, l := range lines {
				if strings.HasPrefix(l.text, tag+"p") {
					nrun--
				}
			}
			drawn = append(append([]runLine(nil), lines[nrun:]...), lines[:nrun]...)
		}
		orders[order]++
		var body strings.Builder
		for _, l := range drawn {
			fmt.Fprintf(&body, "BT /F1 %d Tf 1 0 0 1 72 %d Tm (%s) Tj ET\n", l.size, l.y, l.text)
		}
		page, cont := d.alloc(), d.alloc()
		kids = append(kids, fmt.Sprintf("%d 0 R", page))
		if r.Chance(1, 2) {
			d.stream(cont, "", body.String())
		} else {
			d.e[cont] = writers.XEntry{Type: 1, F1: d.p.Stream(cont, flateSpelling(r), writers.Deflate([]byte(body.String())), 0)}
		}
		d.obj(page, fmt.Sprintf("<< /Type /Page /Parent %d 0 R /Contents %d 0 R >>", root, cont))
		// the lines as a reader of the page meets them
		sorted := append([]runLine(nil), lines...)
		for i := 1; i < len(sorted); i++ {
			for j := i; j > 0 && sorted[j].y > sorted[j-1].y; j-- {
				sorted[j], sorted[j-1] = sorted[j-1], sorted[j]
			}
		}
		pages = append(pages, sorted)
	}
	d.obj(root, fmt.Sprintf("<< /Type /Pages /Kids [%s] /Count %d /MediaBox [0 0 612 792] /Resources << /Font << /F1 %d 0 R >> >> >>", strings.Join(kids, " "), npages, f))
	d.obj(catalog, fmt.Sprintf("<< /Type /Catalog /Pages %d 0 R >>", root))
	var rd []string
	for _, h := range runs {
		s := fmt.Sprintf("%q@y%d", h.text, h.y)
		if h.numbered {
			s += "+page-number"
		}
		if h.from > 0 {
			s += fmt.Sprintf(" from page %d", h.from+1)
		}
		rd = append(rd, s)
	}
	return d.finish(catalog), pages, fmt.Sprintf("%d pages; running lines %s; 2-5 body lines per page; drawing order %v", npages, strings.Join(rd, ", "), orders)
}

var runningOpts = []string{"ExcludeHeaders", "ExcludeFooters", "ExcludeHeadersAndFooters", "ExcludeHeaders", "ExcludeHeadersAndFooters", "JoinParagraphs"}

type runningStep struct {
	chain []optStep
	op    string
	again bool // the Extractor value of the step before, run once more
}

func (s runningStep) text(base string) string {
	xs := []string{base}
	for _, o := range s.chain {
		xs = append(xs, o.String())
	}
	return strings.Join(xs, ".") + "." + s.op + "()"
}

// selected: the pages (0-based) a chain leaves, nil when it cannot be told here.
func (s runningStep) selected(npages int) []int {
	var sel []int
	for i := 0; i < npages; i++ {
		sel = append(sel, i)
	}
	n := 0
	for _, o := range s.chain {
		switch o.name {
		case "Pages":
			n++
			sel = nil
			for _, a := range o.args {
				if a < 1 || a > npages {
					return nil
				}
				sel = append(sel, a-1)
			}
		case "PageRange":
			n++
			sel = nil
			for a := o.args[0]; a <= o.args[1]; a++ {
				sel = append(sel, a-1)
			}
		}
	}
	if n > 1 {
		return nil
	}
	return sel
}

func (s runningStep) plain() bool {
	for _, o := range s.chain {
		if strings.HasPrefix(o.name, "Exclude") {
			return false
		}
	}
	return true
}

func runRunning(c *hx.Ctx, idx int) {
	r := hx.NewRng(c.Seed ^ 0x4ead5).Fork(uint64(idx))
	tag := fmt.Sprintf("h%d", idx)
	data, pages, desc := genRunningDoc(r, tag)
	npages := len(pages)
	path := filepath.Join(c.OutDir, fmt.Sprintf("c03-running-%d.pdf", idx))
	os.WriteFile(path, data, 0o644)
	defer os.Remove(path)
	k := runningCase{Kind: "running", Seed: c.Seed, Index: idx, Doc: desc}

	steps := make([]runningStep, r.Range(3, 8))
	var sdesc []string
	for i := range steps {
		if i > 0 && r.Chance(1, 4) {
			steps[i] = steps[i-1]
			steps[i].again = true
			sdesc = append(sdesc, "again")
			continue
		}
		var s runningStep
		if r.Chance(2, 3) {
			s.chain = append(s.chain, optStep{hx.Pick(r, runningOpts), nil})
		}
		if r.Chance(1, 3) {
			for {
				if st := genOptStep(r, npages); st.name == "Pages" || st.name == "PageRange" {
					s.chain = append(s.chain, st)
					break
				}
			}
		}
		if len(s.chain) == 2 && r.Bool() {
			s.chain[0], s.chain[1] = s.chain[1], s.chain[0]
		}
		s.op = hx.Pick(r, []string{"Text", "Text", "Text", "ToMarkdown", "Fragments"})
		steps[i] = s
		sdesc = append(sdesc, s.text("FromReader(r)"))
	}
	k.Steps = strings.Join(sdesc, "; ")

	alone := make([]string, len(steps))
	got := make([]string, len(steps))
	var plainAlone, strippedAlone string
	opened := false
	if !c.Guard("C03/running", k, 120, func() {
		memo := map[string]string{}
		for i, s := range steps {
			key := s.text("")
			if v, ok := memo[key]; ok {
				alone[i] = v
				continue
			}
			e := tabula.Open(path)
			for _, o := range s.chain {
				e = o.apply(e)
			}
			alone[i] = observe(e, s.op)
			memo[key] = alone[i]
		}
		plainAlone = observe(tabula.Open(path), "Text")
		strippedAlone = observe(tabula.Open(path).ExcludeHeadersAndFooters(), "Text")
		rd, err := reader.Open(path)
		if err != nil {
			return
		}
		defer rd.Close()
		opened = true
		var e *tabula.Extractor
		for i, s := range steps {
			if !s.again {
				e = tabula.FromReader(rd)
				for _, o := range s.chain {
					e = o.apply(e)
				}
			}
			got[i] = observe(e, s.op)
		}
	}) || !opened {
		return
	}
	for i, s := range steps {
		i, s := i, s
		c.Check("C03/running-heads-shared-reader-history-differs", got[i] == alone[i], k, func() string {
			return fmt.Sprintf("%s: step %d of [%s] on one caller-owned reader gave %q; %s with nothing before it gives %q",
				desc, i+1, k.Steps, truncate(words(got[i]), 300), s.text("Open(f)"), truncate(words(alone[i]), 300))
		})
		if s.again {
			c.Check("C03/running-heads-extractor-repeat-differs", got[i] == got[i-1], k, func() string {
				return fmt.Sprintf("%s: in [%s] step %d runs the Extractor of step %d once more; it gave %q the time before and %q now",
					desc, k.Steps, i+1, i, truncate(words(got[i-1]), 300), truncate(words(got[i]), 300))
			})
		}
		// the logical document: an extraction that excludes nothing shows every line written
		if sel := s.selected(npages); s.plain() && s.op == "Text" && sel != nil {
			w := words(got[i])
			for _, pg := range sel {
				for _, l := range pages[pg] {
					l := l
					pg := pg
					c.Check("C03/running-heads-plain-text-lost-a-line", strings.Contains(w, words(l.text)), k, func() string {
						return fmt.Sprintf("%s: step %d of [%s] on one caller-owned reader excludes nothing and selects page %d, on which the harness wrote %q at y=%d; its text is %q",
							desc, i+1, k.Steps, pg+1, l.text, l.y, truncate(w, 400))
					})
				}
			}
		}
	}
	detected := plainAlone != strippedAlone && strings.Contains(plainAlone, tag+"p1b")
	if detected {
		c.Count("running-heads-doc on which the exclusion removes something")
	}
	c.Count("running-heads-doc")
	c.Case("running"+desc+k.Steps, detected)
}
