package c03

// The process model (Model/Process.lean, Model/OptHeap.lean; Props/C03Process.lean): several
// documents, for each a family of Extractors derived from one base by configuration methods,
// and a schedule that interleaves calls on all of them.  The answers of the real API — result
// class, page indices processed, number of warnings returned — are compared call by call with
// the model's, whose page lists live on a heap of Go slices.  Independently of the model every
// terminal answer is compared with the same chain of calls built afresh and run alone, and the
// per-family programs are run again on one goroutine per family.

import (
	"fmt"
	"os"
	"path/filepath"
	"regexp"
	"strconv"
	"strings"
	"sync"

	"github.com/tsawler/tabula"
	"github.com/tsawler/tabula/core"
	"github.com/tsawler/tabula/reader"

	"verifharness/c20"
	"verifharness/hx"
)

// worldPDF: n pages; page i shows "<tag>PAGE-i"; a messy page shows it among a dozen
// single-character fragments (average fragment length below 2.5: checkMessyPDF warns when such a
// page is the first one processed), any other page beside one ordinary line.
func worldPDF(n int, tag string, messy []bool) []byte {
	d := newPDFObjs()
	catalog, root, f := d.alloc(), d.alloc(), d.alloc()
	d.obj(f, "<< /Type /Font /Subtype /Type1 /BaseFont /Helvetica /Encoding /WinAnsiEncoding >>")
	var kids []string
	for i := 1; i <= n; i++ {
		page, cont := d.alloc(), d.alloc()
		kids = append(kids, fmt.Sprintf("%d 0 R", page))
		var b strings.Builder
		fmt.Fprintf(&b, "BT /F1 12 Tf 1 0 0 1 72 700 Tm (%sPAGE-%d) Tj ", tag, i)
		if messy[i-1] {
			for k := 0; k < 14; k++ {
				fmt.Fprintf(&b, "1 0 0 1 %d %d Tm (%c) Tj ", 72+40*(k%7), 640-30*(k/7), 'a'+k)
			}
		} else {
			fmt.Fprintf(&b, "1 0 0 1 72 660 Tm (second line of page %d) Tj ", i)
		}
		b.WriteString("ET")
		d.stream(cont, "", b.String())
		d.obj(page, fmt.Sprintf("<< /Type /Page /Parent %d 0 R /Contents %d 0 R >>", root, cont))
	}
	d.obj(root, fmt.Sprintf("<< /Type /Pages /Kids [%s] /Count %d /MediaBox [0 0 612 792] /Resources << /Font << /F1 %d 0 R >> >> >>", strings.Join(kids, " "), n, f))
	d.obj(catalog, fmt.Sprintf("<< /Type /Catalog /Pages %d 0 R >>", root))
	return d.finish(catalog)
}

// worldBrokenTree: three pages under a root that lists one of them twice, lists itself, lists an
// integer, or has a kid without /Type.
func worldBrokenTree(r *hx.Rng, tag string) []byte {
	d := newPDFObjs()
	catalog, root, f := d.alloc(), d.alloc(), d.alloc()
	d.obj(f, "<< /Type /Font /Subtype /Type1 /BaseFont /Helvetica /Encoding /WinAnsiEncoding >>")
	var kids []string
	fault := r.Intn(4)
	for i := 1; i <= 3; i++ {
		page, cont := d.alloc(), d.alloc()
		kids = append(kids, fmt.Sprintf("%d 0 R", page))
		d.stream(cont, "", fmt.Sprintf("BT /F1 12 Tf 1 0 0 1 72 700 Tm (%sPAGE-%d) Tj ET", tag, i))
		typ := "/Type /Page "
		if fault == 3 && i == 2 {
			typ = ""
		}
		d.obj(page, fmt.Sprintf("<< %s/Parent %d 0 R /Contents %d 0 R >>", typ, root, cont))
	}
	at := r.Intn(len(kids) + 1)
	extra := ""
	switch fault {
	case 0:
		extra = hx.Pick(r, kids)
	case 1:
		extra = fmt.Sprintf("%d 0 R", root)
	case 2:
		n := d.alloc()
		d.obj(n, "42")
		extra = fmt.Sprintf("%d 0 R", n)
	}
	if extra != "" {
		kids = append(kids[:at], append([]string{extra}, kids[at:]...)...)
	}
	d.obj(root, fmt.Sprintf("<< /Type /Pages /Kids [%s] /Count 3 /MediaBox [0 0 612 792] /Resources << /Font << /F1 %d 0 R >> >> >>", strings.Join(kids, " "), f))
	d.obj(catalog, fmt.Sprintf("<< /Type /Catalog /Pages %d 0 R >>", root))
	return d.finish(catalog)
}

var pageToken = regexp.MustCompile(`PAGE-(\d+)`)

func pagesOf(s string) string {
	var out []string
	for _, m := range pageToken.FindAllStringSubmatch(s, -1) {
		n, _ := strconv.Atoi(m[1])
		out = append(out, strconv.Itoa(n-1))
	}
	if len(out) == 0 {
		return "-"
	}
	return strings.Join(out, "+")
}

type worldDoc struct {
	path   string
	wire   string
	pdf    bool
	broken bool
	shared bool // FromReader
	npages int
}

type worldCall struct {
	fam    int
	kind   byte // d t n c
	node   int
	step   optStep
	term   string
	parent int
}

func (s optStep) wire() string {
	switch s.name {
	case "Pages":
		var xs []string
		for _, a := range s.args {
			xs = append(xs, strconv.Itoa(a))
		}
		return "P" + strings.Join(xs, "+")
	case "PageRange":
		return fmt.Sprintf("R%d_%d", s.args[0], s.args[1])
	case "ExcludeHeaders":
		return "H"
	case "ExcludeFooters":
		return "F"
	case "ExcludeHeadersAndFooters":
		return "B"
	case "JoinParagraphs":
		return "J"
	case "ByColumn":
		return "C"
	}
	return "L"
}

// answerOf runs one terminal / non-terminal operation and puts the answer in the model's words.
func answerOf(e *tabula.Extractor, term string, pdf bool) string {
	switch term {
	case "text":
		t, w, err := e.Text()
		if err != nil {
			return "err"
		}
		if !pdf {
			return fmt.Sprintf("whole/w%d", len(w))
		}
		return fmt.Sprintf("pages:%s/w%d", pagesOf(t), len(w))
	case "frag":
		fr, w, err := e.Fragments()
		if err != nil {
			return "err"
		}
		var sb strings.Builder
		for _, f := range fr {
			sb.WriteString(f.Text + " ")
		}
		return fmt.Sprintf("pages:%s/w%d", pagesOf(sb.String()), len(w))
	case "doc":
		doc, w, err := e.Document()
		if err != nil || doc == nil {
			return "err"
		}
		if !pdf {
			return fmt.Sprintf("whole/w%d", len(w))
		}
		var ps []string
		for _, p := range doc.Pages {
			ps = append(ps, strconv.Itoa(p.Number-1))
		}
		return fmt.Sprintf("pages:%s/w%d", joinOrDash(ps, "+"), len(w))
	case "count":
		n, err := e.PageCount()
		if err != nil {
			return "err"
		}
		return fmt.Sprintf("count:%d", n)
	}
	return "?"
}

func runWorld(c *hx.Ctx, idx int) {
	r := hx.NewRng(c.Seed ^ 0x3041d).Fork(uint64(idx))
	ndocs := r.Range(1, 3)
	docs := make([]worldDoc, ndocs)
	var dw []string
	defer func() {
		for _, d := range docs {
			os.Remove(d.path)
		}
	}()
	for i := range docs {
		tag := fmt.Sprintf("w%dd%d", idx, i)
		d := &docs[i]
		switch x := r.Intn(10); {
		case x < 7:
			d.pdf = true
			d.npages = r.Range(2, 6)
			messy := make([]bool, d.npages)
			bits := ""
			for p := range messy {
				messy[p] = r.Chance(1, 3)
				if messy[p] {
					bits += "1"
				} else {
					bits += "0"
				}
			}
			d.shared = r.Chance(1, 3)
			d.path = filepath.Join(c.OutDir, fmt.Sprintf("c03-world-%d-%d.pdf", idx, i))
			os.WriteFile(d.path, worldPDF(d.npages, tag, messy), 0o644)
			base := "f"
			if d.shared {
				base = "r"
			}
			d.wire = fmt.Sprintf("%d:%s:p:%s", d.npages, base, bits)
		case x < 8 && r.Bool():
			d.pdf, d.broken = true, true
			d.npages = 3
			d.path = filepath.Join(c.OutDir, fmt.Sprintf("c03-world-%d-%d.pdf", idx, i))
			os.WriteFile(d.path, []byte("%PDF-1.4\n1 0 obj\n<< /Length 5 >>\nstream\n1 2 3"), 0o644)
			d.wire = "x:f:p:-"
		case x < 8:
			// a file that opens (header, cross-reference table, trailer, catalog in order) and whose
			// page tree does not fit ISO 32000-1 §7.7.3: the reader stays open, no page is ever reached
			d.pdf, d.broken = true, true
			d.npages = 3
			d.shared = r.Chance(1, 3)
			d.path = filepath.Join(c.OutDir, fmt.Sprintf("c03-world-%d-%d.pdf", idx, i))
			os.WriteFile(d.path, worldBrokenTree(r, tag), 0o644)
			d.wire = "y:f:p:-"
			if d.shared {
				d.wire = "y:r:p:-"
			}
		default:
			f := hx.Pick(r, []string{c20.FDOCX, c20.FODT, c20.FXLSX, c20.FPPTX, c20.FHTML, c20.FEPUB})
			d.npages = 3
			d.path = filepath.Join(c.OutDir, fmt.Sprintf("c03-world-%d-%d%s", idx, i, c20.ExtOf(f)))
			os.WriteFile(d.path, c20.GenDocument(r, f, tag), 0o644)
			d.wire = "1:f:" + map[string]string{c20.FDOCX: "d", c20.FODT: "o", c20.FXLSX: "x", c20.FPPTX: "t", c20.FHTML: "h", c20.FEPUB: "e"}[f] + ":-"
		}
		dw = append(dw, d.wire)
	}
	// per-family programs
	progs := make([][]worldCall, ndocs)
	nnodes := make([]int, ndocs)
	parents := make([][]int, ndocs)
	steps := make([][]optStep, ndocs)
	for i := range docs {
		nnodes[i] = 1
		parents[i] = []int{-1}
		steps[i] = []optStep{{}}
		for a := r.Range(3, 9); a > 0; a-- {
			switch x := r.Intn(10); {
			case x < 2 && nnodes[i] < 7:
				// siblings: two or three page selections derived from one parent before any of them
				// runs, the parent preferably one that selected pages itself (a page list with
				// spare capacity is where a shallow copy of the options shows)
				par := r.Intn(nnodes[i])
				var sel []int
				for n := 1; n < nnodes[i]; n++ {
					if steps[i][n].name == "PageRange" || steps[i][n].name == "Pages" {
						sel = append(sel, n)
					}
				}
				if len(sel) > 0 && r.Chance(4, 5) {
					par = hx.Pick(r, sel)
				} else if docs[i].npages >= 3 {
					st := optStep{"PageRange", []int{1, 3}}
					progs[i] = append(progs[i], worldCall{fam: i, kind: 'd', node: par, step: st})
					parents[i] = append(parents[i], par)
					steps[i] = append(steps[i], st)
					par = nnodes[i]
					nnodes[i]++
				}
				for kk := r.Range(2, 3); kk > 0; kk-- {
					st := optStep{"Pages", []int{r.Range(1, docs[i].npages)}}
					progs[i] = append(progs[i], worldCall{fam: i, kind: 'd', node: par, step: st})
					parents[i] = append(parents[i], par)
					steps[i] = append(steps[i], st)
					nnodes[i]++
				}
			case x < 4 && nnodes[i] < 8:
				par := r.Intn(nnodes[i])
				st := genOptStep(r, docs[i].npages)
				if r.Chance(1, 14) {
					st = optStep{"PageRange", []int{3, 1}}
				}
				progs[i] = append(progs[i], worldCall{fam: i, kind: 'd', node: par, step: st})
				parents[i] = append(parents[i], par)
				steps[i] = append(steps[i], st)
				nnodes[i]++
			case x < 8:
				terms := []string{"text", "text", "frag", "doc"}
				if !docs[i].pdf {
					terms = []string{"text", "doc", "frag"}
				}
				progs[i] = append(progs[i], worldCall{fam: i, kind: 't', node: r.Intn(nnodes[i]), term: hx.Pick(r, terms)})
			case x < 9 && docs[i].pdf:
				progs[i] = append(progs[i], worldCall{fam: i, kind: 'n', node: r.Intn(nnodes[i])})
			default:
				progs[i] = append(progs[i], worldCall{fam: i, kind: 'c', node: r.Intn(nnodes[i])})
			}
		}
		// every extractor of the family once more at the end
		for n := 0; n < nnodes[i]; n++ {
			progs[i] = append(progs[i], worldCall{fam: i, kind: 't', node: n, term: "text"})
		}
	}
	// one interleaving
	var sched []worldCall
	pos := make([]int, ndocs)
	for {
		var live []int
		for i := range progs {
			if pos[i] < len(progs[i]) {
				live = append(live, i)
			}
		}
		if len(live) == 0 {
			break
		}
		i := hx.Pick(r, live)
		sched = append(sched, progs[i][pos[i]])
		pos[i]++
	}
	var sw []string
	for _, cl := range sched {
		switch cl.kind {
		case 'd':
			sw = append(sw, fmt.Sprintf("%d/d%d/%s", cl.fam, cl.node, cl.step.wire()))
		case 't':
			sw = append(sw, fmt.Sprintf("%d/t%d/%s", cl.fam, cl.node, cl.term))
		case 'n':
			sw = append(sw, fmt.Sprintf("%d/n%d", cl.fam, cl.node))
		case 'c':
			sw = append(sw, fmt.Sprintf("%d/c%d", cl.fam, cl.node))
		}
	}
	k := orderCase{"world", c.Seed, idx, strings.Join(dw, ";") + " " + strings.Join(sw, ",")}

	// run a list of calls (of one family or of all) on fresh bases
	run := func(calls []worldCall, only int) []string {
		live := make([][]*tabula.Extractor, ndocs)
		var readers []*reader.Reader
		defer func() {
			for _, rd := range readers {
				rd.Close()
			}
		}()
		for i, d := range docs {
			if only >= 0 && i != only {
				continue
			}
			if d.shared {
				rd, err := reader.Open(d.path)
				if err != nil {
					live[i] = []*tabula.Extractor{tabula.Open(d.path)}
					continue
				}
				readers = append(readers, rd)
				live[i] = []*tabula.Extractor{tabula.FromReader(rd)}
			} else {
				live[i] = []*tabula.Extractor{tabula.Open(d.path)}
			}
		}
		var out []string
		for _, cl := range calls {
			e := live[cl.fam][cl.node]
			switch cl.kind {
			case 'd':
				live[cl.fam] = append(live[cl.fam], cl.step.apply(e))
				out = append(out, "none")
			case 't':
				out = append(out, answerOf(e, cl.term, docs[cl.fam].pdf))
			case 'n':
				out = append(out, answerOf(e, "count", true))
			case 'c':
				e.Close()
				out = append(out, "closed")
			}
		}
		return out
	}
	chain := func(fam, n int) []optStep {
		var rev []optStep
		for ; n > 0; n = parents[fam][n] {
			rev = append(rev, steps[fam][n])
		}
		for i, j := 0, len(rev)-1; i < j; i, j = i+1, j-1 {
			rev[i], rev[j] = rev[j], rev[i]
		}
		return rev
	}
	var got []string
	alone := make([]string, len(sched))
	conc := make([][]string, ndocs)
	if !c.Guard("C03/world", k, 120, func() {
		got = run(sched, -1)
		// every terminal / PageCount answer against the same chain built afresh and run alone
		for i, cl := range sched {
			if cl.kind != 't' && cl.kind != 'n' {
				continue
			}
			e := tabula.Open(docs[cl.fam].path)
			for _, s := range chain(cl.fam, cl.node) {
				e = s.apply(e)
			}
			term := cl.term
			if cl.kind == 'n' {
				term = "count"
			}
			alone[i] = answerOf(e, term, docs[cl.fam].pdf)
			e.Close()
		}
		// the per-family programs, one goroutine per family
		var wg sync.WaitGroup
		for i := range docs {
			wg.Add(1)
			go func(i int) {
				defer wg.Done()
				conc[i] = run(progs[i], i)
			}(i)
		}
		wg.Wait()
	}) {
		return
	}
	nontrivial := false
	seq := make([][]string, ndocs)
	for i, cl := range sched {
		seq[cl.fam] = append(seq[cl.fam], got[i])
		if strings.HasPrefix(got[i], "pages:") {
			nontrivial = true
		}
		if alone[i] == "" {
			continue
		}
		i := i
		c.Check("C03/answer-depends-on-history", got[i] == alone[i], k, func() string {
			return fmt.Sprintf("documents %s, schedule %s: call %d (%s) answered %s; the same chain of configuration calls built on a fresh Open(f) and run alone answers %s (result class, page indices processed, /w = number of warnings returned; a document x is a file cut off inside its first object, a document y a PDF that opens and whose page tree lists a page twice, itself, an integer or a kid without /Type)", strings.Join(dw, ";"), strings.Join(sw, ","), i+1, sw[i], got[i], alone[i])
		})
	}
	for i := range docs {
		i := i
		c.Check("C03/concurrent-family-differs", strings.Join(conc[i], ";") == strings.Join(seq[i], ";"), k, func() string {
			return fmt.Sprintf("documents %s: the calls on document %d run on a goroutine of their own (beside %d other families) answered %v, inside the sequential schedule %v", strings.Join(dw, ";"), i, ndocs-1, conc[i], seq[i])
		})
	}
	c.Op("c03.world "+strings.Join(dw, ";")+" "+strings.Join(sw, ","), strings.Join(got, ";"))
	c.Count(fmt.Sprintf("world docs=%d", ndocs))
	c.Case("world"+k.What, nontrivial)
}

// ---- the caches of a reader ---------------------------------------------------------------

func runCache(c *hx.Ctx, idx int) {
	r := hx.NewRng(c.Seed ^ 0xcac4e).Fork(uint64(idx))
	d := newPDFObjs()
	catalog, root, page := d.alloc(), d.alloc(), d.alloc()
	d.obj(page, fmt.Sprintf("<< /Type /Page /Parent %d 0 R /MediaBox [0 0 612 792] >>", root))
	d.obj(root, fmt.Sprintf("<< /Type /Pages /Kids [%d 0 R] /Count 1 >>", page))
	d.obj(catalog, fmt.Sprintf("<< /Type /Catalog /Pages %d 0 R >>", root))
	vals := map[int]int{}
	var spec []string
	for n := r.Range(2, 8); n > 0; n-- {
		o := d.alloc()
		if r.Chance(1, 5) {
			continue // a number no object has
		}
		vals[o] = r.Range(-500, 5000)
		d.obj(o, strconv.Itoa(vals[o]))
		spec = append(spec, fmt.Sprintf("%d=%d", o, vals[o]))
	}
	path := filepath.Join(c.OutDir, fmt.Sprintf("c03-cache-%d.pdf", idx))
	os.WriteFile(path, d.finish(catalog), 0o644)
	defer os.Remove(path)
	var acc []string
	var nums []int
	for n := r.Range(1, 12); n > 0; n-- {
		if r.Chance(1, 6) {
			acc = append(acc, "c")
			nums = append(nums, -1)
			continue
		}
		o := r.Range(4, d.n+2)
		acc = append(acc, fmt.Sprintf("g%d", o))
		nums = append(nums, o)
	}
	k := orderCase{"cache", c.Seed, idx, strings.Join(spec, ",") + " " + strings.Join(acc, ",")}
	var got, fresh []string
	if !c.Guard("C03/cache", k, 30, func() {
		rd, err := reader.Open(path)
		if err != nil {
			return
		}
		defer rd.Close()
		look := func(rd *reader.Reader, o int) string {
			obj, err := rd.GetObject(o)
			if err != nil {
				return "-"
			}
			if v, ok := obj.(core.Int); ok {
				return strconv.Itoa(int(v))
			}
			return fmt.Sprintf("?%T", obj)
		}
		for _, o := range nums {
			if o < 0 {
				rd.ClearCache()
				got = append(got, "-")
				fresh = append(fresh, "-")
				continue
			}
			got = append(got, look(rd, o))
			r2, err := reader.Open(path)
			if err != nil {
				fresh = append(fresh, "err-open")
				continue
			}
			fresh = append(fresh, look(r2, o))
			r2.Close()
		}
	}) {
		return
	}
	if got == nil {
		return
	}
	c.Check("C03/lookup-depends-on-reader-history", strings.Join(got, ",") == strings.Join(fresh, ","), k, func() string {
		return fmt.Sprintf("objects %s, accesses %s on one reader gave %v; each look-up on a reader of its own gives %v", strings.Join(spec, ","), strings.Join(acc, ","), got, fresh)
	})
	c.Op("c03.cache "+joinOrDash(spec, ",")+" "+strings.Join(acc, ","), strings.Join(got, ","))
	c.Count("reader-cache")
	c.Case("cache"+k.What, len(spec) > 0)
}

// ---- ResolveDeep on object graphs with cycles ---------------------------------------------

func shapeOf(o core.Object, depth int) string {
	if depth > 12 {
		return "…"
	}
	switch v := o.(type) {
	case core.Dict:
		var sb strings.Builder
		sb.WriteString("{")
		for _, key := range hx.SortedKeys(v) {
			sb.WriteString(key + ":" + shapeOf(v[key], depth+1) + " ")
		}
		return sb.String() + "}"
	case core.Array:
		var sb strings.Builder
		sb.WriteString("[")
		for _, x := range v {
			sb.WriteString(shapeOf(x, depth+1) + " ")
		}
		return sb.String() + "]"
	case core.IndirectRef:
		return fmt.Sprintf("ref%d", v.Number)
	case core.Int:
		return strconv.Itoa(int(v))
	case core.Name:
		return "/" + string(v)
	case nil:
		return "nil"
	}
	return fmt.Sprintf("%T", o)
}

// runResolveDeep: a handful of dictionaries that refer to each other (cycles, diamonds), resolved
// from a dictionary that refers to several of them; the result must have the same shape on every run.
func runResolveDeep(c *hx.Ctx, idx int) {
	r := hx.NewRng(c.Seed ^ 0x4e5d).Fork(uint64(idx))
	d := newPDFObjs()
	catalog, root, page := d.alloc(), d.alloc(), d.alloc()
	d.obj(page, fmt.Sprintf("<< /Type /Page /Parent %d 0 R /MediaBox [0 0 612 792] >>", root))
	d.obj(root, fmt.Sprintf("<< /Type /Pages /Kids [%d 0 R] /Count 1 >>", page))
	d.obj(catalog, fmt.Sprintf("<< /Type /Catalog /Pages %d 0 R >>", root))
	m := r.Range(2, 5)
	first := d.n + 1
	var desc []string
	for i := 0; i < m; i++ {
		o := d.alloc()
		body := fmt.Sprintf("<< /N %d", o)
		for _, key := range []string{"A", "B", "C"} {
			if r.Chance(3, 5) {
				t := first + r.Intn(m)
				if r.Chance(1, 4) {
					body += fmt.Sprintf(" /%s [%d 0 R %d 0 R]", key, t, first+r.Intn(m))
				} else {
					body += fmt.Sprintf(" /%s %d 0 R", key, t)
				}
			}
		}
		body += " >>"
		d.obj(o, body)
		desc = append(desc, fmt.Sprintf("%d=%s", o, body))
	}
	path := filepath.Join(c.OutDir, fmt.Sprintf("c03-resolve-%d.pdf", idx))
	os.WriteFile(path, d.finish(catalog), 0o644)
	defer os.Remove(path)
	top := core.Dict{}
	for _, key := range []string{"P", "Q", "R", "S"} {
		if r.Chance(3, 4) {
			top[key] = core.IndirectRef{Number: first + r.Intn(m)}
		}
	}
	k := orderCase{"resolve", c.Seed, idx, strings.Join(desc, " ") + " from " + shapeOf(top, 0)}
	var distinct map[string]int
	if !c.Guard("C03/resolve", k, 30, func() {
		_, distinct = same(12, func() string {
			rd, err := reader.Open(path)
			if err != nil {
				return "err-open"
			}
			defer rd.Close()
			res, err := rd.ResolveDeep(top)
			if err != nil {
				return "err"
			}
			return shapeOf(res, 0)
		})
	}) {
		return
	}
	c.Check("C03/resolve-deep-repeat-differs", len(distinct) == 1, k, func() string {
		return fmt.Sprintf("12 calls of ResolveDeep on the same object graph (%s) gave results of different shapes: %s", k.What, showDistinct(distinct))
	})
	c.Count("resolve-deep")
	c.Case("resolve"+k.What, len(top) > 1)
}
