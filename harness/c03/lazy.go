package c03

// Documents that open and then disappoint: PDFs whose header, cross-reference table, trailer
// and catalog are in order (reader.Open succeeds, the reader stays open) but whose page tree or
// one of whose pages is not what ISO 32000-1 §7.7.3 asks for: a /Kids entry listed twice, a
// subtree shared between two parents, a kid that leads back to an ancestor, a kid that is an
// integer / an array / null / an object the file does not have, a node without /Type or with
// another type, a /Pages node without /Kids or with /Kids that is not an array, a /Count that
// is a name, a catalog without /Pages; or, one level further down, a page whose /Contents is
// not a stream, does not exist, does not inflate or ends inside an operand, whose /Resources or
// font is an integer. One document in five has no fault at all (the control).
//
// What such a document answers is not this file's business (C01/C02 say what must be refused).
// The property says: whatever it answers, it answers every time — "the result of an extraction
// depends only on the document bytes and the options ... whether it runs alone [or] after any
// other extractions ... including calls on inputs that ... fail". So the only expectation is
// "the same as the same call alone":
//
//   - one Extractor: 2-5 calls, among them the ones that leave the reader open (PageCount,
//     IsCharacterLevel, IsMultiColumn) and terminal ones (after which the Extractor opens the
//     file again), each answer compared with the same call on a fresh Open(f) with the same
//     page selection and nothing before it;
//   - one caller-owned reader: 3-6 steps through tabula.FromReader(r) (whole document, one
//     page, PageCount) and on the reader itself (PageCount, GetPage(i) + ExtractText), each
//     compared with the same step on a reader of its own.
//
// Answers are compared as (words of the text | number | flag, error or not): never the
// wording of an error.

import (
	"fmt"
	"os"
	"path/filepath"
	"strconv"
	"strings"

	"github.com/tsawler/tabula"
	"github.com/tsawler/tabula/reader"

	"verifharness/hx"
	"verifharness/writers"
)

type lazyCase struct {
	Kind  string `json:"kind"` // "lazy"
	Seed  uint64 `json:"seed"`
	Index int    `json:"index"`
	Fault string `json:"fault"`
	Tree  string `json:"tree"`
	Steps string `json:"steps"`
}

type lzNode struct {
	num    int
	leaf   bool
	page   int // leaf: 1-based
	kids   []*lzNode
	parent *lzNode
	// what is written (faults edit these)
	typ      string   // "/Type /Pages", "/Type /Page", "" ...
	kidRefs  []string // inner: the entries of /Kids
	kidsText string   // inner: when non-empty, written instead of the array ("-" = no /Kids at all)
	count    string   // inner: the /Count value
	contents string   // leaf: the /Contents value
	res      string   // leaf: the /Resources value
}

func (n *lzNode) leaves() int {
	if n.leaf {
		return 1
	}
	t := 0
	for _, k := range n.kids {
		t += k.leaves()
	}
	return t
}

func (n *lzNode) shape() string {
	if n.leaf {
		return fmt.Sprintf("p%d", n.page)
	}
	var ks []string
	for _, k := range n.kids {
		ks = append(ks, k.shape())
	}
	return fmt.Sprintf("%d(%s)", n.num, strings.Join(ks, " "))
}

var lazyTreeFaults = []string{"kid-twice", "shared-subtree", "kid-is-ancestor", "kid-integer", "kid-array", "kid-missing-object", "kid-null",
	"node-without-type", "node-of-other-type", "kids-missing", "kids-not-array", "count-not-integer", "catalog-without-pages", "catalog-pages-integer"}
var lazyPageFaults = []string{"contents-integer", "contents-missing-object", "contents-bad-flate", "contents-ends-mid-operand", "resources-integer", "font-integer"}

// genLazyDoc writes the document; the page i shows "<tag>PAGE-i".
func genLazyDoc(r *hx.Rng, tag string) (data []byte, npages int, fault, tree string) {
	d := newPDFObjs()
	catalog, rootNum, font := d.alloc(), d.alloc(), d.alloc()
	npages = r.Range(2, 5)
	root := &lzNode{num: rootNum}
	var inners, leaves, all []*lzNode
	inners = append(inners, root)
	for pg := 1; pg <= npages; {
		parent := root
		k := 1
		if r.Chance(2, 5) {
			parent = &lzNode{num: d.alloc(), parent: root}
			root.kids = append(root.kids, parent)
			inners = append(inners, parent)
			k = r.Range(1, 3)
		}
		for ; k > 0 && pg <= npages; k-- {
			l := &lzNode{num: d.alloc(), leaf: true, page: pg, parent: parent}
			parent.kids = append(parent.kids, l)
			leaves = append(leaves, l)
			pg++
		}
	}
	conts := map[*lzNode]int{}
	for _, l := range leaves {
		conts[l] = d.alloc()
	}
	all = append(append(all, inners...), leaves...)
	for _, n := range all {
		if n.leaf {
			n.typ = "/Type /Page"
			n.contents = fmt.Sprintf("%d 0 R", conts[n])
			n.res = fmt.Sprintf("<< /Font << /F1 %d 0 R >> >>", font)
			continue
		}
		n.typ = "/Type /Pages"
		n.count = fmt.Sprint(n.leaves())
		for _, k := range n.kids {
			n.kidRefs = append(n.kidRefs, fmt.Sprintf("%d 0 R", k.num))
		}
	}
	tree = root.shape()
	insert := func(n *lzNode, ref string) {
		at := r.Intn(len(n.kidRefs) + 1)
		n.kidRefs = append(n.kidRefs[:at], append([]string{ref}, n.kidRefs[at:]...)...)
	}
	catalogBody := fmt.Sprintf("<< /Type /Catalog /Pages %d 0 R >>", rootNum)
	contentOf := func(l *lzNode) string {
		return fmt.Sprintf("BT /F1 12 Tf 1 0 0 1 72 700 Tm (%sPAGE-%d) Tj 1 0 0 1 72 660 Tm (second line of page %d) Tj ET", tag, l.page, l.page)
	}
	rawContent := map[*lzNode][2]string{} // leaf -> (dict, data) written instead of the ordinary content stream

	fault = "none"
	if !r.Chance(1, 5) {
		if r.Chance(3, 4) {
			fault = hx.Pick(r, lazyTreeFaults)
		} else {
			fault = hx.Pick(r, lazyPageFaults)
		}
	}
	where := ""
	switch fault {
	case "kid-twice":
		n := hx.Pick(r, inners)
		ref := hx.Pick(r, n.kidRefs)
		insert(n, ref)
		where = fmt.Sprintf("%s in the /Kids of %d", ref, n.num)
	case "shared-subtree":
		// a node listed by its own parent and by another /Pages node that is not below it
		x := hx.Pick(r, all[1:])
		var cands []*lzNode
		for _, a := range inners {
			if a != x && a != x.parent && a.parent != x {
				cands = append(cands, a)
			}
		}
		if len(cands) == 0 {
			// a flat tree: the only other place is the same parent
			fault = "kid-twice"
			insert(x.parent, fmt.Sprintf("%d 0 R", x.num))
			where = fmt.Sprintf("%d 0 R in the /Kids of %d", x.num, x.parent.num)
			break
		}
		a := hx.Pick(r, cands)
		insert(a, fmt.Sprintf("%d 0 R", x.num))
		where = fmt.Sprintf("%d also in the /Kids of %d", x.num, a.num)
	case "kid-is-ancestor":
		n := hx.Pick(r, inners)
		anc := n
		if n.parent != nil && r.Bool() {
			anc = n.parent
		}
		insert(n, fmt.Sprintf("%d 0 R", anc.num))
		where = fmt.Sprintf("%d in the /Kids of %d", anc.num, n.num)
	case "kid-integer", "kid-array":
		o := d.alloc()
		if fault == "kid-integer" {
			d.obj(o, "42")
		} else {
			d.obj(o, "[ 1 2 ]")
		}
		n := hx.Pick(r, inners)
		insert(n, fmt.Sprintf("%d 0 R", o))
		where = fmt.Sprintf("object %d in the /Kids of %d", o, n.num)
	case "kid-missing-object":
		o := d.alloc() // never written
		n := hx.Pick(r, inners)
		insert(n, fmt.Sprintf("%d 0 R", o))
		where = fmt.Sprintf("%d 0 R (no such object) in the /Kids of %d", o, n.num)
	case "kid-null":
		n := hx.Pick(r, inners)
		insert(n, "null")
		where = fmt.Sprintf("in the /Kids of %d", n.num)
	case "node-without-type":
		n := hx.Pick(r, all)
		n.typ = ""
		where = fmt.Sprintf("node %d", n.num)
	case "node-of-other-type":
		n := hx.Pick(r, all)
		n.typ = hx.Pick(r, []string{"/Type /Font", "/Type /Catalog", "/Type 7", "/Type /Pagez"})
		where = fmt.Sprintf("node %d %s", n.num, n.typ)
	case "kids-missing":
		n := hx.Pick(r, inners)
		n.kidsText = "-"
		where = fmt.Sprintf("node %d", n.num)
	case "kids-not-array":
		n := hx.Pick(r, inners)
		n.kidsText = hx.Pick(r, []string{"7", "/None", "(kids)", "<< >>"})
		where = fmt.Sprintf("node %d /Kids %s", n.num, n.kidsText)
	case "count-not-integer":
		n := hx.Pick(r, inners)
		n.count = hx.Pick(r, []string{"/Three", "(3)", "[ 3 ]", "null"})
		where = fmt.Sprintf("node %d /Count %s", n.num, n.count)
	case "catalog-without-pages":
		catalogBody = "<< /Type /Catalog >>"
	case "catalog-pages-integer":
		o := d.alloc()
		d.obj(o, "7")
		catalogBody = fmt.Sprintf("<< /Type /Catalog /Pages %d 0 R >>", o)
	case "contents-integer":
		l := hx.Pick(r, leaves)
		o := d.alloc()
		d.obj(o, "42")
		l.contents = fmt.Sprintf("%d 0 R", o)
		where = fmt.Sprintf("page %d", l.page)
	case "contents-missing-object":
		l := hx.Pick(r, leaves)
		l.contents = fmt.Sprintf("%d 0 R", d.alloc())
		where = fmt.Sprintf("page %d", l.page)
	case "contents-bad-flate":
		l := hx.Pick(r, leaves)
		good := writers.Deflate([]byte(contentOf(l)))
		bad := append([]byte(nil), good...)
		switch r.Intn(3) {
		case 0:
			bad = bad[:len(bad)/2] // ends inside the deflate data
		case 1:
			bad = []byte("this is not zlib data at all")
		default:
			bad[len(bad)/2] ^= 0xff
			bad[len(bad)/2+1] ^= 0xff
		}
		rawContent[l] = [2]string{"/Filter /FlateDecode", string(bad)}
		where = fmt.Sprintf("page %d", l.page)
	case "contents-ends-mid-operand":
		l := hx.Pick(r, leaves)
		rawContent[l] = [2]string{"", hx.Pick(r, []string{
			fmt.Sprintf("BT /F1 12 Tf 1 0 0 1 72 700 Tm (%sPAGE-%d) Tj 1 0 0 1 72 660 Tm (second li", tag, l.page),
			fmt.Sprintf("BT /F1 12 Tf 1 0 0 1 72 700 Tm (%sPAGE-%d) Tj 1 0 0 1 72", tag, l.page),
			fmt.Sprintf("BT /F1 12 Tf 1 0 0 1 72 700 Tm (%sPAGE-%d) Tj [ (a) 3 << /K", tag, l.page),
			"BT /F1 12 Tf <4"})}
		where = fmt.Sprintf("page %d", l.page)
	case "resources-integer":
		l := hx.Pick(r, leaves)
		l.res = "5"
		where = fmt.Sprintf("page %d", l.page)
	case "font-integer":
		l := hx.Pick(r, leaves)
		o := d.alloc()
		d.obj(o, "42")
		l.res = fmt.Sprintf("<< /Font << /F1 %d 0 R >> >>", o)
		where = fmt.Sprintf("page %d", l.page)
	}
	if where != "" {
		fault += ": " + where
	}

	d.obj(font, "<< /Type /Font /Subtype /Type1 /BaseFont /Helvetica /Encoding /WinAnsiEncoding >>")
	for _, n := range all {
		if n.leaf {
			if raw, ok := rawContent[n]; ok {
				d.stream(conts[n], raw[0], raw[1])
			} else {
				d.stream(conts[n], "", contentOf(n))
			}
			d.obj(n.num, fmt.Sprintf("<< %s /Parent %d 0 R /MediaBox [0 0 612 792] /Resources %s /Contents %s >>", n.typ, n.parent.num, n.res, n.contents))
			continue
		}
		kids := "/Kids [" + strings.Join(n.kidRefs, " ") + "]"
		if n.kidsText == "-" {
			kids = ""
		} else if n.kidsText != "" {
			kids = "/Kids " + n.kidsText
		}
		par := ""
		if n.parent != nil {
			par = fmt.Sprintf(" /Parent %d 0 R", n.parent.num)
		}
		d.obj(n.num, fmt.Sprintf("<< %s%s %s /Count %s >>", n.typ, par, kids, n.count))
	}
	d.obj(catalog, catalogBody)
	return d.finish(catalog), npages, fault, tree
}

// lazySel is a page selection applied to a fresh base.
type lazySel struct {
	name  string
	apply func(e *tabula.Extractor) *tabula.Extractor
}

func genLazySel(r *hx.Rng, npages int) lazySel {
	switch r.Intn(4) {
	case 0:
		p := r.Range(1, npages)
		return lazySel{fmt.Sprintf(".Pages(%d)", p), func(e *tabula.Extractor) *tabula.Extractor { return e.Pages(p) }}
	case 1:
		a := r.Range(1, npages)
		b := r.Range(a, npages)
		return lazySel{fmt.Sprintf(".PageRange(%d,%d)", a, b), func(e *tabula.Extractor) *tabula.Extractor { return e.PageRange(a, b) }}
	}
	return lazySel{"", func(e *tabula.Extractor) *tabula.Extractor { return e }}
}

var (
	lazyOpenCalls  = []string{"PageCount", "IsCharacterLevel", "IsMultiColumn"} // leave the reader open
	lazyFinalCalls = []string{"Text", "Fragments", "ToMarkdown"}                // terminal
)

// lazyCall makes one call and says what it answered: the value and whether there was an error.
func lazyCall(e *tabula.Extractor, name string) string {
	switch name {
	case "IsCharacterLevel":
		b, err := e.IsCharacterLevel()
		return fmt.Sprint(b) + errs(err)
	case "IsMultiColumn":
		b, err := e.IsMultiColumn()
		return fmt.Sprint(b) + errs(err)
	case "Text", "ToMarkdown":
		return words(observe(e, name))
	}
	return observe(e, name)
}

// lazyStep is one step on a caller-owned reader.
type lazyStep struct {
	name string
	run  func(rd *reader.Reader) string
}

func genLazyStep(r *hx.Rng, npages int) lazyStep {
	switch r.Intn(7) {
	case 0:
		return lazyStep{"r.PageCount()", func(rd *reader.Reader) string {
			n, err := rd.PageCount()
			return fmt.Sprint(n) + errs(err)
		}}
	case 1:
		i := r.Intn(npages + 1) // npages = an index the document does not have
		return lazyStep{fmt.Sprintf("r.GetPage(%d)+ExtractText", i), func(rd *reader.Reader) string {
			pg, err := rd.GetPage(i)
			if err != nil || pg == nil {
				return "no page" + errs(err)
			}
			t, err := rd.ExtractText(pg)
			return words(t) + errs(err)
		}}
	case 2:
		return lazyStep{"FromReader(r).PageCount()", func(rd *reader.Reader) string { return lazyCall(tabula.FromReader(rd), "PageCount") }}
	case 3:
		op := hx.Pick(r, lazyFinalCalls)
		return lazyStep{fmt.Sprintf("FromReader(r).%s()", op), func(rd *reader.Reader) string { return lazyCall(tabula.FromReader(rd), op) }}
	case 4:
		op := hx.Pick(r, lazyOpenCalls)
		return lazyStep{fmt.Sprintf("FromReader(r).%s()", op), func(rd *reader.Reader) string { return lazyCall(tabula.FromReader(rd), op) }}
	}
	p := r.Range(1, npages)
	op := hx.Pick(r, lazyFinalCalls)
	return lazyStep{fmt.Sprintf("FromReader(r).Pages(%d).%s()", p, op), func(rd *reader.Reader) string { return lazyCall(tabula.FromReader(rd).Pages(p), op) }}
}

func runLazy(c *hx.Ctx, idx int) {
	r := hx.NewRng(c.Seed ^ 0x1a27f).Fork(uint64(idx))
	tag := fmt.Sprintf("z%d", idx)
	data, npages, fault, tree := genLazyDoc(r, tag)
	path := filepath.Join(c.OutDir, fmt.Sprintf("c03-lazy-%d.pdf", idx))
	os.WriteFile(path, data, 0o644)
	defer os.Remove(path)
	k := lazyCase{Kind: "lazy", Seed: c.Seed, Index: idx, Fault: fault, Tree: tree}
	sawError, sawText := false, false

	// ---- one Extractor ---------------------------------------------------------------------
	for trial := r.Range(1, 2); trial > 0; trial-- {
		sel := genLazySel(r, npages)
		var calls []string
		for n := r.Range(2, 5); n > 0; n-- {
			pool := lazyFinalCalls
			if (len(calls) == 0 && r.Chance(3, 4)) || r.Chance(1, 2) {
				pool = lazyOpenCalls
			}
			calls = append(calls, hx.Pick(r, pool))
		}
		kk := k
		kk.Steps = fmt.Sprintf("e := Open(f)%s; e.%s()", sel.name, strings.Join(calls, "(); e."))
		got := make([]string, len(calls))
		alone := map[string]string{}
		if !c.Guard("C03/lazy", kk, 60, func() {
			e := sel.apply(tabula.Open(path))
			for i, call := range calls {
				got[i] = lazyCall(e, call)
			}
			e.Close()
			for _, call := range calls {
				if _, ok := alone[call]; !ok {
					f := sel.apply(tabula.Open(path))
					alone[call] = lazyCall(f, call)
					f.Close()
				}
			}
		}) {
			continue
		}
		for i, call := range calls {
			i, call := i, call
			if strings.HasSuffix(alone[call], "!err") {
				sawError = true
			}
			if strings.Contains(alone[call], tag+"PAGE-") {
				sawText = true
			}
			c.Check("C03/lazy-failure-extractor-history-differs", got[i] == alone[call], kk, func() string {
				return fmt.Sprintf("PDF with page tree %s, fault %s: in %s call %d (%s) answered %q; Open(f)%s.%s() with nothing before it answers %q (answers of all calls: %q)",
					tree, fault, kk.Steps, i+1, call, truncate(got[i], 160), sel.name, call, truncate(alone[call], 160), got)
			})
		}
	}

	// ---- one caller-owned reader -----------------------------------------------------------
	steps := make([]lazyStep, r.Range(3, 6))
	var sdesc []string
	for i := range steps {
		steps[i] = genLazyStep(r, npages)
		if i > 0 && r.Chance(1, 4) {
			steps[i] = steps[r.Intn(i)] // an exact repetition
		}
		sdesc = append(sdesc, steps[i].name)
	}
	k.Steps = "r := reader.Open(f); " + strings.Join(sdesc, "; ")
	got := make([]string, len(steps))
	alone := make([]string, len(steps))
	opened := false
	c.Guard("C03/lazy", k, 60, func() {
		rd, err := reader.Open(path)
		if err != nil {
			return
		}
		defer rd.Close()
		opened = true
		for i, s := range steps {
			got[i] = s.run(rd)
		}
		for i, s := range steps {
			r2, err := reader.Open(path)
			if err != nil {
				alone[i] = "reader.Open!err"
				continue
			}
			alone[i] = s.run(r2)
			r2.Close()
		}
	})
	if opened {
		for i, s := range steps {
			i, s := i, s
			if strings.HasSuffix(alone[i], "!err") {
				sawError = true
			}
			c.Check("C03/lazy-failure-shared-reader-history-differs", got[i] == alone[i], k, func() string {
				return fmt.Sprintf("PDF with page tree %s, fault %s: step %d (%s) of [%s] on one reader answered %q; the same step on a reader of its own answers %q (answers of all steps: %q)",
					tree, fault, i+1, s.name, strings.Join(sdesc, "; "), truncate(got[i], 160), truncate(alone[i], 160), got)
			})
		}
	} else {
		c.Count("lazy-doc refused by reader.Open")
	}

	name := fault
	if i := strings.Index(name, ":"); i >= 0 {
		name = name[:i]
	}
	c.Count("lazy-doc fault=" + name)
	runPageCalls(c, r, k, path, name, npages)
	if sawError {
		c.Count("lazy-doc with a failing call")
	}
	c.Count("lazy-doc")
	// non-trivial: some call alone fails after a successful open (a faulty document), or the
	// control shows its text
	c.Case("lazy"+tree+fault+k.Steps, sawError || (strings.HasPrefix(fault, "none") && sawText))
}

// runPageCalls: PageCount / GetPage(i) histories on one reader against Model/ReaderHist.lean
// (op c03.pages). The facts of the file follow from the fault the generator planted: no root
// dictionary, or a walk that fails, or the pages.
func runPageCalls(c *hx.Ctx, r *hx.Rng, k lazyCase, path, fault string, npages int) {
	root, walk := "1", strconv.Itoa(npages)
	switch fault {
	case "catalog-without-pages", "catalog-pages-integer":
		root = "0"
	case "count-not-integer":
		return // the model needs to know whether the node is the root
	default:
		for _, f := range lazyTreeFaults {
			if f == fault {
				walk = "-"
			}
		}
	}
	var calls, got []string
	var seq []int
	for n := r.Range(3, 7); n > 0; n-- {
		if r.Chance(1, 3) {
			calls = append(calls, "c")
			seq = append(seq, -1)
		} else {
			i := r.Intn(npages + 2)
			calls = append(calls, fmt.Sprintf("p%d", i))
			seq = append(seq, i)
		}
	}
	k.Steps = "r := reader.Open(f); page calls " + strings.Join(calls, ",")
	ok := false
	c.Guard("C03/lazy", k, 30, func() {
		rd, err := reader.Open(path)
		if err != nil {
			return
		}
		defer rd.Close()
		ok = true
		for _, i := range seq {
			if i < 0 {
				if n, err := rd.PageCount(); err != nil {
					got = append(got, "err")
				} else {
					got = append(got, fmt.Sprintf("c%d", n))
				}
			} else if pg, err := rd.GetPage(i); err != nil || pg == nil {
				got = append(got, "err")
			} else {
				got = append(got, fmt.Sprintf("p%d", i))
			}
		}
	})
	if ok {
		c.Op("c03.pages "+root+" 1 "+walk+" "+strings.Join(calls, ","), strings.Join(got, ","))
		c.Count("page-calls root=" + root + " walk-fails=" + strconv.FormatBool(walk == "-"))
	}
}
