package c19

import (
	"fmt"
	"strings"

	"verifharness/hx"
	"verifharness/writers"
)

// Independent HTML writer (from the HTML syntax rules, not from tabula or
// x/net/html): escapes text and attributes, writes entities in several
// forms, may omit optional tags, and can damage the token stream.

type serOpts struct {
	doctype     int  // 0 none (quirks mode), 1 <!DOCTYPE html>, 2 XHTML 1.1 doctype
	xmlProlog   bool // <?xml …?> first (EPUB chapters)
	omitEnd     bool // omit optional end tags where the syntax allows it
	omitWrap    bool // omit <html>/<head>/<body> tags where allowed
	upper       bool // mixed-case tag and attribute names
	indent      bool // newlines/indentation between block elements
	unclosedFmt bool // leave some <b>/<em>/<i> unclosed
	selfClose   bool // <br/> style for void elements
	entities    int  // 0 minimal escaping, 1 mixed entity forms
}

type chunk struct {
	kind byte // 's' start tag, 'e' end tag, 't' text, 'c' comment, 'd' doctype/prolog
	s    string
}

var voidEl = map[string]bool{"br": true, "meta": true, "col": true, "hr": true, "img": true, "input": true, "link": true}

var blocky = map[string]bool{}

func init() {
	for _, t := range strings.Fields("html head body div section article main header footer nav aside ul ol li table thead tbody tfoot tr td th caption colgroup col p h1 h2 h3 h4 h5 h6 blockquote figure form details center dl dt dd script style noscript template title meta") {
		blocky[t] = true
	}
}

// elements whose start tag implies </p>
var closesP = map[string]bool{}

func init() {
	for _, t := range strings.Fields("address article aside blockquote details div dl fieldset figcaption figure footer form h1 h2 h3 h4 h5 h6 header hr main menu nav ol p pre section table ul") {
		closesP[t] = true
	}
}

var pParents = map[string]bool{"body": true, "div": true, "section": true, "article": true, "main": true, "li": true, "td": true, "th": true,
	"blockquote": true, "header": true, "footer": true, "nav": true, "aside": true, "figure": true, "form": true, "center": true}

var named = map[rune]string{'é': "eacute", 'ï': "iuml", 'ü': "uuml", '©': "copy", '—': "mdash", ' ': "nbsp", '中': ""}

type ser struct {
	r       *hx.Rng
	o       serOpts
	out     []chunk
	inPre   int
	usedEnt bool
	quirks  bool // the parser will be in quirks mode (no doctype, or one x/net/html does not recognise)
}

func (s *ser) emit(kind byte, str string) { s.out = append(s.out, chunk{kind, str}) }

func (s *ser) escText(t string, attr bool) string {
	var b strings.Builder
	for _, c := range t {
		mixed := s.o.entities == 1
		switch {
		case c == '&':
			switch {
			case mixed && s.r.Chance(1, 4):
				b.WriteString("&#38;")
			case mixed && s.r.Chance(1, 4):
				b.WriteString("&#x26;")
			default:
				b.WriteString("&amp;")
			}
			s.usedEnt = true
		case c == '<':
			if mixed && s.r.Chance(1, 3) {
				b.WriteString("&#60;")
			} else {
				b.WriteString("&lt;")
			}
			s.usedEnt = true
		case c == '>':
			if attr || s.r.Bool() {
				b.WriteString("&gt;")
				s.usedEnt = true
			} else {
				b.WriteRune(c)
			}
		case c == '"':
			if attr || (mixed && s.r.Bool()) {
				b.WriteString("&quot;")
				s.usedEnt = true
			} else {
				b.WriteRune(c)
			}
		case c == '\'':
			if attr || (mixed && s.r.Bool()) {
				b.WriteString(hx.Pick(s.r, []string{"&#39;", "&apos;", "&#x27;"}))
				s.usedEnt = true
			} else {
				b.WriteRune(c)
			}
		case c > 127 && mixed && !attr:
			s.usedEnt = true
			switch s.r.Intn(4) {
			case 0:
				b.WriteRune(c)
			case 1:
				fmt.Fprintf(&b, "&#%d;", c)
			case 2:
				fmt.Fprintf(&b, hx.Pick(s.r, []string{"&#x%x;", "&#X%X;", "&#x%04x;"}), c)
			default:
				if n := named[c]; n != "" {
					b.WriteString("&" + n + ";")
				} else {
					fmt.Fprintf(&b, "&#%d;", c)
				}
			}
		case c < 128 && mixed && !attr && c > ' ' && s.r.Chance(1, 60):
			fmt.Fprintf(&b, "&#x%x;", c)
			s.usedEnt = true
		default:
			b.WriteRune(c)
		}
	}
	return b.String()
}

func (s *ser) name(n string) string {
	if s.o.upper {
		return caseFlip(s.r, n)
	}
	return n
}

func (s *ser) startTag(n *gnode) string {
	var b strings.Builder
	b.WriteString("<" + s.name(n.tag))
	for _, a := range n.attrs {
		b.WriteString(" " + s.name(a[0]))
		v := a[1]
		simple := v != "" && !strings.ContainsAny(v, " \t\n\r\f\"'=<>`&") && !strings.ContainsRune(v, 'é')
		switch {
		case simple && s.r.Chance(1, 3):
			b.WriteString("=" + v) // unquoted
		case !strings.Contains(v, "'") && s.r.Chance(1, 3):
			b.WriteString("='" + strings.ReplaceAll(strings.ReplaceAll(v, "&", "&amp;"), "<", "&lt;") + "'")
		default:
			b.WriteString("=\"" + s.escText(v, true) + "\"")
		}
	}
	if voidEl[n.tag] && s.o.selfClose {
		b.WriteString(" /")
	}
	b.WriteString(">")
	return b.String()
}

func (s *ser) nl(depth int) {
	if s.o.indent && s.inPre == 0 {
		s.emit('t', "\n"+strings.Repeat(" ", depth%12))
	}
}

// endOmissible implements the optional-end-tag rules of the HTML syntax for the
// elements this generator writes.
func endOmissible(n, parent, next *gnode, quirks bool) bool {
	nextTag := ""
	if next != nil {
		nextTag = next.tag
		if next.tag == "" || next.tag == "#comment" {
			return false // followed by text or a comment: keep the end tag
		}
	}
	ptag := ""
	if parent != nil {
		ptag = parent.tag
	}
	switch n.tag {
	case "p":
		if next == nil {
			return pParents[ptag]
		}
		// without a doctype (quirks mode) a <table> start tag does not close an open <p>
		return closesP[nextTag] && !(quirks && nextTag == "table")
	case "li":
		return next == nil || nextTag == "li"
	case "td", "th":
		return next == nil || nextTag == "td" || nextTag == "th"
	case "tr":
		return next == nil || nextTag == "tr"
	case "thead":
		return nextTag == "tbody" || nextTag == "tfoot"
	case "tbody", "tfoot":
		return next == nil || nextTag == "tbody" || nextTag == "tfoot"
	case "body", "html":
		return next == nil
	}
	return false
}

func (s *ser) write(n, parent, next *gnode, depth int) {
	switch n.tag {
	case "":
		if n.text == "" {
			return
		}
		if parent != nil && parent.raw {
			s.emit('t', n.text)
		} else {
			s.emit('t', s.escText(n.text, false))
		}
		return
	case "#comment":
		s.emit('c', "<!--"+n.text+"-->")
		return
	}
	wrap := n.tag == "html" || n.tag == "head" || n.tag == "body"
	omitTags := wrap && s.o.omitWrap && len(n.attrs) == 0
	if blocky[n.tag] {
		s.nl(depth)
	}
	if !omitTags {
		s.emit('s', s.startTag(n))
	}
	if voidEl[n.tag] {
		return
	}
	if n.tag == "pre" || n.tag == "code" || n.kind != "" {
		// inside content runs no whitespace is added (it would change the text)
	}
	if n.tag == "pre" {
		s.inPre++
	}
	lastBlocky := false
	for i, k := range n.kids {
		var nx *gnode
		if i+1 < len(n.kids) {
			nx = n.kids[i+1]
		}
		s.write(k, n, nx, depth+1)
		lastBlocky = blocky[k.tag]
	}
	if n.tag == "pre" {
		s.inPre--
	}
	if lastBlocky {
		s.nl(depth)
	}
	if omitTags {
		return
	}
	if s.o.omitEnd && endOmissible(n, parent, next, s.quirks) && s.r.Chance(2, 3) {
		return
	}
	if s.o.unclosedFmt && (n.tag == "b" || n.tag == "em" || n.tag == "i") && s.r.Chance(1, 3) {
		return
	}
	s.emit('e', "</"+s.name(n.tag)+">")
}

func serialize(r *hx.Rng, doc *gnode, o serOpts) (chunks []chunk, usedEnt bool) {
	s := &ser{r: r, o: o, quirks: o.doctype == 0}
	if o.xmlProlog {
		s.emit('d', "<?xml version=\"1.0\" encoding=\"utf-8\"?>\n")
	}
	switch o.doctype {
	case 1:
		dt := hx.Pick(r, []string{"<!DOCTYPE html>", "<!doctype html>\n", "<!DOCTYPE HTML>\n"})
		// x/net/html compares the doctype name with "html" case-sensitively
		s.quirks = strings.Contains(dt, "HTML")
		s.emit('d', dt)
	case 2:
		s.emit('d', "<!DOCTYPE html PUBLIC \"-//W3C//DTD XHTML 1.1//EN\" \"http://www.w3.org/TR/xhtml11/DTD/xhtml11.dtd\">\n")
	}
	s.write(doc, nil, nil, 0)
	return s.out, s.usedEnt
}

func join(chunks []chunk) string {
	var b strings.Builder
	for _, c := range chunks {
		b.WriteString(c.s)
	}
	return b.String()
}

// damage applies one non-strict malformation to the chunk stream.
func damage(r *hx.Rng, chunks []chunk) (string, string) {
	cs := append([]chunk(nil), chunks...)
	pickKind := func(k byte) int {
		var idx []int
		for i, c := range cs {
			if c.kind == k {
				idx = append(idx, i)
			}
		}
		if len(idx) == 0 {
			return -1
		}
		return hx.Pick(r, idx)
	}
	at := r.Intn(len(cs) + 1)
	insert := func(s string) {
		cs = append(cs[:at], append([]chunk{{'t', s}}, cs[at:]...)...)
	}
	switch r.Intn(7) {
	case 0:
		s := join(cs)
		cut := r.Intn(len(s) + 1)
		return s[:cut], "truncated"
	case 1:
		if i := pickKind('e'); i >= 0 {
			cs = append(cs[:i], cs[i+1:]...)
		}
		return join(cs), "dropped-end-tag"
	case 2:
		insert(hx.Pick(r, []string{"</div>", "</ul>", "</p>", "</li>", "</table>", "</blockquote>", "</span>", "</nav>", "</body>", "</td>", "</h2>", "</section>", "</a>"}))
		return join(cs), "stray-end-tag"
	case 3:
		if i := pickKind('s'); i >= 0 {
			cs = append(cs[:i], append([]chunk{cs[i]}, cs[i:]...)...)
		}
		return join(cs), "duplicated-start-tag"
	case 4:
		if len(cs) > 2 {
			i := r.Intn(len(cs) - 1)
			cs[i], cs[i+1] = cs[i+1], cs[i]
		}
		return join(cs), "swapped-chunks"
	case 5:
		insert(hx.Pick(r, []string{"<", "<!", "<?php echo 1 ?>", "</>", "<a b=\">", "<p", "&", "&#;", "&#x110000;", "&bogus;", "<ul>", "<table>", "<li>", "<td>", "<nav>", "<plaintext>", "<textarea>", "<select>", "<![CDATA[x]]>", "\x00"}))
		return join(cs), "garbage-inserted"
	default:
		if i := pickKind('s'); i >= 0 {
			cs = append(cs[:i], cs[i+1:]...)
		}
		return join(cs), "dropped-start-tag"
	}
}

// ---- EPUB -----------------------------------------------------------------

// epub writes a minimal EPUB 3 container (OCF: mimetype first and stored,
// META-INF/container.xml naming the package document, OPF with manifest and
// spine) around the given chapter files.
func epub(chapters [][]byte, dir string) []byte {
	prefix := ""
	if dir != "" {
		prefix = dir + "/"
	}
	var manifest, spine strings.Builder
	members := []writers.Member{{Name: "mimetype", Data: []byte("application/epub+zip"), Store: true},
		{Name: "META-INF/container.xml", Data: []byte(`<?xml version="1.0" encoding="UTF-8"?>
<container version="1.0" xmlns="urn:oasis:names:tc:opendocument:xmlns:container">
  <rootfiles>
    <rootfile full-path="` + prefix + `content.opf" media-type="application/oebps-package+xml"/>
  </rootfiles>
</container>`)}}
	for i := range chapters {
		fmt.Fprintf(&manifest, "    <item id=\"ch%d\" href=\"text/ch%d.xhtml\" media-type=\"application/xhtml+xml\"/>\n", i+1, i+1)
		fmt.Fprintf(&spine, "    <itemref idref=\"ch%d\"/>\n", i+1)
	}
	opf := `<?xml version="1.0" encoding="UTF-8"?>
<package xmlns="http://www.idpf.org/2007/opf" version="3.0" unique-identifier="uid">
  <metadata xmlns:dc="http://purl.org/dc/elements/1.1/">
    <dc:identifier id="uid">urn:uuid:00000000-0000-0000-0000-0000000000c19</dc:identifier>
    <dc:title>C19 generated book</dc:title>
    <dc:language>en</dc:language>
    <meta property="dcterms:modified">2024-01-01T00:00:00Z</meta>
  </metadata>
  <manifest>
` + manifest.String() + `  </manifest>
  <spine>
` + spine.String() + `  </spine>
</package>`
	members = append(members, writers.Member{Name: prefix + "content.opf", Data: []byte(opf)})
	for i, ch := range chapters {
		members = append(members, writers.Member{Name: fmt.Sprintf("%stext/ch%d.xhtml", prefix, i+1), Data: ch})
	}
	return writers.Zip(members)
}
