package c19

import (
	"bytes"
	"fmt"
	"hash/fnv"
	"strings"
	"unicode"
	"unicode/utf8"

	"golang.org/x/net/html"

	"github.com/tsawler/tabula"
	"github.com/tsawler/tabula/epubdoc"
	"github.com/tsawler/tabula/htmldoc"

	"verifharness/hx"
)

// Correspondence ops for the public entry points (Model/HtmlApi.lean) and for
// the text-node specification (Model/HtmlSpec.lean). Every op carries the tree
// from the DOCUMENT node (the model locates body itself, as the code does) and
// the raw integer value of the mode.
//
//   c19.doc <int> <doctree>          T= M= D=   htmldoc.OpenReader + …WithOptions
//   c19.seq <doctree> <calls>        digests    a call sequence on ONE reader
//   c19.ext <doctree>                T= M= D=   tabula.FromHTMLString(...).Text/ToMarkdown/Document
//   c19.epub <t|m> <int> <doctree>…  hex        epubdoc.OpenReader(zip).TextWithOptions/MarkdownWithOptions
//   c19.src <int> <doctree>          hex        squeeze of all text the elements carry (impl) = squeeze of the
//                                               source text nodes the specification selects (model)

// odd raw mode values: below None, above Aggressive, far out
var oddModes = []int{-1, -2, 4, 5, 7, -1000000, 1 << 40}

// extra EPUB chapters around the generated document: a plain one, one that is
// empty after trimming, one that consists of navigation only, one with lists
var extraChapters = []string{
	`<html><body><p>tk9999x last chapter</p></body></html>`,
	`<html><head><title>t</title></head><body> <script>var lk9998x;</script> </body></html>`,
	`<html><body><nav><p>tk9997x nav only</p></nav><div class="sidebar"><p>tk9996x side</p></div></body></html>`,
	`<!DOCTYPE html><html><body><h2>tk9995x</h2><ol><li>tk9994x one<ul><li>tk9993x in</li></ul></li></ol><table><tr><th>tk9992x</th><td>a|b</td></tr></table><blockquote>tk9991x q` + "\n" + `second</blockquote><pre>tk9990x  code</pre></body></html>`,
	``,
}

func docTree(data []byte) (string, bool) {
	rd, err := htmldoc.OpenReader(bytes.NewReader(data))
	if err != nil {
		return "", false
	}
	var b strings.Builder
	dumpTree(&b, rd.VerifRoot())
	return b.String(), true
}

// squeezeRaw removes white space and keeps every other byte as it is (invalid
// UTF-8 included: strings.Map would rewrite it).
func squeezeRaw(s string) string {
	var b strings.Builder
	for i := 0; i < len(s); {
		r, w := utf8.DecodeRuneInString(s[i:])
		if !(unicode.IsSpace(r) && !(r == utf8.RuneError && w == 1)) {
			b.WriteString(s[i : i+w])
		}
		i += w
	}
	return b.String()
}

func digest(kind byte, s string) string {
	h := fnv.New64a()
	h.Write([]byte(s))
	return fmt.Sprintf("%c%d.%d", kind, len(s), h.Sum64())
}

func threeViews(rd *htmldoc.Reader, m int) (string, error) {
	opts := htmldoc.ExtractOptions{NavigationExclusion: htmldoc.NavigationExclusionMode(m)}
	t, err := rd.TextWithOptions(opts)
	if err != nil {
		return "", err
	}
	md, err := rd.MarkdownWithOptions(opts)
	if err != nil {
		return "", err
	}
	d, err := rd.DocumentWithOptions(opts)
	if err != nil {
		return "", err
	}
	dd, _ := dumpDoc(d)
	return "T=" + hx.HexS(t) + " M=" + hx.HexS(md) + " D=" + dd, nil
}

// plainText: the text nodes below n outside script/style/…, concatenated.
func plainText(n *html.Node, b *strings.Builder) {
	switch n.Type {
	case html.TextNode:
		b.WriteString(n.Data)
		return
	case html.ElementNode:
		if skipTags[n.Data] {
			return
		}
	}
	for c := n.FirstChild; c != nil; c = c.NextSibling {
		plainText(c, b)
	}
}

// noWrappedPara: wherever a paragraph that has a block-level element child is
// read — through its div containers and through elements that merely wrap
// content elements — no such wrapper (span, a, form, section, …: anything but a
// div or a content element) has text in its phrasing children. Outside such a
// paragraph nothing is asked. The walk follows the content model, not tabula.
func noWrappedPara(n *html.Node) bool { return okPara(n, false) }

func hasBlockChild(n *html.Node) bool {
	for c := n.FirstChild; c != nil; c = c.NextSibling {
		if c.Type == html.ElementNode && blockChild[c.Data] {
			return true
		}
	}
	return false
}

func blankText(n *html.Node) bool {
	var b strings.Builder
	plainText(n, &b)
	return squeezeRaw(b.String()) == ""
}

func okPara(n *html.Node, inPara bool) bool {
	all := func(in bool, onlyLists bool) bool {
		for c := n.FirstChild; c != nil; c = c.NextSibling {
			if onlyLists && !(c.Type == html.ElementNode && (c.Data == "ul" || c.Data == "ol")) {
				continue
			}
			if !okPara(c, in) {
				return false
			}
		}
		return true
	}
	byRuns := func(in bool) bool {
		for c := n.FirstChild; c != nil; c = c.NextSibling {
			if !phrasing(c) && !okPara(c, in) {
				return false
			}
		}
		return true
	}
	switch n.Type {
	case html.TextNode:
		return true
	case html.ElementNode:
		if skipTags[n.Data] {
			return true
		}
		switch n.Data {
		case "p":
			if !hasBlockChild(n) {
				return true
			}
			return byRuns(true)
		case "div":
			if !hasBlockChild(n) && !blankText(n) {
				return true
			}
			return byRuns(inPara)
		case "ul", "ol":
			return all(false, false)
		case "li":
			return all(false, true)
		case "h1", "h2", "h3", "h4", "h5", "h6", "table", "pre", "code", "blockquote", "br", "hr":
			return true
		}
	}
	// a wrapper (or the document node)
	if !inPara {
		return all(false, false)
	}
	for c := n.FirstChild; c != nil; c = c.NextSibling {
		if phrasing(c) && !blankText(c) {
			return false
		}
	}
	return byRuns(true)
}

// dumpBlocks writes the element list with list elements opened into their items
// (level and kind of list per item) and everything else whole.
func dumpBlocks(els []htmldoc.VerifElement) string {
	var parts []string
	mixed := false
	for _, e := range els {
		switch e.Type {
		case htmldoc.ElementHeading:
			parts = append(parts, fmt.Sprintf("H%d:%s", e.Level, hx.HexS(e.Text)))
		case htmldoc.ElementParagraph:
			parts = append(parts, "P:"+hx.HexS(e.Text))
		case htmldoc.ElementCode:
			parts = append(parts, "C:"+hx.HexS(e.Text))
		case htmldoc.ElementBlockquote:
			parts = append(parts, "Q:"+hx.HexS(e.Text))
		case htmldoc.ElementList:
			for _, it := range e.Items {
				o := "u"
				if it.Ordered {
					o = "o"
				}
				if it.Ordered != e.Ordered {
					mixed = true
				}
				parts = append(parts, fmt.Sprintf("I%d%s:%s", it.Level, o, hx.HexS(it.Text)))
			}
		case htmldoc.ElementTable:
			hh := "n"
			var rows []string
			if e.Table != nil {
				if e.Table.HasHeader {
					hh = "h"
				}
				for _, row := range e.Table.Rows {
					var cs []string
					for _, c := range row {
						cs = append(cs, dumpCell(c))
					}
					rows = append(rows, strings.Join(cs, ","))
				}
			}
			parts = append(parts, "T"+hh+":"+strings.Join(rows, "/"))
		default:
			parts = append(parts, fmt.Sprintf("?%d", int(e.Type)))
		}
	}
	mixedLists = mixedLists || mixed
	if len(parts) == 0 {
		return "-"
	}
	return strings.Join(parts, ";")
}

var mixedLists bool

func apiOps(c *hx.Ctx, k *kase, data []byte) {
	// derived from (seed, stream, index) only, so that a replay makes the same calls
	r := hx.NewRng(c.Seed + uint64(len(k.Stream))*7368787).Fork(uint64(k.Index)*104729 + 5)
	type opPair struct{ line, out string }
	var ops []opPair
	var errs []string
	p := hx.Safe(func() {
		tree, ok := docTree(data)
		if !ok {
			return
		}
		// 1. the three views for one documented and one odd raw mode value
		ms := []int{r.Intn(4), hx.Pick(r, oddModes)}
		if r.Chance(1, 4) {
			ms = append(ms, r.Range(-3, 6))
		}
		for _, m := range ms {
			rd, err := htmldoc.OpenReader(bytes.NewReader(data))
			if err != nil {
				errs = append(errs, err.Error())
				return
			}
			out, err := threeViews(rd, m)
			if err != nil {
				errs = append(errs, err.Error())
				continue
			}
			ops = append(ops, opPair{fmt.Sprintf("c19.doc %d %s", m, tree), out})
			if m < 0 || m > 3 {
				c.Count("api-mode-out-of-range")
			} else {
				c.Count("api-mode=" + modeName[m])
			}
		}
		// 2. a call sequence on one reader
		rd, err := htmldoc.OpenReader(bytes.NewReader(data))
		if err != nil {
			return
		}
		var calls, outs []string
		for i, n := 0, r.Range(3, 9); i < n; i++ {
			m := r.Range(-1, 4)
			opts := htmldoc.ExtractOptions{NavigationExclusion: htmldoc.NavigationExclusionMode(m)}
			switch r.Intn(6) {
			case 0:
				t, _ := rd.TextWithOptions(opts)
				calls, outs = append(calls, fmt.Sprintf("t%d", m)), append(outs, digest('s', t))
			case 1:
				t, _ := rd.MarkdownWithOptions(opts)
				calls, outs = append(calls, fmt.Sprintf("m%d", m)), append(outs, digest('s', t))
			case 2:
				d, _ := rd.DocumentWithOptions(opts)
				dd, _ := dumpDoc(d)
				calls, outs = append(calls, fmt.Sprintf("d%d", m)), append(outs, digest('d', dd))
			case 3:
				t, _ := rd.Text()
				calls, outs = append(calls, "T"), append(outs, digest('s', t))
			case 4:
				t, _ := rd.Markdown()
				calls, outs = append(calls, "M"), append(outs, digest('s', t))
			default:
				d, _ := rd.Document()
				dd, _ := dumpDoc(d)
				calls, outs = append(calls, "D"), append(outs, digest('d', dd))
			}
		}
		ops = append(ops, opPair{"c19.seq " + tree + " " + strings.Join(calls, ","), strings.Join(outs, " ")})
		c.Count(fmt.Sprintf("seq-calls=%d", len(calls)))
		// 3. the tabula.Extractor wrappers
		{
			t, _, err1 := tabula.FromHTMLString(string(data)).Text()
			md, _, err2 := tabula.FromHTMLReader(bytes.NewReader(data)).ToMarkdown()
			d, _, err3 := tabula.FromHTMLString(string(data)).Document()
			if err1 != nil || err2 != nil || err3 != nil {
				errs = append(errs, fmt.Sprint("extractor: ", err1, err2, err3))
			} else {
				dd, _ := dumpDoc(d)
				ops = append(ops, opPair{"c19.ext " + tree, "T=" + hx.HexS(t) + " M=" + hx.HexS(md) + " D=" + dd})
			}
		}
		// 4. EPUB: the document as one chapter among up to two others
		{
			chapters := [][]byte{data}
			for n := r.Intn(3); n > 0; n-- {
				x := []byte(hx.Pick(r, extraChapters))
				if r.Bool() {
					chapters = append(chapters, x)
				} else {
					chapters = append([][]byte{x}, chapters...)
				}
			}
			trees := make([]string, len(chapters))
			for i, ch := range chapters {
				trees[i], _ = docTree(ch)
			}
			zipped := epub(chapters, []string{"OEBPS", "", "EPUB/pkg"}[r.Intn(3)])
			m := r.Range(-1, 4)
			if r.Chance(1, 8) {
				m = hx.Pick(r, oddModes)
			}
			er, err := epubdoc.OpenReader(bytes.NewReader(zipped), int64(len(zipped)))
			if err != nil {
				errs = append(errs, "epubdoc.OpenReader: "+err.Error())
			} else {
				kind := "t"
				var got string
				if r.Chance(1, 3) {
					kind = "m"
					got, err = er.MarkdownWithOptions(epubdoc.ExtractOptions{NavigationExclusion: m})
				} else {
					got, err = er.TextWithOptions(epubdoc.ExtractOptions{NavigationExclusion: m})
				}
				if err != nil {
					errs = append(errs, "epub view: "+err.Error())
				} else {
					ops = append(ops, opPair{fmt.Sprintf("c19.epub %s %d %s", kind, m, strings.Join(trees, " ")), hx.HexS(got)})
					c.Count(fmt.Sprintf("epub-chapters=%d", len(chapters)))
					c.Count("epub-view=" + kind)
				}
				if m == 0 {
					// Text() / Markdown() are the mode-0 calls
					var plain string
					if kind == "t" {
						plain, _ = er.Text()
					} else {
						plain, _ = er.Markdown()
					}
					if plain != got {
						errs = append(errs, "epub Text()/Markdown() differs from the options call with NavigationExclusion 0")
					}
				}
				er.Close()
			}
		}
		// 5. the text-node specification against what the elements carry
		for _, m := range []int{r.Intn(4), r.Range(-1, 4)} {
			rd, err := htmldoc.OpenReader(bytes.NewReader(data))
			if err != nil {
				return
			}
			_, atoms := dumpEls(rd.VerifElements(htmldoc.NavigationExclusionMode(m)))
			var sb strings.Builder
			for _, a := range atoms {
				sb.WriteString(a.text)
			}
			ops = append(ops, opPair{fmt.Sprintf("c19.src %d %s", m, tree), hx.HexS(squeezeRaw(sb.String()))})
		}
		// 5b. the text the property asks for (all text of every content element), on documents
		// without a paragraph that holds, beside block-level children, a wrapper with text
		{
			m := r.Range(-1, 4)
			rd, err := htmldoc.OpenReader(bytes.NewReader(data))
			if err != nil {
				return
			}
			doc := rd.VerifRoot()
			body := findBody(doc)
			if body == nil {
				body = doc
			}
			out := "wrapped"
			if noWrappedPara(body) {
				_, atoms := dumpEls(rd.VerifElements(htmldoc.NavigationExclusionMode(m)))
				var sb strings.Builder
				for _, a := range atoms {
					sb.WriteString(a.text)
				}
				out = hx.HexS(squeezeRaw(sb.String()))
				c.Count("want-checked")
			} else {
				c.Count("want-wrapped-paragraph")
			}
			ops = append(ops, opPair{fmt.Sprintf("c19.want %d %s", m, tree), out})
		}
		// 6. the block-level specification (tables whole, the kind of list of every item)
		{
			m := r.Range(-1, 4)
			rd, err := htmldoc.OpenReader(bytes.NewReader(data))
			if err != nil {
				return
			}
			ops = append(ops, opPair{fmt.Sprintf("c19.blk %d %s", m, tree), dumpBlocks(rd.VerifElements(htmldoc.NavigationExclusionMode(m)))})
		}
	})
	chk(c, "C19/panic", p == "", k, func() string { return "panic in a public entry point: " + p })
	chk(c, "C19/entrypoints-disagree", len(errs) == 0, k, func() string { return strings.Join(errs, "; ") })
	if mixedLists {
		c.Count("list-with-items-of-both-kinds")
		mixedLists = false
	}
	for _, o := range ops {
		c.Op(o.line, o.out)
	}
}
