package c19

import (
	"bytes"
	"fmt"
	"hash/fnv"
	"strings"
	"unicode"
	"unicode/utf8"

	"golang.org/x/net/html"

	"github.com/tsawler/tabula"
	"github.com/tsawler/tabula/epubdoc"
	"github.com/tsawler/tabula/htmldoc"

	"verifharness/hx"
)

// Correspondence ops for the public entry points (Model/HtmlApi.lean) and for
// the text-node specification (Model/HtmlSpec.lean). Every op carries the tree
// from the DOCUMENT node (the model locates body itself, as the code does) and
// the raw integer value of the mode.
//
//   c19.doc <int> <doctree>          T= M= D=   htmldoc.OpenReader + …WithOptions
//   c19.seq <doctree> <calls>        digests    a call sequence on ONE reader
//   c19.ext <doctree>                T= M= D=   tabula.FromHTMLString(...).Text/ToMarkdown/Document
//   c19.epub <t|m> <int> <doctree>…  hex        epubdoc.OpenReader(zip).TextWithOptions/MarkdownWithOptions
//   c19.src <int> <doctree>          hex        squeeze of all text the elements carry (impl) = squeeze of the
//                                               source text nodes the specification selects (model)

// odd raw mode values: below None, above Aggressive, far out
var oddModes = []int{-1, -2, 4, 5, 7, -1000000, 1 << 40}

// extra EPUB chapters around the generated document: a plain one, one that is
// empty after trimming, one that consists of navigation only, one with lists
var extraChapters = []string{
	`<html><body><p>tk9999x last chapter</p></body></html>`,
	`<html><head><title>t</title></head><body> <script>var lk9998x;</script> </body></html>`,
	`<html><body><nav><p>tk9997x nav only</p></nav><div class="sidebar"><p>tk9996x side</p></div></body></html>`,
	`<!DOCTYPE html><html><body><h2>tk9995x</h2><ol><li>tk9994x one<ul><li>tk9993x in</li></ul></li></ol><table><tr><th>tk9992x</th><td>a|b</td></tr></table><blockquote>tk9991x q` + "\n" + `second</blockquote><pre>tk9990x  code</pre></body></html>`,
	``,
}

func docTree(data []byte) (string, bool) {
	rd, err := htmldoc.OpenReader(bytes.NewReader(data))
	if err != nil {
		return "", false
	}
	var b strings.Builder
	dumpTree(&b, rd.VerifRoot())
	return b.String(), true
}

// squeezeRaw removes white space and keeps every other byte as it is (invalid
// UTF-8 included: strings.Map would rewrite it).
func squeezeRaw(s string) string {
	var b strings.Builder
	for i := 0; i < len(s); {
		r, w := utf8.DecodeRuneInString(s[i:])
		if !(unicode.IsSpace(r) && !(r == utf8.RuneError && w == 1)) {
			b.WriteString(s[i : i+w])
		}
		i += w
	}
	return b.String()
}

func digest(kind byte, s string) string {
	h := fnv.New64a()
	h.Write([]byte(s))
	return fmt.Sprintf("%c%d.%d", kind, len(s), h.Sum64())
}

func threeViews(rd *htmldoc.Reader, m int) (string, error) {
	opts := htmldoc.ExtractOptions{NavigationExclusion: htmldoc.NavigationExclusionMode(m)}
	t, err := rd.TextWithOptions(opts)
	if err != nil {
		return "", err
	}
	md, err := rd.MarkdownWithOptions(opts)
	if err != nil {
		return "", err
	}
	d, err := rd.DocumentWithOptions(opts)
	if err != nil {
		return "", err
	}
	dd, _ := dumpDoc(d)
	return "T=" + hx.HexS(t) + " M=" + hx.HexS(md) + " D=" + dd, nil
}

// plainText: the text nodes below n outside script/style/…, concatenated.
func plainText(n *html.Node, b *strings.Builder) {
	switch n.Type {
	case html.TextNode:
		b.WriteString(n.Data)
		return
	case html.ElementNode:
		if skipTags[n.Data] {
			return
		}
	}
	for c := n.FirstChild; c != nil; c = c.NextSibling {
		plainText(c, b)
	}
}

// noWrappedPara: wherever a paragraph that has a block-level element child is
// read — through its div containers and through elements that merely wrap
// content elements — no such wrapper (span, a, form, section, …: anything but a
// div or a content element) has text in its phrasing children. Outside such a
// paragraph nothing is asked. The walk follows the content model, not tabula.
func noWrappedPara(n *html.Node) bool { return okPara(n, false) }

func hasBlockChild(n *html.Node) bool {
	for c := n.FirstChild; c != nil; c = c.NextSibling {
		if c.Type == html.ElementNode && blockChild[c.Data] {
			return true
		}
	}
	return false
}

func blankText(n *html.Node) bool {
	var b strings.Builder
	plainText(n, &b)
	return squeezeRaw(b.String()) == ""
}

func okPara(n *html.Node, inPara bool) bool {
	all := func(in bool, onlyLists bool) bool {
		for c := n.FirstChild; c != nil; c = c.NextSibling {
			if onlyLists && !(c.Type == html.ElementNode && (c.Data == "ul" || c.Data == "ol")) {
				continue
			}
			if !okPara(c, in) {
				return false
			}
		}
		return true
	}
	byRuns := func(in bool) bool {
		for c := n.FirstChild; c != nil; c = c.NextSibling {
			if !phrasing(c) && !okPara(c, in) {
				return false
			}
		}
		return true
	}
	switch n.Type {
	case html.TextNode:
		return true
	case html.ElementNode:
		if skipTags[n.Data] {
			return true
		}
		switch n.Data {
		case "p":
			if !hasBlockChild(n) {
				return true
			}
			return byRuns(true)
		case "div":
			if !hasBlockChild(n) && !blankText(n) {
				return true
			}
			return byRuns(inPara)
		case "ul", "ol":
			return all(false, false)
		case "li":
			return all(false, true)
		case "h1", "h2", "h3", "h4", "h5", "h6", "table", "pre", "code", "blockquote", "br", "hr":
			return true
		}
	}
	// a wrapper (or the document node)
	if !inPara {
		return all(false, false)
	}
	for c := n.FirstChild; c != nil; c = c.NextSibling {
		if phrasing(c) && !blankText(c) {
			return false
		}
	}
	return byRuns(true)
}

// lostPara writes the text of a subtree that the property asks for and nothing
// returns: walking as okPara walks (content model, not tabula), inside a
// paragraph that has a block-level element child an element that is only a
// wrapper (not skipped, not excluded, not a content element, not a div) loses
// the text of its phrasing children; everything else loses nothing. excluded is
// asked for the elements the walk enters, never for phrasing content.
func lostPara(n *html.Node, inPara bool, excluded func(*html.Node) bool, b *strings.Builder) {
	all := func(onlyLists bool) {
		for c := n.FirstChild; c != nil; c = c.NextSibling {
			if onlyLists && !(c.Type == html.ElementNode && (c.Data == "ul" || c.Data == "ol")) {
				continue
			}
			lostPara(c, false, excluded, b)
		}
	}
	byRuns := func(in bool) {
		for c := n.FirstChild; c != nil; c = c.NextSibling {
			if !phrasing(c) {
				lostPara(c, in, excluded, b)
			}
		}
	}
	switch n.Type {
	case html.TextNode:
		return
	case html.ElementNode:
		if skipTags[n.Data] || excluded(n) {
			return
		}
		switch n.Data {
		case "p":
			if hasBlockChild(n) {
				byRuns(true)
			}
			return
		case "div":
			if !hasBlockChild(n) && !blankText(n) {
				return
			}
			byRuns(inPara)
			return
		case "ul", "ol":
			all(false)
			return
		case "li":
			all(true)
			return
		case "h1", "h2", "h3", "h4", "h5", "h6", "table", "pre", "code", "blockquote", "br", "hr":
			return
		}
	}
	// a wrapper (or the document node)
	if !inPara {
		all(false)
		return
	}
	for c := n.FirstChild; c != nil; c = c.NextSibling {
		if phrasing(c) {
			plainText(c, b)
		} else {
			lostPara(c, true, excluded, b)
		}
	}
}

// lostOp builds one c19.lost op: the text the real elements of mode m carry and
// the lost text collected by lostPara with the reader's own exclusion decisions.
func lostOp(c *hx.Ctx, data []byte, tree string, m int) (line, out, errText string) {
	rd, err := htmldoc.OpenReader(bytes.NewReader(data))
	if err != nil {
		return "", "", ""
	}
	doc := rd.VerifRoot()
	body := findBody(doc)
	if body == nil {
		body = doc
	}
	_, atoms := dumpEls(rd.VerifElements(htmldoc.NavigationExclusionMode(m)))
	var sb, lb strings.Builder
	for _, a := range atoms {
		sb.WriteString(a.text)
	}
	lostPara(body, false, htmldoc.VerifExcluder(htmldoc.NavigationExclusionMode(m), doc), &lb)
	lostText := squeezeRaw(lb.String())
	nw := noWrappedPara(body)
	switch {
	case lostText == "" && nw:
		c.Count("lost-nothing")
	case lostText == "":
		c.Count("lost-nothing-wrapper-blank-or-excluded")
	default:
		c.Count("lost-text")
		if m >= 2 {
			c.Count("lost-text-pattern-modes")
		}
	}
	if nw && lostText != "" {
		errText = "harness: noWrappedPara but lost text " + lostText
	}
	return fmt.Sprintf("c19.lost %d %s", m, tree),
		fmt.Sprintf("R=%s L=%s sub=true len=true", hx.HexS(squeezeRaw(sb.String())), hx.HexS(lostText)), errText
}

// lostFamily: quirks-mode documents (no doctype) built around paragraphs that keep
// tables inside them, with wrappers (span, a, font, b, label; section/form foster-
// parented out of a table) around further tables, nested in one another, with and
// without own text, with attributes from the exclusion vocabulary and beside it, and
// with skipped elements; every document is read in the four modes and one odd mode.
func lostFamily(c *hx.Ctx) {
	r := hx.NewRng(c.Seed*2654435761 + 97)
	n := c.N(60, 400)
	wrappers := []string{"span", "a", "font", "b", "label", "span", "em"}
	attrs := []string{"", "", ` class="menu"`, ` role="navigation"`, ` class="content"`, ` id="sidebar"`, ` class="menubar"`, ` role="banner"`}
	tok := 0
	t := func() string { tok++; return fmt.Sprintf("lw%04dq", tok) }
	tbl := func() string {
		if r.Chance(1, 4) {
			// a sectioning element / form inside a table is foster-parented in front of it
			w := hx.Pick(r, []string{"section", "form", "article"})
			return "<table><" + w + hx.Pick(r, attrs) + ">" + t() + "<div>" + t() + "</div>" + t() + "</" + w + "><tr><td>" + t() + "</td></tr></table>"
		}
		return "<table><tr><td>" + t() + "</td></tr></table>"
	}
	var wrap func(depth int) string
	wrap = func(depth int) string {
		w := hx.Pick(r, wrappers)
		var b strings.Builder
		b.WriteString("<" + w + hx.Pick(r, attrs) + ">")
		if r.Chance(3, 4) {
			b.WriteString(t() + " ")
		} else if r.Bool() {
			b.WriteString(" \n")
		}
		if r.Chance(1, 3) {
			b.WriteString("<i>" + t() + "</i>")
		}
		if depth < 3 && r.Chance(1, 3) {
			b.WriteString(wrap(depth + 1))
		} else {
			b.WriteString(tbl())
		}
		if r.Bool() {
			b.WriteString(t())
		}
		if r.Chance(1, 5) {
			b.WriteString("<script>" + t() + "</script>")
		}
		b.WriteString("</" + w + ">")
		return b.String()
	}
	for i := 0; i < n; i++ {
		var b strings.Builder
		if r.Chance(1, 6) {
			b.WriteString("<!DOCTYPE html>") // no-quirks: the table closes the p, nothing can be lost
			c.Count("lost-family-noquirks")
		}
		b.WriteString("<body>")
		if r.Chance(1, 3) {
			b.WriteString("<h2>" + t() + "</h2>")
		}
		open := "<p>"
		if r.Chance(1, 5) {
			open = "<div" + hx.Pick(r, attrs) + "><p>"
		}
		b.WriteString(open + t())
		for j := r.Range(1, 3); j > 0; j-- {
			switch r.Intn(3) {
			case 0:
				b.WriteString(tbl())
			default:
				b.WriteString(wrap(0))
			}
			if r.Bool() {
				b.WriteString(" " + t())
			}
		}
		b.WriteString("</p>")
		if r.Bool() {
			b.WriteString("<ul><li>" + t() + "<span>" + t() + "<ul><li>" + t() + "</li></ul></span></li></ul>")
		}
		data := []byte(b.String())
		tree, ok := docTree(data)
		if !ok {
			continue
		}
		c.Count("lost-family")
		for _, m := range []int{0, 1, 2, 3, hx.Pick(r, oddModes)} {
			line, out, errText := lostOp(c, data, tree, m)
			chk(c, "C19/lost-text-when-no-wrapper", errText == "", map[string]string{"stream": "html", "html": b.String()}, func() string { return errText })
			if line != "" {
				c.Op(line, out)
			}
		}
	}
}

// dumpBlocks writes the element list with list elements opened into their items
// (level and kind of list per item) and everything else whole.
func dumpBlocks(els []htmldoc.VerifElement) string {
	var parts []string
	mixed := false
	for _, e := range els {
		switch e.Type {
		case htmldoc.ElementHeading:
			parts = append(parts, fmt.Sprintf("H%d:%s", e.Level, hx.HexS(e.Text)))
		case htmldoc.ElementParagraph:
			parts = append(parts, "P:"+hx.HexS(e.Text))
		case htmldoc.ElementCode:
			parts = append(parts, "C:"+hx.HexS(e.Text))
		case htmldoc.ElementBlockquote:
			parts = append(parts, "Q:"+hx.HexS(e.Text))
		case htmldoc.ElementList:
			for _, it := range e.Items {
				o := "u"
				if it.Ordered {
					o = "o"
				}
				if it.Ordered != e.Ordered {
					mixed = true
				}
				parts = append(parts, fmt.Sprintf("I%d%s:%s", it.Level, o, hx.HexS(it.Text)))
			}
		case htmldoc.ElementTable:
			hh := "n"
			var rows []string
			if e.Table != nil {
				if e.Table.HasHeader {
					hh = "h"
				}
				for _, row := range e.Table.Rows {
					var cs []string
					for _, c := range row {
						cs = append(cs, dumpCell(c))
					}
					rows = append(rows, strings.Join(cs, ","))
				}
			}
			parts = append(parts, "T"+hh+":"+strings.Join(rows, "/"))
		default:
			parts = append(parts, fmt.Sprintf("?%d", int(e.Type)))
		}
	}
	mixedLists = mixedLists || mixed
	if len(parts) == 0 {
		return "-"
	}
	return strings.Join(parts, ";")
}

var mixedLists bool

func apiOps(c *hx.Ctx, k *kase, data []byte) {
	// derived from (seed, stream, index) only, so that a replay makes the same calls
	r := hx.NewRng(c.Seed + uint64(len(k.Stream))*7368787).Fork(uint64(k.Index)*104729 + 5)
	type opPair struct{ line, out string }
	var ops []opPair
	var errs []string
	p := hx.Safe(func() {
		tree, ok := docTree(data)
		if !ok {
			return
		}
		// 1. the three views for one documented and one odd raw mode value
		ms := []int{r.Intn(4), hx.Pick(r, oddModes)}
		if r.Chance(1, 4) {
			ms = append(ms, r.Range(-3, 6))
		}
		for _, m := range ms {
			rd, err := htmldoc.OpenReader(bytes.NewReader(data))
			if err != nil {
				errs = append(errs, err.Error())
				return
			}
			out, err := threeViews(rd, m)
			if err != nil {
				errs = append(errs, err.Error())
				continue
			}
			ops = append(ops, opPair{fmt.Sprintf("c19.doc %d %s", m, tree), out})
			if m < 0 || m > 3 {
				c.Count("api-mode-out-of-range")
			} else {
				c.Count("api-mode=" + modeName[m])
			}
		}
		// 2. a call sequence on one reader
		rd, err := htmldoc.OpenReader(bytes.NewReader(data))
		if err != nil {
			return
		}
		var calls, outs []string
		for i, n := 0, r.Range(3, 9); i < n; i++ {
			m := r.Range(-1, 4)
			opts := htmldoc.ExtractOptions{NavigationExclusion: htmldoc.NavigationExclusionMode(m)}
			switch r.Intn(6) {
			case 0:
				t, _ := rd.TextWithOptions(opts)
				calls, outs = append(calls, fmt.Sprintf("t%d", m)), append(outs, digest('s', t))
			case 1:
				t, _ := rd.MarkdownWithOptions(opts)
				calls, outs = append(calls, fmt.Sprintf("m%d", m)), append(outs, digest('s', t))
			case 2:
				d, _ := rd.DocumentWithOptions(opts)
				dd, _ := dumpDoc(d)
				calls, outs = append(calls, fmt.Sprintf("d%d", m)), append(outs, digest('d', dd))
			case 3:
				t, _ := rd.Text()
				calls, outs = append(calls, "T"), append(outs, digest('s', t))
			case 4:
				t, _ := rd.Markdown()
				calls, outs = append(calls, "M"), append(outs, digest('s', t))
			default:
				d, _ := rd.Document()
				dd, _ := dumpDoc(d)
				calls, outs = append(calls, "D"), append(outs, digest('d', dd))
			}
		}
		ops = append(ops, opPair{"c19.seq " + tree + " " + strings.Join(calls, ","), strings.Join(outs, " ")})
		c.Count(fmt.Sprintf("seq-calls=%d", len(calls)))
		// 3. the tabula.Extractor wrappers
		{
			t, _, err1 := tabula.FromHTMLString(string(data)).Text()
			md, _, err2 := tabula.FromHTMLReader(bytes.NewReader(data)).ToMarkdown()
			d, _, err3 := tabula.FromHTMLString(string(data)).Document()
			if err1 != nil || err2 != nil || err3 != nil {
				errs = append(errs, fmt.Sprint("extractor: ", err1, err2, err3))
			} else {
				dd, _ := dumpDoc(d)
				ops = append(ops, opPair{"c19.ext " + tree, "T=" + hx.HexS(t) + " M=" + hx.HexS(md) + " D=" + dd})
			}
		}
		// 4. EPUB: the document as one chapter among up to two others
		{
			chapters := [][]byte{data}
			for n := r.Intn(3); n > 0; n-- {
				x := []byte(hx.Pick(r, extraChapters))
				if r.Bool() {
					chapters = append(chapters, x)
				} else {
					chapters = append([][]byte{x}, chapters...)
				}
			}
			trees := make([]string, len(chapters))
			for i, ch := range chapters {
				trees[i], _ = docTree(ch)
			}
			zipped := epub(chapters, []string{"OEBPS", "", "EPUB/pkg"}[r.Intn(3)])
			m := r.Range(-1, 4)
			if r.Chance(1, 8) {
				m = hx.Pick(r, oddModes)
			}
			er, err := epubdoc.OpenReader(bytes.NewReader(zipped), int64(len(zipped)))
			if err != nil {
				errs = append(errs, "epubdoc.OpenReader: "+err.Error())
			} else {
				kind := "t"
				var got string
				if r.Chance(1, 3) {
					kind = "m"
					got, err = er.MarkdownWithOptions(epubdoc.ExtractOptions{NavigationExclusion: m})
				} else {
					got, err = er.TextWithOptions(epubdoc.ExtractOptions{NavigationExclusion: m})
				}
				if err != nil {
					errs = append(errs, "epub view: "+err.Error())
				} else {
					ops = append(ops, opPair{fmt.Sprintf("c19.epub %s %d %s", kind, m, strings.Join(trees, " ")), hx.HexS(got)})
					c.Count(fmt.Sprintf("epub-chapters=%d", len(chapters)))
					c.Count("epub-view=" + kind)
				}
				if m == 0 {
					// Text() / Markdown() are the mode-0 calls
					var plain string
					if kind == "t" {
						plain, _ = er.Text()
					} else {
						plain, _ = er.Markdown()
					}
					if plain != got {
						errs = append(errs, "epub Text()/Markdown() differs from the options call with NavigationExclusion 0")
					}
				}
				er.Close()
			}
		}
		// 5. the text-node specification against what the elements carry
		for _, m := range []int{r.Intn(4), r.Range(-1, 4)} {
			rd, err := htmldoc.OpenReader(bytes.NewReader(data))
			if err != nil {
				return
			}
			_, atoms := dumpEls(rd.VerifElements(htmldoc.NavigationExclusionMode(m)))
			var sb strings.Builder
			for _, a := range atoms {
				sb.WriteString(a.text)
			}
			ops = append(ops, opPair{fmt.Sprintf("c19.src %d %s", m, tree), hx.HexS(squeezeRaw(sb.String()))})
		}
		// 5b. the text the property asks for (all text of every content element), on documents
		// without a paragraph that holds, beside block-level children, a wrapper with text
		{
			m := r.Range(-1, 4)
			rd, err := htmldoc.OpenReader(bytes.NewReader(data))
			if err != nil {
				return
			}
			doc := rd.VerifRoot()
			body := findBody(doc)
			if body == nil {
				body = doc
			}
			out := "wrapped"
			if noWrappedPara(body) {
				_, atoms := dumpEls(rd.VerifElements(htmldoc.NavigationExclusionMode(m)))
				var sb strings.Builder
				for _, a := range atoms {
					sb.WriteString(a.text)
				}
				out = hx.HexS(squeezeRaw(sb.String()))
				c.Count("want-checked")
			} else {
				c.Count("want-wrapped-paragraph")
			}
			ops = append(ops, opPair{fmt.Sprintf("c19.want %d %s", m, tree), out})
		}
		// 5c. the lost text (finding C19/content-missing-para-in-wrapper, exactly): on EVERY
		// document the model's returned text, its lost text and the two relations the
		// theorems state (returned is a subsequence of wanted, lengths add up); the harness
		// supplies the text the real elements carry and the lost text it collects itself
		// from the html.Node tree with the reader's own exclusion decisions
		{
			line, out, err := lostOp(c, data, tree, r.Range(-1, 4))
			if err != "" {
				errs = append(errs, err)
			}
			if line != "" {
				ops = append(ops, opPair{line, out})
			}
		}
		// 6. the block-level specification (tables whole, the kind of list of every item)
		{
			m := r.Range(-1, 4)
			rd, err := htmldoc.OpenReader(bytes.NewReader(data))
			if err != nil {
				return
			}
			ops = append(ops, opPair{fmt.Sprintf("c19.blk %d %s", m, tree), dumpBlocks(rd.VerifElements(htmldoc.NavigationExclusionMode(m)))})
		}
	})
	chk(c, "C19/panic", p == "", k, func() string { return "panic in a public entry point: " + p })
	chk(c, "C19/entrypoints-disagree", len(errs) == 0, k, func() string { return strings.Join(errs, "; ") })
	if mixedLists {
		c.Count("list-with-items-of-both-kinds")
		mixedLists = false
	}
	for _, o := range ops {
		c.Op(o.line, o.out)
	}
}
