// Package c19: HTML extraction keeps content; navigation filtering only narrows.
//
// Cases are generated as logical DOM trees (gen.go), written to bytes by an
// independent HTML writer (ser.go), and pushed through the file, reader,
// string and EPUB entry points of tabula in all four exclusion modes. The tree
// x/net/html actually produced is dumped onto the op line, so the Lean model
// (Model/Dom, Html, Nav) runs on exactly the parser's output. The oracles in
// oracle.go are written from the property text and do not use the model.
package c19

import (
	"bytes"
	"fmt"
	"os"
	"path/filepath"
	"strings"

	"golang.org/x/net/html"

	"github.com/tsawler/tabula"
	"github.com/tsawler/tabula/epubdoc"
	"github.com/tsawler/tabula/htmldoc"
	"github.com/tsawler/tabula/model"

	"verifharness/hx"
)

func init() { hx.Register("C19", Run, Replay) }

type modeT = htmldoc.NavigationExclusionMode

var modes = []modeT{htmldoc.NavigationExclusionNone, htmldoc.NavigationExclusionExplicit,
	htmldoc.NavigationExclusionStandard, htmldoc.NavigationExclusionAggressive}
var modeName = []string{"none", "explicit", "standard", "aggressive"}

type atom struct{ kind, text string }

// view is everything observed for one mode on a fresh reader.
type view struct {
	text, md string
	docAtoms []atom
	docDump  string
	elAtoms  []atom
	elsDump  string
	xbits    string
	excluded func(*html.Node) bool
}

type kase struct {
	Stream string `json:"stream"`
	Index  int    `json:"index"`
	Note   string `json:"note,omitempty"`
	HTML   string `json:"html"`
}

// ---- wire format ------------------------------------------------------------

func rawHex(s string) string { return fmt.Sprintf("%x", s) }

// dumpTree: node ::= 'T' hex '.' | 'E' hex {'@' hex '=' hex} '(' node* ')' | 'O' '(' node* ')'
func dumpTree(b *strings.Builder, n *html.Node) {
	switch n.Type {
	case html.TextNode:
		b.WriteString("T" + rawHex(n.Data) + ".")
		return
	case html.ElementNode:
		b.WriteString("E" + rawHex(n.Data))
		for _, a := range n.Attr {
			b.WriteString("@" + rawHex(a.Key) + "=" + rawHex(a.Val))
		}
	default:
		b.WriteString("O")
	}
	b.WriteString("(")
	for c := n.FirstChild; c != nil; c = c.NextSibling {
		dumpTree(b, c)
	}
	b.WriteString(")")
}

func findBody(n *html.Node) *html.Node {
	if n.Type == html.ElementNode && n.Data == "body" {
		return n
	}
	for c := n.FirstChild; c != nil; c = c.NextSibling {
		if r := findBody(c); r != nil {
			return r
		}
	}
	return nil
}

func dumpCell(c htmldoc.TableCell) string {
	h := "d"
	if c.IsHeader {
		h = "h"
	}
	return fmt.Sprintf("%s%dx%d.%s", h, c.RowSpan, c.ColSpan, hx.HexS(c.Text))
}

func dumpEls(els []htmldoc.VerifElement) (string, []atom) {
	var parts []string
	var atoms []atom
	for _, e := range els {
		switch e.Type {
		case htmldoc.ElementHeading:
			parts = append(parts, fmt.Sprintf("H%d:%s", e.Level, hx.HexS(e.Text)))
			atoms = append(atoms, atom{"heading", e.Text})
		case htmldoc.ElementParagraph:
			parts = append(parts, "P:"+hx.HexS(e.Text))
			atoms = append(atoms, atom{"para", e.Text})
		case htmldoc.ElementCode:
			parts = append(parts, "C:"+hx.HexS(e.Text))
			atoms = append(atoms, atom{"code", e.Text})
		case htmldoc.ElementBlockquote:
			parts = append(parts, "Q:"+hx.HexS(e.Text))
			atoms = append(atoms, atom{"quote", e.Text})
		case htmldoc.ElementList:
			o := "u"
			if e.Ordered {
				o = "o"
			}
			var its []string
			for _, it := range e.Items {
				its = append(its, fmt.Sprintf("%d.%s", it.Level, hx.HexS(it.Text)))
				atoms = append(atoms, atom{"item", it.Text})
			}
			parts = append(parts, "L"+o+":"+strings.Join(its, ","))
		case htmldoc.ElementTable:
			hh := "n"
			if e.Table != nil && e.Table.HasHeader {
				hh = "h"
			}
			var rows []string
			if e.Table != nil {
				for _, row := range e.Table.Rows {
					var cs []string
					for _, c := range row {
						cs = append(cs, dumpCell(c))
						atoms = append(atoms, atom{"cell", c.Text})
					}
					rows = append(rows, strings.Join(cs, ","))
				}
			}
			parts = append(parts, "T"+hh+":"+strings.Join(rows, "/"))
		default:
			parts = append(parts, fmt.Sprintf("?%d", int(e.Type)))
		}
	}
	if len(parts) == 0 {
		return "-", atoms
	}
	return strings.Join(parts, ";"), atoms
}

func dumpDoc(d *model.Document) (string, []atom) {
	var parts []string
	var atoms []atom
	if d == nil {
		return "nil", nil
	}
	for _, pg := range d.Pages {
		for _, e := range pg.Elements {
			switch v := e.(type) {
			case *model.Heading:
				parts = append(parts, fmt.Sprintf("H%d:%s", v.Level, hx.HexS(v.Text)))
				atoms = append(atoms, atom{"heading", v.Text})
			case *model.Paragraph:
				parts = append(parts, "P:"+hx.HexS(v.Text))
				atoms = append(atoms, atom{"para", v.Text})
			case *model.List:
				o := "u"
				if v.Ordered {
					o = "o"
				}
				var its []string
				for _, it := range v.Items {
					its = append(its, fmt.Sprintf("%d.%s", it.Level, hx.HexS(it.Text)))
					atoms = append(atoms, atom{"item", it.Text})
				}
				parts = append(parts, "L"+o+":"+strings.Join(its, ","))
			case *model.Table:
				var rows []string
				for _, row := range v.Rows {
					var cs []string
					for _, c := range row {
						h := "d"
						if c.IsHeader {
							h = "h"
						}
						cs = append(cs, fmt.Sprintf("%s%dx%d.%s", h, c.RowSpan, c.ColSpan, hx.HexS(c.Text)))
						atoms = append(atoms, atom{"cell", c.Text})
					}
					rows = append(rows, strings.Join(cs, ","))
				}
				parts = append(parts, "T:"+strings.Join(rows, "/"))
			default:
				parts = append(parts, fmt.Sprintf("?%T", e))
			}
		}
	}
	if len(parts) == 0 {
		return "-", atoms
	}
	return strings.Join(parts, ";"), atoms
}

func xbits(root *html.Node, ex func(*html.Node) bool) string {
	var b strings.Builder
	var walk func(n *html.Node)
	walk = func(n *html.Node) {
		if n.Type == html.ElementNode {
			if ex(n) {
				b.WriteByte('1')
			} else {
				b.WriteByte('0')
			}
		}
		for c := n.FirstChild; c != nil; c = c.NextSibling {
			walk(c)
		}
	}
	walk(root)
	if b.Len() == 0 {
		return "-"
	}
	return b.String()
}

// ---- running one document --------------------------------------------------

type docRun struct {
	root  *html.Node // body (or the document node)
	views [4]*view
}

func observe(data []byte, m int) (*view, *htmldoc.Reader, error) {
	rd, err := htmldoc.OpenReader(bytes.NewReader(data))
	if err != nil {
		return nil, nil, err
	}
	opts := htmldoc.ExtractOptions{NavigationExclusion: modes[m]}
	v := &view{}
	if v.text, err = rd.TextWithOptions(opts); err != nil {
		return nil, nil, err
	}
	if v.md, err = rd.MarkdownWithOptions(opts); err != nil {
		return nil, nil, err
	}
	d, err := rd.DocumentWithOptions(opts)
	if err != nil {
		return nil, nil, err
	}
	v.docDump, v.docAtoms = dumpDoc(d)
	v.elsDump, v.elAtoms = dumpEls(rd.VerifElements(modes[m]))
	return v, rd, nil
}

func runDoc(c *hx.Ctx, k *kase, data []byte, g *genInfo) {
	var run docRun
	var failed error
	p := hx.Safe(func() {
		for m := range modes {
			v, rd, err := observe(data, m)
			if err != nil {
				failed = err
				return
			}
			if m == 0 {
				doc := rd.VerifRoot()
				run.root = findBody(doc)
				if run.root == nil {
					run.root = doc
				}
			}
			run.views[m] = v
		}
		// exclusion decisions are taken on the mode-None reader's tree so that
		// node identities are shared by all modes
		rd0, _ := htmldoc.OpenReader(bytes.NewReader(data))
		doc := rd0.VerifRoot()
		run.root = findBody(doc)
		if run.root == nil {
			run.root = doc
		}
		for m := range modes {
			run.views[m].excluded = htmldoc.VerifExcluder(modes[m], doc)
			run.views[m].xbits = xbits(run.root, run.views[m].excluded)
		}
	})
	if !chk(c, "C19/panic", p == "", k, func() string { return "panic in htmldoc reader: " + p }) {
		c.Case(k.HTML, false)
		return
	}
	if failed != nil {
		c.Count("open-error")
		c.Case(k.HTML, false)
		return
	}
	var tb strings.Builder
	dumpTree(&tb, run.root)
	tree := tb.String()
	for m := range modes {
		v := run.views[m]
		c.Op("c19.dom "+modeName[m]+" "+tree,
			"E="+v.elsDump+" X="+v.xbits+" T="+hx.HexS(v.text)+" D="+v.docDump)
	}
	c.Case(k.HTML, strings.TrimSpace(run.views[0].text) != "")
	oracles(c, k, data, &run, g)
	entryPoints(c, k, data, &run)
	cacheOrder(c, k, data, &run)
	apiOps(c, k, data)
	if k.Stream != "deep" {
		depthOps(c, k, data)
	}
}

// ---- other entry points --------------------------------------------------------

func entryPoints(c *hx.Ctx, k *kase, data []byte, run *docRun) {
	dir := filepath.Join(c.OutDir, "tmp")
	os.MkdirAll(dir, 0o755)
	path := filepath.Join(dir, "case.html")
	os.WriteFile(path, data, 0o644)
	defer os.Remove(path)
	var diffs []string
	add := func(what, got, want string) {
		if got != want {
			diffs = append(diffs, fmt.Sprintf("%s: got %q want %q", what, clip(got), clip(want)))
		}
	}
	p := hx.Safe(func() {
		// file
		for m := range modes {
			rd, err := htmldoc.Open(path)
			if err != nil {
				diffs = append(diffs, "htmldoc.Open: "+err.Error())
				continue
			}
			t, _ := rd.TextWithOptions(htmldoc.ExtractOptions{NavigationExclusion: modes[m]})
			add("file/"+modeName[m], t, run.views[m].text)
			md, _ := rd.MarkdownWithOptions(htmldoc.ExtractOptions{NavigationExclusion: modes[m]})
			add("file-md/"+modeName[m], md, run.views[m].md)
			rd.Close()
		}
		// the tabula.Extractor wrappers do not let the caller pick a mode: whatever
		// default they use, the answer must be the htmldoc answer of that mode
		someMode := func(what, got string, pick func(*view) string) {
			for m := range modes {
				if got == pick(run.views[m]) {
					c.Count(what + "=" + modeName[m])
					return
				}
			}
			diffs = append(diffs, fmt.Sprintf("%s: got %q, which is the htmldoc result of no mode (none gives %q)", what, clip(got), clip(pick(run.views[0]))))
		}
		if t, _, err := tabula.Open(path).Text(); err == nil {
			someMode("tabula.Open(file).Text", t, func(v *view) string { return v.text })
		} else {
			c.Count("tabula-open-html-error")
		}
		// string / reader
		if t, _, err := tabula.FromHTMLString(string(data)).Text(); err == nil {
			someMode("FromHTMLString.Text", t, func(v *view) string { return v.text })
		} else {
			diffs = append(diffs, "FromHTMLString: "+err.Error())
		}
		if d, _, err := tabula.FromHTMLReader(bytes.NewReader(data)).Document(); err == nil {
			dd, _ := dumpDoc(d)
			someMode("FromHTMLReader.Document", dd, func(v *view) string { return v.docDump })
		} else {
			diffs = append(diffs, "FromHTMLReader.Document: "+err.Error())
		}
		if md, _, err := tabula.FromHTMLString(string(data)).ToMarkdown(); err == nil {
			someMode("FromHTMLString.ToMarkdown", md, func(v *view) string { return v.md })
		} else {
			diffs = append(diffs, "FromHTMLString.ToMarkdown: "+err.Error())
		}
		// EPUB: the same bytes as a chapter, optionally followed by a second chapter
		chapters := [][]byte{data}
		last := ""
		if k.Index%3 == 1 {
			chapters = append(chapters, []byte("<html><body><p>tk9999x last chapter</p></body></html>"))
			last = "tk9999x last chapter"
		}
		zipped := epub(chapters, []string{"OEBPS", "", "EPUB/pkg"}[k.Index%3])
		for m := range modes {
			er, err := epubdoc.OpenReader(bytes.NewReader(zipped), int64(len(zipped)))
			if err != nil {
				diffs = append(diffs, "epubdoc.OpenReader: "+err.Error())
				break
			}
			t, err := er.TextWithOptions(epubdoc.ExtractOptions{NavigationExclusion: int(modes[m])})
			if err != nil {
				diffs = append(diffs, "epub TextWithOptions: "+err.Error())
				continue
			}
			var parts []string
			if w := strings.TrimSpace(run.views[m].text); w != "" {
				parts = append(parts, w)
			}
			if last != "" {
				parts = append(parts, last)
			}
			add("epub/"+modeName[m], t, strings.Join(parts, "\n\n"))
			er.Close()
		}
		epath := filepath.Join(dir, "case.epub")
		os.WriteFile(epath, zipped, 0o644)
		defer os.Remove(epath)
		if er, err := epubdoc.Open(epath); err == nil {
			t, _ := er.TextWithOptions(epubdoc.ExtractOptions{NavigationExclusion: int(modes[3])})
			var parts []string
			if w := strings.TrimSpace(run.views[3].text); w != "" {
				parts = append(parts, w)
			}
			if last != "" {
				parts = append(parts, last)
			}
			add("epub-file/aggressive", t, strings.Join(parts, "\n\n"))
			er.Close()
		} else {
			diffs = append(diffs, "epubdoc.Open: "+err.Error())
		}
	})
	chk(c, "C19/panic", p == "", k, func() string { return "panic in an entry point: " + p })
	chk(c, "C19/entrypoints-disagree", len(diffs) == 0, k, func() string { return strings.Join(diffs, "; ") })
}

// cacheOrder calls the modes in a generated order (with repeats) on ONE reader
// and compares every answer with the fresh-reader answer for that mode.
func cacheOrder(c *hx.Ctx, k *kase, data []byte, run *docRun) {
	// derived from (seed, stream, index) only, so that a replay makes the same calls
	r := hx.NewRng(c.Seed + uint64(len(k.Stream))*1000003).Fork(uint64(k.Index)*7919 + 13)
	var diffs []string
	p := hx.Safe(func() {
		// every ordered pair of distinct modes on a reader of its own
		for a := 0; a < 4; a++ {
			for b := 0; b < 4; b++ {
				if a == b {
					continue
				}
				rd, err := htmldoc.OpenReader(bytes.NewReader(data))
				if err != nil {
					return
				}
				rd.TextWithOptions(htmldoc.ExtractOptions{NavigationExclusion: modes[a]})
				got, _ := rd.TextWithOptions(htmldoc.ExtractOptions{NavigationExclusion: modes[b]})
				if got != run.views[b].text && len(diffs) < 3 {
					diffs = append(diffs, fmt.Sprintf("text of mode %s asked after mode %s: got %q, a fresh reader gives %q",
						modeName[b], modeName[a], clip(got), clip(run.views[b].text)))
				}
			}
		}
		rd, err := htmldoc.OpenReader(bytes.NewReader(data))
		if err != nil {
			return
		}
		var seq []string
		for i := 0; i < 9; i++ {
			m := r.Intn(4)
			opts := htmldoc.ExtractOptions{NavigationExclusion: modes[m]}
			var got, want string
			switch r.Intn(3) {
			case 0:
				got, _ = rd.TextWithOptions(opts)
				want = run.views[m].text
				seq = append(seq, "text:"+modeName[m])
			case 1:
				got, _ = rd.MarkdownWithOptions(opts)
				want = run.views[m].md
				seq = append(seq, "md:"+modeName[m])
			default:
				d, _ := rd.DocumentWithOptions(opts)
				got, _ = dumpDoc(d)
				want = run.views[m].docDump
				seq = append(seq, "doc:"+modeName[m])
			}
			if got != want {
				diffs = append(diffs, fmt.Sprintf("after calls %v: got %q, a fresh reader gives %q", seq, clip(got), clip(want)))
				return
			}
		}
	})
	chk(c, "C19/panic", p == "", k, func() string { return "panic in call sequence: " + p })
	chk(c, "C19/cache-mode-mixup", len(diffs) == 0, k, func() string { return strings.Join(diffs, "; ") })
}

func clip(s string) string {
	if len(s) > 300 {
		return s[:300] + "…"
	}
	return s
}

// ---- case streams ----------------------------------------------------------------

type genInfo struct {
	doc    *gnode
	strict bool // the parse of the bytes is predictable from the logical tree
	ent    bool
}

// fixed witnesses (kept first): the defects this property found in the pinned tree
var fixed = []string{
	`<ul><li><p>tk0001x loose item</p></li><li>tk0002x tight</li></ul>`,
	`<ol><li><p>tk0001x a</p><p>tk0002x b</p><ul><li>tk0003x nested</li></ul></li><li><blockquote>tk0004x q</blockquote></li><li><div>tk0005x d</div></li></ol>`,
	`<ul><li>tk0001x<table><tr><td>tk0002x</td><td>tk0003x</td></tr></table></li></ul>`,
	`<ul><li>tk0001x a</li><h3>tk0002x mid</h3><li>tk0003x b</li></ul>`,
	`<ul><li>tk0001x a</li><p>tk0002x mid</p><li>tk0003x b</li></ul><p>tk0004x after</p>`,
	`<ul><li>tk0001x a</li><p class="nav">tk0002x mid</p><li>tk0003x b</li></ul>`,
	`<ul><li>tk0001x a</li><div><pre>tk0002x code</pre></div><li>tk0003x b</li></ul>`,
	`<ul><li>tk0001x a</li><blockquote>tk0002x q</blockquote><div>tk0003x d</div><li>tk0004x b</li></ul>`,
	`<table><thead><tr><th>tk0001x</th></tr></thead><tbody><tr><td>tk0002x</td></tr></tbody><tfoot><tr><td>tk0003x total</td></tr></tfoot></table>`,
	`<table><tr><td colspan="2">tk0001x wide</td></tr><tr><td>tk0002x</td><td>tk0003x</td></tr></table>`,
	`<p>tk0001x intro<table><tr><td>tk0002x</td></tr></table></p>`,
	`<p>tk0001x intro <b>tk0002x</b><table><tr><td>tk0003x</td></tr></table>tk0004x tail <a href=x>tk0005x</a><table><tr><td>tk0006x</td></tr></table></p>`,
	`<div>tk0001x intro <b>tk0002x bold</b><p>tk0003x para</p>tk0004x tail</div>`,
	`<div>tk0001x outer<div>tk0002x inner<p>tk0003x</p>tk0004x inner2</div>tk0005x outer2</div>`,
	`<ul><li>tk0001x a</li><div>tk0002x text<p>tk0003x</p></div><li>tk0004x b</li></ul>`,
	`<div>tk0001x <span class="menu">tk0002x</span> tk0003x<nav>tk0004x <a href=1>tk0005x</a></nav>tk0006x<p class="sidebar">tk0007x</p><aside>tk0008x</aside>tk0009x</div>`,
	`<div class="nav">tk0001x own<p>tk0002x</p></div><div>tk0003x see <code>tk0004x</code> here<li>tk0005x stray</li><h2>tk0006x</h2><!-- lk0001x --><script>lk0002x</script> <br> </div>`,
	`<div><span>tk0001x wrapped<p>tk0002x</p>tk0003x</span>tk0004x<section>tk0005x sec<p>tk0006x</p></section></div>`,
	`<p>tk0001x<table><tr><td>tk0002x</td></tr></table><span>tk0003x<table><tr><td>tk0004x</td></tr></table></span></p>`,
	`<p>tk0001x<table><section>tk0002x<div>tk0003x</div></section><tr><td>tk0004x</td></tr></table></p>`,
	`<main><a href=a><p>tk0001x two<table><tr><td>tk0002x</td></tr></table><a href=b>tk0003x</a> tk0004x<table><tr><td>tk0005x</td></tr></table></p></a></main>`,
	`<!DOCTYPE html><body><div id=wrapper><header><h1>tk0001x site</h1></header><main><article><header><h2>tk0002x post</h2></header><p>tk0003x body</p><footer><p>tk0004x byline</p></footer></article></main><footer><p>tk0005x legal</p></footer></div><script>var lk0001x;</script>`,
	`<div class="footnote"><p>tk0001x</p></div><div class="sidebarish"><p>tk0002x</p></div><div class="navigate"><p>tk0003x</p></div><div class="main-nav"><p>tk0004x</p></div>`,
	`<div><a href=1>tk0001x</a> <a href=2>tk0002x</a> <a href=3>tk0003x</a> <a href=4>tk0004x</a></div><div><p>tk0005x text</p></div>`,
	`<div><li><p>tk0001x para in a stray li</p></li><li>tk0002x stray item<ul><li>tk0003x nested</li></ul></li></div><p>tk0004x</p>`,
	`<blockquote><nav><p>tk0001x</p></nav><p>tk0002x</p></blockquote><h2>caf&eacute; &amp; &#x4e2d; tk0003x &lt;b&gt;</h2>`,
	// elements sharing a class value outside the vocabulary, told apart by id / role only
	`<div class="card" id="sidebar"><p>tk0001x</p></div><div class="card"><p>tk0002x</p></div><div class="card" id="story-1"><p>tk0003x</p></div><ul class="card" role="navigation"><li>tk0004x</li></ul><ul class="card"><li>tk0005x</li></ul>`,
	`<div class="row"><p>tk0001x</p></div><div class="row" id="main-menu"><p>tk0002x</p></div><p class="row">tk0003x</p><section class="row"><h2 class="row" id="footer">tk0004x</h2><p class="row">tk0005x</p></section>`,
}

func genCase(seed uint64, index int) (*kase, []byte, *genInfo) {
	r := hx.NewRng(seed).Fork(uint64(index))
	g := newGen(r, r.Range(3, 40))
	doc, layout := g.document()
	// families of elements sharing a neutral class value (a pass with a generator of its own)
	if r2 := hx.NewRng(seed).Fork(uint64(index)).Fork(1919); r2.Chance(2, 5) {
		g.shareClasses(doc, r2)
	}
	o := serOpts{doctype: r.Intn(3), omitEnd: r.Chance(1, 3), omitWrap: r.Chance(1, 4), upper: r.Chance(1, 5),
		indent: r.Chance(1, 2), unclosedFmt: r.Chance(1, 6), selfClose: r.Chance(1, 3), entities: r.Intn(2), xmlProlog: r.Chance(1, 8)}
	chunks, ent := serialize(r, doc, o)
	info := &genInfo{doc: doc, strict: true, ent: ent}
	s := join(chunks)
	note := "layout=" + layout
	if r.Chance(1, 5) {
		var what string
		s, what = damage(r, chunks)
		info.strict = false
		note += " damage=" + what
	}
	for f := range g.feat {
		note += " " + f
	}
	return &kase{Stream: "gen", Index: index, Note: note, HTML: s}, []byte(s), info
}

func countNote(c *hx.Ctx, note string) {
	for _, f := range strings.Fields(note) {
		c.Count(f)
	}
}

func Run(c *hx.Ctx) {
	c.Rep.Rule = "DOM trees generated from a grammar of content elements (h1-6, p, nested/loose lists, tables with spans and sections, pre/code, blockquote) " +
		"and block containers (div, p in quirks mode, section, article, blockquote, li, td, …) whose children interleave inline runs (text, inline elements with navigation-like attributes, blank runs) with block-level children, wrappers around blocks and nested containers of the same kind, " +
		"mixed with nav/aside/header/footer, ARIA roles, class/id names from and near the exclusion vocabulary, families of elements that share one ordinary class value and differ in id/role (two documents in five), link-dense/sparse blocks and skipped elements, " +
		"at depth up to 10, in six page layouts; written by an independent HTML writer (entity forms, optional tags omitted, mixed case, unclosed formatting) and, " +
		"for one case in five, damaged (truncation, dropped/stray/duplicated tags, garbage); every content element carries a unique token; each document is read in " +
		"all four modes through htmldoc.Open/OpenReader, tabula.Open/FromHTMLString/FromHTMLReader and an EPUB built around it. Non-trivial = mode None returns non-empty text. " +
		"Depth limit of OpenReader (10000 levels): seven shapes of nesting (spans, formatting elements, lists, blockquotes, containers, tables in cells, divs) written to the heights " +
		"9999, 10000, 10001 and far beyond, the height measured by the harness on its own parse; within the limit the same pipeline, beyond it every entry point must refuse and an EPUB must keep its other chapters; " +
		"the depth walk is compared at limits next to the height of every third generated document."
	matchOps(c)
	lostFamily(c)
	for i, s := range fixed {
		k := &kase{Stream: "fixed", Index: i, HTML: s}
		c.Count("fixed")
		runDoc(c, k, []byte(s), nil)
	}
	n := c.N(900, 6000)
	for i := 0; i < n; i++ {
		k, data, info := genCase(c.Seed, i)
		if os.Getenv("C19_DUMP") == fmt.Sprint(i) {
			fmt.Fprintf(os.Stderr, "CASE %d\n%s\n", i, data)
		}
		countNote(c, k.Note)
		if info.strict {
			c.Count("strict")
		}
		runDoc(c, k, data, info)
	}
	deepCases(c)
	os.RemoveAll(filepath.Join(c.OutDir, "tmp"))
}

func Replay(c *hx.Ctx, kase_ map[string]interface{}) {
	stream, _ := kase_["stream"].(string)
	idx := 0
	if f, ok := kase_["index"].(float64); ok {
		idx = int(f)
	}
	htmlS, _ := kase_["html"].(string)
	switch stream {
	case "gen":
		k, data, info := genCase(c.Seed, idx)
		if htmlS != "" && htmlS != k.HTML {
			// the generator changed since the replay was written: fall back to the recorded bytes
			runDoc(c, &kase{Stream: "html", Index: idx, HTML: htmlS}, []byte(htmlS), nil)
			return
		}
		runDoc(c, k, data, info)
	case "match":
		matchOne(c, htmlS)
	case "deep":
		// regenerated from the note: shape=<name> height=<n>
		note, _ := kase_["note"].(string)
		var name string
		var want int
		if _, err := fmt.Sscanf(note, "shape=%s height=%d", &name, &want); err == nil {
			for si := range deepShapes {
				if deepShapes[si].name == name {
					if doc, ok := deepShapes[si].atHeight(want); ok {
						runDeep(c, &kase{Stream: "deep", Index: idx, Note: note, HTML: doc}, []byte(doc), &deepShapes[si], want, !deepShapes[si].slow)
					}
				}
			}
		}
	case "deep-nav":
		navDocs(c)
	default:
		runDoc(c, &kase{Stream: stream, Index: idx, HTML: htmlS}, []byte(htmlS), nil)
	}
	os.RemoveAll(filepath.Join(c.OutDir, "tmp"))
}

// ---- pattern matcher ops -----------------------------------------------------------

func patternHit(s string) bool {
	n := &html.Node{Type: html.ElementNode, Data: "span", Attr: []html.Attribute{{Key: "class", Val: s}}}
	return htmldoc.VerifExcluder(htmldoc.NavigationExclusionStandard, n)(n)
}

func matchOne(c *hx.Ctx, s string) bool {
	hit := patternHit(s)
	out := "0"
	if hit {
		out = "1"
	}
	c.Op("c19.match "+hx.HexS(s), out)
	// the same name in id= must give the same answer, and Explicit must ignore it
	n := &html.Node{Type: html.ElementNode, Data: "span", Attr: []html.Attribute{{Key: "id", Val: s}}}
	idHit := htmldoc.VerifExcluder(htmldoc.NavigationExclusionAggressive, n)(n)
	exHit := htmldoc.VerifExcluder(htmldoc.NavigationExclusionExplicit, n)(n)
	chk(c, "C19/mode-lattice-pattern", idHit == hit && !exHit, map[string]string{"stream": "match", "html": s}, func() string {
		return fmt.Sprintf("name %q: standard(class)=%v aggressive(id)=%v explicit(id)=%v", s, hit, idHit, exHit)
	})
	return hit
}

func matchOps(c *hx.Ctx) {
	hits := 0
	for _, w := range append(append([]string{}, vocab...), nearVocab...) {
		for _, d := range decor {
			s := fmt.Sprintf(d, w)
			for _, v := range []string{s, strings.ToUpper(s), strings.Title(s), strings.Replace(s, "s", "ſ", 1), strings.Replace(s, "k", "K", 1)} {
				if matchOne(c, v) {
					hits++
				}
			}
		}
	}
	// exhaustive short strings over a reduced alphabet
	alpha := []string{"n", "a", "v", "-", "X", " "}
	var rec func(prefix string, left int)
	rec = func(prefix string, left int) {
		if matchOne(c, prefix) {
			hits++
		}
		if left == 0 {
			return
		}
		for _, a := range alpha {
			rec(prefix+a, left-1)
		}
	}
	rec("", c.N(4, 5))
	for i := 0; i < c.N(500, 5000); i++ {
		var sb strings.Builder
		for j := c.Rng.Range(1, 4); j > 0; j-- {
			switch c.Rng.Intn(4) {
			case 0:
				sb.WriteString(hx.Pick(c.Rng, vocab))
			case 1:
				sb.WriteString(hx.Pick(c.Rng, nearVocab))
			case 2:
				sb.WriteString(hx.Pick(c.Rng, []string{"-", "_", " ", "1", "x", "é", "ſ", "K", "\n", ".", "A", "z"}))
			default:
				sb.WriteString(caseFlip(c.Rng, hx.Pick(c.Rng, vocab)))
			}
		}
		if matchOne(c, sb.String()) {
			hits++
		}
	}
	c.Rep.Distribution["match-hits"] = hits
}

// chk is c.Check plus an optional debugging trace (C19_DEBUG=<key substring>).
var dbgKey = os.Getenv("C19_DEBUG")
var dbgLeft = 40

func chk(c *hx.Ctx, key string, ok bool, k interface{}, detail func() string) bool {
	if !ok && dbgKey != "" && strings.Contains(key, dbgKey) && dbgLeft > 0 {
		dbgLeft--
		idx, note := -1, ""
		if kk, isK := k.(*kase); isK {
			idx, note = kk.Index, kk.Stream+" "+kk.Note
		}
		fmt.Fprintf(os.Stderr, "DBG %s case=%d %s\n    %s\n", key, idx, note, detail())
	}
	return c.Check(key, ok, k, detail)
}
