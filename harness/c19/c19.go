// Package c19 is the correspondence/oracle harness for property C19.
package c19

import "verifharness/hx"

func init() { hx.Register("C19", Run, Replay) }

// Run is not built yet for this property.
func Run(c *hx.Ctx) { c.Note("C19: harness not built") }

func Replay(c *hx.Ctx, kase map[string]interface{}) {}
