package c19

import (
	"fmt"
	"regexp"
	"strings"
	"unicode"

	"golang.org/x/net/html"

	"verifharness/hx"
)

// Statement-level oracles, written from the property text. They look only at
// what the implementation returned and at the DOM the parser produced (the
// parser is a parameter of the property), never at the Lean model.

var tokRe = regexp.MustCompile(`(tk|lk|nx)[0-9]{4}x`)

func tokseq(s string) []string { return tokRe.FindAllString(s, -1) }

// squeeze removes all white space: text is compared up to white space only.
func squeeze(s string) string {
	return strings.Map(func(r rune) rune {
		if unicode.IsSpace(r) {
			return -1
		}
		return r
	}, s)
}

func norm(s string) string {
	var b strings.Builder
	sp := false
	for _, r := range s {
		if unicode.IsSpace(r) {
			sp = true
			continue
		}
		if sp && b.Len() > 0 {
			b.WriteByte(' ')
		}
		sp = false
		b.WriteRune(r)
	}
	return b.String()
}

var skipTags = map[string]bool{"script": true, "style": true, "noscript": true, "template": true, "svg": true, "math": true,
	"iframe": true, "object": true, "embed": true}

// tokInfo describes where a token sits in the parsed tree.
type tokInfo struct {
	tok   string
	order int
	unit  int // document position of the list item that owns the token, else of the token
	node  *html.Node
	kind  string // innermost content element kind, "" if none
	skip  bool   // inside an element whose content is not page text
}

func hasAncestor(n *html.Node, stop *html.Node, tags ...string) bool {
	for p := n.Parent; p != nil; p = p.Parent {
		if p.Type == html.ElementNode {
			for _, t := range tags {
				if p.Data == t {
					return true
				}
			}
		}
		if p == stop {
			break
		}
	}
	return false
}

var blockChild = map[string]bool{"div": true, "p": true, "ul": true, "ol": true, "table": true, "h1": true, "h2": true, "h3": true,
	"h4": true, "h5": true, "h6": true, "blockquote": true, "pre": true, "article": true, "section": true, "main": true,
	"header": true, "footer": true, "nav": true, "aside": true}

// phrasing: the subtree holds no block-level element, list item or code
// element: text, inline elements (b, a, span, …), comments. What is inside
// script/style/… is not looked at.
func phrasing(n *html.Node) bool {
	if n.Type == html.ElementNode {
		if skipTags[n.Data] {
			return true
		}
		if blockChild[n.Data] || n.Data == "li" || n.Data == "code" {
			return false
		}
	}
	for c := n.FirstChild; c != nil; c = c.NextSibling {
		if !phrasing(c) {
			return false
		}
	}
	return true
}

// inWrapper: between the text node n and the paragraph para there is an element
// other than a div that is not phrasing content, i.e. a wrapper (span, a,
// section, …) around a block-level element: n is that wrapper's own text.
func inWrapper(n *html.Node, para *html.Node) bool {
	for p := n.Parent; p != nil && p != para; p = p.Parent {
		if p.Type == html.ElementNode && p.Data != "div" && !phrasing(p) {
			return true
		}
	}
	return false
}

// contentKind names the innermost content element around a text node: the
// element kinds the property lists. Text that belongs to a table but to none of
// its cells (caption) belongs to no content element. A paragraph that has
// block-level element children (only possible in quirks mode: <p>text<table>)
// is reported as its own kind, and text of such a paragraph that sits in a
// wrapper around a block-level element as another.
func contentKind(n *html.Node, root *html.Node) (kind string, skip bool) {
	decided := false
	for p := n.Parent; p != nil; p = p.Parent {
		if p.Type == html.ElementNode {
			if skipTags[p.Data] {
				return "", true
			}
			if !decided {
				switch p.Data {
				case "h1", "h2", "h3", "h4", "h5", "h6":
					kind, decided = "heading", true
				case "p":
					kind, decided = "para", true
					for c := p.FirstChild; c != nil; c = c.NextSibling {
						if c.Type == html.ElementNode && blockChild[c.Data] {
							kind = "para-with-block-child"
						}
					}
					if kind == "para-with-block-child" && inWrapper(n, p) {
						kind = "para-in-wrapper"
					}
				case "li":
					kind, decided = "item", true
				case "td", "th":
					if hasAncestor(p, root, "table") {
						kind, decided = "cell", true
					}
				case "table", "caption", "ul", "ol":
					// text of a table outside its cells (caption), or of a list
					// outside its items, is in none of the listed content elements
					decided = true
				case "pre", "code":
					kind, decided = "code", true
				case "blockquote":
					kind, decided = "quote", true
				}
			}
		}
		if p == root {
			break
		}
	}
	return kind, false
}

// unitOf: "in document order" is read per content element. A list item is one
// unit: its own text (everything in the <li> except nested lists that are its
// direct children) is returned at the item's position, its nested lists follow.
// All other content elements return their text in plain document order.
func unitOf(n *html.Node, root *html.Node, pos map[*html.Node]int) int {
	var path []*html.Node
	for p := n; p != nil; p = p.Parent {
		path = append(path, p)
		if p == root {
			break
		}
	}
	for i := len(path) - 1; i > 0; i-- {
		e := path[i]
		if e.Type != html.ElementNode {
			continue
		}
		switch e.Data {
		case "h1", "h2", "h3", "h4", "h5", "h6", "p", "pre", "code", "blockquote", "table":
			return pos[n]
		case "div":
			// a div without a block-level DIRECT child and with text is read as ONE paragraph
			// (getTextContent of the whole div; `want`/`src` of the Lean model: tnFlatL kids): its
			// text nodes come in plain document order, also those of list items that sit in it
			// below an inline-level wrapper (<div><font><ul><li>a<ul><li>b</li></ul>c</li></ul></font></div>
			// returns the paragraph "a b c"; seed 3, case 449 was reported as C19/content-order)
			if !hasBlockChild(e) && !blankText(e) {
				return pos[n]
			}
		case "li":
			next := path[i-1]
			if next.Type == html.ElementNode && (next.Data == "ul" || next.Data == "ol") {
				continue
			}
			return pos[e]
		}
	}
	return pos[n]
}

func scanTokens(root *html.Node) []tokInfo {
	var out []tokInfo
	pos := map[*html.Node]int{}
	var number func(n *html.Node)
	number = func(n *html.Node) {
		pos[n] = len(pos)
		for c := n.FirstChild; c != nil; c = c.NextSibling {
			number(c)
		}
	}
	number(root)
	var walk func(n *html.Node)
	walk = func(n *html.Node) {
		if n.Type == html.TextNode {
			for _, t := range tokseq(n.Data) {
				k, skip := contentKind(n, root)
				out = append(out, tokInfo{tok: t, order: len(out), unit: unitOf(n, root, pos), node: n, kind: k, skip: skip})
			}
		}
		for c := n.FirstChild; c != nil; c = c.NextSibling {
			walk(c)
		}
	}
	walk(root)
	return out
}

func countLinks(n *html.Node) int {
	k := 0
	if n.Type == html.ElementNode && n.Data == "a" {
		k = 1
	}
	for c := n.FirstChild; c != nil; c = c.NextSibling {
		k += countLinks(c)
	}
	return k
}

// plainPath: no ancestor could be taken for navigation by ANY reading of the
// modes: no id/role, no class other than one of the ordinary styling names the
// generator authored as outside the vocabulary (neutralClasses: "card", "row",
// …), not nav/aside/header/footer, no link-heavy block. What OTHER elements of
// the document look like (same class with a navigation id, …) does not matter.
func plainPath(n *html.Node, root *html.Node) bool {
	for p := n.Parent; p != nil; p = p.Parent {
		if p.Type == html.ElementNode {
			switch p.Data {
			case "nav", "aside", "header", "footer":
				return false
			case "div", "section", "ul", "ol":
				if countLinks(p) >= 4 {
					return false
				}
			}
			for _, a := range p.Attr {
				if a.Key == "id" || a.Key == "role" || (a.Key == "class" && !neutralClass[a.Val]) {
					return false
				}
			}
		}
		if p == root {
			break
		}
	}
	return true
}

func excludedPath(n *html.Node, root *html.Node, ex func(*html.Node) bool) bool {
	for p := n.Parent; p != nil; p = p.Parent {
		if ex(p) {
			return true
		}
		if p == root {
			break
		}
	}
	return false
}

func isSubseq(small, big []string) (bool, string) {
	j := 0
	for _, s := range small {
		for j < len(big) && big[j] != s {
			j++
		}
		if j == len(big) {
			return false, s
		}
		j++
	}
	return true, ""
}

func atomStrings(as []atom) []string {
	out := make([]string, len(as))
	for i, a := range as {
		out[i] = a.kind + ":" + a.text
	}
	return out
}

func atomOf(as []atom, tok string) (atom, bool) {
	for _, a := range as {
		if strings.Contains(a.text, tok) {
			return a, true
		}
	}
	return atom{}, false
}

func oracles(c *hx.Ctx, k *kase, data []byte, run *docRun, g *genInfo) {
	toks := scanTokens(run.root)
	info := map[string]tokInfo{}
	for _, t := range toks {
		if _, dup := info[t.tok]; !dup {
			info[t.tok] = t
		}
	}
	none := run.views[0]
	type namedView struct {
		name string
		s    string
	}
	textViews := func(v *view) []namedView {
		var d, e strings.Builder
		for _, a := range v.docAtoms {
			d.WriteString(a.text + "\n")
		}
		for _, a := range v.elAtoms {
			e.WriteString(a.text + "\n")
		}
		return []namedView{{"text", v.text}, {"markdown", v.md}, {"document", d.String()}, {"elements", e.String()}}
	}

	// 1. content returned once, in document order (mode None returns everything)
	for _, nv := range textViews(none) {
		seq := tokseq(nv.s)
		count := map[string]int{}
		for _, t := range seq {
			count[t]++
		}
		for _, t := range toks {
			if t.skip || t.kind == "" || strings.HasPrefix(t.tok, "lk") {
				continue
			}
			if nv.name == "text" && strings.HasPrefix(t.kind, "para-") {
				c.Count("token-in-" + t.kind)
			}
			chk(c, "C19/content-missing-"+t.kind, count[t.tok] >= 1, k, func() string {
				return fmt.Sprintf("token %s sits in a %s element of the parsed document but the %s view of mode none does not contain it", t.tok, t.kind, nv.name)
			})
		}
		for tok, n := range count {
			kind := info[tok].kind
			if kind == "" {
				kind = "other"
			}
			chk(c, "C19/content-duplicated-"+kind, n == 1, k, func() string {
				return fmt.Sprintf("token %s occurs %d times in the %s view of mode none", tok, n, nv.name)
			})
		}
		lastU, lastO, lastTok := -1, -1, ""
		okOrder := true
		var bad string
		for _, t := range seq {
			ti, known := info[t]
			if !known {
				continue
			}
			before := ti.unit < lastU || (ti.unit == lastU && ti.order < lastO)
			if before && okOrder {
				okOrder = false
				bad = fmt.Sprintf("%s (content element at document position %d, token %d) is returned after %s (position %d, token %d) in the %s view", t, ti.unit, ti.order, lastTok, lastU, lastO, nv.name)
			}
			if !before {
				lastU, lastO, lastTok = ti.unit, ti.order, t
			}
		}
		chk(c, "C19/content-order", okOrder, k, func() string { return bad })
	}

	// 2. markup, scripts, styles, comments and attribute values never leak
	for m, v := range run.views {
		for _, nv := range textViews(v) {
			leak := ""
			for _, t := range tokseq(nv.s) {
				if !strings.HasPrefix(t, "lk") {
					continue
				}
				if ti, ok := info[t]; ok && !ti.skip {
					continue // damage moved it into page text
				}
				leak = t
			}
			chk(c, "C19/script-style-leak", leak == "", k, func() string {
				return fmt.Sprintf("token %s from a script/style/comment/attribute appears in the %s view of mode %s", leak, nv.name, modeName[m])
			})
		}
	}

	// 3. monotone modes, None is everything
	for m := 1; m < 4; m++ {
		weaker, stricter := run.views[m-1], run.views[m]
		key := "C19/mode-not-subsequence-" + modeName[m-1] + "-" + modeName[m]
		ws, ss := textViews(weaker), textViews(stricter)
		for i := range ws {
			ok, missing := isSubseq(tokseq(ss[i].s), tokseq(ws[i].s))
			chk(c, key, ok, k, func() string {
				return fmt.Sprintf("%s view: token %s is returned by mode %s but not (or not in that order) by mode %s", ws[i].name, missing, modeName[m], modeName[m-1])
			})
		}
		ok, missing := isSubseq(atomStrings(stricter.elAtoms), atomStrings(weaker.elAtoms))
		chk(c, key, ok, k, func() string {
			return fmt.Sprintf("atom %q of mode %s is not in the sequence of mode %s", clip(missing), modeName[m], modeName[m-1])
		})
		ok, missing = isSubseq(atomStrings(stricter.docAtoms), atomStrings(weaker.docAtoms))
		chk(c, key, ok, k, func() string {
			return fmt.Sprintf("document atom %q of mode %s is not in the sequence of mode %s", clip(missing), modeName[m], modeName[m-1])
		})
		ok, missing = isSubseq(atomStrings(stricter.docAtoms), atomStrings(none.docAtoms))
		chk(c, "C19/none-not-everything", ok, k, func() string {
			return fmt.Sprintf("document atom %q of mode %s is not returned by mode none", clip(missing), modeName[m])
		})
		ok, missing = isSubseq(tokseq(stricter.text), tokseq(none.text))
		chk(c, "C19/none-not-everything", ok, k, func() string {
			return fmt.Sprintf("token %s of mode %s is not returned by mode none", missing, modeName[m])
		})
	}
	// mode None must not depend on the exclusion machinery at all
	chk(c, "C19/none-not-everything", !strings.Contains(none.xbits, "1"), k, func() string { return "mode none excludes a node" })

	for m := 1; m < 4; m++ {
		if run.views[m].text != run.views[m-1].text {
			c.Count("narrows-" + modeName[m-1] + "-to-" + modeName[m])
		}
		if strings.Contains(run.views[m].xbits, "1") {
			c.Count("excludes-some-node-" + modeName[m])
		}
	}
	// 4. content outside the excluded subtrees is unchanged
	noneToks := map[string]bool{}
	for _, t := range tokseq(none.text) {
		noneToks[t] = true
	}
	for m := 1; m < 4; m++ {
		v := run.views[m]
		have := map[string]bool{}
		for _, t := range tokseq(v.text) {
			have[t] = true
		}
		for _, t := range toks {
			if !noneToks[t.tok] || t.skip {
				continue
			}
			outside := !excludedPath(t.node, run.root, v.excluded)
			plain := plainPath(t.node, run.root)
			if !outside && !plain {
				continue
			}
			why := "no ancestor is excluded by this mode"
			if plain {
				why = "no ancestor has an id/role, a class other than an ordinary styling name (card, row, …), a nav/aside/header/footer tag or four links"
			}
			if !chk(c, "C19/outside-changed", have[t.tok], k, func() string {
				return fmt.Sprintf("token %s is returned by mode none, %s, but mode %s does not return it", t.tok, why, modeName[m])
			}) {
				continue
			}
			a0, ok0 := atomOf(none.elAtoms, t.tok)
			am, okm := atomOf(v.elAtoms, t.tok)
			chk(c, "C19/outside-changed", ok0 && okm && a0 == am, k, func() string {
				return fmt.Sprintf("token %s: mode none returns %s %q, mode %s returns %s %q", t.tok, a0.kind, clip(a0.text), modeName[m], am.kind, clip(am.text))
			})
		}
	}

	// 5. generator-side expectations (only when the parse is predictable)
	if g != nil && g.strict {
		nt := squeeze(none.text)
		var walk func(n *gnode, skipped bool)
		walk = func(n *gnode, skipped bool) {
			if skipTags[n.tag] {
				skipped = true
			}
			if n.kind != "" && !skipped {
				present := strings.Contains(none.text, n.tok)
				kind := n.kind
				if ti, ok := info[n.tok]; ok && ti.kind == "para-in-wrapper" {
					// the parser moved the paragraph's text into a wrapper around a table
					// (nested <a>: adoption agency): the more specific failure class
					kind = ti.kind
				}
				chk(c, "C19/content-missing-"+kind, present, k, func() string {
					return fmt.Sprintf("token %s of a <%s> (%s) is not in the text of mode none", n.tok, n.tag, n.kind)
				})
				if present {
					special := strings.IndexFunc(n.own, func(r rune) bool { return r > 127 || strings.ContainsRune("&<>\"'", r) }) >= 0
					key := "C19/content-text-altered"
					if special {
						key = "C19/entity-not-decoded"
					}
					chk(c, key, strings.Contains(nt, squeeze(n.own)), k, func() string {
						return fmt.Sprintf("text %q of <%s> %s is not returned verbatim (whitespace aside)", n.own, n.tag, n.tok)
					})
				}
			}
			for _, kid := range n.kids {
				walk(kid, skipped)
			}
		}
		walk(g.doc, false)
	}
	_ = hx.HexS
}
