package c19

import (
	"bytes"
	"fmt"
	"os"
	"path/filepath"
	"strconv"
	"strings"
	"time"

	"golang.org/x/net/html"

	"github.com/tsawler/tabula"
	"github.com/tsawler/tabula/epubdoc"
	"github.com/tsawler/tabula/htmldoc"

	"verifharness/hx"
	"verifharness/writers"
)

// The depth limit of htmldoc.OpenReader (fix a65974f "HTML nested deeper than
// 10000 levels is refused", and its consequence for the chapter loops of
// epubdoc, which skip a chapter OpenReader refuses).
//
// The limit counts edges from the document node down to the deepest node of
// the tree x/net/html built, text nodes included; a tree of exactly 10000 is
// accepted, 10001 is refused. The harness measures that height itself, on a
// tree it parses with x/net/html directly (height below), and reaches the
// limit from both sides with seven shapes of nesting:
//
//   depth limit-1, limit       the whole of runDoc: every oracle written from the
//                              property text, every entry point, every model op
//   depth limit+1, far beyond  refused as documented by every entry point, no
//                              crash; an EPUB leaves the chapter out and keeps
//                              the other chapters; model ops answer `refused`
//
// and ties the walk itself at small limits on every generated document
// (c19.deeper, through the hook VerifTreeDeeperThan).

const depthLimit = 10000 // from the commit message; tied to the source by c19.limit

// height: edges from n down to its deepest descendant (any node type).
func height(n *html.Node) int {
	h := 0
	for c := n.FirstChild; c != nil; c = c.NextSibling {
		if x := height(c) + 1; x > h {
			h = x
		}
	}
	return h
}

// heightOf parses the bytes with x/net/html (not through tabula) and measures.
func heightOf(data []byte) (*html.Node, int) {
	root, err := html.Parse(bytes.NewReader(data))
	if err != nil {
		return nil, -1
	}
	return root, height(root)
}

// ---- shapes ---------------------------------------------------------------------

// A shape writes a document whose nesting grows by a fixed number of levels per
// unit; pad wraps the innermost text in that many extra <span>, to reach heights
// the unit size would skip. The model op column says whether the Lean model can
// run the shape at 10000 levels (its text collector copies the growing string at
// every closed div/p/li/tr, so chains of those are cubic there, not in Go).
type deepShape struct {
	name  string
	model bool // the Lean model can run it at the limit
	slow  bool // x/net/html needs ~0.6 s to parse it at the limit (it walks the whole stack of open elements at every start tag of a block element)
	build func(units, pad int) string
}

func padded(tok string, pad int) string {
	return strings.Repeat("<span>", pad) + tok + strings.Repeat("</span>", pad)
}

var fmtTags = []string{"i", "b", "em", "strong", "u"}

var deepShapes = []deepShape{
	{"span-in-p", true, false, func(n, pad int) string {
		return "<!DOCTYPE html><html><body><h1>tk0001x top</h1><p>tk0002x before " + strings.Repeat("<span>", n) + padded("tk0003x deepest", pad) +
			strings.Repeat("</span>", n) + " tk0004x after</p><p>tk0005x last</p></body></html>"
	}},
	{"formatting-in-heading", true, false, func(n, pad int) string {
		var b strings.Builder
		b.WriteString("<html><body><h2>tk0001x ")
		for i := 0; i < n; i++ {
			b.WriteString("<" + fmtTags[i%len(fmtTags)] + ">")
		}
		b.WriteString(padded("tk0002x deepest", pad))
		for i := n - 1; i >= 0; i-- {
			b.WriteString("</" + fmtTags[i%len(fmtTags)] + ">")
		}
		b.WriteString("</h2><p>tk0003x last</p></body></html>")
		return b.String()
	}},
	{"nested-lists", true, true, func(n, pad int) string {
		// a token in the item of every level that is a multiple of n/4, and in the deepest
		var b strings.Builder
		b.WriteString("<!DOCTYPE html><html><body><p>tk0001x first</p>")
		tok := 1
		step := n/4 + 1
		for i := 0; i < n; i++ {
			if i%2 == 0 {
				b.WriteString("<ul><li>")
			} else {
				b.WriteString("<ol><li>")
			}
			if i%step == 0 && i != n-1 {
				tok++
				fmt.Fprintf(&b, "tk%04dx level ", tok)
			}
		}
		tok++
		b.WriteString(padded(fmt.Sprintf("tk%04dx deepest", tok), pad))
		for i := n - 1; i >= 0; i-- {
			if i%2 == 0 {
				b.WriteString("</li></ul>")
			} else {
				b.WriteString("</li></ol>")
			}
		}
		fmt.Fprintf(&b, "<p>tk%04dx last</p></body></html>", tok+1)
		return b.String()
	}},
	{"nested-blockquotes", true, true, func(n, pad int) string {
		return "<html><body><p>tk0001x first</p>" + strings.Repeat("<blockquote>", n) + padded("tk0002x deepest", pad) +
			strings.Repeat("</blockquote>", n) + "<p>tk0003x last</p></body></html>"
	}},
	{"nested-articles", true, true, func(n, pad int) string {
		var b strings.Builder
		b.WriteString("<!DOCTYPE html><html><body><h1>tk0001x top</h1>")
		for i := 0; i < n; i++ {
			b.WriteString([]string{"<article>", "<main>", "<figure>"}[i%3])
		}
		b.WriteString("<h3>tk0002x inner</h3><pre>" + padded("tk0003x deepest", pad) + "</pre>")
		for i := n - 1; i >= 0; i-- {
			b.WriteString([]string{"</article>", "</main>", "</figure>"}[i%3])
		}
		b.WriteString("<p>tk0004x last</p></body></html>")
		return b.String()
	}},
	{"tables-in-cells", true, false, func(n, pad int) string {
		return "<!DOCTYPE html><html><body><p>tk0001x first</p>" + strings.Repeat("<table><tr><td>", n) + padded("tk0002x deepest", pad) +
			strings.Repeat("</td></tr></table>", n) + "<p>tk0003x last</p></body></html>"
	}},
	{"nested-divs", false, true, func(n, pad int) string {
		return "<!DOCTYPE html><html><body><p>tk0001x first</p>" + strings.Repeat("<div>", n) + "<p>" + padded("tk0002x deepest", pad) + "</p>" +
			strings.Repeat("</div>", n) + "<p>tk0003x last</p></body></html>"
	}},
}

// atHeight finds (units, pad) so that the parsed document has the wanted height:
// the height is linear in the units, which two small probes show.
func (s *deepShape) atHeight(want int) (string, bool) {
	_, h1 := heightOf([]byte(s.build(3, 0)))
	_, h2 := heightOf([]byte(s.build(4, 0)))
	per := h2 - h1
	if per <= 0 {
		return "", false
	}
	base := h1 - 3*per
	units := (want - base) / per
	pad := want - base - units*per
	if units < 1 {
		return "", false
	}
	return s.build(units, pad), true
}

// ---- the cases -----------------------------------------------------------------------

// deepPlan: which heights a shape is run at, and whether a document within the limit goes through
// the whole of runDoc (all oracles, all entry points, every model op: some fifty parses) or through
// the light pipeline (five parses).
//
//	quick     fast shapes: limit-1, limit, limit+1, 3*limit+7, all full
//	          slow shapes: ONE of the four, picked by the seed, at limit and limit+1, light
//	thorough  every shape at limit-1, limit, limit+1 and far beyond (fast: 6*limit+1, slow: 2*limit+3);
//	          slow shapes full at the limit, light at limit-1
type deepRun struct {
	height int
	full   bool
}

func deepPlan(c *hx.Ctx, si int, s *deepShape) []deepRun {
	if !s.slow {
		return []deepRun{{depthLimit - 1, true}, {depthLimit, true}, {depthLimit + 1, true}, {c.N(3*depthLimit+7, 6*depthLimit+1), true}}
	}
	if c.Thorough() {
		return []deepRun{{depthLimit - 1, false}, {depthLimit, s.model}, {depthLimit + 1, false}, {2*depthLimit + 3, false}}
	}
	nslow, mine := 0, -1
	for i := range deepShapes {
		if deepShapes[i].slow {
			if i == si {
				mine = nslow
			}
			nslow++
		}
	}
	if int(c.Seed%uint64(nslow)) != mine {
		return nil
	}
	return []deepRun{{depthLimit, false}, {depthLimit + 1, false}}
}

func deepCases(c *hx.Ctx) {
	c.Op("c19.limit", strconv.Itoa(htmldoc.VerifMaxTreeDepth))
	chk(c, "C19/depth-limit-constant", htmldoc.VerifMaxTreeDepth == depthLimit, map[string]string{"stream": "deep"}, func() string {
		return fmt.Sprintf("maxTreeDepth is %d, the documented limit is %d", htmldoc.VerifMaxTreeDepth, depthLimit)
	})
	idx := 0
	for si := range deepShapes {
		s := &deepShapes[si]
		for _, run := range deepPlan(c, si, s) {
			doc, ok := s.atHeight(run.height)
			if !ok {
				c.Count("deep-shape-unreachable")
				continue
			}
			k := &kase{Stream: "deep", Index: idx, Note: fmt.Sprintf("shape=%s height=%d", s.name, run.height), HTML: doc}
			idx++
			runDeep(c, k, []byte(doc), s, run.height, run.full)
		}
	}
	// far beyond what any op line can carry: the commit's own witness shape, 200000
	// (thorough: 2 million) nested <i> around one word - refused, no crash
	{
		n := c.N(200000, 2000000)
		doc := "<html><body><p>tk0001x " + strings.Repeat("<i>", n) + "tk0002x" + strings.Repeat("</i>", n) + "</p></body></html>"
		k := &kase{Stream: "deep", Index: idx, Note: fmt.Sprintf("shape=i-in-p units=%d", n), HTML: "(generated: " + strconv.Itoa(n) + " nested <i> in a p)"}
		var err1, err2 error
		if os.Getenv("C19_TIMING") != "" {
			t0 := time.Now()
			defer func() { fmt.Fprintf(os.Stderr, "TIMING %s %v\n", k.Note, time.Since(t0)) }()
		}
		okRun := c.Guard("C19/depth-limit", k, 120, func() {
			_, err1 = htmldoc.OpenReader(strings.NewReader(doc))
			_, _, err2 = tabula.FromHTMLString(doc).Text()
		})
		if okRun {
			chk(c, "C19/depth-limit-not-refused", err1 != nil && err2 != nil, k, func() string {
				return fmt.Sprintf("%d nested <i>: OpenReader err=%v, FromHTMLString.Text err=%v", n, err1, err2)
			})
		}
		c.Count("deep-far-beyond-no-op")
		c.Case(k.Note, false)
	}
	t0 := time.Now()
	navDocs(c)
	if os.Getenv("C19_TIMING") != "" {
		fmt.Fprintf(os.Stderr, "TIMING navDocs %v\n", time.Since(t0))
	}
	os.RemoveAll(filepath.Join(c.OutDir, "tmp"))
}

func heightBucket(h int) string {
	switch {
	case h < depthLimit-1:
		return "deep-height<limit-1"
	case h == depthLimit-1:
		return "deep-height=limit-1"
	case h == depthLimit:
		return "deep-height=limit"
	case h == depthLimit+1:
		return "deep-height=limit+1"
	}
	return "deep-height>limit+1"
}

func runDeep(c *hx.Ctx, k *kase, data []byte, s *deepShape, want int, full bool) {
	c.Current(k)
	if os.Getenv("C19_TIMING") != "" {
		t0 := time.Now()
		defer func() { fmt.Fprintf(os.Stderr, "TIMING %s %v\n", k.Note, time.Since(t0)) }()
	}
	root, h := heightOf(data)
	if root == nil {
		c.Count("deep-parse-error")
		return
	}
	c.Count(heightBucket(h))
	c.Count("deep-shape=" + s.name)
	if h != want {
		c.Count("deep-height-missed-target")
	}
	var tb strings.Builder
	dumpTree(&tb, root)
	tree := tb.String()
	// the walk, at the real limit and next to the height of this document
	for _, limit := range []int{depthLimit, h - 1, h, h + 1} {
		got := htmldoc.VerifTreeDeeperThan(root, limit)
		c.Op(fmt.Sprintf("c19.deeper %d %s", limit, tree), map[bool]string{true: "1", false: "0"}[got])
		chk(c, "C19/depth-walk-wrong", got == (h > limit), k, func() string {
			return fmt.Sprintf("treeDeeperThan(doc, %d) = %v on a tree of height %d", limit, got, h)
		})
	}
	var rd *htmldoc.Reader
	var err error
	if !c.Guard("C19/depth-limit", k, 120, func() { rd, err = htmldoc.OpenReader(bytes.NewReader(data)) }) {
		return
	}
	// the statement of the bound: refused exactly when deeper than the limit
	chk(c, "C19/depth-limit-refusal", (err != nil) == (h > depthLimit), k, func() string {
		return fmt.Sprintf("parsed tree has height %d (limit %d) but OpenReader returned err=%v", h, depthLimit, err)
	})
	if err == nil {
		c.Count("deep-admitted")
		if full && s.model {
			// within the limit nothing may have changed: the whole pipeline, all oracles
			c.Count("deep-admitted-full-pipeline")
			runDoc(c, k, data, nil)
		} else {
			c.Count("deep-admitted-light-pipeline")
			deepLight(c, k, data, rd, tree, s)
		}
		return
	}
	c.Count("deep-refused")
	c.Case(k.Note, false)
	refused(c, k, data, tree, s.slow)
}

// deepLight: a document within the limit with as few parses as possible (a reader, the extractor,
// an EPUB): the content oracle from the property text (every token of the source once, in source
// order, in every view and - there is no navigation in these documents - in every mode), and the
// model ops of the views on that one reader (which api_history proves equal to fresh readers).
func deepLight(c *hx.Ctx, k *kase, data []byte, rd *htmldoc.Reader, tree string, s *deepShape) {
	type opPair struct{ line, out string }
	var ops []opPair
	var diffs []string
	want := strings.Join(tokseq(string(data)), " ")
	same := func(what, got string) {
		if g := strings.Join(tokseq(got), " "); g != want {
			diffs = append(diffs, fmt.Sprintf("%s returns tokens %q, the document holds %q", what, clip(g), clip(want)))
		}
	}
	before := `<html><body><p>tk9001x chapter before</p></body></html>`
	after := `<!DOCTYPE html><html><body><h2>tk9002x chapter after</h2><ul><li>tk9003x item</li></ul></body></html>`
	var book string
	var bookErr error
	// the link-density rule of mode Aggressive is quadratic in the model on nested lists
	ms := []int{0, 1 + k.Index%2, []int{-1, 4, 7}[k.Index%3]}
	if s.name == "nested-lists" || !s.model {
		// … and every element list of a chain of divs costs the implementation a second
		ms = []int{0, 1 + k.Index%2}
	}
	withBook := s.model || c.Thorough()
	ok := c.Guard("C19/depth-limit", k, 240, func() {
		for _, m := range ms {
			out, err := threeViews(rd, m)
			if err != nil {
				diffs = append(diffs, err.Error())
				continue
			}
			if s.model {
				ops = append(ops, opPair{fmt.Sprintf("c19.doc %d %s", m, tree), out})
			}
			opts := htmldoc.ExtractOptions{NavigationExclusion: htmldoc.NavigationExclusionMode(m)}
			t, _ := rd.TextWithOptions(opts)
			same(fmt.Sprintf("TextWithOptions(%d)", m), t)
			md, _ := rd.MarkdownWithOptions(opts)
			same(fmt.Sprintf("MarkdownWithOptions(%d)", m), md)
			d, _ := rd.DocumentWithOptions(opts)
			_, atoms := dumpDoc(d)
			var sb strings.Builder
			for _, a := range atoms {
				sb.WriteString(a.text + "\n")
			}
			same(fmt.Sprintf("DocumentWithOptions(%d)", m), sb.String())
		}
		if s.model {
			_, atoms := dumpEls(rd.VerifElements(htmldoc.NavigationExclusionMode(ms[1])))
			var sb strings.Builder
			for _, a := range atoms {
				sb.WriteString(a.text)
			}
			ops = append(ops, opPair{fmt.Sprintf("c19.src %d %s", ms[1], tree), hx.HexS(squeezeRaw(sb.String()))})
			ops = append(ops, opPair{fmt.Sprintf("c19.blk %d %s", ms[1], tree), dumpBlocks(rd.VerifElements(htmldoc.NavigationExclusionMode(ms[1])))})
		}
		if !s.slow || c.Thorough() {
			t, _, err := tabula.FromHTMLString(string(data)).Text()
			if err != nil {
				diffs = append(diffs, "FromHTMLString.Text: "+err.Error())
			}
			same("FromHTMLString.Text", t)
		}
		if !withBook {
			return
		}
		zipped := epub([][]byte{[]byte(before), data, []byte(after)}, []string{"OEBPS", "", "EPUB/pkg"}[k.Index%3])
		er, err := epubdoc.OpenReader(bytes.NewReader(zipped), int64(len(zipped)))
		if err != nil {
			bookErr = err
			return
		}
		book, bookErr = er.TextWithOptions(epubdoc.ExtractOptions{NavigationExclusion: ms[1]})
		er.Close()
	})
	mixedLists = false
	if !ok {
		return
	}
	chk(c, "C19/deep-content-once-in-order", len(diffs) == 0, k, func() string { return strings.Join(diffs, "; ") })
	c.Case(k.Note, want != "")
	if !withBook {
		for _, o := range ops {
			c.Op(o.line, o.out)
		}
		return
	}
	got := strings.Join(tokseq(book), " ")
	chk(c, "C19/epub-deep-chapter", bookErr == nil && got == "tk9001x "+want+" tk9002x tk9003x", k, func() string {
		return fmt.Sprintf("EPUB with a chapter AT the depth limit between two others: err=%v, tokens returned %q (want all three chapters, in order)", bookErr, clip(got))
	})
	c.Count("epub-deep-chapter-kept")
	if s.model && bookErr == nil {
		t1, _ := docTree([]byte(before))
		t3, _ := docTree([]byte(after))
		ops = append(ops, opPair{fmt.Sprintf("c19.epub t %d %s %s %s", ms[1], t1, tree, t3), hx.HexS(book)})
	}
	for _, o := range ops {
		c.Op(o.line, o.out)
	}
}

// refused: a document beyond the limit through every entry point.
func refused(c *hx.Ctx, k *kase, data []byte, tree string, slow bool) {
	dir := filepath.Join(c.OutDir, "tmp")
	os.MkdirAll(dir, 0o755)
	path := filepath.Join(dir, "deep.html")
	os.WriteFile(path, data, 0o644)
	defer os.Remove(path)
	var notRefused []string
	var book string
	var bookErr error
	chapterCount := -1
	before := `<html><body><p>tk9001x chapter before</p></body></html>`
	after := `<!DOCTYPE html><html><body><h2>tk9002x chapter after</h2><ul><li>tk9003x item</li></ul></body></html>`
	m := k.Index%6 - 1
	kind := "t"
	if k.Index%2 == 1 {
		kind = "m"
	}
	ok := c.Guard("C19/depth-limit", k, 120, func() {
		note := func(what string, err error) {
			if err == nil {
				notRefused = append(notRefused, what)
			}
		}
		var err error
		if !slow || c.Thorough() {
			_, err = htmldoc.Open(path)
			note("htmldoc.Open(file)", err)
		}
		_, _, err = tabula.FromHTMLString(string(data)).Text()
		note("FromHTMLString.Text", err)
		if !slow || c.Thorough() {
			_, _, err = tabula.Open(path).Text()
			note("tabula.Open(file).Text", err)
			_, _, err = tabula.FromHTMLReader(bytes.NewReader(data)).ToMarkdown()
			note("FromHTMLReader.ToMarkdown", err)
			_, _, err = tabula.FromHTMLString(string(data)).Document()
			note("FromHTMLString.Document", err)
		}
		if slow && !c.Thorough() {
			return // the EPUB around a refused chapter: fast shapes (each parse of this one costs 0.6 s)
		}
		// EPUB: the refused document between two ordinary chapters
		zipped := epub([][]byte{[]byte(before), data, []byte(after)}, []string{"OEBPS", "", "EPUB/pkg"}[k.Index%3])
		er, err := epubdoc.OpenReader(bytes.NewReader(zipped), int64(len(zipped)))
		if err != nil {
			bookErr = err
			return
		}
		chapterCount = er.ChapterCount()
		if kind == "t" {
			book, bookErr = er.TextWithOptions(epubdoc.ExtractOptions{NavigationExclusion: m})
		} else {
			book, bookErr = er.MarkdownWithOptions(epubdoc.ExtractOptions{NavigationExclusion: m})
		}
		if !slow || c.Thorough() {
			er.Document()
		}
		er.TableOfContents()
		er.Close()
	})
	if !ok {
		return
	}
	chk(c, "C19/depth-limit-not-refused", len(notRefused) == 0, k, func() string {
		return "the document is deeper than the limit but these calls returned no error: " + strings.Join(notRefused, ", ")
	})
	c.Op("c19.doc "+strconv.Itoa(m)+" "+tree, "refused")
	c.Op("c19.seq "+tree+" t0,m2,D,T", "refused")
	c.Op("c19.ext "+tree, "refused")
	if chapterCount < 0 && bookErr == nil {
		return
	}
	// as documented: the chapter is left out, the book is not refused and keeps the other chapters
	got := strings.Join(tokseq(book), " ")
	chk(c, "C19/epub-deep-chapter", bookErr == nil && got == "tk9001x tk9002x tk9003x" && chapterCount == 3, k, func() string {
		return fmt.Sprintf("EPUB with a chapter beyond the depth limit between two others: err=%v, chapters=%d, tokens returned %q (want the two other chapters, in order)", bookErr, chapterCount, got)
	})
	c.Count("epub-deep-chapter-left-out")
	if bookErr == nil {
		t1, _ := docTree([]byte(before))
		t3, _ := docTree([]byte(after))
		c.Op(fmt.Sprintf("c19.epub %s %d %s %s %s", kind, m, t1, tree, t3), hx.HexS(book))
	}
}

// ---- the walk at small limits, on every generated document -------------------------

func depthOps(c *hx.Ctx, k *kase, data []byte) {
	if k.Stream == "gen" && k.Index%3 != 0 && !c.Thorough() {
		return
	}
	root, h := heightOf(data)
	if root == nil {
		return
	}
	rd, err := htmldoc.OpenReader(bytes.NewReader(data))
	if err != nil {
		return
	}
	var tb strings.Builder
	dumpTree(&tb, rd.VerifRoot())
	tree := tb.String()
	r := hx.NewRng(c.Seed + uint64(len(k.Stream))*15485863).Fork(uint64(k.Index)*31 + 3)
	limits := []int{h, h + 1, r.Intn(h + 3)}
	if h > 0 {
		limits = append(limits, h-1)
	}
	for _, limit := range limits {
		got := htmldoc.VerifTreeDeeperThan(rd.VerifRoot(), limit)
		c.Op(fmt.Sprintf("c19.deeper %d %s", limit, tree), map[bool]string{true: "1", false: "0"}[got])
		chk(c, "C19/depth-walk-wrong", got == (h > limit), k, func() string {
			return fmt.Sprintf("treeDeeperThan(doc, %d) = %v on a tree of height %d", limit, got, h)
		})
	}
	switch {
	case h <= 4:
		c.Count("height<=4")
	case h <= 8:
		c.Count("height=5..8")
	case h <= 16:
		c.Count("height=9..16")
	case h < depthLimit-1:
		c.Count("height=17..limit-2")
	}
}

// ---- EPUB navigation documents (fix a10b9de) -----------------------------------------
//
// parseNavXHTML is not part of the C19 model (TableOfContents is another
// view). What C19 says about it: the text of the chapters does not depend on the
// nav document, however deep it is; and a nav document that is ALSO a spine
// item is a chapter like any other (left out beyond the limit).

func epubNav(chapters [][]byte, nav []byte, navInSpine bool) []byte {
	var manifest, spine strings.Builder
	members := []writers.Member{{Name: "mimetype", Data: []byte("application/epub+zip"), Store: true},
		{Name: "META-INF/container.xml", Data: []byte(`<?xml version="1.0" encoding="UTF-8"?>
<container version="1.0" xmlns="urn:oasis:names:tc:opendocument:xmlns:container">
  <rootfiles><rootfile full-path="OEBPS/content.opf" media-type="application/oebps-package+xml"/></rootfiles>
</container>`)}}
	manifest.WriteString("    <item id=\"nav\" href=\"nav.xhtml\" media-type=\"application/xhtml+xml\" properties=\"nav\"/>\n")
	if navInSpine {
		spine.WriteString("    <itemref idref=\"nav\"/>\n")
	}
	for i := range chapters {
		fmt.Fprintf(&manifest, "    <item id=\"ch%d\" href=\"text/ch%d.xhtml\" media-type=\"application/xhtml+xml\"/>\n", i+1, i+1)
		fmt.Fprintf(&spine, "    <itemref idref=\"ch%d\"/>\n", i+1)
	}
	opf := `<?xml version="1.0" encoding="UTF-8"?>
<package xmlns="http://www.idpf.org/2007/opf" version="3.0" unique-identifier="uid">
  <metadata xmlns:dc="http://purl.org/dc/elements/1.1/">
    <dc:identifier id="uid">urn:uuid:00000000-0000-0000-0000-0000000c19a1</dc:identifier>
    <dc:title>C19 book with a nav document</dc:title>
    <dc:language>en</dc:language>
  </metadata>
  <manifest>
` + manifest.String() + `  </manifest>
  <spine>
` + spine.String() + `  </spine>
</package>`
	members = append(members, writers.Member{Name: "OEBPS/content.opf", Data: []byte(opf)}, writers.Member{Name: "OEBPS/nav.xhtml", Data: nav})
	for i, ch := range chapters {
		members = append(members, writers.Member{Name: fmt.Sprintf("OEBPS/text/ch%d.xhtml", i+1), Data: ch})
	}
	return writers.Zip(members)
}

func navDoc(n int) []byte {
	return []byte(`<?xml version="1.0" encoding="UTF-8"?><html xmlns="http://www.w3.org/1999/xhtml" xmlns:epub="http://www.idpf.org/2007/ops"><head><title>nx0001x toc</title></head><body>` +
		`<nav epub:type="toc"><h1>nx0002x Contents</h1><ol><li><a href="text/ch1.xhtml">` + strings.Repeat("<i>", n) + "nx0003x one" + strings.Repeat("</i>", n) +
		`</a></li><li><a href="text/ch2.xhtml">nx0004x two</a></li></ol></nav></body></html>`)
}

func navDocs(c *hx.Ctx) {
	ch1 := []byte(`<html><body><h1>tk0001x one</h1><p>tk0002x text</p></body></html>`)
	ch2 := []byte(`<!DOCTYPE html><html><body><p>tk0003x two</p><nav><p>tk0004x in nav</p></nav></body></html>`)
	bookText := func(zipped []byte, m int) (string, *epubdoc.TableOfContents, error) {
		er, err := epubdoc.OpenReader(bytes.NewReader(zipped), int64(len(zipped)))
		if err != nil {
			return "", nil, err
		}
		defer er.Close()
		t, err := er.TextWithOptions(epubdoc.ExtractOptions{NavigationExclusion: int(modes[m])})
		return t, er.TableOfContents(), err
	}
	// the same book without any nav document
	var plain [4]string
	for m := range modes {
		plain[m], _, _ = bookText(epub([][]byte{ch1, ch2}, "OEBPS"), m)
	}
	_, h0 := heightOf(navDoc(0))
	idx := 0
	for _, want := range []int{12, depthLimit - 1, depthLimit, depthLimit + 1, 3 * depthLimit} {
		nav := navDoc(want - h0)
		_, h := heightOf(nav)
		for _, inSpine := range []bool{false, true} {
			k := &kase{Stream: "deep-nav", Index: idx, Note: fmt.Sprintf("nav document of height %d, in spine: %v", h, inSpine),
				HTML: fmt.Sprintf("(generated: navDoc(%d))", want-h0)}
			idx++
			zipped := epubNav([][]byte{ch1, ch2}, nav, inSpine)
			var texts, wants [4]string
			var errs [4]error
			ok := c.Guard("C19/depth-limit", k, 120, func() {
				for m := range modes {
					texts[m], _, errs[m] = bookText(zipped, m)
					wants[m] = plain[m]
					// a nav document that is also a spine item is a chapter like any other:
					// its own text first, unless it is beyond the limit (then it is left out)
					if inSpine && h <= depthLimit {
						if rd, err := htmldoc.OpenReader(bytes.NewReader(nav)); err == nil {
							t, _ := rd.TextWithOptions(htmldoc.ExtractOptions{NavigationExclusion: modes[m]})
							if t = strings.TrimSpace(t); t != "" {
								wants[m] = t + "\n\n" + plain[m]
							}
						}
					}
				}
			})
			if !ok {
				continue
			}
			for m := range modes {
				chk(c, "C19/epub-nav-depth-affects-text", errs[m] == nil && texts[m] == wants[m] && plain[m] != "", k, func() string {
					return fmt.Sprintf("mode %s: err=%v text %q, want %q (the chapters' text does not depend on the nav document)", modeName[m], errs[m], clip(texts[m]), clip(wants[m]))
				})
			}
			if inSpine && h <= depthLimit {
				chk(c, "C19/epub-nav-depth-affects-text", strings.Contains(texts[0], "nx0003x"), k, func() string {
					return "a nav document in the spine within the limit: its text is missing from mode None"
				})
			}
			c.Count(fmt.Sprintf("epub-nav-doc/%s/in-spine=%v", strings.TrimPrefix(heightBucket(h), "deep-"), inSpine))
			c.Case(k.Note, true)
		}
	}
}
