package c19

import (
	"fmt"
	"strings"

	"verifharness/hx"
)

// gnode is the generator's logical DOM: what the author meant to write. It is
// turned into bytes by the independent serializer in ser.go.
type gnode struct {
	tag   string // "" text, "#comment" comment, otherwise element name
	attrs [][2]string
	kids  []*gnode
	text  string // logical (decoded) text of a text / comment / raw-text node
	raw   bool   // script/style: text is written without escaping

	// expectation annotations (content elements carrying a token)
	kind string // heading para item cell code quote, "" if none
	tok  string
	own  string // logical own text of the element (contains tok)
}

func el(tag string, kids ...*gnode) *gnode { return &gnode{tag: tag, kids: kids} }
func tx(s string) *gnode                   { return &gnode{text: s} }
func (n *gnode) attr(k, v string) *gnode   { n.attrs = append(n.attrs, [2]string{k, v}); return n }

// vocabulary of navigation.go's patterns, and names NEAR it that must not match
var vocab = []string{"nav", "navbar", "navigation", "menu", "topnav", "sidenav", "breadcrumb", "breadcrumbs",
	"site-header", "page-header", "masthead", "banner", "footer", "site-footer", "page-footer", "colophon",
	"sidebar", "widget-area", "widget", "aside"}

var nearVocab = []string{"navigate", "navigator", "sidebarish", "footnote", "footnotes", "footers", "canvas", "menus",
	"submenu", "asides", "widgets", "bannerad", "unbanner", "header", "mainNav", "navy", "renav", "content", "article-body",
	"mastheads", "colophons", "breadcrumbz", "xfooter", "footerx", "widgetarea", "siteheader", "pageheader", "topnavs"}

var decor = []string{"%s", "%s", "main-%s", "%s_bar", "top %s", "x %s2", "%s-open", "js %s dark", "%sX", "X%s", "1%s1",
	"%s\n", "\t%s", "col-md-4 %s", "has-%s", "%s--primary", "%s:hover", "é%s", "%sé"}

var roles = []string{"navigation", "complementary", "banner", "contentinfo"}
var nearRoles = []string{"navigation ", "Navigation", "main", "nav", "contentinfo banner", "region", "complementary2", ""}

var fillers = []string{"alpha", "R&D", "a<b", "x>y", "café", "naïve", "\"quoted\"", "it's", "中文", "😀", "©2024", "—dash",
	"Tom&Jerry;", "&amp;literal", "a b", "beta", "two words", "gamma", "&#65;", "1<2&3>2", "ünï", "end."}

type gen struct {
	r      *hx.Rng
	ntok   int
	nleak  int
	nneut  int
	budget int
	feat   map[string]bool
}

func (g *gen) tok() string  { g.ntok++; return fmt.Sprintf("tk%04dx", g.ntok) }
func (g *gen) leak() string { g.nleak++; return fmt.Sprintf("lk%04dx", g.nleak) }
func (g *gen) neut() string { g.nneut++; return fmt.Sprintf("nx%04dx", g.nneut) }
func (g *gen) f(s string)   { g.feat[s] = true }

func caseFlip(r *hx.Rng, s string) string {
	b := []byte(s)
	for i := range b {
		if b[i] >= 'a' && b[i] <= 'z' && r.Chance(1, 3) {
			b[i] -= 32
		}
	}
	return string(b)
}

// navName returns a class/id value from or near the exclusion vocabulary.
func (g *gen) navName() string {
	r := g.r
	switch r.Intn(10) {
	case 0, 1, 2, 3:
		g.f("attr-vocab")
		return fmt.Sprintf(hx.Pick(r, decor), hx.Pick(r, vocab))
	case 4:
		g.f("attr-vocab-case")
		return caseFlip(r, fmt.Sprintf(hx.Pick(r, decor), hx.Pick(r, vocab)))
	case 5:
		g.f("attr-vocab-fold")
		w := hx.Pick(r, vocab)
		return strings.Replace(w, "s", "ſ", 1) // long s folds to s under (?i)
	default:
		g.f("attr-near-vocab")
		return fmt.Sprintf(hx.Pick(r, decor[:8]), hx.Pick(r, nearVocab))
	}
}

// decorate puts navigation-ish attributes on an element (sometimes).
func (g *gen) decorate(n *gnode, p int) *gnode {
	r := g.r
	if !r.Chance(p, 100) {
		return n
	}
	switch r.Intn(8) {
	case 0, 1, 2:
		n.attr("class", g.navName())
	case 3, 4:
		n.attr("id", g.navName())
	case 5:
		g.f("attr-role")
		n.attr("role", hx.Pick(r, roles))
	case 6:
		g.f("attr-near-role")
		n.attr("role", hx.Pick(r, nearRoles))
	case 7:
		n.attr("class", g.navName()).attr("id", g.navName())
		if r.Bool() {
			n.attr("class", "second-class-attr nav") // duplicate attribute: the parser keeps the first
		}
	}
	if r.Chance(1, 6) {
		n.attr("title", g.leak()).attr("data-x", "<"+g.leak()+">")
	}
	return n
}

// inline builds the inline content of a content element around a token.
// Inline element contents are single words; whitespace lives in direct text
// nodes, so every extraction path keeps the words separated.
func (g *gen) inline(tok string, rich bool) (kids []*gnode, logical string) {
	r := g.r
	nw := r.Intn(5)
	words := make([]string, 0, nw+1)
	for i := 0; i < nw; i++ {
		words = append(words, hx.Pick(r, fillers))
	}
	at := r.Intn(len(words) + 1)
	words = append(words[:at], append([]string{tok}, words[at:]...)...)
	var sb strings.Builder
	for i, w := range words {
		if i > 0 {
			sep := " "
			switch r.Intn(12) {
			case 0:
				sep = "\n    "
			case 1:
				sep = "  "
			case 2:
				if rich {
					kids = append(kids, tx(" "), el("br"))
					sep = ""
					g.f("inline-br")
				}
			case 3:
				kids = append(kids, &gnode{tag: "#comment", text: " " + g.leak() + " "})
				g.f("comment")
			case 4:
				if rich {
					kids = append(kids, &gnode{tag: "script", raw: true, kids: []*gnode{tx("var a='" + g.leak() + "';")}})
					g.f("inline-script")
				}
			}
			if sep != "" {
				kids = append(kids, tx(sep))
			}
			sb.WriteString(" ")
		}
		switch {
		case !rich || r.Chance(5, 10):
			kids = append(kids, tx(w))
		case r.Chance(1, 4):
			kids = append(kids, el("b", tx(w)))
		case r.Chance(1, 3):
			kids = append(kids, el("em", el("i", tx(w))))
		case r.Chance(1, 2):
			kids = append(kids, el("a", tx(w)).attr("href", "/p?"+g.leak()+"&x=1"))
			g.f("inline-link")
		case r.Chance(1, 2):
			kids = append(kids, el("span", tx(w)).attr("class", hx.Pick(r, vocab)))
		case strings.ContainsAny(w, " \u00a0"):
			kids = append(kids, tx(w))
		default:
			// a word split over two adjacent nodes with no whitespace
			rs := []rune(w)
			cut := r.Intn(len(rs) + 1)
			kids = append(kids, tx(string(rs[:cut])), el("span", tx(string(rs[cut:]))))
		}
		sb.WriteString(w)
	}
	return kids, sb.String()
}

func (g *gen) content(tag, kind string, rich bool) *gnode {
	t := g.tok()
	kids, own := g.inline(t, rich)
	return &gnode{tag: tag, kids: kids, kind: kind, tok: t, own: own}
}

func (g *gen) heading() *gnode {
	return g.decorate(g.content(fmt.Sprintf("h%d", g.r.Range(1, 6)), "heading", true), 8)
}

func (g *gen) para() *gnode { return g.decorate(g.content("p", "para", true), 8) }

func (g *gen) pre() *gnode {
	r := g.r
	t := g.tok()
	body := "line1 " + t + "\n\tif a<b && c>d {\n  x = \"" + hx.Pick(r, fillers) + "\"\n}\n"
	own := body
	g.f("pre")
	switch r.Intn(4) {
	case 0:
		return &gnode{tag: "pre", kids: []*gnode{tx(body)}, kind: "code", tok: t, own: own}
	case 1:
		return &gnode{tag: "pre", kids: []*gnode{el("code", tx(body)).attr("class", "language-go")}, kind: "code", tok: t, own: own}
	case 2:
		return &gnode{tag: "code", kids: []*gnode{tx(t + " := f(&x)")}, kind: "code", tok: t, own: t + " := f(&x)"}
	default:
		return &gnode{tag: "pre", kids: []*gnode{tx("a "), el("span", tx(t)).attr("class", "kw"), tx(" <- b")}, kind: "code", tok: t, own: "a " + t + " <- b"}
	}
}

func (g *gen) quote(depth int) *gnode {
	r := g.r
	g.f("blockquote")
	switch r.Intn(4) {
	case 0:
		return g.content("blockquote", "quote", true)
	case 1:
		q := el("blockquote")
		for i := r.Range(1, 3); i > 0; i-- {
			q.kids = append(q.kids, g.para())
		}
		g.f("blockquote-paras")
		return q
	case 2:
		q := g.content("blockquote", "quote", true)
		if depth < 6 {
			q.kids = append(q.kids, g.quote(depth+1))
			g.f("blockquote-nested")
		}
		return q
	default:
		q := el("blockquote", g.heading(), g.para())
		if depth < 6 && r.Bool() {
			q.kids = append(q.kids, g.list(depth+1, 0))
		}
		if r.Bool() {
			q.kids = append(q.kids, el("footer", g.content("cite", "", false)))
		}
		g.f("blockquote-mixed")
		return q
	}
}

// list builds ul/ol; lvl is the nesting level of the list itself.
func (g *gen) list(depth, lvl int) *gnode {
	r := g.r
	tag := "ul"
	if r.Chance(1, 3) {
		tag = "ol"
	}
	l := g.decorate(el(tag), 6)
	n := r.Range(1, 4)
	for i := 0; i < n; i++ {
		var li *gnode
		switch r.Intn(10) {
		case 0, 1, 2, 3, 4: // tight item
			li = g.content("li", "item", true)
		case 5, 6: // loose item: <li><p>…</p></li>
			li = el("li", g.content("p", "item", true))
			if r.Chance(1, 3) {
				li.kids = append(li.kids, g.content("p", "item", true))
			}
			g.f("li-loose")
		case 7: // text followed by a block child
			li = g.content("li", "item", true)
			switch r.Intn(4) {
			case 0:
				li.kids = append(li.kids, g.quote(depth+1))
				g.f("li-blockquote")
			case 1:
				li.kids = append(li.kids, el("div", g.content("p", "para", false)))
				g.f("li-div")
			case 2:
				li.kids = append(li.kids, g.table(depth+1))
				g.f("li-table")
			default:
				li.kids = append(li.kids, g.pre())
				g.f("li-pre")
			}
		case 8: // heading inside the item
			li = el("li", g.heading(), tx(" "), el("span", tx(g.neut())))
			g.f("li-heading")
		default: // nested list wrapped in a div inside the item
			li = g.content("li", "item", false)
			if lvl < 4 && depth < 9 {
				li.kids = append(li.kids, el("div", g.list(depth+2, lvl+1)))
				g.f("li-div-list")
			}
		}
		g.decorate(li, 5)
		if lvl < 5 && depth < 10 && r.Chance(3, 10) {
			li.kids = append(li.kids, g.list(depth+1, lvl+1))
			g.f(fmt.Sprintf("list-depth-%d", lvl+1))
		}
		l.kids = append(l.kids, li)
		// content-model violations that the parser nevertheless keeps in place
		if r.Chance(1, 40) {
			l.kids = append(l.kids, g.heading())
			g.f("ul-child-heading")
		} else if r.Chance(1, 40) {
			l.kids = append(l.kids, g.para())
			g.f("ul-child-p")
		} else if r.Chance(1, 60) {
			l.kids = append(l.kids, g.list(depth+1, lvl))
			g.f("ul-child-ul")
		} else if r.Chance(1, 80) {
			l.kids = append(l.kids, g.table(depth+1))
			g.f("ul-child-table")
		} else if r.Chance(1, 80) {
			l.kids = append(l.kids, el("div", g.pre()))
			g.f("ul-child-pre")
		} else if r.Chance(1, 80) {
			l.kids = append(l.kids, g.quote(depth+1), g.content("div", "", false))
			g.f("ul-child-quote-div")
		}
	}
	return l
}

var spanVals = []string{"2", "3", "2", "1", " 2", "+2", "0", "-1", "2x", "x", "", "1_0", "99999999999999999999", "\n2", "007", "2 3", " 4", "\r5", "-", "4294967297"}

func (g *gen) cell(depth int, forceTh bool) *gnode {
	r := g.r
	tag := "td"
	if forceTh || r.Chance(1, 6) {
		tag = "th"
	}
	var c *gnode
	switch r.Intn(10) {
	case 0:
		c = el(tag, g.content("p", "cell", true))
		if r.Bool() {
			c.kids = append(c.kids, g.content("p", "cell", false))
		}
		g.f("cell-paras")
	case 1:
		c = g.content(tag, "cell", true)
		if depth < 7 {
			c.kids = append(c.kids, g.list(depth+1, 0))
			g.f("cell-list")
		}
	case 2:
		if depth < 5 {
			c = el(tag, g.table(depth+2))
			g.f("cell-table")
		} else {
			c = g.content(tag, "cell", false)
		}
	case 3:
		c = el(tag) // empty cell
	default:
		c = g.content(tag, "cell", true)
	}
	if r.Chance(1, 4) {
		c.attr("rowspan", hx.Pick(r, spanVals))
		g.f("rowspan")
	}
	if r.Chance(1, 4) {
		c.attr("colspan", hx.Pick(r, spanVals))
		g.f("colspan")
	}
	return g.decorate(c, 4)
}

func (g *gen) row(depth int, th bool) *gnode {
	tr := el("tr")
	if g.r.Chance(1, 7) {
		// a row without cells: all its positions covered by rowspans from above (kept as a row
		// of the table since fix 72cc329) or just empty (dropped)
		g.f("tr-empty")
		return g.decorate(tr, 3)
	}
	for i := g.r.Range(1, 4); i > 0; i-- {
		tr.kids = append(tr.kids, g.cell(depth, th))
	}
	return g.decorate(tr, 3)
}

func (g *gen) table(depth int) *gnode {
	r := g.r
	t := g.decorate(el("table"), 6)
	g.f("table")
	if r.Chance(1, 5) {
		t.kids = append(t.kids, el("caption", tx(g.neut()+" caption")))
	}
	if r.Chance(1, 8) {
		t.kids = append(t.kids, el("colgroup", el("col"), el("col")))
	}
	sections := r.Chance(1, 2)
	if sections && r.Chance(2, 3) {
		th := el("thead")
		for i := r.Range(1, 2); i > 0; i-- {
			th.kids = append(th.kids, g.row(depth, true))
		}
		t.kids = append(t.kids, th)
		g.f("thead")
	}
	body := t
	if sections {
		body = el("tbody")
		t.kids = append(t.kids, body)
	}
	for i := r.Range(1, 4); i > 0; i-- {
		body.kids = append(body.kids, g.row(depth, false))
	}
	if sections && r.Chance(1, 3) {
		tf := el("tfoot", g.row(depth, false))
		t.kids = append(t.kids, tf)
		g.f("tfoot")
	}
	if sections && r.Chance(1, 5) {
		t.kids = append(t.kids, el("tbody", g.row(depth, false)))
		g.f("tbody-second")
	}
	return t
}

// linkBlock builds a block whose text is mostly / partly links.
func (g *gen) linkBlock(depth int) *gnode {
	r := g.r
	tag := hx.Pick(r, []string{"div", "ul", "section", "ol", "div", "ul", "p", "nav", "span"})
	n := r.Range(2, 8)
	b := el(tag)
	g.f("link-block")
	linkLen, total := 0, 0
	for i := 0; i < n; i++ {
		t := g.tok()
		a := el("a", tx(t)).attr("href", "#"+g.leak())
		linkLen += len(t)
		total += len(t)
		switch {
		case tag == "ul" || tag == "ol":
			it := &gnode{tag: "li", kids: []*gnode{a}, kind: "item", tok: t, own: t}
			b.kids = append(b.kids, it)
		case tag == "p" || tag == "span":
			b.kids = append(b.kids, a, tx(" "))
		default:
			if r.Bool() {
				b.kids = append(b.kids, &gnode{tag: "p", kids: []*gnode{a}, kind: "para", tok: t, own: t})
			} else {
				b.kids = append(b.kids, a, tx(" | "))
				total += 1
			}
		}
	}
	// non-link text chosen to land on either side of (or exactly at) the 60% threshold
	want := 0
	switch r.Intn(7) {
	case 0: // sparse
		want = linkLen * 3
		g.f("link-sparse")
	case 1: // exactly 60% when reachable: link/total = 3/5  => extra = link*2/3
		if (linkLen*2)%3 == 0 {
			want = linkLen*2/3 - (total - linkLen)
			g.f("link-exact-60")
		}
	case 2:
		want = linkLen*2/3 - (total - linkLen) - 1
		g.f("link-just-over-60")
	case 3:
		want = linkLen*2/3 - (total - linkLen) + 1
		g.f("link-just-under-60")
	default:
		g.f("link-dense")
	}
	if want > 0 {
		t := g.tok()
		pad := t
		for len(pad) < want {
			pad += "z"
		}
		if len(pad) > want && want >= 1 {
			pad = strings.Repeat("z", want)
			t = ""
		}
		var k *gnode
		switch {
		case tag == "ul" || tag == "ol":
			k = &gnode{tag: "li", kids: []*gnode{tx(pad)}}
		case tag == "p" || tag == "span":
			k = tx(pad)
		default:
			k = &gnode{tag: "p", kids: []*gnode{tx(pad)}}
		}
		if t != "" && k.tag != "" {
			k.tok, k.own = t, pad
			k.kind = map[string]string{"li": "item", "p": "para"}[k.tag]
		}
		b.kids = append(b.kids, k)
	}
	_ = depth
	return g.decorate(b, 10)
}

var containers = []string{"div", "div", "div", "section", "article", "main", "figure", "form", "details", "center", "span", "a", "header", "footer", "font", "dl"}

func (g *gen) skipEl() *gnode {
	r := g.r
	g.f("skip-element")
	switch r.Intn(8) {
	case 0, 1:
		return &gnode{tag: "script", raw: true, kids: []*gnode{tx("var s = \"" + g.leak() + " <p>not content " + g.leak() + "</p>\"; if (a<b && c) {}")}}
	case 2, 3:
		return &gnode{tag: "style", raw: true, kids: []*gnode{tx(".nav > li { color: red } /* " + g.leak() + " */")}}
	case 4:
		return el("noscript", el("p", tx(g.neut()+" enable javascript")))
	case 5:
		return el("template", el("p", tx(g.neut()+" tpl")))
	case 6:
		return el("svg", el("title", tx(g.neut())), el("circle").attr("r", "4")).attr("width", "10")
	default:
		return &gnode{tag: "#comment", text: " <p>" + g.leak() + "</p> "}
	}
}

func (g *gen) navCandidate(depth int) *gnode {
	r := g.r
	var n *gnode
	switch r.Intn(8) {
	case 0:
		n = el("nav")
		g.f("tag-nav")
	case 1:
		n = el("aside")
		g.f("tag-aside")
	case 2:
		n = el("header")
		g.f("tag-header")
	case 3:
		n = el("footer")
		g.f("tag-footer")
	case 4:
		n = el(hx.Pick(r, []string{"div", "section", "ul", "span", "article"})).attr("role", hx.Pick(r, roles))
		g.f("attr-role")
	case 5:
		n = el(hx.Pick(r, []string{"div", "section", "header"})).attr("role", hx.Pick(r, nearRoles))
		g.f("attr-near-role")
	default:
		n = el(hx.Pick(r, []string{"div", "div", "section", "span", "header", "footer"}))
		if r.Bool() {
			n.attr("class", g.navName())
		} else {
			n.attr("id", g.navName())
		}
	}
	if n.tag == "ul" {
		for i := r.Range(1, 3); i > 0; i-- {
			n.kids = append(n.kids, g.content("li", "item", true))
		}
		return n
	}
	if r.Chance(1, 2) {
		n.kids = append(n.kids, g.linkBlock(depth+1))
	}
	n.kids = append(n.kids, g.blocks(depth+1, r.Range(0, 3))...)
	return n
}

// run builds one inline run for a block container: text and inline elements
// around a token; sometimes blank (white space, a comment, a br, a script only).
func (g *gen) run(force bool) (kids []*gnode, tok, logical string) {
	r := g.r
	if !force && r.Chance(1, 5) {
		g.f("run-blank")
		switch r.Intn(5) {
		case 0:
			return []*gnode{tx(" \n\t ")}, "", ""
		case 1:
			return []*gnode{&gnode{tag: "#comment", text: " " + g.leak() + " "}}, "", ""
		case 2:
			return []*gnode{tx(" "), el("br"), tx(" ")}, "", ""
		case 3:
			return []*gnode{&gnode{tag: "script", raw: true, kids: []*gnode{tx("var r='" + g.leak() + "';")}}}, "", ""
		default:
			return []*gnode{el("span", tx(" ")), el("b")}, "", ""
		}
	}
	tok = g.tok()
	kids, logical = g.inline(tok, true)
	if r.Chance(1, 6) {
		// an inline element with navigation-like attributes around the whole run
		w := g.decorate(el(hx.Pick(r, []string{"span", "a", "b", "label", "small"})), 60)
		w.kids = kids
		kids = []*gnode{w}
		g.f("run-wrapped")
	}
	if r.Chance(1, 8) {
		kids = append(kids, el("dl", el("dt", tx(g.neut())), el("dd", tx(g.neut()))))
		g.f("run-dl")
	}
	return kids, tok, logical
}

var mixedTags = []string{"div", "div", "div", "div", "div", "p", "p", "section", "article", "blockquote", "li", "td", "main", "span", "center"}

// mixed builds a container whose children interleave inline runs with
// block-level children (nested containers of the same kind among them). For a
// p only a table stays inside the paragraph, and only in quirks mode.
func (g *gen) mixed(depth int) *gnode {
	r := g.r
	g.budget--
	tag := hx.Pick(r, mixedTags)
	n := el(tag)
	g.f("mixed-" + tag)
	switch tag {
	case "p":
		n.kind = "para"
	case "blockquote":
		n.kind = "quote"
	case "li":
		n.kind = "item"
	case "td":
		n.kind = "cell"
	}
	segs := r.Range(2, 5)
	startRun := n.kind != "" || r.Bool()
	for i := 0; i < segs; i++ {
		if (i%2 == 0) == startRun {
			kids, tok, logical := g.run(n.kind != "" && n.tok == "")
			if n.kind != "" && n.tok == "" {
				n.tok, n.own = tok, logical
			}
			n.kids = append(n.kids, kids...)
			continue
		}
		var b *gnode
		switch {
		case tag == "p" && r.Chance(4, 5):
			b = g.table(depth + 1)
		case depth < 8 && g.budget > 0 && r.Chance(1, 4):
			b = g.mixed(depth + 1)
			g.f("mixed-nested")
		case r.Chance(1, 8) || (tag == "p" && r.Bool()):
			// a wrapper that is not block-level around a block-level element, with text of its own
			wk, _, _ := g.run(false)
			w := el(hx.Pick(r, []string{"span", "a", "form", "figure", "font"}), wk...)
			if tag == "p" {
				w.kids = append(w.kids, g.table(depth+1)) // anything else would close the p
			} else {
				w.kids = append(w.kids, g.blockLevel(depth+1))
			}
			if r.Bool() {
				tk, _, _ := g.run(false)
				w.kids = append(w.kids, tk...)
			}
			b = g.decorate(w, 15)
			g.f("mixed-wrapper")
		case r.Chance(1, 10):
			b = &gnode{tag: "code", kids: []*gnode{tx(g.tok() + "()")}}
			g.f("mixed-code-child")
		default:
			b = g.blockLevel(depth + 1)
		}
		n.kids = append(n.kids, b)
	}
	g.decorate(n, 12)
	switch tag {
	case "li":
		l := el(hx.Pick(r, []string{"ul", "ol"}), n)
		if r.Bool() {
			l.kids = append(l.kids, g.content("li", "item", true))
		}
		return l
	case "td":
		return el("table", el("tr", n, g.cell(depth+1, false)))
	}
	return n
}

// blockLevel builds one block-level child of a block container.
func (g *gen) blockLevel(depth int) *gnode {
	r := g.r
	switch r.Intn(12) {
	case 0, 1:
		return g.heading()
	case 2, 3, 4:
		return g.para()
	case 5:
		return g.list(depth+1, 0)
	case 6:
		return g.table(depth + 1)
	case 7:
		return g.pre()
	case 8:
		return g.quote(depth + 1)
	case 9:
		return g.navCandidate(depth + 1)
	case 10:
		return g.decorate(g.content("div", "", true), 10)
	default:
		c := g.decorate(el(hx.Pick(r, []string{"div", "section", "article", "aside", "nav", "header"})), 20)
		c.kids = append(c.kids, g.blocks(depth+1, r.Range(1, 2))...)
		return c
	}
}

func (g *gen) block(depth int) *gnode {
	r := g.r
	g.budget--
	k := r.Intn(118)
	if depth >= 9 || g.budget <= 0 {
		k = r.Intn(40)
	}
	switch {
	case k >= 100:
		return g.mixed(depth + 1)
	case k < 13:
		return g.heading()
	case k < 29:
		return g.para()
	case k < 34:
		return g.linkBlock(depth + 1)
	case k < 40:
		return g.pre()
	case k < 52:
		return g.list(depth+1, 0)
	case k < 60:
		return g.table(depth + 1)
	case k < 66:
		return g.quote(depth + 1)
	case k < 72:
		return g.skipEl()
	case k < 80:
		return g.navCandidate(depth + 1)
	case k < 85:
		return g.linkBlock(depth + 1)
	case k < 88:
		// leaf div with inline text only (becomes a paragraph) or stray text
		if r.Bool() {
			return g.decorate(g.content("div", "", true), 10)
		}
		return tx(" " + g.neut() + " stray text ")
	default:
		c := g.decorate(el(hx.Pick(r, containers)), 25)
		if c.tag == "a" {
			c.attr("href", "/"+g.leak())
		}
		if c.tag == "dl" {
			c.kids = append(c.kids, el("dt", tx(g.neut())), el("dd", tx(g.neut())))
			return c
		}
		if r.Chance(1, 6) {
			c.kids = append(c.kids, tx(g.neut()+" direct text "))
		}
		c.kids = append(c.kids, g.blocks(depth+1, r.Range(1, 4))...)
		g.f(fmt.Sprintf("container-depth-%d", min(depth, 9)))
		return c
	}
}

func (g *gen) blocks(depth, n int) []*gnode {
	var out []*gnode
	for i := 0; i < n; i++ {
		out = append(out, g.block(depth))
	}
	return out
}

// document builds html/head/body with one of several page layouts.
func (g *gen) document() (doc *gnode, layout string) {
	r := g.r
	head := el("head", el("meta").attr("charset", "utf-8"), el("title", tx(g.neut()+" title &amp; more")))
	if r.Chance(1, 3) {
		head.kids = append(head.kids, &gnode{tag: "style", raw: true, kids: []*gnode{tx("body{margin:0} /* " + g.leak() + " */")}})
	}
	if r.Chance(1, 4) {
		head.kids = append(head.kids, &gnode{tag: "script", raw: true, kids: []*gnode{tx("window.x='" + g.leak() + "';")}})
	}
	body := el("body")
	n := r.Range(1, 6)
	hdr := func() *gnode {
		h := el("header", g.heading())
		if r.Bool() {
			h.kids = append(h.kids, el("nav", g.linkBlock(2)))
		}
		return h
	}
	ftr := func() *gnode { return el("footer", g.para(), el("small", tx(g.neut()+" ©"))) }
	switch r.Intn(7) {
	case 0, 1:
		layout = "flat"
		body.kids = g.blocks(1, n)
	case 2:
		layout = "wrapper-div"
		w := el("div", hdr()).attr("id", hx.Pick(r, []string{"wrapper", "page", "container", "content"}))
		w.kids = append(w.kids, g.blocks(2, n)...)
		w.kids = append(w.kids, ftr())
		body.kids = []*gnode{w}
		if r.Bool() {
			body.kids = append(body.kids, g.skipEl())
		}
	case 3:
		layout = "wrapper-main"
		w := el("main", hdr(), el("article", g.blocks(3, n)...), el("aside", g.blocks(3, 1)...), ftr())
		body.kids = []*gnode{&gnode{tag: "script", raw: true, kids: []*gnode{tx("/*" + g.leak() + "*/")}}, w}
	case 4:
		layout = "header-main-footer"
		body.kids = []*gnode{hdr(), el("main", g.blocks(2, n)...), ftr()}
	case 5:
		layout = "two-divs"
		body.kids = []*gnode{el("div", hdr(), el("div", g.blocks(3, n)...)), el("div", ftr())}
	default:
		layout = "article-header"
		body.kids = []*gnode{el("div", el("article", hdr(), el("section", g.blocks(4, n)...), ftr()))}
	}
	if r.Chance(1, 25) {
		body.attr("class", hx.Pick(r, []string{"home page", "nav-open", "has-sidebar", "no-js"}))
		g.f("body-class")
	}
	return el("html", head, body).attr("lang", "en"), layout
}

func newGen(r *hx.Rng, budget int) *gen {
	return &gen{r: r, budget: budget, feat: map[string]bool{}}
}

// ---- elements that share a class value -------------------------------------------

// neutralClasses are ordinary styling names: no word of the exclusion vocabulary
// occurs in them (between non-letters or otherwise), so by the property text an
// element is never navigation BECAUSE of such a class. Pages repeat them on many
// elements (cards, rows, entries) that differ in id, role and content.
var neutralClasses = []string{"panel", "card", "row", "entry", "box", "col-md-4", "post teaser", "Card", "grid-cell",
	"lead", "item", "clearfix wide", "text-muted", "js-toggle", "story"}

var neutralClass = func() map[string]bool {
	m := map[string]bool{}
	for _, s := range neutralClasses {
		m[s] = true
	}
	return m
}()

func (n *gnode) hasAttr(k string) bool {
	for _, a := range n.attrs {
		if a[0] == k {
			return true
		}
	}
	return false
}

// shareClasses is a pass over the finished logical document: it picks one to
// three neutral class values and puts each on several elements (a family) in
// document order; members of a family then differ in what else identifies them:
// an id from or near the exclusion vocabulary, a role, or nothing. Whether one
// member is navigation must not depend on the other members of its family.
// It draws from a generator of its own, so the shape of the document is the
// one genCase built before.
func (g *gen) shareClasses(doc *gnode, r *hx.Rng) {
	var cands []*gnode
	var walk func(n *gnode)
	walk = func(n *gnode) {
		switch n.tag {
		case "", "#comment", "head", "script", "style", "noscript", "template", "svg", "col", "colgroup", "br":
			return
		case "html", "body":
		default:
			if !n.hasAttr("class") {
				cands = append(cands, n)
			}
		}
		for _, k := range n.kids {
			walk(k)
		}
	}
	walk(doc)
	if len(cands) < 2 {
		return
	}
	saved := g.r
	g.r = r
	defer func() { g.r = saved }()
	used := map[*gnode]bool{}
	for fam := r.Range(1, 3); fam > 0; fam-- {
		class := hx.Pick(r, neutralClasses)
		size := r.Range(2, 6)
		// members: a random subset, kept in document order
		pick := map[int]bool{}
		for i := 0; i < size; i++ {
			pick[r.Intn(len(cands))] = true
		}
		first := true
		for i, n := range cands {
			if !pick[i] || used[n] {
				continue
			}
			used[n] = true
			n.attr("class", class)
			g.f("shared-class")
			k := r.Intn(10)
			if first && r.Bool() {
				k = 0 // the family often starts with the member that carries a vocabulary id
			}
			first = false
			switch {
			case k < 3 && !n.hasAttr("id"):
				n.attr("id", fmt.Sprintf(hx.Pick(r, decor[:8]), hx.Pick(r, vocab)))
				g.f("shared-class-vocab-id")
			case k < 5 && !n.hasAttr("id"):
				n.attr("id", g.navName())
				g.f("shared-class-some-id")
			case k == 5 && !n.hasAttr("role"):
				n.attr("role", hx.Pick(r, append(append([]string{}, roles...), nearRoles...)))
				g.f("shared-class-role")
			}
		}
	}
}
