module verifharness

go 1.23

require (
	github.com/tsawler/tabula v0.0.0
	golang.org/x/net v0.20.0
	golang.org/x/text v0.16.0
)

require golang.org/x/image v0.18.0

replace github.com/tsawler/tabula => /repo
