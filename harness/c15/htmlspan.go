package c15

// HTML tables with colspan / rowspan through htmldoc.ParsedTable.ToMarkdown and through the table
// Document() builds from the same grid (direct stream, part of direct()).
//
// Three kinds of input:
//   - authored grids: a rows x width grid tiled with rectangles (merged cells), written the way HTML
//     spells it — the top-left cell of a rectangle carries colspan/rowspan, the positions it covers have
//     no cell, so a row all of whose positions are covered from above is a row without cells. The
//     expectation is the authored grid itself (text at the top-left position of its rectangle, every
//     other position empty), not the result of any placement algorithm. Rows after the first may lose
//     trailing cells (short rows); a span of 1 is written 1 or 0 (the zero value of a hand-built cell).
//   - raw tables: rows of 0..4 cells with spans from {-1, 0, 1, 2, 3, 4, 1024, 1025, 2^31}: overlapping
//     cells, rowspans beyond the last row, spans the reader does not believe. No authored grid exists for
//     them; demanded is what the property demands of every table: all written rows have the same number
//     of cells, there is one row per source row, and every row's texts are read back in their order.
//   - the grid limit: a table whose grid would have more than 2^20 cells is written without spans.

import (
	"fmt"
	"strings"

	"github.com/tsawler/tabula/htmldoc"
	"github.com/tsawler/tabula/model"

	"verifharness/hx"
)

type hspanCase struct {
	Kind string                `json:"kind"`
	Rows [][]htmldoc.TableCell `json:"rows"`
	Want [][]string            `json:"want,omitempty"`
}

// encHTable: rows `;`, cells `,` = <hex text>.<colspan>.<rowspan>, `_` = row without cells, `-` = no rows.
func encHTable(rows [][]htmldoc.TableCell) string {
	if len(rows) == 0 {
		return "-"
	}
	rs := make([]string, len(rows))
	for i, row := range rows {
		if len(row) == 0 {
			rs[i] = "_"
			continue
		}
		cs := make([]string, len(row))
		for j, c := range row {
			cs[j] = fmt.Sprintf("%s.%d.%d", hx.HexS(c.Text), c.ColSpan, c.RowSpan)
		}
		rs[i] = strings.Join(cs, ",")
	}
	return strings.Join(rs, ";")
}

// htmlSpans: some cell of the table spans more than one column or row (as the reader counts spans).
func htmlSpans(rows [][]htmldoc.TableCell) bool {
	for _, row := range rows {
		for _, c := range row {
			if (c.ColSpan > 1 && c.ColSpan <= 1024) || (c.RowSpan > 1 && c.RowSpan <= 1024) {
				return true
			}
		}
	}
	return false
}

// genMergedGrid: a grid tiled with rectangles, as HTML rows (top-left cells with spans) and as the
// grid of texts a reader should see.
func genMergedGrid(r *hx.Rng) ([][]htmldoc.TableCell, [][]string) {
	R, W := r.Range(1, 5), r.Range(1, 5)
	if r.Chance(1, 12) {
		R, W = r.Range(5, 9), r.Range(5, 8)
	}
	occ := make([][]bool, R)
	want := make([][]string, R)
	for i := range occ {
		occ[i] = make([]bool, W)
		want[i] = make([]string, W)
	}
	rows := make([][]htmldoc.TableCell, R)
	start := make([][]int, R) // start column of every cell of the row
	for i := 0; i < R; i++ {
		rows[i] = []htmldoc.TableCell{}
		for j := 0; j < W; j++ {
			if occ[i][j] {
				continue
			}
			cs, rs := 1, 1
			if r.Chance(1, 3) {
				free := 0
				for j+free < W && !occ[i][j+free] {
					free++
				}
				cs = r.Range(1, free)
			}
			if r.Chance(1, 3) {
				rs = r.Range(1, R-i) // rows below row i are still free in these columns
			}
			for a := i; a < i+rs; a++ {
				for b := j; b < j+cs; b++ {
					occ[a][b] = true
				}
			}
			text := genCell(r)
			cell := htmldoc.TableCell{Text: text, IsHeader: i == 0, ColSpan: cs, RowSpan: rs}
			if cs == 1 && r.Chance(1, 8) {
				cell.ColSpan = 0
			}
			if rs == 1 && r.Chance(1, 8) {
				cell.RowSpan = 0
			}
			rows[i] = append(rows[i], cell)
			start[i] = append(start[i], j)
			want[i][j] = normCell(text)
		}
	}
	// short rows: a row after the first loses trailing cells that cover one position only
	for i := 1; i < R; i++ {
		for len(rows[i]) > 0 && r.Chance(1, 6) {
			last := rows[i][len(rows[i])-1]
			if last.ColSpan > 1 || last.RowSpan > 1 {
				break
			}
			want[i][start[i][len(rows[i])-1]] = ""
			rows[i] = rows[i][:len(rows[i])-1]
		}
	}
	return rows, want
}

var rawSpans = []int{-1, 0, 1, 1, 1, 1, 2, 2, 3, 4, 1025, 1 << 31}

func genRawHTable(r *hx.Rng) [][]htmldoc.TableCell {
	rows := make([][]htmldoc.TableCell, r.Range(1, 6))
	any := false
	for i := range rows {
		rows[i] = []htmldoc.TableCell{}
		for k := r.Range(0, 4); k > 0; k-- {
			c := htmldoc.TableCell{Text: genCell(r), IsHeader: r.Bool(), ColSpan: hx.Pick(r, rawSpans), RowSpan: hx.Pick(r, rawSpans)}
			if r.Chance(1, 60) {
				c.ColSpan = 1024
			}
			if r.Chance(1, 30) {
				c.RowSpan = 1024
			}
			rows[i] = append(rows[i], c)
			any = true
		}
	}
	if !any {
		rows[0] = append(rows[0], htmldoc.TableCell{Text: "x", ColSpan: 2, RowSpan: 2})
	}
	return rows
}

// docTableGrid: the table Document() builds for a reader holding just this table: its width and its
// rows of cell texts.
func docTableGrid(rows [][]htmldoc.TableCell) (int, [][]string, bool) {
	els := []htmldoc.VerifElement{{Type: htmldoc.ElementTable, Table: &htmldoc.ParsedTable{Rows: rows}}}
	rd := htmldoc.VerifNewReader(map[htmldoc.NavigationExclusionMode][]htmldoc.VerifElement{htmldoc.NavigationExclusionNone: els}, "", nil)
	d, err := rd.DocumentWithOptions(htmldoc.ExtractOptions{NavigationExclusion: htmldoc.NavigationExclusionNone})
	if err != nil || d == nil {
		return 0, nil, false
	}
	for _, pg := range d.Pages {
		for _, e := range pg.Elements {
			if t, ok := e.(*model.Table); ok {
				g := make([][]string, len(t.Rows))
				for i, row := range t.Rows {
					g[i] = make([]string, len(row))
					for j, cell := range row {
						g[i][j] = cell.Text
					}
				}
				return t.ColCount(), g, true
			}
		}
	}
	return 0, nil, false
}

func nonEmptyNorm(cells []string) []string {
	out := []string{}
	for _, s := range cells {
		if n := normCell(s); n != "" {
			out = append(out, n)
		}
	}
	return out
}

// runHTMLSpanTable: one table through ToMarkdown and Document(); want = the authored grid or nil.
func runHTMLSpanTable(c *hx.Ctx, rows [][]htmldoc.TableCell, want [][]string, big bool) {
	kase := hspanCase{Kind: "htmlspan", Rows: rows, Want: want}
	var md string
	pt := &htmldoc.ParsedTable{HasHeader: true, Rows: rows}
	if p := hx.Safe(func() { md = pt.ToMarkdown() }); p != "" {
		c.Check("C15/panic", false, kase, func() string { return "htmldoc ToMarkdown: " + p })
		return
	}
	enc := encHTable(rows)
	c.Op("c15.mdhtml "+enc, hx.HexS(md))
	var width int
	var grid [][]string
	var okDoc bool
	if p := hx.Safe(func() { width, grid, okDoc = docTableGrid(rows) }); p != "" {
		c.Check("C15/panic", false, kase, func() string { return "htmldoc Document: " + p })
		return
	}
	if okDoc {
		c.Op("c15.htmlgrid "+enc, fmt.Sprintf("%d %s", width, encGridTexts(grid)))
	}
	lines := strings.Split(md, "\n")
	got, ok := GFMTable(lines)
	if !big {
		c.Op("c15.gfm "+hx.HexS(md), encGrid(got, ok))
	}
	if want != nil {
		checkGrid(c, "merged-html", md, want, kase)
		return
	}
	cells := 0
	for _, row := range rows {
		cells += len(row)
	}
	if cells == 0 {
		return
	}
	// every table, whatever its spans: one line per row, all lines of one width, texts in order
	shapeOK := ok && len(got) == len(rows)
	n := 0
	if shapeOK {
		n = len(GFMSplitRow(lines[0]))
		for _, line := range strings.Split(strings.TrimRight(md, "\n"), "\n") {
			if len(GFMSplitRow(line)) != n {
				shapeOK = false
			}
		}
	}
	c.Check("C15/table-shape-merged-html", shapeOK, kase, func() string {
		return fmt.Sprintf("table of %d rows with spans: GFM reader sees ok=%v, %d rows; lines %q", len(rows), ok, len(got), md)
	})
	if !shapeOK {
		return
	}
	cellsOK, detail := true, ""
	for i, row := range rows {
		var texts []string
		for _, cell := range row {
			texts = append(texts, cell.Text)
		}
		a, b := nonEmptyNorm(got[i]), nonEmptyNorm(texts)
		if strings.Join(a, "\x00") != strings.Join(b, "\x00") && cellsOK {
			cellsOK = false
			detail = fmt.Sprintf("row %d reads %q, authored texts %q; markdown %q", i, got[i], texts, md)
		}
	}
	c.Check("C15/table-cell-merged-html", cellsOK, kase, func() string { return detail })
	// the model table of Document() is the same grid
	if okDoc {
		same := len(grid) == len(got)
		for i := 0; same && i < len(grid); i++ {
			same = len(grid[i]) == len(got[i])
			for j := 0; same && j < len(grid[i]); j++ {
				same = normCellHTML(grid[i][j]) == got[i][j]
			}
		}
		c.Check("C15/table-document-grid-html", same, kase, func() string {
			return fmt.Sprintf("Document() table %q, Markdown read back %q", grid, got)
		})
	}
}

// normCellHTML: normCell of a text in which htmldoc's writer drops carriage returns (none generated).
func normCellHTML(s string) string { return normCell(strings.ReplaceAll(s, "\r", "")) }

// encGridTexts: like encTable; a grid without columns has rows `_`.
func encGridTexts(g [][]string) string {
	rs := make([]string, len(g))
	for i, row := range g {
		if len(row) == 0 {
			rs[i] = "_"
		} else {
			rs[i] = hx.HexList(row)
		}
	}
	if len(rs) == 0 {
		return "-"
	}
	return strings.Join(rs, ";")
}

func htmlSpanTables(c *hx.Ctx) {
	td := func(text string, cs, rs int) htmldoc.TableCell {
		return htmldoc.TableCell{Text: text, ColSpan: cs, RowSpan: rs}
	}
	type fixedCase struct {
		rows [][]htmldoc.TableCell
		want [][]string
	}
	fixed := []fixedCase{
		// the recorded witnesses
		{[][]htmldoc.TableCell{{td("A", 2, 1)}, {td("x", 1, 1), td("y", 1, 1)}}, [][]string{{"A", ""}, {"x", "y"}}},
		{[][]htmldoc.TableCell{{td("A", 1, 1), td("B", 1, 1)}, {td("x", 2, 1)}}, [][]string{{"A", "B"}, {"x", ""}}},
		{[][]htmldoc.TableCell{{td("A", 2, 1), td("B", 1, 1)}, {td("c", 1, 1), td("d", 1, 1), td("e", 1, 1)}}, [][]string{{"A", "", "B"}, {"c", "d", "e"}}},
		// rowspan: the cell below moves right
		{[][]htmldoc.TableCell{{td("A", 1, 2), td("B", 1, 1)}, {td("x", 1, 1)}}, [][]string{{"A", "B"}, {"", "x"}}},
		{[][]htmldoc.TableCell{{td("Wide", 2, 1)}, {td("Tall", 1, 2), td("A", 1, 1)}, {td("B", 1, 1)}}, [][]string{{"Wide", ""}, {"Tall", "A"}, {"", "B"}}},
		// rows whose cells are all covered
		{[][]htmldoc.TableCell{{td("T", 1, 3), td("U", 1, 3)}, {}, {}, {td("a", 1, 1), td("b", 1, 1)}}, [][]string{{"T", "U"}, {"", ""}, {"", ""}, {"a", "b"}}},
		{[][]htmldoc.TableCell{{td("T", 1, 2)}, {}, {td("a|b", 0, 0)}}, [][]string{{"T"}, {""}, {"a|b"}}},
		// a block of 2 x 2 in the middle
		{[][]htmldoc.TableCell{{td("a", 1, 1), td("b", 1, 1), td("c", 1, 1), td("d", 1, 1)}, {td("e", 1, 1), td("M", 2, 2), td("f", 1, 1)}, {td("g", 1, 1), td("h", 1, 1)}, {td("i", 1, 1), td("j", 1, 1), td("k", 1, 1), td("l", 1, 1)}},
			[][]string{{"a", "b", "c", "d"}, {"e", "M", "", "f"}, {"g", "", "", "h"}, {"i", "j", "k", "l"}}},
	}
	for _, f := range fixed {
		runHTMLSpanTable(c, f.rows, f.want, false)
		c.Count("html span table: fixed witness")
		c.Case("hspan "+encHTable(f.rows), true)
	}
	// raw witnesses: overlap, rowspan beyond the table, spans not believed
	raw := [][][]htmldoc.TableCell{
		{{td("A", 1, 1), td("B", 1, 2)}, {td("C", 2, 1), td("D", 1, 1)}},
		{{td("A", 1000000000, 0), td("b", 1, 1)}, {td("c", 1, 1)}},
		{{td("A", 1, 1024)}, {td("b", 1, 1)}},
		{{td("A", 1025, 1025), td("b", -3, -3)}, {}, {td("c", 1, 1)}},
		{{}, {td("x", 2, 1)}, {}},
		{{td("w", 1024, 1)}, {td("x", 1, 1)}},
	}
	for _, t := range raw {
		runHTMLSpanTable(c, t, nil, false)
		c.Count("html span table: raw witness")
		c.Case("hspan "+encHTable(t), true)
	}
	// the grid limit, from both sides: 2 cells of colspan 1024 over rows without cells that the
	// rowspan reaches: 2048 columns x 512 rows = 2^20 cells are honoured, x 513 rows are not
	limit := func(rowsN int) [][]htmldoc.TableCell {
		t := [][]htmldoc.TableCell{{td("L", 1024, 1024), td("R", 1024, 1024)}}
		for len(t) < rowsN {
			t = append(t, []htmldoc.TableCell{})
		}
		return t
	}
	runHTMLSpanTable(c, limit(513), nil, true)
	c.Count("html span table: beyond the grid limit")
	if c.Thorough() {
		runHTMLSpanTable(c, limit(512), nil, true)
		c.Count("html span table: at the grid limit")
	}
	n := c.N(300, 4000)
	for i := 0; i < n; i++ {
		r := c.Rng.Fork(uint64(41)<<40 | uint64(i))
		rows, want := genMergedGrid(r)
		runHTMLSpanTable(c, rows, want, false)
		covered := false
		for k, row := range rows {
			if k > 0 && len(row) == 0 {
				covered = true
			}
		}
		if covered {
			c.Count("html span table: a row all of whose cells are covered")
		}
		if htmlSpans(rows) {
			c.Count("html span table: authored grid with merged cells")
		} else {
			c.Count("html span table: authored grid without merged cells")
		}
		c.Case("hspan "+encHTable(rows), true)
		if i%2 == 0 {
			t := genRawHTable(c.Rng.Fork(uint64(42)<<40 | uint64(i)))
			runHTMLSpanTable(c, t, nil, false)
			c.Count("html span table: raw spans")
			c.Case("hspan "+encHTable(t), true)
		}
	}
}
