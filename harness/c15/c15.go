// Package c15 is the correspondence/oracle harness for property C15.
package c15

import "verifharness/hx"

func init() { hx.Register("C15", Run, Replay) }

// Run is not built yet for this property.
func Run(c *hx.Ctx) { c.Note("C15: harness not built") }

func Replay(c *hx.Ctx, kase map[string]interface{}) {}
