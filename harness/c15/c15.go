// Package c15: Markdown output keeps table, heading and list structure intact.
//
// Three streams:
//  1. direct: generated tables through the six table writers (model.Table, docx, odt, xlsx,
//     pptx, htmldoc ParsedTable.ToMarkdown; htmldoc tables with colspan/rowspan: htmlspan.go);
//     op = the writer's output vs the Lean render; oracle =
//     the harness's own GFM reader (gfm.go) gives back rows x columns x cell text. Cells are any
//     text: pipes, newlines, empty, and backslashes wherever they may stand (genCell, backslashCells,
//     and exhaustively over a small alphabet in escapeSweep) — the cells of every other stream
//     (documents of all formats, rag documents, reader contents) come from the same generator.
//  2. levels: every (level, offset, max) of a bounded box through rag.MarkdownOptions /
//     rag.Chunk; oracle = clamp formula of the property text.
//  3. documents: generated documents (headings of all levels, nested lists, tables with merged
//     cells, paragraphs) written as DOCX, ODT, PPTX, HTML (docwriters.go) and XLSX (writers.XLSX),
//     read through <format>.Reader.MarkdownWithRAGOptions and tabula.Open(f).ToMarkdownWithOptions
//     under all Markdown options; oracle = the harness's Markdown reader (mdread.go).
//  4. heading sweep (headsweep.go): every source level a format can express x every heading
//     configuration x every Markdown entry point, on one file per case.
//  5. rag documents (ragdocs.go): the Markdown writer of the PDF pipeline, model.Document ->
//     rag.ChunkDocument -> ChunkCollection.ToMarkdownWithOptions, on authored documents with
//     recurring heading texts, both heading spellings, lists, tables, page breaks, all options.
//
//  6. call histories (history.go): one Reader opened once and asked for several renderings (Markdown,
//     MarkdownWithOptions, MarkdownWithRAGOptions under different heading configurations, Text and
//     Document calls in between) — on every generated document and, with all 70 configurations, on the
//     sweep files; one rag.ChunkCollection rendered several times. Every rendering is checked under
//     the options of that call.
//
//  7. document model (docmodel*.go): every Markdown entry point of every format (Markdown,
//     MarkdownWithOptions, MarkdownWithRAGOptions, tabula.Open.ToMarkdownWithOptions, the chunk collection
//     writer) against the Lean document model on the input the Reader holds — on every generated file and on
//     arbitrary reader contents built through the VerifNewReader hooks; the harness's Markdown reader against
//     the Lean reading spec on every Markdown string seen and on line soup.
//
// Worksheet tables lie anywhere on their sheet (Place, docwriters.go): under blank rows, right of
// blank columns, the blank rows absent, empty or made of value-less cells.
//
// Tables carry a header marking (Head, docwriters.go): 0..all leading header rows in every
// spelling a format has (HTML thead/th/td/tfoot and row-header cells, DOCX w:tblHeader, ODT
// table-header-rows / table-rows, PPTX firstRow), in the direct stream (model, docx, htmldoc input
// types) and in the generated documents; heading texts recur in half of the documents.
package c15

import (
	"fmt"
	"strconv"
	"strings"

	"github.com/tsawler/tabula/docx"
	"github.com/tsawler/tabula/htmldoc"
	"github.com/tsawler/tabula/model"
	"github.com/tsawler/tabula/odt"
	"github.com/tsawler/tabula/pptx"
	"github.com/tsawler/tabula/xlsx"

	"verifharness/hx"
)

func init() { hx.Register("C15", Run, Replay) }

var tableWriters = []string{"model", "docx", "odt", "xlsx", "pptx", "html"}

const nbsp = "\u00a0"

// cellAtoms: what cells are made of: any cell content, backslashes included (so a backslash lands in
// front of a pipe, of another backslash, of a newline, at either end of a cell). No CR; non-ASCII
// spaces only between letters (the model trims ASCII white space, docx/odt use strings.TrimSpace).
var cellAtoms = []string{"a", "b", "xyz", "|", "||", "\n", " ", "  ", "x y", "é", "日本", "😀", "-", ":", "*", "_x_", "#", "<b>", "&", "1.", "---", ":-:", "\t", "0", "`", "[l](u)", "a" + nbsp + "b", `\`, `\`, `\|`}

// backslashCells: cell texts as they occur in documents about regular expressions, paths, LaTeX or
// shell fragments: the backslash is a character of the cell like any other and has to be read back,
// whatever follows it (a pipe, another backslash, the end of the cell, a newline, punctuation).
var backslashCells = []string{`\`, `\|`, `|\`, `\\`, `\\|`, `\|\|`, `a\|b`, `a\`, `\a`, `^(yes\|no)$`, `C:\|D:\`, `C:\dir\`, `\\\|`, `a\||b`, `a|\|b`,
	"a\\\nb", "\\\n|", `\*x\*`, `\n`, `x \| y`, `\ |`, `| \`, `\|\`, `$a \mid b$ \| c`, `\--- | \---`}

func genCell(r *hx.Rng) string {
	switch r.Intn(10) {
	case 0:
		return ""
	case 1:
		return hx.Pick(r, []string{"|", "a|b", "|a", "a|", "a\nb", "\n", " ", " a ", "a||b", "| |", "a |\n| b", "--- | ---"})
	case 2:
		return hx.Pick(r, backslashCells)
	}
	n := r.Range(1, 5)
	var sb strings.Builder
	for i := 0; i < n; i++ {
		a := hx.Pick(r, cellAtoms)
		if a == " " && (i == 0 || i == n-1) {
			a = "n" // non-ASCII spaces only inside a cell (model trims ASCII white space)
		}
		sb.WriteString(a)
	}
	return sb.String()
}

func genTable(r *hx.Rng) [][]string {
	rows, cols := r.Range(1, 5), r.Range(1, 5)
	if r.Chance(1, 15) {
		rows, cols = r.Range(6, 14), r.Range(6, 12)
	}
	t := make([][]string, rows)
	for i := range t {
		t[i] = make([]string, cols)
		for j := range t[i] {
			t[i][j] = genCell(r)
		}
	}
	return t
}

// normCell is the property's cell normalisation: newline -> space, trimmed.
func normCell(s string) string { return strings.TrimSpace(strings.ReplaceAll(s, "\n", " ")) }

// writeTable sends a plain table through writer w.
func writeTable(w string, t [][]string) string {
	switch w {
	case "model":
		mt := &model.Table{}
		for _, row := range t {
			var cells []model.Cell
			for _, c := range row {
				cells = append(cells, model.Cell{Text: c, RowSpan: 1, ColSpan: 1})
			}
			mt.Rows = append(mt.Rows, cells)
		}
		return mt.ToMarkdown()
	case "docx":
		pt := &docx.ParsedTable{}
		for _, row := range t {
			var pr docx.ParsedTableRow
			for _, c := range row {
				pr.Cells = append(pr.Cells, docx.ParsedTableCell{Text: c, ColSpan: 1, RowSpan: 1})
			}
			pt.Rows = append(pt.Rows, pr)
		}
		return pt.ToMarkdown()
	case "odt":
		pt := &odt.ParsedTable{}
		for _, row := range t {
			var pr odt.ParsedTableRow
			for _, c := range row {
				pr.Cells = append(pr.Cells, odt.ParsedTableCell{Text: c, ColSpan: 1, RowSpan: 1})
			}
			pt.Rows = append(pt.Rows, pr)
		}
		return pt.ToMarkdown()
	case "xlsx":
		pt := xlsx.ParsedTable{Headers: t[0], Rows: t[1:]}
		return pt.ToMarkdown()
	case "pptx":
		pt := &pptx.Table{Columns: len(t[0])}
		for _, row := range t {
			var cells []pptx.TableCell
			for _, c := range row {
				cells = append(cells, pptx.TableCell{Text: c, RowSpan: 1, ColSpan: 1})
			}
			pt.Rows = append(pt.Rows, cells)
		}
		return pt.ToMarkdown()
	case "html", "html-noth":
		// html-noth: a table without <th>/<thead> (HasHeader false); same rows expected
		pt := &htmldoc.ParsedTable{HasHeader: w == "html"}
		for i, row := range t {
			var cells []htmldoc.TableCell
			for _, c := range row {
				cells = append(cells, htmldoc.TableCell{Text: c, IsHeader: i == 0 && w == "html", RowSpan: 1, ColSpan: 1})
			}
			pt.Rows = append(pt.Rows, cells)
		}
		return pt.ToMarkdown()
	}
	panic("writer " + w)
}

// writeSpanTable sends a table with merged cells through the docx or odt writer (htmldoc: htmlspan.go).
func writeSpanTable(w string, t [][]Cell) string {
	if w == "docx" {
		pt := &docx.ParsedTable{}
		for _, row := range t {
			var pr docx.ParsedTableRow
			for _, c := range row {
				pr.Cells = append(pr.Cells, docx.ParsedTableCell{Text: c.Text, ColSpan: c.ColSpan, RowSpan: 1, IsMergedContinuation: c.VCont})
			}
			pt.Rows = append(pt.Rows, pr)
		}
		return pt.ToMarkdown()
	}
	pt := &odt.ParsedTable{}
	for _, row := range t {
		var pr odt.ParsedTableRow
		for _, c := range row {
			pr.Cells = append(pr.Cells, odt.ParsedTableCell{Text: c.Text, ColSpan: c.ColSpan, RowSpan: 1, IsCovered: c.VCont})
		}
		pt.Rows = append(pt.Rows, pr)
	}
	return pt.ToMarkdown()
}

func encTable(t [][]string) string {
	rows := make([]string, len(t))
	for i, row := range t {
		rows[i] = hx.HexList(row)
	}
	return strings.Join(rows, ";")
}

func encSpanTable(t [][]Cell) string {
	rows := make([]string, len(t))
	for i, row := range t {
		cs := make([]string, len(row))
		for j, c := range row {
			cont := 0
			if c.VCont {
				cont = 1
			}
			cs[j] = fmt.Sprintf("%s:%d:%d", hx.HexS(c.Text), c.ColSpan, cont)
		}
		rows[i] = strings.Join(cs, ",")
	}
	return strings.Join(rows, ";")
}

func encGrid(rows [][]string, ok bool) string {
	if !ok {
		return "none"
	}
	return "ok " + encTable(rows)
}

type tabCase struct {
	Kind   string     `json:"kind"`
	Writer string     `json:"writer"`
	Table  [][]string `json:"table,omitempty"`
	Span   [][]Cell   `json:"span,omitempty"`
	Head   *Head      `json:"head,omitempty"`
}

// isHeadCell: the cell (i, j) of a table whose source marks h as header is a header cell: it lies in
// one of the h.Rows leading header rows or is the row-header cell of a body row.
func isHeadCell(h Head, i, j int) bool { return i < h.Rows || (h.RowHead && j == 0) }

// writeHeadTable sends a plain table whose source marks header rows / cells (Head) through the
// writers whose input type can say so: model.Cell.IsHeader, docx ParsedTableRow.IsHeader (w:tblHeader),
// htmldoc TableCell.IsHeader (a <th>, or any cell inside <thead>) with ParsedTable.HasHeader (the
// table has a <thead>, or its first row has a <th>).
func writeHeadTable(w string, t [][]string, h Head) string {
	switch w {
	case "model":
		mt := &model.Table{}
		for i, row := range t {
			var cells []model.Cell
			for j, c := range row {
				cells = append(cells, model.Cell{Text: c, RowSpan: 1, ColSpan: 1, IsHeader: isHeadCell(h, i, j)})
			}
			mt.Rows = append(mt.Rows, cells)
		}
		return mt.ToMarkdown()
	case "docx":
		pt := &docx.ParsedTable{}
		for i, row := range t {
			pr := docx.ParsedTableRow{IsHeader: i < h.Rows}
			for _, c := range row {
				pr.Cells = append(pr.Cells, docx.ParsedTableCell{Text: c, ColSpan: 1, RowSpan: 1})
			}
			pt.Rows = append(pt.Rows, pr)
		}
		return pt.ToMarkdown()
	case "html":
		pt := &htmldoc.ParsedTable{HasHeader: (h.Rows > 0 && h.Via <= 1) || isHeadCell(h, 0, 0)}
		for i, row := range t {
			var cells []htmldoc.TableCell
			for j, c := range row {
				cells = append(cells, htmldoc.TableCell{Text: c, IsHeader: isHeadCell(h, i, j), RowSpan: 1, ColSpan: 1})
			}
			pt.Rows = append(pt.Rows, cells)
		}
		return pt.ToMarkdown()
	}
	panic("head writer " + w)
}

// runHeadTable: a header marking never changes which rows x columns of cell texts the table is.
func runHeadTable(c *hx.Ctx, w string, t [][]string, h Head) {
	kase := tabCase{Kind: "headtable", Writer: w, Table: t, Head: &h}
	var md string
	if p := hx.Safe(func() { md = writeHeadTable(w, t, h) }); p != "" {
		c.Check("C15/panic", false, kase, func() string { return w + " ToMarkdown: " + p })
		return
	}
	if w == "docx" {
		st := make([][]Cell, len(t))
		for i, row := range t {
			for _, s := range row {
				st[i] = append(st[i], Cell{Text: s, ColSpan: 1})
			}
		}
		c.Op("c15.mdspan "+w+" "+encSpanTable(st), hx.HexS(md))
	} else {
		c.Op("c15.mdtab "+w+" "+encTable(t), hx.HexS(md))
	}
	got, ok := GFMTable(strings.Split(md, "\n"))
	c.Op("c15.gfm "+hx.HexS(md), encGrid(got, ok))
	checkGrid(c, w+"-head", md, normGrid(t), kase)
	c.Count(fmt.Sprintf("head-table %s header-rows=%d of %d", w, min(h.Rows, 4), min(len(t), 4)))
}

var headWriters = []string{"model", "docx", "html"}

// genHead: 0..all leading header rows (a one-row header most often, as documents have), a row-header
// column now and then, every spelling of the HTML header.
func genHead(r *hx.Rng, rows int) Head {
	h := Head{Set: true, Rows: hx.Pick(r, []int{0, 1, 1, 2, 2, 3, rows - 1, rows}), Via: r.Intn(HeadVias("html")), RowHead: r.Chance(1, 4)}
	h.Rows = min(max(h.Rows, 0), rows)
	return h
}

// checkGrid compares what the GFM reader sees in md with the authored grid.
func checkGrid(c *hx.Ctx, w, md string, want [][]string, kase interface{}) {
	checkGridEq(c, w, md, want, kase, func(a, b string) bool { return a == b })
}

// checkGridEq: same, with the cell comparison given (documents compare modulo white-space runs,
// which word-processor formats do not keep).
func checkGridEq(c *hx.Ctx, w, md string, want [][]string, kase interface{}, eq func(a, b string) bool) {
	got, ok := GFMTable(strings.Split(md, "\n"))
	shapeOK := ok && len(got) == len(want)
	if shapeOK {
		for i := range want {
			if len(got[i]) != len(want[i]) {
				shapeOK = false
			}
		}
	}
	// rows as emitted must all have the header's cell count (before GFM pads/truncates)
	if shapeOK {
		for _, line := range strings.Split(strings.TrimRight(md, "\n"), "\n") {
			if len(GFMSplitRow(line)) != len(want[0]) {
				shapeOK = false
			}
		}
	}
	c.Check("C15/table-shape-"+w, shapeOK, kase, func() string {
		return fmt.Sprintf("authored %dx%d table, GFM reader sees ok=%v %q in %q", len(want), len(want[0]), ok, got, md)
	})
	if !shapeOK {
		return
	}
	cellsOK, detail := true, ""
	for i := range want {
		for j := range want[i] {
			if !eq(got[i][j], want[i][j]) && cellsOK {
				cellsOK = false
				detail = fmt.Sprintf("cell (%d,%d) reads %q, authored (normalised) %q; markdown %q", i, j, got[i][j], want[i][j], md)
			}
		}
	}
	c.Check("C15/table-cell-"+w, cellsOK, kase, func() string { return detail })
}

func normGrid(t [][]string) [][]string {
	g := make([][]string, len(t))
	for i, row := range t {
		g[i] = make([]string, len(row))
		for j, s := range row {
			g[i][j] = normCell(s)
		}
	}
	return g
}

// spanGrid is the grid a merged-cell table denotes: text at the first grid column of each
// cell, empty under the other columns it spans and under continuations, padded to the width.
func spanGrid(t [][]Cell) [][]string {
	width := 0
	for _, row := range t {
		n := 0
		for _, c := range row {
			n += span(c)
		}
		if n > width {
			width = n
		}
	}
	g := make([][]string, len(t))
	for i, row := range t {
		for _, c := range row {
			if c.VCont {
				for k := 0; k < span(c); k++ {
					g[i] = append(g[i], "")
				}
				continue
			}
			g[i] = append(g[i], normCell(c.Text))
			for k := 1; k < span(c); k++ {
				g[i] = append(g[i], "")
			}
		}
		for len(g[i]) < width {
			g[i] = append(g[i], "")
		}
	}
	return g
}

func runPlainTable(c *hx.Ctx, w string, t [][]string, oracle bool) {
	kase := tabCase{Kind: "table", Writer: w, Table: t}
	var md string
	if p := hx.Safe(func() { md = writeTable(w, t) }); p != "" {
		c.Check("C15/panic", false, kase, func() string { return w + " ToMarkdown: " + p })
		return
	}
	if w == "docx" || w == "odt" {
		st := make([][]Cell, len(t))
		for i, row := range t {
			for _, s := range row {
				st[i] = append(st[i], Cell{Text: s, ColSpan: 1})
			}
		}
		c.Op("c15.mdspan "+w+" "+encSpanTable(st), hx.HexS(md))
	} else {
		c.Op("c15.mdtab "+strings.TrimSuffix(w, "-noth")+" "+encTable(t), hx.HexS(md))
	}
	first := md
	if i := strings.IndexByte(md, '\n'); i >= 0 {
		first = md[:i]
	}
	if w != "docx" && w != "odt" && w != "html-noth" {
		c.Op("c15.mdrow "+w+" "+hx.HexList(t[0]), hx.HexS(first))
	}
	// the harness reader and the Lean reading spec agree on what the implementation wrote
	got, ok := GFMTable(strings.Split(md, "\n"))
	c.Op("c15.gfm "+hx.HexS(md), encGrid(got, ok))
	if oracle {
		checkGrid(c, w, md, normGrid(t), kase)
	}
}

func genSpanTable(r *hx.Rng) [][]Cell {
	rows, width := r.Range(1, 5), r.Range(1, 5)
	t := make([][]Cell, rows)
	for i := range t {
		col := 0
		for col < width {
			c := Cell{Text: genCell(r), ColSpan: 1}
			if r.Chance(1, 4) && width-col >= 2 {
				c.ColSpan = r.Range(2, width-col)
			}
			if i > 0 && r.Chance(1, 6) {
				c.VCont, c.Text = true, ""
			}
			if r.Chance(1, 25) {
				c.ColSpan = 0 // parsers never produce it, ToMarkdown treats < 1 as 1
			}
			t[i] = append(t[i], c)
			col += span(c)
		}
		if r.Chance(1, 6) && len(t[i]) > 1 {
			t[i] = t[i][:len(t[i])-1] // a short row: padded by the writer
		}
	}
	return t
}

func runSpanTable(c *hx.Ctx, w string, t [][]Cell) {
	kase := tabCase{Kind: "span", Writer: w, Span: t}
	var md string
	if p := hx.Safe(func() { md = writeSpanTable(w, t) }); p != "" {
		c.Check("C15/panic", false, kase, func() string { return w + " ToMarkdown: " + p })
		return
	}
	c.Op("c15.mdspan "+w+" "+encSpanTable(t), hx.HexS(md))
	got, ok := GFMTable(strings.Split(md, "\n"))
	c.Op("c15.gfm "+hx.HexS(md), encGrid(got, ok))
	checkGrid(c, "merged-"+w, md, spanGrid(t), kase)
}

// backslashKind names where the backslashes of a cell stand (input distribution).
func backslashKind(s string) string {
	switch {
	case !strings.Contains(s, `\`):
		return ""
	case strings.Contains(s, `\\|`):
		return "backslashes before a pipe"
	case strings.Contains(s, `\|`):
		return "backslash before a pipe"
	case strings.HasSuffix(normCell(s), `\`):
		return "backslash at the end"
	}
	return "backslash elsewhere"
}

// escapeSweep: every cell text over the bytes that matter to a pipe-table row — backslash, pipe, a
// letter, a space (thorough: a newline too) — up to a length, four consecutive ones per 2x2 table,
// through all six writers: whatever the order of backslashes and pipes in a cell, the table reads
// back as the same 2x2 cell texts.
func escapeSweep(c *hx.Ctx) {
	alphabet, maxLen := []string{`\`, "|", "x", " "}, 4
	if c.Thorough() {
		alphabet, maxLen = []string{`\`, "|", "x", " ", "\n"}, 5
	}
	var cells []string
	level := []string{""}
	for l := 0; l <= maxLen; l++ {
		cells = append(cells, level...)
		var next []string
		for _, p := range level {
			for _, a := range alphabet {
				next = append(next, p+a)
			}
		}
		level = next
	}
	for len(cells)%4 != 0 {
		cells = append(cells, `\|`)
	}
	for i := 0; i < len(cells); i += 4 {
		t := [][]string{{cells[i], cells[i+1]}, {cells[i+2], cells[i+3]}}
		for _, w := range tableWriters {
			runPlainTable(c, w, t, true)
		}
		c.Count("escape-sweep table")
		c.Case(encTable(t), true)
	}
}

func direct(c *hx.Ctx) {
	// fixed witnesses first (B14, F5, CR handling)
	fixed := [][][]string{
		{{"a|b"}},
		{{"h1", "h2"}, {"a|b", "c\nd"}, {"", " x "}},
		{{"|"}, {"||"}, {"\n"}},
		{{"a", "b", "c"}},
		// backslashes are cell text: in front of a pipe, at the end of a cell, doubled, alone
		{{"pattern", "meaning"}, {`^(yes\|no)$`, "yes or no | basic regex"}, {`a\`, `|`}, {"", `C:\|D:\`}},
		{{`\`, `\|`}, {`\\|`, `|\`}},
		{{`h\|`}, {"\\\n|"}},
	}
	for _, t := range fixed {
		for _, w := range tableWriters {
			runPlainTable(c, w, t, true)
		}
		c.Case(encTable(t), true)
	}
	// carriage returns: compared with the model only (CR is not in the property's list)
	for _, w := range tableWriters {
		runPlainTable(c, w, [][]string{{"a\rb", "c\r\nd"}, {"\r", "x\r"}}, false)
	}
	for _, w := range []string{"docx", "odt"} {
		runSpanTable(c, w, [][]Cell{{{Text: "A", ColSpan: 2}, {Text: "B", ColSpan: 1}}, {{Text: "c", ColSpan: 1}, {Text: "d", ColSpan: 1}, {Text: "e", ColSpan: 1}}})
		runSpanTable(c, w, [][]Cell{{{Text: "A", ColSpan: 1}, {Text: "B", ColSpan: 1}}, {{VCont: true, ColSpan: 1}, {Text: "x", ColSpan: 1}}})
	}
	// header markings: group header over column header, header rows only, row headers, none
	grid43 := [][]string{{"Region", "Sales", "Costs"}, {"name", "EUR", "EUR"}, {"North", "10", "7"}, {"South", "20", "9"}}
	for k := 0; k <= 4; k++ {
		for via := 0; via < HeadVias("html"); via++ {
			for _, rowHead := range []bool{false, true} {
				for _, w := range headWriters {
					runHeadTable(c, w, grid43, Head{Set: true, Rows: k, Via: via, RowHead: rowHead})
				}
			}
		}
	}
	escapeSweep(c)
	htmlSpanTables(c)
	n := c.N(400, 6000)
	for i := 0; i < n; i++ {
		r := c.Rng.Fork(uint64(1)<<40 | uint64(i))
		t := genTable(r)
		for _, w := range tableWriters {
			runPlainTable(c, w, t, true)
		}
		if i%2 == 1 {
			h := genHead(c.Rng.Fork(uint64(40)<<40|uint64(i)), len(t))
			for _, w := range headWriters {
				runHeadTable(c, w, t, h)
			}
		}
		if i%4 == 0 {
			runPlainTable(c, "html-noth", t, true)
		}
		nontrivial := false
		for _, row := range t {
			for _, s := range row {
				if strings.ContainsAny(s, "|\n\\") {
					nontrivial = true
				}
				if k := backslashKind(s); k != "" {
					c.Count("cell with " + k)
				}
			}
		}
		c.Count(fmt.Sprintf("table rows=%d", min(len(t), 6)))
		c.Count(fmt.Sprintf("table cols=%d", min(len(t[0]), 6)))
		c.Case(encTable(t), nontrivial)
		if i%2 == 0 {
			st := genSpanTable(r)
			for _, w := range []string{"docx", "odt"} {
				runSpanTable(c, w, st)
			}
			c.Count("span-table")
			c.Case(encSpanTable(st), true)
		}
	}
	// the reading spec itself: harness reader vs Lean reader on arbitrary pipe text (with backslashes)
	atoms := []string{"|", "\\|", "\\", "\\\\", " ", "a", "-", ":", "---", "\n", "x y", "é"}
	for i := 0; i < c.N(300, 5000); i++ {
		r := c.Rng.Fork(uint64(2)<<40 | uint64(i))
		var sb strings.Builder
		for k := r.Range(0, 14); k > 0; k-- {
			sb.WriteString(hx.Pick(r, atoms))
		}
		s := sb.String()
		line := strings.ReplaceAll(s, "\n", " ")
		c.Op("c15.splitrow "+hx.HexS(line), hx.HexList(GFMSplitRow(line))+" "+strconv.Itoa(len(GFMSplitRow(line))))
		got, ok := GFMTable(strings.Split(s, "\n"))
		c.Op("c15.gfm "+hx.HexS(s), encGrid(got, ok))
		c.Count("reader-fuzz")
	}
}

func Run(c *hx.Ctx) {
	c.Rep.Rule = "direct: random tables (1..14 rows x 1..12 cols; cells from an alphabet with '|', newline, spaces, empty, unicode, markdown punctuation and backslashes — about one cell in five carries one: in front of a pipe, of another backslash, of a newline, at the end of the cell, alone; regular-expression, path and LaTeX-like cells) through all six ToMarkdown writers; escape sweep: EVERY cell text over {backslash, pipe, letter, space} up to length 4 (thorough: plus newline, up to length 5), four per 2x2 table, through all six writers, docx/odt also with random ColSpan/vertical-merge cells; htmldoc tables with colspan/rowspan (htmlspan.go): 300 (thorough 4000) authored grids tiled with merged rectangles (1..9 rows x 1..8 columns, spelled as HTML does: the top-left cell carries the spans, covered positions have no cell, so rows all of whose cells are covered are rows without cells; short rows; a span of 1 written 1 or 0) whose expectation is the authored grid itself, half as many raw tables (0..4 cells per row, spans from -1, 0, 1..4, 1024, 1025, 2^31: overlapping cells, rowspans beyond the last row, spans that are not believed) of which every line must have the same number of cells and every row its texts in order, fixed witnesses, and the grid limit of 2^20 cells from both sides (thorough), each through ParsedTable.ToMarkdown and through the model table Document() builds; levels: the full box level -1..10 x offset -3..8 x max 0..7; documents: random block sequences (headings of every level the format expresses — DOCX 1..9 as built-in style / direct outlineLvl / custom style / derived style, ODT 1..10, HTML 1..6, PPTX titles —, paragraphs, nested lists depth<=3, tables with merges) written by independent DOCX/ODT/PPTX/HTML/XLSX writers under all Markdown options (metadata x TOC x offset -2..+7 x max 1..6, enumerated); heading sweep: per format files with a heading of every expressible level, each read under all 70 configurations (offset -2..+7 x max 0..6) through Reader.MarkdownWithRAGOptions, tabula.Open.ToMarkdownWithOptions and once through Reader.Markdown, Reader.MarkdownWithOptions, tabula.Open.ToMarkdown; head tables: the same random tables through model/docx/htmldoc ToMarkdown with 0..all leading rows marked as header rows (IsHeader / HasHeader as a thead, th-only rows, td-in-thead or a row-header column produce them), and in the documents as HTML thead/tbody/tfoot/bare tr with th or td, DOCX w:tblHeader, ODT table-header-rows(+table-rows), PPTX firstRow; heading texts drawn from a pool of 2-3 recurring titles in half of the documents; rag documents: model.Document (headings 1..6 as model.Heading or as heading-like paragraph listed in Layout.Headings, recurring titles adjacent and apart, paragraphs, lists depth<=3 of which a third start with a nested item, tables with header marks, page breaks) through rag.ChunkDocument(doc).ToMarkdownWithOptions under offset -2..+7 x max 1..6 x metadata x TOC x chunk separators x page numbers x chunk ids x document title; call histories: every generated document also through ONE Reader asked 4..7 times (Markdown / MarkdownWithOptions / MarkdownWithRAGOptions with offset -2..+7 x max 0..6 x metadata x TOC at random, repeats of an earlier configuration, Text() and Document() in between), the sweep files through one Reader under all 70 configurations in random order, every second rag document through one ChunkCollection rendered 3..5 times, each rendering checked under its own options; xlsx placement: three of five worksheet tables start below 1..9 blank rows and/or right of 1..6 blank columns (blank rows absent, empty <row> elements, or rows of value-less cells; optionally blank row/cells after the table); document model: every generated file and 150 (thorough 2500) arbitrary reader contents per format built through the VerifNewReader hooks (heading levels -2..12, list levels -1..5, numIds/styles with and without a numbering definition, empty and Markdown-like texts, empty/ragged/nil tables, header/footer texts equal to paragraphs, 0..4 slides with placeholders and notes, 0..3 sheets with ragged rows, empty-typed and merged cells and any MaxCol >= -1, slide/sheet selections with invalid indices, four HTML element lists per reader, all option flags, offset -3..8, max 0..7, metadata strings needing %q) through Markdown / MarkdownWithOptions / MarkdownWithRAGOptions (and tabula.Open.ToMarkdownWithOptions on files), 200 (3000) arbitrary chunk collections and lists through the chunk writers, each call tied to the Lean model; 300 (4000) line-soup documents plus every Markdown string seen through the harness reader vs the Lean reading spec; the generated office/HTML files also vary how the source DECLARES what rows and items refer to: every table's column declaration (ODT table-column, DOCX/PPTX tblGrid, HTML colgroup/col) exact in three spellings, absent, or naming fewer columns than the rows have cells, and a DOCX numbering.xml with mixed bullet/decimal multilevel numberings of a list's own, <w:lvl> elements in ascending/descending/shuffled order, unused levels left out, abstractNumIds that are not file positions; non-trivial = table containing '|', newline or backslash, document with a table/heading/list; distinct by canonical input"
	direct(c)
	levels(c)
	documents(c)
	headingSweep(c)
	ragDocuments(c)
	docModelDirect(c)
	ragModelDirect(c)
	readmdFuzz(c)
}

// Replay re-runs one recorded failing case on the implementation.
func Replay(c *hx.Ctx, kase map[string]interface{}) {
	kind, _ := kase["kind"].(string)
	switch kind {
	case "table":
		w, _ := kase["writer"].(string)
		var t [][]string
		for _, row := range kase["table"].([]interface{}) {
			var cells []string
			for _, x := range row.([]interface{}) {
				cells = append(cells, x.(string))
			}
			t = append(t, cells)
		}
		runPlainTable(c, w, t, true)
	case "headtable":
		w, _ := kase["writer"].(string)
		var t [][]string
		for _, row := range kase["table"].([]interface{}) {
			var cells []string
			for _, x := range row.([]interface{}) {
				cells = append(cells, x.(string))
			}
			t = append(t, cells)
		}
		var h Head
		hx.Remarshal(kase["head"], &h)
		runHeadTable(c, w, t, h)
	case "span":
		w, _ := kase["writer"].(string)
		var t [][]Cell
		for _, row := range kase["span"].([]interface{}) {
			var cells []Cell
			for _, x := range row.([]interface{}) {
				m := x.(map[string]interface{})
				cell := Cell{}
				cell.Text, _ = m["Text"].(string)
				if f, ok := m["ColSpan"].(float64); ok {
					cell.ColSpan = int(f)
				}
				cell.VCont, _ = m["VCont"].(bool)
				cells = append(cells, cell)
			}
			t = append(t, cells)
		}
		runSpanTable(c, w, t)
	case "htmlspan":
		var k hspanCase
		hx.Remarshal(kase, &k)
		runHTMLSpanTable(c, k.Rows, k.Want, false)
	case "level":
		levels(c)
	case "doc":
		idx, _ := kase["index"].(float64)
		format, _ := kase["format"].(string)
		runDocument(c, int(idx), format, true)
	case "ragdoc":
		idx, _ := kase["index"].(float64)
		runRagDoc(c, int(idx))
	case "hsweep":
		idx, _ := kase["index"].(float64)
		format, _ := kase["format"].(string)
		runSweepDoc(c, int(idx), format, true)
	case "docmodel":
		idx, _ := kase["index"].(float64)
		if format, _ := kase["format"].(string); format == "rag" {
			runRagModelDirect(c, int(idx))
		} else {
			runDocModelDirect(c, format, int(idx))
		}
	default:
		direct(c)
	}
}
