package c15

// Document-level correspondence, part 3: the file-based stream, the reading-spec stream and the rag
// streams (see docmodel.go).

import (
	"fmt"
	"strconv"
	"strings"

	"github.com/tsawler/tabula/docx"
	"github.com/tsawler/tabula/htmldoc"
	"github.com/tsawler/tabula/model"
	"github.com/tsawler/tabula/odt"
	"github.com/tsawler/tabula/pptx"
	"github.com/tsawler/tabula/rag"
	"github.com/tsawler/tabula/xlsx"

	"verifharness/hx"
)

// ---------- A. file-based ----------

// docModelFile: the generated file of a document case through every Markdown entry point of its
// format, each call tied to the Lean model on the reader's dumped input.
func docModelFile(c *hx.Ctx, idx int, format, path string, o rag.MarkdownOptions, kase docCase) {
	fi := 0
	for i, f := range docFormats {
		if f == format {
			fi = i
		}
	}
	r := c.Rng.Fork(uint64(70+fi)<<40 | uint64(idx))
	if p := hx.Safe(func() {
		switch format {
		case "docx":
			rd, err := docx.Open(path)
			if err != nil {
				return
			}
			defer rd.Close()
			docxOps(c, rd, r, o, kase, path)
		case "odt":
			rd, err := odt.Open(path)
			if err != nil {
				return
			}
			defer rd.Close()
			odtOps(c, rd, r, o, kase, path)
		case "pptx":
			rd, err := pptx.Open(path)
			if err != nil {
				return
			}
			defer rd.Close()
			pptxOps(c, rd, r, o, kase, path)
		case "xlsx":
			rd, err := xlsx.Open(path)
			if err != nil {
				return
			}
			defer rd.Close()
			xlsxOps(c, rd, r, o, kase, path)
		case "html":
			htmlOps(c, func() *htmldoc.Reader {
				rd, err := htmldoc.Open(path)
				if err != nil {
					panic(err)
				}
				return rd
			}, r, o, kase, path)
		}
	}); p != "" {
		c.Check("C15/panic-docmodel", false, kase, func() string { return format + " document model stream: " + p })
	}
}

// ---------- D. reading spec ----------

var seenReadMD = map[[16]byte]struct{}{}

func encReadMD(d mdDoc) string {
	var hs, is, ts, ps []string
	for _, h := range d.Headings {
		hs = append(hs, fmt.Sprintf("%d:%s", h.Level, hx.HexS(h.Text)))
	}
	for _, it := range d.Items {
		k := "u"
		if it.Ordered {
			k = "o"
		}
		is = append(is, fmt.Sprintf("%d:%s:%s", it.Depth, k, hx.HexS(it.Text)))
	}
	for _, t := range d.Tables {
		if !t.OK {
			ts = append(ts, "none")
		} else {
			ts = append(ts, "ok="+encTable(t.Rows))
		}
	}
	for _, p := range d.Paras {
		ps = append(ps, hx.HexS(p))
	}
	return fmt.Sprintf("h=%s i=%s t=%s p=%s", joinOr(hs, ","), joinOr(is, ","), joinOr(ts, "/"), joinOr(ps, ","))
}

// readmdOp: the harness's Markdown reader (mdread.go) against the Lean reading spec, once per string.
func readmdOp(c *hx.Ctx, md string) {
	k := opKey(md)
	if _, ok := seenReadMD[k]; ok {
		return
	}
	seenReadMD[k] = struct{}{}
	c.Op("c15.readmd "+hx.HexS(md), encReadMD(readMD(md)))
	c.Count("docmodel op c15.readmd")
}

var readmdAtoms = []string{"---", "---", "## Table of Contents", "|", "| a | b |", "|---|---|", "| --- | --- |", "| x |", "|a|b|c|", "# h", "## h two",
	"###### six", "####### x", "#x", "#", "# ", "- i", "* star", "+ plus", "  1. j", "    - deep", "12.x", "12. x", "1.", "-", "- ", "> q", ">q", "", "", " ", "\t",
	"text", "more text here", "*p. 3*", "<!-- chunk: c -->", "title: \"t\"", "1. [a](#a)", "- [b](#b)", " # not", "a | b", "```", "\\| x |"}

// readmdFuzz: line soup from the atoms a generated document is made of, in any order.
func readmdFuzz(c *hx.Ctx) {
	n := c.N(300, 4000)
	for i := 0; i < n; i++ {
		r := c.Rng.Fork(uint64(76)<<40 | uint64(i))
		var lines []string
		for k := r.Range(0, 14); k > 0; k-- {
			lines = append(lines, hx.Pick(r, readmdAtoms))
		}
		md := strings.Join(lines, "\n")
		readmdOp(c, md)
		d := readMD(md)
		c.Count(fmt.Sprintf("readmd fuzz tables=%d", min(len(d.Tables), 3)))
		c.Count(fmt.Sprintf("readmd fuzz headings=%d", min(len(d.Headings), 3)))
		c.Case("readmd "+md, len(d.Headings)+len(d.Items)+len(d.Tables) > 0)
	}
}

// ---------- C. rag ----------

func encChunk(ch *rag.Chunk) string {
	m := ch.Metadata
	tys := "_"
	if len(m.ElementTypes) > 0 {
		ts := make([]string, len(m.ElementTypes))
		for i, t := range m.ElementTypes {
			ts[i] = hx.HexS(t)
		}
		tys = strings.Join(ts, "+")
	}
	return strings.Join([]string{hx.HexS(ch.ID), hx.HexS(ch.Text), hx.HexS(m.SectionTitle), hx.HexS(m.DocumentTitle),
		strconv.Itoa(m.HeadingLevel), strconv.Itoa(m.PageStart), strconv.Itoa(m.PageEnd), strconv.Itoa(m.WordCount),
		b01(m.Level == rag.ChunkLevelSection), tys}, ":")
}

// ragCollectionOps: one collection under one option set: the whole document (md is what
// ToMarkdownWithOptions returned), every chunk with and without its section heading.
func ragCollectionOps(c *hx.Ctx, cc *rag.ChunkCollection, o rag.MarkdownOptions, md string, kase interface{}) {
	ext := newExt()
	var cs []string
	for i, ch := range cc.Chunks {
		if i == 0 {
			ext.q(ch.Metadata.DocumentTitle)
		}
		ext.l(ch.Metadata.SectionTitle)
		cs = append(cs, encChunk(ch))
	}
	oe := encOpts(o)
	mdOp(c, fmt.Sprintf("c15.ragmd %s %s %s", oe, ext.String(), joinOr(cs, "|")), md)
	var each []string
	if p := hx.Safe(func() { each = cc.ToMarkdownChunksWithOptions(o) }); p != "" || len(each) != len(cc.Chunks) {
		c.Check("C15/panic-docmodel", false, kase, func() string { return "ToMarkdownChunksWithOptions: " + p })
		return
	}
	for i, ch := range cc.Chunks {
		mdOp(c, fmt.Sprintf("c15.ragchunk %s %s", oe, cs[i]), each[i])
		var content string
		if p := hx.Safe(func() { content = rag.VerifContentToMarkdown(ch, o) }); p != "" {
			c.Check("C15/panic-docmodel", false, kase, func() string { return "contentToMarkdown: " + p })
			return
		}
		mdOp(c, fmt.Sprintf("c15.ragcontent %s %s", oe, cs[i]), content)
	}
}

func encListItems(ordered bool, items []model.ListItem) string {
	k := "u"
	if ordered {
		k = "o"
	}
	var is []string
	for _, it := range items {
		is = append(is, fmt.Sprintf("%d:%s", it.Level, hx.HexS(it.Text)))
	}
	return k + " " + joinOr(is, ",")
}

// ragModelOps: the collection rag.ChunkDocument builds for an authored document, under the options of a
// rendering runRagDoc already made (md). cc == nil: chunk the document again (the chunker is a function
// of the document).
func ragModelOps(c *hx.Ctx, d Doc, cc *rag.ChunkCollection, o rag.MarkdownOptions, md string, kase interface{}) {
	if cc == nil {
		if p := hx.Safe(func() { cc = rag.ChunkDocument(ragModelDoc(d)) }); p != "" {
			return // reported by the caller's own call
		}
	}
	ragCollectionOps(c, cc, o, md, kase)
	// every authored list against the text of its chunk
	var lists []*rag.Chunk
	for _, ch := range cc.Chunks {
		if len(ch.Metadata.ElementTypes) == 1 && ch.Metadata.ElementTypes[0] == "list" {
			lists = append(lists, ch)
		}
	}
	k := 0
	for _, b := range d.Blocks {
		if b.Kind != "list" {
			continue
		}
		if k >= len(lists) {
			c.Check("C15/docmodel-list-chunk-missing", false, kase, func() string {
				return fmt.Sprintf("%d list chunks for more authored lists", len(lists))
			})
			return
		}
		var items []model.ListItem
		for _, it := range b.Items {
			items = append(items, model.ListItem{Text: it.Text, Level: it.Depth})
		}
		modelOp(c, "c15.raglist "+encListItems(b.Items[0].Ordered, items), hx.HexS(lists[k].Text))
		k++
	}
}

var ragTitles = []string{"", "", "Overview", "Summary | notes", "Übersicht", "Two words", "MiXed Case Title", "日本語の見出し", "# hash", "a  b"}

var ragTexts = []string{"", "Body text.", "Line one\nline two", "| a | b |\n|---|---|\n| c | d |", "- item\n- item", "# looks like a heading", "text with trailing nl\n", "  indented", "*p. 3*", "---"}

func genChunk(r *hx.Rng, i int, docTitle string, allowNegLevel bool) *rag.Chunk {
	title := hx.Pick(r, ragTitles)
	ch := &rag.Chunk{ID: fmt.Sprintf("chunk-%d", i)}
	switch r.Intn(8) {
	case 0:
		ch.ID = ""
	case 1:
		ch.ID = "id with -- dashes"
	}
	switch r.Intn(5) {
	case 0:
		ch.Text = title
	case 1:
		ch.Text = " " + title + " \n"
	case 2:
		ch.Text = title + "."
	default:
		ch.Text = hx.Pick(r, ragTexts)
	}
	m := &ch.Metadata
	m.SectionTitle, m.DocumentTitle = title, docTitle
	if r.Chance(1, 6) {
		m.DocumentTitle = hx.Pick(r, dmMetaStrings) // only the first chunk's title is read
	}
	m.HeadingLevel = r.Range(-1, 8)
	if m.HeadingLevel < 0 && !allowNegLevel {
		m.HeadingLevel = 0
	}
	m.Level = hx.Pick(r, []rag.ChunkLevel{rag.ChunkLevelSection, rag.ChunkLevelParagraph, rag.ChunkLevelParagraph})
	m.ElementTypes = hx.Pick(r, [][]string{nil, {"heading"}, {"heading"}, {"paragraph"}, {"heading", "paragraph"}, {"list"}})
	switch r.Intn(5) {
	case 0: // no page
	case 1:
		m.PageStart, m.PageEnd = -r.Range(1, 3), r.Range(0, 2)
	case 2:
		m.PageStart = r.Range(1, 9)
		m.PageEnd = m.PageStart + r.Range(1, 4)
	case 3:
		m.PageStart, m.PageEnd = r.Range(1, 9), r.Range(0, 3)
	default:
		m.PageStart = r.Range(1, 9)
		m.PageEnd = m.PageStart
	}
	m.WordCount = r.Range(-2, 400)
	return ch
}

// ragModelDirect: arbitrary chunk collections (no chunker in front) and arbitrary lists through the chunker.
func ragModelDirect(c *hx.Ctx) {
	n := c.N(200, 3000)
	for i := 0; i < n; i++ {
		runRagModelDirect(c, i)
	}
}

func runRagModelDirect(c *hx.Ctx, i int) {
	r := c.Rng.Fork(uint64(77)<<40 | uint64(i))
	kase := map[string]interface{}{"kind": "docmodel", "format": "rag", "index": i, "seed": c.Seed}
	o := genModelOptions(r)
	docTitle := hx.Pick(r, dmMetaStrings)
	var chunks []*rag.Chunk
	// negative HeadingLevels included, also under IncludeTableOfContents (generateTableOfContents used to
	// call strings.Repeat with a negative count there: fixed in the worktree, 577f030)
	for k := r.Range(0, 6); k > 0; k-- {
		chunks = append(chunks, genChunk(r, len(chunks), docTitle, true))
	}
	cc := rag.NewChunkCollection(chunks)
	var md string
	if p := hx.Safe(func() { md = cc.ToMarkdownWithOptions(o) }); p != "" {
		c.Check("C15/panic-docmodel", false, kase, func() string { return "ChunkCollection.ToMarkdownWithOptions: " + p })
		return
	}
	ragCollectionOps(c, cc, o, md, kase)
	c.Count(fmt.Sprintf("docmodel rag direct chunks=%d", len(chunks)))
	for _, ch := range chunks {
		c.Count(fmt.Sprintf("docmodel rag direct heading level=%d", ch.Metadata.HeadingLevel))
		c.Count("docmodel rag direct element types=" + strings.Join(ch.Metadata.ElementTypes, "+"))
	}
	c.Count("docmodel rag direct opts meta=" + b01(o.IncludeMetadata) + " toc=" + b01(o.IncludeTableOfContents))
	c.Count("docmodel rag direct opts seps=" + b01(o.IncludeChunkSeparators) + " pages=" + b01(o.IncludePageNumbers) + " ids=" + b01(o.IncludeChunkIDs))
	// a list of arbitrary levels through rag.ChunkDocument
	l := &model.List{Ordered: r.Bool()}
	for k := r.Range(0, 7); k > 0; k-- {
		l.Items = append(l.Items, model.ListItem{Text: hx.Pick(r, dmTexts), Level: r.Range(-1, 4), Bullet: "•"})
	}
	doc := model.NewDocument()
	page := model.NewPage(612, 792)
	page.AddElement(l)
	doc.AddPage(page)
	var lc *rag.ChunkCollection
	if p := hx.Safe(func() { lc = rag.ChunkDocument(doc) }); p != "" {
		c.Check("C15/panic-docmodel", false, kase, func() string { return "ChunkDocument(list): " + p })
		return
	}
	if c.Check("C15/docmodel-list-chunk-missing", len(lc.Chunks) == 1, kase, func() string {
		return fmt.Sprintf("a document of one list gives %d chunks", len(lc.Chunks))
	}) {
		modelOp(c, "c15.raglist "+encListItems(l.Ordered, l.Items), hx.HexS(lc.Chunks[0].Text))
		c.Count(fmt.Sprintf("docmodel rag direct list items=%d", len(l.Items)))
		// statement level ("list items keep their ... nesting depth"): a list whose first item is nested
		// (a list that continues on a new page) still shows that item at its depth (createListChunk used
		// to end with strings.TrimSpace: fixed in the worktree, efed37d)
		if len(l.Items) > 0 && l.Items[0].Level > 0 {
			want := strings.Repeat("  ", l.Items[0].Level)
			c.Check("C15/list-depth-ragdoc-first-item-nested", strings.HasPrefix(lc.Chunks[0].Text, want+"-") || strings.HasPrefix(lc.Chunks[0].Text, want+"1."), kase, func() string {
				return fmt.Sprintf("first item at depth %d, list chunk text starts %q", l.Items[0].Level, lc.Chunks[0].Text[:min(len(lc.Chunks[0].Text), 40)])
			})
			c.Count("docmodel rag direct list first item nested")
		}
	}
	c.Case(fmt.Sprint("ragdirect", i, md), len(chunks) > 0)
}
