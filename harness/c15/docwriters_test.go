package c15

import (
	"archive/zip"
	"bytes"
	"encoding/xml"
	"io"
	"os"
	"path/filepath"
	"strings"
	"testing"

	"github.com/tsawler/tabula"
	"github.com/tsawler/tabula/docx"
	"github.com/tsawler/tabula/htmldoc"
	"github.com/tsawler/tabula/odt"
	"github.com/tsawler/tabula/pptx"
)

func sampleDoc() Doc {
	c := func(s string) Cell { return Cell{Text: s, ColSpan: 1, RowSpan: 1} }
	return Doc{Title: "Sample & Title", Author: "A. <Writer>", Blocks: []Block{
		{Kind: "heading", Level: 1, Text: "First heading"},
		{Kind: "para", Text: "First paragraph, plain text."},
		{Kind: "list", Items: []Item{{0, false, "bullet zero"}, {1, true, "ordered one"}, {2, false, "bullet two"}}},
		{Kind: "heading", Level: 3, Text: "Second heading"},
		{Kind: "para", Text: "Second paragraph & <more>."},
		{Kind: "table", Rows: [][]Cell{
			{c("H1"), c("H2"), c("H3")},
			{c("a|b"), c("x\ny"), c("")},
			{{Text: "wide", ColSpan: 2, RowSpan: 1}, c("last")},
		}},
	}}
}

// mergeDoc exercises vertical merges, depth jumps and kind changes (well-formedness / no panic).
func mergeDoc() Doc {
	c := func(s string) Cell { return Cell{Text: s, ColSpan: 1, RowSpan: 1} }
	return Doc{Title: "m", Author: "m", Blocks: []Block{
		{Kind: "para", Text: "  no heading first,  two  spaces "},
		{Kind: "list", Items: []Item{{2, true, "deep first"}, {0, true, "n0"}, {0, false, "b0"}, {1, false, "b1"}, {1, true, "n1"}, {0, false, "b0 again"}}},
		{Kind: "table", Rows: [][]Cell{
			{{Text: "tall", ColSpan: 2, RowSpan: 2}, c("r0")},
			{{ColSpan: 2, RowSpan: 1, VCont: true}, c("r1")},
			{c("p"), {Text: "v", ColSpan: 1, RowSpan: 2}, c("q")},
			{c("s"), {ColSpan: 1, RowSpan: 1, VCont: true}, c(" t ")},
		}},
		{Kind: "heading", Level: 6, Text: "H6 after table"},
		{Kind: "list", Items: []Item{{0, true, "second list one"}, {0, true, "second list two"}}},
	}}
}

func checkXMLParts(t *testing.T, name string, data []byte) {
	zr, err := zip.NewReader(bytes.NewReader(data), int64(len(data)))
	if err != nil {
		t.Fatalf("%s: zip: %v", name, err)
	}
	for _, f := range zr.File {
		if !strings.HasSuffix(f.Name, ".xml") && !strings.HasSuffix(f.Name, ".rels") {
			continue
		}
		rc, _ := f.Open()
		raw, _ := io.ReadAll(rc)
		rc.Close()
		dec := xml.NewDecoder(bytes.NewReader(raw))
		for {
			if _, err := dec.Token(); err == io.EOF {
				break
			} else if err != nil {
				t.Fatalf("%s: %s not well-formed: %v", name, f.Name, err)
			}
		}
	}
}

func writeAll(t *testing.T, d Doc) map[string]string {
	dir := t.TempDir()
	out := map[string]string{}
	for ext, data := range map[string][]byte{"docx": WriteDOCX(d), "odt": WriteODT(d), "pptx": WritePPTX(d), "html": WriteHTML(d)} {
		if ext != "html" {
			checkXMLParts(t, ext, data)
		}
		p := filepath.Join(dir, "doc."+ext)
		if err := os.WriteFile(p, data, 0o644); err != nil {
			t.Fatal(err)
		}
		out[ext] = p
	}
	return out
}

func testReaderMarkdown(t *testing.T, ext, p string) string {
	var md string
	var err error
	switch ext {
	case "docx":
		r, e := docx.Open(p)
		if e != nil {
			t.Fatal(e)
		}
		defer r.Close()
		md, err = r.Markdown()
		if m := r.Metadata(); m.Title != "Sample & Title" || m.Author != "A. <Writer>" {
			t.Errorf("docx metadata %+v", m)
		}
	case "odt":
		r, e := odt.Open(p)
		if e != nil {
			t.Fatal(e)
		}
		defer r.Close()
		md, err = r.Markdown()
		if m := r.Metadata(); m.Title != "Sample & Title" || m.Author != "A. <Writer>" {
			t.Errorf("odt metadata %+v", m)
		}
	case "pptx":
		r, e := pptx.Open(p)
		if e != nil {
			t.Fatal(e)
		}
		defer r.Close()
		md, err = r.Markdown()
		if m := r.Metadata(); m.Title != "Sample & Title" || m.Author != "A. <Writer>" {
			t.Errorf("pptx metadata %+v", m)
		}
	case "html":
		r, e := htmldoc.Open(p)
		if e != nil {
			t.Fatal(e)
		}
		defer r.Close()
		md, err = r.Markdown()
		if m := r.Metadata(); m.Title != "Sample & Title" || m.Author != "A. <Writer>" {
			t.Errorf("html metadata %+v", m)
		}
	}
	if err != nil {
		t.Fatal(err)
	}
	return md
}

func TestWritersSample(t *testing.T) {
	paths := writeAll(t, sampleDoc())
	for _, ext := range []string{"docx", "odt", "pptx", "html"} {
		direct := testReaderMarkdown(t, ext, paths[ext])
		md, _, err := tabula.Open(paths[ext]).ToMarkdown()
		if err != nil {
			t.Fatalf("%s: tabula.Open: %v", ext, err)
		}
		t.Logf("===== %s (tabula.Open.ToMarkdown) =====\n%s\n===== end %s =====", ext, md, ext)
		if strings.TrimSpace(direct) != strings.TrimSpace(md) {
			t.Logf("%s: reader.Markdown() differs from tabula.Open().ToMarkdown():\n%s", ext, direct)
		}
		h2 := "### Second heading"
		if ext == "pptx" {
			h2 = "# Second heading" // slide titles have no level
		}
		want := []string{"# First heading", h2, "First paragraph, plain text.", "Second paragraph & <more>.", "- bullet zero", "| H1 | H2 | H3 |", `a\|b`, "x y", "wide", "last"}
		switch ext {
		case "docx", "odt", "pptx": // kinds per item are visible
			want = append(want, "  1. ordered one", "    - bullet two")
		case "html": // whole list follows the root kind
			want = append(want, "  - ordered one", "    - bullet two")
		}
		for _, w := range want {
			if !strings.Contains(md, w) {
				t.Errorf("%s: markdown lacks %q", ext, w)
			}
		}
	}
}

func TestWritersMerges(t *testing.T) {
	d := mergeDoc()
	paths := writeAll(t, d)
	for _, ext := range []string{"docx", "odt", "pptx", "html"} {
		md, _, err := tabula.Open(paths[ext]).ToMarkdown()
		if err != nil {
			t.Fatalf("%s: %v", ext, err)
		}
		t.Logf("===== %s =====\n%s", ext, md)
		for _, w := range []string{"tall", "r1", "H6 after table", "deep first", "b0 again", "second list two"} {
			if !strings.Contains(md, w) {
				t.Errorf("%s: markdown lacks %q", ext, w)
			}
		}
	}
	if ODTListExpressible(d.Blocks[1].Items) || !ODTListExpressible(sampleDoc().Blocks[2].Items) {
		t.Error("ODTListExpressible")
	}
}
