package c15

// Stream 4, the heading sweep: the property's heading clause over its whole quantifier.
//
// For each format a document is authored that carries a heading of EVERY level the format can
// express (DOCX 1..9, ODT 1..10, HTML 1..6, PPTX slide titles; each in a random spelling of the
// writer, in random order, with paragraphs, lists and tables in between), and that one file is read
// under EVERY heading configuration (offset -2..+7 x max 1..6 and max 0 = unset; metadata and TOC
// flags cycle) through every Markdown entry point: <format>.Reader.MarkdownWithRAGOptions,
// tabula.Open(f).ToMarkdownWithOptions, and once per file Reader.Markdown,
// Reader.MarkdownWithOptions and tabula.Open(f).ToMarkdown (default options). The expected level
// of every heading is clampLevel(authored level, offset, max) — the property's formula applied to
// the level the harness wrote into the file, never to anything tabula reports.

import (
	"fmt"
	"os"
	"path/filepath"

	"github.com/tsawler/tabula"
	"github.com/tsawler/tabula/docx"
	"github.com/tsawler/tabula/htmldoc"
	"github.com/tsawler/tabula/odt"
	"github.com/tsawler/tabula/pptx"
	"github.com/tsawler/tabula/rag"
	"github.com/tsawler/tabula/xlsx"

	"verifharness/hx"
)

// genSweepDoc: every expressible level at least once.
func genSweepDoc(r *hx.Rng, format string) Doc {
	d := Doc{Title: "Sweep " + hx.Pick(r, docWords), Author: "A. Writer"}
	if format == "xlsx" { // no source headings: only the 1..6 range of tabula's own sheet headings is checked
		for k := r.Range(1, 2); k > 0; k-- {
			d.Blocks = append(d.Blocks, Block{Kind: "table", Rows: genDocTable(r, false)})
		}
		return d
	}
	var levels []int
	for l := 1; l <= MaxSourceLevel(format); l++ {
		levels = append(levels, l)
	}
	for k := r.Range(2, 4); k > 0; k-- {
		levels = append(levels, r.Range(1, MaxSourceLevel(format)))
	}
	hx.Shuffle(r, levels)
	n := 0
	para := func() {
		n++
		d.Blocks = append(d.Blocks, Block{Kind: "para", Text: genText(r, "Para", n)})
	}
	if r.Bool() {
		para()
	}
	for _, l := range levels {
		n++
		d.Blocks = append(d.Blocks, Block{Kind: "heading", Level: l, Via: r.Intn(HeadingVias(format)), Text: genText(r, "Head", n)})
		switch r.Intn(8) {
		case 0, 1: // the next heading follows directly
		case 2:
			var items []Item
			ordered := r.Bool()
			for k := r.Range(1, 3); k > 0; k-- {
				n++
				items = append(items, Item{Ordered: ordered, Text: genText(r, "Item", n)})
			}
			d.Blocks = append(d.Blocks, Block{Kind: "list", Items: items})
			para()
		case 3:
			d.Blocks = append(d.Blocks, Block{Kind: "table", Rows: genDocTable(r, false)})
		default:
			para()
		}
	}
	return d
}

// sweepOptions: all 70 heading configurations; the two document flags cycle so that each is seen
// on and off with every offset and with every maximum.
func sweepOptions() []rag.MarkdownOptions {
	var out []rag.MarkdownOptions
	k := 0
	for max := 0; max <= 6; max++ {
		for off := -2; off <= 7; off++ {
			o := rag.DefaultMarkdownOptions()
			o.HeadingLevelOffset, o.MaxHeadingLevel = off, max
			o.IncludeMetadata = k%2 == 1
			o.IncludeTableOfContents = k%3 == 1
			out = append(out, o)
			k++
		}
	}
	return out
}

// optionsMarkdown goes through <format>.Reader.MarkdownWithOptions (extraction options only).
func optionsMarkdown(format, path string) (string, error) {
	switch format {
	case "docx":
		rd, err := docx.Open(path)
		if err != nil {
			return "", err
		}
		defer rd.Close()
		return rd.MarkdownWithOptions(docx.ExtractOptions{})
	case "odt":
		rd, err := odt.Open(path)
		if err != nil {
			return "", err
		}
		defer rd.Close()
		return rd.MarkdownWithOptions(odt.ExtractOptions{})
	case "pptx":
		rd, err := pptx.Open(path)
		if err != nil {
			return "", err
		}
		defer rd.Close()
		return rd.MarkdownWithOptions(pptx.ExtractOptions{IncludeNotes: true, IncludeTitles: true})
	case "html":
		rd, err := htmldoc.Open(path)
		if err != nil {
			return "", err
		}
		defer rd.Close()
		return rd.MarkdownWithOptions(htmldoc.ExtractOptions{})
	}
	rd, err := xlsx.Open(path)
	if err != nil {
		return "", err
	}
	defer rd.Close()
	return rd.MarkdownWithOptions(xlsx.ExtractOptions{})
}

func runSweepDoc(c *hx.Ctx, idx int, format string, keep bool) {
	fi := 0
	for i, f := range docFormats {
		if f == format {
			fi = i
		}
	}
	r := c.Rng.Fork(uint64(16+fi)<<40 | uint64(idx))
	d := genSweepDoc(r, format)
	decorateDoc(c.Rng.Fork(uint64(32+fi)<<40|uint64(idx)), &d, format)
	path := filepath.Join(c.OutDir, fmt.Sprintf("c15-sweep-%d.%s", idx, format))
	os.WriteFile(path, writeDoc(format, d), 0o644)
	kase := docCase{Kind: "hsweep", Seed: c.Seed, Index: idx, Format: format}
	if keep {
		kase.File = path
	} else {
		defer os.Remove(path)
	}
	dedupOps = true
	defer func() { dedupOps = false }()

	// the entry points without heading options: source levels, only the 1..6 range applies
	plain := []struct {
		via string
		o   rag.MarkdownOptions
		f   func() (string, error)
	}{
		{"Reader.Markdown", rag.MarkdownOptions{MaxHeadingLevel: 6}, func() (string, error) { return plainMarkdown(format, path) }},
		{"Reader.MarkdownWithOptions", rag.MarkdownOptions{MaxHeadingLevel: 6}, func() (string, error) { return optionsMarkdown(format, path) }},
		{"tabula.Open.ToMarkdown", rag.DefaultMarkdownOptions(), func() (string, error) {
			md, _, err := tabula.Open(path).ToMarkdown()
			return md, err
		}},
	}
	for _, p := range plain {
		k := kase
		k.Opt = p.via
		var md string
		var err error
		if pn := hx.Safe(func() { md, err = p.f() }); pn != "" {
			c.Check("C15/panic", false, k, func() string { return format + " " + p.via + ": " + pn })
			continue
		}
		if !c.Check("C15/open-"+format, err == nil, k, func() string { return fmt.Sprint(p.via, ": ", err) }) {
			return
		}
		checkDocument(c, format, d, p.o, md, k, p.via)
	}
	for _, o := range sweepOptions() {
		k := kase
		k.Opt = fmt.Sprintf("offset=%d max=%d meta=%v toc=%v", o.HeadingLevelOffset, o.MaxHeadingLevel, o.IncludeMetadata, o.IncludeTableOfContents)
		var md1, md2 string
		var err1, err2 error
		if pn := hx.Safe(func() {
			md1, err1 = readerMarkdown(format, path, o)
			md2, _, err2 = tabula.Open(path).ToMarkdownWithOptions(o)
		}); pn != "" {
			c.Check("C15/panic", false, k, func() string { return format + " markdown: " + pn })
			continue
		}
		if !c.Check("C15/open-"+format, err1 == nil && err2 == nil, k, func() string { return fmt.Sprint(err1, " / ", err2) }) {
			return
		}
		checkDocument(c, format, d, o, md1, k, "Reader.MarkdownWithRAGOptions")
		if md2 != md1 {
			checkDocument(c, format, d, o, md2, k, "tabula.Open.ToMarkdownWithOptions")
		}
		c.Count("sweep " + format + " configurations")
	}
	// the same configurations once more, all on ONE Reader in random order (history.go)
	runHistory(c, format, path, d, sweepHistory(c.Rng.Fork(uint64(64+fi)<<40|uint64(idx))), kase)
	for _, b := range d.Blocks {
		if b.Kind == "heading" {
			c.Count(fmt.Sprintf("sweep %s heading level=%d", format, b.Level))
			c.Count(fmt.Sprintf("sweep %s heading via=%d", format, b.Via))
		}
	}
	c.Case("sweep "+format+fmt.Sprint(d), format != "xlsx")
}

func headingSweep(c *hx.Ctx) {
	n := c.N(2, 16)
	for _, format := range docFormats {
		for i := 0; i < n; i++ {
			runSweepDoc(c, i, format, false)
		}
	}
}
