package c15

// Independent minimal document writers (DOCX, ODT, PPTX, HTML) written from the format
// specifications (ECMA-376 WordprocessingML/PresentationML/DrawingML, ODF 1.2, HTML5); nothing
// here shares code with tabula. Facts about the tabula readers that a generator must know
// (found by reading /docx, /odt, /pptx, /htmldoc; none of them is worked around here):
//
//   - DOCX: a heading is recognised from the style id HeadingN / style name "heading N" /
//     the style's outlineLvl (all three are written for the built-in styles, N = 1..9), from an
//     outlineLvl of the paragraph itself, and through w:basedOn chains; Block.Via picks one of the
//     four spellings. Ordered vs bullet comes from numbering.xml
//     (numId -> abstractNum -> lvl/numFmt). Every list block gets its own pair of w:num instances
//     (bullet numId 2k+1, decimal numId 2k+2 for the k-th list block) so separate lists are separate
//     lists per the spec; an item picks the numId by its own Ordered flag and ilvl=Depth. tabula
//     prints a blank line whenever the numId changes between consecutive items.
//   - ODT: a text:h carries its level in text:outline-level (1..10); tabula prefers the
//     default-outline-level of the paragraph style when it has one (the writer never makes the two
//     disagree). Block.Via 0 uses the predefined style "Heading N", 1 a style without outline level.
//     tabula only honours the style-name of the OUTERMOST text:list (nested style-names are
//     ignored, ODTNestedKindFollowsRoot); the kind of a nested item is root-style x level. A
//     text:list-style has one kind per level, so WriteODT gives the root list a style whose levels
//     match the items ("LB" all bullet, "LN" all number, else an automatic style "LM<b|n per depth>");
//     this expresses every list in which Ordered is a function of Depth (ODTListExpressible). For
//     other lists the nested list carries the spec-correct text:style-name override, which tabula
//     ignores. tabula's ordered counters are keyed by (style name, level) and never reset.
//     Spaces that ODF would collapse (leading, or after another space) are written as <text:s/>,
//     which tabula drops (only visible for runs of >=2 spaces; cell text is trimmed anyway).
//   - PPTX: a paragraph is numbered iff a:pPr has a:buAutoNum, bulleted iff it has a:buChar (or
//     lvl>0 without buNone), plain otherwise; numbered items always print as "1.". Every slide
//     title prints as "# " (no levels). Tables of a slide are printed after ALL its text whatever
//     the shape order. Slides are found by file name ppt/slides/slideN.xml (sldIdLst is ignored).
//     The package has no slideMaster/slideLayout/theme parts (structure readers do not need them;
//     PowerPoint itself would ask to repair such a file).
//   - HTML: the whole list (all depths) is printed with the kind of the ROOT <ul>/<ol>
//     (HTMLNestedKindFollowsRoot). Before fix 72cc329 rows were printed with one Markdown cell
//     per <td>/<th> (colspan and rowspan not expanded); now the table's grid is. HTML forbids a rowspan leaving its row group, so if a first-row
//     cell has RowSpan>1 all rows go into <tbody> (first row still <th>), otherwise row 0 is <thead>
//     (the default spelling; Block.Head chooses others, see Head and htmlTable).

import (
	"fmt"
	"strings"

	"verifharness/hx"
	"verifharness/writers"
)

// Cell is one authored table cell. ColSpan>=1 (1 = no merge). VCont marks a cell that continues a
// vertical merge from the row above (DOCX <w:vMerge/>, ODT covered-table-cell, PPTX vMerge="1", HTML: cell omitted and rowspan on the root).
type Cell struct {
	Text    string // may contain '\n' (paragraph break inside the cell), '|', leading/trailing spaces, unicode, backslashes (also in front of a pipe)
	ColSpan int
	VCont   bool
	RowSpan int // >=1 on a vertical-merge root (number of rows), else 1
}
type Item struct {
	Depth   int // 0-based nesting depth
	Ordered bool
	Text    string
}
type Block struct {
	Kind  string // "heading", "para", "list", "table"
	Level int    // heading level as authored: 1..MaxSourceLevel(format) (PPTX: ignored, slide titles have no level)
	Via   int    // how the heading level is expressed in the file, 0..HeadingVias(format)-1 (see WriteDOCX, WriteODT)
	Text  string // heading / paragraph text (single line)
	Items []Item
	Rows  [][]Cell
	Head  Head  // table: which rows / cells the source marks as header
	At    Place // table of a worksheet: where on the sheet it lies
	Cols  Cols  // table: how the source declares the table's columns
}

// Cols says how the source declares the columns of an authored table, beside its rows (ODT
// <table:table-column>, DOCX <w:tblGrid>, PPTX <a:tblGrid>, HTML <colgroup>/<col>). The zero value is
// the spelling the writers had before the field existed (one declaration that covers exactly the
// grid; HTML: none). A column declaration carries widths and styles; it never changes what the table
// IS: the rows x columns of cell texts its rows hold. In particular a declaration that names FEWER
// columns than the rows have cells (a generator that writes one <table:table-column/> whatever the
// width, a grid that was not updated when a column was added; in HTML the table model says outright
// that the column count is the maximum of both) takes no cell away: no body text may be lost.
// Declarations of MORE columns than the rows have are not generated (whether those are empty columns
// of the table is not said by the property text).
//
//	Via 0: exact, the compact spelling (ODT number-columns-repeated="N"; DOCX / PPTX N gridCol; HTML none)
//	Via 1: exact, one element per column (HTML: <colgroup> with N <col>)
//	Via 2: exact, grouped (ODT: <table:table-header-columns> with the first column, <table:table-columns>
//	       with the rest; HTML: <colgroup span="N">; DOCX / PPTX: as Via 1)
//	Via 3: no declaration (ODT: none — ODF 1.2 9.1.2 wants one, documents in the wild lack it; DOCX / PPTX:
//	       an empty grid element; HTML: none)
//	Via 4: Short columns declared, 1 <= Short < width, one element per column
//	Via 5: Short columns declared through a repeat count (ODT number-columns-repeated="Short", HTML
//	       <col span="Short">; DOCX / PPTX as Via 4)
type Cols struct {
	Via   int
	Short int
}

// ColsVias is the number of spellings of a column declaration the writers have.
const ColsVias = 6

// declared returns how many columns the declaration names for a grid of the given width and whether
// there is a declaration at all.
func (c Cols) declared(width int) (n int, any bool) {
	switch c.Via {
	case 3:
		return 0, false
	case 4, 5:
		return min(max(c.Short, 1), max(width-1, 1)), true
	}
	return width, true
}

// NumSpelling says how WriteDOCX spells numbering.xml (ECMA-376 17.9). The zero value is the spelling
// the writer had before the field existed: two abstract numberings (all nine levels bullet / all nine
// levels decimal, written ilvl 0..8 in order, abstractNumId 0 and 1) shared by a pair of w:num per
// list block. None of the spellings changes what a list IS: a <w:lvl> is identified by its w:ilvl
// attribute (17.9.6), an abstractNum by its w:abstractNumId, not by their position in the file.
//
//   - Own: a list block whose kind is a function of the depth (every list genDoc makes) gets ONE w:num
//     with an abstract numbering of its own whose levels have the kinds of the block, bullet and
//     decimal levels mixed as in Word's multilevel lists; the levels no item uses get the kind the
//     deepest used level does NOT have.
//   - Order: the order of the <w:lvl> elements inside every abstractNum: 0 ascending by ilvl, 1
//     descending, 2 shuffled (from Perm).
//   - Sparse: only the levels some item uses are defined (own numberings only).
//   - IDs: 0 abstractNumId 0,1,2,.. in file order; 1 ids 10,13,16,.. and the elements written in
//     descending id order, the w:num elements last-to-first as well.
type NumSpelling struct {
	Own    bool
	Order  int
	Sparse bool
	IDs    int
	Perm   uint64
}

// Place says where on its worksheet an authored table lies (XLSX only; the other formats have no
// coordinates). The zero value is the table with its first cell in A1 and nothing else on the sheet,
// which is all the writer did before the field existed. A sheet's table is its used range (the first
// and the last cell of an authored grid are never empty), so the position never changes what the
// table IS: the same rows x columns of cell texts, the first authored row being the header line.
//
//   - Row, Col: number of blank rows above / blank columns left of the table (a title that was
//     removed, a spacer row, a report that starts in B3).
//   - Blank: how the blank rows above are spelled. 0: no <row> elements at all (sheetData starts at
//     r="Row+1"; ECMA-376 18.3.1.73: rows without content need not be written); 1: empty
//     <row r="k"></row> elements (a row that only carries a height or a style); 2: rows of value-less
//     cells <c r="A1"></c> (18.3.1.4: a cell without <v>/<is> is blank — what a formatted but empty
//     cell looks like), and the same value-less cells left of the table in its own rows.
//   - Below: the same kind of blank row follows the table, and (Blank 2) a value-less cell follows the
//     last cell of every table row.
type Place struct {
	Row, Col int
	Blank    int
	Below    bool
}

// PlaceBlanks is the number of spellings of a blank row the XLSX writer has.
const PlaceBlanks = 3

// Head says which part of an authored table the source marks as its header. The zero value is the
// spelling the writers had before the field existed (HTML: row 0 in <thead> with <th> cells, no
// marking elsewhere). A header marking never changes what the table IS: the same rows x columns of
// cell texts; a pipe table can show one header line only, the other rows are ordinary rows.
//
//   - HTML: Rows leading rows are header rows. Via 0: inside <thead>, cells <th>; Via 1: inside
//     <thead>, cells <td>; Via 2: no <thead>, all rows in one <tbody>, header rows made of <th>; Via 3:
//     bare <tr> children of <table> (the parser supplies the tbody), header rows made of <th>. RowHead:
//     the first cell of every body row is <th scope="row">. Foot: the last row is in <tfoot>.
//     A rowspan may not leave its row group (HTML 4.9.11), so WriteHTML falls back to Via 2 when a
//     vertical merge crosses the thead / tfoot boundary.
//   - DOCX: the Rows leading rows carry <w:trPr><w:tblHeader/></w:trPr> (ECMA-376 17.4.49, "repeat as
//     header row": only meaningful on a leading run of rows).
//   - ODT: the Rows leading rows are wrapped in <table:table-header-rows> (ODF 1.2 part 1, 9.2.2);
//     Via 1 additionally wraps the remaining rows in <table:table-rows> (9.2.5).
//   - PPTX: a:tblPr firstRow="1" iff Rows >= 1 (DrawingML has no multi-row header).
type Head struct {
	Set     bool
	Rows    int
	Via     int
	RowHead bool
	Foot    bool
}

// HeadVias is the number of spellings of a table header the writer of the format has.
func HeadVias(format string) int {
	switch format {
	case "html":
		return 4
	case "odt":
		return 2
	}
	return 1
}

// MaxSourceLevel is the deepest heading level the format can express: WordprocessingML has the
// built-in styles "heading 1".."heading 9" and w:outlineLvl 0..8 (ECMA-376 17.3.1.20: 9 = body text);
// ODF 1.2 text:outline-level is a positiveInteger and outline styles have levels 1..10 (the
// predefined paragraph styles are "Heading 1".."Heading 10"); HTML has h1..h6; a slide title has no
// level (tabula writes it at level 1).
func MaxSourceLevel(format string) int {
	switch format {
	case "docx":
		return 9
	case "odt":
		return 10
	case "html":
		return 6
	}
	return 1
}

// HeadingVias is the number of ways the writer of the format can express a heading of a given level.
func HeadingVias(format string) int {
	switch format {
	case "docx":
		return 4
	case "odt":
		return 2
	}
	return 1
}

type Doc struct {
	Title, Author string
	Blocks        []Block
	Num           NumSpelling // DOCX: how numbering.xml is spelled
	Breaks        []int       // indices of the blocks that begin a new page (paged sources only: ragdocs.go)
}

// ODTNestedKindFollowsRoot: tabula/odt ignores text:style-name on nested lists (see top comment).
const ODTNestedKindFollowsRoot = true

// HTMLNestedKindFollowsRoot: tabula/htmldoc prints every item with the root list's kind.
const HTMLNestedKindFollowsRoot = true

// ODTListExpressible reports whether tabula/odt can see the kinds of this list block, i.e.
// whether Ordered is a function of Depth within every root list of the block.
func ODTListExpressible(items []Item) bool {
	for i := 0; i < len(items); {
		_, ok, n := odtPattern(items[i:])
		if !ok {
			return false
		}
		i += n
	}
	return true
}

var esc = writers.XMLEsc

const xmlHdr = `<?xml version="1.0" encoding="UTF-8" standalone="yes"?>` + "\n"

func span(c Cell) int {
	if c.ColSpan > 1 {
		return c.ColSpan
	}
	return 1
}

func gridCols(rows [][]Cell) int {
	n := 0
	for _, r := range rows {
		w := 0
		for _, c := range r {
			w += span(c)
		}
		if w > n {
			n = w
		}
	}
	return n
}

func member(name, data string) writers.Member { return writers.Member{Name: name, Data: []byte(data)} }

func coreXML(d Doc) string {
	return xmlHdr + `<cp:coreProperties xmlns:cp="http://schemas.openxmlformats.org/package/2006/metadata/core-properties" xmlns:dc="http://purl.org/dc/elements/1.1/" xmlns:dcterms="http://purl.org/dc/terms/" xmlns:xsi="http://www.w3.org/2001/XMLSchema-instance">` +
		`<dc:title>` + esc(d.Title) + `</dc:title><dc:creator>` + esc(d.Author) + `</dc:creator></cp:coreProperties>`
}

const (
	relNS    = "http://schemas.openxmlformats.org/package/2006/relationships"
	relDoc   = "http://schemas.openxmlformats.org/officeDocument/2006/relationships"
	relCore  = "http://schemas.openxmlformats.org/package/2006/relationships/metadata/core-properties"
	ctCore   = "application/vnd.openxmlformats-package.core-properties+xml"
	ctPrefix = "application/vnd.openxmlformats-officedocument."
)

func rels(entries ...[3]string) string { // id, type, target
	var b strings.Builder
	b.WriteString(xmlHdr + `<Relationships xmlns="` + relNS + `">`)
	for _, e := range entries {
		fmt.Fprintf(&b, `<Relationship Id="%s" Type="%s" Target="%s"/>`, e[0], e[1], e[2])
	}
	return b.String() + `</Relationships>`
}

func contentTypes(overrides ...[2]string) string { // part name, content type
	var b strings.Builder
	b.WriteString(xmlHdr + `<Types xmlns="http://schemas.openxmlformats.org/package/2006/content-types">` +
		`<Default Extension="rels" ContentType="application/vnd.openxmlformats-package.relationships+xml"/><Default Extension="xml" ContentType="application/xml"/>`)
	for _, o := range overrides {
		fmt.Fprintf(&b, `<Override PartName="%s" ContentType="%s"/>`, o[0], o[1])
	}
	return b.String() + `</Types>`
}

// ---------------------------------------------------------------- DOCX

const wNS = `xmlns:w="http://schemas.openxmlformats.org/wordprocessingml/2006/main"`

func wRun(s string) string {
	if s == "" {
		return ""
	}
	return `<w:r><w:t xml:space="preserve">` + esc(s) + `</w:t></w:r>`
}

func wPara(ppr, text string) string {
	if ppr != "" {
		ppr = `<w:pPr>` + ppr + `</w:pPr>`
	}
	return `<w:p>` + ppr + wRun(text) + `</w:p>`
}

func WriteDOCX(d Doc) []byte {
	var b strings.Builder
	b.WriteString(xmlHdr + `<w:document ` + wNS + `><w:body>`)
	// numbering: abstracts[0] / abstracts[1] are the shared all-bullet / all-decimal definitions,
	// nums[i] is the index of the abstract numbering w:num numId=i+1 instantiates
	abstracts := []docxAbstract{sharedAbstract(false), sharedAbstract(true)}
	var nums []int
	for _, bl := range d.Blocks {
		switch bl.Kind {
		case "heading":
			// four spellings of "this paragraph is a heading of level N" (ECMA-376 17.3.1.20, 17.7.4.17):
			switch bl.Via {
			default: // the built-in style "heading N" (styleId HeadingN, w:outlineLvl N-1 in the style)
				b.WriteString(wPara(fmt.Sprintf(`<w:pStyle w:val="Heading%d"/>`, bl.Level), bl.Text))
			case 1: // direct formatting: w:outlineLvl N-1 on a Normal paragraph
				b.WriteString(wPara(fmt.Sprintf(`<w:outlineLvl w:val="%d"/>`, bl.Level-1), bl.Text))
			case 2: // a custom style with its own w:outlineLvl N-1 (no heading-like id or name)
				b.WriteString(wPara(fmt.Sprintf(`<w:pStyle w:val="Kapitel%d"/>`, bl.Level), bl.Text))
			case 3: // a custom style based on the built-in one (outline level inherited through w:basedOn)
				b.WriteString(wPara(fmt.Sprintf(`<w:pStyle w:val="Abschnitt%d"/>`, bl.Level), bl.Text))
			}
		case "para":
			b.WriteString(wPara("", bl.Text))
		case "list":
			own, expressible := ownAbstract(bl.Items, d.Num.Sparse)
			if d.Num.Own && expressible { // one w:num of its own, the kinds are the levels' (see NumSpelling)
				abstracts = append(abstracts, own)
				nums = append(nums, len(abstracts)-1)
			} else { // a pair of w:num: bullet, decimal
				nums = append(nums, 0, 1)
			}
			for _, it := range bl.Items {
				id := len(nums)
				if !(d.Num.Own && expressible) && !it.Ordered {
					id--
				}
				b.WriteString(wPara(fmt.Sprintf(`<w:pStyle w:val="ListParagraph"/><w:numPr><w:ilvl w:val="%d"/><w:numId w:val="%d"/></w:numPr>`, it.Depth, id), it.Text))
			}
		case "table":
			declared, _ := bl.Cols.declared(gridCols(bl.Rows))
			b.WriteString(`<w:tbl><w:tblPr><w:tblW w:w="0" w:type="auto"/></w:tblPr><w:tblGrid>` + strings.Repeat(`<w:gridCol w:w="2000"/>`, declared) + `</w:tblGrid>`)
			for ri, row := range bl.Rows {
				b.WriteString(`<w:tr>`)
				if bl.Head.Set && ri < bl.Head.Rows {
					b.WriteString(`<w:trPr><w:tblHeader/></w:trPr>`)
				}
				for _, c := range row {
					fmt.Fprintf(&b, `<w:tc><w:tcPr><w:tcW w:w="%d" w:type="dxa"/>`, 2000*span(c))
					if span(c) > 1 {
						fmt.Fprintf(&b, `<w:gridSpan w:val="%d"/>`, span(c))
					}
					if c.VCont {
						b.WriteString(`<w:vMerge/></w:tcPr><w:p/></w:tc>`)
						continue
					}
					if c.RowSpan > 1 {
						b.WriteString(`<w:vMerge w:val="restart"/>`)
					}
					b.WriteString(`</w:tcPr>`)
					for _, part := range strings.Split(c.Text, "\n") {
						b.WriteString(wPara("", part))
					}
					b.WriteString(`</w:tc>`)
				}
				b.WriteString(`</w:tr>`)
			}
			b.WriteString(`</w:tbl>`)
		}
	}
	b.WriteString(`<w:sectPr><w:pgSz w:w="12240" w:h="15840"/></w:sectPr></w:body></w:document>`)

	var st strings.Builder
	st.WriteString(xmlHdr + `<w:styles ` + wNS + `><w:docDefaults><w:rPrDefault><w:rPr><w:sz w:val="22"/></w:rPr></w:rPrDefault></w:docDefaults>` +
		`<w:style w:type="paragraph" w:default="1" w:styleId="Normal"><w:name w:val="Normal"/></w:style>`)
	for i := 1; i <= 9; i++ {
		fmt.Fprintf(&st, `<w:style w:type="paragraph" w:styleId="Heading%d"><w:name w:val="heading %d"/><w:basedOn w:val="Normal"/><w:next w:val="Normal"/><w:pPr><w:keepNext/><w:outlineLvl w:val="%d"/></w:pPr></w:style>`, i, i, i-1)
		fmt.Fprintf(&st, `<w:style w:type="paragraph" w:customStyle="1" w:styleId="Kapitel%d"><w:name w:val="Kapitel Ebene %s"/><w:basedOn w:val="Normal"/><w:next w:val="Normal"/><w:pPr><w:keepNext/><w:outlineLvl w:val="%d"/></w:pPr></w:style>`, i, string(rune('A'+i-1)), i-1)
		fmt.Fprintf(&st, `<w:style w:type="paragraph" w:customStyle="1" w:styleId="Abschnitt%d"><w:name w:val="Abschnitt %s"/><w:basedOn w:val="Heading%d"/><w:next w:val="Normal"/><w:pPr><w:keepLines/></w:pPr></w:style>`, i, string(rune('A'+i-1)), i)
	}
	st.WriteString(`<w:style w:type="paragraph" w:styleId="ListParagraph"><w:name w:val="List Paragraph"/><w:basedOn w:val="Normal"/><w:pPr><w:ind w:left="720"/></w:pPr></w:style></w:styles>`)

	var nu strings.Builder
	nu.WriteString(xmlHdr + `<w:numbering ` + wNS + `>`)
	absID := func(a int) int {
		if d.Num.IDs == 1 {
			return 10 + 3*a
		}
		return a
	}
	fileOrder := func(n int) []int { // positions 0..n-1 in the order the elements are written
		o := make([]int, n)
		for i := range o {
			o[i] = i
			if d.Num.IDs == 1 {
				o[i] = n - 1 - i
			}
		}
		return o
	}
	for _, a := range fileOrder(len(abstracts)) {
		fmt.Fprintf(&nu, `<w:abstractNum w:abstractNumId="%d"><w:multiLevelType w:val="hybridMultilevel"/>`, absID(a))
		lv := append([]docxLevel(nil), abstracts[a].levels...) // ascending by ilvl
		switch d.Num.Order {
		case 1:
			for i, j := 0, len(lv)-1; i < j; i, j = i+1, j-1 {
				lv[i], lv[j] = lv[j], lv[i]
			}
		case 2:
			hx.Shuffle(hx.NewRng(d.Num.Perm+uint64(a)), lv)
		}
		for _, l := range lv {
			fmtName, txt := "bullet", "•"
			if l.ordered {
				fmtName, txt = "decimal", fmt.Sprintf("%%%d.", l.ilvl+1)
			}
			fmt.Fprintf(&nu, `<w:lvl w:ilvl="%d"><w:start w:val="1"/><w:numFmt w:val="%s"/><w:lvlText w:val="%s"/><w:lvlJc w:val="left"/><w:pPr><w:ind w:left="%d" w:hanging="360"/></w:pPr></w:lvl>`, l.ilvl, fmtName, txt, 720*(l.ilvl+1))
		}
		nu.WriteString(`</w:abstractNum>`)
	}
	if len(nums) == 0 {
		nums = []int{0, 1}
	}
	for _, i := range fileOrder(len(nums)) {
		fmt.Fprintf(&nu, `<w:num w:numId="%d"><w:abstractNumId w:val="%d"/></w:num>`, i+1, absID(nums[i]))
	}
	nu.WriteString(`</w:numbering>`)

	wml := ctPrefix + "wordprocessingml."
	return writers.Zip([]writers.Member{
		member("[Content_Types].xml", contentTypes([2]string{"/word/document.xml", wml + "document.main+xml"}, [2]string{"/word/styles.xml", wml + "styles+xml"},
			[2]string{"/word/numbering.xml", wml + "numbering+xml"}, [2]string{"/docProps/core.xml", ctCore})),
		member("_rels/.rels", rels([3]string{"rId1", relDoc + "/officeDocument", "word/document.xml"}, [3]string{"rId2", relCore, "docProps/core.xml"})),
		member("word/document.xml", b.String()),
		member("word/_rels/document.xml.rels", rels([3]string{"rId1", relDoc + "/styles", "styles.xml"}, [3]string{"rId2", relDoc + "/numbering", "numbering.xml"})),
		member("word/styles.xml", st.String()),
		member("word/numbering.xml", nu.String()),
		member("docProps/core.xml", coreXML(d)),
	})
}

// docxLevel is one <w:lvl> of an abstract numbering; docxAbstract holds its levels ascending by ilvl.
type docxLevel struct {
	ilvl    int
	ordered bool
}
type docxAbstract struct{ levels []docxLevel }

func sharedAbstract(ordered bool) docxAbstract {
	var a docxAbstract
	for l := 0; l < 9; l++ {
		a.levels = append(a.levels, docxLevel{l, ordered})
	}
	return a
}

// ownAbstract returns the abstract numbering of a list block of its own: every depth an item uses
// with the kind of the items at that depth (ok = false when two items of one depth differ in kind: no
// single numbering expresses the block); the other levels 0..8, unless sparse, with the kind the
// deepest used level does not have.
func ownAbstract(items []Item, sparse bool) (a docxAbstract, ok bool) {
	kind := map[int]bool{}
	deepest := -1
	for _, it := range items {
		if k, seen := kind[it.Depth]; seen && k != it.Ordered {
			return a, false
		}
		kind[it.Depth] = it.Ordered
		deepest = max(deepest, it.Depth)
	}
	if deepest < 0 || deepest > 8 {
		return a, false
	}
	for l := 0; l < 9; l++ {
		if k, used := kind[l]; used {
			a.levels = append(a.levels, docxLevel{l, k})
		} else if !sparse {
			a.levels = append(a.levels, docxLevel{l, !kind[deepest]})
		}
	}
	return a, true
}

// ---------------------------------------------------------------- nested lists (ODT, HTML)

// nest renders a flat (Depth, Ordered) item sequence as properly nested lists: a deeper item opens a
// list inside the current item (inside a text-less item if there is none), a kind change at the same
// depth closes the list and opens a sibling list of the other kind.
func nest(items []Item, openList func(ordered bool, depth, idx int) string, closeList, openItem func(text string) string, closeItem string) string {
	type lvl struct{ ordered, itemOpen bool }
	var st []lvl
	var b strings.Builder
	pop := func() {
		if st[len(st)-1].itemOpen {
			b.WriteString(closeItem)
		}
		b.WriteString(closeList(""))
		st = st[:len(st)-1]
	}
	for i, it := range items {
		for len(st)-1 > it.Depth {
			pop()
		}
		if len(st)-1 == it.Depth {
			if top := &st[len(st)-1]; top.itemOpen {
				b.WriteString(closeItem)
				top.itemOpen = false
			}
			if st[len(st)-1].ordered != it.Ordered {
				pop()
			}
		}
		for len(st) < it.Depth+1 {
			if n := len(st); n > 0 && !st[n-1].itemOpen {
				b.WriteString(openItem(""))
				st[n-1].itemOpen = true
			}
			st = append(st, lvl{ordered: it.Ordered})
			b.WriteString(openList(it.Ordered, len(st)-1, i))
		}
		b.WriteString(openItem(it.Text))
		st[len(st)-1].itemOpen = true
	}
	for len(st) > 0 {
		pop()
	}
	return b.String()
}

// ---------------------------------------------------------------- ODT

const odfNS = `xmlns:office="urn:oasis:names:tc:opendocument:xmlns:office:1.0" xmlns:style="urn:oasis:names:tc:opendocument:xmlns:style:1.0" ` +
	`xmlns:text="urn:oasis:names:tc:opendocument:xmlns:text:1.0" xmlns:table="urn:oasis:names:tc:opendocument:xmlns:table:1.0" ` +
	`xmlns:fo="urn:oasis:names:tc:opendocument:xmlns:xsl-fo-compatible:1.0" xmlns:dc="http://purl.org/dc/elements/1.1/" ` +
	`xmlns:meta="urn:oasis:names:tc:opendocument:xmlns:meta:1.0" office:version="1.2"`

// odtText escapes paragraph text; white space that ODF 1.2 §6.1.2 would collapse becomes text:s / text:tab.
func odtText(s string) string {
	var b strings.Builder
	prevSpace := true // paragraph start
	for _, r := range s {
		switch {
		case r == ' ' && prevSpace:
			b.WriteString(`<text:s/>`)
		case r == '\t':
			b.WriteString(`<text:tab/>`)
		default:
			b.WriteString(esc(string(r)))
		}
		prevSpace = r == ' '
	}
	return b.String()
}

// odtPattern returns the per-depth kinds ('b'/'n') of the first root list in items (it ends before a
// depth-0 item of another kind), whether every depth has one kind only, and how many items it takes.
func odtPattern(items []Item) (pat []byte, ok bool, n int) {
	ok = true
	for n = 0; n < len(items); n++ {
		it := items[n]
		k := byte('b')
		if it.Ordered {
			k = 'n'
		}
		if n > 0 && it.Depth == 0 && len(pat) > 0 && pat[0] != k {
			break
		}
		for len(pat) <= it.Depth {
			pat = append(pat, 0)
		}
		for d := it.Depth; d >= 0 && pat[d] == 0; d-- { // text-less levels above a first deep item take its kind
			pat[d] = k
		}
		if pat[it.Depth] != k {
			ok = false
		}
	}
	return pat, ok, n
}

func odtListStyle(name string, pat []byte) string {
	s := `<text:list-style style:name="` + name + `">`
	for l := 1; l <= 10; l++ {
		k := pat[len(pat)-1]
		if l <= len(pat) {
			k = pat[l-1]
		}
		pos := fmt.Sprintf(`<style:list-level-properties text:space-before="%.3fcm" text:min-label-width="0.635cm"/>`, 0.635*float64(l))
		if k == 'n' {
			s += fmt.Sprintf(`<text:list-level-style-number text:level="%d" style:num-format="1" style:num-suffix=".">%s</text:list-level-style-number>`, l, pos)
		} else {
			s += fmt.Sprintf(`<text:list-level-style-bullet text:level="%d" text:bullet-char="•">%s</text:list-level-style-bullet>`, l, pos)
		}
	}
	return s + `</text:list-style>`
}

// odtColumns writes the column declaration of a table (ODF 1.2 part 1, 9.1.6 / 9.1.12; see Cols).
func odtColumns(c Cols, width int) string {
	const col = `<table:table-column/>`
	repeated := func(n int) string {
		if n == 1 {
			return col // number-columns-repeated defaults to 1
		}
		return fmt.Sprintf(`<table:table-column table:number-columns-repeated="%d"/>`, n)
	}
	n, any := c.declared(width)
	switch {
	case !any:
		return ""
	case c.Via == 1 || c.Via == 4:
		return strings.Repeat(col, n)
	case c.Via == 2 && n >= 2:
		return `<table:table-header-columns>` + col + `</table:table-header-columns><table:table-columns>` + repeated(n-1) + `</table:table-columns>`
	case c.Via == 2:
		return `<table:table-columns>` + col + `</table:table-columns>`
	case c.Via == 5:
		return repeated(n)
	}
	return fmt.Sprintf(`<table:table-column table:number-columns-repeated="%d"/>`, n)
}

func WriteODT(d Doc) []byte {
	var b, auto strings.Builder
	autoSeen := map[string]bool{}
	tables := 0
	for _, bl := range d.Blocks {
		switch bl.Kind {
		case "heading":
			// ODF 1.2 part 1, 5.1.2 / 19.844: the level of a text:h is its text:outline-level
			if bl.Via == 1 { // a paragraph style that says nothing about outline levels
				fmt.Fprintf(&b, `<text:h text:style-name="Chapter_20_Title" text:outline-level="%d">%s</text:h>`, bl.Level, odtText(bl.Text))
			} else { // the predefined style "Heading N" (default-outline-level N)
				fmt.Fprintf(&b, `<text:h text:style-name="Heading_20_%d" text:outline-level="%d">%s</text:h>`, bl.Level, bl.Level, odtText(bl.Text))
			}
		case "para":
			b.WriteString(`<text:p text:style-name="Standard">` + odtText(bl.Text) + `</text:p>`)
		case "list":
			var pat []byte // kinds per depth of the current root list's style
			kindAt := func(depth int) byte {
				if depth < len(pat) {
					return pat[depth]
				}
				return pat[len(pat)-1]
			}
			b.WriteString(nest(bl.Items, func(ordered bool, depth, idx int) string {
				if depth == 0 {
					pat, _, _ = odtPattern(bl.Items[idx:])
					name := "LM" + string(pat)
					switch {
					case strings.Trim(string(pat), "b") == "":
						name = "LB"
					case strings.Trim(string(pat), "n") == "":
						name = "LN"
					case !autoSeen[name]:
						autoSeen[name] = true
						auto.WriteString(odtListStyle(name, pat))
					}
					return `<text:list text:style-name="` + name + `">`
				}
				if want := map[bool]byte{false: 'b', true: 'n'}[ordered]; kindAt(depth) != want {
					return `<text:list text:style-name="L` + strings.ToUpper(string(want)) + `">` // spec-correct override, ignored by tabula
				}
				return `<text:list>`
			}, func(string) string { return `</text:list>` }, func(text string) string {
				if text == "" {
					return `<text:list-item>`
				}
				return `<text:list-item><text:p text:style-name="Standard">` + odtText(text) + `</text:p>`
			}, `</text:list-item>`))
		case "table":
			tables++
			fmt.Fprintf(&b, `<table:table table:name="Table%d">%s`, tables, odtColumns(bl.Cols, gridCols(bl.Rows)))
			hdr := 0
			if bl.Head.Set {
				hdr = min(bl.Head.Rows, len(bl.Rows))
			}
			for ri, row := range bl.Rows {
				if hdr > 0 && ri == 0 {
					b.WriteString(`<table:table-header-rows>`)
				}
				if hdr > 0 && ri == hdr && bl.Head.Via == 1 {
					b.WriteString(`<table:table-rows>`)
				}
				b.WriteString(`<table:table-row>`)
				for _, c := range row {
					if c.VCont {
						b.WriteString(strings.Repeat(`<table:covered-table-cell/>`, span(c)))
						continue
					}
					b.WriteString(`<table:table-cell office:value-type="string"`)
					if span(c) > 1 {
						fmt.Fprintf(&b, ` table:number-columns-spanned="%d"`, span(c))
					}
					if c.RowSpan > 1 {
						fmt.Fprintf(&b, ` table:number-rows-spanned="%d"`, c.RowSpan)
					}
					b.WriteString(`>`)
					for _, part := range strings.Split(c.Text, "\n") {
						b.WriteString(`<text:p text:style-name="Standard">` + odtText(part) + `</text:p>`)
					}
					b.WriteString(`</table:table-cell>` + strings.Repeat(`<table:covered-table-cell/>`, span(c)-1))
				}
				b.WriteString(`</table:table-row>`)
				if hdr > 0 && ri == hdr-1 {
					b.WriteString(`</table:table-header-rows>`)
				}
				if hdr > 0 && hdr < len(bl.Rows) && ri == len(bl.Rows)-1 && bl.Head.Via == 1 {
					b.WriteString(`</table:table-rows>`)
				}
			}
			b.WriteString(`</table:table>`)
		}
	}
	content := xmlHdr + `<office:document-content ` + odfNS + `><office:automatic-styles>` + auto.String() + `</office:automatic-styles><office:body><office:text>` +
		b.String() + `</office:text></office:body></office:document-content>`

	st := xmlHdr + `<office:document-styles ` + odfNS + `><office:styles><style:style style:name="Standard" style:family="paragraph" style:class="text"/>`
	for i := 1; i <= 10; i++ {
		st += fmt.Sprintf(`<style:style style:name="Heading_20_%d" style:display-name="Heading %d" style:family="paragraph" style:parent-style-name="Standard" style:default-outline-level="%d" style:class="text"/>`, i, i, i)
	}
	st += `<style:style style:name="Chapter_20_Title" style:display-name="Chapter Title" style:family="paragraph" style:parent-style-name="Standard" style:class="text"/>`
	st += odtListStyle("LB", []byte("b")) + odtListStyle("LN", []byte("n")) + `</office:styles></office:document-styles>`

	meta := xmlHdr + `<office:document-meta ` + odfNS + `><office:meta><dc:title>` + esc(d.Title) + `</dc:title><meta:initial-creator>` + esc(d.Author) +
		`</meta:initial-creator><dc:creator>` + esc(d.Author) + `</dc:creator></office:meta></office:document-meta>`
	const mime = "application/vnd.oasis.opendocument.text"
	manifest := xmlHdr + `<manifest:manifest xmlns:manifest="urn:oasis:names:tc:opendocument:xmlns:manifest:1.0" manifest:version="1.2">` +
		`<manifest:file-entry manifest:full-path="/" manifest:version="1.2" manifest:media-type="` + mime + `"/>`
	for _, n := range []string{"content.xml", "styles.xml", "meta.xml"} {
		manifest += `<manifest:file-entry manifest:full-path="` + n + `" manifest:media-type="text/xml"/>`
	}
	return writers.Zip([]writers.Member{
		{Name: "mimetype", Data: []byte(mime), Store: true},
		member("META-INF/manifest.xml", manifest+`</manifest:manifest>`),
		member("content.xml", content), member("styles.xml", st), member("meta.xml", meta),
	})
}

// ---------------------------------------------------------------- PPTX

const (
	aNS = `xmlns:a="http://schemas.openxmlformats.org/drawingml/2006/main"`
	rNS = `xmlns:r="http://schemas.openxmlformats.org/officeDocument/2006/relationships"`
	pNS = `xmlns:p="http://schemas.openxmlformats.org/presentationml/2006/main"`
)

func aPara(ppr, text string) string {
	if text != "" {
		text = `<a:r><a:rPr lang="en-US"/><a:t>` + esc(text) + `</a:t></a:r>`
	}
	return `<a:p>` + ppr + text + `</a:p>`
}

// pptxSlide collects the shapes of one slide in document order.
type pptxSlide struct {
	shapes strings.Builder
	body   []string // paragraphs of the text shape being collected
	nextID int      // shape ids; 1 is the group shape
	bodies int
}

func (s *pptxSlide) sp(name, ph, paras string) {
	s.nextID++
	fmt.Fprintf(&s.shapes, `<p:sp><p:nvSpPr><p:cNvPr id="%d" name="%s %d"/><p:cNvSpPr><a:spLocks noGrp="1"/></p:cNvSpPr><p:nvPr>%s</p:nvPr></p:nvSpPr><p:spPr/><p:txBody><a:bodyPr/><a:lstStyle/>%s</p:txBody></p:sp>`,
		s.nextID, name, s.nextID-1, ph, paras)
}

func (s *pptxSlide) flushBody() {
	if len(s.body) > 0 {
		s.bodies++
		s.sp("Content Placeholder", fmt.Sprintf(`<p:ph type="body" idx="%d"/>`, s.bodies), strings.Join(s.body, ""))
		s.body = nil
	}
}

func (s *pptxSlide) table(rows [][]Cell, head Head, cols Cols) {
	s.flushBody()
	firstRow := 1
	if head.Set && head.Rows == 0 {
		firstRow = 0
	}
	s.nextID++
	n := gridCols(rows)
	declared, _ := cols.declared(n)
	const colW, rowH = 1500000, 370840
	fmt.Fprintf(&s.shapes, `<p:graphicFrame><p:nvGraphicFramePr><p:cNvPr id="%d" name="Table %d"/><p:cNvGraphicFramePr><a:graphicFrameLocks noGrp="1"/></p:cNvGraphicFramePr><p:nvPr/></p:nvGraphicFramePr>`+
		`<p:xfrm><a:off x="457200" y="1600200"/><a:ext cx="%d" cy="%d"/></p:xfrm><a:graphic><a:graphicData uri="http://schemas.openxmlformats.org/drawingml/2006/table"><a:tbl><a:tblPr firstRow="%d"/><a:tblGrid>%s</a:tblGrid>`,
		s.nextID, s.nextID-1, colW*n, rowH*len(rows), firstRow, strings.Repeat(fmt.Sprintf(`<a:gridCol w="%d"/>`, colW), declared))
	const empty = `<a:txBody><a:bodyPr/><a:lstStyle/><a:p/></a:txBody><a:tcPr/></a:tc>`
	for _, row := range rows {
		fmt.Fprintf(&s.shapes, `<a:tr h="%d">`, rowH)
		for _, c := range row {
			attr, vm := "", ""
			if c.RowSpan > 1 && !c.VCont {
				vm = fmt.Sprintf(` rowSpan="%d"`, c.RowSpan)
			}
			if span(c) > 1 {
				attr = fmt.Sprintf(` gridSpan="%d"`, span(c))
			}
			if c.VCont {
				vm = ` vMerge="1"`
				s.shapes.WriteString(`<a:tc` + attr + vm + `>` + empty)
			} else {
				s.shapes.WriteString(`<a:tc` + vm + attr + `><a:txBody><a:bodyPr/><a:lstStyle/>`)
				for _, part := range strings.Split(c.Text, "\n") {
					s.shapes.WriteString(aPara("", part))
				}
				s.shapes.WriteString(`</a:txBody><a:tcPr/></a:tc>`)
			}
			s.shapes.WriteString(strings.Repeat(`<a:tc`+vm+` hMerge="1">`+empty, span(c)-1))
		}
		s.shapes.WriteString(`</a:tr>`)
	}
	s.shapes.WriteString(`</a:tbl></a:graphicData></a:graphic></p:graphicFrame>`)
}

func (s *pptxSlide) xml() string {
	s.flushBody()
	return xmlHdr + `<p:sld ` + aNS + ` ` + rNS + ` ` + pNS + `><p:cSld><p:spTree><p:nvGrpSpPr><p:cNvPr id="1" name=""/><p:cNvGrpSpPr/><p:nvPr/></p:nvGrpSpPr><p:grpSpPr/>` +
		s.shapes.String() + `</p:spTree></p:cSld></p:sld>`
}

func WritePPTX(d Doc) []byte {
	var slides []*pptxSlide
	cur := func() *pptxSlide {
		if len(slides) == 0 {
			slides = append(slides, &pptxSlide{nextID: 1})
		}
		return slides[len(slides)-1]
	}
	for _, bl := range d.Blocks {
		switch bl.Kind {
		case "heading":
			slides = append(slides, &pptxSlide{nextID: 1})
			cur().sp("Title", `<p:ph type="title"/>`, aPara("", bl.Text))
		case "para":
			cur().body = append(cur().body, aPara(`<a:pPr marL="0" indent="0"><a:buNone/></a:pPr>`, bl.Text))
		case "list":
			for _, it := range bl.Items {
				bu := `<a:buChar char="•"/>`
				if it.Ordered {
					bu = `<a:buAutoNum type="arabicPeriod"/>`
				}
				cur().body = append(cur().body, aPara(fmt.Sprintf(`<a:pPr lvl="%d">%s</a:pPr>`, it.Depth, bu), it.Text))
			}
		case "table":
			cur().table(bl.Rows, bl.Head, bl.Cols)
		}
	}
	cur()
	pml := ctPrefix + "presentationml."
	ct := [][2]string{{"/ppt/presentation.xml", pml + "presentation.main+xml"}, {"/docProps/core.xml", ctCore}}
	var prel [][3]string
	ids := ""
	ms := []writers.Member{}
	for i, s := range slides {
		ct = append(ct, [2]string{fmt.Sprintf("/ppt/slides/slide%d.xml", i+1), pml + "slide+xml"})
		prel = append(prel, [3]string{fmt.Sprintf("rId%d", i+1), relDoc + "/slide", fmt.Sprintf("slides/slide%d.xml", i+1)})
		ids += fmt.Sprintf(`<p:sldId id="%d" r:id="rId%d"/>`, 256+i, i+1)
		ms = append(ms, member(fmt.Sprintf("ppt/slides/slide%d.xml", i+1), s.xml()))
	}
	pres := xmlHdr + `<p:presentation ` + aNS + ` ` + rNS + ` ` + pNS + `><p:sldIdLst>` + ids + `</p:sldIdLst><p:sldSz cx="9144000" cy="6858000"/><p:notesSz cx="6858000" cy="9144000"/></p:presentation>`
	return writers.Zip(append([]writers.Member{
		member("[Content_Types].xml", contentTypes(ct...)),
		member("_rels/.rels", rels([3]string{"rId1", relDoc + "/officeDocument", "ppt/presentation.xml"}, [3]string{"rId2", relCore, "docProps/core.xml"})),
		member("ppt/presentation.xml", pres),
		member("ppt/_rels/presentation.xml.rels", rels(prel...)),
		member("docProps/core.xml", coreXML(d)),
	}, ms...))
}

// ---------------------------------------------------------------- HTML

var htmlEsc = strings.NewReplacer("&", "&amp;", "<", "&lt;", ">", "&gt;").Replace

func WriteHTML(d Doc) []byte {
	var b strings.Builder
	b.WriteString(`<!DOCTYPE html><html><head><meta charset="utf-8"><title>` + htmlEsc(d.Title) + `</title><meta name="author" content="` +
		strings.ReplaceAll(htmlEsc(d.Author), `"`, "&quot;") + `"></head><body>` + "\n")
	tag := map[bool]string{false: "ul", true: "ol"}
	for _, bl := range d.Blocks {
		switch bl.Kind {
		case "heading":
			fmt.Fprintf(&b, "<h%d>%s</h%d>\n", bl.Level, htmlEsc(bl.Text), bl.Level)
		case "para":
			b.WriteString("<p>" + htmlEsc(bl.Text) + "</p>\n")
		case "list":
			var open []string
			b.WriteString(nest(bl.Items, func(ordered bool, _, _ int) string {
				open = append(open, tag[ordered])
				return "<" + tag[ordered] + ">"
			}, func(string) string {
				t := open[len(open)-1]
				open = open[:len(open)-1]
				return "</" + t + ">"
			}, func(text string) string { return "<li>" + htmlEsc(text) }, "</li>") + "\n")
		case "table":
			b.WriteString(htmlTable(bl))
		}
	}
	b.WriteString("</body></html>\n")
	return []byte(b.String())
}

// htmlTable writes one table with the header spelling of bl.Head (see Head).
func htmlTable(bl Block) string {
	rows, h := bl.Rows, bl.Head
	if !h.Set {
		h = Head{Set: true, Rows: 1} // the spelling of the writer before Head existed
	}
	k := min(max(h.Rows, 0), len(rows))
	crosses := func(at int) bool { // a cell of row `at` continues a vertical merge from the row above
		if at <= 0 || at >= len(rows) {
			return false
		}
		for _, c := range rows[at] {
			if c.VCont {
				return true
			}
		}
		return false
	}
	via := h.Via
	if via <= 1 && crosses(k) {
		via = 2 // a rowspan may not leave its row group
	}
	foot := 0 // rows in <tfoot>
	if h.Foot && via <= 2 && len(rows)-k >= 2 && !crosses(len(rows)-1) {
		foot = 1
	}
	var b strings.Builder
	b.WriteString("<table>")
	// the column declaration (HTML 4.9.3 / 4.9.4); the table model takes the column count from the rows as well
	if n, any := bl.Cols.declared(gridCols(rows)); any {
		switch bl.Cols.Via {
		case 1, 4:
			b.WriteString("<colgroup>" + strings.Repeat("<col>", n) + "</colgroup>")
		case 2:
			fmt.Fprintf(&b, `<colgroup span="%d"></colgroup>`, n)
		case 5:
			fmt.Fprintf(&b, `<colgroup><col span="%d"></colgroup>`, n)
		}
	}
	open := ""
	group := func(name string) {
		if open == name {
			return
		}
		if open != "" {
			b.WriteString("</" + open + ">")
		}
		if name != "" {
			b.WriteString("<" + name + ">")
		}
		open = name
	}
	for i, row := range rows {
		switch {
		case via == 3:
		case via <= 1 && i < k:
			group("thead")
		case foot > 0 && i >= len(rows)-foot:
			group("tfoot")
		default:
			group("tbody")
		}
		b.WriteString("<tr>")
		for j, c := range row {
			if c.VCont {
				continue
			}
			el, attr := "td", ""
			if i < k && via != 1 {
				el = "th"
			}
			if i >= k && h.RowHead && j == 0 {
				el, attr = "th", ` scope="row"`
			}
			b.WriteString("<" + el + attr)
			if span(c) > 1 {
				fmt.Fprintf(&b, ` colspan="%d"`, span(c))
			}
			if c.RowSpan > 1 {
				fmt.Fprintf(&b, ` rowspan="%d"`, c.RowSpan)
			}
			b.WriteString(">" + strings.ReplaceAll(htmlEsc(c.Text), "\n", "<br>") + "</" + el + ">")
		}
		b.WriteString("</tr>")
	}
	group("")
	b.WriteString("</table>\n")
	return b.String()
}
