package c15

// Document-level correspondence, part 2: HTML, PPTX, XLSX (see docmodel.go).

import (
	"fmt"
	"strings"

	"github.com/tsawler/tabula/htmldoc"
	"github.com/tsawler/tabula/pptx"
	"github.com/tsawler/tabula/rag"
	"github.com/tsawler/tabula/xlsx"

	"verifharness/hx"
)

// ---------- HTML ----------

var htmlModes = []htmldoc.NavigationExclusionMode{htmldoc.NavigationExclusionNone, htmldoc.NavigationExclusionExplicit,
	htmldoc.NavigationExclusionStandard, htmldoc.NavigationExclusionAggressive}

// encHTMLElems: the element list of one mode; heading texts go to ext. ok=false: not spellable.
func encHTMLElems(c *hx.Ctx, els []htmldoc.VerifElement, ext *extSet) (string, bool) {
	var es []string
	for _, e := range els {
		switch e.Type {
		case htmldoc.ElementHeading:
			es = append(es, fmt.Sprintf("h=%d:%s", e.Level, hx.HexS(e.Text)))
			ext.l(e.Text)
			c.Count("docmodel html element heading")
		case htmldoc.ElementParagraph:
			es = append(es, "p="+hx.HexS(e.Text))
			c.Count("docmodel html element paragraph")
		case htmldoc.ElementList:
			var is []string
			for _, it := range e.Items {
				k := "u"
				if it.Ordered {
					k = "o"
				}
				is = append(is, fmt.Sprintf("%s.%d.%s", hx.HexS(it.Text), it.Level, k))
			}
			es = append(es, "l="+joinOr(is, ","))
			c.Count("docmodel html element list")
		case htmldoc.ElementTable:
			if e.Table == nil {
				es = append(es, "t=~")
				c.Count("docmodel html element table nil")
				continue
			}
			es = append(es, "t="+encHTable(e.Table.Rows))
			c.Count("docmodel html element table")
			if htmlSpans(e.Table.Rows) {
				c.Count("docmodel html element table with colspan/rowspan")
			}
		case htmldoc.ElementCode:
			es = append(es, "c="+hx.HexS(e.Text))
			c.Count("docmodel html element code")
		case htmldoc.ElementBlockquote:
			es = append(es, "q="+hx.HexS(e.Text))
			c.Count("docmodel html element blockquote")
		default:
			// ElementLink and unknown types: no case in markdown(), nothing written, not a heading
			c.Count("docmodel html element ignored by the writer")
		}
	}
	return joinOr(es, "|"), true
}

func genModelOptions(r *hx.Rng) rag.MarkdownOptions {
	return rag.MarkdownOptions{
		IncludeMetadata: r.Bool(), IncludeTableOfContents: r.Bool(), IncludeChunkSeparators: r.Bool(),
		IncludePageNumbers: r.Bool(), IncludeChunkIDs: r.Bool(),
		HeadingLevelOffset: r.Range(-3, 8), MaxHeadingLevel: r.Range(0, 7),
		SectionSeparator: hx.Pick(r, []string{"\n\n---\n\n", "\n\n---\n\n", "\n\n***\n\n", "", "\n", " -- ", "\n\n<!-- section -->\n\n"}),
	}
}

// htmlOps: open() gives a fresh reader on the same input each time it is called.
func htmlOps(c *hx.Ctx, open func() *htmldoc.Reader, r *hx.Rng, o rag.MarkdownOptions, kase interface{}, extPath string) {
	dump := open()
	title, meta := dump.VerifMeta()
	ext := newExt()
	ext.q(title)
	opt := func(k string) string {
		v, ok := meta[k]
		if !ok {
			return "~"
		}
		ext.q(v)
		return hx.HexS(v)
	}
	hmeta := strings.Join([]string{hx.HexS(title), opt("author"), opt("description"), opt("keywords")}, ":")
	elems := make([]string, len(htmlModes))
	for i, m := range htmlModes {
		s, ok := encHTMLElems(c, dump.VerifElements(m), ext)
		if !ok {
			c.Count("docmodel html input not encodable")
			return
		}
		elems[i] = s
	}
	emit := func(entry, oe string, mode int, md string) {
		mdOp(c, fmt.Sprintf("c15.htmlmd %s %s %s %s %s", entry, oe, ext.String(), hmeta, elems[mode]), md)
		c.Count("docmodel html entry " + strings.SplitN(entry, ":", 2)[0])
		c.Count(fmt.Sprintf("docmodel html mode %d", mode))
	}
	rd := open()
	if md, ok := dmCall(c, "html Markdown()", kase, rd.Markdown); ok {
		emit("mdo:00", defaultOptsEnc, 2, md)
	}
	exH, exF, m := r.Bool(), r.Bool(), r.Intn(4)
	if md, ok := dmCall(c, "html MarkdownWithOptions", kase, func() (string, error) {
		return rd.MarkdownWithOptions(htmldoc.ExtractOptions{ExcludeHeaders: exH, ExcludeFooters: exF, NavigationExclusion: htmlModes[m]})
	}); ok {
		emit(entryOf("mdo", exH, exF), defaultOptsEnc, m, md)
	}
	exH, exF, m = r.Bool(), r.Bool(), r.Intn(4)
	if md, ok := dmCall(c, "html MarkdownWithRAGOptions", kase, func() (string, error) {
		return rd.MarkdownWithRAGOptions(htmldoc.ExtractOptions{ExcludeHeaders: exH, ExcludeFooters: exF, NavigationExclusion: htmlModes[m]}, o)
	}); ok {
		emit(entryOf("rag", exH, exF), encOpts(o), m, md)
	}
	if extPath != "" {
		exH, exF = r.Bool(), r.Bool()
		if md, ok := dmCall(c, "html tabula.Open.ToMarkdownWithOptions", kase, func() (string, error) { return extractorMarkdown(extPath, exH, exF, o) }); ok {
			emit(entryOf("ext", exH, exF), encOpts(o), 0, md)
		}
	}
	// one reader, several calls: getElements caches the element list of each mode
	hist := open()
	var calls, outs []string
	for k := r.Range(3, 6); k > 0; k-- {
		var md string
		var ok bool
		switch r.Intn(5) {
		case 0:
			md, ok = dmCall(c, "html history Markdown()", kase, hist.Markdown)
			calls = append(calls, "md")
		case 1, 2:
			m := r.Intn(4)
			md, ok = dmCall(c, "html history MarkdownWithOptions", kase, func() (string, error) {
				return hist.MarkdownWithOptions(htmldoc.ExtractOptions{NavigationExclusion: htmlModes[m]})
			})
			calls = append(calls, fmt.Sprintf("mdo:%d", m))
		default:
			m, ho := r.Intn(4), genModelOptions(r)
			md, ok = dmCall(c, "html history MarkdownWithRAGOptions", kase, func() (string, error) {
				return hist.MarkdownWithRAGOptions(htmldoc.ExtractOptions{NavigationExclusion: htmlModes[m]}, ho)
			})
			calls = append(calls, fmt.Sprintf("rag:%d:%s", m, encOptsSep(ho, ";")))
		}
		if !ok {
			return
		}
		outs = append(outs, hx.HexS(md))
		readmdOp(c, md)
		c.Count("docmodel html history call " + strings.SplitN(calls[len(calls)-1], ":", 2)[0])
	}
	var modes []string
	for i := range htmlModes {
		modes = append(modes, fmt.Sprintf("%d=%s", i, elems[i]))
	}
	modelOp(c, fmt.Sprintf("c15.htmlhist %s %s %s %s", ext.String(), hmeta, strings.Join(modes, "#"), strings.Join(calls, ",")), strings.Join(outs, ","))
}

// ---------- PPTX ----------

// genSel: a SlideNumbers / Sheets selection over n items: empty (= all), or 1..4 indices that may be
// out of range, negative or repeated.
func genSel(r *hx.Rng, n int) []int {
	if r.Bool() {
		return nil
	}
	var sel []int
	for k := r.Range(1, 4); k > 0; k-- {
		sel = append(sel, r.Range(-2, n+1))
	}
	return sel
}

func pptxOps(c *hx.Ctx, rd *pptx.Reader, r *hx.Rng, o rag.MarkdownOptions, kase interface{}, extPath string) {
	meta := rd.Metadata()
	ext := newExt()
	ext.meta(meta)
	n := rd.SlideCount()
	var ss []string
	for i := 0; i < n; i++ {
		s, err := rd.Slide(i)
		if err != nil || s == nil {
			c.Count("docmodel pptx input not encodable")
			return
		}
		if s.Title != "" {
			ext.l(s.Title)
			c.Count("docmodel pptx slide with title")
		} else {
			ext.l(fmt.Sprintf("Slide %d", i+1))
			c.Count("docmodel pptx slide without title")
		}
		var bs []string
		for _, b := range s.Content {
			var ps []string
			for _, p := range b.Paragraphs {
				ps = append(ps, fmt.Sprintf("%s.%d.%s.%s", hx.HexS(p.Text), p.Level, b01(p.IsBullet), b01(p.IsNumbered)))
			}
			bs = append(bs, fmt.Sprintf("%s:%s:%s", b01(b.IsTitle), hx.HexS(b.Placeholder), joinOr(ps, ",")))
			c.Count("docmodel pptx block placeholder=" + b.Placeholder)
		}
		var ts []string
		for _, t := range s.Tables {
			rows := make([][]string, len(t.Rows))
			for ri, row := range t.Rows {
				for _, cell := range row {
					rows[ri] = append(rows[ri], cell.Text)
				}
			}
			e, ok := encRows(rows)
			if !ok {
				c.Count("docmodel pptx input not encodable")
				return
			}
			ts = append(ts, e)
			c.Count("docmodel pptx table")
		}
		if len(ts) == 1 && ts[0] == "-" { // one table without rows would read as "no tables"
			c.Count("docmodel pptx input not encodable")
			return
		}
		if s.Notes != "" {
			c.Count("docmodel pptx slide with notes")
		}
		ss = append(ss, fmt.Sprintf("%s/%s/%s/%s", hx.HexS(s.Title), hx.HexS(s.Notes), joinOr(bs, "+"), joinOr(ts, "+")))
	}
	c.Count(fmt.Sprintf("docmodel pptx slides=%d", min(n, 5)))
	slides := joinOr(ss, "|")
	emit := func(entry, oe, xe string, sel []int, md string) {
		mdOp(c, fmt.Sprintf("c15.pptxmd %s %s %s %s %s %s", entry, oe, xe, encMeta(meta), encSel(sel), slides), md)
		c.Count("docmodel pptx entry " + strings.SplitN(entry, ":", 2)[0])
	}
	if md, ok := dmCall(c, "pptx Markdown()", kase, rd.Markdown); ok {
		emit("mdo:000", defaultOptsEnc, "-", nil, md)
		pptxFirstItemOracle(c, rd, md, kase)
	}
	exH, exF, notes, sel := r.Bool(), r.Bool(), r.Bool(), genSel(r, n)
	if md, ok := dmCall(c, "pptx MarkdownWithOptions", kase, func() (string, error) {
		return rd.MarkdownWithOptions(pptx.ExtractOptions{ExcludeHeaders: exH, ExcludeFooters: exF, IncludeNotes: notes, IncludeTitles: r.Bool(), SlideNumbers: sel})
	}); ok {
		emit(entryOf("mdo", exH, exF, notes), defaultOptsEnc, "-", sel, md)
	}
	exH, exF, notes, sel = r.Bool(), r.Bool(), r.Bool(), genSel(r, n)
	if md, ok := dmCall(c, "pptx MarkdownWithRAGOptions", kase, func() (string, error) {
		return rd.MarkdownWithRAGOptions(pptx.ExtractOptions{ExcludeHeaders: exH, ExcludeFooters: exF, IncludeNotes: notes, IncludeTitles: true, SlideNumbers: sel}, o)
	}); ok {
		emit(entryOf("rag", exH, exF, notes), encOpts(o), ext.String(), sel, md)
	}
	if extPath != "" {
		exH, exF = r.Bool(), r.Bool()
		if md, ok := dmCall(c, "pptx tabula.Open.ToMarkdownWithOptions", kase, func() (string, error) { return extractorMarkdown(extPath, exH, exF, o) }); ok {
			emit(entryOf("ext", exH, exF), encOpts(o), ext.String(), nil, md)
		}
	}
}

// pptxFirstItemOracle: statement level, from the property text ("list items keep their ... nesting depth"):
// when the presentation's first slide has no title and the first thing it shows is a list item of depth
// k > 0, the Markdown starts with that item's line, indented by two spaces per level.
func pptxFirstItemOracle(c *hx.Ctx, rd *pptx.Reader, md string, kase interface{}) {
	if rd.SlideCount() == 0 {
		return
	}
	s, err := rd.Slide(0)
	if err != nil || s == nil || s.Title != "" {
		return
	}
	for _, b := range s.Content {
		if b.IsTitle {
			continue
		}
		for _, p := range b.Paragraphs {
			if p.Text == "" {
				continue
			}
			if (p.IsBullet || p.IsNumbered) && p.Level > 0 && !strings.ContainsAny(p.Text, "\n") && strings.TrimSpace(p.Text) == p.Text {
				marker := "- "
				if p.IsNumbered {
					marker = "1. "
				}
				want := strings.Repeat("  ", p.Level) + marker + p.Text
				c.Check("C15/list-depth-pptx-first-item-nested", strings.HasPrefix(md, want), kase, func() string {
					return fmt.Sprintf("first item is at depth %d, Markdown starts %q, want %q", p.Level, md[:min(len(md), 60)], want)
				})
				c.Count("docmodel pptx first item nested")
			}
			return
		}
	}
}

// ---------- XLSX ----------

func encXSheet(s *xlsx.Sheet) string {
	var rs []string
	for _, row := range s.Rows {
		if len(row) == 0 {
			rs = append(rs, "_")
			continue
		}
		cs := make([]string, len(row))
		for i, cell := range row {
			cs[i] = fmt.Sprintf("%s.%s.%s.%s", hx.HexS(cell.Value), b01(cell.Type == xlsx.CellTypeEmpty), b01(cell.IsMerged), b01(cell.IsMergeRoot))
		}
		rs = append(rs, strings.Join(cs, ","))
	}
	return fmt.Sprintf("%s/%d/%s", hx.HexS(s.Name), s.MaxCol, joinOr(rs, ";"))
}

func xlsxOps(c *hx.Ctx, rd *xlsx.Reader, r *hx.Rng, o rag.MarkdownOptions, kase interface{}, extPath string) {
	meta := rd.Metadata()
	ext := newExt()
	ext.meta(meta)
	n := rd.SheetCount()
	var ss []string
	for i := 0; i < n; i++ {
		s, err := rd.Sheet(i)
		if err != nil || s == nil {
			c.Count("docmodel xlsx input not encodable")
			return
		}
		ext.l(s.Name)
		enc := encXSheet(s)
		ss = append(ss, enc)
		var b [4]int
		if p := hx.Safe(func() { b[0], b[1], b[2], b[3] = xlsx.VerifFindContentBounds(s) }); p != "" {
			c.Check("C15/panic-docmodel", false, kase, func() string { return "xlsx findContentBounds: " + p })
			return
		}
		modelOp(c, "c15.bounds "+enc, fmt.Sprintf("%d %d %d %d", b[0], b[1], b[2], b[3]))
		switch {
		case len(s.Rows) == 0:
			c.Count("docmodel xlsx sheet without rows")
		case b[0] > b[1] || b[2] > b[3]:
			c.Count("docmodel xlsx sheet without content")
		default:
			c.Count("docmodel xlsx sheet with content")
		}
	}
	c.Count(fmt.Sprintf("docmodel xlsx sheets=%d", min(n, 4)))
	sheets := joinOr(ss, "|")
	emit := func(entry, oe, xe string, sel []int, md string) {
		mdOp(c, fmt.Sprintf("c15.xlsxmd %s %s %s %s %s %s", entry, oe, xe, encMeta(meta), encSel(sel), sheets), md)
		c.Count("docmodel xlsx entry " + strings.SplitN(entry, ":", 2)[0])
	}
	if md, ok := dmCall(c, "xlsx Markdown()", kase, rd.Markdown); ok {
		emit("mdo:00", defaultOptsEnc, "-", nil, md)
	}
	exH, exF, sel := r.Bool(), r.Bool(), genSel(r, n)
	if md, ok := dmCall(c, "xlsx MarkdownWithOptions", kase, func() (string, error) {
		return rd.MarkdownWithOptions(xlsx.ExtractOptions{ExcludeHeaders: exH, ExcludeFooters: exF, IncludeHeaders: r.Bool(), Sheets: sel})
	}); ok {
		emit(entryOf("mdo", exH, exF), defaultOptsEnc, "-", sel, md)
	}
	exH, exF, sel = r.Bool(), r.Bool(), genSel(r, n)
	if md, ok := dmCall(c, "xlsx MarkdownWithRAGOptions", kase, func() (string, error) {
		return rd.MarkdownWithRAGOptions(xlsx.ExtractOptions{ExcludeHeaders: exH, ExcludeFooters: exF, Sheets: sel}, o)
	}); ok {
		emit(entryOf("rag", exH, exF), encOpts(o), ext.String(), sel, md)
	}
	if extPath != "" {
		exH, exF = r.Bool(), r.Bool()
		if md, ok := dmCall(c, "xlsx tabula.Open.ToMarkdownWithOptions", kase, func() (string, error) { return extractorMarkdown(extPath, exH, exF, o) }); ok {
			emit(entryOf("ext", exH, exF), encOpts(o), ext.String(), nil, md)
		}
	}
}
