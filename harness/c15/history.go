package c15

// Call histories: the property speaks of "rendering to Markdown" — of every rendering, not of the
// first one an object makes. A <format>.Reader is opened once and asked several times: Markdown(),
// MarkdownWithOptions(), MarkdownWithRAGOptions(o) under different heading configurations, with
// Text() and Document() calls in between, in any order. What each rendering must be is what it must
// be on a fresh Reader: checkDocument with the options of THAT call (the authored levels shifted by
// that call's offset and capped at that call's maximum; same lists, tables, texts). Nothing the
// harness expects depends on what was called before, so whatever a Reader keeps from one call to the
// next (cached elements, counters, maps) shows as a failure of the statement-level oracles, with the
// history in the detail line and in the case's Opt field.
//
// Two users:
//   - runDocument: every generated document, a random history of 4..7 calls on one Reader;
//   - runSweepDoc: the file with a heading of every expressible level, all 70 heading configurations in
//     random order plus the plain entry points on one Reader (every configuration follows some other).
// The PDF pipeline's writer has the same shape one level down: one rag.ChunkCollection rendered under
// several options (runRagHistory).

import (
	"fmt"
	"strings"

	"github.com/tsawler/tabula/docx"
	"github.com/tsawler/tabula/htmldoc"
	"github.com/tsawler/tabula/model"
	"github.com/tsawler/tabula/odt"
	"github.com/tsawler/tabula/pptx"
	"github.com/tsawler/tabula/rag"
	"github.com/tsawler/tabula/xlsx"

	"verifharness/hx"
)

// session is one open <format>.Reader with the calls a history is made of.
type session struct {
	markdown func() (string, error)                      // Reader.Markdown()
	withOpts func() (string, error)                      // Reader.MarkdownWithOptions(extraction options)
	withRAG  func(o rag.MarkdownOptions) (string, error) // Reader.MarkdownWithRAGOptions(extraction options, o)
	text     func() (string, error)                      // Reader.Text()
	document func() (*model.Document, error)             // Reader.Document()
	close    func() error
}

func openSession(format, path string) (*session, error) {
	switch format {
	case "docx":
		rd, err := docx.Open(path)
		if err != nil {
			return nil, err
		}
		return &session{rd.Markdown, func() (string, error) { return rd.MarkdownWithOptions(docx.ExtractOptions{}) },
			func(o rag.MarkdownOptions) (string, error) {
				return rd.MarkdownWithRAGOptions(docx.ExtractOptions{}, o)
			},
			rd.Text, rd.Document, rd.Close}, nil
	case "odt":
		rd, err := odt.Open(path)
		if err != nil {
			return nil, err
		}
		return &session{rd.Markdown, func() (string, error) { return rd.MarkdownWithOptions(odt.ExtractOptions{}) },
			func(o rag.MarkdownOptions) (string, error) { return rd.MarkdownWithRAGOptions(odt.ExtractOptions{}, o) },
			rd.Text, rd.Document, rd.Close}, nil
	case "pptx":
		rd, err := pptx.Open(path)
		if err != nil {
			return nil, err
		}
		eo := pptx.ExtractOptions{IncludeNotes: true, IncludeTitles: true}
		return &session{rd.Markdown, func() (string, error) { return rd.MarkdownWithOptions(eo) },
			func(o rag.MarkdownOptions) (string, error) { return rd.MarkdownWithRAGOptions(eo, o) },
			rd.Text, rd.Document, rd.Close}, nil
	case "html":
		rd, err := htmldoc.Open(path)
		if err != nil {
			return nil, err
		}
		return &session{rd.Markdown, func() (string, error) { return rd.MarkdownWithOptions(htmldoc.ExtractOptions{}) },
			func(o rag.MarkdownOptions) (string, error) {
				return rd.MarkdownWithRAGOptions(htmldoc.ExtractOptions{}, o)
			},
			rd.Text, rd.Document, rd.Close}, nil
	}
	rd, err := xlsx.Open(path)
	if err != nil {
		return nil, err
	}
	return &session{rd.Markdown, func() (string, error) { return rd.MarkdownWithOptions(xlsx.ExtractOptions{}) },
		func(o rag.MarkdownOptions) (string, error) {
			return rd.MarkdownWithRAGOptions(xlsx.ExtractOptions{}, o)
		},
		rd.Text, rd.Document, rd.Close}, nil
}

// step is one call of a history. Kind: "md" Markdown(), "opt" MarkdownWithOptions(), "rag"
// MarkdownWithRAGOptions(O), "text" Text(), "doc" Document() (the last two are not renderings: nothing
// is expected of them here, they are the other things a caller does with a Reader in between).
type step struct {
	Kind string
	O    rag.MarkdownOptions
}

func (s step) String() string {
	if s.Kind == "rag" {
		return fmt.Sprintf("rag(offset=%d,max=%d,meta=%v,toc=%v)", s.O.HeadingLevelOffset, s.O.MaxHeadingLevel, s.O.IncludeMetadata, s.O.IncludeTableOfContents)
	}
	return s.Kind
}

// genHeadingOptions: any heading configuration of the quantifier (offset -2..+7, max 1..6 and the
// zero value), document flags at random.
func genHeadingOptions(r *hx.Rng) rag.MarkdownOptions {
	o := rag.DefaultMarkdownOptions()
	o.HeadingLevelOffset = r.Range(-2, 7)
	o.MaxHeadingLevel = r.Range(0, 6)
	o.IncludeMetadata = r.Bool()
	o.IncludeTableOfContents = r.Bool()
	return o
}

// genHistory: n calls, about two thirds of them renderings with heading options; a repeated
// configuration (the same call twice) and a return to the default options are likely.
func genHistory(r *hx.Rng, n int) []step {
	var h []step
	var used []rag.MarkdownOptions
	for len(h) < n {
		switch r.Intn(12) {
		case 0:
			h = append(h, step{Kind: "md"})
		case 1:
			h = append(h, step{Kind: "opt"})
		case 2:
			h = append(h, step{Kind: "text"})
		case 3:
			h = append(h, step{Kind: "doc"})
		case 4:
			h = append(h, step{Kind: "rag", O: rag.DefaultMarkdownOptions()})
		case 5:
			if len(used) > 0 {
				h = append(h, step{Kind: "rag", O: hx.Pick(r, used)})
				break
			}
			fallthrough
		default:
			o := genHeadingOptions(r)
			used = append(used, o)
			h = append(h, step{Kind: "rag", O: o})
		}
	}
	return h
}

// runHistory opens ONE Reader on path and makes the calls of h on it, checking every rendering
// against the authored document under the options of that call.
func runHistory(c *hx.Ctx, format, path string, d Doc, h []step, kase docCase) {
	var s *session
	var err error
	if p := hx.Safe(func() { s, err = openSession(format, path) }); p != "" {
		c.Check("C15/panic", false, kase, func() string { return format + " Open: " + p })
		return
	}
	if !c.Check("C15/open-"+format, err == nil, kase, func() string { return fmt.Sprint("history: ", err) }) {
		return
	}
	defer s.close()
	was := dedupOps
	dedupOps = true // the same document again and again: literal repeats of a correspondence pair add nothing
	defer func() { dedupOps = was }()
	var before []string
	for i, st := range h {
		k := kase
		k.Opt = fmt.Sprintf("same Reader, call %d of %d: %s after [%s]", i+1, len(h), st, strings.Join(before, " "))
		before = append(before, st.String())
		var md string
		var err error
		o := rag.MarkdownOptions{MaxHeadingLevel: 6} // the entry points without heading options: source levels, 1..6
		via := ""
		pn := hx.Safe(func() {
			switch st.Kind {
			case "md":
				via = "Reader.Markdown"
				md, err = s.markdown()
			case "opt":
				via = "Reader.MarkdownWithOptions"
				md, err = s.withOpts()
			case "rag":
				via, o = "Reader.MarkdownWithRAGOptions", st.O
				md, err = s.withRAG(st.O)
			case "text":
				_, err = s.text()
			case "doc":
				_, err = s.document()
			}
		})
		if pn != "" {
			c.Check("C15/panic", false, k, func() string { return format + " " + k.Opt + ": " + pn })
			return
		}
		c.Count("history " + format + " call " + st.Kind)
		if via == "" {
			continue // not a rendering
		}
		if !c.Check("C15/open-"+format, err == nil, k, func() string { return fmt.Sprint(k.Opt, ": ", err) }) {
			return
		}
		checkDocument(c, format, d, o, md, k, via+" ("+k.Opt+")")
	}
}

// sweepHistory: all 70 heading configurations in random order, the plain entry points and the
// non-rendering calls strewn in.
func sweepHistory(r *hx.Rng) []step {
	var h []step
	for _, o := range sweepOptions() {
		h = append(h, step{Kind: "rag", O: o})
	}
	for _, k := range []string{"md", "opt", "text", "doc", "md", "opt"} {
		h = append(h, step{Kind: k})
	}
	hx.Shuffle(r, h)
	return h
}

// runRagHistory: one rag.ChunkCollection (what tabula.Open(pdf).Chunks() hands out) rendered under
// several options in a row; every rendering is checked under its own options.
func runRagHistory(c *hx.Ctx, idx int, d Doc, kase docCase) {
	r := c.Rng.Fork(uint64(49)<<40 | uint64(idx))
	var cc *rag.ChunkCollection
	if p := hx.Safe(func() { cc = rag.ChunkDocument(ragModelDoc(d)) }); p != "" {
		c.Check("C15/panic", false, kase, func() string { return "ChunkDocument: " + p })
		return
	}
	was := dedupOps
	dedupOps = true
	defer func() { dedupOps = was }()
	var before []string
	n := r.Range(3, 5)
	var used []rag.MarkdownOptions
	for i := 0; i < n; i++ {
		o := ragOptions(r.Intn(4620))
		switch {
		case r.Chance(1, 6):
			o = rag.DefaultMarkdownOptions()
		case len(used) > 0 && r.Chance(1, 5):
			o = hx.Pick(r, used)
		}
		used = append(used, o)
		desc := fmt.Sprintf("(offset=%d,max=%d,meta=%v,toc=%v,sep=%v,pages=%v,ids=%v)", o.HeadingLevelOffset, o.MaxHeadingLevel, o.IncludeMetadata, o.IncludeTableOfContents, o.IncludeChunkSeparators, o.IncludePageNumbers, o.IncludeChunkIDs)
		k := kase
		k.Opt = fmt.Sprintf("same ChunkCollection, rendering %d of %d: %s after [%s]", i+1, n, desc, strings.Join(before, " "))
		before = append(before, desc)
		var md string
		if p := hx.Safe(func() { md = cc.ToMarkdownWithOptions(o) }); p != "" {
			c.Check("C15/panic", false, k, func() string { return k.Opt + ": " + p })
			return
		}
		checkDocument(c, ragFormat, d, o, md, k, "ChunkCollection.ToMarkdownWithOptions ("+k.Opt+")")
		c.Count("history ragdoc rendering")
	}
}
