package c15

import (
	"fmt"

	"github.com/tsawler/tabula/rag"

	"verifharness/hx"
)

// levelsDirect ties rag.MarkdownOptions.AdjustHeadingLevel (the arithmetic behind
// MarkdownWithRAGOptions of htmldoc, pptx and xlsx; docx and odt carry the same lines inline and
// are tied through the generated documents) to the model, on the whole box.
func levelsDirect(c *hx.Ctx, level, off, max int, kase interface{}) {
	o := rag.MarkdownOptions{HeadingLevelOffset: off, MaxHeadingLevel: max}
	n := o.AdjustHeadingLevel(level)
	c.Op(fmt.Sprintf("c15.hlvl %d %d %d", level, off, max), fmt.Sprint(n))
	c.Check("C15/heading-range", n >= 1 && n <= 6, kase, func() string {
		return fmt.Sprintf("AdjustHeadingLevel(%d) offset %d max %d = %d", level, off, max, n)
	})
	if inQuantifier(level, off, max) {
		c.Check("C15/heading-level-adjust", n == clampLevel(level, off, max), kase, func() string {
			return fmt.Sprintf("AdjustHeadingLevel(%d) offset %d max %d = %d, want %d", level, off, max, n, clampLevel(level, off, max))
		})
	}
}
