package c15

import (
	"fmt"
	"os"
	"path/filepath"
	"strings"

	"github.com/tsawler/tabula"
	"github.com/tsawler/tabula/docx"
	"github.com/tsawler/tabula/htmldoc"
	"github.com/tsawler/tabula/odt"
	"github.com/tsawler/tabula/pptx"
	"github.com/tsawler/tabula/rag"
	"github.com/tsawler/tabula/xlsx"

	"verifharness/hx"
	"verifharness/writers"
)

var docFormats = []string{"docx", "odt", "pptx", "html", "xlsx"}

var docWords = []string{"Alpha", "beta gamma", "Δelta", "Total | net", "Übersicht", "日本語の見出し", "R&D <plan>", "Q3 “results”", "Mixed CASE text", "snake_case_name", "star * and # hash", "a+b=c", "Zürich 2024", "x"}

func genText(r *hx.Rng, tag string, n int) string {
	s := fmt.Sprintf("%s%d %s", tag, n, hx.Pick(r, docWords))
	if r.Chance(1, 3) {
		s += " " + hx.Pick(r, docWords)
	}
	return s
}

// genDocTable: a grid with at most one horizontal and one vertical merge (consistent spans).
func genDocTable(r *hx.Rng, merges bool) [][]Cell {
	rows, width := r.Range(1, 4), r.Range(1, 4)
	g := make([][]Cell, rows)
	for i := range g {
		for j := 0; j < width; j++ {
			// no tabs: ODF writes them as <text:tab/>, which is C16's subject, not Markdown's
			g[i] = append(g[i], Cell{Text: strings.ReplaceAll(genCell(r), "\t", " "), ColSpan: 1, RowSpan: 1})
		}
	}
	if g[0][0].Text == "" {
		g[0][0].Text = "h"
	}
	if g[rows-1][width-1].Text == "" {
		g[rows-1][width-1].Text = "z" // xlsx: content bounds are the table
	}
	if !merges {
		return g
	}
	hr, hc, hk := -1, -1, 0
	if width >= 2 && r.Bool() {
		hr, hc = r.Intn(rows), r.Intn(width-1)
		hk = r.Range(1, width-1-hc)
	}
	vr, vc, vm := -1, -1, 0
	if rows >= 2 && r.Bool() {
		vr, vc = r.Intn(rows-1), r.Intn(width)
		vm = r.Range(1, rows-1-vr)
		if hr >= vr && hr <= vr+vm && vc >= hc && vc <= hc+hk { // overlap: drop the vertical one
			vr = -1
		}
	}
	if vr >= 0 {
		g[vr][vc].RowSpan = vm + 1
		for k := 1; k <= vm; k++ {
			g[vr+k][vc] = Cell{VCont: true, ColSpan: 1, RowSpan: 1}
		}
	}
	if hr >= 0 {
		g[hr][hc].ColSpan = hk + 1
		g[hr] = append(g[hr][:hc+1], g[hr][hc+1+hk:]...)
	}
	return g
}

func genDoc(r *hx.Rng, format string) Doc {
	d := Doc{Title: "Doc " + hx.Pick(r, docWords), Author: "A. Writer"}
	n := 0
	heading := func() {
		n++
		// every level the format can express, in every spelling its writer has
		d.Blocks = append(d.Blocks, Block{Kind: "heading", Level: r.Range(1, MaxSourceLevel(format)), Via: r.Intn(HeadingVias(format)), Text: genText(r, "Head", n)})
	}
	para := func() {
		n++
		d.Blocks = append(d.Blocks, Block{Kind: "para", Text: genText(r, "Para", n)})
	}
	list := func() {
		kindAt := []bool{r.Bool(), r.Bool(), r.Bool(), r.Bool()}
		var items []Item
		depth := 0
		for k := r.Range(1, 6); k > 0; k-- {
			n++
			items = append(items, Item{Depth: depth, Ordered: kindAt[depth], Text: genText(r, "Item", n)})
			depth = r.Range(0, min(depth+1, 3))
		}
		d.Blocks = append(d.Blocks, Block{Kind: "list", Items: items})
	}
	table := func() {
		d.Blocks = append(d.Blocks, Block{Kind: "table", Rows: genDocTable(r, format != "xlsx" && r.Bool())})
	}
	if format == "xlsx" {
		for k := r.Range(1, 3); k > 0; k-- {
			table()
		}
		return d
	}
	if r.Chance(4, 5) {
		heading()
	}
	for k := r.Range(3, 8); k > 0; k-- {
		switch r.Intn(7) {
		case 0, 1:
			heading()
		case 2:
			para()
		case 3, 4:
			list()
			para() // a paragraph ends the list (two adjacent lists are one list in Markdown)
		default:
			table()
		}
	}
	return d
}

// recurTitles: heading texts that documents repeat ("Overview" under every chapter). Single line,
// nothing a Markdown reader would take for a marker at the start of a line.
var recurTitles = []string{"Overview", "Summary | notes", "Übersicht", "Usage", "Notes and “remarks”", "日本語の見出し"}

// decorateDoc varies what genDoc leaves fixed, from a generator of its own (genDoc's draws, and with
// them GenRich, stay as they are):
//   - which rows / cells of a table the source marks as header (Head): 0, 1, 2, 3 or all rows as
//     header rows in every spelling the format has, row-header cells, a footer group;
//   - recurring heading texts: in half of the documents the heading texts come from a pool of two or
//     three titles, so equal titles occur at the same and at different levels, next to each other
//     and with other headings in between;
//   - where on its sheet a worksheet's table lies (Place, XLSX): in A1 as before in two of five tables,
//     else under 1..9 blank rows and/or right of 1..6 blank columns, the blank rows in every spelling
//     the writer has, with or without blank rows / cells after the table. Drawn from a fork of r taken
//     before anything else, so the other decorations are what they were.
//   - how the source declares what the rows and items refer to (from a second fork, so again nothing
//     else moves): the column declaration of every table (Cols: exact in three spellings, absent, or
//     naming fewer columns than the rows have cells) in ODT, DOCX, PPTX and HTML, and the spelling of a
//     DOCX numbering.xml (NumSpelling: list blocks with a mixed bullet/decimal multilevel numbering of
//     their own, <w:lvl> elements in ascending, descending or shuffled order, unused levels left out,
//     abstractNumIds that are not the positions in the file).
func decorateDoc(r *hx.Rng, d *Doc, format string) {
	pr := r.Fork(0x706c616365)
	sr := r.Fork(0x7370656c6c)
	if format == "docx" {
		d.Num = NumSpelling{Own: sr.Chance(2, 3), Order: sr.Intn(3), Sparse: sr.Chance(1, 3), IDs: sr.Intn(2), Perm: sr.U64()}
	}
	if format != "xlsx" {
		for i := range d.Blocks {
			if b := &d.Blocks[i]; b.Kind == "table" && sr.Chance(2, 3) {
				b.Cols = Cols{Via: sr.Intn(ColsVias)}
				if w := gridCols(b.Rows); w >= 2 {
					b.Cols.Short = sr.Range(1, w-1)
				}
			}
		}
	}
	if format == "xlsx" {
		for i := range d.Blocks {
			if b := &d.Blocks[i]; b.Kind == "table" && !pr.Chance(2, 5) {
				b.At = Place{Blank: pr.Intn(PlaceBlanks), Below: pr.Bool()}
				switch pr.Intn(4) {
				case 0: // blank columns only: the table still starts in row 1
					b.At.Col = pr.Range(1, 6)
				case 1:
					b.At.Row, b.At.Col = hx.Pick(pr, []int{1, 1, 2, 2, 3, 9}), pr.Range(1, 6)
				default:
					b.At.Row = hx.Pick(pr, []int{1, 1, 2, 2, 3, 9})
				}
			}
		}
	}
	pool := append([]string(nil), recurTitles...)
	hx.Shuffle(r, pool)
	pool = pool[:r.Range(2, 3)]
	recur := r.Bool()
	for i := range d.Blocks {
		b := &d.Blocks[i]
		switch b.Kind {
		case "heading":
			if recur && r.Chance(3, 4) {
				b.Text = hx.Pick(r, pool)
			}
		case "table":
			if r.Chance(3, 4) {
				n := len(b.Rows)
				b.Head = Head{Set: true, Rows: hx.Pick(r, []int{0, 1, 2, 2, 3, n - 1, n}), Via: r.Intn(HeadVias(format)), RowHead: r.Chance(1, 4), Foot: r.Chance(1, 5)}
				b.Head.Rows = min(max(b.Head.Rows, 0), n)
			}
		}
	}
}

// GenRich returns the bytes of a generated document of the format ("docx", "odt", "pptx",
// "html", "xlsx") with headings, nested lists and tables with merged cells — for other
// harnesses that need a structurally rich valid document.
func GenRich(r *hx.Rng, format string) []byte { return writeDoc(format, genDoc(r, format)) }

func docOptions(idx int) rag.MarkdownOptions {
	o := rag.DefaultMarkdownOptions()
	o.HeadingLevelOffset = -2 + idx%10
	o.MaxHeadingLevel = 1 + (idx/10)%6
	o.IncludeMetadata = idx%2 == 1
	o.IncludeTableOfContents = idx%3 == 1
	if idx%7 == 6 {
		o.MaxHeadingLevel = 0 // the zero value: no configured maximum, only the 1..6 range applies
	}
	return o
}

func writeDoc(format string, d Doc) []byte {
	switch format {
	case "docx":
		return WriteDOCX(d)
	case "odt":
		return WriteODT(d)
	case "pptx":
		return WritePPTX(d)
	case "html":
		return WriteHTML(d)
	}
	// xlsx: one sheet per table, cells as inline strings, the table placed on the sheet as b.At says
	var wb writers.XWorkbook
	for i, b := range d.Blocks {
		sh := writers.XSheet{Name: fmt.Sprintf("Sheet%d", i+1), Path: fmt.Sprintf("worksheets/sheet%d.xml", i+1), RID: fmt.Sprintf("rId%d", i+1)}
		p := b.At
		width := gridCols(b.Rows)
		ref := func(ci, rn int) string { return xlsx.IndexToColumn(ci) + fmt.Sprint(rn) }
		blankRow := func(rn int) writers.XRow {
			xr := writers.XRow{R: rn}
			if p.Blank == 2 {
				for ci := 0; ci < p.Col+width+1; ci++ {
					xr.Cells = append(xr.Cells, writers.XCell{Ref: ref(ci, rn)})
				}
			}
			return xr
		}
		if p.Blank >= 1 {
			for rn := 1; rn <= p.Row; rn++ {
				sh.Rows = append(sh.Rows, blankRow(rn))
			}
		}
		for ri, row := range b.Rows {
			rn := p.Row + ri + 1
			xr := writers.XRow{R: rn}
			if p.Blank == 2 {
				for ci := 0; ci < p.Col; ci++ {
					xr.Cells = append(xr.Cells, writers.XCell{Ref: ref(ci, rn)})
				}
			}
			for ci, cell := range row {
				if cell.Text == "" {
					continue
				}
				v := cell.Text
				xr.Cells = append(xr.Cells, writers.XCell{Ref: ref(p.Col+ci, rn), T: "inlineStr", Is: &v})
			}
			if p.Blank == 2 && p.Below {
				xr.Cells = append(xr.Cells, writers.XCell{Ref: ref(p.Col+width, rn)})
			}
			sh.Rows = append(sh.Rows, xr)
		}
		if p.Below && p.Blank >= 1 {
			sh.Rows = append(sh.Rows, blankRow(p.Row+len(b.Rows)+1))
		}
		wb.Sheets = append(wb.Sheets, sh)
	}
	return writers.Zip(writers.XLSXMembers(wb))
}

// readerMarkdown goes through <format>.Reader.MarkdownWithRAGOptions.
func readerMarkdown(format, path string, o rag.MarkdownOptions) (string, error) {
	switch format {
	case "docx":
		rd, err := docx.Open(path)
		if err != nil {
			return "", err
		}
		defer rd.Close()
		return rd.MarkdownWithRAGOptions(docx.ExtractOptions{}, o)
	case "odt":
		rd, err := odt.Open(path)
		if err != nil {
			return "", err
		}
		defer rd.Close()
		return rd.MarkdownWithRAGOptions(odt.ExtractOptions{}, o)
	case "pptx":
		rd, err := pptx.Open(path)
		if err != nil {
			return "", err
		}
		defer rd.Close()
		return rd.MarkdownWithRAGOptions(pptx.ExtractOptions{IncludeNotes: true, IncludeTitles: true}, o)
	case "html":
		rd, err := htmldoc.Open(path)
		if err != nil {
			return "", err
		}
		defer rd.Close()
		return rd.MarkdownWithRAGOptions(htmldoc.ExtractOptions{}, o)
	}
	rd, err := xlsx.Open(path)
	if err != nil {
		return "", err
	}
	defer rd.Close()
	return rd.MarkdownWithRAGOptions(xlsx.ExtractOptions{}, o)
}

// plainMarkdown goes through <format>.Reader.Markdown().
func plainMarkdown(format, path string) (string, error) {
	switch format {
	case "docx":
		rd, err := docx.Open(path)
		if err != nil {
			return "", err
		}
		defer rd.Close()
		return rd.Markdown()
	case "odt":
		rd, err := odt.Open(path)
		if err != nil {
			return "", err
		}
		defer rd.Close()
		return rd.Markdown()
	case "pptx":
		rd, err := pptx.Open(path)
		if err != nil {
			return "", err
		}
		defer rd.Close()
		return rd.Markdown()
	case "html":
		rd, err := htmldoc.Open(path)
		if err != nil {
			return "", err
		}
		defer rd.Close()
		return rd.Markdown()
	}
	rd, err := xlsx.Open(path)
	if err != nil {
		return "", err
	}
	defer rd.Close()
	return rd.Markdown()
}

type docCase struct {
	Kind   string `json:"kind"`
	Seed   uint64 `json:"seed"`
	Index  int    `json:"index"`
	Format string `json:"format"`
	File   string `json:"file,omitempty"`
	Opt    string `json:"opt,omitempty"` // heading sweep: the entry point / configuration that failed (replay runs the whole sweep of the file)
}

// dedupOps: inside the heading sweep one file is read ~140 times, so most correspondence pairs
// repeat literally; a pair (op line, implementation output) that was already emitted is not
// emitted again (an identical pair cannot change the diff with the Lean driver).
var (
	dedupOps bool
	seenOps  = map[string]struct{}{}
)

func docOp(c *hx.Ctx, line, out string) {
	if dedupOps {
		k := line + "\x00" + out
		if _, ok := seenOps[k]; ok {
			return
		}
		seenOps[k] = struct{}{}
	}
	c.Op(line, out)
}

func runDocument(c *hx.Ctx, idx int, format string, keep bool) {
	fi := 0
	for i, f := range docFormats {
		if f == format {
			fi = i
		}
	}
	r := c.Rng.Fork(uint64(3+fi)<<40 | uint64(idx))
	d := genDoc(r, format)
	decorateDoc(c.Rng.Fork(uint64(24+fi)<<40|uint64(idx)), &d, format)
	o := docOptions(idx)
	path := filepath.Join(c.OutDir, fmt.Sprintf("c15-%d.%s", idx, format))
	os.WriteFile(path, writeDoc(format, d), 0o644)
	kase := docCase{Kind: "doc", Seed: c.Seed, Index: idx, Format: format}
	if keep {
		kase.File = path
	} else {
		defer os.Remove(path)
	}
	var md1, md2 string
	var err1, err2 error
	if p := hx.Safe(func() {
		md1, err1 = readerMarkdown(format, path, o)
		md2, _, err2 = tabula.Open(path).ToMarkdownWithOptions(o)
	}); p != "" {
		c.Check("C15/panic", false, kase, func() string { return format + " markdown: " + p })
		return
	}
	if !c.Check("C15/open-"+format, err1 == nil && err2 == nil, kase, func() string { return fmt.Sprint(err1, " / ", err2) }) {
		return
	}
	checkDocument(c, format, d, o, md1, kase, "Reader.MarkdownWithRAGOptions")
	if idx%3 == 0 { // the plain Reader.Markdown() path: no offset, levels as in the source
		var md0 string
		var err0 error
		if p := hx.Safe(func() { md0, err0 = plainMarkdown(format, path) }); p != "" || err0 != nil {
			c.Check("C15/panic", p == "", kase, func() string { return format + " Markdown(): " + p })
		} else {
			checkDocument(c, format, d, rag.MarkdownOptions{MaxHeadingLevel: 6}, md0, kase, "Reader.Markdown")
		}
	}
	if md2 != md1 {
		checkDocument(c, format, d, o, md2, kase, "tabula.Open.ToMarkdownWithOptions")
	}
	// one Reader, several calls (history.go)
	runHistory(c, format, path, d, genHistory(c.Rng.Fork(uint64(56+fi)<<40|uint64(idx)), 4+idx%4), kase)
	docModelFile(c, idx, format, path, o, kase) // every entry point against the Lean document model (docmodel.go)
	nontrivial := false
	for _, b := range d.Blocks {
		if b.Kind != "para" {
			nontrivial = true
		}
		c.Count(format + " block " + b.Kind)
		if b.Kind == "table" && format != "xlsx" {
			w := gridCols(b.Rows)
			n, any := b.Cols.declared(w)
			switch {
			case !any:
				c.Count(format + " table columns undeclared")
			case n < w:
				c.Count(format + " table columns declared < row width")
			default:
				c.Count(format + fmt.Sprintf(" table columns declared exactly via=%d", b.Cols.Via))
			}
		}
		if b.Kind == "list" && format == "docx" {
			if own, ok := ownAbstract(b.Items, false); ok && d.Num.Own {
				mixed := false
				for _, it := range b.Items {
					mixed = mixed || it.Ordered != own.levels[0].ordered
				}
				c.Count(fmt.Sprintf("docx list own numbering mixed=%v lvl-order=%d sparse=%v ids=%d", mixed, d.Num.Order, d.Num.Sparse, d.Num.IDs))
			} else {
				c.Count(fmt.Sprintf("docx list shared numberings lvl-order=%d ids=%d", d.Num.Order, d.Num.IDs))
			}
		}
		if format == "xlsx" {
			c.Count(fmt.Sprintf("xlsx table blank rows above=%d", b.At.Row))
			c.Count(fmt.Sprintf("xlsx table blank columns left=%d", b.At.Col))
			if b.At.Row > 0 {
				c.Count(fmt.Sprintf("xlsx blank rows spelled=%d", b.At.Blank))
			}
		}
	}
	c.Count(fmt.Sprintf("opts offset=%d", o.HeadingLevelOffset))
	c.Count(fmt.Sprintf("opts max=%d", o.MaxHeadingLevel))
	c.Case(format+fmt.Sprint(d, o.HeadingLevelOffset, o.MaxHeadingLevel, o.IncludeMetadata, o.IncludeTableOfContents), nontrivial)
}

func checkDocument(c *hx.Ctx, format string, d Doc, o rag.MarkdownOptions, md string, kase docCase, via string) {
	got := readMD(md)
	readmdOp(c, md) // the reader itself against the Lean reading spec (docmodel_streams.go)
	if format == ragFormat && d.Title != "" && len(got.Headings) > 0 && got.Headings[0].Level == 1 && got.Headings[0].Text == d.Title {
		// the document title line the chunk writer puts on top ("# <title>", generated titles are no
		// heading texts): not a source heading
		got.Headings = got.Headings[1:]
	}
	show := func() string {
		if len(md) > 1500 {
			return md[:1500] + "…"
		}
		return md
	}
	// --- headings ---
	var wantH []mdHeading
	var srcH []int // authored level of each heading
	for _, b := range d.Blocks {
		if b.Kind == "heading" {
			lvl := b.Level
			if format == "pptx" {
				lvl = 1 // slide titles
			}
			wantH = append(wantH, mdHeading{Level: clampLevel(lvl, o.HeadingLevelOffset, o.MaxHeadingLevel), Text: b.Text})
			srcH = append(srcH, lvl)
		}
	}
	c.Check("C15/heading-range", len(got.TooDeep) == 0, kase, func() string {
		return fmt.Sprintf("%s: not an ATX heading (more than 6 #): %q", via, got.TooDeep)
	})
	if format != "xlsx" { // sheet names are tabula's own headings, not source headings
		ok, detail := len(got.Headings) == len(wantH), ""
		if !ok {
			detail = fmt.Sprintf("%d headings read, %d authored", len(got.Headings), len(wantH))
		}
		for i := 0; ok && i < len(wantH); i++ {
			if got.Headings[i].Level != wantH[i].Level || squash(got.Headings[i].Text) != squash(wantH[i].Text) {
				ok = false
				detail = fmt.Sprintf("heading %d: read %q, want level %d (offset %d, max %d) text %q", i, got.Headings[i].Raw, wantH[i].Level, o.HeadingLevelOffset, o.MaxHeadingLevel, wantH[i].Text)
			}
		}
		hkey := "C15/heading-level-" + format
		if format == ragFormat {
			// own failure class: documents in which a heading repeats the text of the heading before it
			// (the section it closes has the title of the section it opens)
			for i := 1; i < len(wantH); i++ {
				if wantH[i].Text == wantH[i-1].Text {
					hkey = "C15/heading-level-" + format + "-title-equals-previous-heading"
				}
			}
		}
		c.Check(hkey, ok, kase, func() string { return via + ": " + detail + "\nauthored: " + outline(d) + "\n" + show() })
		for i := 0; ok && i < len(wantH); i++ {
			docOp(c, fmt.Sprintf("c15.hlvl %d %d %d", srcH[i], o.HeadingLevelOffset, o.MaxHeadingLevel), fmt.Sprint(got.Headings[i].Level))
			docOp(c, "c15.atx "+hx.HexS(got.Headings[i].Raw), fmt.Sprintf("%d %s", got.Headings[i].Level, hx.HexS(got.Headings[i].Text)))
		}
	}
	// --- lists ---
	var wantI []Item
	for _, b := range d.Blocks {
		wantI = append(wantI, b.Items...)
	}
	okOrder, okDepth, okKind := len(got.Items) == len(wantI), true, true
	detail := ""
	if !okOrder {
		detail = fmt.Sprintf("%d list lines read, %d items authored", len(got.Items), len(wantI))
	}
	for i := 0; okOrder && i < len(wantI); i++ {
		g, w := got.Items[i], wantI[i]
		if squash(g.Text) != squash(w.Text) {
			okOrder = false
			detail = fmt.Sprintf("item %d: read %q, authored %q", i, g.Raw, w.Text)
			break
		}
		if g.Depth != w.Depth && okDepth {
			okDepth = false
			detail += fmt.Sprintf("item %d: read %q, authored depth %d; ", i, g.Raw, w.Depth)
		}
		if g.Ordered != w.Ordered && okKind {
			okKind = false
			detail += fmt.Sprintf("item %d: read %q, authored ordered=%v; ", i, g.Raw, w.Ordered)
		}
	}
	c.Check("C15/list-order", okOrder, kase, func() string { return format + " " + via + ": " + detail + "\n" + show() })
	if okOrder {
		dkey := "C15/list-depth"
		if format == ragFormat {
			// own failure class: documents with a list whose first item is nested (createListChunk used to
			// trim that item's indentation away: fixed in the worktree, efed37d)
			for _, b := range d.Blocks {
				if b.Kind == "list" && len(b.Items) > 0 && b.Items[0].Depth > 0 {
					dkey = "C15/list-depth-ragdoc-first-item-nested"
				}
			}
		}
		c.Check(dkey, okDepth, kase, func() string { return format + " " + via + ": " + detail + "\n" + show() })
		c.Check("C15/list-kind", okKind, kase, func() string { return format + " " + via + ": " + detail + "\n" + show() })
		for i, g := range got.Items {
			if g.Depth == wantI[i].Depth && g.Ordered == wantI[i].Ordered {
				kind := "u"
				if g.Ordered {
					kind = "o"
				}
				docOp(c, fmt.Sprintf("c15.list %d:%s:%d:%s", wantI[i].Depth, kind, g.Num, hx.HexS(g.Text)), hx.HexS(g.Raw))
				docOp(c, "c15.listparse "+hx.HexS(g.Raw), fmt.Sprintf("%d %s %s", g.Depth, kind, hx.HexS(g.Text)))
			}
		}
	}
	// --- tables ---
	var wantT [][][]string
	for _, b := range d.Blocks {
		if b.Kind == "table" {
			wantT = append(wantT, spanGrid(b.Rows))
		}
	}
	anyMerged := false
	var mergedT []bool
	for _, b := range d.Blocks {
		if b.Kind == "table" {
			m := false
			for _, row := range b.Rows {
				for _, cell := range row {
					if cell.ColSpan > 1 || cell.RowSpan > 1 || cell.VCont {
						m = true
					}
				}
			}
			mergedT = append(mergedT, m)
			anyMerged = anyMerged || m
		}
	}
	tkey := func(m bool) string {
		if m {
			return "merged-" + format // tables with merged cells: own failure class
		}
		return format
	}
	okT := len(got.Tables) == len(wantT)
	c.Check("C15/table-shape-"+tkey(anyMerged), okT, kase, func() string {
		return fmt.Sprintf("%s: %d pipe-table blocks read, %d tables authored\n%s", via, len(got.Tables), len(wantT), show())
	})
	for i := 0; okT && i < len(wantT); i++ {
		checkGridEq(c, tkey(mergedT[i]), strings.Join(got.Tables[i].Lines, "\n")+"\n", wantT[i], kase,
			func(a, b string) bool { return squashWS(a) == squashWS(b) })
	}
	// --- no body text lost ---
	sq := squash(md)
	var lost []string
	need := func(s string) {
		if t := squashWS(s); t != "" && !strings.Contains(sq, t) {
			lost = append(lost, s)
		}
	}
	for _, b := range d.Blocks {
		need(b.Text)
		for _, it := range b.Items {
			need(it.Text)
		}
		for _, row := range b.Rows {
			for _, cell := range row {
				for _, part := range strings.Split(cell.Text, "\n") {
					need(part)
				}
			}
		}
	}
	c.Check("C15/body-text-lost-"+format, len(lost) == 0, kase, func() string {
		return fmt.Sprintf("%s: authored text missing from the Markdown: %q\n%s", via, lost, show())
	})
}

func documents(c *hx.Ctx) {
	n := c.N(60, 480)
	for _, format := range docFormats {
		for i := 0; i < n; i++ {
			runDocument(c, i, format, false)
		}
	}
}
