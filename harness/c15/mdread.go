package c15

// The harness's reader for the Markdown documents tabula writes: ATX headings (CommonMark 4.2),
// list item lines (two spaces of indentation per nesting level, "- " or "<digits>. " markers),
// GFM pipe tables (gfm.go), everything else is paragraph text. YAML front matter and the
// generated table of contents are skipped.

import (
	"regexp"
	"strings"
)

type mdHeading struct {
	Level int
	Text  string
	Raw   string
}
type mdItem struct {
	Depth   int
	Ordered bool
	Num     int
	Text    string
	Raw     string
}
type mdTable struct {
	OK    bool
	Rows  [][]string
	Lines []string
}
type mdDoc struct {
	Headings []mdHeading
	Items    []mdItem
	Tables   []mdTable
	Paras    []string
	TooDeep  []string // lines of 7 or more '#' followed by a space
}

var (
	reATX  = regexp.MustCompile(`^(#+)(?: (.*))?$`)
	reItem = regexp.MustCompile(`^( *)(?:([-*+])|([0-9]+)\.) (.*)$`)
)

func readMD(md string) mdDoc {
	var d mdDoc
	lines := strings.Split(md, "\n")
	if len(lines) > 0 && lines[0] == "---" { // YAML front matter: up to and including the next "---"
		i := 1
		for i < len(lines) && lines[i] != "---" {
			i++
		}
		lines = lines[min(i+1, len(lines)):]
	}
	// the generated table of contents: the first "## Table of Contents" line and everything up to and
	// including the next "---" are not part of the document (the lines around them are neighbours)
	for t, l := range lines {
		if l == "## Table of Contents" {
			e := t + 1
			for e < len(lines) && lines[e] != "---" {
				e++
			}
			lines = append(append([]string(nil), lines[:t]...), lines[min(e+1, len(lines)):]...)
			break
		}
	}
	for i := 0; i < len(lines); i++ {
		l := lines[i]
		switch {
		case strings.TrimSpace(l) == "" || l == "---":
		case strings.HasPrefix(l, "|"):
			var block []string
			for i < len(lines) && strings.HasPrefix(lines[i], "|") {
				block = append(block, lines[i])
				i++
			}
			i--
			rows, ok := GFMTable(block)
			d.Tables = append(d.Tables, mdTable{OK: ok, Rows: rows, Lines: block})
		case strings.HasPrefix(l, "> "):
		case reATX.MatchString(l):
			m := reATX.FindStringSubmatch(l)
			if len(m[1]) > 6 {
				d.TooDeep = append(d.TooDeep, l)
			}
			d.Headings = append(d.Headings, mdHeading{Level: len(m[1]), Text: m[2], Raw: l})
		case reItem.MatchString(l):
			m := reItem.FindStringSubmatch(l)
			it := mdItem{Depth: len(m[1]) / 2, Ordered: m[3] != "", Text: m[4], Raw: l}
			if it.Ordered {
				for _, ch := range m[3] {
					it.Num = it.Num*10 + int(ch-'0')
					if it.Num > 1<<30 {
						break
					}
				}
			}
			d.Items = append(d.Items, it)
		default:
			d.Paras = append(d.Paras, l)
		}
	}
	return d
}

var reWS = regexp.MustCompile(`\s+`)

// squash: white-space runs to one space, `\|` back to `|` (for "is this text still there": what a
// piece of written Markdown says, pipe escapes of table rows undone).
func squash(s string) string {
	return strings.TrimSpace(reWS.ReplaceAllString(strings.ReplaceAll(s, `\|`, "|"), " "))
}

// squashWS: white-space runs to one space and nothing else — for AUTHORED text and for cell texts
// the table reader has already unescaped: a backslash in front of a pipe is part of such a text.
func squashWS(s string) string { return strings.TrimSpace(reWS.ReplaceAllString(s, " ")) }
